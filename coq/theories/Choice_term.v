(* C04 -- totality of the model of Choices.generate on well-formed input: no IndexError, and the
   `while` loops of simplify terminate (explicit fuel bound), for every iteration order that is a
   permutation of the set. *)
From Coq Require Import List Arith Bool ZArith Lia Sorted Permutation.
From PM Require Import Choice Choice_base Choice_passes Choice_build Choice_proofs.
Import ListNotations.

Ltac lia' := unfold dseq, delta in *; lia.

(* total number of deltas *)
Definition msize (S : list dseq) : nat := fold_right (fun s a => length s + a) 0 S.

Definition ord_perm (ord : order) : Prop := forall k l, Permutation (ord k l) l.

Lemma ord_perm_ok ord : ord_perm ord -> ord_ok ord.
Proof.
  intros H k l x. split; apply Permutation_in; [apply H | apply Permutation_sym, H].
Qed.

Lemma ord_id_perm : ord_perm ord_id.
Proof. intros k l. apply Permutation_refl. Qed.

Lemma msize_perm l l' : Permutation l l' -> msize l = msize l'.
Proof. induction 1; simpl; lia'. Qed.

Lemma msize_app l l' : msize (l ++ l') = msize l + msize l'.
Proof. induction l; simpl; lia'. Qed.

Lemma msize_filter f l : msize (filter f l) <= msize l /\ length (filter f l) <= length l.
Proof. induction l as [|a t [IH1 IH2]]; simpl; [lia'|]. destruct (f a); simpl; lia'. Qed.

Lemma filter_drop (f : dseq -> bool) l x : In x l -> f x = false ->
  msize (filter f l) + length x <= msize l /\ length (filter f l) < length l.
Proof.
  induction l as [|a t IH]; intros Hin Hf; [destruct Hin|]. simpl.
  destruct Hin as [->|Hin].
  - rewrite Hf. pose proof (msize_filter f t). lia'.
  - destruct (IH Hin Hf). destruct (f a); simpl; lia'.
Qed.

Lemma set_add_measure x l :
  msize (set_add dseq_eqb x l) <= length x + msize l /\ length (set_add dseq_eqb x l) <= S (length l).
Proof.
  unfold set_add. destruct (memb dseq_eqb x l); [lia'|].
  rewrite msize_app, app_length. simpl. lia'.
Qed.

Lemma nonempty_len_msize S : (forall s, In s S -> s <> []) -> length S <= msize S.
Proof.
  induction S as [|a t IH]; intros H; simpl; [lia'|].
  assert (a <> []) by (apply H; now left). destruct a; [congruence|].
  simpl. specialize (IH (fun s Hs => H s (or_intror Hs))). lia'.
Qed.

Lemma wf_nonempty dom n S : wf_seqs dom n S -> forall s, In s S -> s <> [].
Proof. intros H s Hs. apply (H s Hs). Qed.

(* ---------- _reduce: measure and absence of IndexError ---------- *)

Lemma filter_res_total {A} (f : A -> res bool) l :
  (forall x, In x l -> exists b, f x = Ok b) -> exists r, filter_res f l = Ok r.
Proof.
  induction l as [|a t IH]; intros H; simpl; [eexists; reflexivity|].
  destruct (H a (or_introl eq_refl)) as [b ->].
  destruct IH as [r ->]; [intros x Hx; apply H; now right|]. eexists; reflexivity.
Qed.

Section ReduceMeasure.
  Context (sub_eq : dseq -> dseq -> res bool) (get_ : dseq -> nat) (keep_ : dseq -> dseq) (dom : list nat).
  Context (H_keep : forall s1, 1 < length s1 -> incl (keep_ s1) s1 /\ length (keep_ s1) < length s1).
  Context (H_total : forall s1 s2, s1 <> [] -> s2 <> [] -> exists b, sub_eq s1 s2 = Ok b).

  Lemma reduce_loop_measure cands S :
    (forall s, In s cands -> In s S /\ 1 < length s) -> (forall s, In s S -> s <> []) ->
    match reduce_loop sub_eq get_ keep_ dom cands S with
    | Ok (Some S') => msize S' < msize S /\ length S' <= length S
    | Ok None => True
    | Err _ => False
    end.
  Proof.
    intros Hc Hne. induction cands as [|s1 rest IH]; simpl; [exact I|].
    destruct (Hc s1 (or_introl eq_refl)) as [Hs1 Hl1].
    destruct (filter_res_total (sub_eq s1) S) as [ms Hms].
    { intros x Hx. apply H_total; [|now apply Hne]. intros ->. simpl in Hl1. lia'. }
    rewrite Hms. destruct (set_eqb Nat.eqb (map get_ ms) dom).
    - destruct (H_keep s1 Hl1) as [Hi Hl].
      destruct (filter_drop (fun item => negb (subset_b (keep_ s1) item)) S s1 Hs1) as [Hm Hlen].
      { apply negb_false_iff, subset_b_spec, Hi. }
      pose proof (set_add_measure (keep_ s1) (remove_subset (keep_ s1) S)) as [Ha1 Ha2].
      unfold remove_subset in *. unfold dseq, delta in *. lia'.
    - apply IH. intros s Hs. apply Hc. now right.
  Qed.

  Lemma _reduce_measure S : (forall s, In s S -> s <> []) ->
    match _reduce sub_eq get_ keep_ dom S with
    | Ok (Some S') => msize S' < msize S /\ length S' <= length S
    | Ok None => True
    | Err _ => False
    end.
  Proof.
    intros Hne. unfold _reduce. apply reduce_loop_measure; [|exact Hne].
    intros s Hs. apply filter_In in Hs. destruct Hs as [Hs Hl]. apply Nat.ltb_lt in Hl. auto.
  Qed.
End ReduceMeasure.

Lemma removelast_length {A} (l : list A) : l <> [] -> S (length (removelast l)) = length l.
Proof.
  induction l as [|a t IH]; intros H; [congruence|]. destruct t as [|b t]; [reflexivity|].
  simpl in *. rewrite IH by discriminate. reflexivity.
Qed.

Lemma reduce_measure dom S : (forall s, In s S -> s <> []) ->
  match reduce dom S with
  | Ok (Some S') => msize S' < msize S /\ length S' <= length S
  | Ok None => True
  | Err _ => False
  end.
Proof.
  apply _reduce_measure.
  - intros [|a t] Hl; simpl in *; [lia'|]. split; [intros x Hx; now right | lia'].
  - intros [|[a i] t] [|[b j] u] H1 H2; try congruence. simpl. eexists; reflexivity.
Qed.

Lemma reduce_end_measure dom S : (forall s, In s S -> s <> []) ->
  match reduce_end dom S with
  | Ok (Some S') => msize S' < msize S /\ length S' <= length S
  | Ok None => True
  | Err _ => False
  end.
Proof.
  apply _reduce_measure.
  - intros s1 Hl. assert (s1 <> []) as Hne by (intros ->; simpl in Hl; lia'). split.
    + intros x. apply In_removelast.
    + pose proof (removelast_length s1 Hne). lia'.
  - intros [|a t] [|b u] H1 H2; try congruence. simpl. eexists; reflexivity.
Qed.

(* ---------- while loops ---------- *)

Lemma while_reduce_total rd ord key dom n :
  (forall S S', rd S = Ok (Some S') -> wf_seqs dom n S -> wf_seqs dom n S' /\ equiv_on dom n S S') ->
  (forall S, (forall s, In s S -> s <> []) ->
     match rd S with
     | Ok (Some S') => msize S' < msize S /\ length S' <= length S
     | Ok None => True
     | Err _ => False
     end) ->
  ord_perm ord -> forall fuel S, msize S < fuel -> wf_seqs dom n S ->
  exists S', while_reduce rd ord key fuel S = Ok S' /\ wf_seqs dom n S' /\
             msize S' <= msize S /\ length S' <= length S.
Proof.
  intros Hrd Hm Hord. induction fuel as [|f IH]; intros S Hf Hw; [lia'|]. simpl.
  assert (wf_seqs dom n (ord (f :: key) S)) as Hw0.
  { eapply wf_seqs_same_set; [|exact Hw]. intros x. symmetry. apply (ord_perm_ok _ Hord). }
  pose proof (Hm _ (wf_nonempty _ _ _ Hw0)) as Hstep.
  pose proof (msize_perm _ _ (Hord (f :: key) S)) as Hp1.
  pose proof (Permutation_length (Hord (f :: key) S)) as Hp2.
  destruct (rd (ord (f :: key) S)) as [[S1|]|e] eqn:E; [| |destruct Hstep].
  - destruct (Hrd _ _ E Hw0) as [Hw1 _]. destruct Hstep as [Hs1 Hs2].
    destruct (IH S1) as [S' [H1 [H2 [H3 H4]]]]; [lia' | exact Hw1 |].
    exists S'. split; [exact H1|]. split; [exact H2|]. lia'.
  - exists S. split; [reflexivity|]. split; [exact Hw|]. lia'.
Qed.

(* ---------- unique_sequences, except_one: measures do not grow ---------- *)

Lemma insert_by_len_msize x l : msize (insert_by_len x l) = length x + msize l.
Proof. induction l as [|a t IH]; simpl; [lia'|]. destruct (_ <=? _); simpl; lia'. Qed.

Lemma sort_by_len_measure l : msize (sort_by_len l) = msize l /\ length (sort_by_len l) = length l.
Proof.
  induction l as [|a t [IH1 IH2]]; simpl; [lia'|].
  rewrite insert_by_len_msize, insert_by_len_length. lia'.
Qed.

Lemma uniq_loop_measure fuel l : msize (uniq_loop fuel l) <= msize l /\ length (uniq_loop fuel l) <= length l.
Proof.
  revert l. induction fuel as [|f IH]; intros l; simpl; [lia'|].
  destruct l as [|x t]; simpl; [lia'|].
  destruct (IH (remove_subset x t)) as [H1 H2].
  destruct (msize_filter (fun item => negb (subset_b x item)) t) as [H3 H4].
  unfold remove_subset in *. lia'.
Qed.

Lemma unique_sequences_measure S :
  msize (unique_sequences S) <= msize S /\ length (unique_sequences S) <= length S.
Proof.
  unfold unique_sequences. destruct (uniq_loop_measure (length (sort_by_len S)) (sort_by_len S)).
  destruct (sort_by_len_measure S). lia'.
Qed.

Lemma strip_length f0 p : In f0 p -> length (strip f0 p) < length p.
Proof.
  intros H. unfold strip. induction p as [|a t IH]; [destruct H|]. simpl.
  destruct H as [->|H].
  - assert (delta_eqb f0 f0 = true) as -> by now apply delta_eqb_eq. simpl.
    pose proof (filter_length_le' (fun x => negb (delta_eqb x f0)) t). lia'.
  - specialize (IH H). destruct (negb (delta_eqb a f0)); simpl; lia'.
Qed.

Lemma strip_not_in f0 p : ~ In f0 (strip f0 p).
Proof.
  unfold strip. intros H. apply filter_In in H. destruct H as [_ H].
  assert (delta_eqb f0 f0 = true) as E by now apply delta_eqb_eq. rewrite E in H. discriminate.
Qed.

Lemma except_fold_measure f0 sel : forall acc,
  (forall p, In p sel -> In f0 p /\ (In p acc \/ In (strip f0 p) acc)) ->
  let out := fold_left (fun acc p => set_remove dseq_eqb p (set_add dseq_eqb (strip f0 p) acc)) sel acc in
  msize out <= msize acc /\ length out <= length acc.
Proof.
  induction sel as [|p sel IH]; intros acc Hsel; simpl; [lia'|].
  destruct (Hsel p (or_introl eq_refl)) as [Hf0 Hp].
  set (acc' := set_remove dseq_eqb p (set_add dseq_eqb (strip f0 p) acc)).
  assert (strip f0 p <> p) as Hne.
  { intros E. apply (strip_not_in f0 p). rewrite E. exact Hf0. }
  assert (msize acc' <= msize acc /\ length acc' <= length acc) as [Hm Hl].
  { unfold acc', set_remove.
    destruct (in_dec (list_eq_dec (fun a b : delta => ltac:(decide equality; apply Nat.eq_dec))) p acc) as [Hin|Hnin].
    - destruct (filter_drop (fun y => negb (dseq_eqb p y)) (set_add dseq_eqb (strip f0 p) acc) p) as [H1 H2].
      { apply (set_add_In _ dseq_eqb_eq). now right. }
      { apply negb_false_iff. now apply dseq_eqb_eq. }
      destruct (set_add_measure (strip f0 p) acc) as [H3 H4].
      pose proof (strip_length f0 p Hf0). unfold dseq, delta in *. lia'.
    - destruct Hp as [Hp|Hp]; [contradiction|].
      assert (set_add dseq_eqb (strip f0 p) acc = acc) as ->.
      { unfold set_add. apply (memb_In _ dseq_eqb_eq) in Hp. now rewrite Hp. }
      destruct (msize_filter (fun y => negb (dseq_eqb p y)) acc). lia'. }
  destruct (IH acc') as [H1 H2]; [|fold acc'; lia'].
  intros q Hq. destruct (Hsel q (or_intror Hq)) as [Hq0 Hq1]. split; [exact Hq0|].
  assert (forall s, In s acc -> s <> p -> In s acc') as Hkeep.
  { intros s Hs Hsp. apply (set_remove_In _ dseq_eqb_eq). split; [|exact Hsp].
    apply (set_add_In _ dseq_eqb_eq). now right. }
  assert (In (strip f0 p) acc') as Hsp.
  { apply (set_remove_In _ dseq_eqb_eq). split; [|exact Hne]. apply (set_add_In _ dseq_eqb_eq). now left. }
  destruct (dseq_eqb q p) eqn:E.
  - apply dseq_eqb_eq in E. subst q. now right.
  - assert (q <> p) as Hqp by (intros ->; assert (dseq_eqb p p = true) by (now apply dseq_eqb_eq); congruence).
    destruct Hq1 as [Hq1|Hq1]; [left; now apply Hkeep|]. right. apply Hkeep; [exact Hq1|].
    intros E'. apply (strip_not_in f0 q). rewrite E'. exact Hf0.
Qed.

Lemma except_loop_measure dom l1 : forall S,
  msize (except_loop dom l1 S) <= msize S /\ length (except_loop dom l1 S) <= length S.
Proof.
  induction l1 as [|[v idx] t IH]; intros S; simpl; [lia'|].
  match goal with |- context [match ?F with [] => S | _ => _ end] => destruct F as [|f0 [|f1 r]] end;
    try apply IH.
  match goal with |- context [except_loop dom t ?X] => set (S1 := X) end.
  assert (msize S1 <= msize S /\ length S1 <= length S) as [H1 H2].
  { apply except_fold_measure. intros p Hp. apply filter_In in Hp. destruct Hp as [Hp Hb].
    apply andb_true_iff in Hb. destruct Hb as [Hb _]. apply (memb_In _ delta_eqb_eq) in Hb. auto. }
  destruct (IH S1). lia'.
Qed.

Lemma except_one_measure dom S :
  msize (except_one dom S) <= msize S /\ length (except_one dom S) <= length S.
Proof. apply except_loop_measure. Qed.

(* ---------- simplify and generate are total on well-formed input ---------- *)

Lemma simplify_loop_total ord dom n ifuel : ord_perm ord -> forall fuel S,
  msize S < ifuel -> length S < fuel -> wf_seqs dom n S ->
  exists S', simplify_loop ord ifuel dom fuel S = Ok S'.
Proof.
  intros Hord. induction fuel as [|f IH]; intros S Hi Hf Hw; [lia'|]. simpl.
  destruct (while_reduce_total (reduce dom) ord [0; f] dom n (reduce_ok dom n) (reduce_measure dom) Hord
              ifuel S Hi Hw) as [S1 [E1 [Hw1 [Hm1 Hl1]]]].
  rewrite E1. simpl.
  destruct (while_reduce_total (reduce_end dom) ord [1; f] dom n (reduce_end_ok dom n) (reduce_end_measure dom) Hord
              ifuel S1 ltac:(lia') Hw1) as [S2 [E2 [Hw2 [Hm2 Hl2]]]].
  rewrite E2. simpl.
  pose proof (ord_perm_ok _ Hord) as Hok.
  assert (wf_seqs dom n (ord [2; f] S2)) as Hw2'.
  { eapply wf_seqs_same_set; [|exact Hw2]. intros x. symmetry. apply Hok. }
  destruct (unique_sequences_ok dom n _ Hw2') as [Hw3 _].
  destruct (unique_sequences_measure (ord [2; f] S2)) as [Hm3 Hl3].
  rewrite (msize_perm _ _ (Hord [2; f] S2)) in Hm3. rewrite (Permutation_length (Hord [2; f] S2)) in Hl3.
  set (S3 := unique_sequences (ord [2; f] S2)) in *.
  assert (wf_seqs dom n (ord [3; f] S3)) as Hw3'.
  { eapply wf_seqs_same_set; [|exact Hw3]. intros x. symmetry. apply Hok. }
  destruct (except_one_ok dom n _ Hw3') as [Hw4 _].
  destruct (except_one_measure dom (ord [3; f] S3)) as [Hm4 Hl4].
  rewrite (msize_perm _ _ (Hord [3; f] S3)) in Hm4. rewrite (Permutation_length (Hord [3; f] S3)) in Hl4.
  set (S4 := except_one dom (ord [3; f] S3)) in *.
  destruct ((length S =? length S4) || (length S4 =? 0)) eqn:E; [eexists; reflexivity|].
  apply orb_false_iff in E. destruct E as [E _]. apply Nat.eqb_neq in E.
  apply IH; [lia' | lia' | exact Hw4].
Qed.

Theorem simplify_total ord dom n fuel S : ord_perm ord -> wf_seqs dom n S -> msize S < fuel ->
  exists S', simplify ord fuel dom S = Ok S'.
Proof.
  intros Hord Hw Hf. unfold simplify. eapply simplify_loop_total; eauto.
  pose proof (nonempty_len_msize S (wf_nonempty _ _ _ Hw)). lia'.
Qed.

Theorem generate_total ord pick fuel dom n S :
  ord_perm ord -> pick_ok pick -> NoDup dom -> dom <> [] -> wf_seqs dom n S -> msize S < fuel ->
  exists c, generate ord pick fuel dom n S = Ok c.
Proof.
  intros Hord Hpick Hnd Hne Hw Hf. unfold generate.
  destruct (simplify_total ord dom n fuel S Hord Hw Hf) as [S1 E1]. rewrite E1. simpl.
  pose proof (ord_perm_ok _ Hord) as Hok.
  destruct (simplify_ok ord fuel dom n S S1 Hok E1 Hw) as [Hw1 _].
  assert (wf_seqs dom n (ord [4] S1)) as Hw2.
  { eapply wf_seqs_same_set; [|exact Hw1]. intros x. symmetry. apply Hok. }
  destruct (build_choices_spec pick dom n _ Hpick Hnd Hne Hw2) as [bs [Hb _]].
  rewrite Hb. simpl. eexists; reflexivity.
Qed.
