(* The bound attached by get_result is the column of the simple matrix read by Bound.calculate
   (model PM.Bound of bound.py): bound_of_spec. *)
From Coq Require Import String Ascii List Bool Arith Lia FinFun.
From PM Require Import Semiring Poly Rel Analysis LoopAn LoopAn_proofs.
From PM Require Bound.
From PMGen Require Import RulesGen SemiringGen.
Import ListNotations.
Open Scope list_scope.

(* ------------------------------------------------------------------ text keys *)

Lemma str_eqb_eq a : forall b, Bound.str_eqb a b = true <-> a = b.
Proof.
  induction a as [|x a IH]; intros [|y b]; cbn [Bound.str_eqb]; split; intros H; try reflexivity; try discriminate.
  - apply andb_true_iff in H. destruct H as [H1 H2]. apply Ascii.eqb_eq in H1. apply IH in H2. congruence.
  - injection H as -> ->. apply andb_true_iff. split; [apply Ascii.eqb_refl|apply IH; reflexivity].
Qed.

Lemma str_eqb_refl a : Bound.str_eqb a a = true.
Proof. apply str_eqb_eq. reflexivity. Qed.

Lemma L_injective : Injective Bound.L.
Proof.
  intros a b H. unfold Bound.L in H.
  rewrite <- (string_of_list_ascii_of_string a), <- (string_of_list_ascii_of_string b), H. reflexivity.
Qed.

(* ------------------------------------------------------------------ dict *)

Lemma dict_get_set {V} (d : list (Bound.str * V)) k v q :
  Bound.dict_get (Bound.dict_set d k v) q = if Bound.str_eqb q k then Some v else Bound.dict_get d q.
Proof.
  induction d as [|[k' v'] t IH]; cbn [Bound.dict_set Bound.dict_get].
  - reflexivity.
  - destruct (Bound.str_eqb k k') eqn:E.
    + apply str_eqb_eq in E. subst k'. cbn [Bound.dict_get]. destruct (Bound.str_eqb q k); reflexivity.
    + cbn [Bound.dict_get]. destruct (Bound.str_eqb q k') eqn:E2.
      * apply str_eqb_eq in E2. subst k'.
        destruct (Bound.str_eqb q k) eqn:E3; [|reflexivity].
        apply str_eqb_eq in E3. subst q. rewrite str_eqb_refl in E. discriminate.
      * exact IH.
Qed.

Section Fold.
  Context {V : Type} (F : nat -> V).
  Definition dstep (d : list (Bound.str * V)) (cn : nat * Bound.str) := Bound.dict_set d (snd cn) (F (fst cn)).

  Lemma dict_get_fold_notin cols : forall bd k,
    ~ In k (map snd cols) -> Bound.dict_get (fold_left dstep cols bd) k = Bound.dict_get bd k.
  Proof.
    induction cols as [|[c0 k0] t IH]; intros bd k Hn; cbn [fold_left]; [reflexivity|].
    rewrite IH by (intros Hin; apply Hn; right; exact Hin).
    unfold dstep. cbn [fst snd]. rewrite dict_get_set.
    destruct (Bound.str_eqb k k0) eqn:E; [|reflexivity].
    apply str_eqb_eq in E. subst. exfalso. apply Hn. left. reflexivity.
  Qed.

  Lemma dict_get_fold_in cols : forall bd c k,
    NoDup (map snd cols) -> In (c, k) cols -> Bound.dict_get (fold_left dstep cols bd) k = Some (F c).
  Proof.
    induction cols as [|[c0 k0] t IH]; intros bd c k Hnd Hin; [destruct Hin|].
    cbn [map snd] in Hnd. inversion Hnd as [|? ? Hnot Hnd']; subst. cbn [fold_left].
    destruct Hin as [E|Hin].
    - injection E as -> ->. rewrite dict_get_fold_notin by exact Hnot.
      unfold dstep. cbn [fst snd]. rewrite dict_get_set, str_eqb_refl. reflexivity.
    - apply IH; assumption.
  Qed.
End Fold.

(* ------------------------------------------------------------------ calc_rows / calc_cols *)

Lemma calc_rows_fold (cellf : nat -> string) (varf : nat -> Bound.str) col vars matrix rows : forall acc,
  (forall r, In r rows -> exists row, nth_error matrix r = Some row /\ nth_error row col = Some (cellf r) /\
                                      nth_error vars r = Some (varf r)) ->
  Bound.calc_rows rows col vars matrix acc =
  Some (fold_left (fun a r => Bound.mb_append a (cellf r) (varf r)) rows acc).
Proof.
  induction rows as [|r t IH]; intros acc H; cbn [Bound.calc_rows fold_left]; [reflexivity|].
  destruct (H r (or_introl eq_refl)) as [row [H1 [H2 H3]]]. rewrite H1, H2, H3.
  apply IH. intros r' Hr'. apply H. right. exact Hr'.
Qed.

Lemma calc_cols_fold (F : nat -> Bound.MwpBound) vars matrix cols : forall bd,
  (forall c name, In (c, name) cols ->
     Bound.calc_rows (seq 0 (length matrix)) c vars matrix (Bound.mb_of_lists [] [] []) = Some (F c)) ->
  Bound.calc_cols cols vars matrix bd = Some (fold_left (dstep F) cols bd).
Proof.
  induction cols as [|[c name] t IH]; intros bd H; cbn [Bound.calc_cols fold_left]; [reflexivity|].
  rewrite (H c name (or_introl eq_refl)). apply IH. intros c' n' Hin. apply (H c' n'). right. exact Hin.
Qed.

Lemma mb_append_sc xo xs yo ys zo zs s v :
  Bound.mb_append (Bound.mkMB (Bound.mkHP xo xs) (Bound.mkHP yo ys) (Bound.mkHP zo zs)) (sc_str s) v =
  Bound.mkMB (Bound.mkHP xo (xs ++ if sc_eqb s M then [v] else []))
             (Bound.mkHP yo (ys ++ if sc_eqb s W then [v] else []))
             (Bound.mkHP zo (zs ++ if sc_eqb s P then [v] else [])).
Proof. destruct s; cbn; rewrite ?app_nil_r; reflexivity. Qed.

Lemma fold_append (g : nat -> Sc) (varf : nat -> Bound.str) rows : forall xo xs yo ys zo zs,
  fold_left (fun a r => Bound.mb_append a (sc_str (g r)) (varf r)) rows
            (Bound.mkMB (Bound.mkHP xo xs) (Bound.mkHP yo ys) (Bound.mkHP zo zs)) =
  Bound.mkMB (Bound.mkHP xo (xs ++ map varf (filter (fun r => sc_eqb (g r) M) rows)))
             (Bound.mkHP yo (ys ++ map varf (filter (fun r => sc_eqb (g r) W) rows)))
             (Bound.mkHP zo (zs ++ map varf (filter (fun r => sc_eqb (g r) P) rows))).
Proof.
  induction rows as [|r t IH]; intros; cbn [fold_left filter map]; [rewrite !app_nil_r; reflexivity|].
  rewrite mb_append_sc, IH.
  destruct (g r); cbn [sc_eqb map]; rewrite ?app_nil_r, <- ?app_assoc; reflexivity.
Qed.

(* ------------------------------------------------------------------ positions *)

Lemma nth_error_map_seq {A} (f : nat -> A) n i : i < n -> nth_error (map f (seq 0 n)) i = Some (f i).
Proof.
  intros H. rewrite (nth_error_nth' _ (f 0)) by (rewrite map_length, seq_length; exact H).
  rewrite nth_map_seq by exact H. reflexivity.
Qed.

Lemma combine_seq_snd {A} (l : list A) : forall s, map snd (combine (seq s (length l)) l) = l.
Proof. induction l as [|x t IH]; intros s; cbn; [reflexivity|]. rewrite IH. reflexivity. Qed.

Lemma combine_seq_in {A} (l : list A) : forall s i x,
  nth_error l i = Some x -> In (s + i, x) (combine (seq s (length l)) l).
Proof.
  induction l as [|y t IH]; intros s i x H; [destruct i; discriminate|].
  cbn [length seq combine]. destruct i as [|i]; cbn [nth_error] in H.
  - injection H as ->. left. f_equal. lia.
  - right. replace (s + S i) with (S s + i) by lia. apply IH. exact H.
Qed.

Lemma combine_seq_fst {A} (l : list A) : forall s c x, In (c, x) (combine (seq s (length l)) l) -> s <= c < s + length l.
Proof.
  induction l as [|y t IH]; intros s c x H; [destruct H|]. cbn [length seq combine] in H.
  destruct H as [E|H]; [injection E as <- _; cbn; lia|]. apply IH in H. cbn. lia.
Qed.

(* ------------------------------------------------------------------ the theorem *)

Definition column_bound (r : rel) (c : list nat) (col : nat) : Bound.MwpBound :=
  Bound.mkMB (Bound.MaxVar (map Bound.L (rows_with r c col M)))
             (Bound.mkHP (Bound.L "+") (map Bound.L (rows_with r c col W)))
             (Bound.mkHP (Bound.L "*") (map Bound.L (rows_with r c col P))).

Lemma simple_rows r c : length (simple_matrix r c) = length (rvars r).
Proof. unfold simple_matrix, apply_choice. rewrite map_length, seq_length. reflexivity. Qed.

Lemma calc_rows_column r c col :
  col < length (rvars r) ->
  Bound.calc_rows (seq 0 (length (map (map sc_str) (simple_matrix r c)))) col (map Bound.L (rvars r))
                  (map (map sc_str) (simple_matrix r c)) (Bound.mb_of_lists [] [] []) =
  Some (column_bound r c col).
Proof.
  intros Hcol. set (n := length (rvars r)).
  rewrite map_length, simple_rows. fold n.
  rewrite (calc_rows_fold (fun i => sc_str (cell (simple_matrix r c) i col)) (fun i => Bound.L (nth i (rvars r) EmptyString))).
  - unfold Bound.mb_of_lists, Bound.MaxVar. rewrite fold_append. cbn [app].
    unfold column_bound, rows_with, Bound.MaxVar. fold n. rewrite !map_map. reflexivity.
  - intros i Hi. apply in_seq in Hi. cbn in Hi.
    exists (map sc_str (nth i (simple_matrix r c) [])). split; [|split].
    + apply map_nth_error. apply nth_error_nth'. rewrite simple_rows. fold n. lia.
    + unfold cell. apply map_nth_error. apply nth_error_nth'.
      unfold simple_matrix, apply_choice. fold n. rewrite nth_map_seq by lia. rewrite map_length, seq_length. exact Hcol.
    + apply map_nth_error. apply nth_error_nth'. fold n. lia.
Qed.

Lemma bound_of_spec r c v col :
  NoDup (rvars r) -> index_of_str v (rvars r) = Some col ->
  bound_of (rvars r) (simple_matrix r c) v = Some (column_bound r c col).
Proof.
  intros Hnd Hcol. pose proof (index_of_str_lt _ _ _ Hcol) as Hlt. pose proof (index_of_str_nth _ _ _ Hcol) as Hnth.
  unfold bound_of, Bound.calculate.
  rewrite (calc_cols_fold (column_bound r c)).
  - rewrite (dict_get_fold_in (column_bound r c) _ _ col); [reflexivity| |].
    + rewrite combine_seq_snd. apply Injective_map_NoDup; [apply L_injective|exact Hnd].
    + change col with (0 + col). apply combine_seq_in. apply map_nth_error.
      rewrite <- Hnth. apply nth_error_nth'. exact Hlt.
  - intros c0 name Hin. apply combine_seq_fst in Hin. rewrite map_length in Hin.
    apply calc_rows_column. lia.
Qed.

Lemma bound_triple_column r c col :
  Bound.bound_triple (column_bound r c col) =
  (Bound.sort_uniq (map Bound.L (rows_with r c col M)),
   Bound.sort_uniq (map Bound.L (rows_with r c col W)),
   Bound.sort_uniq (map Bound.L (rows_with r c col P))).
Proof. reflexivity. Qed.

Lemma bound_is_column r index v c vr :
  NoDup (rvars r) -> get_result r index v c = ROk vr ->
  exists col, index_of_str v (rvars r) = Some col /\ vr_bound vr = Some (column_bound r c col).
Proof.
  intros Hnd H. apply get_result_ok in H. destruct H as [col [k [mb [Hcol [_ [-> [Hb _]]]]]]].
  exists col. split; [exact Hcol|]. cbn [vr_bound]. rewrite (bound_of_spec r c v col Hnd Hcol) in Hb. congruence.
Qed.

(* rows_with read off the column *)
Lemma rows_with_spec r c col s u :
  In u (rows_with r c col s) <->
  exists i, i < length (rvars r) /\ nth i (rvars r) EmptyString = u /\ nth i (column r c col) O = s.
Proof.
  unfold rows_with, column. rewrite in_map_iff. split.
  - intros [i [<- Hi]]. apply filter_In in Hi. destruct Hi as [Hi Hs]. apply in_seq in Hi. cbn in Hi.
    exists i. split; [lia|]. split; [reflexivity|]. rewrite nth_map_seq by lia. apply sc_eqb_eq. exact Hs.
  - intros [i [Hi [<- Hs]]]. exists i. split; [reflexivity|]. apply filter_In. split; [apply in_seq; lia|].
    rewrite nth_map_seq in Hs by exact Hi. apply sc_eqb_eq. exact Hs.
Qed.

Lemma bound_is_column_triple r index v c vr :
  NoDup (rvars r) -> get_result r index v c = ROk vr ->
  exists col mb, index_of_str v (rvars r) = Some col /\ vr_bound vr = Some mb /\
    Bound.bound_triple mb =
      (Bound.sort_uniq (map Bound.L (rows_with r c col M)),
       Bound.sort_uniq (map Bound.L (rows_with r c col W)),
       Bound.sort_uniq (map Bound.L (rows_with r c col P))).
Proof.
  intros Hnd H. destruct (bound_is_column r index v c vr Hnd H) as [col [Hc Hb]].
  exists col, (column_bound r c col). split; [exact Hc|]. split; [exact Hb|]. apply bound_triple_column.
Qed.
