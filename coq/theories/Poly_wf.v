(* Well-formedness (deltas sorted by strictly increasing index) is preserved by the polynomial
   operations; well-formed monomials are satisfiable, which is what Poly_times.ptimes_val needs. *)
From Coq Require Import String List Bool Arith Lia.
From PM Require Import Semiring Poly Poly_sem Poly_add Poly_times Rel Analysis Calculus Rel_sem.
Import ListNotations.
Open Scope list_scope.

(* ---------------- sorted delta lists ---------------- *)

(* n is a strict lower bound of the head index *)
Definition lb (n : nat) (l : list delta) : Prop :=
  match l with [] => True | h :: _ => n < snd h end.

Lemma dsorted_cons d t : dsorted (d :: t) <-> lb (snd d) t /\ dsorted t.
Proof. unfold lb. simpl. destruct t; tauto. Qed.

Lemma dsorted_all_gt t : forall d, dsorted (d :: t) -> forall e, In e t -> snd d < snd e.
Proof.
  induction t as [|h t IH]; intros d H e He; [destruct He|].
  apply dsorted_cons in H. destruct H as [H1 H2]. simpl in H1.
  destruct He as [<-|He]; [exact H1|].
  specialize (IH h H2 e He). lia.
Qed.

Lemma dsorted_sat l : dsorted l -> exists c, mmatch c l = true.
Proof.
  induction l as [|d t IH]; intros H.
  - exists (fun _ => 0). reflexivity.
  - pose proof (dsorted_all_gt _ _ H) as Hgt.
    apply dsorted_cons in H. destruct H as [_ H2].
    destruct (IH H2) as [c Hc].
    exists (fun i => if Nat.eqb i (snd d) then fst d else c i).
    rewrite mmatch_cons. apply andb_true_iff. split.
    + unfold dmatch. rewrite Nat.eqb_refl. apply Nat.eqb_refl.
    + apply mmatch_In. intros e He. rewrite mmatch_In in Hc. specialize (Hc e He).
      unfold dmatch in *. specialize (Hgt e He).
      destruct (Nat.eqb (snd e) (snd d)) eqn:E; [apply Nat.eqb_eq in E; lia | exact Hc].
Qed.

Lemma mwf_msat m : mwf m -> msat m.
Proof. unfold mwf, msat. apply dsorted_sat. Qed.

Lemma pwf_msat p : pwf p -> Forall msat p.
Proof.
  intros [_ H]. apply Forall_forall. intros m Hm. rewrite Forall_forall in H. apply mwf_msat, H, Hm.
Qed.

(* ---------------- Monomial ---------------- *)

Lemma insert_delta_sorted l : forall d r, insert_delta l d = Some r -> dsorted l ->
  dsorted r /\ forall n, lb n l -> n < snd d -> lb n r.
Proof.
  induction l as [|h t IH]; intros d r H Hs; simpl in H.
  - injection H as <-. split; [simpl; tauto | intros n _ Hn; exact Hn].
  - apply dsorted_cons in Hs. destruct Hs as [Hl Hs].
    destruct (Nat.ltb (snd h) (snd d)) eqn:E1.
    + destruct (insert_delta t d) as [r'|] eqn:E; [|discriminate]. injection H as <-.
      apply Nat.ltb_lt in E1. destruct (IH _ _ E Hs) as [A B].
      split.
      * apply dsorted_cons. split; [apply B; assumption | exact A].
      * intros n Hn _. exact Hn.
    + destruct (Nat.eqb (snd h) (snd d)) eqn:E2.
      * destruct (Nat.eqb (fst h) (fst d)); [|discriminate]. injection H as <-.
        split; [apply dsorted_cons; tauto | intros n Hn _; exact Hn].
      * injection H as <-. apply Nat.ltb_ge in E1. apply Nat.eqb_neq in E2.
        split.
        -- apply dsorted_cons. split; [simpl; lia|]. apply dsorted_cons. tauto.
        -- intros n _ Hn. exact Hn.
Qed.

Lemma insert_delta_dsorted l d r : insert_delta l d = Some r -> dsorted l -> dsorted r.
Proof. intros H Hs. exact (proj1 (insert_delta_sorted _ _ _ H Hs)). Qed.

Lemma mwf_zero_mono : mwf (Mono O []).
Proof. exact Logic.I. Qed.

Lemma insert_deltas_mwf s new : forall cur, dsorted cur -> mwf (insert_deltas s cur new).
Proof.
  induction new as [|d t IH]; intros cur H; simpl.
  - exact H.
  - destruct (insert_delta cur d) as [r|] eqn:E; [|exact Logic.I].
    apply IH. eapply insert_delta_dsorted; eassumption.
Qed.

Lemma mk_mono_mwf s l : mwf (mk_mono s l).
Proof. unfold mk_mono. apply insert_deltas_mwf. exact Logic.I. Qed.

Lemma mono_copy_mwf m : mwf (mono_copy m).
Proof. apply mk_mono_mwf. Qed.

Lemma set_sc_mwf m s : mwf m -> mwf (set_sc m s).
Proof. exact (fun H => H). Qed.

Lemma mprod_mwf m1 m2 : mwf (mprod m1 m2).
Proof.
  unfold mprod. pose proof (mono_copy_mwf m1) as Hc. unfold mwf in Hc.
  destruct (sprod (sc m1) (sc m2)); try exact Logic.I;
    (destruct (ds m2); [exact Hc | apply insert_deltas_mwf; exact Hc]).
Qed.

(* ---------------- list plumbing ---------------- *)

Lemma pincl_go_forall (Q : mono -> Prop) rest mn j i acc b i' nl :
  pincl_go rest mn j i acc = (b, i', nl) -> Forall Q acc -> Forall Q rest -> Forall Q nl.
Proof.
  intros H Ha Hr. destruct (pincl_go_sub _ _ _ _ _ _ _ _ H) as [k [-> [B _]]].
  apply Forall_app. split; [apply Forall_rev; exact Ha|].
  apply Forall_forall. intros x Hx. rewrite Forall_forall in Hr. apply Hr, B, Hx.
Qed.

Lemma pincl_forall (Q : mono -> Prop) l mn i b i' nl :
  pincl l mn i = (b, i', nl) -> Forall Q l -> Forall Q nl.
Proof. unfold pincl. intros H Hl. eapply pincl_go_forall; [exact H | constructor | exact Hl]. Qed.

Lemma Forall_snoc {A} (Q : A -> Prop) l x : Forall Q l -> Q x -> Forall Q (l ++ [x]).
Proof. intros Hl Hx. apply Forall_app. split; [exact Hl | constructor; [exact Hx | constructor]]. Qed.

Lemma list_insert_forall {A} (Q : A -> Prop) l : forall i x, Forall Q l -> Q x -> Forall Q (list_insert l i x).
Proof.
  induction l as [|h t IH]; intros [|i] x Hl Hx; simpl; try (constructor; [exact Hx | exact Hl]).
  inversion Hl; subst. constructor; [assumption | apply IH; assumption].
Qed.

Lemma list_update_forall {A} (Q : A -> Prop) f l : (forall a, Q a -> Q (f a)) ->
  forall i, Forall Q l -> Forall Q (list_update l i f).
Proof.
  intros Hf. induction l as [|h t IH]; intros [|i] Hl; simpl; try constructor;
    inversion Hl; subst; auto.
Qed.

Lemma firstn_forall {A} (Q : A -> Prop) n l : Forall Q l -> Forall Q (firstn n l).
Proof. intros H. rewrite <- (firstn_skipn n l) in H. apply Forall_app in H. tauto. Qed.

Lemma skipn_forall {A} (Q : A -> Prop) n l : Forall Q l -> Forall Q (skipn n l).
Proof. intros H. rewrite <- (firstn_skipn n l) in H. apply Forall_app in H. tauto. Qed.

Lemma filter_forall {A} (Q : A -> Prop) f (l : list A) : Forall Q l -> Forall Q (filter f l).
Proof.
  intros H. apply Forall_forall. intros x Hx. apply filter_In in Hx. rewrite Forall_forall in H.
  apply H. tauto.
Qed.

(* ---------------- Polynomial.add ---------------- *)

Lemma add_tail_mwf rest : forall nl i, Forall mwf nl -> Forall mwf rest -> Forall mwf (add_tail nl rest i).
Proof.
  induction rest as [|m t IH]; intros nl i Hn Hr; simpl; [exact Hn|].
  inversion Hr; subst.
  destruct (pincl nl m i) as [[tobe i'] nl'] eqn:E.
  pose proof (pincl_forall mwf _ _ _ _ _ _ E Hn) as Hn'.
  apply IH; [|assumption]. destruct tobe; [apply Forall_snoc; assumption | exact Hn'].
Qed.

Lemma add_loop_mwf fuel : forall nl q i r,
  add_loop fuel nl q i = Some r -> Forall mwf nl -> Forall mwf q -> Forall mwf r.
Proof.
  induction fuel as [|f IH]; intros nl q i r H Hn Hq; cbn [add_loop] in H; [discriminate|].
  destruct q as [|mono2 q'].
  - injection H as <-. exact Hn.
  - destruct (pincl nl mono2 i) as [[tobe i1] nl1] eqn:E.
    pose proof (pincl_forall mwf _ _ _ _ _ _ E Hn) as Hn1.
    pose proof Hq as Hq0. inversion Hq as [|? ? Hm2 Hq']; subst.
    destruct tobe; cbn [negb] in H; cbv iota in H.
    + destruct (Nat.eqb i1 (length nl1)).
      * assert (r = add_tail nl1 (mono2 :: q') i1) as -> by congruence.
        apply add_tail_mwf; assumption.
      * destruct (nth_error nl1 i1) as [mono1|] eqn:En; [|discriminate].
        destruct (compare (ds mono1) (ds mono2)).
        -- eapply IH; [exact H | exact Hn1 | exact Hq0].
        -- eapply IH; [exact H | | exact Hq'].
           apply list_update_forall; [intros a Ha; exact Ha | exact Hn1].
        -- eapply IH; [exact H | | exact Hq'].
           apply list_insert_forall; assumption.
    + eapply IH; [exact H | exact Hn1 | exact Hq'].
Qed.

Lemma merge_fuel_mwf f : forall l r, Forall mwf l -> Forall mwf r -> Forall mwf (merge_fuel f l r).
Proof.
  induction f as [|f IH]; intros l r Hl Hr; simpl.
  - apply Forall_app. tauto.
  - destruct l as [|lh lt]; [apply Forall_app; tauto|].
    destruct r as [|rh rt]; [apply Forall_app; tauto|].
    inversion Hl; subst. inversion Hr; subst.
    destruct (compare (ds lh) (ds rh)).
    + constructor; [assumption | apply IH; assumption].
    + destruct (ssum (sc lh) (sc rh)); try (apply IH; assumption);
        (constructor; [assumption | apply IH; assumption]).
    + constructor; [assumption | apply IH; assumption].
Qed.

Lemma sort_fuel_mwf f : forall l, Forall mwf l -> Forall mwf (sort_fuel f l).
Proof.
  induction f as [|f IH]; intros l Hl; simpl; [exact Hl|].
  destruct l as [|a [|b t]]; try exact Hl.
  unfold merge. apply merge_fuel_mwf; apply IH; [apply skipn_forall | apply firstn_forall]; exact Hl.
Qed.

Lemma sort_monomials_mwf l : Forall mwf l -> Forall mwf (sort_monomials l).
Proof. apply sort_fuel_mwf. Qed.

Lemma pwf_zero_poly : pwf zero_poly.
Proof. split; [discriminate | constructor; [exact Logic.I | constructor]]. Qed.

Lemma pwf_unit_poly : pwf unit_poly.
Proof. split; [discriminate | constructor; [exact Logic.I | constructor]]. Qed.

Lemma mk_poly_pwf l : Forall mwf l -> pwf (mk_poly l).
Proof. destruct l; intros H; [apply pwf_zero_poly | split; [discriminate | exact H]]. Qed.

Lemma remove_zeros_pwf l : Forall mwf l -> pwf (remove_zeros l).
Proof.
  intros H. unfold remove_zeros.
  pose proof (filter_forall mwf (fun m => negb (is_O (sc m))) l H) as Hf.
  destruct (filter (fun m => negb (is_O (sc m))) l); [apply pwf_zero_poly | split; [discriminate | exact Hf]].
Qed.

Lemma map_copy_mwf p : Forall mwf (map mono_copy p).
Proof. apply Forall_forall. intros m Hm. apply in_map_iff in Hm. destruct Hm as [x [<- _]]. apply mono_copy_mwf. Qed.

Lemma poly_copy_pwf p : pwf (poly_copy p).
Proof. unfold poly_copy. apply mk_poly_pwf, map_copy_mwf. Qed.

(* the left operand is copied monomial by monomial (the constructor re-sorts the deltas), so only the
   right operand has to be well-formed *)
Theorem padd_pwf_r p q : Forall mwf q -> pwf (padd p q).
Proof.
  intros Hq. unfold padd. destruct (padd_opt_total p q) as [r Hr]. rewrite Hr.
  unfold padd_opt in Hr. destruct p as [|a p]; destruct q as [|b q].
  - injection Hr as <-. apply pwf_zero_poly.
  - injection Hr as <-. apply poly_copy_pwf.
  - injection Hr as <-. apply poly_copy_pwf.
  - destruct (add_loop _ _ _ _) as [nl|] eqn:E; [|discriminate]. injection Hr as <-.
    apply remove_zeros_pwf. apply (proj2 (mk_poly_pwf _ (sort_monomials_mwf _
      (add_loop_mwf _ _ _ _ _ E (proj2 (poly_copy_pwf (a :: p))) Hq)))).
Qed.

Theorem padd_pwf p q : pwf p -> pwf q -> pwf (padd p q).
Proof. intros _ [_ Hq]. apply padd_pwf_r. exact Hq. Qed.

(* ---------------- Polynomial.times ---------------- *)

Lemma insert_row_mwf row rows : Forall mwf row -> Forall (Forall mwf) rows ->
  Forall (Forall mwf) (insert_row row rows).
Proof.
  intros Hr. induction rows as [|r rs IH]; intros H; simpl.
  - constructor; [exact Hr | constructor].
  - inversion H; subst. destruct row as [|m1 t1]; [constructor; auto|].
    destruct r as [|m2 t2]; [constructor; auto|].
    destruct (compare (ds m1) (ds m2)); constructor; auto.
Qed.

Lemma fold_insert_row_mwf rest : forall acc,
  Forall (Forall mwf) rest -> Forall (Forall mwf) acc ->
  Forall (Forall mwf) (fold_left (fun a r => insert_row r a) rest acc).
Proof.
  induction rest as [|r rs IH]; intros acc H1 H2; simpl; [exact H2|].
  inversion H1; subst. apply IH; [assumption | apply insert_row_mwf; assumption].
Qed.

Lemma order_rows_mwf table : Forall (Forall mwf) table -> Forall (Forall mwf) (order_rows table).
Proof.
  destruct table as [|r0 rest]; intros H; [constructor|]. unfold order_rows.
  inversion H; subst. apply fold_insert_row_mwf; [assumption | constructor; [assumption | constructor]].
Qed.

Lemma table_of_mwf p q : Forall (Forall mwf) (table_of p q).
Proof.
  unfold table_of, products. apply filter_forall. apply Forall_forall. intros row Hrow.
  apply in_map_iff in Hrow. destruct Hrow as [m2 [<- _]]. apply filter_forall.
  apply Forall_forall. intros m Hm. apply in_map_iff in Hm. destruct Hm as [m1 [<- _]]. apply mprod_mwf.
Qed.

Lemma merge_rows_mwf fuel : forall rows result r,
  merge_rows fuel rows result = Some r -> Forall (Forall mwf) rows -> Forall mwf result -> Forall mwf r.
Proof.
  induction fuel as [|f IH]; intros rows result r H Hrows Hres; cbn [merge_rows] in H.
  - destruct rows; [|discriminate]. injection H as <-. exact Hres.
  - destruct rows as [|row rest]; [injection H as <-; exact Hres|].
    inversion Hrows as [|? ? Hrow Hrest]; subst.
    destruct row as [|m tl]; [eapply IH; eassumption|].
    inversion Hrow as [|? ? Hm Htl]; subst.
    destruct (pincl result m 0) as [[tobe i'] res1] eqn:E. cbv beta iota in H.
    pose proof (pincl_forall mwf _ _ _ _ _ _ E Hres) as Hres1.
    eapply IH; [exact H | |].
    + destruct tl; [exact Hrest | apply insert_row_mwf; assumption].
    + destruct tobe; [apply Forall_snoc; assumption | exact Hres1].
Qed.

(* every monomial of a product is built by ordered insertion: no hypothesis on the operands *)
Theorem ptimes_pwf p q : pwf (ptimes p q).
Proof.
  unfold ptimes. destruct (ptimes_opt_total p q) as [r Hr]. rewrite Hr.
  unfold ptimes_opt in Hr. pose proof (table_of_mwf p q) as Ht.
  destruct (table_of p q) as [|r0 rest]; [injection Hr as <-; apply pwf_zero_poly|].
  destruct (merge_rows _ _ _) as [res|] eqn:Em; [|discriminate]. injection Hr as <-.
  apply remove_zeros_pwf. apply (proj2 (mk_poly_pwf res
    (merge_rows_mwf _ _ _ _ Em (order_rows_mwf _ Ht) (Forall_nil _)))).
Qed.

Lemma padd_ne p q : padd p q <> [].
Proof.
  unfold padd. destruct (padd_opt_total p q) as [r Hr]. rewrite Hr.
  unfold padd_opt in Hr. destruct p as [|a p]; destruct q as [|b q]; try (injection Hr as <-; discriminate).
  destruct (add_loop _ _ _ _); [|discriminate]. injection Hr as <-.
  unfold remove_zeros. destruct (filter _ _); discriminate.
Qed.

(* non-vacuity: the analysis' leaf polynomials are well-formed *)
Example leaf_forms_pwf :
  pwf (from_scalars 3 [M; P; W]) /\ pwf [Mono W [(0, 0); (2, 1); (1, 4)]] /\ ~ mwf (Mono W [(0, 1); (0, 0)]).
Proof.
  split; [|split].
  - split; [discriminate|]. repeat constructor.
  - split; [discriminate|]. repeat constructor; simpl; lia.
  - unfold mwf. simpl. lia.
Qed.

Print Assumptions dsorted_sat.
Print Assumptions mwf_msat.
Print Assumptions insert_delta_dsorted.
Print Assumptions insert_deltas_mwf.
Print Assumptions mprod_mwf.
Print Assumptions padd_pwf_r.
Print Assumptions padd_pwf.
Print Assumptions ptimes_pwf.
Print Assumptions pwf_zero_poly.
Print Assumptions pwf_unit_poly.
