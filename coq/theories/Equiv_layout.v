(* C12 (3/4): layout.  Redundant braces, empty statements and empty blocks do not change a derivation.

   The derivation runs on explicit fuel (one unit per level of nesting; An_func.fuel_ok = "the fuel
   suffices"), and braces change the nesting depth, so the statements compare derivations that both have
   enough fuel:

     sem_eq V s s'   for all sufficient fuels f, f': derive f V s and derive f' V s' consume the same
                     sites, fail together, and their matrices agree on V x V
     seml V l l'     the same for statement lists, from any pair of (finite, equal on V x V) accumulators

   sem_eq / seml are equivalences and congruences for every statement form (sem_block, sem_if, sem_while,
   sem_for, seml_cons), so a layout change ANYWHERE in a program is covered by composing the rules:
     sem_unwrap   { s }  ~  s                seml_skip   ; l  ~  l
     seml_flat    { l2 } l  ~  l2 l          (l2 = []: the empty block)
   do-while: `while` and `do-while` are the same constructor SWhile, there is nothing to prove. *)
From Coq Require Import String List Bool Arith Lia.
From PM Require Import Semiring Poly Rel Analysis Calculus Sem_stmts Equiv_base Equiv_rel.
From PM Require Calc_alg An_main_aux An_seq An_func Rel_fix.
Import ListNotations.
Open Scope list_scope.

Notation fuel_ok := An_func.fuel_ok.

(* ------------------------------------------------------------------ *)
(* fuel                                                                *)

Lemma fuel_ok_le : forall f s g, fuel_ok f s -> f <= g -> fuel_ok g s.
Proof.
  induction f as [|f IH]; intros s g H L; [destruct H|].
  destruct g as [|g]; [lia|]. assert (L' : f <= g) by lia.
  assert (FA : forall l, Forall (fuel_ok f) l -> Forall (fuel_ok g) l).
  { intros l Hl. eapply Forall_impl; [|exact Hl]. intros a Ha. exact (IH a g Ha L'). }
  destruct s; cbn [An_func.fuel_ok] in *; try exact Logic.I.
  - destruct (unary_asgn_rewrite x op e); [exact (IH _ g H L')|exact Logic.I].
  - destruct H as [H1 H2]. split; apply FA; assumption.
  - exact (IH _ g H L').
  - destruct (loop_compat iters srcs conds nxt s); [exact (IH _ g H L')|exact Logic.I].
  - apply FA. exact H.
Qed.

Lemma Forall_fuel_ok_le f g l : Forall (fuel_ok f) l -> f <= g -> Forall (fuel_ok g) l.
Proof. intros H L. eapply Forall_impl; [|exact H]. intros a Ha. exact (fuel_ok_le f a g Ha L). Qed.

Lemma fuel_ok_list_exists l : Forall (fun s => exists f, fuel_ok f s) l -> exists f, Forall (fuel_ok f) l.
Proof.
  induction 1 as [|a t [fa Ha] Ht [ft IH]]; [exists 0; constructor|].
  exists (Nat.max fa ft). constructor.
  - exact (fuel_ok_le fa a _ Ha (Nat.le_max_l _ _)).
  - exact (Forall_fuel_ok_le ft _ t IH (Nat.le_max_r _ _)).
Qed.

(* every statement has a sufficient fuel *)
Lemma fuel_ok_exists : forall s, exists f, fuel_ok f s.
Proof.
  induction s as [m|x op y z|x|x y|x op e|op e|t e IHt IHe|cv b IHb|i sr c n b IHb|l IHl] using stmt_induction;
    try (exists 1; exact Logic.I).
  - exists 3. cbn [An_func.fuel_ok]. unfold unary_asgn_rewrite. cbv zeta.
    destruct (String.eqb op "!"); [exact Logic.I|].
    destruct (String.eqb op "sizeof"); [exact Logic.I|].
    destruct e as [|y|]; try exact Logic.I.
    destruct (mem_strb op INC_DEC).
    + destruct (mem_strb op PREFIX); cbn; repeat constructor.
    + destruct (String.eqb op "-"); [exact Logic.I|]. destruct (String.eqb op "+"); exact Logic.I.
  - destruct (fuel_ok_list_exists t IHt) as [ft Ht]. destruct (fuel_ok_list_exists e IHe) as [fe He].
    exists (S (Nat.max ft fe)). cbn [An_func.fuel_ok]. split.
    + exact (Forall_fuel_ok_le ft _ t Ht (Nat.le_max_l _ _)).
    + exact (Forall_fuel_ok_le fe _ e He (Nat.le_max_r _ _)).
  - destruct IHb as [f Hf]. exists (S f). exact Hf.
  - destruct IHb as [f Hf]. exists (S f). cbn [An_func.fuel_ok].
    destruct (loop_compat i sr c n b); [exact Hf|exact Logic.I].
  - destruct (fuel_ok_list_exists l IHl) as [f Hf]. exists (S f). exact Hf.
Qed.

(* with enough fuel the derivation does not depend on the fuel *)
Theorem derive_fuel_irrelevant : forall f1 f2 V s cs idx,
  fuel_ok f1 s -> fuel_ok f2 s -> derive f1 V s cs idx = derive f2 V s cs idx.
Proof.
  induction f1 as [|f1 IH]; intros f2 V s cs idx H1 H2; [destruct H1|].
  destruct f2 as [|f2]; [destruct H2|].
  assert (LIST : forall l acc i, Forall (fuel_ok f1) l -> Forall (fuel_ok f2) l ->
            dlist (fun s1 i => derive f1 V s1 cs i) V l acc i =
            dlist (fun s1 i => derive f2 V s1 cs i) V l acc i).
  { intros l acc i F1 F2. apply dlist_ext_in. intros s1 i1 Hs. apply IH.
    - exact (proj1 (Forall_forall _ _) F1 s1 Hs).
    - exact (proj1 (Forall_forall _ _) F2 s1 Hs). }
  destruct s; cbn [derive An_func.fuel_ok] in *; try reflexivity.
  - destruct (unary_asgn_rewrite x op e); [apply IH; assumption|reflexivity].
  - destruct H1 as [T1 E1], H2 as [T2 E2].
    rewrite (LIST t _ _ T1 T2).
    destruct (dlist (fun s1 i => derive f2 V s1 cs i) V t (Some sid) idx) as [mt i1].
    rewrite (LIST e _ _ E1 E2). reflexivity.
  - rewrite (IH f2 V s cs idx H1 H2). reflexivity.
  - destruct (loop_compat iters srcs conds nxt s); [|reflexivity].
    rewrite (IH f2 V s cs idx H1 H2). reflexivity.
  - apply LIST; assumption.
Qed.

(* ------------------------------------------------------------------ *)
(* agreement on V x V                                                  *)

Definition oeqV (V : list string) (a a' : option smat) : Prop :=
  match a, a' with
  | Some A, Some A' => eqV V A A'
  | None, None => True
  | _, _ => False
  end.

Definition deqV (V : list string) (d d' : dres) : Prop := snd d = snd d' /\ oeqV V (fst d) (fst d').

Definition ofin (V : list string) (a : option smat) : Prop := forall A, a = Some A -> finite_on V A.

Lemma oeqV_refl V a : oeqV V a a.
Proof. destruct a; cbn; [apply Calc_alg.eqV_refl|exact Logic.I]. Qed.

Lemma oeqV_sym V a b : oeqV V a b -> oeqV V b a.
Proof. destruct a, b; cbn; try tauto. apply Calc_alg.eqV_sym. Qed.

Lemma oeqV_trans V a b c : oeqV V a b -> oeqV V b c -> oeqV V a c.
Proof. destruct a, b, c; cbn; try tauto. apply Calc_alg.eqV_trans. Qed.

Lemma deqV_refl V d : deqV V d d.
Proof. split; [reflexivity|apply oeqV_refl]. Qed.

Lemma deqV_sym V d d' : deqV V d d' -> deqV V d' d.
Proof. intros [E R]. split; [symmetry; exact E|apply oeqV_sym; exact R]. Qed.

Lemma deqV_trans V d1 d2 d3 : deqV V d1 d2 -> deqV V d2 d3 -> deqV V d1 d3.
Proof. intros [E1 R1] [E2 R2]. split; [congruence|eapply oeqV_trans; eassumption]. Qed.

Lemma ofin_sid V : ofin V (Some sid).
Proof. intros A H. injection H as <-. apply Rel_fix.sid_finite. Qed.

Lemma ofin_None V : ofin V None.
Proof. intros A H. discriminate H. Qed.

Lemma ofin_derive fuel V s cs idx : ofin V (fst (derive fuel V s cs idx)).
Proof. intros A H. exact (An_main_aux.derive_finite_thm fuel V s cs idx A H). Qed.

Lemma ofin_dseq V a b : ofin V a -> ofin V b -> ofin V (dseq V a b).
Proof. intros Ha Hb A H. exact (An_main_aux.dseq_finite V a b A Ha Hb H). Qed.

(* the relational lemmas of Equiv_rel.v at the identity renaming give extensionality on V x V *)
Section Ext.
  Variable V : list string.
  Let PV : string -> Prop := fun x => In x V.
  Let rid : string -> string := fun x => x.

  Lemma ext_inj : forall a b, PV a -> PV b -> rid a = rid b -> a = b.
  Proof. intros a b _ _ H. exact H. Qed.
  Lemma ext_HP : forall v, In v V -> PV v.
  Proof. intros v H. exact H. Qed.
  Lemma ext_HV1 : forall v, In v V -> In (rid v) V.
  Proof. intros v H. exact H. Qed.
  Lemma ext_HV2 : forall z, In z V -> exists v, In v V /\ z = rid v.
  Proof. intros z H. exists z. split; [exact H|reflexivity]. Qed.

  Lemma oeqV_orel a a' : oeqV V a a' <-> orel PV rid a' a.
  Proof.
    destruct a as [A|], a' as [A'|]; cbn; try tauto; unfold eqV, PV, rid;
      split; intros H x y Hx Hy; apply H; assumption.
  Qed.

  Lemma dseq_ext a a' b b' : oeqV V a a' -> oeqV V b b' -> oeqV V (dseq V a b) (dseq V a' b').
  Proof.
    intros Ha Hb. apply oeqV_orel. apply (dseq_rel PV rid V V ext_HP ext_HV1 ext_HV2); apply oeqV_orel; assumption.
  Qed.

  Lemma d_if_ext a a' b b' : oeqV V a a' -> oeqV V b b' -> oeqV V (d_if V a b) (d_if V a' b').
  Proof.
    intros Ha Hb. apply oeqV_orel. apply (d_if_rel PV rid V V); apply oeqV_orel; assumption.
  Qed.

  Lemma d_while_ext a a' : oeqV V a a' -> oeqV V (d_while V a) (d_while V a').
  Proof.
    intros Ha. apply oeqV_orel.
    apply (d_while_rel PV rid ext_inj V V ext_HP ext_HV1 ext_HV2 eq_refl). apply oeqV_orel. exact Ha.
  Qed.

  Lemma d_for_ext X a a' : In X V -> oeqV V a a' -> oeqV V (d_for V X a) (d_for V X a').
  Proof.
    intros HX Ha. apply oeqV_orel.
    apply (d_for_rel PV rid ext_inj V V ext_HP ext_HV1 ext_HV2 eq_refl X a' a HX). apply oeqV_orel. exact Ha.
  Qed.
End Ext.

Lemma forallb_ext_in' {T} (g h : T -> bool) l : (forall x, In x l -> g x = h x) -> forallb g l = forallb h l.
Proof.
  induction l as [|a t IH]; intros H; [reflexivity|]. cbn [forallb].
  rewrite (H a (or_introl eq_refl)), IH; [reflexivity|]. intros x Hx. apply H. right. exact Hx.
Qed.

Lemma existsb_ext_in' {T} (g h : T -> bool) l : (forall x, In x l -> g x = h x) -> existsb g l = existsb h l.
Proof.
  induction l as [|a t IH]; intros H; [reflexivity|]. cbn [existsb].
  rewrite (H a (or_introl eq_refl)), IH; [reflexivity|]. intros x Hx. apply H. right. exact Hx.
Qed.

(* extensionality of the for-loop rule for ANY loop variable X (inside V or not) *)
Lemma d_for_ext_any V X a a' : oeqV V a a' -> oeqV V (d_for V X a) (d_for V X a').
Proof.
  destruct a as [B|], a' as [B'|]; cbn [oeqV d_for]; try tauto. intros HB.
  pose proof (Calc_alg.sstar_ext V B B' HB) as HS.
  destruct (sstar V B) as [St|], (sstar V B') as [St'|]; try tauto.
  assert (EL : l_ok V St = l_ok V St').
  { unfold l_ok. apply forallb_ext_in'. intros x Hx. rewrite (HS x x Hx Hx). reflexivity. }
  rewrite EL. destruct (l_ok V St'); [|exact Logic.I].
  cbn [oeqV]. intros u v Hu Hv. rewrite !Calc_alg.memo_eq. unfold l_extend.
  assert (EE : existsb (fun i => RulesGen.L_PROPAGATE (St i v) (String.eqb i v)) V =
               existsb (fun i => RulesGen.L_PROPAGATE (St' i v) (String.eqb i v)) V).
  { apply existsb_ext_in'. intros i Hi. rewrite (HS i v Hi Hv). reflexivity. }
  rewrite EE, (HS u v Hu Hv). reflexivity.
Qed.

(* ------------------------------------------------------------------ *)
(* algebra of the sequencing operator                                  *)

Lemma dseq_id_l V m : ofin V m -> oeqV V (dseq V (Some sid) m) m.
Proof.
  destruct m as [A|]; [|intros _; exact Logic.I]. intros HF. cbn [dseq oeqV].
  intros x y Hx Hy. rewrite Calc_alg.memo_eq. apply Calc_alg.smul_id_l; [|exact Hx].
  intros k Hk. exact (HF A eq_refl k y Hk Hy).
Qed.

Lemma dseq_id_r V a : ofin V a -> oeqV V (dseq V a (Some sid)) a.
Proof.
  destruct a as [A|]; [|intros _; exact Logic.I]. intros HF. cbn [dseq oeqV].
  intros x y Hx Hy. rewrite Calc_alg.memo_eq. apply Calc_alg.smul_id_r; [|exact Hy].
  intros k Hk. exact (HF A eq_refl x k Hx Hk).
Qed.

Lemma dseq_assoc V a b c : oeqV V (dseq V (dseq V a b) c) (dseq V a (dseq V b c)).
Proof.
  destruct a as [A|], b as [B|], c as [C|]; cbn [dseq oeqV]; try exact Logic.I.
  intros x y Hx Hy. rewrite !Calc_alg.memo_eq.
  transitivity (smul V (smul V A B) C x y).
  - apply Calc_alg.smul_ext; auto.
    + intros u v _ _. apply Calc_alg.memo_eq.
    + apply Calc_alg.eqV_refl.
  - rewrite Calc_alg.smul_assoc. apply Calc_alg.smul_ext; auto.
    + apply Calc_alg.eqV_refl.
    + intros u v _ _. symmetry. apply Calc_alg.memo_eq.
Qed.

Lemma dlist_app rec V : forall l1 l2 acc idx,
  dlist rec V (l1 ++ l2) acc idx =
  dlist rec V l2 (fst (dlist rec V l1 acc idx)) (snd (dlist rec V l1 acc idx)).
Proof.
  induction l1 as [|a t IH]; intros l2 acc idx; [reflexivity|].
  cbn [app]. rewrite !An_seq.dlist_cons. apply IH.
Qed.

(* element-wise agreement of the derivations and agreement of the accumulators *)
Lemma dlist_ext V rec rec' : forall l acc acc' idx,
  (forall s i, In s l -> deqV V (rec s i) (rec' s i)) -> oeqV V acc acc' ->
  deqV V (dlist rec V l acc idx) (dlist rec' V l acc' idx).
Proof.
  induction l as [|a t IH]; intros acc acc' idx Hrec Ha; [split; [reflexivity|exact Ha]|].
  rewrite !An_seq.dlist_cons. destruct (Hrec a idx (or_introl eq_refl)) as [E R]. rewrite <- E.
  apply IH.
  - intros s i Hs. apply Hrec. right. exact Hs.
  - apply dseq_ext; assumption.
Qed.

Lemma dlist_acc_ext V rec l acc acc' idx :
  oeqV V acc acc' -> deqV V (dlist rec V l acc idx) (dlist rec V l acc' idx).
Proof. intros Ha. apply dlist_ext; [|exact Ha]. intros s i _. apply deqV_refl. Qed.

(* a prefix of the accumulator can be taken out of the walk *)
Lemma dlist_shift V rec a : forall l b idx,
  deqV V (dlist rec V l (dseq V a b) idx)
         (dseq V a (fst (dlist rec V l b idx)), snd (dlist rec V l b idx)).
Proof.
  induction l as [|s t IH]; intros b idx; [apply deqV_refl|].
  rewrite !An_seq.dlist_cons.
  eapply deqV_trans; [|apply IH].
  apply dlist_acc_ext. apply dseq_assoc.
Qed.

(* ------------------------------------------------------------------ *)
(* the two relations and their rules                                   *)

Definition sem_eq (V : list string) (s s' : stmt) : Prop :=
  forall f f' cs idx, fuel_ok f s -> fuel_ok f' s' ->
    deqV V (derive f V s cs idx) (derive f' V s' cs idx).

Definition seml (V : list string) (l l' : list stmt) : Prop :=
  forall f f' cs idx acc acc',
    Forall (fuel_ok f) l -> Forall (fuel_ok f') l' -> ofin V acc -> ofin V acc' -> oeqV V acc acc' ->
    deqV V (dlist (fun s i => derive f V s cs i) V l acc idx)
           (dlist (fun s i => derive f' V s cs i) V l' acc' idx).

Section Rules.
  Variable V : list string.

  Theorem sem_refl s : sem_eq V s s.
  Proof.
    intros f f' cs idx F F'. rewrite (derive_fuel_irrelevant f f' V s cs idx F F'). apply deqV_refl.
  Qed.

  Theorem sem_sym s s' : sem_eq V s s' -> sem_eq V s' s.
  Proof. intros H f f' cs idx F F'. apply deqV_sym. apply H; assumption. Qed.

  Theorem sem_trans s1 s2 s3 : sem_eq V s1 s2 -> sem_eq V s2 s3 -> sem_eq V s1 s3.
  Proof.
    intros H12 H23 f f' cs idx F F'. destruct (fuel_ok_exists s2) as [g G].
    eapply deqV_trans; [apply (H12 f g cs idx F G)|apply (H23 g f' cs idx G F')].
  Qed.

  (* { s } ~ s : also at the level of one derivation step, without any hypothesis on the fuel *)
  Theorem derive_block_single fuel s cs idx :
    deqV V (derive (S fuel) V (SBlock [s]) cs idx) (derive fuel V s cs idx).
  Proof.
    cbn [derive]. rewrite An_seq.dlist_cons. cbn [dlist]. split; [reflexivity|]. cbn [fst].
    apply dseq_id_l. apply ofin_derive.
  Qed.

  Theorem sem_unwrap s s' : sem_eq V s s' -> sem_eq V (SBlock [s]) s'.
  Proof.
    intros H f f' cs idx F F'. destruct f as [|f]; [destruct F|].
    cbn [An_func.fuel_ok] in F. pose proof (Forall_inv F) as Fs.
    eapply deqV_trans; [apply derive_block_single|]. apply H; assumption.
  Qed.

  Theorem seml_nil : seml V [] [].
  Proof. intros f f' cs idx acc acc' _ _ _ _ Ha. split; [reflexivity|exact Ha]. Qed.

  Theorem seml_cons s s' l l' : sem_eq V s s' -> seml V l l' -> seml V (s :: l) (s' :: l').
  Proof.
    intros Hs Hl f f' cs idx acc acc' F F' Fa Fa' Ha.
    rewrite !An_seq.dlist_cons.
    destruct (Hs f f' cs idx (Forall_inv F) (Forall_inv F')) as [E R]. rewrite <- E.
    apply Hl.
    - exact (Forall_inv_tail F).
    - exact (Forall_inv_tail F').
    - apply ofin_dseq; [exact Fa|apply ofin_derive].
    - apply ofin_dseq; [exact Fa'|apply ofin_derive].
    - apply dseq_ext; assumption.
  Qed.

  (* an empty statement (any no-flow statement) in front of a list *)
  Theorem seml_skip m l l' : seml V l l' -> seml V (SSkip m :: l) l'.
  Proof.
    intros Hl f f' cs idx acc acc' F F' Fa Fa' Ha.
    rewrite An_seq.dlist_cons.
    pose proof (Forall_inv F) as F0. destruct f as [|f]; [destruct F0|]. cbv beta.
    change (derive (S f) V (SSkip m) cs idx) with (Some sid, idx). cbn [fst snd].
    apply Hl.
    - exact (Forall_inv_tail F).
    - exact F'.
    - apply ofin_dseq; [exact Fa|apply ofin_sid].
    - exact Fa'.
    - eapply oeqV_trans; [apply dseq_id_r; exact Fa|exact Ha].
  Qed.

  (* braces around a part of a list: { l2 } l ~ l2 l  (l2 = [] is the empty block) *)
  Theorem seml_flat l2 l l' : seml V (l2 ++ l) l' -> seml V (SBlock l2 :: l) l'.
  Proof.
    intros Hl f f' cs idx acc acc' F F' Fa Fa' Ha.
    pose proof (Forall_inv F) as F0. pose proof (Forall_inv_tail F) as Ft.
    destruct f as [|f]; [destruct F0|]. cbn [An_func.fuel_ok] in F0.
    assert (F2 : Forall (fuel_ok (S f)) l2) by (apply (Forall_fuel_ok_le f); [exact F0|lia]).
    assert (Fapp : Forall (fuel_ok (S f)) (l2 ++ l)) by (apply Forall_app; split; assumption).
    eapply deqV_trans; [|apply (Hl (S f) f' cs idx acc acc' Fapp F' Fa Fa' Ha)].
    rewrite An_seq.dlist_cons, dlist_app. cbv beta.
    change (derive (S f) V (SBlock l2) cs idx)
      with (dlist (fun s1 i => derive f V s1 cs i) V l2 (Some sid) idx).
    (* the elements of l2 are derived with one unit of fuel less inside the block *)
    assert (E2 : forall a i,
              dlist (fun s1 i => derive f V s1 cs i) V l2 a i =
              dlist (fun s1 i => derive (S f) V s1 cs i) V l2 a i).
    { intros a i. apply dlist_ext_in. intros s1 i1 Hs. apply derive_fuel_irrelevant.
      - exact (proj1 (Forall_forall _ _) F0 s1 Hs).
      - exact (proj1 (Forall_forall _ _) F2 s1 Hs). }
    rewrite E2.
    set (rec := fun s1 i => derive (S f) V s1 cs i).
    (* acc . (1 . l2)  ~  (acc . 1) . l2  ~  acc . l2 *)
    assert (K : deqV V (dseq V acc (fst (dlist rec V l2 (Some sid) idx)), snd (dlist rec V l2 (Some sid) idx))
                       (dlist rec V l2 acc idx)).
    { eapply deqV_trans; [apply deqV_sym; apply dlist_shift|].
      apply dlist_acc_ext. apply dseq_id_r. exact Fa. }
    destruct K as [KE KR]. cbn [fst snd] in KE, KR. rewrite KE.
    apply dlist_acc_ext. exact KR.
  Qed.

  Theorem sem_block l l' : seml V l l' -> sem_eq V (SBlock l) (SBlock l').
  Proof.
    intros H f f' cs idx F F'. destruct f as [|f]; [destruct F|]. destruct f' as [|f']; [destruct F'|].
    cbn [derive An_func.fuel_ok] in *.
    apply H; try assumption; try apply ofin_sid. apply oeqV_refl.
  Qed.

  Theorem sem_if t t' e e' : seml V t t' -> seml V e e' -> sem_eq V (SIf t e) (SIf t' e').
  Proof.
    intros Ht He f f' cs idx F F'. destruct f as [|f]; [destruct F|]. destruct f' as [|f']; [destruct F'|].
    cbn [derive An_func.fuel_ok] in *. destruct F as [Ft Fe], F' as [Ft' Fe'].
    pose proof (Ht f f' cs idx (Some sid) (Some sid) Ft Ft' (ofin_sid V) (ofin_sid V) (oeqV_refl V _)) as K1.
    destruct (dlist (fun s1 i => derive f V s1 cs i) V t (Some sid) idx) as [mt i1].
    destruct (dlist (fun s1 i => derive f' V s1 cs i) V t' (Some sid) idx) as [mt' i1'].
    destruct K1 as [E1 R1]. cbn [fst snd] in E1, R1. subst i1'.
    pose proof (He f f' cs i1 (Some sid) (Some sid) Fe Fe' (ofin_sid V) (ofin_sid V) (oeqV_refl V _)) as K2.
    destruct (dlist (fun s1 i => derive f V s1 cs i) V e (Some sid) i1) as [me i2].
    destruct (dlist (fun s1 i => derive f' V s1 cs i) V e' (Some sid) i1) as [me' i2'].
    destruct K2 as [E2 R2]. cbn [fst snd] in E2, R2. subst i2'.
    split; [reflexivity|]. cbn [fst]. apply d_if_ext; assumption.
  Qed.

  (* the recorded condition variables play no role in the derivation *)
  Theorem sem_while cv cv' b b' : sem_eq V b b' -> sem_eq V (SWhile cv b) (SWhile cv' b').
  Proof.
    intros Hb f f' cs idx F F'. destruct f as [|f]; [destruct F|]. destruct f' as [|f']; [destruct F'|].
    cbn [derive An_func.fuel_ok] in *.
    pose proof (Hb f f' cs idx F F') as K.
    destruct (derive f V b cs idx) as [mb i1]. destruct (derive f' V b' cs idx) as [mb' i1'].
    destruct K as [E R]. cbn [fst snd] in E, R. subst i1'.
    split; [reflexivity|]. cbn [fst]. apply d_while_ext. exact R.
  Qed.

  (* the header of a counted loop only matters through the loop variable it determines *)
  Theorem sem_for i s c n i' s' c' n' b b' :
    sem_eq V b b' -> loop_compat i s c n b = loop_compat i' s' c' n' b' ->
    sem_eq V (SFor i s c n b) (SFor i' s' c' n' b').
  Proof.
    intros Hb EL f f' cs idx F F'. destruct f as [|f]; [destruct F|]. destruct f' as [|f']; [destruct F'|].
    cbn [derive An_func.fuel_ok] in *. rewrite <- EL in *.
    destruct (loop_compat i s c n b) as [X|]; [|apply deqV_refl].
    pose proof (Hb f f' cs idx F F') as K.
    destruct (derive f V b cs idx) as [mb i1]. destruct (derive f' V b' cs idx) as [mb' i1'].
    destruct K as [E R]. cbn [fst snd] in E, R. subst i1'.
    split; [reflexivity|]. cbn [fst]. apply d_for_ext_any. exact R.
  Qed.

  Theorem seml_refl l : seml V l l.
  Proof. induction l as [|a t IH]; [apply seml_nil|apply seml_cons; [apply sem_refl|exact IH]]. Qed.

  Theorem seml_sym l l' : seml V l l' -> seml V l' l.
  Proof.
    intros H f f' cs idx acc acc' F F' Fa Fa' Ha. apply deqV_sym.
    apply H; try assumption. apply oeqV_sym. exact Ha.
  Qed.

  Theorem seml_trans l1 l2 l3 : seml V l1 l2 -> seml V l2 l3 -> seml V l1 l3.
  Proof.
    intros H12 H23 f f' cs idx acc acc' F F' Fa Fa' Ha.
    assert (G : exists g, Forall (fuel_ok g) l2).
    { apply fuel_ok_list_exists. apply Forall_forall. intros s _. apply fuel_ok_exists. }
    destruct G as [g G].
    eapply deqV_trans; [apply (H12 f g cs idx acc acc F G Fa Fa (oeqV_refl V acc))|].
    apply (H23 g f' cs idx acc acc' G F' Fa Fa' Ha).
  Qed.

  Theorem seml_app_head l1 l l' : seml V l l' -> seml V (l1 ++ l) (l1 ++ l').
  Proof.
    intros H. induction l1 as [|a t IH]; [exact H|]. cbn [app]. apply seml_cons; [apply sem_refl|exact IH].
  Qed.

  (* ---- the transformations named by the property ---- *)

  Theorem layout_block_single s : sem_eq V (SBlock [s]) s.
  Proof. apply sem_unwrap, sem_refl. Qed.

  Theorem layout_insert_skip l1 m l2 : seml V (l1 ++ SSkip m :: l2) (l1 ++ l2).
  Proof. apply seml_app_head, seml_skip, seml_refl. Qed.

  Theorem layout_insert_empty_block l1 l2 : seml V (l1 ++ SBlock [] :: l2) (l1 ++ l2).
  Proof. apply seml_app_head, seml_flat. cbn [app]. apply seml_refl. Qed.

  Theorem layout_flatten l1 l2 l3 : seml V (l1 ++ [SBlock l2] ++ l3) (l1 ++ l2 ++ l3).
  Proof. apply seml_app_head. cbn [app]. apply seml_flat, seml_refl. Qed.

  Theorem layout_block_insert_skip l1 m l2 : sem_eq V (SBlock (l1 ++ SSkip m :: l2)) (SBlock (l1 ++ l2)).
  Proof. apply sem_block, layout_insert_skip. Qed.

  Theorem layout_block_insert_empty_block l1 l2 :
    sem_eq V (SBlock (l1 ++ SBlock [] :: l2)) (SBlock (l1 ++ l2)).
  Proof. apply sem_block, layout_insert_empty_block. Qed.

  Theorem layout_block_flatten l1 l2 l3 :
    sem_eq V (SBlock (l1 ++ [SBlock l2] ++ l3)) (SBlock (l1 ++ l2 ++ l3)).
  Proof. apply sem_block, layout_flatten. Qed.
End Rules.

(* the fuel hypotheses are satisfiable, and a composed use of the rules *)
Example layout_instance :
  let V := ["x"; "y"; "z"]%string in
  let s  := SWhile ["x"%string] (SBlock [SBin "y" "+" (AVar "x") (AVar "x"); SCopy "z" "y"]) in
  let s' := SWhile ["x"%string]
              (SBlock [SSkip []; SBlock [SBlock [SBin "y" "+" (AVar "x") (AVar "x")]; SBlock []];
                       SCopy "z" "y"; SSkip ["y"%string]]) in
  sem_eq V s' s /\ fuel_ok 3 s /\ fuel_ok 5 s' /\
  is_some (fst (derive 3 V s [2] 0)) = true.
Proof.
  cbv zeta. split; [|split; [|split]].
  - apply sem_while, sem_block.
    apply seml_skip, seml_flat. cbn [app]. apply seml_flat. cbn [app].
    apply seml_cons; [apply sem_refl|]. apply seml_flat. cbn [app].
    apply seml_cons; [apply sem_refl|]. apply seml_skip, seml_nil.
  - cbn. repeat constructor.
  - cbn. repeat constructor.
  - vm_compute. reflexivity.
Qed.
