(* C12 (1/4): the syntactic part of "results do not depend on names, layout or equivalent spellings".

     stmt_induction        induction principle for the nested statement type
     rename_stmt rho s     consistent renaming of every variable occurrence (header lists of a for loop
                           and the mentions of a no-flow statement included)
     stmt_names s          every name occurring in s (a superset of stmt_vars s: the header lists of a
                           for loop are names even when the Variables walker does not record them)
     plus_for_minus s      every binary operator "-" spelled "+"
   and the facts that the name-level computations of the model (mem_strb, dedup, remove_all,
   loop_guard_x, stmt_vars, loop_compat, unary_asgn_rewrite, cv_lookup, dedup_first) commute with a map
   that is injective on the names involved.

   do-while: `while` and `do-while` are the SAME constructor SWhile of this grammar (Analysis.v), so
   "a while written as do-while" is the identical statement: nothing to prove. *)
From Coq Require Import String List Bool Arith Lia.
From PM Require Import Semiring Poly Rel Analysis Calculus.
From PM Require Calc_alg An_leaf An_main_aux An_func.
From PMGen Require Import RulesGen.
Import ListNotations.
Open Scope list_scope.

(* ------------------------------------------------------------------ *)
(* induction over statements                                           *)

Section StmtInd.
  Variable Q : stmt -> Prop.
  Hypothesis HSkip : forall m, Q (SSkip m).
  Hypothesis HBin : forall x op y z, Q (SBin x op y z).
  Hypothesis HConst : forall x, Q (SConst x).
  Hypothesis HCopy : forall x y, Q (SCopy x y).
  Hypothesis HUnAsg : forall x op e, Q (SUnAsg x op e).
  Hypothesis HUnary : forall op e, Q (SUnary op e).
  Hypothesis HIf : forall t e, Forall Q t -> Forall Q e -> Q (SIf t e).
  Hypothesis HWhile : forall cv b, Q b -> Q (SWhile cv b).
  Hypothesis HFor : forall i s c n b, Q b -> Q (SFor i s c n b).
  Hypothesis HBlock : forall l, Forall Q l -> Q (SBlock l).

  Fixpoint stmt_induction (s : stmt) : Q s :=
    let all := fix all (l : list stmt) : Forall Q l :=
      match l with
      | [] => Forall_nil Q
      | a :: t => @Forall_cons _ Q a t (stmt_induction a) (all t)
      end in
    match s with
    | SSkip m => HSkip m
    | SBin x op y z => HBin x op y z
    | SConst x => HConst x
    | SCopy x y => HCopy x y
    | SUnAsg x op e => HUnAsg x op e
    | SUnary op e => HUnary op e
    | SIf t e => HIf t e (all t) (all e)
    | SWhile cv b => HWhile cv b (stmt_induction b)
    | SFor i s0 c n b => HFor i s0 c n b (stmt_induction b)
    | SBlock l => HBlock l (all l)
    end.
End StmtInd.

(* ------------------------------------------------------------------ *)
(* renaming, names, spelling of minus                                  *)

Definition rename_atom (rho : string -> string) (a : atom) : atom :=
  match a with AVar x => AVar (rho x) | ACst => ACst end.

Definition rename_uarg (rho : string -> string) (e : uarg) : uarg :=
  match e with UVar y => UVar (rho y) | UCst => UCst | UOther => UOther end.

Fixpoint rename_stmt (rho : string -> string) (s : stmt) : stmt :=
  match s with
  | SSkip m => SSkip (map rho m)
  | SBin x op y z => SBin (rho x) op (rename_atom rho y) (rename_atom rho z)
  | SConst x => SConst (rho x)
  | SCopy x y => SCopy (rho x) (rho y)
  | SUnAsg x op e => SUnAsg (rho x) op (rename_uarg rho e)
  | SUnary op e => SUnary op (rename_uarg rho e)
  | SIf t e => SIf (map (rename_stmt rho) t) (map (rename_stmt rho) e)
  | SWhile cv b => SWhile (map rho cv) (rename_stmt rho b)
  | SFor i s0 c n b => SFor (map rho i) (map rho s0) (map rho c) (map rho n) (rename_stmt rho b)
  | SBlock l => SBlock (map (rename_stmt rho) l)
  end.

Definition rename_func (rho : string -> string) (f : func_src) : func_src :=
  {| f_params := map rho (f_params f); f_body := map (rename_stmt rho) (f_body f) |}.

Fixpoint stmt_names (s : stmt) : list string :=
  match s with
  | SSkip m => m
  | SBin x _ y z => x :: atom_vars y ++ atom_vars z
  | SConst x => [x]
  | SCopy x y => [x; y]
  | SUnAsg x _ e => x :: uarg_vars e
  | SUnary _ e => uarg_vars e
  | SIf t e => flat_map stmt_names t ++ flat_map stmt_names e
  | SWhile cv b => cv ++ stmt_names b
  | SFor i s0 c n b => i ++ s0 ++ c ++ n ++ stmt_names b
  | SBlock l => flat_map stmt_names l
  end.

Definition func_names (f : func_src) : list string :=
  f_params f ++ flat_map stmt_names (f_body f).

Definition pfm_op (op : string) : string := if String.eqb op "-" then "+"%string else op.

Fixpoint plus_for_minus (s : stmt) : stmt :=
  match s with
  | SBin x op y z => SBin x (pfm_op op) y z
  | SIf t e => SIf (map plus_for_minus t) (map plus_for_minus e)
  | SWhile cv b => SWhile cv (plus_for_minus b)
  | SFor i s0 c n b => SFor i s0 c n (plus_for_minus b)
  | SBlock l => SBlock (map plus_for_minus l)
  | SSkip m => SSkip m
  | SConst x => SConst x
  | SCopy x y => SCopy x y
  | SUnAsg x op e => SUnAsg x op e
  | SUnary op e => SUnary op e
  end.

Definition pfm_func (f : func_src) : func_src :=
  {| f_params := f_params f; f_body := map plus_for_minus (f_body f) |}.

(* ------------------------------------------------------------------ *)
(* small list facts                                                    *)

Lemma flat_map_in_sub {A B} (f : A -> list B) l a v : In a l -> In v (f a) -> In v (flat_map f l).
Proof. intros Ha Hv. apply in_flat_map. exists a. split; assumption. Qed.

Lemma remove_all_In v xs from : In v (remove_all xs from) -> In v from.
Proof. unfold remove_all. intros H. apply filter_In in H. tauto. Qed.

Lemma loop_guard_x_In v i s c n : In v (loop_guard_x i s c n) -> In v (c ++ s).
Proof. unfold loop_guard_x. intros H. apply (proj1 (An_func.dedup_In _ _)) in H. exact (remove_all_In _ _ _ H). Qed.

Lemma uarg_vars_if (b : bool) e v : In v (if b then uarg_vars e else []) -> In v (uarg_vars e).
Proof. destruct b; [tauto|intros []]. Qed.

Lemma stmt_vars_names : forall s v, In v (stmt_vars s) -> In v (stmt_names s).
Proof.
  assert (FM : forall l, Forall (fun s => forall v, In v (stmt_vars s) -> In v (stmt_names s)) l ->
                forall v, In v (flat_map stmt_vars l) -> In v (flat_map stmt_names l)).
  { intros l Hl v Hv. apply in_flat_map in Hv. destruct Hv as [a [Ha Hv]].
    apply (flat_map_in_sub _ _ a); [exact Ha|]. exact (proj1 (Forall_forall _ _) Hl a Ha v Hv). }
  induction s as [m|x op y z|x|x y|x op e|op e|t e IHt IHe|cv b IHb|i sr c n b IHb|l IHl] using stmt_induction;
    cbn [stmt_vars stmt_names]; intros v Hv; try exact Hv.
  - destruct Hv as [Hv|Hv]; [left; exact Hv|right]. exact (uarg_vars_if _ _ _ Hv).
  - exact (uarg_vars_if _ _ _ Hv).
  - apply in_app_iff in Hv. apply in_app_iff. destruct Hv as [Hv|Hv]; [left|right]; apply FM; assumption.
  - apply in_app_iff in Hv. apply in_app_iff. destruct Hv as [Hv|Hv]; [left; exact Hv|right; auto].
  - assert (G : In v (stmt_vars b) -> In v (i ++ sr ++ c ++ n ++ stmt_names b)).
    { intros H. rewrite !in_app_iff. right. right. right. right. auto. }
    cbv zeta in Hv.
    destruct (loop_guard_x i sr c n) as [|x [|? ?]] eqn:EG; try (apply G; exact Hv).
    assert (Hx : In x (c ++ sr)) by (apply loop_guard_x_In with (i := i) (n := n); rewrite EG; left; reflexivity).
    destruct (mem_strb x (stmt_vars b)); [apply G; exact Hv|].
    destruct Hv as [<-|Hv]; [|apply G; exact Hv].
    rewrite !in_app_iff. apply in_app_iff in Hx. tauto.
  - apply FM; assumption.
Qed.

Lemma func_vars_In f v : In v (func_vars f) <-> In v (f_params f ++ flat_map stmt_vars (f_body f)).
Proof. unfold func_vars. rewrite An_func.sort_str_In, An_func.dedup_In. tauto. Qed.

Lemma func_vars_names f v : In v (func_vars f) -> In v (func_names f).
Proof.
  intros H. apply func_vars_In in H. unfold func_names. apply in_app_iff in H. apply in_app_iff.
  destruct H as [H|H]; [left; exact H|right].
  apply in_flat_map in H. destruct H as [a [Ha Hv]].
  apply (flat_map_in_sub _ _ a); [exact Ha|]. apply stmt_vars_names. exact Hv.
Qed.

(* ------------------------------------------------------------------ *)
(* name-level computations commute with a map injective on the names   *)

Definition oP (P : string -> Prop) (o : option string) : Prop :=
  match o with Some x => P x | None => True end.

Section Inj.
  Variable P : string -> Prop.
  Variable rho : string -> string.
  Hypothesis inj : forall a b, P a -> P b -> rho a = rho b -> a = b.

  Definition allP (l : list string) : Prop := forall v, In v l -> P v.

  Lemma allP_cons h t : allP (h :: t) -> P h /\ allP t.
  Proof. intros H. split; [apply H; left; reflexivity|intros v Hv; apply H; right; exact Hv]. Qed.

  Lemma allP_app a b : allP (a ++ b) <-> allP a /\ allP b.
  Proof.
    unfold allP. split.
    - intros H. split; intros v Hv; apply H; apply in_app_iff; auto.
    - intros [H1 H2] v Hv. apply in_app_iff in Hv. destruct Hv; auto.
  Qed.

  Lemma eqb_rho a b : P a -> P b -> String.eqb (rho a) (rho b) = String.eqb a b.
  Proof.
    intros Pa Pb. destruct (String.eqb_spec a b) as [->|N]; [apply String.eqb_refl|].
    apply String.eqb_neq. intros E. apply N. apply inj; assumption.
  Qed.

  Lemma index_of_str_rho x l : P x -> allP l -> index_of_str (rho x) (map rho l) = index_of_str x l.
  Proof.
    intros Px. induction l as [|h t IH]; intros Hl; [reflexivity|].
    apply allP_cons in Hl. destruct Hl as [Ph Ht].
    cbn [map index_of_str]. rewrite (eqb_rho x h Px Ph), (IH Ht). reflexivity.
  Qed.

  Lemma mem_strb_rho x l : P x -> allP l -> mem_strb (rho x) (map rho l) = mem_strb x l.
  Proof. intros Px Hl. unfold mem_strb. rewrite index_of_str_rho by assumption. reflexivity. Qed.

  Lemma dedup_rho l : allP l -> dedup (map rho l) = map rho (dedup l).
  Proof.
    induction l as [|h t IH]; intros Hl; [reflexivity|].
    apply allP_cons in Hl. destruct Hl as [Ph Ht].
    cbn [map dedup]. rewrite (mem_strb_rho h t Ph Ht), (IH Ht).
    destruct (mem_strb h t); reflexivity.
  Qed.

  Lemma remove_all_rho xs from : allP xs -> allP from ->
    remove_all (map rho xs) (map rho from) = map rho (remove_all xs from).
  Proof.
    intros Hx. unfold remove_all. induction from as [|h t IH]; intros Hf; [reflexivity|].
    apply allP_cons in Hf. destruct Hf as [Ph Ht].
    cbn [map filter]. rewrite (mem_strb_rho h xs Ph Hx), (IH Ht).
    destruct (mem_strb h xs); reflexivity.
  Qed.

  Lemma loop_guard_x_rho i s c n : allP i -> allP s -> allP c -> allP n ->
    loop_guard_x (map rho i) (map rho s) (map rho c) (map rho n) = map rho (loop_guard_x i s c n).
  Proof.
    intros Hi Hs Hc Hn. unfold loop_guard_x. rewrite <- !map_app.
    assert (H1 : allP (i ++ n)) by (apply allP_app; auto).
    assert (H2 : allP (c ++ s)) by (apply allP_app; auto).
    rewrite remove_all_rho by assumption. apply dedup_rho.
    intros v Hv. apply H2. exact (remove_all_In _ _ _ Hv).
  Qed.

  Lemma atom_vars_rename a : atom_vars (rename_atom rho a) = map rho (atom_vars a).
  Proof. destruct a; reflexivity. Qed.

  Lemma uarg_vars_rename e : uarg_vars (rename_uarg rho e) = map rho (uarg_vars e).
  Proof. destruct e; reflexivity. Qed.

  Lemma atom_name_rename a : atom_name (rename_atom rho a) = option_map rho (atom_name a).
  Proof. destruct a; reflexivity. Qed.

  Lemma flat_map_rename (g : stmt -> list string) l :
    Forall (fun s => allP (stmt_names s) -> g (rename_stmt rho s) = map rho (g s)) l ->
    allP (flat_map stmt_names l) ->
    flat_map g (map (rename_stmt rho) l) = map rho (flat_map g l).
  Proof.
    induction 1 as [|a t Ha Ht IH]; intros HP; [reflexivity|].
    cbn [flat_map] in HP. apply allP_app in HP. destruct HP as [H1 H2].
    cbn [map flat_map]. rewrite map_app, (Ha H1), (IH H2). reflexivity.
  Qed.

  Theorem stmt_vars_rename : forall s, allP (stmt_names s) ->
    stmt_vars (rename_stmt rho s) = map rho (stmt_vars s).
  Proof.
    induction s as [m|x op y z|x|x y|x op e|op e|t e IHt IHe|cv b IHb|i sr c n b IHb|l IHl] using stmt_induction;
      cbn [stmt_names rename_stmt stmt_vars]; intros HP.
    - reflexivity.
    - rewrite !atom_vars_rename, <- map_app. reflexivity.
    - reflexivity.
    - reflexivity.
    - rewrite uarg_vars_rename. destruct (mem_strb op U_OPS); reflexivity.
    - rewrite uarg_vars_rename. destruct (mem_strb op U_OPS); reflexivity.
    - apply allP_app in HP. destruct HP as [H1 H2].
      rewrite map_app, (flat_map_rename stmt_vars t), (flat_map_rename stmt_vars e) by assumption.
      reflexivity.
    - apply allP_app in HP. destruct HP as [H1 H2]. rewrite map_app, (IHb H2). reflexivity.
    - apply allP_app in HP. destruct HP as [Hi HP]. apply allP_app in HP. destruct HP as [Hs HP].
      apply allP_app in HP. destruct HP as [Hc HP]. apply allP_app in HP. destruct HP as [Hn Hb].
      cbv zeta. rewrite (loop_guard_x_rho i sr c n Hi Hs Hc Hn), (IHb Hb).
      destruct (loop_guard_x i sr c n) as [|x [|? ?]] eqn:EG; try reflexivity.
      cbn [map].
      assert (Px : P x).
      { assert (Hx : In x (c ++ sr))
          by (apply loop_guard_x_In with (i := i) (n := n); rewrite EG; left; reflexivity).
        apply in_app_iff in Hx. destruct Hx; auto. }
      rewrite (mem_strb_rho x (stmt_vars b) Px).
      + destruct (mem_strb x (stmt_vars b)); reflexivity.
      + intros v Hv. apply Hb. apply stmt_vars_names. exact Hv.
    - apply flat_map_rename; assumption.
  Qed.

  Theorem loop_compat_rename i s c n b :
    allP i -> allP s -> allP c -> allP n -> allP (stmt_names b) ->
    loop_compat (map rho i) (map rho s) (map rho c) (map rho n) (rename_stmt rho b) =
    option_map rho (loop_compat i s c n b).
  Proof.
    intros Hi Hs Hc Hn Hb. unfold loop_compat.
    rewrite (loop_guard_x_rho i s c n Hi Hs Hc Hn), (stmt_vars_rename b Hb).
    destruct (loop_guard_x i s c n) as [|x [|? ?]] eqn:EG; try reflexivity.
    cbn [map].
    assert (Px : P x).
    { assert (Hx : In x (c ++ s))
        by (apply loop_guard_x_In with (i := i) (n := n); rewrite EG; left; reflexivity).
      apply in_app_iff in Hx. destruct Hx; auto. }
    rewrite (mem_strb_rho x (stmt_vars b) Px).
    - destruct (mem_strb x (stmt_vars b)); reflexivity.
    - intros v Hv. apply Hb. apply stmt_vars_names. exact Hv.
  Qed.

  (* the loop variable of a counted loop is one of the header names *)
  Lemma loop_compat_P i s c n b X : allP s -> allP c -> loop_compat i s c n b = Some X -> P X.
  Proof.
    intros Hs Hc. unfold loop_compat.
    destruct (loop_guard_x i s c n) as [|x [|? ?]] eqn:EG; try discriminate.
    destruct (mem_strb x (stmt_vars b)); [discriminate|]. intros H. injection H as <-.
    assert (Hx : In x (c ++ s))
      by (apply loop_guard_x_In with (i := i) (n := n); rewrite EG; left; reflexivity).
    apply in_app_iff in Hx. destruct Hx; auto.
  Qed.

  (* the rule table only looks at which operands are names and whether they are the same name *)
  Lemma opt_str_eqb_rho a b : oP P a -> oP P b ->
    opt_str_eqb (option_map rho a) (option_map rho b) = opt_str_eqb a b.
  Proof. destruct a, b; cbn; intros Pa Pb; try reflexivity. apply eqb_rho; assumption. Qed.

  Lemma cv_lookup_rho tbl op y z : oP P y -> oP P z ->
    cv_lookup tbl op (option_map rho y) (option_map rho z) = cv_lookup tbl op y z.
  Proof.
    intros Py Pz. induction tbl as [|[[k ops] tr] rest IH]; [reflexivity|].
    destruct k; cbn [cv_lookup].
    - destruct y, z; cbn [option_map]; try reflexivity. exact IH.
    - rewrite opt_str_eqb_rho, IH by assumption. reflexivity.
    - rewrite opt_str_eqb_rho, IH by assumption. reflexivity.
  Qed.

  Lemma filter_omap_rho h l : oP P h -> (forall o, In o l -> oP P o) ->
    filter (fun o => negb (opt_str_eqb o (option_map rho h))) (map (option_map rho) l) =
    map (option_map rho) (filter (fun o => negb (opt_str_eqb o h)) l).
  Proof.
    intros Ph. induction l as [|a t IH]; intros Hl; [reflexivity|].
    cbn [map filter]. rewrite opt_str_eqb_rho by (auto; apply Hl; left; reflexivity).
    rewrite IH by (intros o Ho; apply Hl; right; exact Ho).
    destruct (opt_str_eqb a h); reflexivity.
  Qed.

  Lemma dedup_first_rho l : (forall o, In o l -> oP P o) ->
    dedup_first (map (option_map rho) l) = map (option_map rho) (dedup_first l).
  Proof.
    induction l as [|h t IH]; intros Hl; [reflexivity|].
    cbn [map dedup_first]. rewrite IH by (intros o Ho; apply Hl; right; exact Ho).
    rewrite filter_omap_rho; [reflexivity|apply Hl; left; reflexivity|].
    intros o Ho. apply Hl. right. exact (An_leaf.dedup_first_In _ _ Ho).
  Qed.

  Lemma opt_names_rho l : opt_names (map (option_map rho) l) = map rho (opt_names l).
  Proof.
    unfold opt_names. induction l as [|[x|] t IH]; cbn [map flat_map option_map app]; [reflexivity| |exact IH].
    rewrite IH. reflexivity.
  Qed.

  Lemma opt_names_In v l : In v (opt_names l) -> In (Some v) l.
  Proof.
    unfold opt_names. intros H. apply in_flat_map in H. destruct H as [[x|] [Ho Hv]]; [|destruct Hv].
    destruct Hv as [<-|[]]. exact Ho.
  Qed.

  Lemma assoc_sc_rho u rows vec : P u -> allP rows ->
    assoc_sc (rho u) (map rho rows) vec = assoc_sc u rows vec.
  Proof.
    intros Pu. revert vec. induction rows as [|r rs IH]; intros vec Hr; [reflexivity|].
    apply allP_cons in Hr. destruct Hr as [Pr Hrs].
    destruct vec as [|v vs]; [reflexivity|]. cbn [map assoc_sc].
    rewrite (eqb_rho u r Pu Pr), (IH vs Hrs). reflexivity.
  Qed.

  (* x = op e is rewritten the same way whatever the names are (no injectivity needed) *)
  Lemma inc_dec_stmt_rename op y : inc_dec_stmt op (rho y) = rename_stmt rho (inc_dec_stmt op y).
  Proof. reflexivity. Qed.

  Lemma unary_asgn_rewrite_rename x op e :
    unary_asgn_rewrite (rho x) op (rename_uarg rho e) =
    option_map (rename_stmt rho) (unary_asgn_rewrite x op e).
  Proof.
    unfold unary_asgn_rewrite. cbv zeta.
    destruct (String.eqb op "!"); [reflexivity|].
    destruct (String.eqb op "sizeof"); [reflexivity|].
    destruct e as [|y|]; cbn [rename_uarg]; try reflexivity.
    destruct (mem_strb op INC_DEC).
    - destruct (mem_strb op PREFIX); reflexivity.
    - destruct (String.eqb op "-"); [reflexivity|].
      destruct (String.eqb op "+"); reflexivity.
  Qed.
End Inj.

(* the statement x = op e is rewritten into only mentions x and the operand *)
Lemma unary_asgn_rewrite_names x op e s' :
  unary_asgn_rewrite x op e = Some s' ->
  forall v, In v (stmt_names s') -> In v (stmt_names (SUnAsg x op e)).
Proof.
  unfold unary_asgn_rewrite. cbv zeta.
  destruct (String.eqb op "!"). { intros H. injection H as <-. cbn. tauto. }
  destruct (String.eqb op "sizeof"). { intros H. injection H as <-. cbn. tauto. }
  destruct e as [|y|].
  - intros H. injection H as <-. cbn. tauto.
  - destruct (mem_strb op INC_DEC).
    + intros H. injection H as <-. intros v Hv. cbn [stmt_names uarg_vars].
      assert (Hv' : v = x \/ v = y).
      { destruct (mem_strb op PREFIX); cbn in Hv; intuition auto. }
      cbn [In]. destruct Hv' as [->| ->]; auto.
    + destruct (String.eqb op "-"). { intros H. injection H as <-. cbn. tauto. }
      destruct (String.eqb op "+"); [|discriminate].
      intros H. injection H as <-. cbn. tauto.
  - discriminate.
Qed.

(* renaming by the identity *)
Lemma map_ext_Forall {A} (f : A -> A) l : Forall (fun a => f a = a) l -> map f l = l.
Proof. induction 1 as [|a t Ha Ht IH]; [reflexivity|]. cbn [map]. rewrite Ha, IH. reflexivity. Qed.

Lemma rename_stmt_id : forall s, rename_stmt (fun x => x) s = s.
Proof.
  induction s as [m|x op y z|x|x y|x op e|op e|t e IHt IHe|cv b IHb|i sr c n b IHb|l IHl] using stmt_induction;
    cbn [rename_stmt]; rewrite ?map_id; try reflexivity.
  - destruct y, z; reflexivity.
  - destruct e; reflexivity.
  - destruct e; reflexivity.
  - rewrite (map_ext_Forall _ t), (map_ext_Forall _ e) by assumption. reflexivity.
  - rewrite IHb. reflexivity.
  - rewrite IHb. reflexivity.
  - rewrite (map_ext_Forall _ l) by assumption. reflexivity.
Qed.

(* ------------------------------------------------------------------ *)
(* "-" spelled "+"                                                     *)

Lemma flat_map_map_ext {A B} (g : A -> list B) (h : A -> A) l :
  Forall (fun a => g (h a) = g a) l -> flat_map g (map h l) = flat_map g l.
Proof. induction 1 as [|a t Ha Ht IH]; [reflexivity|]. cbn [map flat_map]. rewrite Ha, IH. reflexivity. Qed.

Theorem stmt_vars_pfm : forall s, stmt_vars (plus_for_minus s) = stmt_vars s.
Proof.
  induction s as [m|x op y z|x|x y|x op e|op e|t e IHt IHe|cv b IHb|i sr c n b IHb|l IHl] using stmt_induction;
    cbn [plus_for_minus stmt_vars]; try reflexivity.
  - rewrite (flat_map_map_ext stmt_vars _ t), (flat_map_map_ext stmt_vars _ e) by assumption. reflexivity.
  - rewrite IHb. reflexivity.
  - rewrite IHb. reflexivity.
  - apply flat_map_map_ext. assumption.
Qed.

Lemma func_vars_pfm f : func_vars (pfm_func f) = func_vars f.
Proof.
  unfold func_vars, pfm_func. cbn [f_params f_body].
  rewrite (flat_map_map_ext stmt_vars plus_for_minus (f_body f)); [reflexivity|].
  apply Forall_forall. intros s _. apply stmt_vars_pfm.
Qed.

Lemma loop_compat_pfm i s c n b : loop_compat i s c n (plus_for_minus b) = loop_compat i s c n b.
Proof. unfold loop_compat. rewrite stmt_vars_pfm. reflexivity. Qed.

(* the two spellings select the same row of the generated rule table *)
Lemma cv_lookup_minus_plus y z : cv_lookup CV_TABLE "-" y z = cv_lookup CV_TABLE "+" y z.
Proof. destruct y as [y|], z as [z|]; reflexivity. Qed.

Lemma minus_plus_bin_ops : mem_strb "-" BIN_OPS = true /\ mem_strb "+" BIN_OPS = true.
Proof. split; reflexivity. Qed.

Lemma leaf_bin_pfm x op y z c : leaf_bin x (pfm_op op) y z c = leaf_bin x op y z c.
Proof.
  unfold pfm_op. destruct (String.eqb_spec op "-") as [->|N]; [|reflexivity].
  unfold leaf_bin. rewrite cv_lookup_minus_plus. reflexivity.
Qed.

Lemma d_bin_pfm x op y z cs idx : d_bin x (pfm_op op) y z cs idx = d_bin x op y z cs idx.
Proof. unfold d_bin. rewrite leaf_bin_pfm. reflexivity. Qed.
