(* Three further consequences of the simulation of the calculus by the analysis model:
     SPLIT     (C10)  analysing l1 ++ l2 = composing the analyses of l1 and l2,
     BOUND     (C01)  the bound of a result is the derived matrix read column-wise,
     INF_FLOWS (C15)  the problematic-flow description names only pairs whose entry can be infinite.
   Helpers: An_extra_split.v, An_extra_bound.v, An_extra_inf.v. *)
From Coq Require Import String List Bool Arith Lia.
From PM Require Import Semiring Poly Poly_sem Poly_times Rel Analysis Calculus Rel_sem Sem_stmts An_stmts.
From PM Require Calc_alg Poly_wf An_seq An_func An_closed Bound Bound_text.
From PM Require Export An_extra_split An_extra_bound An_extra_inf.
From PM Require DeltaGraph.
Import ListNotations.
Open Scope list_scope.

(* ================================================================== *)
(* 1. SPLIT                                                            *)

(* the index reached by the derivation of a function body does not depend on the (in-domain) vector *)
Lemma body_index f stop index r d :
  func_ok f ->
  cmds (f_body f) stop 0 (rel_identity (func_vars f)) false (DeltaGraph.dg_new 3) = ROk (false, index, r, d) ->
  forall cs, in_domain cs -> snd (derive_func f cs) = index.
Proof.
  intros Hf Hrun. pose proof (An_func.func_vars_names_ok f Hf) as HV.
  destruct (An_func.cmds_sim_noexit An_closed.main_sim An_closed.derive_finite
              (func_vars f) (f_body f) stop 0 (rel_identity (func_vars f))
              (DeltaGraph.dg_new 3) (fun _ => Some sid) index r d
              HV (An_func.func_vars_body f) An_func.dg_new_inv (An_func.rel_identity_acc_ok _ HV) Hrun)
    as (_ & _ & _ & K4 & _).
  exact K4.
Qed.

Lemma finite_index f stop res :
  func_ok f -> analyse f stop = ROk res -> fr_infinite res = false ->
  forall cs, in_domain cs -> snd (derive_func f cs) = fr_index res.
Proof.
  intros Hf Han Hinf.
  destruct (An_func.analyse_unfold f stop res Han) as (di & index & r & d & Hrun & ->).
  cbn [fr_infinite fr_index] in *. apply orb_false_iff in Hinf. destruct Hinf as [-> _].
  exact (body_index f stop index r d Hf Hrun).
Qed.

(* a function whose body is l1 ++ l2, reported not infinite *)
Theorem split_analysis :
  forall f stop res l1 l2, func_ok f -> f_body f = l1 ++ l2 ->
    analyse f stop = ROk res -> fr_infinite res = false ->
    exists r, fr_rel res = Some r /\ rvars r = func_vars f /\
    forall cs, vec_ok (fr_index res) cs ->
      let V := func_vars f in
      let d1 := derive_list V l1 cs (Some sid) 0 in
      let d2 := derive_list V l2 cs (Some sid) (snd d1) in
      snd d2 = fr_index res /\
      (accepted (fr_inf_deltas res) cs = true <->
         (exists A1, fst d1 = Some A1) /\ (exists A2, fst d2 = Some A2)) /\
      (forall A1 A2, fst d1 = Some A1 -> fst d2 = Some A2 ->
         apply_choice r (choice_of_list cs) = smat_table V (smul V A1 A2)).
Proof.
  intros f stop res l1 l2 Hf Hbody Han Hinf.
  destruct (An_closed.finite_result f stop res Hf Han Hinf) as (_ & _ & r & Hr & Hv & Hcs).
  exists r. split; [exact Hr|]. split; [exact Hv|].
  intros cs Hvec V d1 d2. destruct (Hcs cs Hvec) as [Hacc Hmat].
  pose proof (finite_index f stop res Hf Han Hinf cs (proj2 Hvec)) as Hidx.
  unfold derive_func in Hacc, Hmat, Hidx. rewrite Hbody in Hacc, Hmat, Hidx. fold V in Hacc, Hmat, Hidx.
  destruct (derive_list_split V l1 l2 cs 0) as (S1 & S2 & S3). fold d1 d2 in S1, S2, S3.
  split; [rewrite <- S1; exact Hidx|]. split.
  - rewrite Hacc. split.
    + intros [A HA]. destruct (fst d1) as [A1|] eqn:E1; [|exfalso].
      * destruct (fst d2) as [A2|] eqn:E2; [eauto|exfalso].
        rewrite (proj2 S2 (or_intror eq_refl)) in HA. discriminate HA.
      * rewrite (proj2 S2 (or_introl eq_refl)) in HA. discriminate HA.
    + intros [[A1 H1] [A2 H2]]. destruct (S3 A1 A2 H1 H2) as (A & HA & _). eauto.
  - intros A1 A2 H1 H2. destruct (S3 A1 A2 H1 H2) as (A & HA & HE).
    rewrite (Hmat A HA). apply smat_table_ext. exact HE.
Qed.

(* ================================================================== *)
(* 2. BOUND                                                            *)

(* Bound().calculate(relation.apply_choice( *cs)): the variables as bound.py text, the scalars as the
   strings of pymwp/semiring.py *)
Definition bound_of (r : rel) (cs : list nat) : option Bound.bdict :=
  Bound.calculate [] (map Bound.L (rvars r)) (map (map sc_str) (apply_choice r (choice_of_list cs))).

Theorem bound_reads_derived_columns :
  forall f stop res, func_ok f -> analyse f stop = ROk res -> fr_infinite res = false ->
    exists r, fr_rel res = Some r /\
    forall cs, vec_ok (fr_index res) cs -> accepted (fr_inf_deltas res) cs = true ->
      let V := func_vars f in
      exists A bd, fst (derive_func f cs) = Some A /\ bound_of r cs = Some bd /\
        map fst bd = map Bound.L V /\
        forall v, In v V ->
          Bound.dict_get bd (Bound.L v) =
          Some (Bound.mb_of_lists (map Bound.L (filter (fun u => sc_eqb (A u v) M) V))
                                  (map Bound.L (filter (fun u => sc_eqb (A u v) W) V))
                                  (map Bound.L (filter (fun u => sc_eqb (A u v) P) V))).
Proof.
  intros f stop res Hf Han Hinf.
  destruct (An_closed.finite_result f stop res Hf Han Hinf) as (_ & _ & r & Hr & Hv & Hcs).
  exists r. split; [exact Hr|]. intros cs Hvec Hacc V.
  destruct (Hcs cs Hvec) as [Ha Hmat]. destruct (proj1 Ha Hacc) as [A HA].
  pose proof (An_func.func_vars_NoDup f) as ND. fold V in ND.
  exists A, (map (fun v => (Bound.L v, col_bound V A v)) V).
  split; [exact HA|]. split; [|split].
  - unfold bound_of. rewrite (Hmat A HA), Hv. fold V. apply calculate_table. exact ND.
  - rewrite map_map. reflexivity.
  - intros v Hin. exact (dict_get_table V (col_bound V A) v ND Hin).
Qed.

(* ================================================================== *)
(* 3. INF_FLOWS                                                        *)

(* Relation.infty_vars(only_incl): a pair (src, tgt) is kept when its polynomial has an infinite
   monomial and `not only_incl or src in only_incl or tgt in only_incl`; sources left without target are
   dropped.  (Rel.infty_vars is the case only_incl = None.) *)
Definition infty_vars_incl (only : list string) (r : rel) : list (string * list string) :=
  filter (fun '(_, l) => negb (is_nilb l))
    (map (fun '(src, row) =>
            (src, map fst (filter (fun '(tgt, p) => some_infty p &&
                                     (is_nilb only || mem_strb src only || mem_strb tgt only))
                                  (combine (rvars r) row))))
         (combine (rvars r) (rmat r))).

Lemma infty_vars_incl_nil r : infty_vars_incl [] r = infty_vars r.
Proof.
  unfold infty_vars_incl, infty_vars. f_equal. apply map_ext. intros [src row]. f_equal. f_equal.
  apply filter_ext. intros [tgt p]. cbn [is_nilb orb]. apply andb_true_r.
Qed.

(* by position, without any hypothesis on the relation *)
Theorem infty_vars_incl_positions only r src l :
  In (src, l) (infty_vars_incl only r) ->
  l <> [] /\
  exists i row, nth_error (rvars r) i = Some src /\ nth_error (rmat r) i = Some row /\
    forall tgt, In tgt l ->
      exists j p, nth_error (rvars r) j = Some tgt /\ nth_error row j = Some p /\
                  p = mget (rmat r) i j /\ some_infty p = true /\
                  (only = [] \/ In src only \/ In tgt only).
Proof.
  unfold infty_vars_incl. intros H. apply filter_In in H. destruct H as [H Hne].
  split; [apply is_nilb_false; exact Hne|].
  apply in_map_iff in H. destruct H as ([s row] & E & Hin). injection E as -> <-.
  destruct (combine_In_nth_error _ _ _ _ Hin) as (i & Hi & Hrow).
  exists i, row. split; [exact Hi|]. split; [exact Hrow|].
  intros tgt Ht. apply in_map_iff in Ht. destruct Ht as ([t p] & E & Hf). cbn [fst] in E. subst t.
  apply filter_In in Hf. destruct Hf as [Hc Hb].
  destruct (combine_In_nth_error _ _ _ _ Hc) as (j & Hj & Hp).
  exists j, p. split; [exact Hj|]. split; [exact Hp|]. split.
  { unfold mget. rewrite (nth_error_nth _ _ [] Hrow). symmetry. exact (nth_error_nth _ _ zero_poly Hp). }
  apply andb_true_iff in Hb. destruct Hb as [Hs Ho]. split; [exact Hs|].
  apply orb_true_iff in Ho. destruct Ho as [Ho|Ho]; [apply orb_true_iff in Ho; destruct Ho as [Ho|Ho]|].
  - left. apply is_nilb_true. exact Ho.
  - right. left. apply Rel_hom.mem_strb_In. exact Ho.
  - right. right. apply Rel_hom.mem_strb_In. exact Ho.
Qed.

(* on a well-formed relation: the named cell has an infinite monomial *)
Theorem infty_vars_incl_cells only r src l tgt :
  wf_rel r -> In (src, l) (infty_vars_incl only r) -> In tgt l ->
  l <> [] /\ In src (rvars r) /\ In tgt (rvars r) /\
  (only = [] \/ In src only \/ In tgt only) /\
  some_infty (cell r src tgt) = true /\
  (exists row, In row (rmat r) /\ In (cell r src tgt) row).
Proof.
  intros (ND & _) H Ht.
  destruct (infty_vars_incl_positions only r src l H) as (Hne & i & row & Hi & Hrow & Hall).
  destruct (Hall tgt Ht) as (j & p & Hj & Hp & _ & Hs & Ho).
  rewrite (cell_at r i j src tgt row p ND Hi Hj Hrow Hp).
  split; [exact Hne|]. split; [exact (nth_error_In _ _ Hi)|]. split; [exact (nth_error_In _ _ Hj)|].
  split; [exact Ho|]. split; [exact Hs|].
  exists row. split; [exact (nth_error_In _ _ Hrow)|exact (nth_error_In _ _ Hp)].
Qed.

(* ... and, when its monomials are well formed over the alternatives 0..2, it IS infinite at some
   choice of alternatives *)
Theorem infty_vars_incl_can_be_infinite only r src l tgt :
  wf_rel r -> rel_pwf r -> rel_dom r -> In (src, l) (infty_vars_incl only r) -> In tgt l ->
  exists c, (forall i, c i < 3) /\ rval r c src tgt = I.
Proof.
  intros W Pw Dm H Ht.
  destruct (infty_vars_incl_cells only r src l tgt W H Ht) as (_ & _ & _ & _ & Hs & row & Hrow & Hp).
  unfold rval. apply some_infty_val_dom; [exact Hs| |].
  - apply Poly_wf.pwf_msat.
    exact (proj1 (Forall_forall _ _) (proj1 (Forall_forall _ _) Pw row Hrow) _ Hp).
  - exact (proj1 (Forall_forall _ _) (proj1 (Forall_forall _ _) Dm row Hrow) _ Hp).
Qed.

(* the converse on a well-formed relation: every such pair is named *)
Theorem infty_vars_incl_complete only r src tgt :
  wf_rel r -> In src (rvars r) -> In tgt (rvars r) -> some_infty (cell r src tgt) = true ->
  (only = [] \/ In src only \/ In tgt only) ->
  exists l, In (src, l) (infty_vars_incl only r) /\ In tgt l.
Proof.
  intros (ND & _ & Hlen & Hrows) Hs Ht Hinf Ho.
  destruct (In_nth_error _ _ Hs) as [i Hi]. destruct (In_nth_error _ _ Ht) as [j Hj].
  assert (Li : i < length (rvars r)) by (apply nth_error_Some; congruence).
  assert (Lj : j < length (rvars r)) by (apply nth_error_Some; congruence).
  destruct (nth_error (rmat r) i) as [row|] eqn:Hrow;
    [|apply nth_error_None in Hrow; lia].
  assert (Lr : length row = length (rvars r))
    by exact (proj1 (Forall_forall _ _) Hrows row (nth_error_In _ _ Hrow)).
  destruct (nth_error row j) as [p|] eqn:Hp; [|apply nth_error_None in Hp; lia].
  rewrite (cell_at r i j src tgt row p ND Hi Hj Hrow Hp) in Hinf.
  set (F := fun '(tgt, p) => some_infty p && (is_nilb only || mem_strb src only || mem_strb tgt only)).
  exists (map fst (filter F (combine (rvars r) row))).
  assert (Hin : In tgt (map fst (filter F (combine (rvars r) row)))).
  { apply in_map_iff. exists (tgt, p). split; [reflexivity|]. apply filter_In.
    split; [exact (nth_error_combine_In _ _ _ _ _ Hj Hp)|]. unfold F. rewrite Hinf. cbn [andb].
    destruct Ho as [->|[Ho|Ho]]; [reflexivity| |].
    - apply Rel_hom.mem_strb_In in Ho. rewrite Ho. apply orb_true_iff. left. apply orb_true_r.
    - apply Rel_hom.mem_strb_In in Ho. rewrite Ho. apply orb_true_r. }
  split; [|exact Hin].
  unfold infty_vars_incl. apply filter_In. split.
  - apply in_map_iff. exists (src, row). split; [reflexivity|].
    exact (nth_error_combine_In _ _ _ _ _ Hi Hrow).
  - apply is_nilb_false. intros E. rewrite E in Hin. destruct Hin.
Qed.

(* the filtered description only drops targets of the unfiltered one *)
Theorem infty_vars_incl_sub only r src l :
  In (src, l) (infty_vars_incl only r) -> exists l', In (src, l') (infty_vars r) /\ incl l l'.
Proof.
  rewrite <- infty_vars_incl_nil. unfold infty_vars_incl. intros H.
  apply filter_In in H. destruct H as [H Hne].
  apply in_map_iff in H. destruct H as ([s row] & E & Hin). injection E as -> <-.
  set (F0 := fun '(tgt, p) => some_infty p && (is_nilb (@nil string) || mem_strb src [] || mem_strb tgt [])).
  assert (Hi : incl (map fst (filter (fun '(tgt, p) => some_infty p &&
                       (is_nilb only || mem_strb src only || mem_strb tgt only)) (combine (rvars r) row)))
                    (map fst (filter F0 (combine (rvars r) row)))).
  { intros t Ht. apply in_map_iff in Ht. destruct Ht as ([t' p] & E & Hf). cbn [fst] in E. subst t'.
    apply filter_In in Hf. destruct Hf as [Hc Hb]. apply andb_true_iff in Hb.
    apply in_map_iff. exists (t, p). split; [reflexivity|]. apply filter_In. split; [exact Hc|].
    unfold F0. rewrite (proj1 Hb). reflexivity. }
  exists (map fst (filter F0 (combine (rvars r) row))). split; [|exact Hi].
  apply filter_In. split.
  - apply in_map_iff. exists (src, row). split; [reflexivity|exact Hin].
  - apply is_nilb_false. intros E. apply is_nilb_false in Hne. apply Hne.
    apply incl_l_nil. rewrite <- E. exact Hi.
Qed.

(* the relation of any result of the analysis (infinite or not, either mode) *)
Theorem inf_flows_of_result :
  forall f stop res r only src l tgt,
    func_ok f -> analyse f stop = ROk res -> fr_rel res = Some r ->
    In (src, l) (infty_vars_incl only r) -> In tgt l ->
    l <> [] /\ In src (rvars r) /\ In tgt (rvars r) /\
    (only = [] \/ In src only \/ In tgt only) /\
    some_infty (cell r src tgt) = true /\
    (exists m, In m (cell r src tgt) /\ sc m = I) /\
    (exists c, (forall i, c i < 3) /\ rval r c src tgt = I).
Proof.
  intros f stop res r only src l tgt Hf Han Hr H Ht.
  destruct (analyse_rel_ok An_closed.main_sim f stop res r Hf Han Hr) as (W & Pw & Dm & _).
  destruct (infty_vars_incl_cells only r src l tgt W H Ht) as (H1 & H2 & H3 & H4 & H5 & _).
  repeat (split; [assumption|]). split; [apply some_infty_iff; exact H5|].
  exact (infty_vars_incl_can_be_infinite only r src l tgt W Pw Dm H Ht).
Qed.

(* the same for the unfiltered Rel.infty_vars (Relation.infty_vars()) *)
Theorem inf_flows_of_result_unfiltered :
  forall f stop res r src l tgt,
    func_ok f -> analyse f stop = ROk res -> fr_rel res = Some r ->
    In (src, l) (infty_vars r) -> In tgt l ->
    l <> [] /\ In src (rvars r) /\ In tgt (rvars r) /\
    some_infty (cell r src tgt) = true /\
    (exists m, In m (cell r src tgt) /\ sc m = I) /\
    (exists c, (forall i, c i < 3) /\ rval r c src tgt = I).
Proof.
  intros f stop res r src l tgt Hf Han Hr H Ht. rewrite <- infty_vars_incl_nil in H.
  destruct (inf_flows_of_result f stop res r [] src l tgt Hf Han Hr H Ht) as (H1 & H2 & H3 & _ & H5).
  repeat (split; [assumption|]). exact H5.
Qed.

(* what some_infty means *)
Theorem some_infty_meaning :
  forall p, (some_infty p = true <-> exists m, In m p /\ sc m = I) /\
            (forall m, In m p -> sc m = I -> msat m -> exists c, val p c = I).
Proof.
  intros p. split; [apply some_infty_iff|].
  intros m Hm HI [c Hc]. exists c. exact (An_func.val_I_of_mono p c m Hm HI Hc).
Qed.

Print Assumptions split_analysis.
Print Assumptions bound_reads_derived_columns.
Print Assumptions infty_vars_incl_positions.
Print Assumptions infty_vars_incl_cells.
Print Assumptions infty_vars_incl_can_be_infinite.
Print Assumptions infty_vars_incl_complete.
Print Assumptions infty_vars_incl_sub.
Print Assumptions inf_flows_of_result.
Print Assumptions inf_flows_of_result_unfiltered.
Print Assumptions some_infty_meaning.

(* ------------------------------------------------------------------ *)
(* the hypotheses are satisfiable on non-trivial instances             *)

Definition f_split : func_src :=
  {| f_params := ["x"; "y"; "z"]%string;
     f_body := [SBin "x" "+" (AVar "y") (AVar "y"); SBin "z" "*" (AVar "x") (AVar "x")] |}.

(* x = y + y; z = x * x : split after the first statement, vector (0, 1); y flows to z polynomially,
   which only shows in the product of the two halves *)
Example split_bound_instance :
  exists res r,
    func_ok f_split /\
    f_body f_split = [SBin "x" "+" (AVar "y") (AVar "y")] ++ [SBin "z" "*" (AVar "x") (AVar "x")] /\
    analyse f_split false = ROk res /\ fr_infinite res = false /\ fr_rel res = Some r /\
    vec_ok (fr_index res) [0; 1] /\ accepted (fr_inf_deltas res) [0; 1] = true /\
    apply_choice r (choice_of_list [0; 1]) = [[O; O; O]; [P; M; P]; [O; O; O]] /\
    option_map (fun bd => map (fun kv => (Bound.to_string (fst kv), Bound.to_string (snd kv))) (Bound.to_dict bd))
               (bound_of r [0; 1]) = Some [("x", ";;y"); ("y", "y;;"); ("z", ";;y")]%string.
Proof.
  do 2 eexists. split; [|split; [reflexivity|split; [vm_compute; reflexivity|]]].
  - unfold func_ok. vm_compute. repeat constructor; discriminate.
  - split; [reflexivity|]. split; [reflexivity|]. split.
    + split; [reflexivity|]. repeat constructor.
    + split; [vm_compute; reflexivity|]. split; vm_compute; reflexivity.
Qed.

Definition f_flows : func_src :=
  {| f_params := ["x"; "y"]%string;
     f_body := [SWhile ["x"%string] (SBin "x" "+" (AVar "x") (AVar "y"))] |}.

(* while (x) x = x + y : infinite; the flows into x are named, the filter keeps what touches y *)
Example inf_flows_instance :
  exists res r,
    func_ok f_flows /\ analyse f_flows false = ROk res /\ fr_infinite res = true /\ fr_rel res = Some r /\
    infty_vars r = [("x", ["x"]); ("y", ["x"])]%string /\
    infty_vars_incl ["y"%string] r = [("y", ["x"])]%string /\
    infty_vars_incl ["q"%string] r = [].
Proof.
  do 2 eexists. split; [|split; [vm_compute; reflexivity|]].
  - unfold func_ok. vm_compute. repeat constructor; discriminate.
  - split; [reflexivity|]. split; [reflexivity|]. repeat split; vm_compute; reflexivity.
Qed.
