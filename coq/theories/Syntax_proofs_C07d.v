(* C07, part d: inserting self-rejected statements at block positions of an accepted function and
   running the removal pass gives the function back. *)
From Coq Require Import String List Bool Arith Lia.
From PMGen Require Import SyntaxGen PycSchema.
From PM Require Import Tree Syntax Syntax_proofs Syntax_proofs_C07a Syntax_proofs_C07b Syntax_proofs_C07c.
Import ListNotations.
Open Scope string_scope.
Open Scope list_scope.

(* ------------------------------------------------------------------------- *)
(* Specification of "insert statements at block positions"                     *)
(* ------------------------------------------------------------------------- *)
(* statement positions: the slots through which a block position of a function is reached *)
Definition struct_slot (c s : string) : bool :=
  (String.eqb c "FuncDef" && String.eqb s "body") || (String.eqb c "Compound" && String.eqb s "block_items") ||
  (String.eqb c "If" && (String.eqb s "iftrue" || String.eqb s "iffalse")) ||
  ((String.eqb c "While" || String.eqb c "DoWhile" || String.eqb c "For") && String.eqb s "stmt").

Section Ins.
  Variable okU : node -> Prop.     (* which statements may be inserted *)

  (* l' is l with related elements kept in order and, when [b], extra okU statements anywhere *)
  Inductive ins_list (R : node -> node -> Prop) : bool -> list node -> list node -> Prop :=
  | IL_nil b : ins_list R b [] []
  | IL_keep b x x' l l' : R x x' -> ins_list R b l l' -> ins_list R b (x :: l) (x' :: l')
  | IL_ins u l l' : okU u -> ins_list R true l l' -> ins_list R true l (u :: l').

  Inductive ins_kids (R : node -> node -> Prop) (c : string) :
    list (string * list node) -> list (string * list node) -> Prop :=
  | IK_nil : ins_kids R c [] []
  | IK_same s l r r' : ins_kids R c r r' -> ins_kids R c ((s, l) :: r) ((s, l) :: r')
  | IK_struct s l l' r r' : struct_slot c s = true -> ins_list R (String.eqb c "Compound") l l' ->
                            ins_kids R c r r' -> ins_kids R c ((s, l) :: r) ((s, l') :: r').

  (* f' is f with okU statements inserted at any number of block positions, at any depth *)
  Inductive ins : node -> node -> Prop :=
  | Ins c a ks ks' : ins_kids ins c ks ks' -> ins (Node c a ks) (Node c a ks').
End Ins.

(* the names the host must keep for itself: guard variables of its counted for-loops *)
Definition guards (f : node) (x : string) : Prop :=
  exists m, In m (subnodes f) /\ loop_compat m = LcYes x.

(* an unsupported statement: Coverage asks for the removal of the statement as a whole, without
   raising; the variable walker does not raise on it and sees none of the host's guard variables *)
Definition unsupported_for (f : node) (u : node) : Prop :=
  has_inh (cov u) = true /\ has_err (cov u) = false /\ vraises (vitems u) = false /\
  (forall y, In y (vnames_of (vitems u)) -> ~ guards f y).

(* ------------------------------------------------------------------------- *)
Section Proof.
  Variable host : string -> Prop.
  Variable okU : node -> Prop.
  Hypothesis okU_spec : forall u, okU u ->
    has_inh (cov u) = true /\ has_err (cov u) = false /\ vraises (vitems u) = false /\
    (forall y, In y (vnames_of (vitems u)) -> ~ host y).

  Definition vadd (l l' : list vitem) : Prop :=
    (vraises l = false -> vraises l' = false) /\
    (forall y, In y (vnames_of l') -> In y (vnames_of l) \/ ~ host y).

  Definition R (n n' : node) : Prop :=
    has_err (cov n') = false /\ has_inh (cov n') = false /\ clean n' = n /\ vadd (vitems n) (vitems n').

  Definition host_ok (n : node) : Prop := forall m x, In m (subnodes n) -> loop_compat m = LcYes x -> host x.

  Definition Q (n : node) : Prop :=
    forall n', ins okU n n' -> wf_pyc n' = true -> cov n = [] -> host_ok n -> R n n'.

  Lemma vadd_refl l : vadd l l.
  Proof. split; auto. Qed.
  Lemma vadd_app a a' b b' : vadd a a' -> vadd b b' -> vadd (a ++ b) (a' ++ b').
  Proof.
    intros [A1 A2] [B1 B2]. split.
    - rewrite !vraises_app, !orb_false_iff. intros [H1 H2]. auto.
    - intros y. rewrite !vnames_app, !in_app_iff. intros [H|H]; [destruct (A2 y H) | destruct (B2 y H)]; auto.
  Qed.
  Lemma vadd_nil_u u l l' : okU u -> vadd l l' -> vadd l (vitems u ++ l').
  Proof.
    intros Hu [A1 A2]. destruct (okU_spec u Hu) as [_ [_ [Ur Uf]]]. split.
    - intros H. rewrite vraises_app, Ur. simpl. auto.
    - intros y. rewrite vnames_app, in_app_iff. intros [H|H]; [right; apply Uf; exact H | apply A2; exact H].
  Qed.

  Lemma R_same n : cov n = [] -> R n n.
  Proof.
    intros E. unfold R. rewrite E. repeat split; auto.
    unfold clean. rewrite E. apply apply_clears_nil.
  Qed.

  Lemma host_ok_kidl n s x : host_ok n -> In x (kidl n s) -> host_ok x.
  Proof. intros H Hin m y Hm. apply H. apply (subnodes_kidl n s x Hin). exact Hm. Qed.

  (* ---------- shapes ---------- *)
  Lemma ins_kids_fst Rr c ks ks' : ins_kids okU Rr c ks ks' -> map fst ks = map fst ks'.
  Proof. induction 1; simpl; congruence. Qed.

  Lemma ins_list_false Rr l l' : ins_list okU Rr false l l' -> Forall2 Rr l l'.
  Proof.
    intros H. remember false as b eqn:Eb. induction H; [constructor | constructor; auto | discriminate].
  Qed.

  Lemma wf_single c a ks an sl s l :
    schema_of c = Some (an, sl) -> wf_pyc (Node c a ks) = true -> In (s, l) ks -> assoc s sl = Some false -> length l <= 1.
  Proof.
    intros S W Hin As. simpl in W. rewrite S in W. rewrite !andb_true_iff in W. destruct W as [_ W].
    rewrite forallb_forall in W. specialize (W (s, l) Hin). simpl in W. rewrite As in W. simpl in W.
    apply andb_true_iff in W. destruct W as [W _]. apply Nat.leb_le. exact W.
  Qed.

  (* a single statement slot: at most one child, related to the host's *)
  Lemma single_pair l l' : Forall2 (ins okU) l l' -> length l' <= 1 ->
    (l = [] /\ l' = []) \/ (exists x x', l = [x] /\ l' = [x'] /\ ins okU x x').
  Proof.
    intros F Hl. inversion F as [|x x' r r' Hx Fr]; subst; [left; auto|].
    right. destruct r'; [|simpl in Hl; lia]. inversion Fr; subst. exists x, x'. auto.
  Qed.

  Lemma kids_struct_or_same c s l l' :
    (l' = l \/ (struct_slot c s = true /\ ins_list okU (ins okU) (String.eqb c "Compound") l l')) ->
    struct_slot c s = false -> l' = l.
  Proof. intros [H|[H _]] E; [exact H | congruence]. Qed.

  Lemma ins_kids_cons_inv c s l r K' :
    ins_kids okU (ins okU) c ((s, l) :: r) K' ->
    exists l' r', K' = (s, l') :: r' /\ ins_kids okU (ins okU) c r r' /\
                  (l' = l \/ (struct_slot c s = true /\ ins_list okU (ins okU) (String.eqb c "Compound") l l')).
  Proof. intros H. inversion H; subst; eexists; eexists; split; eauto. Qed.

  Lemma ins_kids_nil_inv c K' : ins_kids okU (ins okU) c [] K' -> K' = [].
  Proof. intros H. inversion H. reflexivity. Qed.

  (* classes without statement slots: nothing can be inserted below them *)
  Lemma ins_kids_no_struct c ks ks' :
    (forall s, struct_slot c s = false) -> ins_kids okU (ins okU) c ks ks' -> ks' = ks.
  Proof. intros Hn H. induction H; [reflexivity | congruence | rewrite Hn in H; discriminate]. Qed.

  (* ---------- list slot: Compound ---------- *)
  Lemma iter_from_nil_inv s k Ls : iter_from s k Ls = [] -> Forall (fun L => L = []) Ls.
  Proof.
    revert k. induction Ls as [|L r IH]; intros k H; [constructor|]. simpl in H.
    apply app_eq_nil in H. destruct H as [H1 H2]. constructor; [|apply (IH (S k)); exact H2].
    unfold iter_part in H1. apply map_eq_nil' in H1. exact H1.
  Qed.

  Lemma block_items_ok l l' :
    Forall Q l -> Forall (fun x => cov x = []) l -> Forall host_ok l -> Forall (fun x => wf_pyc x = true) l' ->
    ins_list okU (ins okU) true l l' ->
    existsb has_err (map cov l') = false /\ prune_list cov l' = l /\
    vadd (flat_map vitems l) (flat_map vitems l').
  Proof.
    intros HQ HC HH HW H. remember true as b eqn:Eb. revert HQ HC HH HW.
    induction H as [b|b x x' l l' Hx Hl IH|u l l' Hu Hl IH]; intros HQ HC HH HW.
    - simpl. split; [reflexivity|]. split; [reflexivity|]. apply vadd_refl.
    - inversion HQ as [|? ? Qx Ql]; subst. inversion HC as [|? ? Cx Cl]; subst.
      inversion HH as [|? ? Hhx Hhl]; subst. inversion HW as [|? ? Wx Wl]; subst.
      destruct (Qx x' Hx Wx Cx Hhx) as [Re [Ri [Rc Rv]]].
      destruct (IH eq_refl okU_spec Ql Cl Hhl Wl) as [E [Pr V]].
      simpl. rewrite Re, E, Ri. simpl. fold (clean x'). rewrite Rc, Pr. split; [reflexivity|]. split; [reflexivity|]. apply vadd_app; assumption.
    - inversion HW as [|? ? Wu Wl]; subst. destruct (okU_spec u Hu) as [Ui [Ue _]].
      destruct (IH eq_refl okU_spec HQ HC HH Wl) as [E [Pr V]].
      simpl. rewrite Ue, E, Ui. simpl. split; [reflexivity|]. split; [exact Pr|]. apply vadd_nil_u; assumption.
  Qed.

  Lemma Q_Compound a ks : Forall (fun sk => Forall Q (snd sk)) ks -> Q (Node "Compound" a ks).
  Proof.
    intros IH n' Hins Hw Hc Hh. inversion Hins as [c a0 ks0 ks' Hk]; subst. clear Hins.
    pose proof (wf_slots "Compound" a ks' _ _ eq_refl Hw) as M. simpl in M.
    destruct ks' as [|[s1 l'] [|? ?]]; simpl in M; try discriminate. inversion M; subst s1. clear M.
    pose proof (ins_kids_fst _ _ _ _ Hk) as Mf. destruct ks as [|[s1 l] [|? ?]]; simpl in Mf; try discriminate.
    inversion Mf; subst s1. clear Mf.
    set (n := Node "Compound" a [("block_items", l)]) in *. set (n' := Node "Compound" a [("block_items", l')]) in *.
    assert (Kl : kidl n "block_items" = l) by reflexivity.
    assert (Kl' : kidl n' "block_items" = l') by reflexivity.
    assert (E : cov n = iter_from "block_items" 0 (map cov l)).
    { unfold n. rewrite (cov_base "Compound" a _ "block_items"); [reflexivity | cbn [In BASE_ITER]; auto]. }
    assert (E' : cov n' = iter_from "block_items" 0 (map cov l')).
    { unfold n'. rewrite (cov_base "Compound" a _ "block_items"); [reflexivity | cbn [In BASE_ITER]; auto]. }
    destruct (ins_kids_cons_inv _ _ _ _ _ Hk) as [l2 [r2 [Eq [_ Hl]]]]. inversion Eq; subst l2 r2. clear Eq.
    assert (Hl' : ins_list okU (ins okU) true l l').
    { destruct Hl as [->|[_ Hl]]; [|exact Hl]. clear. induction l; constructor; [|assumption].
      destruct a as [c a ks]. constructor. clear. induction ks as [|[s l] ks IH]; constructor; assumption. }
    rewrite E in Hc. apply iter_from_nil_inv in Hc.
    assert (HC : Forall (fun x => cov x = []) l).
    { clear - Hc. induction l; [constructor|]. inversion Hc; subst. constructor; auto. }
    assert (HQ : Forall Q l) by (rewrite <- Kl; apply (Forall_kidl Q "Compound" a _ "block_items" IH)).
    assert (HH : Forall host_ok l).
    { apply Forall_forall. intros x Hx. apply (host_ok_kidl n "block_items" x Hh). rewrite Kl. exact Hx. }
    assert (HW : Forall (fun x => wf_pyc x = true) l').
    { apply Forall_forall. intros x Hx. apply (wf_kidl n' "block_items" x Hw). rewrite Kl'. exact Hx. }
    destruct (block_items_ok l l' HQ HC HH HW Hl') as [Er [Pr V]].
    unfold R. rewrite E', has_err_iter_from, has_inh_iter_from. split; [exact Er|]. split; [reflexivity|]. split.
    - unfold clean. rewrite E'. subst n n'. rewrite apply_clears_eq. cbn [map fst snd]. f_equal. f_equal. f_equal.
      unfold slot_res. rewrite iter_from_no_rmattr.
      pose proof (ac_go_iter cov "block_items" [] [] l') as G. simpl app in G. rewrite app_nil_r in G.
      rewrite G; [exact Pr | auto | auto].
    - subst n n'. rewrite !(vitems_base "Compound" a _ "block_items") by (cbn [In BASE_ITER]; auto). exact V.
  Qed.
End Proof.
