(* C07, part d: inserting self-rejected statements at block positions of an accepted function and
   running the removal pass gives the function back. *)
From Coq Require Import String List Bool Arith Lia.
From PMGen Require Import SyntaxGen PycSchema.
From PM Require Import Tree Syntax Syntax_proofs Syntax_proofs_C07a Syntax_proofs_C07b Syntax_proofs_C07c.
Import ListNotations.
Open Scope string_scope.
Open Scope list_scope.

(* ------------------------------------------------------------------------- *)
(* Specification of "insert statements at block positions"                     *)
(* ------------------------------------------------------------------------- *)
(* statement positions: the slots through which a block position of a function is reached *)
Definition struct_slot (c s : string) : bool :=
  (String.eqb c "FuncDef" && String.eqb s "body") || (String.eqb c "Compound" && String.eqb s "block_items") ||
  (String.eqb c "If" && (String.eqb s "iftrue" || String.eqb s "iffalse")) ||
  ((String.eqb c "While" || String.eqb c "DoWhile" || String.eqb c "For") && String.eqb s "stmt").

Section Ins.
  Variable okU : node -> Prop.     (* which statements may be inserted *)

  (* l' is l with related elements kept in order and, when [b], extra okU statements anywhere *)
  Inductive ins_list (R : node -> node -> Prop) : bool -> list node -> list node -> Prop :=
  | IL_nil b : ins_list R b [] []
  | IL_keep b x x' l l' : R x x' -> ins_list R b l l' -> ins_list R b (x :: l) (x' :: l')
  | IL_ins u l l' : okU u -> ins_list R true l l' -> ins_list R true l (u :: l').

  Inductive ins_kids (R : node -> node -> Prop) (c : string) :
    list (string * list node) -> list (string * list node) -> Prop :=
  | IK_nil : ins_kids R c [] []
  | IK_same s l r r' : ins_kids R c r r' -> ins_kids R c ((s, l) :: r) ((s, l) :: r')
  | IK_struct s l l' r r' : struct_slot c s = true -> ins_list R (String.eqb c "Compound") l l' ->
                            ins_kids R c r r' -> ins_kids R c ((s, l) :: r) ((s, l') :: r').

  (* f' is f with okU statements inserted at any number of block positions, at any depth *)
  Inductive ins : node -> node -> Prop :=
  | Ins c a ks ks' : ins_kids ins c ks ks' -> ins (Node c a ks) (Node c a ks').
End Ins.

(* the names the host must keep for itself: guard variables of its counted for-loops *)
Definition guards (f : node) (x : string) : Prop :=
  exists m, In m (subnodes f) /\ loop_compat m = LcYes x.

(* an unsupported statement: Coverage asks for the removal of the statement as a whole, without
   raising; the variable walker does not raise on it and sees none of the host's guard variables *)
Definition unsupported_for (f : node) (u : node) : Prop :=
  has_inh (cov u) = true /\ has_err (cov u) = false /\ vraises (vitems u) = false /\
  (forall y, In y (vnames_of (vitems u)) -> ~ guards f y).

(* ------------------------------------------------------------------------- *)
Section Proof.
  Variable host : string -> Prop.
  Variable okU : node -> Prop.
  Hypothesis okU_spec : forall u, okU u ->
    has_inh (cov u) = true /\ has_err (cov u) = false /\ vraises (vitems u) = false /\
    (forall y, In y (vnames_of (vitems u)) -> ~ host y).

  Definition vadd (l l' : list vitem) : Prop :=
    (vraises l = false -> vraises l' = false) /\
    (forall y, In y (vnames_of l') -> In y (vnames_of l) \/ ~ host y).

  Definition R (n n' : node) : Prop :=
    has_err (cov n') = false /\ has_inh (cov n') = false /\ clean n' = n /\ vadd (vitems n) (vitems n').

  Definition host_ok (n : node) : Prop := forall m x, In m (subnodes n) -> loop_compat m = LcYes x -> host x.

  Definition Q (n : node) : Prop :=
    forall n', ins okU n n' -> wf_pyc n' = true -> cov n = [] -> host_ok n -> R n n'.

  Lemma vadd_refl l : vadd l l.
  Proof. split; auto. Qed.
  Lemma vadd_app a a' b b' : vadd a a' -> vadd b b' -> vadd (a ++ b) (a' ++ b').
  Proof.
    intros [A1 A2] [B1 B2]. split.
    - rewrite !vraises_app, !orb_false_iff. intros [H1 H2]. auto.
    - intros y. rewrite !vnames_app, !in_app_iff. intros [H|H]; [destruct (A2 y H) | destruct (B2 y H)]; auto.
  Qed.
  Lemma vadd_nil_u u l l' : okU u -> vadd l l' -> vadd l (vitems u ++ l').
  Proof.
    intros Hu [A1 A2]. destruct (okU_spec u Hu) as [_ [_ [Ur Uf]]]. split.
    - intros H. rewrite vraises_app, Ur. simpl. auto.
    - intros y. rewrite vnames_app, in_app_iff. intros [H|H]; [right; apply Uf; exact H | apply A2; exact H].
  Qed.

  Lemma R_same n : cov n = [] -> R n n.
  Proof.
    intros E. unfold R. rewrite E. repeat split; auto.
    unfold clean. rewrite E. apply apply_clears_nil.
  Qed.

  Lemma host_ok_kidl n s x : host_ok n -> In x (kidl n s) -> host_ok x.
  Proof. intros H Hin m y Hm. apply H. apply (subnodes_kidl n s x Hin). exact Hm. Qed.

  (* ---------- shapes ---------- *)
  Lemma ins_kids_fst Rr c ks ks' : ins_kids okU Rr c ks ks' -> map fst ks = map fst ks'.
  Proof. induction 1; simpl; congruence. Qed.

  Lemma ins_list_false Rr l l' : ins_list okU Rr false l l' -> Forall2 Rr l l'.
  Proof.
    intros H. remember false as b eqn:Eb. induction H; [constructor | constructor; auto | discriminate].
  Qed.

  Lemma wf_single c a ks an sl s l :
    schema_of c = Some (an, sl) -> wf_pyc (Node c a ks) = true -> In (s, l) ks -> assoc s sl = Some false -> length l <= 1.
  Proof.
    intros S W Hin As. simpl in W. rewrite S in W. rewrite !andb_true_iff in W. destruct W as [_ W].
    rewrite forallb_forall in W. specialize (W (s, l) Hin). simpl in W. rewrite As in W. simpl in W.
    apply andb_true_iff in W. destruct W as [W _]. apply Nat.leb_le. exact W.
  Qed.

  (* a single statement slot: at most one child, related to the host's *)
  Lemma single_pair l l' : Forall2 (ins okU) l l' -> length l' <= 1 ->
    (l = [] /\ l' = []) \/ (exists x x', l = [x] /\ l' = [x'] /\ ins okU x x').
  Proof.
    intros F Hl. inversion F as [|x x' r r' Hx Fr]; subst; [left; auto|].
    right. destruct r'; [|simpl in Hl; lia]. inversion Fr; subst. exists x, x'. auto.
  Qed.

  Lemma kids_struct_or_same c s l l' :
    (l' = l \/ (struct_slot c s = true /\ ins_list okU (ins okU) (String.eqb c "Compound") l l')) ->
    struct_slot c s = false -> l' = l.
  Proof. intros [H|[H _]] E; [exact H | congruence]. Qed.

  Lemma ins_kids_cons_inv c s l r K' :
    ins_kids okU (ins okU) c ((s, l) :: r) K' ->
    exists l' r', K' = (s, l') :: r' /\ ins_kids okU (ins okU) c r r' /\
                  (l' = l \/ (struct_slot c s = true /\ ins_list okU (ins okU) (String.eqb c "Compound") l l')).
  Proof. intros H. inversion H; subst; eexists; eexists; split; eauto. Qed.

  Lemma ins_kids_nil_inv c K' : ins_kids okU (ins okU) c [] K' -> K' = [].
  Proof. intros H. inversion H. reflexivity. Qed.

  (* classes without statement slots: nothing can be inserted below them *)
  Lemma ins_kids_no_struct c ks ks' :
    (forall s, struct_slot c s = false) -> ins_kids okU (ins okU) c ks ks' -> ks' = ks.
  Proof. intros Hn H. induction H; [reflexivity | congruence | rewrite Hn in H; discriminate]. Qed.

  (* ---------- list slot: Compound ---------- *)
  Lemma iter_from_nil_inv s k Ls : iter_from s k Ls = [] -> Forall (fun L => L = []) Ls.
  Proof.
    revert k. induction Ls as [|L r IH]; intros k H; [constructor|]. simpl in H.
    apply app_eq_nil in H. destruct H as [H1 H2]. constructor; [|apply (IH (S k)); exact H2].
    unfold iter_part in H1. apply map_eq_nil' in H1. exact H1.
  Qed.

  Lemma block_items_ok l l' :
    Forall Q l -> Forall (fun x => cov x = []) l -> Forall host_ok l -> Forall (fun x => wf_pyc x = true) l' ->
    ins_list okU (ins okU) true l l' ->
    existsb has_err (map cov l') = false /\ prune_list cov l' = l /\
    vadd (flat_map vitems l) (flat_map vitems l').
  Proof.
    intros HQ HC HH HW H. remember true as b eqn:Eb. revert HQ HC HH HW.
    induction H as [b|b x x' l l' Hx Hl IH|u l l' Hu Hl IH]; intros HQ HC HH HW.
    - simpl. split; [reflexivity|]. split; [reflexivity|]. apply vadd_refl.
    - inversion HQ as [|? ? Qx Ql]; subst. inversion HC as [|? ? Cx Cl]; subst.
      inversion HH as [|? ? Hhx Hhl]; subst. inversion HW as [|? ? Wx Wl]; subst.
      destruct (Qx x' Hx Wx Cx Hhx) as [Re [Ri [Rc Rv]]].
      destruct (IH eq_refl okU_spec Ql Cl Hhl Wl) as [E [Pr V]].
      simpl. rewrite Re, E, Ri. simpl. fold (clean x'). rewrite Rc, Pr. split; [reflexivity|]. split; [reflexivity|]. apply vadd_app; assumption.
    - inversion HW as [|? ? Wu Wl]; subst. destruct (okU_spec u Hu) as [Ui [Ue _]].
      destruct (IH eq_refl okU_spec HQ HC HH Wl) as [E [Pr V]].
      simpl. rewrite Ue, E, Ui. simpl. split; [reflexivity|]. split; [exact Pr|]. apply vadd_nil_u; assumption.
  Qed.

  Lemma Q_Compound a ks : Forall (fun sk => Forall Q (snd sk)) ks -> Q (Node "Compound" a ks).
  Proof.
    intros IH n' Hins Hw Hc Hh. inversion Hins as [c a0 ks0 ks' Hk]; subst. clear Hins.
    pose proof (wf_slots "Compound" a ks' _ _ eq_refl Hw) as M. simpl in M.
    destruct ks' as [|[s1 l'] [|? ?]]; simpl in M; try discriminate. inversion M; subst s1. clear M.
    pose proof (ins_kids_fst _ _ _ _ Hk) as Mf. destruct ks as [|[s1 l] [|? ?]]; simpl in Mf; try discriminate.
    inversion Mf; subst s1. clear Mf.
    set (n := Node "Compound" a [("block_items", l)]) in *. set (n' := Node "Compound" a [("block_items", l')]) in *.
    assert (Kl : kidl n "block_items" = l) by reflexivity.
    assert (Kl' : kidl n' "block_items" = l') by reflexivity.
    assert (E : cov n = iter_from "block_items" 0 (map cov l)).
    { unfold n. rewrite (cov_base "Compound" a _ "block_items"); [reflexivity | cbn [In BASE_ITER]; auto]. }
    assert (E' : cov n' = iter_from "block_items" 0 (map cov l')).
    { unfold n'. rewrite (cov_base "Compound" a _ "block_items"); [reflexivity | cbn [In BASE_ITER]; auto]. }
    destruct (ins_kids_cons_inv _ _ _ _ _ Hk) as [l2 [r2 [Eq [_ Hl]]]]. inversion Eq; subst l2 r2. clear Eq.
    assert (Hl' : ins_list okU (ins okU) true l l').
    { destruct Hl as [->|[_ Hl]]; [|exact Hl]. clear. induction l; constructor; [|assumption].
      destruct a as [c a ks]. constructor. clear. induction ks as [|[s l] ks IH]; constructor; assumption. }
    rewrite E in Hc. apply iter_from_nil_inv in Hc.
    assert (HC : Forall (fun x => cov x = []) l).
    { clear - Hc. induction l; [constructor|]. inversion Hc; subst. constructor; auto. }
    assert (HQ : Forall Q l) by (rewrite <- Kl; apply (Forall_kidl Q "Compound" a _ "block_items" IH)).
    assert (HH : Forall host_ok l).
    { apply Forall_forall. intros x Hx. apply (host_ok_kidl n "block_items" x Hh). rewrite Kl. exact Hx. }
    assert (HW : Forall (fun x => wf_pyc x = true) l').
    { apply Forall_forall. intros x Hx. apply (wf_kidl n' "block_items" x Hw). rewrite Kl'. exact Hx. }
    destruct (block_items_ok l l' HQ HC HH HW Hl') as [Er [Pr V]].
    unfold R. rewrite E', has_err_iter_from, has_inh_iter_from. split; [exact Er|]. split; [reflexivity|]. split.
    - unfold clean. rewrite E'. subst n n'. rewrite apply_clears_eq. cbn [map fst snd]. f_equal. f_equal. f_equal.
      unfold slot_res. rewrite iter_from_no_rmattr.
      pose proof (ac_go_iter cov "block_items" [] [] l') as G. simpl app in G. rewrite app_nil_r in G.
      rewrite G; [exact Pr | auto | auto].
    - subst n n'. rewrite !(vitems_base "Compound" a _ "block_items") by (cbn [In BASE_ITER]; auto). exact V.
  Qed.

  (* ---------- single statement slots ---------- *)
  Lemma ins_refl n : ins okU n n.
  Proof.
    induction n as [c a ks IH] using node_ind'. constructor. clear IH.
    induction ks as [|[s l] ks IHk]; constructor; assumption.
  Qed.

  Lemma ins_cls n n' : ins okU n n' -> ncls n' = ncls n.
  Proof. intros H. inversion H; reflexivity. Qed.

  Lemma slot_rel c s l l' :
    (l' = l \/ (struct_slot c s = true /\ ins_list okU (ins okU) (String.eqb c "Compound") l l')) ->
    String.eqb c "Compound" = false -> Forall2 (ins okU) l l'.
  Proof.
    intros [->|[_ H]] E.
    - clear. induction l; constructor; [apply ins_refl | assumption].
    - rewrite E in H. apply ins_list_false. exact H.
  Qed.

  Lemma slot_res_untouched A s l :
    has_act (RmAttr [] s) A = false -> (forall j, has_act (RmChild [] s j) A = false) ->
    (forall j, descend s j A = []) -> slot_res A s l = l.
  Proof. intros H0 H1 H2. unfold slot_res. rewrite H0. apply ac_go_untouched; assumption. Qed.

  Lemma slot_res_single A s x :
    has_act (RmAttr [] s) A = false -> has_act (RmChild [] s 0) A = false ->
    slot_res A s [x] = [apply_clears (descend s 0 A) x].
  Proof. intros H0 H1. unfold slot_res. rewrite H0. simpl. rewrite H1. reflexivity. Qed.

  Lemma routed_untouched A s s' l : routed (s, 0) A -> s' <> s -> slot_res A s' l = l.
  Proof.
    intros Rt N. apply slot_res_untouched.
    - apply (routed_no_here (s, 0)); auto.
    - intros j. apply (routed_no_here (s, 0)); auto.
    - intros j. apply (routed_other (s, 0)); [assumption|]. intro E. inversion E. congruence.
  Qed.

  Lemma map_slots_untouched A (pre : list (string * list node)) :
    (forall s l, In (s, l) pre -> slot_res A s l = l) ->
    map (fun sk => (fst sk, slot_res A (fst sk) (snd sk))) pre = pre.
  Proof.
    induction pre as [|[s l] pre IH]; intros H; simpl; [reflexivity|]. rewrite (H s l (or_introl eq_refl)). f_equal.
    apply IH. intros s' l' Hin. apply H. right. exact Hin.
  Qed.

  (* the last slot holds one child x' that the parent passes through *)
  Lemma last_slot_pass c a pre s x x' :
    ~ In s (map fst pre) -> clean x' = x ->
    apply_clears (acts (map (pass [(s, 0)]) (cov x'))) (Node c a (pre ++ [(s, [x'])])) = Node c a (pre ++ [(s, [x])]).
  Proof.
    intros Nin Hc. rewrite apply_clears_eq. f_equal. rewrite map_app. f_equal.
    - apply map_slots_untouched. intros s' l Hin. apply (routed_untouched _ s s' l (routed_pass (s, 0) [] (cov x'))).
      intro E. subst s'. apply Nin. apply in_map_iff. exists (s, l). auto.
    - simpl. f_equal. f_equal. rewrite slot_res_single.
      + rewrite (descend_pass' s 0 [] (cov x')), map_pass_nil. fold (clean x'). rewrite Hc. reflexivity.
      + apply (routed_no_here (s, 0)); [apply routed_pass | reflexivity].
      + apply (routed_no_here (s, 0)); [apply routed_pass | reflexivity].
  Qed.

  (* ... or hands its own rm_attr to *)
  Lemma last_slot_wc c a pre s x x' :
    ~ In s (map fst pre) -> clean x' = x -> has_inh (cov x') = false ->
    apply_clears (wc_part s (cov x')) (Node c a (pre ++ [(s, [x'])])) = Node c a (pre ++ [(s, [x])]).
  Proof.
    intros Nin Hc Hi. rewrite apply_clears_eq. f_equal. rewrite map_app. f_equal.
    - apply map_slots_untouched. intros s' l Hin.
      assert (N : s' <> s). { intro E. subst s'. apply Nin. apply in_map_iff. exists (s, l). auto. }
      destruct (untouched_by_wc s s' (cov x') N) as [u1 [u2 u3]]. apply slot_res_untouched; assumption.
    - simpl. f_equal. f_equal. rewrite slot_res_single.
      + rewrite wc_descend, step_eqb_refl. fold (clean x'). rewrite Hc. reflexivity.
      + rewrite wc_rmattr, Hi. reflexivity.
      + apply wc_rmchild.
  Qed.

  Lemma assoc_app_notin {A} s (pre post : list (string * A)) :
    ~ In s (map fst pre) -> assoc s (pre ++ post) = assoc s post.
  Proof.
    induction pre as [|[s' l] pre IH]; intros N; simpl; [reflexivity|].
    destruct (String.eqb_spec s s') as [->|Ne]; [exfalso; apply N; left; reflexivity|]. apply IH. intro H. apply N. right. exact H.
  Qed.

  Lemma kid1_last c a pre s x : ~ In s (map fst pre) -> kid1 (Node c a (pre ++ [(s, [x])])) s = Some x.
  Proof. intros N. unfold kid1, kidl, slot. simpl nkids. rewrite assoc_app_notin by assumption. simpl. rewrite String.eqb_refl. reflexivity. Qed.

  Lemma assoc_app_in {A} s (pre post : list (string * A)) :
    In s (map fst pre) -> assoc s (pre ++ post) = assoc s pre.
  Proof.
    induction pre as [|[s' l] pre IH]; intros H; simpl in *; [contradiction|].
    destruct (String.eqb_spec s s') as [->|Ne]; [reflexivity|]. apply IH. destruct H; [congruence | assumption].
  Qed.

  Lemma kidl_pre c a pre post post' s : In s (map fst pre) ->
    kidl (Node c a (pre ++ post)) s = kidl (Node c a (pre ++ post')) s.
  Proof. intros H. unfold kidl, slot. simpl nkids. rewrite !assoc_app_in by assumption. reflexivity. Qed.

  (* loop bodies: While, DoWhile, For *)
  Lemma Q_body c a pre l :
    (c = "While" \/ c = "DoWhile" \/ c = "For") -> ~ In "stmt" (map fst pre) ->
    cov (Node c a (pre ++ [("stmt", l)])) = body_part (Node c a (pre ++ [("stmt", l)])) ->
    Forall Q l ->
    forall l', wf_pyc (Node c a (pre ++ [("stmt", l')])) = true -> length l' <= 1 ->
    (forall x x', l = [x] -> l' = [x'] -> R x x' ->
                  cov (Node c a (pre ++ [("stmt", l')])) = body_part (Node c a (pre ++ [("stmt", l')]))) ->
    Forall2 (ins okU) l l' ->
    cov (Node c a (pre ++ [("stmt", l)])) = [] -> host_ok (Node c a (pre ++ [("stmt", l)])) ->
    exists x x', l = [x] /\ l' = [x'] /\ R x x' /\
      has_err (cov (Node c a (pre ++ [("stmt", l')]))) = false /\ has_inh (cov (Node c a (pre ++ [("stmt", l')]))) = false /\
      clean (Node c a (pre ++ [("stmt", l')])) = Node c a (pre ++ [("stmt", l)]).
  Proof.
    intros Hc Nin Hcov HQ l' Hw Hlen Hcov1 F Hc0 Hh.
    destruct (single_pair l l' F Hlen) as [[-> ->]|[x [x' [-> [-> Hx]]]]].
    { exfalso. rewrite Hcov in Hc0. unfold body_part in Hc0. unfold kid1, kidl, slot in Hc0. simpl nkids in Hc0.
      rewrite assoc_app_notin in Hc0 by assumption. simpl in Hc0. discriminate. }
    set (n := Node c a (pre ++ [("stmt", [x])])) in *. set (n' := Node c a (pre ++ [("stmt", [x'])])) in *.
    assert (K : kid1 n "stmt" = Some x) by (apply kid1_last; assumption).
    assert (K' : kid1 n' "stmt" = Some x') by (apply kid1_last; assumption).
    assert (Cx : cov x = []).
    { rewrite Hcov in Hc0. unfold body_part in Hc0. rewrite K in Hc0.
      destruct (is_cls "Compound" x) eqn:Cc.
      - apply map_eq_nil' in Hc0. rewrite (compound_cov x Cc). exact Hc0.
      - apply map_eq_nil' in Hc0. exact Hc0. }
    inversion HQ as [|? ? Qx _]; subst.
    assert (Wx : wf_pyc x' = true) by (apply (wf_kid1 n' "stmt" x' Hw K')).
    assert (Hhx : host_ok x).
    { apply (host_ok_kidl n "stmt" x Hh). unfold kid1 in K. destruct (kidl n "stmt"); [discriminate|]. inversion K. left. reflexivity. }
    destruct (Qx x' Hx Wx Cx Hhx) as [Re [Ri [Rc Rv]]].
    exists x, x'. split; [reflexivity|]. split; [reflexivity|]. split; [exact (conj Re (conj Ri (conj Rc Rv)))|].
    assert (E' : cov n' = body_part n') by (unfold n'; apply (Hcov1 x x' eq_refl eq_refl (conj Re (conj Ri (conj Rc Rv))))).
    assert (Cls : is_cls "Compound" x' = is_cls "Compound" x) by (unfold is_cls; rewrite (ins_cls x x' Hx); reflexivity).
    unfold body_part in E'. rewrite K', Cls in E'.
    destruct (is_cls "Compound" x) eqn:Cc.
    - assert (Cc' : is_cls "Compound" x' = true) by (rewrite Cls; reflexivity).
      rewrite <- (compound_cov x' Cc') in E'.
      rewrite E', has_err_pass, has_inh_pass. split; [exact Re|]. split; [exact Ri|].
      unfold clean. rewrite E'. apply last_slot_pass; assumption.
    - rewrite E', has_err_with_clear, has_inh_with_clear. split; [exact Re|]. split; [reflexivity|].
      unfold clean. rewrite E'. apply (last_slot_wc c a pre "stmt" x x'); assumption.
  Qed.

  Lemma lg_add init conds nxt b b' x :
    loop_guard_of init conds nxt b = LcYes x -> vadd b b' -> host x -> loop_guard_of init conds nxt b' = LcYes x.
  Proof.
    unfold loop_guard_of. destruct (init_vars init) as [[it sr]|]; [|discriminate].
    intros H [V1 V2] Hx.
    destruct (vraises conds || vraises nxt || vraises b) eqn:Rr; [discriminate|].
    apply orb_false_iff in Rr. destruct Rr as [Rr Rb]. rewrite Rr, (V1 Rb). simpl.
    destruct (dedup (filter (fun v => negb (in_s v (it ++ vnames_of nxt))) (vnames_of conds ++ sr)) []) as [|y [|z l]]; try discriminate.
    destruct (in_s y (vnames_of b)) eqn:Iy; [discriminate|]. inversion H; subst y.
    assert (Iy' : in_s x (vnames_of b') = false).
    { apply in_s_false. apply in_s_false in Iy. intro Qn. destruct (V2 x Qn) as [Hin|Hn]; [apply Iy; exact Hin | apply Hn; exact Hx]. }
    rewrite Iy'. reflexivity.
  Qed.

  Lemma in_subnodes_self n : In n (subnodes n).
  Proof. destruct n. simpl. left. reflexivity. Qed.

  Ltac slot_same Hl cname sname :=
    let E := fresh in
    assert (E : struct_slot cname sname = false) by reflexivity;
    apply (fun HHx__ => kids_struct_or_same cname sname _ _ HHx__ E) in Hl; subst.

  Lemma Q_While a ks : Forall (fun sk => Forall Q (snd sk)) ks -> Q (Node "While" a ks).
  Proof.
    intros IH n' Hins Hw Hc Hh. inversion Hins as [c a0 ks0 ks' Hk]; subst. clear Hins.
    pose proof (wf_slots "While" a ks' _ _ eq_refl Hw) as M. simpl in M.
    destruct ks' as [|[s1 lc'] [|[s2 ls'] [|? ?]]]; simpl in M; try discriminate. inversion M; subst s1 s2. clear M.
    pose proof (ins_kids_fst _ _ _ _ Hk) as Mf.
    destruct ks as [|[s1 lc] [|[s2 ls] [|? ?]]]; simpl in Mf; try discriminate. inversion Mf; subst s1 s2. clear Mf.
    destruct (ins_kids_cons_inv _ _ _ _ _ Hk) as [l2 [r2 [Eq [Hk2 Hl1]]]]. inversion Eq; subst l2 r2. clear Eq.
    destruct (ins_kids_cons_inv _ _ _ _ _ Hk2) as [l3 [r3 [Eq [_ Hl2]]]]. inversion Eq; subst l3 r3. clear Eq.
    slot_same Hl1 "While" "cond".
    pose proof (slot_rel "While" "stmt" ls ls' Hl2 eq_refl) as F.
    pose proof (wf_single "While" a _ _ _ "stmt" ls' eq_refl Hw (or_intror (or_introl eq_refl)) eq_refl) as Hlen.
    assert (HQ : Forall Q ls) by (apply (Forall_kidl Q "While" a [("cond", lc); ("stmt", ls)] "stmt" IH)).
    destruct (Q_body "While" a [("cond", lc)] ls (or_introl eq_refl)) with (l' := ls') as [x [x' [-> [-> [Rx [He [Hi Hcl]]]]]]]; auto.
    - simpl. intros [Hq|[]]. discriminate.
    - apply cov_While.
    - intros. apply cov_While.
    - simpl app in *. unfold R. split; [exact He|]. split; [exact Hi|]. split; [exact Hcl|].
      rewrite !vitems_While. apply vadd_app; [apply vadd_refl | apply Rx].
  Qed.

  Lemma Q_DoWhile a ks : Forall (fun sk => Forall Q (snd sk)) ks -> Q (Node "DoWhile" a ks).
  Proof.
    intros IH n' Hins Hw Hc Hh. inversion Hins as [c a0 ks0 ks' Hk]; subst. clear Hins.
    pose proof (wf_slots "DoWhile" a ks' _ _ eq_refl Hw) as M. simpl in M.
    destruct ks' as [|[s1 lc'] [|[s2 ls'] [|? ?]]]; simpl in M; try discriminate. inversion M; subst s1 s2. clear M.
    pose proof (ins_kids_fst _ _ _ _ Hk) as Mf.
    destruct ks as [|[s1 lc] [|[s2 ls] [|? ?]]]; simpl in Mf; try discriminate. inversion Mf; subst s1 s2. clear Mf.
    destruct (ins_kids_cons_inv _ _ _ _ _ Hk) as [l2 [r2 [Eq [Hk2 Hl1]]]]. inversion Eq; subst l2 r2. clear Eq.
    destruct (ins_kids_cons_inv _ _ _ _ _ Hk2) as [l3 [r3 [Eq [_ Hl2]]]]. inversion Eq; subst l3 r3. clear Eq.
    slot_same Hl1 "DoWhile" "cond".
    pose proof (slot_rel "DoWhile" "stmt" ls ls' Hl2 eq_refl) as F.
    pose proof (wf_single "DoWhile" a _ _ _ "stmt" ls' eq_refl Hw (or_intror (or_introl eq_refl)) eq_refl) as Hlen.
    assert (HQ : Forall Q ls) by (apply (Forall_kidl Q "DoWhile" a [("cond", lc); ("stmt", ls)] "stmt" IH)).
    destruct (Q_body "DoWhile" a [("cond", lc)] ls (or_intror (or_introl eq_refl))) with (l' := ls') as [x [x' [-> [-> [Rx [He [Hi Hcl]]]]]]]; auto.
    - simpl. intros [Hq|[]]. discriminate.
    - apply cov_DoWhile.
    - intros. apply cov_DoWhile.
    - simpl app in *. unfold R. split; [exact He|]. split; [exact Hi|]. split; [exact Hcl|].
      rewrite !vitems_DoWhile. apply vadd_app; [apply vadd_refl | apply Rx].
  Qed.

  Lemma Q_For a ks : Forall (fun sk => Forall Q (snd sk)) ks -> Q (Node "For" a ks).
  Proof.
    intros IH n' Hins Hw Hc Hh. inversion Hins as [c a0 ks0 ks' Hk]; subst. clear Hins.
    pose proof (wf_slots "For" a ks' _ _ eq_refl Hw) as M. simpl in M.
    destruct ks' as [|[s1 li'] [|[s2 lc'] [|[s3 ln'] [|[s4 ls'] [|? ?]]]]]; simpl in M; try discriminate.
    inversion M; subst s1 s2 s3 s4. clear M.
    pose proof (ins_kids_fst _ _ _ _ Hk) as Mf.
    destruct ks as [|[s1 li] [|[s2 lc] [|[s3 ln] [|[s4 ls] [|? ?]]]]]; simpl in Mf; try discriminate.
    inversion Mf; subst s1 s2 s3 s4. clear Mf.
    destruct (ins_kids_cons_inv _ _ _ _ _ Hk) as [l2 [r2 [Eq [Hk2 Hl1]]]]. inversion Eq; subst l2 r2. clear Eq.
    destruct (ins_kids_cons_inv _ _ _ _ _ Hk2) as [l3 [r3 [Eq [Hk3 Hl2]]]]. inversion Eq; subst l3 r3. clear Eq.
    destruct (ins_kids_cons_inv _ _ _ _ _ Hk3) as [l4 [r4 [Eq [Hk4 Hl3]]]]. inversion Eq; subst l4 r4. clear Eq.
    destruct (ins_kids_cons_inv _ _ _ _ _ Hk4) as [l5 [r5 [Eq [_ Hl4]]]]. inversion Eq; subst l5 r5. clear Eq.
    slot_same Hl1 "For" "init". slot_same Hl2 "For" "cond". slot_same Hl3 "For" "next".
    pose proof (slot_rel "For" "stmt" ls ls' Hl4 eq_refl) as F.
    pose proof (wf_single "For" a _ _ _ "stmt" ls' eq_refl Hw (or_intror (or_intror (or_intror (or_introl eq_refl)))) eq_refl) as Hlen.
    assert (HQ : Forall Q ls) by (apply (Forall_kidl Q "For" a [("init", li); ("cond", lc); ("next", ln); ("stmt", ls)] "stmt" IH)).
    set (n := Node "For" a [("init", li); ("cond", lc); ("next", ln); ("stmt", ls)]) in *.
    (* the host loop is counted *)
    pose proof (cov_For a [("init", li); ("cond", lc); ("next", ln); ("stmt", ls)]) as E. fold n in E.
    destruct (loop_compat n) as [| |x0] eqn:L; try (rewrite E in Hc; discriminate).
    assert (Hx0 : host x0) by (apply (Hh n x0 (in_subnodes_self n) L)).
    destruct (Q_body "For" a [("init", li); ("cond", lc); ("next", ln)] ls (or_intror (or_intror eq_refl))) with (l' := ls')
      as [x [x' [-> [-> [Rx [He [Hi Hcl]]]]]]]; auto.
    - simpl. intros [Hq|[Hq|[Hq|[]]]]; discriminate.
    - intros x x' -> -> Rx. simpl app. rewrite cov_For.
      replace (loop_compat (Node "For" a [("init", li); ("cond", lc); ("next", ln); ("stmt", [x'])])) with (LcYes x0); [reflexivity|].
      symmetry. unfold loop_compat in *. cbn in L |- *. apply (lg_add _ _ _ _ _ x0 L); [apply Rx | exact Hx0].
    - simpl app in *. unfold R. split; [exact He|]. split; [exact Hi|]. split; [exact Hcl|].
      assert (L' : loop_compat (Node "For" a [("init", li); ("cond", lc); ("next", ln); ("stmt", [x'])]) = LcYes x0).
      { unfold loop_compat in *. cbn in L |- *. apply (lg_add _ _ _ _ _ x0 L); [apply Rx | exact Hx0]. }
      subst n. rewrite !vitems_For, L, L'. apply vadd_app; [apply vadd_refl | apply Rx].
  Qed.

  Lemma Q_FuncDef a ks : Forall (fun sk => Forall Q (snd sk)) ks -> Q (Node "FuncDef" a ks).
  Proof.
    intros IH n' Hins Hw Hc Hh. inversion Hins as [c a0 ks0 ks' Hk]; subst. clear Hins.
    pose proof (wf_slots "FuncDef" a ks' _ _ eq_refl Hw) as M. simpl in M.
    destruct ks' as [|[s1 ld'] [|[s2 lp'] [|[s3 lb'] [|? ?]]]]; simpl in M; try discriminate.
    inversion M; subst s1 s2 s3. clear M.
    pose proof (ins_kids_fst _ _ _ _ Hk) as Mf.
    destruct ks as [|[s1 ld] [|[s2 lp] [|[s3 lb] [|? ?]]]]; simpl in Mf; try discriminate.
    inversion Mf; subst s1 s2 s3. clear Mf.
    destruct (ins_kids_cons_inv _ _ _ _ _ Hk) as [l2 [r2 [Eq [Hk2 Hl1]]]]. inversion Eq; subst l2 r2. clear Eq.
    destruct (ins_kids_cons_inv _ _ _ _ _ Hk2) as [l3 [r3 [Eq [Hk3 Hl2]]]]. inversion Eq; subst l3 r3. clear Eq.
    destruct (ins_kids_cons_inv _ _ _ _ _ Hk3) as [l4 [r4 [Eq [_ Hl3]]]]. inversion Eq; subst l4 r4. clear Eq.
    slot_same Hl1 "FuncDef" "decl". slot_same Hl2 "FuncDef" "param_decls".
    pose proof (slot_rel "FuncDef" "body" lb lb' Hl3 eq_refl) as F.
    pose proof (wf_single "FuncDef" a _ _ _ "body" lb' eq_refl Hw (or_intror (or_intror (or_introl eq_refl))) eq_refl) as Hlen.
    set (n := Node "FuncDef" a [("decl", ld); ("param_decls", lp); ("body", lb)]) in *.
    pose proof (cov_FuncDef a [("decl", ld); ("param_decls", lp); ("body", lb)]) as E. fold n in E.
    rewrite E in Hc. apply app_eq_nil in Hc. destruct Hc as [Ha Hb].
    destruct (single_pair lb lb' F Hlen) as [[-> ->]|[b [b' [-> [-> Hx]]]]].
    { apply R_same. fold n. rewrite E, Ha, Hb. reflexivity. }
    set (n' := Node "FuncDef" a [("decl", ld); ("param_decls", lp); ("body", [b'])]) in *.
    assert (Ha' : args_part n' = []) by exact Ha.
    assert (Cb : cov b = []). { unfold pass_kid in Hb. cbn in Hb. apply map_eq_nil' in Hb. exact Hb. }
    assert (Qb : Q b).
    { pose proof (Forall_kidl Q "FuncDef" a [("decl", ld); ("param_decls", lp); ("body", [b])] "body" IH) as Fq. inversion Fq. assumption. }
    assert (Wb : wf_pyc b' = true) by (apply (wf_kid1 n' "body" b' Hw eq_refl)).
    assert (Hhb : host_ok b) by (apply (host_ok_kidl n "body" b Hh); left; reflexivity).
    destruct (Qb b' Hx Wb Cb Hhb) as [Re [Ri [Rc Rv]]].
    assert (E' : cov n' = map (pass [("body", 0)]) (cov b')).
    { unfold n'. rewrite cov_FuncDef. fold n'. rewrite Ha'. reflexivity. }
    unfold R. rewrite E', has_err_pass, has_inh_pass. split; [exact Re|]. split; [exact Ri|]. split.
    - unfold clean. rewrite E'. apply (last_slot_pass "FuncDef" a [("decl", ld); ("param_decls", lp)] "body" b b'); [|exact Rc].
      simpl. intros [Hq|[Hq|[]]]; discriminate.
    - unfold n, n'. rewrite !vitems_FuncDef. apply vadd_app; [apply vadd_refl | exact Rv].
  Qed.

  (* ---------- If: two branches, each with its own rm_attr ---------- *)
  Definition oL (l : list node) : cres := match l with [x] => cov x | _ => [] end.

  Lemma wc2_rmattr s1 s2 L1 L2 s :
    has_inh L1 = false -> has_inh L2 = false -> has_act (RmAttr [] s) (wc_part s1 L1 ++ wc_part s2 L2) = false.
  Proof. intros H1 H2. rewrite has_act_app, !wc_rmattr, H1, H2. reflexivity. Qed.

  Lemma wc2_slot1 s1 s2 L1 L2 x' :
    s1 <> s2 -> has_inh L1 = false -> has_inh L2 = false ->
    slot_res (wc_part s1 L1 ++ wc_part s2 L2) s1 [x'] = [apply_clears (acts L1) x'].
  Proof.
    intros N H1 H2. rewrite slot_res_single.
    - rewrite descend_app, !wc_descend, step_eqb_refl, (step_neq s2 s1 0 N), app_nil_r. reflexivity.
    - apply wc2_rmattr; assumption.
    - rewrite has_act_app, !wc_rmchild. reflexivity.
  Qed.

  Lemma wc2_slot2 s1 s2 L1 L2 x' :
    s1 <> s2 -> has_inh L1 = false -> has_inh L2 = false ->
    slot_res (wc_part s1 L1 ++ wc_part s2 L2) s2 [x'] = [apply_clears (acts L2) x'].
  Proof.
    intros N H1 H2. rewrite slot_res_single.
    - rewrite descend_app, !wc_descend, step_eqb_refl, (step_neq s1 s2 0 (not_eq_sym N)). reflexivity.
    - apply wc2_rmattr; assumption.
    - rewrite has_act_app, !wc_rmchild. reflexivity.
  Qed.

  Lemma wc2_nil s1 s2 L1 L2 s :
    has_inh L1 = false -> has_inh L2 = false -> slot_res (wc_part s1 L1 ++ wc_part s2 L2) s [] = [].
  Proof. intros H1 H2. unfold slot_res. rewrite wc2_rmattr by assumption. reflexivity. Qed.

  Lemma wc2_other s1 s2 L1 L2 s l :
    s <> s1 -> s <> s2 -> has_inh L1 = false -> has_inh L2 = false -> slot_res (wc_part s1 L1 ++ wc_part s2 L2) s l = l.
  Proof.
    intros N1 N2 H1 H2. apply slot_res_untouched.
    - apply wc2_rmattr; assumption.
    - intros j. rewrite has_act_app, !wc_rmchild. reflexivity.
    - intros j. rewrite descend_app, !wc_descend, (step_neq s1 s j N1), (step_neq s2 s j N2). reflexivity.
  Qed.

  (* a branch slot: empty on both sides, or one related pair *)
  Lemma branch_facts (l l' : list node) :
    Forall Q l -> Forall host_ok l -> Forall (fun x => wf_pyc x = true) l' ->
    Forall2 (ins okU) l l' -> length l' <= 1 -> oL l = [] ->
    has_err (oL l') = false /\ has_inh (oL l') = false /\
    match l' with [x'] => [apply_clears (acts (oL l')) x'] | _ => l' end = l /\
    vadd (flat_map vitems l) (flat_map vitems l').
  Proof.
    intros HQ HH HW F Hlen Hc.
    destruct (single_pair l l' F Hlen) as [[-> ->]|[x [x' [-> [-> Hx]]]]].
    - simpl. repeat split; auto.
    - inversion HQ as [|? ? Qx _]; subst. inversion HH as [|? ? Hhx _]; subst. inversion HW as [|? ? Wx _]; subst.
      simpl in Hc. destruct (Qx x' Hx Wx Hc Hhx) as [Re [Ri [Rc Rv]]].
      simpl oL. split; [exact Re|]. split; [exact Ri|]. split; [fold (clean x'); rewrite Rc; reflexivity|].
      simpl. rewrite !app_nil_r. exact Rv.
  Qed.

  Lemma if_part_explicit a lc lt lf s :
    (s = "iftrue" \/ s = "iffalse") -> length lt <= 1 -> length lf <= 1 ->
    if_part (Node "If" a [("cond", lc); ("iftrue", lt); ("iffalse", lf)]) s =
    map (with_clear (RmAttr [] s) [(s, 0)]) (oL (if String.eqb s "iftrue" then lt else lf)).
  Proof.
    intros [ -> | -> ] H1 H2; unfold if_part; cbn.
    - destruct lt as [|x [|y r]]; simpl in *; try reflexivity. lia.
    - destruct lf as [|x [|y r]]; simpl in *; try reflexivity. lia.
  Qed.

  Lemma ovitems_explicit (l : list node) : length l <= 1 -> ovitems (match l with x :: _ => Some x | [] => None end) = flat_map vitems l.
  Proof. destruct l as [|x [|y r]]; simpl; intros H; try reflexivity; [rewrite app_nil_r; reflexivity | lia]. Qed.

  Lemma Forall2_length_le (l l' : list node) : Forall2 (ins okU) l l' -> length l = length l'.
  Proof. induction 1; simpl; congruence. Qed.

  Lemma Q_If a ks : Forall (fun sk => Forall Q (snd sk)) ks -> Q (Node "If" a ks).
  Proof.
    intros IH n' Hins Hw Hc Hh. inversion Hins as [c a0 ks0 ks' Hk]; subst. clear Hins.
    pose proof (wf_slots "If" a ks' _ _ eq_refl Hw) as M. simpl in M.
    destruct ks' as [|[s1 lc'] [|[s2 lt'] [|[s3 lf'] [|? ?]]]]; simpl in M; try discriminate.
    inversion M; subst s1 s2 s3. clear M.
    pose proof (ins_kids_fst _ _ _ _ Hk) as Mf.
    destruct ks as [|[s1 lc] [|[s2 lt] [|[s3 lf] [|? ?]]]]; simpl in Mf; try discriminate.
    inversion Mf; subst s1 s2 s3. clear Mf.
    destruct (ins_kids_cons_inv _ _ _ _ _ Hk) as [l2 [r2 [Eq [Hk2 Hl1]]]]. inversion Eq; subst l2 r2. clear Eq.
    destruct (ins_kids_cons_inv _ _ _ _ _ Hk2) as [l3 [r3 [Eq [Hk3 Hl2]]]]. inversion Eq; subst l3 r3. clear Eq.
    destruct (ins_kids_cons_inv _ _ _ _ _ Hk3) as [l4 [r4 [Eq [_ Hl3]]]]. inversion Eq; subst l4 r4. clear Eq.
    slot_same Hl1 "If" "cond".
    pose proof (slot_rel "If" "iftrue" lt lt' Hl2 eq_refl) as Ft.
    pose proof (slot_rel "If" "iffalse" lf lf' Hl3 eq_refl) as Ff.
    pose proof (wf_single "If" a _ _ _ "iftrue" lt' eq_refl Hw (or_intror (or_introl eq_refl)) eq_refl) as Lt'.
    pose proof (wf_single "If" a _ _ _ "iffalse" lf' eq_refl Hw (or_intror (or_intror (or_introl eq_refl))) eq_refl) as Lf'.
    assert (Lt : length lt <= 1) by (rewrite (Forall2_length_le _ _ Ft); exact Lt').
    assert (Lf : length lf <= 1) by (rewrite (Forall2_length_le _ _ Ff); exact Lf').
    set (n := Node "If" a [("cond", lc); ("iftrue", lt); ("iffalse", lf)]) in *.
    set (n' := Node "If" a [("cond", lc); ("iftrue", lt'); ("iffalse", lf')]) in *.
    assert (E : cov n = map (with_clear (RmAttr [] "iftrue") [("iftrue", 0)]) (oL lt) ++
                        map (with_clear (RmAttr [] "iffalse") [("iffalse", 0)]) (oL lf)).
    { unfold n. rewrite cov_If, !if_part_explicit; auto. }
    assert (E' : cov n' = map (with_clear (RmAttr [] "iftrue") [("iftrue", 0)]) (oL lt') ++
                          map (with_clear (RmAttr [] "iffalse") [("iffalse", 0)]) (oL lf')).
    { unfold n'. rewrite cov_If, !if_part_explicit; auto. }
    rewrite E in Hc. apply app_eq_nil in Hc. destruct Hc as [Hct Hcf]. apply map_eq_nil' in Hct. apply map_eq_nil' in Hcf.
    assert (HQt : Forall Q lt) by (apply (Forall_kidl Q "If" a [("cond", lc); ("iftrue", lt); ("iffalse", lf)] "iftrue" IH)).
    assert (HQf : Forall Q lf) by (apply (Forall_kidl Q "If" a [("cond", lc); ("iftrue", lt); ("iffalse", lf)] "iffalse" IH)).
    assert (HHt : Forall host_ok lt) by (apply Forall_forall; intros x Hx; apply (host_ok_kidl n "iftrue" x Hh); exact Hx).
    assert (HHf : Forall host_ok lf) by (apply Forall_forall; intros x Hx; apply (host_ok_kidl n "iffalse" x Hh); exact Hx).
    assert (HWt : Forall (fun x => wf_pyc x = true) lt') by (apply Forall_forall; intros x Hx; apply (wf_kidl n' "iftrue" x Hw); exact Hx).
    assert (HWf : Forall (fun x => wf_pyc x = true) lf') by (apply Forall_forall; intros x Hx; apply (wf_kidl n' "iffalse" x Hw); exact Hx).
    destruct (branch_facts lt lt' HQt HHt HWt Ft Lt' Hct) as [Et [It [Ct Vt]]].
    destruct (branch_facts lf lf' HQf HHf HWf Ff Lf' Hcf) as [Ef [If_ [Cf Vf]]].
    unfold R. rewrite E', has_err_app, has_inh_app, !has_err_with_clear, !has_inh_with_clear, Et, Ef.
    split; [reflexivity|]. split; [reflexivity|]. split.
    - unfold clean. rewrite E', acts_app. fold (wc_part "iftrue" (oL lt')). fold (wc_part "iffalse" (oL lf')).
      unfold n' at 1. rewrite apply_clears_eq. cbn [map fst snd]. unfold n. f_equal. f_equal; [|f_equal; [|f_equal]].
      + f_equal. apply wc2_other; try discriminate; assumption.
      + f_equal. rewrite <- Ct. destruct lt' as [|x' [|y r]]; [apply wc2_nil; assumption | apply wc2_slot1; try discriminate; assumption | simpl in Lt'; lia].
      + f_equal. rewrite <- Cf. destruct lf' as [|x' [|y r]]; [apply wc2_nil; assumption | apply wc2_slot2; try discriminate; assumption | simpl in Lf'; lia].
    - unfold n, n'. rewrite !vitems_If.
      change (kid1 (Node "If" a [("cond", lc); ("iftrue", lt); ("iffalse", lf)]) "iftrue") with (match lt with x :: _ => Some x | [] => None end).
      change (kid1 (Node "If" a [("cond", lc); ("iftrue", lt); ("iffalse", lf)]) "iffalse") with (match lf with x :: _ => Some x | [] => None end).
      change (kid1 (Node "If" a [("cond", lc); ("iftrue", lt'); ("iffalse", lf')]) "iftrue") with (match lt' with x :: _ => Some x | [] => None end).
      change (kid1 (Node "If" a [("cond", lc); ("iftrue", lt'); ("iffalse", lf')]) "iffalse") with (match lf' with x :: _ => Some x | [] => None end).
      rewrite !ovitems_explicit by assumption. apply vadd_app; assumption.
  Qed.

  (* ---------- every node ---------- *)
  Lemma Q_step c a ks : Forall (fun sk => Forall Q (snd sk)) ks -> Q (Node c a ks).
  Proof.
    intros IH.
    destruct (String.eqb_spec c "Compound") as [->|N1]; [apply Q_Compound; exact IH|].
    destruct (String.eqb_spec c "While") as [->|N2]; [apply Q_While; exact IH|].
    destruct (String.eqb_spec c "DoWhile") as [->|N3]; [apply Q_DoWhile; exact IH|].
    destruct (String.eqb_spec c "For") as [->|N4]; [apply Q_For; exact IH|].
    destruct (String.eqb_spec c "FuncDef") as [->|N5]; [apply Q_FuncDef; exact IH|].
    destruct (String.eqb_spec c "If") as [->|N6]; [apply Q_If; exact IH|].
    intros n' Hins Hw Hc Hh. inversion Hins as [c0 a0 ks0 ks' Hk]; subst.
    assert (Hn : forall s, struct_slot c s = false).
    { intros s. unfold struct_slot. apply String.eqb_neq in N1, N2, N3, N4, N5, N6. rewrite N1, N2, N3, N4, N5, N6. reflexivity. }
    rewrite (ins_kids_no_struct c ks ks' Hn Hk). apply R_same. exact Hc.
  Qed.

  Theorem Q_all n : Q n.
  Proof. induction n as [c a ks IH] using node_ind'. apply Q_step. exact IH. Qed.
End Proof.

(* ------------------------------------------------------------------------- *)
(* the C07 statement                                                           *)
(* ------------------------------------------------------------------------- *)
Theorem insert_removed f f' :
  wf_pyc f' = true -> full f = true -> ins (unsupported_for f) f f' -> ast_mod f' = Ok f.
Proof.
  intros W Fu Hins.
  assert (Hc : cov f = []).
  { unfold full, coverage in Fu. destruct (cov f) as [|e l]; [reflexivity|]. simpl in Fu.
    destruct e as [p [|a]|p]; try discriminate. destruct (cov_entries l); discriminate. }
  assert (Hok : forall u, unsupported_for f u ->
                has_inh (cov u) = true /\ has_err (cov u) = false /\ vraises (vitems u) = false /\
                (forall y, In y (vnames_of (vitems u)) -> ~ guards f y)) by (intros u H; exact H).
  assert (Hh : host_ok (guards f) f) by (intros m x Hm L; exists m; auto).
  destruct (Q_all (guards f) (unsupported_for f) Hok f f' Hins W Hc Hh) as [He [Hi [Hcl _]]].
  unfold ast_mod, coverage. destruct (cov_entries_clean (cov f') Hi He) as [r [Er Mr]]. rewrite Er, Mr. f_equal. exact Hcl.
Qed.

(* insertion under a label is NOT undone: Coverage does not look below a Label (D3) *)
Definition lbl_block (l : list node) : node :=
  Node "Label" [("name", "L")] [("stmt", [Node "Compound" [] [("block_items", l)]])].
Definition a_call : node :=
  Node "FuncCall" [] [("name", [Node "ID" [("name", "g")] []]); ("args", [])].

Lemma insert_under_label_not_removed :
  full (lbl_block []) = true /\ wf_pyc (lbl_block [a_call]) = true /\ full (lbl_block [a_call]) = true /\
  ast_mod (lbl_block [a_call]) = Ok (lbl_block [a_call]).
Proof. vm_compute. repeat split. Qed.

(* non-vacuity: a host with a loop and a branch, two insertions (one in the loop body) *)
Definition h_id (x : string) : node := Node "ID" [("name", x)] [].
Definition h_asg (x y z : string) : node :=
  Node "Assignment" [("op", "=")] [("lvalue", [h_id x]); ("rvalue", [Node "BinaryOp" [("op", "+")] [("left", [h_id y]); ("right", [h_id z])]])].
Definition h_block (l : list node) : node := Node "Compound" [] [("block_items", l)].
Definition h_while (body : node) : node :=
  Node "While" [] [("cond", [Node "BinaryOp" [("op", "<")] [("left", [h_id "x"]); ("right", [h_id "y"])]]); ("stmt", [body])].
Definition h_call (f x : string) : node :=
  Node "FuncCall" [] [("name", [h_id f]); ("args", [Node "ExprList" [] [("exprs", [h_id x])]])].
Definition h_host : node := h_block [h_asg "x" "y" "z"; h_while (h_block [h_asg "y" "y" "x"])].
Definition h_host' : node := h_block [h_call "g" "u"; h_asg "x" "y" "z"; h_while (h_block [h_asg "y" "y" "x"; h_call "h" "v"])].

Example insert_nonvacuous :
  full h_host = true /\ wf_pyc h_host' = true /\ ast_mod h_host' = Ok h_host /\
  has_inh (cov (h_call "g" "u")) = true /\ has_err (cov (h_call "g" "u")) = false /\ vraises (vitems (h_call "g" "u")) = false.
Proof. vm_compute. repeat split. Qed.
