(* C07, part b: the recursive equations of the Coverage model and of the variable walker, one per
   node class, in terms of child lookups (what `walk` + the generated dispatch tables compute). *)
From Coq Require Import String List Bool Arith Lia.
From PMGen Require Import SyntaxGen PycSchema.
From PM Require Import Tree Syntax Syntax_proofs Syntax_proofs_C07a.
Import ListNotations.
Open Scope string_scope.
Open Scope list_scope.

Definition ocov (o : option node) : cres := match o with Some x => cov x | None => [] end.

Lemma ak1_akids_annotate {R} (step : string -> list (string * string) -> list (string * list node) -> list (string * list (ann R)) -> R) x s :
  ak1 (akids (annotate step x)) s = option_map (annotate step) (kid1 x s).
Proof. destruct x as [c a ks]. rewrite akids_annotate. simpl nkids. apply (ak1_node step c a ks s). Qed.

Lemma akl_akids_annotate {R} (step : string -> list (string * string) -> list (string * list node) -> list (string * list (ann R)) -> R) x s :
  akl (akids (annotate step x)) s = map (annotate step) (kidl x s).
Proof. destruct x as [c a ks]. rewrite akids_annotate. simpl nkids. apply (akl_node step c a ks s). Qed.

Lemma cov_eq c a ks : cov (Node c a ks) = cov_step c a ks (annk cov_step ks).
Proof. reflexivity. Qed.

Definition fire : cres := [Omit [] Inh].

Definition pass_kid (n : node) (s : string) : cres :=
  match kid1 n s with Some x => map (pass [(s, 0)]) (cov x) | None => [] end.

Lemma rec_pass_eq c a ks s :
  match ak1 (annk cov_step ks) s with Some x => map (pass [(s, 0)]) (ares x) | None => [] end = pass_kid (Node c a ks) s.
Proof. unfold pass_kid. rewrite (ak1_node cov_step c a ks s). destruct (kid1 (Node c a ks) s); reflexivity. Qed.

(* Coverage._iter_attr on the node's own list slot *)
Definition iter_kids (n : node) (s : string) : cres := iter_from s 0 (map cov (kidl n s)).

Lemma cov_iter_nodes_from s (xs : list node) k :
  concat (mapi_from (fun i x => map (with_clear (RmChild [] s i) ([] ++ [(s, i)])) (ares x)) k (map (annotate cov_step) xs))
  = iter_from s k (map cov xs).
Proof. revert k. induction xs as [|x xs IH]; intros k; simpl; [reflexivity|]. rewrite IH. reflexivity. Qed.

Lemma cov_iter_nodes s (xs : list node) :
  cov_iter [] s (map (annotate cov_step) xs) = iter_from s 0 (map cov xs).
Proof. unfold cov_iter, mapi. apply cov_iter_nodes_from. Qed.

Lemma cov_iter_self c a ks s : cov_iter [] s (akl (annk cov_step ks) s) = iter_kids (Node c a ks) s.
Proof. rewrite (akl_node cov_step c a ks s). apply cov_iter_nodes. Qed.

(* while-like body *)
Definition body_part (n : node) : cres :=
  match kid1 n "stmt" with
  | Some x => if is_cls "Compound" x then map (pass [("stmt", 0)]) (iter_kids x "block_items")
              else map (with_clear (RmAttr [] "stmt") [("stmt", 0)]) (cov x)
  | None => [Omit [("stmt", 0)] (Act (RmAttr [] "stmt"))]
  end.

Lemma with_clear_pass_iter s i e :
  with_clear (RmChild [("stmt", 0)] s i) ([("stmt", 0)] ++ [(s, i)]) e =
  pass [("stmt", 0)] (with_clear (RmChild [] s i) [(s, i)] e).
Proof. destruct e as [p [|a]|p]; simpl; try reflexivity. destruct a; reflexivity. Qed.

Lemma cov_iter_stmt_from s (xs : list node) k :
  concat (mapi_from (fun i x => map (with_clear (RmChild [("stmt", 0)] s i) ([("stmt", 0)] ++ [(s, i)])) (ares x)) k
                    (map (annotate cov_step) xs))
  = map (pass [("stmt", 0)]) (iter_from s k (map cov xs)).
Proof.
  revert k. induction xs as [|x xs IH]; intros k; simpl; [reflexivity|].
  rewrite map_app, IH. f_equal. unfold iter_part. rewrite map_map.
  apply map_ext. intros e. apply with_clear_pass_iter.
Qed.

Lemma cov_iter_stmt s (xs : list node) :
  cov_iter [("stmt", 0)] s (map (annotate cov_step) xs) = map (pass [("stmt", 0)]) (iter_from s 0 (map cov xs)).
Proof. unfold cov_iter, mapi. apply cov_iter_stmt_from. Qed.

Lemma while_body_eq c a ks :
  match ak1 (annk cov_step ks) "stmt" with
  | Some x => if is_cls "Compound" (anode x)
              then cov_iter [("stmt", 0)] "block_items" (akl (akids x) "block_items")
              else map (with_clear (RmAttr [] "stmt") [("stmt", 0)]) (ares x)
  | None => [Omit [("stmt", 0)] (Act (RmAttr [] "stmt"))]
  end = body_part (Node c a ks).
Proof.
  unfold body_part. rewrite (ak1_node cov_step c a ks "stmt"). destruct (kid1 (Node c a ks) "stmt") as [x|]; [|reflexivity].
  simpl option_map. cbv iota beta. rewrite anode_annotate, ares_annotate.
  destruct (is_cls "Compound" x); [|reflexivity].
  rewrite akl_akids_annotate. apply cov_iter_stmt.
Qed.

(* ---- one equation per class ---- *)
Lemma cov_reject c a ks : in_s c COV_REJECT = true -> cov (Node c a ks) = fire.
Proof. intros H. rewrite cov_eq. unfold cov_step. rewrite H. reflexivity. Qed.

Lemma cov_Return a ks : cov (Node "Return" a ks) = pass_kid (Node "Return" a ks) "expr".
Proof.
  rewrite cov_eq.
  change (cov_step "Return" a ks (annk cov_step ks)) with
      (match ak1 (annk cov_step ks) "expr" with Some x => map (pass [("expr", 0)]) (ares x) | None => [] end).
  apply rec_pass_eq.
Qed.

Lemma cov_Cast a ks : cov (Node "Cast" a ks) = pass_kid (Node "Cast" a ks) "expr".
Proof.
  rewrite cov_eq.
  change (cov_step "Cast" a ks (annk cov_step ks)) with
      (match ak1 (annk cov_step ks) "expr" with Some x => map (pass [("expr", 0)]) (ares x) | None => [] end).
  apply rec_pass_eq.
Qed.

Lemma cov_UnaryOp a ks :
  cov (Node "UnaryOp" a ks) =
  if attr_in (Node "UnaryOp" a ks) "op" U_OPS && ocls_in COV_UNOP_ALLOW (kid1 (Node "UnaryOp" a ks) "expr")
  then pass_kid (Node "UnaryOp" a ks) "expr" else fire.
Proof.
  rewrite cov_eq.
  change (cov_step "UnaryOp" a ks (annk cov_step ks)) with
      (if attr_in (Node "UnaryOp" a ks) "op" U_OPS && ocls_in COV_UNOP_ALLOW (kid1 (Node "UnaryOp" a ks) "expr")
       then match ak1 (annk cov_step ks) "expr" with Some x => map (pass [("expr", 0)]) (ares x) | None => [] end
       else fire).
  rewrite (rec_pass_eq "UnaryOp" a ks "expr"). reflexivity.
Qed.

Lemma cov_BinaryOp a ks :
  cov (Node "BinaryOp" a ks) =
  if attr_in (Node "BinaryOp" a ks) "op" BIN_OPS && ocls_in COV_BINOP_ALLOW (uncast1 (kid1 (Node "BinaryOp" a ks) "left"))
     && ocls_in COV_BINOP_ALLOW (uncast1 (kid1 (Node "BinaryOp" a ks) "right"))
  then [] else fire.
Proof. reflexivity. Qed.

Lemma cov_Decl a ks :
  cov (Node "Decl" a ks) =
  if ois_cls "TypeDecl" (kid1 (Node "Decl" a ks) "type") && match kid1 (Node "Decl" a ks) "init" with None => true | Some _ => false end
  then [] else fire.
Proof. reflexivity. Qed.

Lemma cov_FuncCall a ks :
  cov (Node "FuncCall" a ks) = if fcall_special (Node "FuncCall" a ks) then [] else fire.
Proof. reflexivity. Qed.

Lemma cov_While a ks : cov (Node "While" a ks) = body_part (Node "While" a ks).
Proof. rewrite cov_eq. rewrite <- while_body_eq. reflexivity. Qed.

Lemma cov_DoWhile a ks : cov (Node "DoWhile" a ks) = body_part (Node "DoWhile" a ks).
Proof. rewrite cov_eq. rewrite <- while_body_eq. reflexivity. Qed.

Lemma cov_For a ks :
  cov (Node "For" a ks) =
  match loop_compat (Node "For" a ks) with
  | LcErr => [CErr []]
  | LcNo => fire
  | LcYes _ => body_part (Node "For" a ks)
  end.
Proof. rewrite cov_eq. rewrite <- while_body_eq. reflexivity. Qed.

Definition if_part (n : node) (s : string) : cres :=
  match kid1 n s with Some x => map (with_clear (RmAttr [] s) [(s, 0)]) (cov x) | None => [] end.

Lemma cov_If a ks : cov (Node "If" a ks) = if_part (Node "If" a ks) "iftrue" ++ if_part (Node "If" a ks) "iffalse".
Proof.
  rewrite cov_eq.
  change (cov_step "If" a ks (annk cov_step ks)) with
      (match ak1 (annk cov_step ks) "iftrue" with
       | Some x => map (with_clear (RmAttr [] "iftrue") [("iftrue", 0)]) (ares x) | None => [] end ++
       match ak1 (annk cov_step ks) "iffalse" with
       | Some x => map (with_clear (RmAttr [] "iffalse") [("iffalse", 0)]) (ares x) | None => [] end).
  unfold if_part. rewrite !(ak1_node cov_step "If" a ks).
  destruct (kid1 (Node "If" a ks) "iftrue"), (kid1 (Node "If" a ks) "iffalse"); reflexivity.
Qed.

Definition assign_ok (n : node) : bool :=
  attr_is n "op" "=" && ois_cls "ID" (kid1 n "lvalue") && ocls_in COV_ASSIGN_ALLOW (uncast1 (kid1 n "rvalue")).

Definition assign_right (n : node) : cres :=
  if ois_cls "Cast" (kid1 n "rvalue")
  then match kid1 n "rvalue" with
       | Some r => match kid1 r "expr" with Some e => map (pass [("rvalue", 0); ("expr", 0)]) (cov e) | None => [] end
       | None => []
       end
  else pass_kid n "rvalue".

Lemma cov_Assignment a ks :
  cov (Node "Assignment" a ks) =
  if assign_ok (Node "Assignment" a ks)
  then pass_kid (Node "Assignment" a ks) "lvalue" ++ assign_right (Node "Assignment" a ks) else fire.
Proof.
  rewrite cov_eq.
  change (cov_step "Assignment" a ks (annk cov_step ks)) with
      (if assign_ok (Node "Assignment" a ks)
       then match ak1 (annk cov_step ks) "lvalue" with Some x => map (pass [("lvalue", 0)]) (ares x) | None => [] end ++
            (if ois_cls "Cast" (kid1 (Node "Assignment" a ks) "rvalue")
             then match ak1 (annk cov_step ks) "rvalue" with
                  | Some r => match ak1 (akids r) "expr" with
                              | Some e => map (pass [("rvalue", 0); ("expr", 0)]) (ares e)
                              | None => []
                              end
                  | None => []
                  end
             else match ak1 (annk cov_step ks) "rvalue" with Some x => map (pass [("rvalue", 0)]) (ares x) | None => [] end)
       else fire).
  destruct (assign_ok (Node "Assignment" a ks)); [|reflexivity].
  rewrite (rec_pass_eq "Assignment" a ks "lvalue"). f_equal. unfold assign_right.
  destruct (ois_cls "Cast" (kid1 (Node "Assignment" a ks) "rvalue")); [|apply (rec_pass_eq "Assignment" a ks "rvalue")].
  rewrite (ak1_node cov_step "Assignment" a ks "rvalue").
  destruct (kid1 (Node "Assignment" a ks) "rvalue") as [r|]; [|reflexivity].
  simpl option_map. cbv iota beta. rewrite ak1_akids_annotate. destruct (kid1 r "expr"); reflexivity.
Qed.

Definition args_part (n : node) : cres :=
  match kid1 n "decl" with
  | None => [CErr []]
  | Some d => match kid1 d "type" with
              | Some t => match kid1 t "args" with
                          | Some x => map (pass [("decl", 0); ("type", 0); ("args", 0)]) (cov x)
                          | None => []
                          end
              | None => []
              end
  end.

Lemma cov_FuncDef a ks :
  cov (Node "FuncDef" a ks) = args_part (Node "FuncDef" a ks) ++ pass_kid (Node "FuncDef" a ks) "body".
Proof.
  rewrite cov_eq.
  change (cov_step "FuncDef" a ks (annk cov_step ks)) with
      (match ak1 (annk cov_step ks) "decl" with
       | None => [CErr []]
       | Some d => match ak1 (akids d) "type" with
                   | Some t => match ak1 (akids t) "args" with
                               | Some x => map (pass [("decl", 0); ("type", 0); ("args", 0)]) (ares x)
                               | None => []
                               end
                   | None => []
                   end
       end ++ match ak1 (annk cov_step ks) "body" with Some x => map (pass [("body", 0)]) (ares x) | None => [] end).
  rewrite (rec_pass_eq "FuncDef" a ks "body"). f_equal. unfold args_part.
  rewrite (ak1_node cov_step "FuncDef" a ks "decl"). destruct (kid1 (Node "FuncDef" a ks) "decl") as [d|]; [|reflexivity].
  simpl option_map. cbv iota beta. rewrite ak1_akids_annotate. destruct (kid1 d "type") as [t|]; [|reflexivity].
  simpl option_map. cbv iota beta. rewrite ak1_akids_annotate. destruct (kid1 t "args"); reflexivity.
Qed.

(* BaseAnalysis iteration classes *)
Lemma cov_base c a ks s :
  In (c, s) BASE_ITER -> cov (Node c a ks) = iter_kids (Node c a ks) s.
Proof.
  intros H. rewrite cov_eq. rewrite <- (cov_iter_self c a ks s).
  cbn [In BASE_ITER] in H.
  repeat match goal with H : _ \/ _ |- _ => destruct H as [H|H] end; try contradiction; inversion H; subst; reflexivity.
Qed.

(* classes NodeHandler lists and nobody overrides: pass *)
Lemma cov_nh c a ks :
  in_s c COV_REJECT = false -> c <> "FuncCall" -> resolve COVERAGE_METHODS c = OwnNH -> cov (Node c a ks) = [].
Proof.
  intros H1 H2 H3. rewrite cov_eq. unfold cov_step. rewrite H1. apply String.eqb_neq in H2. rewrite H2, H3. reflexivity.
Qed.

(* unlisted classes: Coverage.handler *)
Lemma cov_none c a ks :
  in_s c COV_REJECT = false -> c <> "FuncCall" -> resolve COVERAGE_METHODS c = OwnNone -> cov (Node c a ks) = fire.
Proof.
  intros H1 H2 H3. rewrite cov_eq. unfold cov_step. rewrite H1. apply String.eqb_neq in H2. rewrite H2, H3. reflexivity.
Qed.

(* ------------------------------------------------------------------------- *)
(* variable walker                                                             *)
(* ------------------------------------------------------------------------- *)
Lemma vitems_eq c a ks : vitems (Node c a ks) = vars_step c a ks (annk vars_step ks).
Proof. reflexivity. Qed.

Lemma vrec1_eq c a ks s : ores (ak1 (annk vars_step ks) s) = ovitems (kid1 (Node c a ks) s).
Proof. rewrite (ak1_node vars_step c a ks s). destruct (kid1 (Node c a ks) s); reflexivity. Qed.

Lemma viter_eq c a ks s : flat_map ares (akl (annk vars_step ks) s) = flat_map vitems (kidl (Node c a ks) s).
Proof. rewrite (akl_node vars_step c a ks s). induction (kidl (Node c a ks) s); simpl; [reflexivity|]. rewrite IHl. reflexivity. Qed.

Lemma vitems_Return a ks : vitems (Node "Return" a ks) = ovitems (kid1 (Node "Return" a ks) "expr").
Proof. rewrite vitems_eq. apply (vrec1_eq "Return" a ks "expr"). Qed.

Lemma vitems_Cast a ks : vitems (Node "Cast" a ks) = ovitems (kid1 (Node "Cast" a ks) "expr").
Proof. rewrite vitems_eq. apply (vrec1_eq "Cast" a ks "expr"). Qed.

Lemma vitems_UnaryOp a ks :
  vitems (Node "UnaryOp" a ks) = if attr_in (Node "UnaryOp" a ks) "op" U_OPS then ovitems (kid1 (Node "UnaryOp" a ks) "expr") else [].
Proof.
  rewrite vitems_eq.
  change (vars_step "UnaryOp" a ks (annk vars_step ks)) with
      (if attr_in (Node "UnaryOp" a ks) "op" U_OPS then ores (ak1 (annk vars_step ks) "expr") else []).
  rewrite (vrec1_eq "UnaryOp" a ks "expr"). reflexivity.
Qed.

Lemma vitems_Assignment a ks :
  vitems (Node "Assignment" a ks) =
  ovitems (kid1 (Node "Assignment" a ks) "lvalue") ++ ovitems (kid1 (Node "Assignment" a ks) "rvalue").
Proof.
  rewrite vitems_eq.
  change (vars_step "Assignment" a ks (annk vars_step ks)) with
      (ores (ak1 (annk vars_step ks) "lvalue") ++ ores (ak1 (annk vars_step ks) "rvalue")).
  rewrite !(vrec1_eq "Assignment" a ks). reflexivity.
Qed.

Lemma vitems_While a ks :
  vitems (Node "While" a ks) = ovitems (kid1 (Node "While" a ks) "cond") ++ ovitems (kid1 (Node "While" a ks) "stmt").
Proof.
  rewrite vitems_eq.
  change (vars_step "While" a ks (annk vars_step ks)) with
      (ores (ak1 (annk vars_step ks) "cond") ++ ores (ak1 (annk vars_step ks) "stmt")).
  rewrite !(vrec1_eq "While" a ks). reflexivity.
Qed.

Lemma vitems_DoWhile a ks :
  vitems (Node "DoWhile" a ks) = ovitems (kid1 (Node "DoWhile" a ks) "cond") ++ ovitems (kid1 (Node "DoWhile" a ks) "stmt").
Proof.
  rewrite vitems_eq.
  change (vars_step "DoWhile" a ks (annk vars_step ks)) with
      (ores (ak1 (annk vars_step ks) "cond") ++ ores (ak1 (annk vars_step ks) "stmt")).
  rewrite !(vrec1_eq "DoWhile" a ks). reflexivity.
Qed.

Lemma vitems_If a ks :
  vitems (Node "If" a ks) = ovitems (kid1 (Node "If" a ks) "iftrue") ++ ovitems (kid1 (Node "If" a ks) "iffalse").
Proof.
  rewrite vitems_eq.
  change (vars_step "If" a ks (annk vars_step ks)) with
      (ores (ak1 (annk vars_step ks) "iftrue") ++ ores (ak1 (annk vars_step ks) "iffalse")).
  rewrite !(vrec1_eq "If" a ks). reflexivity.
Qed.

Lemma vitems_For a ks :
  vitems (Node "For" a ks) =
  match loop_compat (Node "For" a ks) with
  | LcErr => [VRaise]
  | LcYes x => (if String.eqb x "" then [] else [VName x]) ++ ovitems (kid1 (Node "For" a ks) "stmt")
  | LcNo => ovitems (kid1 (Node "For" a ks) "stmt")
  end.
Proof.
  rewrite vitems_eq.
  change (vars_step "For" a ks (annk vars_step ks)) with
      (match loop_guard_of (kid1 (Node "For" a ks) "init") (ores (ak1 (annk vars_step ks) "cond"))
                           (ores (ak1 (annk vars_step ks) "next")) (ores (ak1 (annk vars_step ks) "stmt")) with
       | LcErr => [VRaise]
       | LcYes x => (if String.eqb x "" then [] else [VName x]) ++ ores (ak1 (annk vars_step ks) "stmt")
       | LcNo => ores (ak1 (annk vars_step ks) "stmt")
       end).
  rewrite !(vrec1_eq "For" a ks). reflexivity.
Qed.

Definition vargs_part (n : node) : list vitem :=
  match kid1 n "decl" with
  | None => [VRaise]
  | Some d => match kid1 d "type" with Some t => ovitems (kid1 t "args") | None => [] end
  end.

Lemma vitems_FuncDef a ks :
  vitems (Node "FuncDef" a ks) = vargs_part (Node "FuncDef" a ks) ++ ovitems (kid1 (Node "FuncDef" a ks) "body").
Proof.
  rewrite vitems_eq.
  change (vars_step "FuncDef" a ks (annk vars_step ks)) with
      (match ak1 (annk vars_step ks) "decl" with
       | None => [VRaise]
       | Some d => match ak1 (akids d) "type" with Some t => ores (ak1 (akids t) "args") | None => [] end
       end ++ ores (ak1 (annk vars_step ks) "body")).
  rewrite (vrec1_eq "FuncDef" a ks "body"). f_equal. unfold vargs_part.
  rewrite (ak1_node vars_step "FuncDef" a ks "decl"). destruct (kid1 (Node "FuncDef" a ks) "decl") as [d|]; [|reflexivity].
  simpl option_map. cbv iota beta. rewrite ak1_akids_annotate. destruct (kid1 d "type") as [t|]; [|reflexivity].
  simpl option_map. cbv iota beta. rewrite ak1_akids_annotate. destruct (kid1 t "args"); reflexivity.
Qed.

Lemma vitems_base c a ks s :
  In (c, s) BASE_ITER -> vitems (Node c a ks) = flat_map vitems (kidl (Node c a ks) s).
Proof.
  intros H. rewrite vitems_eq. rewrite <- (viter_eq c a ks s).
  cbn [In BASE_ITER] in H.
  repeat match goal with H : _ \/ _ |- _ => destruct H as [H|H] end; try contradiction; inversion H; subst; reflexivity.
Qed.
