(* C04 -- the Choices object: membership test, enumeration, first, infinite, intersection; and the
   end-to-end statements about Choices.generate. *)
From Coq Require Import List Arith Bool ZArith Lia Sorted.
From PM Require Import Choice Choice_base Choice_passes Choice_build.
Import ListNotations.

(* a choice object of degree n over dom: index n, every stored vector has n non-empty entries in dom *)
Definition wf_choices (dom : list nat) (n : nat) (c : choices) : Prop :=
  c.(index) = Z.of_nat n /\ Forall (good_box dom n) c.(valid).

Lemma valid_mk_choices v i : valid (mk_choices v i) = v.
Proof. unfold mk_choices. destruct v; [reflexivity|]. destruct (i <? 0)%Z; reflexivity. Qed.

Lemma index_mk_choices v i : (0 <= i)%Z -> index (mk_choices v i) = i.
Proof.
  intros H. unfold mk_choices. destruct v; [reflexivity|].
  destruct (i <? 0)%Z eqn:E; [apply Z.ltb_lt in E; lia | reflexivity].
Qed.

(* ---------- is_valid ---------- *)

Lemma prefix_ok_in_box v b : length v = length b -> (prefix_ok v b = true <-> in_box v b).
Proof.
  unfold in_box. revert b. induction v as [|x v IH]; intros [|e b] Hl; simpl in *; try discriminate.
  - split; [constructor | reflexivity].
  - rewrite andb_true_iff, (memb_In _ Nat.eqb_eq), IH by lia. split.
    + intros [H1 H2]. constructor; assumption.
    + intros H. inversion H; subst. auto.
Qed.

Lemma in_box_length v b : in_box v b -> length v = length b.
Proof. unfold in_box. induction 1; simpl; lia. Qed.

Lemma is_valid_covered n c v :
  Forall (fun b => length b = n) c.(valid) -> length v = n ->
  (is_valid c v = true <-> covered c.(valid) v).
Proof.
  intros Hb Hv. unfold is_valid, covered. rewrite existsb_exists. rewrite Forall_forall in Hb.
  split; intros [b [Hin H]]; exists b; (split; [exact Hin|]).
  - apply andb_true_iff in H. destruct H as [_ H]. apply prefix_ok_in_box; [|exact H].
    rewrite (Hb b Hin). exact Hv.
  - apply andb_true_iff. split; [apply Nat.leb_le; rewrite (Hb b Hin); lia|].
    apply prefix_ok_in_box; [rewrite (Hb b Hin); exact Hv | exact H].
Qed.

(* a vector accepted by is_valid at full length is covered, whatever it contains *)
Lemma is_valid_covered_len n c v :
  Forall (fun b => length b = n) c.(valid) ->
  (is_valid c v = true /\ length v = n <-> covered c.(valid) v).
Proof.
  intros Hb. split.
  - intros [H Hl]. now apply (is_valid_covered n).
  - intros H. assert (length v = n) as Hl.
    { destruct H as [b [Hin H]]. rewrite Forall_forall in Hb. rewrite <- (Hb b Hin). now apply in_box_length. }
    split; [now apply (is_valid_covered n) | exact Hl].
Qed.

(* ---------- all ---------- *)

Lemma product_In b v : In v (product b) <-> in_box v b.
Proof.
  unfold in_box. revert v. induction b as [|e r IH]; intros v; simpl.
  - split; [intros [<-|[]]; constructor | intros H; inversion H; now left].
  - rewrite in_flat_map. split.
    + intros [x [Hx Hv]]. apply in_map_iff in Hv. destruct Hv as [t [<- Ht]].
      constructor; [exact Hx | now apply IH].
    + intros H. inversion H as [|x e' t r' Hx Hf]; subst. exists x. split; [exact Hx|].
      apply in_map. now apply IH.
Qed.

Lemma all_covered c v : In v (all c) <-> covered c.(valid) v.
Proof.
  unfold all, covered. rewrite in_flat_map. split; intros [b [Hb H]]; exists b; (split; [exact Hb|]);
    now apply product_In.
Qed.

(* ---------- first, infinite ---------- *)

Lemma firsts_in_box dom n b : good_box dom n b ->
  exists t, map_res (fun e : entry => match e with [] => Err IndexError | x :: _ => Ok x end) b = Ok t /\
            in_box t b.
Proof.
  intros [_ Hf]. unfold in_box. induction Hf as [|e r [He _] Hr IH]; simpl.
  - exists []. split; [reflexivity | constructor].
  - destruct IH as [t [Ht Hb]]. destruct e as [|x e]; [congruence|]. simpl. rewrite Ht. simpl.
    exists (x :: t). split; [reflexivity|]. constructor; [now left | exact Hb].
Qed.

Lemma good_box_length dom n l : Forall (good_box dom n) l -> Forall (fun b : box => length b = n) l.
Proof. apply Forall_impl. intros b H. apply H. Qed.

Lemma covered_vec_in dom n l v : Forall (good_box dom n) l -> covered l v -> vec_in dom n v.
Proof.
  intros Hg [b [Hb Hv]]. rewrite Forall_forall in Hg. destruct (Hg b Hb) as [Hl Hf].
  split; [rewrite <- Hl; now apply in_box_length|].
  clear Hl Hb Hg. unfold in_box in Hv. induction Hv as [|x e v r Hx Hv IH]; constructor.
  - apply Forall_inv in Hf. apply Hf, Hx.
  - apply IH. now apply Forall_inv_tail in Hf.
Qed.

Lemma first_covered dom n c : wf_choices dom n c -> (0 < n \/ c.(valid) <> []) ->
  match first c with
  | Ok (Some v) => covered c.(valid) v
  | Ok None => infinite c = true
  | Err _ => False
  end.
Proof.
  intros [Hi Hg] Hn. unfold first. destruct (infinite c) eqn:Einf; [reflexivity|].
  destruct (valid c) as [|b l] eqn:Ev.
  - unfold infinite in Einf. rewrite Ev, Hi in Einf. simpl in Einf.
    destruct Hn as [Hn|Hn]; [|congruence]. apply Z.ltb_ge in Einf. lia.
  - inversion Hg as [|? ? Hb Hl]; subst.
    destruct (firsts_in_box dom n b Hb) as [t [Ht Hin]]. rewrite Ht. simpl.
    exists b. split; [now left | exact Hin].
Qed.

Lemma infinite_covered dom n c : wf_choices dom n c -> 0 < n ->
  (infinite c = true <-> forall v, ~ covered c.(valid) v).
Proof.
  intros [Hi Hg] Hn. unfold infinite. rewrite Hi. split.
  - intros H v [b [Hb _]]. apply andb_true_iff in H. destruct H as [H _]. apply Nat.eqb_eq in H.
    destruct (valid c); [destruct Hb | discriminate].
  - intros H. apply andb_true_iff. split; [|apply Z.ltb_lt; lia].
    destruct (valid c) as [|b l] eqn:Ev; [reflexivity|]. exfalso.
    inversion Hg as [|? ? Hb Hl]; subst.
    destruct (firsts_in_box dom n b Hb) as [t [_ Hin]]. apply (H t). exists b. split; [now left | exact Hin].
Qed.

Lemma infinite_n0 dom c : wf_choices dom 0 c -> infinite c = false.
Proof. intros [Hi _]. unfold infinite. rewrite Hi. simpl. apply andb_false_r. Qed.

(* ---------- generate ---------- *)

Lemma wf_seqs_n0 dom S : wf_seqs dom 0 S -> S = [].
Proof.
  destruct S as [|s S']; [reflexivity|]. intros H. exfalso.
  destruct (H s (or_introl eq_refl)) as (Hne & _ & Hf). destruct s as [|d s]; [congruence|].
  apply Forall_inv in Hf. lia.
Qed.

Theorem generate_spec ord pick fuel dom n S c :
  ord_ok ord -> pick_ok pick -> NoDup dom -> dom <> [] -> wf_seqs dom n S ->
  generate ord pick fuel dom n S = Ok c ->
  wf_choices dom n c /\ (0 < n \/ c.(valid) <> []) /\
  forall v, covered c.(valid) v <-> vec_in dom n v /\ accepted S v.
Proof.
  intros Hord Hpick Hnd Hne Hwf H. unfold generate in H.
  destruct (simplify ord fuel dom S) as [S1|e] eqn:Es; [|discriminate]. simpl in H.
  destruct (simplify_ok ord fuel dom n S S1 Hord Es Hwf) as [Hw1 He1].
  assert (wf_seqs dom n (ord [4] S1)) as Hw2.
  { eapply wf_seqs_same_set; [|exact Hw1]. intros x. symmetry. apply Hord. }
  destruct (build_choices_spec pick dom n _ Hpick Hnd Hne Hw2) as [bs [Hb [Hc Hg]]].
  rewrite Hb in H. simpl in H. inversion H; subst c; clear H.
  assert (forall v, covered bs v <-> vec_in dom n v /\ accepted S v) as Hcov.
  { intros v. rewrite Hc. split; intros [Hv Ha]; (split; [exact Hv|]).
    - apply (proj2 (He1 v Hv)). eapply accepted_same_set; [|exact Ha]. apply Hord.
    - eapply accepted_same_set; [|apply (proj1 (He1 v Hv)), Ha]. intros x. symmetry. apply Hord. }
  rewrite valid_mk_choices. split; [|split; [|exact Hcov]].
  - split; [apply index_mk_choices; lia | rewrite valid_mk_choices; exact Hg].
  - destruct n as [|n]; [right | left; lia].
    assert (covered bs []) as [b [Hin _]].
    { apply Hcov. split; [split; [reflexivity | constructor]|].
      rewrite (wf_seqs_n0 _ _ Hwf). intros s []. }
    intros ->. destruct Hin.
Qed.

Section Generated.
  Context (ord : order) (pick : picker) (fuel : nat) (dom : list nat) (n : nat) (S : list dseq) (c : choices).
  Context (Hord : ord_ok ord) (Hpick : pick_ok pick) (Hnd : NoDup dom) (Hne : dom <> [])
          (Hwf : wf_seqs dom n S) (Hgen : generate ord pick fuel dom n S = Ok c).

  Lemma generated_facts :
    wf_choices dom n c /\ (0 < n \/ c.(valid) <> []) /\
    forall v, covered c.(valid) v <-> vec_in dom n v /\ accepted S v.
  Proof. eapply generate_spec; eauto. Qed.

  Theorem generate_is_valid v : length v = n ->
    (is_valid c v = true <-> vec_in dom n v /\ accepted S v).
  Proof.
    intros Hl. destruct generated_facts as ([_ Hg] & _ & Hc).
    rewrite (is_valid_covered n c v (good_box_length _ _ _ Hg) Hl). apply Hc.
  Qed.

  Theorem generate_all v : In v (all c) <-> vec_in dom n v /\ accepted S v.
  Proof. destruct generated_facts as (_ & _ & Hc). rewrite all_covered. apply Hc. Qed.

  Theorem generate_first :
    match first c with
    | Ok (Some v) => vec_in dom n v /\ accepted S v
    | Ok None => infinite c = true
    | Err _ => False
    end.
  Proof.
    destruct generated_facts as (Hw & Hn & Hc). pose proof (first_covered dom n c Hw Hn) as H.
    destruct (first c) as [[v|]|e]; auto. now apply Hc.
  Qed.

  Theorem generate_infinite :
    infinite c = true <-> forall v, vec_in dom n v -> ~ accepted S v.
  Proof.
    destruct generated_facts as (Hw & Hn & Hc). destruct (Nat.eq_dec n 0) as [Hn0|Hn0].
    - assert (wf_choices dom 0 c) as Hw0 by (rewrite <- Hn0; exact Hw).
      assert (S = []) as HS by (apply (wf_seqs_n0 dom); rewrite <- Hn0; exact Hwf).
      rewrite (infinite_n0 dom c Hw0). split; [discriminate|]. intros H. exfalso.
      apply (H []); [rewrite Hn0; split; [reflexivity | constructor]|]. rewrite HS. intros s [].
    - rewrite (infinite_covered dom n c Hw) by lia. split.
      + intros H v Hv Ha. apply (H v), Hc. auto.
      + intros H v Hv. apply Hc in Hv. destruct Hv as [Hv Ha]. apply (H v Hv Ha).
  Qed.

  Theorem generate_n0 : n = 0 -> infinite c = false /\ is_valid c [] = true /\ first c = Ok (Some []).
  Proof.
    intros Hn0. destruct generated_facts as (Hw & Hn & Hc).
    assert (wf_choices dom 0 c) as Hw0 by (rewrite <- Hn0; exact Hw).
    assert (S = []) as HS by (apply (wf_seqs_n0 dom); rewrite <- Hn0; exact Hwf).
    split; [apply (infinite_n0 dom c Hw0)|].
    assert (vec_in dom n [] /\ accepted S []) as Hacc.
    { rewrite Hn0, HS. split; [split; [reflexivity | constructor]|]. intros s []. }
    split; [apply generate_is_valid; [now rewrite Hn0 | exact Hacc]|].
    pose proof generate_first as Hf. destruct (first c) as [[v|]|e]; [| |destruct Hf].
    - destruct Hf as [[Hl _] _]. rewrite Hn0 in Hl. destruct v; [reflexivity | discriminate].
    - rewrite (infinite_n0 dom c Hw0) in Hf. discriminate.
  Qed.
End Generated.

(* ---------- intersection ---------- *)

Definition inter_tmp (a b : box) : box :=
  map (fun p => filter (fun ax => memb Nat.eqb ax (snd p)) (fst p)) (combine a b).

Lemma in_box_inter a b v : length a = length b ->
  (in_box v (inter_tmp a b) <-> in_box v a /\ in_box v b).
Proof.
  unfold in_box, inter_tmp. revert b v. induction a as [|ea a IH]; intros [|eb b] v Hl; simpl in *; try discriminate.
  - split; [intros H; inversion H; subst; split; constructor | intros [H _]; exact H].
  - split.
    + intros H. inversion H as [|x e v' r Hx Hf]; subst. apply filter_In in Hx. destruct Hx as [Hx1 Hx2].
      apply (memb_In _ Nat.eqb_eq) in Hx2. apply IH in Hf; [|lia]. destruct Hf. split; constructor; assumption.
    + intros [H1 H2]. inversion H1; subst. inversion H2; subst. constructor.
      * apply filter_In. split; [assumption | now apply (memb_In _ Nat.eqb_eq)].
      * apply IH; [lia | split; assumption].
Qed.

Lemma inter_tmp_length a b : length a = length b -> length (inter_tmp a b) = length a.
Proof. intros H. unfold inter_tmp. rewrite map_length, combine_length. lia. Qed.

Lemma inter_tmp_incl dom a b : Forall (fun e => incl e dom) a -> Forall (fun e => incl e dom) (inter_tmp a b).
Proof.
  unfold inter_tmp. revert b. induction a as [|ea a IH]; intros [|eb b] H; simpl; constructor.
  - intros x Hx. apply filter_In in Hx. apply Forall_inv in H. apply H, Hx.
  - apply IH. now apply Forall_inv_tail in H.
Qed.

Lemma vect_intersection_spec dom n a b : good_box dom n a -> length b = n ->
  match vect_intersection a b with
  | Some t => t = inter_tmp a b /\ good_box dom n t
  | None => forall v, ~ in_box v (inter_tmp a b)
  end.
Proof.
  intros [Hla Hfa] Hlb. unfold vect_intersection. fold (inter_tmp a b).
  destruct (existsb (fun x => length x =? 0) (inter_tmp a b)) eqn:E.
  - apply existsb_exists in E. destruct E as [e [He Hl]]. apply Nat.eqb_eq in Hl.
    destruct e; [|discriminate]. intros v Hv. unfold in_box in Hv.
    clear - He Hv. induction Hv as [|x e v r Hx Hv IH]; [destruct He|].
    destruct He as [->|He]; [destruct Hx | auto].
  - split; [reflexivity|]. split; [rewrite inter_tmp_length; lia|].
    assert (Forall (fun e => incl e dom) (inter_tmp a b)) as Hi.
    { apply inter_tmp_incl. eapply Forall_impl; [|exact Hfa]. intros e He. apply He. }
    apply Forall_forall. intros e He. split; [|rewrite Forall_forall in Hi; now apply Hi].
    intros ->. assert (existsb (fun x : list nat => length x =? 0) (inter_tmp a b) = true); [|congruence].
    apply existsb_exists. exists []. auto.
Qed.

Lemma not_none_In j t : In t (not_none j) <-> j = Some t.
Proof.
  destruct j as [b|]; simpl; split; try tauto.
  - intros [<-|[]]. reflexivity.
  - intros H. inversion H. now left.
  - discriminate.
Qed.

Theorem intersection_spec dom n c1 c2 : wf_choices dom n c1 -> wf_choices dom n c2 ->
  exists c, intersection c1 c2 = Ok c /\ wf_choices dom n c /\
    forall v, covered c.(valid) v <-> covered c1.(valid) v /\ covered c2.(valid) v.
Proof.
  intros [Hi1 Hg1] [Hi2 Hg2]. unfold intersection. rewrite Hi1, Hi2, Z.eqb_refl. simpl.
  eexists. split; [reflexivity|].
  set (vs := flat_map (fun v1 => flat_map (fun v2 => not_none (vect_intersection v1 v2)) (valid c2)) (valid c1)).
  assert (forall t, In t vs <-> exists a b, In a (valid c1) /\ In b (valid c2) /\ vect_intersection a b = Some t) as Hvs.
  { intros t. unfold vs. rewrite in_flat_map. split.
    - intros [a [Ha H]]. apply in_flat_map in H. destruct H as [b [Hb H]]. apply not_none_In in H.
      exists a, b. tauto.
    - intros (a & b & Ha & Hb & H). exists a. split; [exact Ha|]. apply in_flat_map. exists b.
      split; [exact Hb|]. now apply not_none_In. }
  rewrite Forall_forall in Hg1, Hg2.
  split; [split|].
  - apply index_mk_choices. lia.
  - rewrite valid_mk_choices. apply Forall_forall. intros t Ht. apply Hvs in Ht.
    destruct Ht as (a & b & Ha & Hb & H).
    pose proof (vect_intersection_spec dom n a b (Hg1 a Ha) (proj1 (Hg2 b Hb))) as Hs.
    rewrite H in Hs. apply Hs.
  - intros v. rewrite valid_mk_choices. unfold covered. split.
    + intros [t [Ht Hv]]. apply Hvs in Ht. destruct Ht as (a & b & Ha & Hb & H).
      pose proof (vect_intersection_spec dom n a b (Hg1 a Ha) (proj1 (Hg2 b Hb))) as Hs.
      rewrite H in Hs. destruct Hs as [-> _].
      apply in_box_inter in Hv; [|rewrite (proj1 (Hg1 a Ha)), (proj1 (Hg2 b Hb)); reflexivity].
      split; [exists a | exists b]; tauto.
    + intros [[a [Ha Hva]] [b [Hb Hvb]]].
      pose proof (vect_intersection_spec dom n a b (Hg1 a Ha) (proj1 (Hg2 b Hb))) as Hs.
      assert (in_box v (inter_tmp a b)) as Hv.
      { apply in_box_inter; [rewrite (proj1 (Hg1 a Ha)), (proj1 (Hg2 b Hb)); reflexivity | tauto]. }
      destruct (vect_intersection a b) as [t|] eqn:E; [|destruct (Hs v Hv)].
      destruct Hs as [-> _]. exists (inter_tmp a b). split; [|exact Hv]. apply Hvs. exists a, b. auto.
Qed.

(* intersection of two generated objects *)
Theorem generate_intersection ord1 ord2 pick1 pick2 fuel1 fuel2 dom n S1 S2 c1 c2 :
  ord_ok ord1 -> ord_ok ord2 -> pick_ok pick1 -> pick_ok pick2 -> NoDup dom -> dom <> [] ->
  wf_seqs dom n S1 -> wf_seqs dom n S2 ->
  generate ord1 pick1 fuel1 dom n S1 = Ok c1 -> generate ord2 pick2 fuel2 dom n S2 = Ok c2 ->
  exists c, intersection c1 c2 = Ok c /\
    (forall v, length v = n ->
       (is_valid c v = true <-> vec_in dom n v /\ accepted S1 v /\ accepted S2 v)) /\
    (forall v, In v (all c) <-> vec_in dom n v /\ accepted S1 v /\ accepted S2 v) /\
    (infinite c = true <-> forall v, vec_in dom n v -> ~ (accepted S1 v /\ accepted S2 v)) /\
    match first c with
    | Ok (Some v) => vec_in dom n v /\ accepted S1 v /\ accepted S2 v
    | Ok None => infinite c = true
    | Err _ => False
    end.
Proof.
  intros Ho1 Ho2 Hp1 Hp2 Hnd Hne Hw1 Hw2 G1 G2.
  destruct (generate_spec _ _ _ _ _ _ _ Ho1 Hp1 Hnd Hne Hw1 G1) as (Hc1 & _ & Hcov1).
  destruct (generate_spec _ _ _ _ _ _ _ Ho2 Hp2 Hnd Hne Hw2 G2) as (Hc2 & _ & Hcov2).
  destruct (intersection_spec dom n c1 c2 Hc1 Hc2) as [c [Hi [Hwc Hcov]]].
  exists c. split; [exact Hi|].
  assert (forall v, covered (valid c) v <-> vec_in dom n v /\ accepted S1 v /\ accepted S2 v) as Hc.
  { intros v. rewrite Hcov, Hcov1, Hcov2. tauto. }
  assert (n = 0 -> covered (valid c) []) as Hn0.
  { intros ->. apply Hc. split; [split; [reflexivity | constructor]|].
    rewrite (wf_seqs_n0 _ _ Hw1), (wf_seqs_n0 _ _ Hw2). split; intros s []. }
  split; [|split; [|split]].
  - intros v Hl. rewrite (is_valid_covered n c v (good_box_length _ _ _ (proj2 Hwc)) Hl). apply Hc.
  - intros v. rewrite all_covered. apply Hc.
  - destruct (Nat.eq_dec n 0) as [E|E].
    + assert (infinite c = false) as -> by (apply (infinite_n0 dom); rewrite <- E; exact Hwc).
      split; [discriminate|]. intros H. exfalso. apply Hc in Hn0; [|exact E].
      apply (H [] (proj1 Hn0) (proj2 Hn0)).
    + rewrite (infinite_covered dom n c Hwc) by lia. split.
      * intros H v Hv Ha. apply (H v), Hc. tauto.
      * intros H v Hv. apply Hc in Hv. apply (H v); tauto.
  - assert (0 < n \/ valid c <> []) as Hn.
    { destruct (Nat.eq_dec n 0) as [E|E]; [right | left; lia].
      destruct (Hn0 E) as [b [Hb _]]. intros E'. rewrite E' in Hb. destruct Hb. }
    pose proof (first_covered dom n c Hwc Hn) as H.
    destruct (first c) as [[v|]|e]; auto. now apply Hc.
Qed.

(* n = 0 explicitly: the intersection of two length-0 objects accepts the empty vector *)
Theorem intersection_n0_ok :
  exists c1 c,
    generate ord_id pick_head 5 [0; 1; 2] 0 [] = Ok c1 /\ is_valid c1 [] = true /\
    intersection c1 c1 = Ok c /\ is_valid c [] = true /\ all c = [[]] /\ infinite c = false /\
    first c = Ok (Some []).
Proof. eexists. eexists. vm_compute. repeat split; reflexivity. Qed.

(* regression: with the filter as it was before fix df06735 (`if j`, an empty tuple is falsy) the only
   vector of dom^0 is dropped *)
Theorem intersection_truthy_n0_refuted :
  exists c1 c,
    generate ord_id pick_head 5 [0; 1; 2] 0 [] = Ok c1 /\ is_valid c1 [] = true /\
    intersection_truthy c1 c1 = Ok c /\ is_valid c [] = false /\ all c = [] /\ infinite c = false /\
    first c = Err IndexError.
Proof. eexists. eexists. vm_compute. repeat split; reflexivity. Qed.

(* ---------- the hypotheses are satisfiable: the documentation example of choice.py ---------- *)

Example wf_example : wf_seqs [0; 1; 2] 3 [[(0, 0); (2, 1)]; [(1, 1)]].
Proof.
  intros s [<-|[<-|[]]]; (split; [discriminate|]); split;
    repeat (constructor; simpl; unfold dlt; simpl; try lia; auto 6).
Qed.

Example generate_example :
  generate ord_id pick_head 10 [0; 1; 2] 3 [[(0, 0); (2, 1)]; [(1, 1)]] =
  Ok (mkC [[[1; 2]; [0; 2]; [0; 1; 2]]; [[0; 1; 2]; [0]; [0; 1; 2]]] 3).
Proof. vm_compute. reflexivity. Qed.
