(* Relation.fixpoint TERMINATES: for every well-formed relation there is a fuel for which the model's
   loop returns.
   Argument: every cell of every iterate fix_k is a strictly sorted antichain in normal form
   ([Poly_anti.good]); fix_{k+1} = fix_k + current_{k+1} cell-wise, and Polynomial.add only makes the set
   of monomials dominated by a cell grow ([padd_dom_mono]); two good cells dominating the same monomials
   are syntactically equal ([good_eq]).  All monomials that ever occur live in a finite universe (sorted
   delta lists over the deltas of the relation, [Ulist]), so the number of (cell, monomial-of-the-universe)
   pairs with "the cell dominates the monomial" is bounded, never decreases, and strictly increases at
   every iteration that does not exit. *)
From Coq Require Import String List Bool Arith Lia.
From PM Require Import Semiring Poly Poly_sem Poly_add Poly_times Rel Analysis Calculus Rel_sem
  Poly_wf Poly_dom Poly_anti.
From PM Require Import Rel_hom.
From PM Require Rel_ops Rel_ops_closed Rel_fix Rel_dom.
Import ListNotations.
Open Scope list_scope.

(* ------------------------------------------------------------------ *)
(* generic list facts                                                  *)
(* ------------------------------------------------------------------ *)

Lemma filt_len_le {A} (f : A -> bool) l : length (filter f l) <= length l.
Proof. induction l as [|a t IH]; simpl; [lia|]. destruct (f a); simpl; lia. Qed.

Lemma filt_len_mono {A} (f g : A -> bool) l :
  (forall x, In x l -> f x = true -> g x = true) -> length (filter f l) <= length (filter g l).
Proof.
  induction l as [|a t IH]; intros H; simpl; [lia|].
  assert (IH' : length (filter f t) <= length (filter g t)) by (apply IH; intros x Hx; apply H; right; exact Hx).
  destruct (f a) eqn:Ef.
  - rewrite (H a (or_introl eq_refl) Ef). simpl. lia.
  - destruct (g a); simpl; lia.
Qed.

Lemma filt_len_lt {A} (f g : A -> bool) l :
  (forall x, In x l -> f x = true -> g x = true) ->
  (exists x, In x l /\ f x = false /\ g x = true) ->
  length (filter f l) < length (filter g l).
Proof.
  induction l as [|a t IH]; intros H [x [Hx [Hf Hg]]]; [destruct Hx|].
  assert (Ht : forall y, In y t -> f y = true -> g y = true) by (intros y Hy; apply H; right; exact Hy).
  simpl. destruct Hx as [->|Hx].
  - rewrite Hf, Hg. simpl. pose proof (filt_len_mono f g t Ht). lia.
  - assert (IH' : length (filter f t) < length (filter g t)) by (apply IH; [exact Ht | exists x; tauto]).
    destruct (f a) eqn:Ef.
    + rewrite (H a (or_introl eq_refl) Ef). simpl. lia.
    + destruct (g a); simpl; lia.
Qed.

Lemma Forall_bound {A} (P : nat -> A -> Prop) :
  (forall n m x, n <= m -> P n x -> P m x) ->
  forall l, (forall x, In x l -> exists n, P n x) -> exists n, Forall (P n) l.
Proof.
  intros Hm. induction l as [|a t IH]; intros H.
  - exists 0. constructor.
  - destruct (H a (or_introl eq_refl)) as [n1 H1].
    destruct IH as [n2 H2]; [intros x Hx; apply H; right; exact Hx|].
    exists (Nat.max n1 n2). constructor.
    + apply (Hm n1); [lia | exact H1].
    + eapply Forall_impl; [|exact H2]. intros x. apply Hm. lia.
Qed.

Lemma Forall_lift_mono {A} (P : nat -> A -> Prop) :
  (forall n m x, n <= m -> P n x -> P m x) ->
  forall n m l, n <= m -> Forall (P n) l -> Forall (P m) l.
Proof. intros Hm n m l Hle. apply Forall_impl. intros x. apply Hm. exact Hle. Qed.

(* ------------------------------------------------------------------ *)
(* Polynomial.equal and the matrix comparison are reflexive            *)
(* ------------------------------------------------------------------ *)

Lemma list_eqb_refl' {A} (e : A -> A -> bool) : (forall a, e a a = true) -> forall l, list_eqb e l l = true.
Proof. intros H. induction l as [|a t IH]; simpl; [reflexivity|]. rewrite H, IH. reflexivity. Qed.

Lemma poly_eqb_refl' p : poly_eqb p p = true.
Proof.
  apply list_eqb_refl'. intros m. unfold mono_eqb. rewrite sc_eqb_refl. cbn [andb].
  apply list_eqb_refl'. apply delta_eqb_refl.
Qed.

Lemma rows_eqb_refl a : rows_eqb a a = true.
Proof. induction a as [|x s IH]; simpl; [reflexivity|]. rewrite poly_eqb_refl', IH. reflexivity. Qed.

Lemma mats_eqb_refl a : mats_eqb a a = true.
Proof. induction a as [|x s IH]; simpl; [reflexivity|]. rewrite rows_eqb_refl, IH. reflexivity. Qed.

Lemma subset_str_refl l : subset_str l l = true.
Proof. unfold subset_str. apply forallb_forall. intros x Hx. apply mem_strb_In. exact Hx. Qed.

Lemma rel_equal_same_mat a b : rvars a = rvars b -> rmat a = rmat b -> rel_equal a b = true.
Proof.
  intros Ev Em. unfold rel_equal. rewrite Ev, subset_str_refl. cbn [andb negb].
  rewrite (Rel_fix.hom_same a b Ev). rewrite Em. apply mats_eqb_refl.
Qed.

(* a matrix of the right shape is the table of its cells *)
Lemma mat_eta (m : matrix) n k :
  length m = n -> Forall (fun row => length row = k) m -> m = build n k (mget m).
Proof.
  intros Hn Hk. apply (nth_ext _ _ [] []).
  - rewrite build_length. exact Hn.
  - intros i Hi. unfold build. rewrite (nth_map_seq _ _ n 0 i) by lia. cbn [Nat.add].
    assert (Hrow : length (nth i m []) = k).
    { rewrite Forall_forall in Hk. apply Hk. apply nth_In. exact Hi. }
    apply (nth_ext _ _ zero_poly zero_poly).
    + rewrite map_length, seq_length. exact Hrow.
    + intros j Hj. rewrite (nth_map_seq _ _ k 0 j) by lia. reflexivity.
Qed.

Lemma build_ext n k f g : (forall i j, i < n -> j < k -> f i j = g i j) -> build n k f = build n k g.
Proof.
  intros H. unfold build. apply map_ext_in. intros i Hi. apply in_seq in Hi.
  apply map_ext_in. intros j Hj. apply in_seq in Hj. apply H; lia.
Qed.

(* ------------------------------------------------------------------ *)
(* the finite universe of monomials                                    *)
(* ------------------------------------------------------------------ *)

Definition QB (B : nat) (d : delta) : Prop := fst d < B /\ snd d < B.

(* all sorted delta lists with indices in [lo, lo+k) and values below B *)
Fixpoint gen (B k lo : nat) : list (list delta) :=
  match k with
  | 0 => [[]]
  | S k' => gen B k' (S lo) ++
            flat_map (fun v => map (cons (v, lo)) (gen B k' (S lo))) (seq 0 B)
  end.

Lemma gen_complete B k : forall lo l, dsorted l ->
  (forall d, In d l -> fst d < B /\ lo <= snd d < lo + k) -> In l (gen B k lo).
Proof.
  induction k as [|k IH]; intros lo l Hs Hr; cbn [gen].
  - destruct l as [|d t]; [left; reflexivity|].
    specialize (Hr d (or_introl eq_refl)). lia.
  - destruct l as [|[v i] t].
    + apply in_or_app. left. apply IH; [exact Logic.I | intros d []].
    + pose proof (dsorted_all_gt _ _ Hs) as G. cbn [snd] in G.
      pose proof (Hr (v, i) (or_introl eq_refl)) as Hvi. cbn [fst snd] in Hvi.
      apply dsorted_cons in Hs. destruct Hs as [_ Hs].
      apply in_or_app. destruct (Nat.eq_dec i lo) as [->|Hne].
      * right. apply in_flat_map. exists v. split; [apply in_seq; lia|].
        apply in_map. apply IH; [exact Hs|].
        intros d Hd. specialize (G d Hd). specialize (Hr d (or_intror Hd)). lia.
      * left. apply IH.
        -- apply dsorted_cons. split; [|exact Hs]. destruct t as [|e t']; [exact Logic.I|].
           apply (G e). left. reflexivity.
        -- intros d [<-|Hd]; [cbn [fst snd]; lia|].
           specialize (G d Hd). specialize (Hr d (or_intror Hd)). lia.
Qed.

Definition Ulist (B : nat) : list mono :=
  flat_map (fun l => map (fun s => Mono s l) all_sc) (gen B B 0).

Lemma Ulist_complete B m : mwf m -> mQ (QB B) m -> In m (Ulist B).
Proof.
  intros Hw Hq. destruct m as [s l]. unfold mwf, mQ in *. cbn [ds] in *.
  unfold Ulist. apply in_flat_map. exists l. split.
  - apply gen_complete; [exact Hw|]. intros d Hd. rewrite Forall_forall in Hq.
    destruct (Hq d Hd). lia.
  - apply in_map_iff. exists s. split; [reflexivity | apply all_sc_complete].
Qed.

Lemma QB_mono n m d : n <= m -> QB n d -> QB m d.
Proof. unfold QB. lia. Qed.

(* the deltas of any relation are bounded *)
Lemma rQ_bound r : exists B, Rel_dom.rQ (QB B) r.
Proof.
  unfold Rel_dom.rQ, pQ, mQ.
  apply (Forall_bound (fun n row => Forall (fun p => Forall (fun m => Forall (QB n) (ds m)) p) row)).
  { intros n m row Hle. apply Forall_impl. intros p. apply Forall_impl. intros mo.
    apply Forall_impl. intros d. apply QB_mono. exact Hle. }
  intros row _.
  apply (Forall_bound (fun n p => Forall (fun m => Forall (QB n) (ds m)) p)).
  { intros n m p Hle. apply Forall_impl. intros mo.
    apply Forall_impl. intros d. apply QB_mono. exact Hle. }
  intros p _.
  apply (Forall_bound (fun n m => Forall (QB n) (ds m))).
  { intros n m mo Hle. apply Forall_impl. intros d. apply QB_mono. exact Hle. }
  intros mo _.
  apply (Forall_bound QB); [intros n m d; apply QB_mono|].
  intros d _. exists (S (Nat.max (fst d) (snd d))). unfold QB. lia.
Qed.

(* ------------------------------------------------------------------ *)
(* fuel monotonicity                                                   *)
(* ------------------------------------------------------------------ *)

Lemma fix_loop_fuel_mono self fuel : forall fx cur f,
  fix_loop fuel self fx cur = Some f -> forall k, fix_loop (fuel + k) self fx cur = Some f.
Proof.
  induction fuel as [|fuel IH]; intros fx cur f H k; cbn [fix_loop] in H; [discriminate|].
  cbn [Nat.add fix_loop]. cbv zeta in *.
  destruct (rel_equal (rel_sum fx (rel_comp cur self)) fx); [exact H | apply IH; exact H].
Qed.

Lemma rel_fixpoint_fuel_mono fuel fuel' r f :
  rel_fixpoint fuel r = Some f -> fuel <= fuel' -> rel_fixpoint fuel' r = Some f.
Proof.
  unfold rel_fixpoint. cbv zeta. intros H Hle.
  replace fuel' with (fuel + (fuel' - fuel)) by lia. apply fix_loop_fuel_mono. exact H.
Qed.

(* ------------------------------------------------------------------ *)
(* the loop                                                            *)
(* ------------------------------------------------------------------ *)

Section Loop.

Variable r : rel.
Hypothesis Wr : wf_rel r.
Hypothesis Pr : rel_pwf r.
Variable B : nat.
Hypothesis Qr : Rel_dom.rQ (QB B) r.

Let V := rvars r.
Let n := length V.

(* what holds of (fix, current) at the top of every iteration *)
Definition St (fx cur : rel) : Prop :=
  wf_rel fx /\ wf_rel cur /\ rel_pwf fx /\ rel_pwf cur /\ rvars fx = V /\ rvars cur = V /\
  Rel_dom.rQ (QB B) fx /\ Rel_dom.rQ (QB B) cur /\
  (forall i j, i < n -> j < n -> good (mget (rmat fx) i j)).

Lemma st_start : St (rel_identity V) (rel_identity V).
Proof.
  destruct Wr as (ND & NE & _).
  destruct (rel_identity_sem V (Rel [] []) ND NE eq_refl) as (Ws & Vs & _ & Ps).
  pose proof (Rel_dom.rel_identity_rQ (QB B) V) as Qs.
  unfold St. repeat (split; [assumption|]).
  intros i j Hi Hj. rewrite (rel_identity_eq V NE). cbn [rmat].
  rewrite mget_build by assumption.
  destruct (Nat.eqb i j); [apply good_unit_poly | apply good_zero_poly].
Qed.

Lemma st_step fx cur : St fx cur ->
  St (rel_sum fx (rel_comp cur r)) (rel_comp cur r) /\
  rmat (rel_sum fx (rel_comp cur r)) =
    build n n (fun i j => padd (mget (rmat fx) i j) (mget (rmat (rel_comp cur r)) i j)).
Proof.
  intros (Wf & Wc & Pf & Pc & Vf & Vc & Qf & Qc & Gf).
  destruct (Rel_ops_closed.rel_comp_sem cur r Wc Wr Pc Pr) as (Wc' & Pc' & _ & _).
  assert (Vc' : rvars (rel_comp cur r) = V).
  { rewrite (Rel_fix.rel_comp_vars cur r Wc Vc). exact Vc. }
  destruct (Rel_ops_closed.rel_sum_sem fx (rel_comp cur r) Wf Wc') as (Wf' & _ & _ & Pf').
  pose proof (Rel_fix.rel_sum_same fx (rel_comp cur r) Wf (eq_trans Vf (eq_sym Vc'))) as Es.
  rewrite Vf in Es. fold n in Es.
  assert (Qc' : Rel_dom.rQ (QB B) (rel_comp cur r)) by (apply Rel_dom.rel_comp_rQ; assumption).
  assert (Qf' : Rel_dom.rQ (QB B) (rel_sum fx (rel_comp cur r))) by (apply Rel_dom.rel_sum_rQ; assumption).
  split.
  - unfold St.
    split; [exact Wf'|]. split; [exact Wc'|]. split; [exact (Pf' Pf Pc')|]. split; [exact Pc'|].
    split; [rewrite Es; reflexivity|]. split; [exact Vc'|]. split; [exact Qf'|]. split; [exact Qc'|].
    intros i j Hi Hj. rewrite Es. cbn [rmat]. rewrite mget_build by assumption.
    assert (Hq : pwf (mget (rmat (rel_comp cur r)) i j)).
    { apply rel_pwf_mget; try assumption; rewrite Vc'; assumption. }
    apply padd_good; [apply Gf; assumption | exact (proj1 Hq) | exact (proj2 Hq)].
  - rewrite Es. reflexivity.
Qed.

(* the measure *)
Definition Lm : list (nat * (nat * mono)) := list_prod (seq 0 n) (list_prod (seq 0 n) (Ulist B)).

Definition test (fx : rel) (x : nat * (nat * mono)) : bool :=
  negb (is_O (sc (snd (snd x)))) && domb (mget (rmat fx) (fst x) (fst (snd x))) (snd (snd x)).

Definition mu (fx : rel) : nat := length (filter (test fx) Lm).

Lemma Lm_In i j u : In (i, (j, u)) Lm <-> i < n /\ j < n /\ In u (Ulist B).
Proof.
  unfold Lm. rewrite !in_prod_iff, !in_seq. split; intros H; repeat split; try tauto; lia.
Qed.

Lemma nz_spec s : negb (is_O s) = true <-> s <> O.
Proof. destruct s; simpl; split; intros H; congruence. Qed.

Lemma step_progress fx cur : St fx cur ->
  let fx' := rel_sum fx (rel_comp cur r) in
  (forall x, In x Lm -> test fx x = true -> test fx' x = true) /\
  (rel_equal fx' fx = true \/ exists x, In x Lm /\ test fx x = false /\ test fx' x = true).
Proof.
  intros HS. cbv zeta. destruct (st_step fx cur HS) as [HS' Em].
  destruct HS as (Wf & Wc & Pf & Pc & Vf & Vc & Qf & Qc & Gf).
  destruct HS' as (Wf' & Wc' & Pf' & Pc' & Vf' & Vc' & Qf' & Qc' & Gf').
  set (cur' := rel_comp cur r) in *. set (fx' := rel_sum fx cur') in *.
  assert (Hcell : forall i j, i < n -> j < n ->
            mget (rmat fx') i j = padd (mget (rmat fx) i j) (mget (rmat cur') i j)).
  { intros i j Hi Hj. rewrite Em. apply mget_build; assumption. }
  assert (Hq : forall i j, i < n -> j < n -> mget (rmat cur') i j <> []).
  { intros i j Hi Hj. apply (proj1 (rel_pwf_mget cur' i j Wc' Pc' ltac:(rewrite Vc'; exact Hi) ltac:(rewrite Vc'; exact Hj))). }
  assert (Hmono : forall x, In x Lm -> test fx x = true -> test fx' x = true).
  { intros [i [j u]] Hx Ht. apply Lm_In in Hx. destruct Hx as (Hi & Hj & _).
    unfold test in *. cbn [fst snd] in *. apply andb_true_iff in Ht. destruct Ht as [Hnz Hd].
    apply andb_true_iff. split; [exact Hnz|]. apply domb_spec. rewrite (Hcell i j Hi Hj).
    apply padd_dom_mono; [apply Gf; assumption | apply Hq; assumption | apply nz_spec; exact Hnz |].
    left. apply domb_spec. exact Hd. }
  split; [exact Hmono|].
  destruct (existsb (fun x => negb (test fx x) && test fx' x) Lm) eqn:Ex.
  - right. apply existsb_exists in Ex. destruct Ex as [x [Hx Ht]].
    apply andb_true_iff in Ht. destruct Ht as [H1 H2]. exists x.
    split; [exact Hx|]. split; [destruct (test fx x); [discriminate | reflexivity] | exact H2].
  - left.
    assert (Hback : forall x, In x Lm -> test fx' x = true -> test fx x = true).
    { intros x Hx Ht. destruct (test fx x) eqn:E; [reflexivity|]. exfalso.
      assert (existsb (fun x => negb (test fx x) && test fx' x) Lm = true) as Hc.
      { apply existsb_exists. exists x. split; [exact Hx|]. rewrite E, Ht. reflexivity. }
      congruence. }
    apply rel_equal_same_mat; [congruence|].
    rewrite Em.
    destruct Wf as (_ & _ & Lf & Rf). rewrite Vf in Lf, Rf. fold n in Lf, Rf.
    etransitivity; [|symmetry; exact (mat_eta (rmat fx) n n Lf Rf)].
    apply build_ext. intros i j Hi Hj. symmetry.
    pose proof (Gf i j Hi Hj) as Gp. pose proof (Gf' i j Hi Hj) as Gp'.
    rewrite (Hcell i j Hi Hj) in Gp'.
    apply good_eq; [exact Gp | exact Gp' | |].
    + intros x Hx Hnz. apply padd_dom_mono; [exact Gp | apply Hq; assumption | exact Hnz |].
      left. apply dom_by_self. exact Hx.
    + intros x Hx Hnz.
      assert (Hu : In x (Ulist B)).
      { apply Ulist_complete.
        - destruct Gp' as (_ & _ & _ & W). rewrite Forall_forall in W. apply W, Hx.
        - pose proof (Rel_dom.mget_pQ (QB B) (rmat fx') i j Qf') as HQ.
          rewrite (Hcell i j Hi Hj) in HQ. unfold pQ in HQ. rewrite Forall_forall in HQ. apply HQ, Hx. }
      assert (Hin : In (i, (j, x)) Lm) by (apply Lm_In; tauto).
      assert (Ht : test fx' (i, (j, x)) = true).
      { unfold test. cbn [fst snd]. apply andb_true_iff. split; [apply nz_spec; exact Hnz|].
        apply domb_spec. rewrite (Hcell i j Hi Hj). apply dom_by_self. exact Hx. }
      pose proof (Hback _ Hin Ht) as Hb. unfold test in Hb. cbn [fst snd] in Hb.
      apply andb_true_iff in Hb. apply domb_spec. exact (proj2 Hb).
Qed.

Lemma loop_terminates : forall k fx cur, St fx cur -> length Lm - mu fx <= k ->
  exists fuel f, fix_loop fuel r fx cur = Some f.
Proof.
  induction k as [|k IH]; intros fx cur HS Hk.
  - destruct (step_progress fx cur HS) as [Hmono [Heq|Hex]].
    + exists 1, (rel_sum fx (rel_comp cur r)). cbn [fix_loop]. rewrite Heq. reflexivity.
    + exfalso. pose proof (filt_len_lt _ _ Lm Hmono Hex) as Hlt.
      pose proof (filt_len_le (test (rel_sum fx (rel_comp cur r))) Lm) as Hle.
      unfold mu in Hk. lia.
  - destruct (rel_equal (rel_sum fx (rel_comp cur r)) fx) eqn:E.
    + exists 1, (rel_sum fx (rel_comp cur r)). cbn [fix_loop]. rewrite E. reflexivity.
    + destruct (step_progress fx cur HS) as [Hmono [Heq|Hex]]; [congruence|].
      pose proof (filt_len_lt _ _ Lm Hmono Hex) as Hlt.
      destruct (IH _ _ (proj1 (st_step fx cur HS))) as [fuel [f Hf]]; [unfold mu in *; lia|].
      exists (S fuel), f. cbn [fix_loop]. rewrite E. exact Hf.
Qed.

Lemma rel_fixpoint_terminates_bounded : exists fuel f, rel_fixpoint fuel r = Some f.
Proof.
  unfold rel_fixpoint. cbv zeta.
  change (mk_rel (rvars r) (identity_matrix (length (rvars r)))) with (rel_identity V).
  apply (loop_terminates (length Lm)); [apply st_start | lia].
Qed.

End Loop.

(* ------------------------------------------------------------------ *)
(* the theorem                                                         *)
(* ------------------------------------------------------------------ *)

Theorem rel_fixpoint_terminates : forall r, wf_rel r -> rel_pwf r ->
  exists fuel f, rel_fixpoint fuel r = Some f.
Proof.
  intros r Wr Pr. destruct (rQ_bound r) as [B HB].
  exact (rel_fixpoint_terminates_bounded r Wr Pr B HB).
Qed.

(* with the semantics of the result (Rel_fix_closed) this yields total correctness; and any larger fuel
   returns the same relation *)
Corollary rel_fixpoint_terminates_stable : forall r, wf_rel r -> rel_pwf r ->
  exists fuel f, forall fuel', fuel <= fuel' -> rel_fixpoint fuel' r = Some f.
Proof.
  intros r Wr Pr. destruct (rel_fixpoint_terminates r Wr Pr) as [fuel [f H]].
  exists fuel, f. intros fuel' Hle. exact (rel_fixpoint_fuel_mono fuel fuel' r f H Hle).
Qed.

(* ------------------------------------------------------------------ *)
(* the two relations the analysis applies fixpoint to                  *)
(* ------------------------------------------------------------------ *)

Lemma wf_rel_empty' : wf_rel rel_empty /\ rel_pwf rel_empty.
Proof.
  change rel_empty with (Rel [] []). unfold wf_rel, rel_pwf. cbn [rvars rmat length].
  repeat split; constructor.
Qed.

Lemma wf_rel_zero1 x : wf_rel (rel_zero [x]) /\ rel_pwf (rel_zero [x]).
Proof.
  unfold rel_zero, mk_rel. cbn [filter]. destruct (nonempty_str x) eqn:E.
  - assert (Hx : x <> EmptyString).
    { intros ->. discriminate E. }
    unfold wf_rel, rel_pwf. cbn [rvars rmat length]. change (init_matrix 1) with [[zero_poly]].
    repeat split.
    + constructor; [intros [] | constructor].
    + constructor; [exact Hx | constructor].
    + constructor; [reflexivity | constructor].
    + constructor; [|constructor]. constructor; [apply zero_poly_pwf | constructor].
  - unfold wf_rel, rel_pwf. cbn [rvars rmat length]. change (init_matrix 0) with (@nil (list poly)).
    repeat split; constructor.
Qed.

Theorem rel_fixpoint_total_for_analysis : forall body x, wf_rel body -> rel_pwf body ->
  (exists fuel f, rel_fixpoint fuel (rel_comp rel_empty body) = Some f) /\
  (exists fuel f, rel_fixpoint fuel (rel_comp (rel_zero [x]) body) = Some f).
Proof.
  intros body x Wb Pb. split.
  - destruct wf_rel_empty' as [We Pe].
    destruct (Rel_ops_closed.rel_comp_sem rel_empty body We Wb Pe Pb) as (W & P & _).
    exact (rel_fixpoint_terminates _ W P).
  - destruct (wf_rel_zero1 x) as [Wz Pz].
    destruct (Rel_ops_closed.rel_comp_sem (rel_zero [x]) body Wz Wb Pz Pb) as (W & P & _).
    exact (rel_fixpoint_terminates _ W P).
Qed.

(* non-vacuity: the example relation of Rel_fix.v (choice-dependent cells; the loop runs three rounds) *)
Example ex_terminates :
  (exists fuel f, rel_fixpoint fuel Rel_fix.ex_r = Some f) /\
  rel_fixpoint 2 Rel_fix.ex_r = None /\ rel_fixpoint 3 Rel_fix.ex_r <> None.
Proof.
  split; [|split].
  - exact (rel_fixpoint_terminates _ (proj1 Rel_fix.ex_r_hyps) (proj2 Rel_fix.ex_r_hyps)).
  - vm_compute. reflexivity.
  - vm_compute. discriminate.
Qed.

Print Assumptions Ulist_complete.
Print Assumptions rQ_bound.
Print Assumptions rel_fixpoint_fuel_mono.
Print Assumptions step_progress.
Print Assumptions loop_terminates.
Print Assumptions rel_fixpoint_terminates.
Print Assumptions rel_fixpoint_terminates_stable.
Print Assumptions rel_fixpoint_total_for_analysis.
Print Assumptions ex_terminates.
