(* Executable, code-shaped model of pymwp/matrix.py, relation.py and relation_list.py
   (a RelationList always holds exactly one relation in the analysis; we model that relation). *)
From Coq Require Import String List Bool Arith Lia.
From PM Require Import Semiring Poly.
From PMGen Require Import RulesGen.
Import ListNotations.

Definition matrix := list (list poly).

Definition unit_poly : poly := [Mono M []].       (* matrix.UNIT *)

Definition mget (m : matrix) (i j : nat) : poly := nth j (nth i m []) zero_poly.

Definition build (n k : nat) (f : nat -> nat -> poly) : matrix :=
  map (fun i => map (fun j => f i j) (seq 0 k)) (seq 0 n).

Definition init_matrix (n : nat) : matrix := build n n (fun _ _ => zero_poly).

Definition identity_matrix (n : nat) : matrix :=
  build n n (fun i j => if Nat.eqb i j then unit_poly else zero_poly).

(* matrix.resize *)
Definition resize (m : matrix) (new_size : nat) : matrix :=
  let b := Nat.min new_size (length m) in
  build new_size new_size (fun i j =>
    if Nat.ltb i b && Nat.ltb j b then mget m i j
    else if Nat.eqb i j then unit_poly else zero_poly).

(* matrix.matrix_sum: both ranges are range(len(matrix1)) *)
Definition matrix_sum (m1 m2 : matrix) : matrix :=
  build (length m1) (length m1) (fun i j => padd (mget m1 i j) (mget m2 i j)).

(* matrix.matrix_prod: reduce(lambda total, k: total + m1[i][k] * m2[k][j], range(len(m1)), ZERO) *)
Definition prod_entry (m1 m2 : matrix) (i j : nat) : poly :=
  fold_left (fun total k => padd total (ptimes (mget m1 i k) (mget m2 k j))) (seq 0 (length m1)) zero_poly.

Definition matrix_prod (m1 m2 : matrix) : matrix :=
  build (length m1) (length m2) (prod_entry m1 m2).

Definition set_cell (m : matrix) (i j : nat) (p : poly) : matrix :=
  list_update m i (fun row => list_update row j (fun _ => p)).

(* ---------------- Relation ---------------- *)

Record rel := Rel { rvars : list string; rmat : matrix }.

Definition nonempty_str (s : string) : bool := negb (String.eqb s "").

(* Relation(variables, matrix): falsy names are dropped; `matrix or init_matrix(len(vars))` *)
Definition mk_rel (vars : list string) (mat : matrix) : rel :=
  let vs := filter nonempty_str vars in
  Rel vs (match mat with [] => init_matrix (length vs) | _ => mat end).

Definition rel_empty : rel := mk_rel [] [].                 (* Relation() *)
Definition rel_zero (vars : list string) : rel := mk_rel vars [].   (* Relation(vars) *)

(* Relation.identity(variables): identity matrix of len(variables) BEFORE the falsy filter *)
Definition rel_identity (vars : list string) : rel := mk_rel vars (identity_matrix (length vars)).

Definition is_nilb {A} (l : list A) : bool := match l with [] => true | _ => false end.

Definition rel_is_empty (r : rel) : bool := is_nilb (rvars r) || is_nilb (rmat r).

Fixpoint index_of_str (x : string) (l : list string) : option nat :=
  match l with
  | [] => None
  | h :: t => if String.eqb x h then Some 0 else option_map S (index_of_str x t)
  end.

Definition mem_strb (x : string) (l : list string) : bool :=
  match index_of_str x l with Some _ => true | None => false end.

Definition list_str_eqb (a b : list string) : bool := list_eqb String.eqb a b.

(* Relation.replace_column(vector, variable): None = IndexError (vector longer than the matrix) *)
Fixpoint put_column (m : matrix) (j : nat) (idx : nat) (vector : list poly) : option matrix :=
  match vector with
  | [] => Some m
  | v :: t => if Nat.ltb idx (length m) && Nat.ltb j (length (nth idx m []))
              then put_column (set_cell m idx j v) j (S idx) t else None
  end.

Definition replace_column (r : rel) (vector : list poly) (x : string) : option rel :=
  let nr := rel_identity (rvars r) in
  match index_of_str x (rvars r) with
  | Some j => match put_column (rmat nr) j 0 vector with
              | Some m => Some (Rel (rvars nr) m)
              | None => None
              end
  | None => Some nr
  end.

(* Relation.homogenisation *)
Definition homogenisation (r1 r2 : rel) : rel * rel :=
  if list_str_eqb (rvars r1) (rvars r2) then (r1, r2)
  else if rel_is_empty r1 then (rel_identity (rvars r2), r2)
  else if rel_is_empty r2 then (r1, rel_identity (rvars r1))
  else
    let ext := (rvars r1 ++ filter (fun v => negb (mem_strb v (rvars r1))) (rvars r2))%list in
    let n := length ext in
    let m1 := resize (rmat r1) n in
    (* matrix2[mi][mj] = r2.matrix[ri][rj] for variables of r2, identity elsewhere *)
    let m2 := build n n (fun mi mj =>
                match index_of_str (nth mi ext ""%string) (rvars r2), index_of_str (nth mj ext ""%string) (rvars r2) with
                | Some ri, Some rj => mget (rmat r2) ri rj
                | _, _ => if Nat.eqb mi mj then unit_poly else zero_poly
                end) in
    (mk_rel ext m1, mk_rel ext m2).

Definition rel_sum (a b : rel) : rel :=
  let '(e1, e2) := homogenisation a b in mk_rel (rvars e1) (matrix_sum (rmat e1) (rmat e2)).

Definition rel_comp (a b : rel) : rel :=
  let '(e1, e2) := homogenisation a b in mk_rel (rvars e1) (matrix_prod (rmat e1) (rmat e2)).

Definition subset_str (a b : list string) : bool := forallb (fun x => mem_strb x b) a.

(* zip-based comparison of two matrices (rows and cells beyond the shorter are ignored, as zip does) *)
Fixpoint rows_eqb (a b : list poly) : bool :=
  match a, b with
  | x :: s, y :: t => poly_eqb x y && rows_eqb s t
  | _, _ => true
  end.
Fixpoint mats_eqb (a b : matrix) : bool :=
  match a, b with
  | x :: s, y :: t => rows_eqb x y && mats_eqb s t
  | _, _ => true
  end.

Definition rel_equal (a b : rel) : bool :=
  if negb (subset_str (rvars a) (rvars b) && subset_str (rvars b) (rvars a)) then false
  else let '(e1, e2) := homogenisation a b in mats_eqb (rmat e1) (rmat e2).

(* Relation.fixpoint: None = out of fuel *)
Fixpoint fix_loop (fuel : nat) (self fix_ current : rel) : option rel :=
  match fuel with
  | 0 => None
  | S f =>
      let current' := rel_comp current self in
      let fix' := rel_sum fix_ current' in
      if rel_equal fix' fix_ then Some fix' else fix_loop f self fix' current'
  end.

Definition rel_fixpoint (fuel : nat) (self : rel) : option rel :=
  let m := identity_matrix (length (rvars self)) in
  let start := mk_rel (rvars self) m in
  fix_loop fuel self start start.

(* ---- corrections: return the new relation and the delta lists sent to the delta graph, in order ---- *)

(* the predicates W_BAD / L_BAD / L_PROPAGATE are GENERATED from relation.py (gen/RulesGen.v) *)

Definition corr_cell (bad : Sc -> bool) (p : poly) : poly * list (list delta) :=
  (map (fun m => if bad (sc m) then set_sc m I else m) p,
   map ds (filter (fun m => bad (sc m)) p)).

Definition while_correction (r : rel) : rel * list (list delta) :=
  let cells := map (fun '(i, row) => map (fun '(j, p) => corr_cell (fun s => W_BAD s (Nat.eqb i j)) p)
                                     (combine (seq 0 (length row)) row))
                   (combine (seq 0 (length (rmat r))) (rmat r)) in
  (Rel (rvars r) (map (map fst) cells), concat (map (fun row => concat (map snd row)) cells)).

(* one visited cell (i,j) of loop_correction, on the current matrix *)
Definition loop_cell (ell : nat) (m : matrix) (i j : nat) : matrix * list (list delta) :=
  let p := mget m i j in
  let d := Nat.eqb i j in
  let '(p', rec) := corr_cell (fun s => L_BAD s d) p in
  let m1 := set_cell m i j p' in
  let pm := filter (fun mo => L_PROPAGATE (sc mo) d) p' in
  let m2 := fold_left (fun acc mo => set_cell acc ell j (padd (mget acc ell j) [mono_copy mo])) pm m1 in
  (m2, rec).

Definition loop_correction (r : rel) (x : string) : option (rel * list (list delta)) :=
  match index_of_str x (rvars r) with
  | None => None                                   (* ValueError *)
  | Some ell =>
      let n := length (rmat r) in
      let cellsidx := flat_map (fun i => map (fun j => (i, j)) (seq 0 (length (nth i (rmat r) [])))) (seq 0 n) in
      let '(m, rec) := fold_left (fun '(m, rec) '(i, j) =>
                          let '(m', r') := loop_cell ell m i j in (m', (rec ++ r')%list))
                        cellsidx (rmat r, []) in
      Some (Rel (rvars r) m, rec)
  end.

(* Relation.apply_choice (least_scalar is the zero scalar everywhere) *)
Definition apply_choice (r : rel) (c : choice) : list (list Sc) :=
  let n := length (rvars r) in
  map (fun i => map (fun j => match pchoice (mget (rmat r) i j) c (Some APPLY_CHOICE_LEAST) with Some s => s | None => O end)
                    (seq 0 n)) (seq 0 n).

(* Relation.eval: the delta lists handed to Choices.generate (as a list; the Python builds a set) *)
Definition rel_infinity_deltas (r : rel) (scalars : list Sc) (recorded : list (list delta)) : list (list delta) :=
  (recorded ++ flat_map (fun row => flat_map (fun p => peval p scalars) row) (rmat r))%list.

Definition col_infinity_deltas (r : rel) (col : nat) (scalars : list Sc) : list (list delta) :=
  flat_map (fun row => peval (nth col row zero_poly) scalars) (rmat r).

(* Relation.infty_vars *)
Definition infty_vars (r : rel) : list (string * list string) :=
  filter (fun '(_, l) => negb (is_nilb l))
    (map (fun '(src, row) => (src, map fst (filter (fun '(_, p) => some_infty p) (combine (rvars r) row))))
         (combine (rvars r) (rmat r))).
