(* Graph invariants and the specification of remove_node (never raises on a
   symmetric graph, only removes, leaves a symmetric graph without dangling edges). *)
From Coq Require Import String List Arith Bool Lia.
From PM Require Import DeltaGraph DeltaGraph_base DeltaGraph_node.
Import ListNotations.
Open Scope list_scope.

Ltac splits := repeat match goal with |- _ /\ _ => split end.

(* ------------------------------------------------------------------ *)
(* invariants (all stated through glookup)                             *)
(* ------------------------------------------------------------------ *)
Definition good (deg : nat) (ins : list node) (n : node) : Prop := Wf deg n /\ covered deg ins n.

(* neighbour dictionaries have no duplicate key *)
Definition ND (g : graph) : Prop := forall s n (nb : nbrs), glookup g s n = Some nb -> NoDup (keys nb).
(* a node sits in the bucket of its length *)
Definition K1 (g : graph) : Prop := forall s n (nb : nbrs), glookup g s n = Some nb -> length n = s.
(* soundness: present nodes and all their neighbours are well-formed and covered;
   an edge labelled l joins tuples that differ exactly at index l *)
Definition SI (deg : nat) (ins : list node) (g : graph) : Prop :=
  forall s a (na : nbrs), glookup g s a = Some na ->
    good deg ins a /\ forall b l, lookup node_eqb b na = Some l -> good deg ins b /\ edge_ok a b l.
(* edges between present nodes are symmetric *)
Definition S1 (g : graph) : Prop :=
  forall s a (na : nbrs) b l (nb : nbrs),
    glookup g s a = Some na -> lookup node_eqb b na = Some l -> glookup g s b = Some nb ->
    lookup node_eqb a nb <> None.
(* edges to absent nodes ("dangling") only towards the nodes in [pend] *)
Definition DG (pend : list (nat * node)) (g : graph) : Prop :=
  forall s a (na : nbrs) b l,
    glookup g s a = Some na -> lookup node_eqb b na = Some l -> glookup g s b = None -> In (s, b) pend.

(* g' has fewer nodes and edges than g, same labels *)
Definition gsub (g' g : graph) : Prop :=
  forall s a (na' : nbrs), glookup g' s a = Some na' ->
    exists na : nbrs, glookup g s a = Some na /\
                 forall b l, lookup node_eqb b na' = Some l -> lookup node_eqb b na = Some l.
(* edges towards nodes absent from g (other than x) are untouched *)
Definition keepx (x : option (nat * node)) (g g' : graph) : Prop :=
  forall s a (na na' : nbrs) m,
    glookup g' s a = Some na' -> glookup g s a = Some na -> glookup g s m = None ->
    x <> Some (s, m) -> lookup node_eqb m na' = lookup node_eqb m na.

Lemma gsub_refl g : gsub g g.
Proof. intros s a na H. exists na. auto. Qed.

Lemma gsub_trans g1 g2 g3 : gsub g1 g2 -> gsub g2 g3 -> gsub g1 g3.
Proof.
  intros A B s a na1 H. destruct (A s a na1 H) as [na2 [H2 E2]]. destruct (B s a na2 H2) as [na3 [H3 E3]].
  exists na3. split; auto.
Qed.

Lemma gsub_absent g' g s m : gsub g' g -> glookup g s m = None -> glookup g' s m = None.
Proof.
  intros A H. destruct (glookup g' s m) as [x|] eqn:E; auto.
  destruct (A s m x E) as [y [Hy _]]. congruence.
Qed.

Lemma gsub_K1 g' g : gsub g' g -> K1 g -> K1 g'.
Proof. intros A K s n nb H. destruct (A s n nb H) as [y [Hy _]]. eapply K; eauto. Qed.

Lemma gsub_SI deg ins g' g : gsub g' g -> SI deg ins g -> SI deg ins g'.
Proof.
  intros A K s a na H. destruct (A s a na H) as [y [Hy Hs]]. destruct (K s a y Hy) as [G E].
  split; auto.
Qed.

Lemma keepx_refl x g : keepx x g g.
Proof. intros s a na na' m H1 H2 _ _. congruence. Qed.

Lemma keepx_weaken x g g' : keepx None g g' -> keepx x g g'.
Proof. intros K s a na na' m H1 H2 H3 _. eapply K; eauto. discriminate. Qed.

Lemma keepx_trans x g1 g2 g3 :
  gsub g2 g1 -> gsub g3 g2 -> keepx x g1 g2 -> keepx x g2 g3 -> keepx x g1 g3.
Proof.
  intros A B K1' K2 s a na1 na3 m H3 H1 Hm Hx.
  destruct (B s a na3 H3) as [na2 [H2 _]].
  rewrite (K2 s a na2 na3 m H3 H2 (gsub_absent _ _ _ _ A Hm) Hx).
  eapply K1'; eauto.
Qed.

Lemma gupd_cases g g' s n o :
  gupd g g' s n o -> forall s0 m,
    (s0 = s /\ m = n /\ glookup g' s0 m = o) \/
    ((s0 <> s \/ m <> n) /\ glookup g' s0 m = glookup g s0 m).
Proof.
  intros [U1 [U2 _]] s0 m. destruct (Nat.eq_dec s0 s) as [->|Hs].
  - destruct (node_eq_dec m n) as [->|Hm]; [left; auto | right; split; auto].
  - right. split; auto.
Qed.

(* ------------------------------------------------------------------ *)
(* deleting a node / an edge                                           *)
(* ------------------------------------------------------------------ *)
Lemma gupd_none_gsub g g' s n : gupd g g' s n None -> gsub g' g.
Proof.
  intros U s0 a na H. destruct (gupd_cases _ _ _ _ _ U s0 a) as [[-> [-> E]]|[_ E]]; rewrite E in H.
  - discriminate.
  - exists na. auto.
Qed.

Lemma gupd_none_keep g g' s n : gupd g g' s n None -> keepx None g g'.
Proof.
  intros U s0 a na na' m H1 H2 _ _. destruct (gupd_cases _ _ _ _ _ U s0 a) as [[-> [-> E]]|[_ E]]; rewrite E in H1; congruence.
Qed.

Lemma gupd_none_ND g g' s n : gupd g g' s n None -> ND g -> ND g'.
Proof.
  intros U H s0 a na E0. destruct (gupd_cases _ _ _ _ _ U s0 a) as [[-> [-> E]]|[_ E]]; rewrite E in E0; [discriminate | eauto].
Qed.

Lemma gupd_none_S1 g g' s n : gupd g g' s n None -> S1 g -> S1 g'.
Proof.
  intros U H s0 a na b l nb Ha Hl Hb.
  destruct (gupd_cases _ _ _ _ _ U s0 a) as [[-> [-> E]]|[_ E]]; rewrite E in Ha; [discriminate|].
  destruct (gupd_cases _ _ _ _ _ U s0 b) as [[-> [-> E']]|[_ E']]; rewrite E' in Hb; [discriminate|].
  eapply H; eauto.
Qed.

Section DelEdge.
  Variables (g g' : graph) (s : nat) (X n : node) (nX : nbrs).
  Hypothesis U : gupd g g' s X (Some (aremove node_eqb n nX)).
  Hypothesis HX : glookup g s X = Some nX.

  Lemma lookup_arem b l : lookup node_eqb b (aremove node_eqb n nX) = Some l -> b <> n /\ lookup node_eqb b nX = Some l.
  Proof.
    intros H. destruct (node_eq_dec n b) as [->|Hne].
    - rewrite (lookup_aremove_eq node_eqb) in H. discriminate.
    - rewrite (lookup_aremove_neq node_eqb node_eqb_eq) in H; auto.
  Qed.

  Lemma de_gsub : gsub g' g.
  Proof.
    intros s0 a na H. destruct (gupd_cases _ _ _ _ _ U s0 a) as [[-> [-> E]]|[_ E]]; rewrite E in H.
    - inversion H. subst na. exists nX. split; auto. intros b l Hl. apply lookup_arem in Hl. tauto.
    - exists na. auto.
  Qed.

  Lemma de_ND : ND g -> ND g'.
  Proof.
    intros H s0 a na E0. destruct (gupd_cases _ _ _ _ _ U s0 a) as [[-> [-> E]]|[_ E]]; rewrite E in E0.
    - inversion E0. apply NoDup_aremove. eauto.
    - eauto.
  Qed.

  Lemma de_present s0 m : glookup g' s0 m = None <-> glookup g s0 m = None.
  Proof.
    destruct (gupd_cases _ _ _ _ _ U s0 m) as [[-> [-> E]]|[_ E]]; rewrite E.
    - rewrite HX. split; discriminate.
    - tauto.
  Qed.

  Lemma de_S1 : glookup g s n = None -> S1 g -> S1 g'.
  Proof.
    intros Hn H s0 a na b l nb Ha Hl Hb.
    assert (Hb0 : glookup g s0 b <> None) by (intros C; apply de_present in C; congruence).
    assert (Hedge : exists na0 : nbrs, glookup g s0 a = Some na0 /\ lookup node_eqb b na0 = Some l).
    { destruct (de_gsub s0 a na Ha) as [na0 [A B]]. eauto. }
    destruct Hedge as [na0 [Ha0 Hl0]].
    destruct (gupd_cases _ _ _ _ _ U s0 b) as [[-> [-> E]]|[_ E]]; rewrite E in Hb.
    - inversion Hb. subst nb. rewrite (lookup_aremove_neq node_eqb node_eqb_eq).
      + eapply H; eauto.
      + intros ->. congruence.
    - eapply H; eauto.
  Qed.

  Lemma de_DG pend : DG pend g -> DG pend g'.
  Proof.
    intros H s0 a na b l Ha Hl Hb. apply de_present in Hb.
    destruct (de_gsub s0 a na Ha) as [na0 [A B]]. eapply H; eauto.
  Qed.

  Lemma de_keepx : keepx (Some (s, n)) g g'.
  Proof.
    intros s0 a na na' m H1 H2 Hm Hx.
    destruct (gupd_cases _ _ _ _ _ U s0 a) as [[-> [-> E]]|[_ E]]; rewrite E in H1.
    - inversion H1. rewrite HX in H2. inversion H2. subst.
      apply (lookup_aremove_neq node_eqb node_eqb_eq). intros ->. apply Hx. reflexivity.
    - congruence.
  Qed.
End DelEdge.

(* ------------------------------------------------------------------ *)
(* remove_node                                                         *)
(* ------------------------------------------------------------------ *)
Definition RPost (pend : list (nat * node)) (g : graph) (n : node) (g' : graph) : Prop :=
  gsub g' g /\ ND g' /\ S1 g' /\ DG pend g' /\ keepx None g g' /\
  count_nodes g' <= count_nodes g /\ bk_eq g g' /\ glookup g' (length n) n = None.

Definition LPost (pend : list (nat * node)) (s : nat) (n : node) (g g' : graph) : Prop :=
  gsub g' g /\ ND g' /\ S1 g' /\ DG pend g' /\ keepx (Some (s, n)) g g' /\
  count_nodes g' <= count_nodes g /\ bk_eq g g'.

Definition RSpec (f : nat) (idx : nat) : Prop :=
  forall (g : graph) n pend (nn : nbrs),
    count_nodes g <= f -> ND g -> K1 g -> S1 g -> DG pend g ->
    glookup g (length n) n = Some nn ->
    exists g', remove_node f g n idx = Ok g' /\ RPost pend g n g'.

Lemma rn_loop f idx s n pend :
  RSpec f idx ->
  forall rest (g : graph),
    NoDup rest -> ND g -> K1 g -> S1 g -> DG ((s, n) :: pend) g -> count_nodes g <= f ->
    glookup g s n = None -> has_bucket g s ->
    (forall X (nX : nbrs), In X rest -> glookup g s X = Some nX -> lookup node_eqb n nX <> None) ->
    (forall X (nX : nbrs), glookup g s X = Some nX -> lookup node_eqb n nX <> None -> In X rest) ->
    exists g', fold_res (rn_step (remove_node f) s n idx) rest g = Ok g' /\ LPost pend s n g g'.
Proof.
  intros IH. induction rest as [|X rest IHr]; intros g NDr Hnd Hk Hs Hd Hc Hn Hb R T.
  - simpl. exists g. split; auto. unfold LPost. splits; auto using gsub_refl, keepx_refl, bk_eq_refl.
    intros s0 a na b l Ha Hl Hb0. destruct (Hd s0 a na b l Ha Hl Hb0) as [E|E]; auto.
    inversion E. subst. exfalso. apply (T a na Ha). congruence.
  - inversion NDr as [|? ? HXr NDr']. subst.
    simpl. unfold rn_step at 1. unfold get_bucket.
    destruct (has_bucket_get g s Hb) as [bk Hbk]. rewrite Hbk. simpl.
    destruct (lookup node_eqb X bk) as [nX|] eqn:EX.
    + (* neighbour still present *)
      assert (HX : glookup g s X = Some nX) by (unfold glookup; rewrite Hbk; exact EX).
      destruct (lookup node_eqb n nX) as [label|] eqn:El; [|exfalso; eapply (R X nX); simpl; auto].
      simpl. destruct (Nat.eqb label idx).
      * (* same label: recursive removal *)
        assert (HlX : length X = s) by (eapply Hk; eauto).
        destruct (IH g X ((s, n) :: pend) nX Hc Hnd Hk Hs Hd) as [g1 [E1 P1]]; [rewrite HlX; exact HX|].
        rewrite E1. destruct P1 as [Gs [Gnd [Gs1 [Gd [Gk [Gc [Gb Gx]]]]]]]. rewrite HlX in Gx.
        destruct (IHr g1) as [g2 [E2 P2]]; auto.
        -- eapply gsub_K1; eauto.
        -- lia.
        -- eapply gsub_absent; eauto.
        -- apply Gb. exact Hb.
        -- intros X' nX' Hin HX'. destruct (Gs s X' nX' HX') as [nX0 [H0 _]].
           rewrite (Gk s X' nX0 nX' n HX' H0 Hn); [|discriminate]. eapply R; eauto. simpl; auto.
        -- intros X' nX' HX' Hl'. destruct (Gs s X' nX' HX') as [nX0 [H0 Hsub]].
           destruct (lookup node_eqb n nX') as [l'|] eqn:El'; [|congruence].
           assert (Hin : In X' (X :: rest)) by (eapply T; eauto; rewrite (Hsub n l' El'); discriminate).
           destruct Hin as [<-|Hin]; auto. congruence.
        -- exists g2. split; auto. destruct P2 as [Ls [Lnd [Ls1 [Ld [Lk [Lc Lb]]]]]].
           unfold LPost. splits; auto.
           ++ eapply gsub_trans; eauto.
           ++ eapply keepx_trans; eauto. apply keepx_weaken. exact Gk.
           ++ lia.
           ++ apply (bk_eq_trans g g1 g2); auto.
      * (* other label: delete the edge *)
        destruct (del_edge_spec g s X n nX label HX El) as [g1 [E1 [U Hcnt]]]. rewrite E1.
        destruct (IHr g1) as [g2 [E2 P2]]; auto.
        -- eapply de_ND; eauto.
        -- eapply gsub_K1; eauto. eapply de_gsub; eauto.
        -- eapply de_S1; eauto.
        -- eapply de_DG; eauto.
        -- lia.
        -- eapply de_present; eauto.
        -- apply (proj2 (proj2 U)). exact Hb.
        -- intros X' nX' Hin HX'.
           destruct (gupd_cases _ _ _ _ _ U s X') as [[_ [-> E]]|[_ E]]; [contradiction|].
           rewrite E in HX'. eapply R; eauto. simpl; auto.
        -- intros X' nX' HX' Hl'.
           destruct (gupd_cases _ _ _ _ _ U s X') as [[_ [-> E]]|[Hne E]]; rewrite E in HX'.
           ++ inversion HX'. subst nX'. rewrite (lookup_aremove_eq node_eqb) in Hl'. congruence.
           ++ assert (Hin : In X' (X :: rest)) by (eapply T; eauto).
              destruct Hin as [<-|Hin]; auto. exfalso. destruct Hne; congruence.
        -- exists g2. split; auto. destruct P2 as [Ls [Lnd [Ls1 [Ld [Lk [Lc Lb]]]]]].
           assert (Gs : gsub g1 g) by (eapply de_gsub; eauto).
           unfold LPost. splits; auto.
           ++ eapply gsub_trans; eauto.
           ++ eapply keepx_trans; eauto. eapply de_keepx; eauto.
           ++ lia.
           ++ apply (bk_eq_trans g g1 g2); auto. apply (proj2 (proj2 U)).
    + (* neighbour already gone *)
      assert (HX : glookup g s X = None) by (unfold glookup; rewrite Hbk; exact EX).
      apply IHr; auto.
      * intros X' nX' Hin. apply R. simpl; auto.
      * intros X' nX' HX' Hl'. destruct (T X' nX' HX' Hl') as [<-|Hin]; auto. congruence.
Qed.

Lemma remove_node_spec idx : forall f, RSpec f idx.
Proof.
  induction f as [|f IH]; intros g n pend nn Hc Hnd Hk Hs Hd Hn.
  - pose proof (count_pos _ _ _ _ Hn). lia.
  - simpl. unfold get_bucket.
    destruct (has_bucket_get g (length n) (glookup_has_bucket _ _ _ _ Hn)) as [bk Hbk]. rewrite Hbk. simpl.
    assert (En : lookup node_eqb n bk = Some nn) by (unfold glookup in Hn; rewrite Hbk in Hn; exact Hn).
    rewrite En. simpl.
    destruct (del_node_spec g (length n) n nn Hn) as [g1 [E1 [U Hcnt]]]. rewrite E1. simpl.
    assert (Gs : gsub g1 g) by (eapply gupd_none_gsub; eauto).
    assert (Hn1 : glookup g1 (length n) n = None) by apply (proj1 U).
    destruct (rn_loop f idx (length n) n pend IH (keys nn) g1) as [g2 [E2 P2]].
    + eapply Hnd; eauto.
    + eapply gupd_none_ND; eauto.
    + eapply gsub_K1; eauto.
    + eapply gupd_none_S1; eauto.
    + intros s0 a na b l Ha Hl Hb.
      destruct (Gs s0 a na Ha) as [na0 [Ha0 Hsub]].
      destruct (gupd_cases _ _ _ _ _ U s0 b) as [[-> [-> E]]|[_ E]]; [left; reflexivity|].
      right. rewrite E in Hb. eapply Hd; eauto.
    + lia.
    + exact Hn1.
    + apply (proj2 (proj2 U)). eapply glookup_has_bucket; eauto.
    + intros X nX Hin HX. destruct (Gs _ _ _ HX) as [nX0 [HX0 _]].
      destruct (gupd_cases _ _ _ _ _ U (length n) X) as [[_ [-> E]]|[_ E]]; rewrite E in HX; [discriminate|].
      apply (lookup_keys node_eqb node_eqb_eq) in Hin.
      destruct (lookup node_eqb X nn) as [l|] eqn:El; [|congruence].
      eapply Hs; eauto.
    + intros X nX HX Hl.
      destruct (gupd_cases _ _ _ _ _ U (length n) X) as [[_ [-> E]]|[_ E]]; rewrite E in HX; [discriminate|].
      apply (lookup_keys node_eqb node_eqb_eq).
      destruct (lookup node_eqb n nX) as [l|] eqn:El; [|congruence].
      eapply Hs; eauto.
    + exists g2. split; auto. destruct P2 as [Ls [Lnd [Ls1 [Ld [Lk [Lc Lb]]]]]].
      unfold RPost. splits; auto.
      * eapply gsub_trans; eauto.
      * intros s0 a na na' m H2 H0 Hm _.
        destruct (Ls s0 a na' H2) as [na1 [H1 _]].
        assert (na1 = na).
        { destruct (gupd_cases _ _ _ _ _ U s0 a) as [[-> [-> E]]|[_ E]]; rewrite E in H1; congruence. }
        subst na1. eapply Lk; eauto.
        -- eapply gsub_absent; eauto.
        -- intros C. inversion C. subst. congruence.
      * lia.
      * apply (bk_eq_trans g g1 g2); auto. apply (proj2 (proj2 U)).
      * eapply gsub_absent; eauto.
Qed.

(* what the callers use *)
Lemma remove_node_top_ok deg ins (g : graph) n idx (nn : nbrs) :
  ND g -> K1 g -> S1 g -> DG [] g -> SI deg ins g ->
  glookup g (length n) n = Some nn ->
  exists g', remove_node_top g n idx = Ok g' /\
             ND g' /\ K1 g' /\ S1 g' /\ DG [] g' /\ SI deg ins g' /\ bk_eq g g'.
Proof.
  intros Hnd Hk Hs Hd Hsi Hn. unfold remove_node_top.
  destruct (remove_node_spec idx (S (count_nodes g)) g n [] nn) as [g' [E P]]; auto.
  exists g'. split; auto. destruct P as [Gs [Gnd [Gs1 [Gd [Gk [Gc [Gb Gx]]]]]]].
  splits; auto.
  - eapply gsub_K1; eauto.
  - eapply gsub_SI; eauto.
Qed.
