(* C07, loop mode: which loops LoopAnalysis.run inspects and in which state
   ([loop_mode_loops], PM.Syntax), for every tree.
     strict : the inspected loops are exactly the listed loops (FindLoops order) that the gate
              accepts as they are and that parser.is_loop keeps; they are inspected untouched;
              a loop holding an unsupported statement is not inspected at all.
     default: every inspected loop is the listed loop after its own removal pass, the gate accepts
              that tree; a listed loop is dropped only when parser.is_loop refuses the CLEANED loop
              (its body has become empty).
   The inspected paths are a subsequence of FindLoops' list, same order. *)
From Coq Require Import String List Bool Arith Lia.
From PMGen Require Import SyntaxGen PycSchema.
From PM Require Import Tree Syntax Syntax_proofs Syntax_proofs_C07a Syntax_proofs_C07c Syntax_proofs_C05 Syntax_proofs_C07d.
Import ListNotations.
Open Scope string_scope.
Open Scope list_scope.

(* ------------------------------------------------------------------------- *)
(* syntax_check, the two modes                                                 *)
(* ------------------------------------------------------------------------- *)
Lemma syntax_check_strict_verdict l v l' :
  syntax_check l true = Ok (v, l') -> l' = l /\ v = full l.
Proof.
  unfold syntax_check, full. destruct (coverage l) as [[|e t]|m]; intro H; inversion H; subst; split; reflexivity.
Qed.

Lemma syntax_check_strict_true l l' :
  syntax_check l true = Ok (true, l') -> l' = l /\ full l = true.
Proof. intro H. apply syntax_check_strict_verdict in H. destruct H as [E F]. split; [exact E | symmetry; exact F]. Qed.

Lemma syntax_check_strict_full l : full l = true -> syntax_check l true = Ok (true, l).
Proof.
  unfold syntax_check, full. destruct (coverage l) as [[|e t]|m]; intro H; try discriminate. reflexivity.
Qed.

Lemma syntax_check_default_verdict l v l' : syntax_check l false = Ok (v, l') -> v = true.
Proof.
  unfold syntax_check. destruct (coverage l) as [[|e t]|m]; intro H; inversion H; reflexivity.
Qed.

(* a subtree of a schema-respecting tree respects the schema *)
Lemma wf_node_at p : forall f l, wf_pyc f = true -> node_at p f = Some l -> wf_pyc l = true.
Proof.
  induction p as [|[s i] p IH]; intros f l W H; cbn [node_at] in H.
  - inversion H; subst. exact W.
  - destruct (nth_error (kidl f s) i) as [x|] eqn:N; [|discriminate].
    apply (IH x l); [|exact H]. apply (wf_kidl f s x W). eapply nth_error_In; exact N.
Qed.

(* ------------------------------------------------------------------------- *)
(* order                                                                       *)
(* ------------------------------------------------------------------------- *)
(* [sublist l l']: l is l' with some elements left out, order kept *)
Inductive sublist {A : Type} : list A -> list A -> Prop :=
| sub_nil : sublist [] []
| sub_skip x l l' : sublist l l' -> sublist l (x :: l')
| sub_keep x l l' : sublist l l' -> sublist (x :: l) (x :: l').

Lemma sublist_filter {A} (g : A -> bool) l : sublist (filter g l) l.
Proof.
  induction l as [|x l IH]; cbn [filter]; [constructor|]. destruct (g x); constructor; exact IH.
Qed.

Lemma sublist_incl {A} (l l' : list A) : sublist l l' -> incl l l'.
Proof.
  induction 1 as [|x l l' _ IH|x l l' _ IH]; intros y Hy.
  - exact Hy.
  - right. apply IH, Hy.
  - destruct Hy as [E|Hy]; [left; exact E|right; apply IH, Hy].
Qed.

(* the test LoopAnalysis.run applies to the listed loop at p *)
Definition kept (f : node) (strict : bool) (p : path) : bool :=
  match node_at p f with
  | Some l => match syntax_check l strict with Ok (v, l') => v && is_loop l' | Err _ => false end
  | None => false
  end.

Lemma kept_eq f strict p :
  kept f strict p =
  match node_at p f with
  | Some l => match syntax_check l strict with Ok (v, l') => v && is_loop l' | Err _ => false end
  | None => false
  end.
Proof. reflexivity. Qed.

Lemma loop_mode_from_fst f strict ps : forall r,
  loop_mode_from f strict ps = Ok r -> map fst r = filter (kept f strict) ps.
Proof.
  induction ps as [|p ps IH]; intros r H; cbn [loop_mode_from] in H.
  - inversion H. reflexivity.
  - cbn [filter]. rewrite (kept_eq f strict p).
    destruct (node_at p f) as [l|]; [|discriminate].
    destruct (syntax_check l strict) as [[v l']|m]; [|discriminate].
    destruct (loop_mode_from f strict ps) as [r0|m]; [|discriminate].
    inversion H; subst r. specialize (IH r0 eq_refl).
    destruct (v && is_loop l'); cbn [map fst]; rewrite IH; reflexivity.
Qed.

(* ------------------------------------------------------------------------- *)
(* membership, both modes                                                      *)
(* ------------------------------------------------------------------------- *)
Lemma loop_mode_from_char f strict ps : forall r,
  loop_mode_from f strict ps = Ok r ->
  forall q m, In (q, m) r <->
    (In q ps /\ exists l, node_at q f = Some l /\ syntax_check l strict = Ok (true, m) /\ is_loop m = true).
Proof.
  induction ps as [|p ps IH]; intros r H q m; cbn [loop_mode_from] in H.
  - inversion H; subst. split; [intros []|intros [[] _]].
  - destruct (node_at p f) as [l|] eqn:N; [|discriminate].
    destruct (syntax_check l strict) as [[v l']|e] eqn:S; [|discriminate].
    destruct (loop_mode_from f strict ps) as [r0|e]; [|discriminate].
    inversion H; subst r; clear H. specialize (IH r0 eq_refl q m).
    split.
    + intros Hin.
      assert (Hc : (v && is_loop l' = true /\ (q, m) = (p, l')) \/ In (q, m) r0).
      { destruct (v && is_loop l') eqn:B.
        - destruct Hin as [E|Hin]; [left; split; [reflexivity|symmetry; exact E]|right; exact Hin].
        - right; exact Hin. }
      destruct Hc as [[B E]|Hin0].
      * inversion E; subst q m. apply andb_prop in B. destruct B as [Bv Bl]. subst v.
        split; [left; reflexivity|]. exists l. auto.
      * apply IH in Hin0. destruct Hin0 as [Hq R]. split; [right; exact Hq|exact R].
    + intros [[E|Hq] [l0 [N0 [S0 L0]]]].
      * subst q. rewrite N in N0. inversion N0; subst l0. rewrite S in S0. inversion S0; subst v l'.
        rewrite L0. left; reflexivity.
      * assert (Hr : In (q, m) r0) by (apply IH; split; [exact Hq|exists l0; auto]).
        destruct (v && is_loop l'); [right|]; exact Hr.
Qed.

Theorem loop_mode_char f strict ps r :
  find_loops f = Some ps -> loop_mode_loops f strict = Ok r ->
  forall p l', In (p, l') r <->
    (In p ps /\ exists l, node_at p f = Some l /\ syntax_check l strict = Ok (true, l') /\ is_loop l' = true).
Proof.
  intros FL H. unfold loop_mode_loops in H. rewrite FL in H. exact (loop_mode_from_char f strict ps r H).
Qed.

(* without the list of FindLoops: what an inspected entry is *)
Lemma loop_mode_entry f strict r p l' :
  loop_mode_loops f strict = Ok r -> In (p, l') r ->
  exists l, node_at p f = Some l /\ syntax_check l strict = Ok (true, l') /\ is_loop l' = true.
Proof.
  intros H Hin. unfold loop_mode_loops in H. destruct (find_loops f) as [ps|] eqn:FL; [|discriminate].
  apply (loop_mode_from_char f strict ps r H p l') in Hin. exact (proj2 Hin).
Qed.

(* ------------------------------------------------------------------------- *)
(* (1)-(3) strict mode                                                         *)
(* ------------------------------------------------------------------------- *)
Theorem loop_mode_strict_sound f r :
  loop_mode_loops f true = Ok r ->
  forall p l, In (p, l) r -> node_at p f = Some l /\ full l = true /\ is_loop l = true.
Proof.
  intros H p l Hin. destruct (loop_mode_entry f true r p l H Hin) as [l0 [N [S L]]].
  destruct (syntax_check_strict_true l0 l S) as [E F]. subst l0. auto.
Qed.

Theorem loop_mode_strict_complete f r ps :
  loop_mode_loops f true = Ok r -> find_loops f = Some ps ->
  forall p l, In p ps -> node_at p f = Some l -> full l = true -> is_loop l = true -> In (p, l) r.
Proof.
  intros H FL p l Hp N F L. apply (loop_mode_char f true ps r FL H p l).
  split; [exact Hp|]. exists l. split; [exact N|]. split; [apply syntax_check_strict_full; exact F|exact L].
Qed.

Theorem loop_mode_strict_refuses f r ps :
  loop_mode_loops f true = Ok r -> find_loops f = Some ps ->
  forall p l, In p ps -> node_at p f = Some l -> full l = false -> ~ In p (map fst r).
Proof.
  intros H FL p l _ N F Hin. apply in_map_iff in Hin. destruct Hin as [[q l'] [E Hin]]. cbn [fst] in E. subst q.
  destruct (loop_mode_strict_sound f r H p l' Hin) as [N' [F' _]].
  rewrite N in N'. inversion N'; subst l'. rewrite F in F'. discriminate.
Qed.

(* strict mode in one equation: the inspected list is FindLoops' list filtered by
   "the gate accepts the loop as it is, and parser.is_loop keeps it", each loop untouched *)
Definition strict_keeps (f : node) (p : path) : bool :=
  match node_at p f with Some l => full l && is_loop l | None => false end.

Theorem loop_mode_strict_exact f r ps :
  loop_mode_loops f true = Ok r -> find_loops f = Some ps ->
  map fst r = filter (strict_keeps f) ps /\ forall p l, In (p, l) r -> node_at p f = Some l.
Proof.
  intros H FL. split.
  - unfold loop_mode_loops in H. rewrite FL in H. clear FL. revert r H.
    induction ps as [|p ps IH]; intros r H; cbn [loop_mode_from] in H.
    + inversion H. reflexivity.
    + cbn [filter]. unfold strict_keeps at 1.
      destruct (node_at p f) as [l|]; [|discriminate].
      destruct (syntax_check l true) as [[v l']|m] eqn:S; [|discriminate].
      destruct (loop_mode_from f true ps) as [r0|m]; [|discriminate].
      inversion H; subst r. specialize (IH r0 eq_refl).
      destruct (syntax_check_strict_verdict l v l' S) as [E V]. subst l' v.
      destruct (full l && is_loop l); cbn [map fst]; rewrite IH; reflexivity.
  - intros p l Hin. exact (proj1 (loop_mode_strict_sound f r H p l Hin)).
Qed.

(* ------------------------------------------------------------------------- *)
(* (4) default mode                                                            *)
(* ------------------------------------------------------------------------- *)
Theorem loop_mode_default_clean f r :
  loop_mode_loops f false = Ok r ->
  forall p l', In (p, l') r ->
  exists l, node_at p f = Some l /\ syntax_check l false = Ok (true, l') /\ is_loop l' = true /\
            (wf_pyc l = true -> full l' = true).
Proof.
  intros H p l' Hin. destruct (loop_mode_entry f false r p l' H Hin) as [l [N [S L]]].
  exists l. split; [exact N|]. split; [exact S|]. split; [exact L|].
  intros W. exact (proj2 (default_mode_cleans l (true, l') W S)).
Qed.

(* the same for a function respecting the schema: no side condition left on the loop *)
Theorem loop_mode_default_clean_wf f r :
  wf_pyc f = true -> loop_mode_loops f false = Ok r ->
  forall p l', In (p, l') r ->
  exists l, node_at p f = Some l /\ ast_mod l = Ok l' /\ is_loop l' = true /\ full l' = true.
Proof.
  intros W H p l' Hin. destruct (loop_mode_default_clean f r H p l' Hin) as [l [N [S [L F]]]].
  exists l. split; [exact N|]. split; [|split; [exact L|exact (F (wf_node_at p f l W N))]].
  revert S. unfold syntax_check, ast_mod. destruct (coverage l) as [[|e t]|m]; intro S; inversion S; subst.
  - cbn [map]. rewrite apply_clears_nil. reflexivity.
  - reflexivity.
Qed.

(* default mode drops a listed loop only when parser.is_loop refuses the loop AFTER its removal pass *)
Theorem loop_mode_default_complete f r ps :
  loop_mode_loops f false = Ok r -> find_loops f = Some ps ->
  forall p l v l', In p ps -> node_at p f = Some l -> syntax_check l false = Ok (v, l') -> is_loop l' = true ->
  In (p, l') r.
Proof.
  intros H FL p l v l' Hp N S L. apply (loop_mode_char f false ps r FL H p l').
  split; [exact Hp|]. exists l. split; [exact N|]. split; [|exact L].
  rewrite S. rewrite (syntax_check_default_verdict l v l' S). reflexivity.
Qed.

(* ------------------------------------------------------------------------- *)
(* (5) order                                                                   *)
(* ------------------------------------------------------------------------- *)
Theorem loop_mode_filter f strict r ps :
  loop_mode_loops f strict = Ok r -> find_loops f = Some ps -> map fst r = filter (kept f strict) ps.
Proof.
  intros H FL. unfold loop_mode_loops in H. rewrite FL in H. exact (loop_mode_from_fst f strict ps r H).
Qed.

Theorem loop_mode_order f strict r ps :
  loop_mode_loops f strict = Ok r -> find_loops f = Some ps -> sublist (map fst r) ps.
Proof.
  intros H FL. rewrite (loop_mode_filter f strict r ps H FL). apply sublist_filter.
Qed.

(* ------------------------------------------------------------------------- *)
(* (6) non-vacuity                                                             *)
(* ------------------------------------------------------------------------- *)
(* void f(int x, int y, int z) {
     while (x < y) { g(u); y = y + x; }
     while (x < y) { x = y + z; } }      *)
Definition lm_loop_call : node := h_while (h_block [h_call "g" "u"; h_asg "y" "y" "x"]).
Definition lm_loop_call_cleaned : node := h_while (h_block [h_asg "y" "y" "x"]).
Definition lm_loop_clean : node := h_while (h_block [h_asg "x" "y" "z"]).
Definition lm_fn : node := fn_xyz [lm_loop_call; lm_loop_clean].
Definition lm_p0 : path := [("body", 0); ("block_items", 0)].
Definition lm_p1 : path := [("body", 0); ("block_items", 1)].

Example lm_fn_shape :
  wf_pyc lm_fn = true /\ find_loops lm_fn = Some [lm_p0; lm_p1] /\
  node_at lm_p0 lm_fn = Some lm_loop_call /\ node_at lm_p1 lm_fn = Some lm_loop_clean /\
  full lm_loop_call = false /\ full lm_loop_clean = true /\ full lm_loop_call_cleaned = true.
Proof. vm_compute. repeat split. Qed.

Example lm_fn_strict : loop_mode_loops lm_fn true = Ok [(lm_p1, lm_loop_clean)].
Proof. vm_compute. reflexivity. Qed.

Example lm_fn_default : loop_mode_loops lm_fn false = Ok [(lm_p0, lm_loop_call_cleaned); (lm_p1, lm_loop_clean)].
Proof. vm_compute. reflexivity. Qed.

(* default mode does drop a loop: the one whose body is nothing but unsupported statements is
   cleaned to an empty body, which parser.is_loop refuses; strict mode refuses it as unsupported *)
Definition lm_loop_only_call : node := h_while (h_block [h_call "g" "u"]).
Definition lm_fn2 : node := fn_xyz [lm_loop_only_call; lm_loop_clean].

Example lm_fn2_default_drops :
  wf_pyc lm_fn2 = true /\ find_loops lm_fn2 = Some [lm_p0; lm_p1] /\
  is_loop lm_loop_only_call = true /\
  syntax_check lm_loop_only_call false = Ok (true, h_while (h_block [])) /\
  is_loop (h_while (h_block [])) = false /\
  loop_mode_loops lm_fn2 false = Ok [(lm_p1, lm_loop_clean)] /\
  loop_mode_loops lm_fn2 true = Ok [(lm_p1, lm_loop_clean)].
Proof. vm_compute. repeat split. Qed.

(* nested loops: the inner loop holds the call.  strict inspects neither (the outer loop holds the
   unsupported statement too); default inspects both, each on its own cleaned tree *)
Definition lm_inner : node := h_while (h_block [h_asg "y" "y" "x"; h_call "h" "v"]).
Definition lm_outer : node := h_while (h_block [h_asg "x" "y" "z"; lm_inner]).
Definition lm_fn3 : node := fn_xyz [lm_outer].
Definition lm_p01 : path := lm_p0 ++ [("stmt", 0); ("block_items", 1)].

Example lm_fn3_nested :
  wf_pyc lm_fn3 = true /\ find_loops lm_fn3 = Some [lm_p0; lm_p01] /\
  loop_mode_loops lm_fn3 true = Ok [] /\
  loop_mode_loops lm_fn3 false =
    Ok [(lm_p0, h_while (h_block [h_asg "x" "y" "z"; lm_loop_call_cleaned])); (lm_p01, lm_loop_call_cleaned)].
Proof. vm_compute. repeat split. Qed.
