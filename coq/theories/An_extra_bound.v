(* BOUND (property C01): Bound.calculate (model PM.Bound of pymwp/bound.py) applied to the table of a
   scalar matrix A over the variable list V reads, for every variable v, column v of A:
   the variables u with A u v = m / w / p, in the order of V. *)
From Coq Require Import String Ascii List Bool Arith Lia FinFun.
From PM Require Import Semiring Poly Rel Analysis Calculus.
From PM Require Bound Bound_proofs Bound_text Calc_alg.
From PMGen Require Import SemiringGen.
Import ListNotations.
Open Scope list_scope.

(* names u of V (as bound.py text) whose entry in column v is the scalar s *)
Definition names_with (V : list string) (A : smat) (v : string) (s : Sc) : list Bound.str :=
  map Bound.L (filter (fun u => sc_eqb (A u v) s) V).

Definition col_bound (V : list string) (A : smat) (v : string) : Bound.MwpBound :=
  Bound.mb_of_lists (names_with V A v M) (names_with V A v W) (names_with V A v P).

Lemma L_injective : Injective Bound.L.
Proof.
  intros a b H. unfold Bound.L in H.
  rewrite <- (string_of_list_ascii_of_string a), <- (string_of_list_ascii_of_string b), H. reflexivity.
Qed.

Lemma names_with_In V A v s u : In (Bound.L u) (names_with V A v s) <-> In u V /\ A u v = s.
Proof.
  unfold names_with. rewrite in_map_iff. split.
  - intros (u' & E & H). apply L_injective in E. subst u'. apply filter_In in H.
    destruct H as [H1 H2]. split; [exact H1|apply sc_eqb_eq; exact H2].
  - intros [H1 H2]. exists u. split; [reflexivity|]. apply filter_In. split; [exact H1|].
    apply sc_eqb_eq. exact H2.
Qed.

Lemma combine_seq_map {T} (d : T) (l : list T) : forall s,
  combine (seq s (length l)) l = map (fun j => (j, nth (j - s) l d)) (seq s (length l)).
Proof.
  induction l as [|a t IH]; intros s; [reflexivity|].
  cbn [length seq combine map]. rewrite Nat.sub_diag. cbn [nth]. f_equal.
  rewrite IH. apply map_ext_in. intros j Hj. apply in_seq in Hj.
  replace (j - s) with (S (j - S s)) by lia. reflexivity.
Qed.

Lemma combine_map_same {T B C} (f : T -> B) (g : T -> C) (l : list T) :
  combine (map f l) (map g l) = map (fun x => (f x, g x)) l.
Proof. induction l as [|a t IH]; cbn [map combine]; [reflexivity|]. rewrite IH. reflexivity. Qed.

Lemma flag_sc a b (w : Bound.str) :
  Bound_text.flag (sc_str a) (sc_str b) w = if sc_eqb a b then [w] else [].
Proof. destruct a, b; reflexivity. Qed.

Lemma select_aux V A s j : j < length V -> forall U,
  flat_map (fun x => Bound_text.flag (nth j (map sc_str (map (fun y => A x y) V)) ""%string) (sc_str s) (Bound.L x)) U =
  map Bound.L (filter (fun u => sc_eqb (A u (nth j V EmptyString)) s) U).
Proof.
  intros Hj. induction U as [|u U IHU]; [reflexivity|].
  cbn [flat_map filter]. rewrite IHU, map_map.
  rewrite (Calc_alg.nth_map_lt (fun y => sc_str (A u y)) V j _ EmptyString Hj), flag_sc.
  destruct (sc_eqb (A u (nth j V EmptyString)) s); reflexivity.
Qed.

Lemma select_table V A s j :
  j < length V ->
  Bound_text.select (sc_str s) j (map (map sc_str) (smat_table V A)) (map Bound.L V) =
  names_with V A (nth j V EmptyString) s.
Proof.
  intros Hj. unfold Bound_text.select, smat_table, names_with.
  rewrite map_map, combine_map_same, flat_map_concat_map, map_map, <- flat_map_concat_map.
  cbn [fst snd]. apply select_aux. exact Hj.
Qed.

Lemma map_seq_nth {B} (f : nat -> B) (g : string -> B) (V : list string) :
  (forall i, i < length V -> f i = g (nth i V EmptyString)) -> map f (seq 0 (length V)) = map g V.
Proof.
  intros H. transitivity (map g (map (fun k => nth k V EmptyString) (seq 0 (length V)))).
  - rewrite map_map. apply map_ext_in. intros i Hi. apply in_seq in Hi. apply H. lia.
  - f_equal. clear. induction V as [|a t IH]; [reflexivity|].
    cbn [length seq map nth]. f_equal. rewrite <- seq_shift, map_map. exact IH.
Qed.

Theorem calculate_table V A : NoDup V ->
  Bound.calculate [] (map Bound.L V) (map (map sc_str) (smat_table V A)) =
  Some (map (fun v => (Bound.L v, col_bound V A v)) V).
Proof.
  intros ND. rewrite Bound_text.calculate_columns.
  - f_equal. rewrite (combine_seq_map (Bound.L EmptyString)), map_map, map_length.
    apply map_seq_nth. intros i Hi. cbn [fst snd]. rewrite Nat.sub_0_r.
    rewrite (Calc_alg.nth_map_lt Bound.L V i _ EmptyString Hi). f_equal.
    unfold Bound_text.column_bound, col_bound.
    change UNIT_MWP with (sc_str M). change WEAK_MWP with (sc_str W). change POLY_MWP with (sc_str P).
    rewrite !select_table by exact Hi. reflexivity.
  - apply Injective_map_NoDup; [apply L_injective|exact ND].
  - unfold smat_table. rewrite !map_length. reflexivity.
  - apply Forall_forall. intros row Hrow. unfold smat_table in Hrow. rewrite map_map in Hrow.
    apply in_map_iff in Hrow. destruct Hrow as (x & <- & _). rewrite !map_length. lia.
Qed.

Lemma dict_get_table V (F : string -> Bound.MwpBound) v : NoDup V -> In v V ->
  Bound.dict_get (map (fun v => (Bound.L v, F v)) V) (Bound.L v) = Some (F v).
Proof.
  intros ND Hv. apply Bound_text.dict_get_In.
  - rewrite map_map. cbn [fst]. apply Injective_map_NoDup; [apply L_injective|exact ND].
  - apply (in_map (fun v => (Bound.L v, F v))). exact Hv.
Qed.

Print Assumptions calculate_table.

(* the numbers are the real code's for the matrix [[m,o,p],[w,m,o],[o,o,m]] over a, b, c *)
Example calculate_table_instance :
  let V := ["a"; "b"; "c"]%string in
  let A : smat := fun x y =>
    if String.eqb x "a" && String.eqb y "c" then P else
    if String.eqb x "b" && String.eqb y "a" then W else sid x y in
  NoDup V /\
  option_map (fun bd => map (fun kv => (Bound.to_string (fst kv), Bound.to_string (snd kv))) (Bound.to_dict bd))
             (Bound.calculate [] (map Bound.L V) (map (map sc_str) (smat_table V A)))
    = Some [("a", "a;b;"); ("b", "b;;"); ("c", "c;;a")]%string.
Proof.
  cbv zeta. split; [repeat constructor; simpl; intuition discriminate|]. vm_compute. reflexivity.
Qed.
