(* P1: algebra of scalar matrices over a finite variable list (statements in Sem_stmts.v).
   Sums over a list are handled through their order characterisation
       sumS f l <= c  <->  forall k in l, f k <= c
   (ssum is max), which gives extensionality, exchange, restriction etc. without any NoDup. *)
From Coq Require Import String List Bool Arith Lia.
From PM Require Import Semiring Poly Rel Analysis Calculus Sem_stmts.
Import ListNotations.
Open Scope list_scope.

(* ------------------------------------------------------------------ *)
(* scalars                                                             *)

Lemma sc_eq_by_le a b : (forall c, sc_le a c <-> sc_le b c) -> a = b.
Proof. intros H. apply sc_le_antisym; [apply H, sc_le_refl | apply H, sc_le_refl]. Qed.

Lemma ssum_le_iff a b c : sc_le (ssum a b) c <-> sc_le a c /\ sc_le b c.
Proof.
  split.
  - intros H; split; (eapply sc_le_trans; [|exact H]); [apply sc_le_ssum_l | apply sc_le_ssum_r].
  - intros [H1 H2]. apply ssum_lub; assumption.
Qed.

Lemma ssum_mono a b c d : sc_le a b -> sc_le c d -> sc_le (ssum a c) (ssum b d).
Proof.
  intros H1 H2. apply ssum_lub; (eapply sc_le_trans; [eassumption|]);
    [apply sc_le_ssum_l | apply sc_le_ssum_r].
Qed.

(* sprod is monotone in both arguments for ALL scalars (also with sprod O I = I) *)
Lemma sprod_mono_all a b c d : sc_le a b -> sc_le c d -> sc_le (sprod a c) (sprod b d).
Proof. destruct a, b, c, d; unfold sc_le; simpl; intros; lia. Qed.

Lemma ssum_eq_I a b : ssum a b = I -> a = I \/ b = I.
Proof. destruct a, b; cbv; intros; try discriminate; auto. Qed.

Lemma sprod_eq_I a b : sprod a b = I -> a = I \/ b = I.
Proof. destruct a, b; cbv; intros; try discriminate; auto. Qed.

Lemma sprod_O_l_fin a : a <> I -> sprod O a = O.
Proof. intros H. apply sprod_O_finite; assumption. Qed.

Lemma sprod_O_r_fin a : a <> I -> sprod a O = O.
Proof. intros H. apply sprod_O_finite; assumption. Qed.

Lemma sid_eq x : sid x x = M.
Proof. unfold sid. rewrite String.eqb_refl. reflexivity. Qed.

Lemma sid_neq x y : x <> y -> sid x y = O.
Proof. intros H. unfold sid. apply String.eqb_neq in H. rewrite H. reflexivity. Qed.

Lemma sid_fin x y : sid x y <> I.
Proof. unfold sid. destruct (String.eqb x y); discriminate. Qed.

(* ------------------------------------------------------------------ *)
(* index_of_str / mem_strb                                             *)

Lemma index_of_str_some x l i :
  index_of_str x l = Some i -> i < length l /\ nth i l ""%string = x.
Proof.
  revert i; induction l as [|h t IH]; simpl; intros i H; [discriminate|].
  destruct (String.eqb x h) eqn:E.
  - inversion H; subst. apply String.eqb_eq in E. split; [lia|auto].
  - destruct (index_of_str x t) as [j|]; simpl in H; [|discriminate].
    inversion H; subst. destruct (IH j eq_refl). split; [lia|auto].
Qed.

Lemma mem_strb_In x l : mem_strb x l = true <-> In x l.
Proof.
  unfold mem_strb. induction l as [|h t IH]; simpl.
  - split; [discriminate|tauto].
  - destruct (String.eqb x h) eqn:E.
    + apply String.eqb_eq in E. subst. split; auto.
    + apply String.eqb_neq in E. destruct (index_of_str x t); simpl in *.
      * split; intros _; [right; apply IH; reflexivity | reflexivity].
      * split; [discriminate|]. intros [H|H]; [congruence|]. apply IH in H. discriminate.
Qed.

Lemma mem_strb_notIn x l : mem_strb x l = false <-> ~ In x l.
Proof.
  rewrite <- mem_strb_In. destruct (mem_strb x l); split; congruence.
Qed.

Lemma nth_map_lt {A B} (f : A -> B) l i d d' :
  i < length l -> nth i (map f l) d = f (nth i l d').
Proof.
  revert i; induction l; simpl; intros i H; [lia|]. destruct i; auto. apply IHl. lia.
Qed.

Lemma memo_eq V A x y : memo V A x y = A x y.
Proof.
  unfold memo.
  destruct (index_of_str x V) as [i|] eqn:Ei; [|reflexivity].
  destruct (index_of_str y V) as [j|] eqn:Ej; [|reflexivity].
  apply index_of_str_some in Ei. apply index_of_str_some in Ej.
  destruct Ei as [Hi Hx], Ej as [Hj Hy].
  rewrite (nth_map_lt _ _ _ _ ""%string Hi).
  rewrite (nth_map_lt _ _ _ _ ""%string Hj).
  subst. reflexivity.
Qed.

Theorem memo_ext : memo_ext_stmt.
Proof. exact memo_eq. Qed.

(* ------------------------------------------------------------------ *)
(* finite sums of scalars                                              *)

Definition sumS {T} (f : T -> Sc) (l : list T) : Sc :=
  fold_right (fun k acc => ssum (f k) acc) O l.

Lemma smul_sumS V A B x y : smul V A B x y = sumS (fun k => sprod (A x k) (B k y)) V.
Proof. reflexivity. Qed.

Lemma sumS_cons {T} (f : T -> Sc) a l : sumS f (a :: l) = ssum (f a) (sumS f l).
Proof. reflexivity. Qed.

Lemma sumS_le_iff {T} (f : T -> Sc) l c :
  sc_le (sumS f l) c <-> forall k, In k l -> sc_le (f k) c.
Proof.
  induction l as [|a l IH].
  - simpl. split; intros; [tauto | apply sc_le_O].
  - rewrite sumS_cons, ssum_le_iff, IH. simpl. split.
    + intros [H1 H2] k [->|Hk]; auto.
    + intros H; split; intros; apply H; auto.
Qed.

Lemma sumS_ge {T} (f : T -> Sc) l k : In k l -> sc_le (f k) (sumS f l).
Proof. intros H. apply (proj1 (sumS_le_iff f l (sumS f l)) (sc_le_refl _)). exact H. Qed.

Lemma sumS_ext {T} (f g : T -> Sc) l :
  (forall k, In k l -> f k = g k) -> sumS f l = sumS g l.
Proof.
  induction l as [|a l IH]; intros H; [reflexivity|].
  rewrite !sumS_cons. rewrite H by (left; reflexivity). rewrite IH; [reflexivity|].
  intros; apply H; right; assumption.
Qed.

Lemma sumS_mono {T} (f g : T -> Sc) l :
  (forall k, In k l -> sc_le (f k) (g k)) -> sc_le (sumS f l) (sumS g l).
Proof.
  intros H. apply sumS_le_iff. intros k Hk.
  eapply sc_le_trans; [apply H; exact Hk | apply sumS_ge; exact Hk].
Qed.

Lemma sumS_ssum {T} (f g : T -> Sc) l :
  sumS (fun k => ssum (f k) (g k)) l = ssum (sumS f l) (sumS g l).
Proof.
  apply sc_eq_by_le; intros c.
  rewrite ssum_le_iff, !sumS_le_iff. split.
  - intros H; split; intros k Hk; specialize (H k Hk); apply ssum_le_iff in H; tauto.
  - intros [H1 H2] k Hk. apply ssum_le_iff; auto.
Qed.

(* sprod distributes over a sum, except that sprod O I = I breaks the EMPTY sum *)
Lemma sumS_sprod_r {T} (f : T -> Sc) l c :
  (l = [] -> c <> I) -> sprod (sumS f l) c = sumS (fun k => sprod (f k) c) l.
Proof.
  induction l as [|a l IH]; intros H.
  - simpl. apply sprod_O_l_fin. auto.
  - rewrite !sumS_cons, sprod_ssum_distr_r. destruct l as [|b l].
    + simpl. destruct (f a), c; reflexivity.
    + rewrite IH; [reflexivity | discriminate].
Qed.

Lemma sumS_sprod_l {T} (f : T -> Sc) l c :
  (l = [] -> c <> I) -> sprod c (sumS f l) = sumS (fun k => sprod c (f k)) l.
Proof.
  intros H. rewrite sprod_comm, sumS_sprod_r by exact H.
  apply sumS_ext; intros; apply sprod_comm.
Qed.

Lemma sumS_exchange {T U} (g : T -> U -> Sc) l1 l2 :
  sumS (fun k => sumS (fun j => g k j) l2) l1 = sumS (fun j => sumS (fun k => g k j) l1) l2.
Proof.
  apply sc_eq_by_le; intros c. rewrite !sumS_le_iff. split.
  - intros H j Hj. rewrite sumS_le_iff. intros k Hk.
    specialize (H k Hk). rewrite sumS_le_iff in H. auto.
  - intros H k Hk. rewrite sumS_le_iff. intros j Hj.
    specialize (H j Hj). rewrite sumS_le_iff in H. auto.
Qed.

(* all terms but the one at x vanish *)
Lemma sumS_single (f : string -> Sc) l x :
  In x l -> (forall k, In k l -> k <> x -> f k = O) -> sumS f l = f x.
Proof.
  intros Hx H0. apply sc_eq_by_le; intros c. rewrite sumS_le_iff. split.
  - intros H. apply H. exact Hx.
  - intros H k Hk. destruct (string_dec k x) as [->|Hn]; [exact H|].
    rewrite H0 by assumption. apply sc_le_O.
Qed.

(* terms outside a sublist vanish *)
Lemma sumS_incl_zero (f : string -> Sc) l l' :
  incl l' l -> (forall k, In k l -> ~ In k l' -> f k = O) -> sumS f l = sumS f l'.
Proof.
  intros Hi H0. apply sc_eq_by_le; intros c. rewrite !sumS_le_iff. split.
  - intros H k Hk. apply H. apply Hi. exact Hk.
  - intros H k Hk. destruct (in_dec string_dec k l') as [Hin|Hn]; [auto|].
    rewrite H0 by assumption. apply sc_le_O.
Qed.

Lemma sumS_fin {T} (f : T -> Sc) l : (forall k, In k l -> f k <> I) -> sumS f l <> I.
Proof.
  induction l as [|a l IH]; intros H.
  - simpl. discriminate.
  - rewrite sumS_cons. intros E. apply ssum_eq_I in E. destruct E as [E|E].
    + apply (H a); [left; reflexivity | exact E].
    + apply IH; [|exact E]. intros; apply H; right; assumption.
Qed.

(* ------------------------------------------------------------------ *)
(* smul                                                                *)

Theorem smul_assoc : smul_assoc_stmt.
Proof.
  intros V A B C x y.
  destruct V as [|v V0]; [reflexivity|].
  remember (v :: V0) as V eqn:EV.
  assert (HV : V = [] -> forall c : Sc, c <> I) by (subst; discriminate).
  rewrite (smul_sumS V (smul V A B) C), (smul_sumS V A (smul V B C)).
  transitivity (sumS (fun k => sumS (fun j => sprod (sprod (A x j) (B j k)) (C k y)) V) V).
  - apply sumS_ext; intros k _. rewrite smul_sumS.
    apply (sumS_sprod_r (fun j => sprod (A x j) (B j k))). intros E; apply HV; exact E.
  - rewrite sumS_exchange. apply sumS_ext; intros j _. rewrite smul_sumS.
    rewrite sumS_sprod_l by (intros E; apply HV; exact E).
    apply sumS_ext; intros k _. symmetry. apply sprod_assoc.
Qed.

Theorem smul_distr : smul_distr_stmt.
Proof.
  split; intros V A B C x y; rewrite !smul_sumS; rewrite <- sumS_ssum;
    apply sumS_ext; intros k _; unfold sadd.
  - apply sprod_ssum_distr_l.
  - apply sprod_ssum_distr_r.
Qed.

Lemma smul_id_l V A x y :
  (forall k, In k V -> A k y <> I) -> In x V -> smul V sid A x y = A x y.
Proof.
  intros HA Hx. rewrite smul_sumS.
  rewrite (sumS_single _ V x Hx).
  - rewrite sid_eq. apply sprod_M_l.
  - intros k Hk Hn. rewrite sid_neq by congruence. apply sprod_O_l_fin. auto.
Qed.

Lemma smul_id_r V A x y :
  (forall k, In k V -> A x k <> I) -> In y V -> smul V A sid x y = A x y.
Proof.
  intros HA Hy. rewrite smul_sumS.
  rewrite (sumS_single _ V y Hy).
  - rewrite sid_eq. apply sprod_M_r.
  - intros k Hk Hn. rewrite sid_neq by congruence. apply sprod_O_r_fin. auto.
Qed.

Theorem smul_id : smul_id_stmt.
Proof.
  split; intros V A x y _ HA Hx Hy.
  - apply smul_id_l; auto.
  - apply smul_id_r; auto.
Qed.

Theorem smul_ext : smul_ext_stmt.
Proof.
  intros V A A' B B' HA HB x y Hx Hy. rewrite !smul_sumS.
  apply sumS_ext; intros k Hk. cbv beta. rewrite HA, HB; auto.
Qed.

Theorem smul_mono : smul_mono_stmt.
Proof.
  intros V A A' B B' HA HB x y Hx Hy. rewrite !smul_sumS.
  apply sumS_mono; intros k Hk. apply sprod_mono_all; auto.
Qed.

Theorem smul_finite : smul_finite_stmt.
Proof.
  intros V A B HA HB x y Hx Hy. rewrite smul_sumS.
  apply sumS_fin; intros k Hk E. apply sprod_eq_I in E. destruct E as [E|E].
  - exact (HA x k Hx Hk E).
  - exact (HB k y Hk Hy E).
Qed.

Theorem smul_restrict : smul_restrict_stmt.
Proof.
  intros V V' A B _ _ Hincl HA HB fA fB x y Hx Hy.
  destruct (mem_strb x V') eqn:Ex.
  - destruct (mem_strb y V') eqn:Ey; simpl.
    + apply mem_strb_In in Ex. rewrite !smul_sumS.
      apply sumS_incl_zero; [exact Hincl|].
      intros k Hk Hn. rewrite (HA x k) by (right; exact Hn).
      rewrite sid_neq by (intros ->; contradiction).
      apply sprod_O_l_fin. apply fB; assumption.
    + apply mem_strb_notIn in Ey.
      transitivity (smul V A sid x y).
      * rewrite !smul_sumS. apply sumS_ext; intros k Hk. cbv beta.
        rewrite (HB k y) by (right; exact Ey). reflexivity.
      * rewrite smul_id_r by (intros; auto). apply HA. right; exact Ey.
  - simpl. apply mem_strb_notIn in Ex.
    transitivity (smul V sid B x y).
    + rewrite !smul_sumS. apply sumS_ext; intros k Hk. cbv beta.
      rewrite (HA x k) by (left; exact Ex). reflexivity.
    + rewrite smul_id_l by (intros; auto). apply HB. left; exact Ex.
Qed.

(* ------------------------------------------------------------------ *)
(* eqV / leV / smat_eqb                                                *)

Lemma eqV_refl V A : eqV V A A.
Proof. intros x y _ _; reflexivity. Qed.
Lemma eqV_sym V A B : eqV V A B -> eqV V B A.
Proof. intros H x y Hx Hy; symmetry; auto. Qed.
Lemma eqV_trans V A B C : eqV V A B -> eqV V B C -> eqV V A C.
Proof. intros H1 H2 x y Hx Hy; rewrite H1, H2; auto. Qed.
Lemma leV_refl V A : leV V A A.
Proof. intros x y _ _; apply sc_le_refl. Qed.
Lemma leV_trans V A B C : leV V A B -> leV V B C -> leV V A C.
Proof. intros H1 H2 x y Hx Hy; eapply sc_le_trans; [apply H1 | apply H2]; auto. Qed.
Lemma leV_antisym V A B : leV V A B -> leV V B A -> eqV V A B.
Proof. intros H1 H2 x y Hx Hy; apply sc_le_antisym; auto. Qed.
Lemma eqV_leV V A B : eqV V A B -> leV V A B.
Proof. intros H x y Hx Hy; rewrite H by auto; apply sc_le_refl. Qed.

Lemma smat_eqb_iff V A B : smat_eqb V A B = true <-> eqV V A B.
Proof.
  unfold smat_eqb, eqV. rewrite forallb_forall. split.
  - intros H x y Hx Hy. specialize (H x Hx). rewrite forallb_forall in H.
    apply sc_eqb_eq. apply H. exact Hy.
  - intros H x Hx. rewrite forallb_forall. intros y Hy. apply sc_eqb_eq. auto.
Qed.

Lemma smat_eqb_ext V A A' B B' :
  eqV V A A' -> eqV V B B' -> smat_eqb V A B = smat_eqb V A' B'.
Proof.
  intros HA HB. apply eq_true_iff_eq. rewrite !smat_eqb_iff. split; intros H.
  - eapply eqV_trans; [apply eqV_sym; exact HA|]. eapply eqV_trans; [exact H | exact HB].
  - eapply eqV_trans; [exact HA|]. eapply eqV_trans; [exact H | apply eqV_sym; exact HB].
Qed.

Lemma forallb_false {T} (f : T -> bool) l :
  forallb f l = false -> exists x, In x l /\ f x = false.
Proof.
  induction l as [|a l IH]; simpl; [discriminate|].
  intros H. apply andb_false_iff in H. destruct H as [H|H].
  - exists a; auto.
  - destruct (IH H) as [x [Hx Hf]]. exists x; auto.
Qed.

Lemma smat_eqb_false V A B :
  smat_eqb V A B = false -> exists x y, In x V /\ In y V /\ A x y <> B x y.
Proof.
  unfold smat_eqb. intros H. apply forallb_false in H. destruct H as [x [Hx H]].
  apply forallb_false in H. destruct H as [y [Hy H]].
  exists x, y. repeat split; auto. intros E. apply sc_eqb_eq in E. congruence.
Qed.

(* ------------------------------------------------------------------ *)
(* the closure loop                                                    *)

(* one step of the iteration *)
Definition sstep (V : list string) (A X : smat) : smat := memo V (sadd sid (smul V X A)).

Lemma sstep_eq V A X x y : sstep V A X x y = ssum (sid x y) (smul V X A x y).
Proof. unfold sstep. rewrite memo_eq. reflexivity. Qed.

Lemma sstar_loop_S f V A X :
  sstar_loop (S f) V A X =
  if smat_eqb V (sstep V A X) X then Some X else sstar_loop f V A (sstep V A X).
Proof. reflexivity. Qed.

Lemma sstep_mono V A X Y : leV V X Y -> leV V (sstep V A X) (sstep V A Y).
Proof.
  intros H x y Hx Hy. rewrite !sstep_eq. apply ssum_mono; [apply sc_le_refl|].
  apply smul_mono; auto. apply leV_refl.
Qed.

Lemma sstep_ext V A A' X X' : eqV V A A' -> eqV V X X' -> eqV V (sstep V A X) (sstep V A' X').
Proof.
  intros HA HX x y Hx Hy. rewrite !sstep_eq. f_equal. apply smul_ext; auto.
Qed.

Lemma sstep_finite V A X : finite_on V A -> finite_on V X -> finite_on V (sstep V A X).
Proof.
  intros HA HX x y Hx Hy. rewrite sstep_eq. intros E. apply ssum_eq_I in E. destruct E as [E|E].
  - exact (sid_fin x y E).
  - exact (smul_finite V X A HX HA x y Hx Hy E).
Qed.

(* invariant principle: what the loop returns satisfies every step-invariant of the start, and
   is a fixed point of the step on V x V *)
Lemma sstar_loop_inv (P : smat -> Prop) V A :
  (forall X, P X -> P (sstep V A X)) ->
  forall fuel X R, P X -> sstar_loop fuel V A X = Some R -> P R /\ eqV V (sstep V A R) R.
Proof.
  intros Hstep. induction fuel as [|f IH]; intros X R HP H; [discriminate|].
  rewrite sstar_loop_S in H. destruct (smat_eqb V (sstep V A X) X) eqn:E.
  - inversion H; subst. split; [exact HP|]. apply smat_eqb_iff. exact E.
  - eapply IH; [|exact H]. apply Hstep. exact HP.
Qed.

Lemma is_fix_sstep V A X :
  eqV V X (sadd sid (smul V X A)) <-> eqV V (sstep V A X) X.
Proof.
  split; intros H x y Hx Hy.
  - rewrite sstep_eq. symmetry. apply H; auto.
  - rewrite <- (H x y Hx Hy). rewrite sstep_eq. reflexivity.
Qed.

Theorem sstar_sound : sstar_sound_stmt.
Proof.
  intros V A R _ HA H. unfold sstar in H.
  pose (P := fun X : smat => finite_on V X /\
               forall Y, eqV V Y (sadd sid (smul V Y A)) -> leV V X Y).
  assert (Hstep : forall X, P X -> P (sstep V A X)).
  { intros X [HF HL]. split.
    - apply sstep_finite; assumption.
    - intros Y HY. eapply leV_trans.
      + apply sstep_mono. apply HL. exact HY.
      + apply eqV_leV. apply is_fix_sstep. exact HY. }
  assert (H0 : P sid).
  { split.
    - intros x y _ _. apply sid_fin.
    - intros Y HY x y Hx Hy. rewrite (HY x y Hx Hy). unfold sadd. apply sc_le_ssum_l. }
  destruct (sstar_loop_inv P V A Hstep _ _ _ H0 H) as [[HF HL] Hfix].
  split; [split|].
  - apply is_fix_sstep. exact Hfix.
  - exact HL.
  - exact HF.
Qed.

Theorem is_star_unique : is_star_unique_stmt.
Proof.
  intros V A R R' [H1 L1] [H2 L2]. apply leV_antisym; auto.
Qed.

Lemma sstar_loop_ext V A A' : eqV V A A' -> forall fuel X X', eqV V X X' ->
  match sstar_loop fuel V A X, sstar_loop fuel V A' X' with
  | Some R, Some R' => eqV V R R'
  | None, None => True
  | _, _ => False
  end.
Proof.
  intros HA. induction fuel as [|f IH]; intros X X' HX; [simpl; trivial|].
  rewrite !sstar_loop_S.
  assert (HZ : eqV V (sstep V A X) (sstep V A' X')) by (apply sstep_ext; assumption).
  rewrite (smat_eqb_ext V _ (sstep V A' X') X X' HZ HX).
  destruct (smat_eqb V (sstep V A' X') X').
  - exact HX.
  - apply IH. exact HZ.
Qed.

Theorem sstar_ext : sstar_ext_stmt.
Proof.
  intros V A A' HA. unfold sstar. apply sstar_loop_ext; [exact HA | apply eqV_refl].
Qed.

(* ------------------------------------------------------------------ *)
(* termination within the fuel                                         *)

Definition nsum {T} (f : T -> nat) (l : list T) : nat := fold_right (fun k acc => f k + acc) 0 l.

Lemma nsum_le {T} (f g : T -> nat) l :
  (forall k, In k l -> f k <= g k) -> nsum f l <= nsum g l.
Proof.
  induction l as [|a l IH]; intros H; simpl; [lia|].
  assert (f a <= g a) by (apply H; left; reflexivity).
  assert (nsum f l <= nsum g l) by (apply IH; intros; apply H; right; assumption).
  lia.
Qed.

Lemma nsum_lt {T} (f g : T -> nat) l :
  (forall k, In k l -> f k <= g k) -> (exists k, In k l /\ f k < g k) -> nsum f l < nsum g l.
Proof.
  induction l as [|a l IH]; intros H [k [Hk Hlt]]; [destruct Hk|].
  simpl.
  assert (Ha : f a <= g a) by (apply H; left; reflexivity).
  assert (Hl : forall k, In k l -> f k <= g k) by (intros; apply H; right; assumption).
  destruct Hk as [->|Hk].
  - pose proof (nsum_le f g l Hl). lia.
  - assert (nsum f l < nsum g l) by (apply IH; [exact Hl | exists k; auto]). lia.
Qed.

Lemma nsum_bound {T} (f : T -> nat) l b : (forall k, f k <= b) -> nsum f l <= b * length l.
Proof.
  intros H. induction l as [|a l IH]; simpl; [lia|]. specialize (H a). lia.
Qed.

(* the measure: sum of the ranks of the entries on V x V *)
Definition mu (V : list string) (X : smat) : nat :=
  nsum (fun p => rank (X (fst p) (snd p))) (list_prod V V).

Lemma rank_le_4 s : rank s <= 4.
Proof. destruct s; simpl; lia. Qed.

Lemma mu_bound V X : mu V X <= 4 * (length V * length V).
Proof.
  unfold mu. rewrite <- (prod_length V V). apply nsum_bound. intros; apply rank_le_4.
Qed.

Lemma mu_lt V X Y : leV V X Y -> smat_eqb V Y X = false -> mu V X < mu V Y.
Proof.
  intros HL HE. unfold mu. apply nsum_lt.
  - intros [x y] Hp. apply in_prod_iff in Hp. destruct Hp. simpl. apply HL; assumption.
  - apply smat_eqb_false in HE. destruct HE as [x [y [Hx [Hy Hn]]]].
    exists (x, y). split; [apply in_prod_iff; auto|]. simpl.
    specialize (HL x y Hx Hy). unfold sc_le in HL.
    assert (rank (X x y) <> rank (Y x y)).
    { intros E. apply Hn. destruct (X x y), (Y x y); simpl in E; congruence. }
    lia.
Qed.

Lemma sstar_loop_total V A : forall fuel X,
  leV V X (sstep V A X) ->
  4 * (length V * length V) + 1 <= mu V X + fuel ->
  exists R, sstar_loop fuel V A X = Some R.
Proof.
  induction fuel as [|f IH]; intros X HL Hm.
  - pose proof (mu_bound V X). lia.
  - rewrite sstar_loop_S. destruct (smat_eqb V (sstep V A X) X) eqn:E.
    + eauto.
    + apply IH.
      * apply sstep_mono. exact HL.
      * pose proof (mu_lt V X (sstep V A X) HL E). lia.
Qed.

Theorem sstar_total : sstar_total_stmt.
Proof.
  intros V A _ _. unfold sstar. apply sstar_loop_total.
  - intros x y _ _. rewrite sstep_eq. apply sc_le_ssum_l.
  - lia.
Qed.

(* the hypotheses of the statements are satisfiable on a non-trivial instance *)
Example calc_alg_instance :
  let V := ["a"; "b"]%string in
  let A : smat := fun x y => if String.eqb x "a" && String.eqb y "b" then W else sid x y in
  NoDup V /\ finite_on V A /\
  match sstar V A with Some R => smat_table V R = [[M; W]; [O; M]] | None => False end.
Proof.
  split; [|split].
  - repeat constructor; simpl; intuition discriminate.
  - intros x y Hx Hy. simpl in Hx, Hy.
    destruct Hx as [<-|[<-|[]]]; destruct Hy as [<-|[<-|[]]]; discriminate.
  - vm_compute. reflexivity.
Qed.

Print Assumptions memo_ext.
Print Assumptions smul_assoc.
Print Assumptions smul_distr.
Print Assumptions smul_id.
Print Assumptions smul_ext.
Print Assumptions smul_mono.
Print Assumptions smul_finite.
Print Assumptions smul_restrict.
Print Assumptions sstar_sound.
Print Assumptions is_star_unique.
Print Assumptions sstar_ext.
Print Assumptions sstar_total.
