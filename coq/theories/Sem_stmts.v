(* Definitions and STATEMENTS (as Props) of the semantic lemma chain relating the analysis model to
   the calculus (DESIGN.md appendix A.2/A.3).  Proved in Calc_alg.v, Rel_fix.v, Rel_corr.v, An_leaf.v;
   used by An_main.v.  Keeping the statements here lets the pieces be developed in parallel. *)
From Coq Require Import String List Bool Arith Lia.
From PM Require Import Semiring Poly Poly_sem Poly_add Poly_times Rel Analysis Calculus Rel_sem.
From PMGen Require Import RulesGen.
Import ListNotations.
Open Scope list_scope.

Definition eqV (V : list string) (A B : smat) : Prop :=
  forall x y, In x V -> In y V -> A x y = B x y.
Definition leV (V : list string) (A B : smat) : Prop :=
  forall x y, In x V -> In y V -> sc_le (A x y) (B x y).
Definition finite_on (V : list string) (A : smat) : Prop :=
  forall x y, In x V -> In y V -> A x y <> I.
(* identity outside V' *)
Definition id_outside (V' : list string) (A : smat) : Prop :=
  forall x y, (~ In x V' \/ ~ In y V') -> A x y = sid x y.

(* S is the reflexive-transitive closure of A on V: least solution of X = 1 + X.A *)
Definition is_star (V : list string) (A St : smat) : Prop :=
  eqV V St (sadd sid (smul V St A)) /\
  (forall X, eqV V X (sadd sid (smul V X A)) -> leV V St X).

Definition rel_nfz (r : rel) : Prop := Forall (fun row => Forall NFz row) (rmat r).

Definition in_domain (cs : list nat) : Prop := Forall (fun v => v < 3) cs.

(* ---------------- P1: algebra of scalar matrices over a finite variable list ---------------- *)

Definition memo_ext_stmt : Prop := forall V A x y, memo V A x y = A x y.

Definition smul_assoc_stmt : Prop :=
  forall V A B C x y, smul V (smul V A B) C x y = smul V A (smul V B C) x y.

Definition smul_distr_stmt : Prop :=
  (forall V A B C x y, smul V A (sadd B C) x y = ssum (smul V A B x y) (smul V A C x y)) /\
  (forall V A B C x y, smul V (sadd A B) C x y = ssum (smul V A C x y) (smul V B C x y)).

Definition smul_id_stmt : Prop :=
  (forall V A x y, NoDup V -> finite_on V A -> In x V -> In y V -> smul V sid A x y = A x y) /\
  (forall V A x y, NoDup V -> finite_on V A -> In x V -> In y V -> smul V A sid x y = A x y).

Definition smul_ext_stmt : Prop :=
  forall V A A' B B', eqV V A A' -> eqV V B B' -> eqV V (smul V A B) (smul V A' B').

Definition smul_mono_stmt : Prop :=
  forall V A A' B B', leV V A A' -> leV V B B' -> leV V (smul V A B) (smul V A' B').

Definition smul_finite_stmt : Prop :=
  forall V A B, finite_on V A -> finite_on V B -> finite_on V (smul V A B).

(* summing over a larger list changes nothing when both factors are the identity outside V' *)
Definition smul_restrict_stmt : Prop :=
  forall V V' A B, NoDup V -> NoDup V' -> incl V' V -> id_outside V' A -> id_outside V' B ->
    finite_on V A -> finite_on V B ->
    forall x y, In x V -> In y V ->
      smul V A B x y = if mem_strb x V' && mem_strb y V' then smul V' A B x y else sid x y.

Definition sstar_sound_stmt : Prop :=
  forall V A St, NoDup V -> finite_on V A -> sstar V A = Some St -> is_star V A St /\ finite_on V St.

Definition is_star_unique_stmt : Prop :=
  forall V A St St', is_star V A St -> is_star V A St' -> eqV V St St'.

Definition sstar_ext_stmt : Prop :=
  forall V A A', eqV V A A' ->
    match sstar V A, sstar V A' with
    | Some St, Some St' => eqV V St St'
    | None, None => True
    | _, _ => False
    end.

(* the iteration reaches its fixed point within the fuel (a monotone chain in a lattice of height 4|V|^2) *)
Definition sstar_total_stmt : Prop :=
  forall V A, NoDup V -> finite_on V A -> exists St, sstar V A = Some St.

(* ---------------- P2: Relation.fixpoint ---------------- *)

Definition rel_fixpoint_sem_stmt : Prop :=
  forall fuel r f, wf_rel r -> rel_pwf r -> rel_fixpoint fuel r = Some f ->
    wf_rel f /\ rel_pwf f /\ rel_nfz f /\ rvars f = rvars r /\
    forall c, clean r c ->
      clean f c /\ is_star (rvars r) (rval r c) (rval f c) /\
      (forall x, In x (rvars r) ->
         (forall i, In i (rvars r) -> i <> x -> rval r c i x = O) ->
         (forall i, In i (rvars r) -> i <> x -> rval f c i x = O)).

(* ---------------- P3: the W and L corrections ---------------- *)

Definition while_correction_sem_stmt : Prop :=
  forall r, wf_rel r -> rel_pwf r ->
    let '(r', rec) := while_correction r in
    wf_rel r' /\ rel_pwf r' /\ rvars r' = rvars r /\
    forall c, clean r c ->
      ((exists s, In s rec /\ mmatch c s = true) <-> w_ok (rvars r) (rval r c) = false) /\
      ((forall s, In s rec -> mmatch c s = false) ->
         clean r' c /\ eqV (rvars r) (rval r' c) (rval r c)).

Definition loop_correction_sem_stmt : Prop :=
  forall r x, wf_rel r -> rel_pwf r -> rel_nfz r -> In x (rvars r) ->
    exists r' rec, loop_correction r x = Some (r', rec) /\
    wf_rel r' /\ rel_pwf r' /\ rvars r' = rvars r /\
    forall c, clean r c ->
      (forall v, In v (rvars r) -> sc_le M (rval r c v v)) ->
      (forall i, In i (rvars r) -> i <> x -> rval r c i x = O) ->
      ((exists s, In s rec /\ mmatch c s = true) <-> l_ok (rvars r) (rval r c) = false) /\
      ((forall s, In s rec -> mmatch c s = false) ->
         clean r' c /\ eqV (rvars r) (rval r' c) (l_extend (rvars r) x (rval r c))).

(* ---------------- P4: leaves ---------------- *)

(* what a leaf of the analysis yields, against the calculus leaf with the same index *)
Definition leaf_ok (res : res cr) (d : dgraph) (dr : dres) (cs : list nat) : Prop :=
  match res with
  | RErr _ => fst dr = None
  | ROk r =>
      cr_dg r = d /\ cr_exit r = false /\ cr_index r = snd dr /\
      wf_rel (cr_rel r) /\ rel_pwf (cr_rel r) /\
      match fst dr with
      | None => False
      | Some A =>
          clean (cr_rel r) (choice_of_list cs) /\
          id_outside (rvars (cr_rel r)) A /\
          eqV (rvars (cr_rel r)) (rval (cr_rel r) (choice_of_list cs)) A
      end
  end.

Definition an_binary_sem_stmt : Prop :=
  forall index x op y z d cs, x <> EmptyString ->
    (forall v, atom_name y = Some v -> v <> EmptyString) ->
    (forall v, atom_name z = Some v -> v <> EmptyString) ->
    in_domain cs ->
    leaf_ok (an_binary index x op y z d) d (d_bin x op y z cs index) cs /\
    (forall r, an_binary index x op y z d = ROk r ->
       forall v, In v (rvars (cr_rel r)) -> In v (x :: atom_vars y ++ atom_vars z)).

Definition an_constant_sem_stmt : Prop :=
  forall index x d cs, x <> EmptyString ->
    leaf_ok (an_constant index x d) d (Some (leaf_const x), index) cs /\
    (forall r, an_constant index x d = ROk r -> rvars (cr_rel r) = [x]).

Definition an_id_sem_stmt : Prop :=
  forall index x y d cs, x <> EmptyString -> y <> EmptyString ->
    leaf_ok (an_id index x y d) d (Some (leaf_copy x y), index) cs /\
    (forall r, an_id index x y d = ROk r -> forall v, In v (rvars (cr_rel r)) -> v = x \/ v = y).

Definition skip_sem_stmt : Prop :=
  forall index d cs, leaf_ok (skip index d) d (Some sid, index) cs.
