(* C14 -- leaf lemmas: the JSON codecs of names, choice vectors, monomials / matrices, bounds are
   inverted by their readers; dictionaries with distinct keys; well-formedness predicates. *)
From Coq Require Import String Ascii List Bool ZArith Arith Lia.
From PMGen Require Import ResultGen.
From PM Require Import Semiring Poly Rel Json Result.
From PM Require Bound Bound_syntax Bound_proofs Bound_text Choice.
Import ListNotations.
Open Scope string_scope.
Open Scope list_scope.

(* ------------------------------------------------------------------ well-formedness *)

(* deltas sorted by strictly increasing index (Monomial's invariant) *)
Fixpoint ds_sorted (l : list delta) : Prop :=
  match l with
  | [] => True
  | d :: t => (match t with [] => True | d' :: _ => snd d < snd d' end) /\ ds_sorted t
  end.

Definition wf_mono (m : mono) : Prop := ds_sorted (ds m).
Definition wf_poly (p : poly) : Prop := p <> [] /\ Forall wf_mono p.
Definition wf_matrix (m : matrix) : Prop := Forall (Forall wf_poly) m.

(* a relation over the variables [vars] *)
Definition wf_rel (vars : list string) (r : rel) : Prop :=
  rvars r = vars /\ Forall (fun v => v <> "") vars /\ length (rmat r) = length vars /\ wf_matrix (rmat r).

(* a name that can be listed in a bound string: non-empty, no ',' and no ';' *)
Definition wf_name (s : Bound.str) : Prop := Bound_syntax.csv_name s.

Definition wf_mb (b : Bound.MwpBound) : Prop :=
  Forall wf_name (Bound.hp_variables (Bound.bx b)) /\
  Forall wf_name (Bound.hp_variables (Bound.by_ b)) /\
  Forall wf_name (Bound.hp_variables (Bound.bz b)).

Definition wf_bd (bd : Bound.bdict) : Prop :=
  NoDup (map fst bd) /\ Forall (fun kv => wf_mb (snd kv)) bd.

(* a choice object as Choices.generate / Choices() build it: the index is the length of the vectors *)
Definition wf_choices (c : Choice.choices) : Prop :=
  match Choice.valid c with
  | [] => Choice.index c = (-1)%Z
  | v0 :: _ => Choice.index c = Z.of_nat (length v0)
  end.

(* what MwpBound(b.bound_str) is: the same three sets, listed in sorted order *)
Definition canon_mb (b : Bound.MwpBound) : Bound.MwpBound :=
  Bound.mb_of_lists (Bound.sort_uniq (Bound.hp_variables (Bound.bx b)))
                    (Bound.sort_uniq (Bound.hp_variables (Bound.by_ b)))
                    (Bound.sort_uniq (Bound.hp_variables (Bound.bz b))).

Definition canon_bd (bd : Bound.bdict) : Bound.bdict := map (fun kv => (fst kv, canon_mb (snd kv))) bd.

(* ------------------------------------------------------------------ res *)

Lemma map_res_map {A B C} (f : B -> res C) (g : A -> B) (h : A -> C) l :
  (forall x, In x l -> f (g x) = Ok (h x)) -> map_res f (map g l) = Ok (map h l).
Proof.
  induction l as [|a l IH]; intros H; [reflexivity|].
  cbn [map map_res]. rewrite H by (now left). cbn [bind].
  rewrite IH by (intros; apply H; now right). reflexivity.
Qed.

Lemma map_res_ok {A C} (f : A -> res C) (h : A -> C) l :
  (forall x, In x l -> f x = Ok (h x)) -> map_res f l = Ok (map h l).
Proof. intros H. rewrite <- (map_id l) at 1. now apply map_res_map. Qed.

(* ------------------------------------------------------------------ strings *)

Lemma S2L_L2S s : S2L (L2S s) = s.
Proof. apply list_ascii_of_string_of_list_ascii. Qed.

Lemma L2S_S2L s : L2S (S2L s) = s.
Proof. apply string_of_list_ascii_of_string. Qed.

Lemma L2S_inj a b : L2S a = L2S b -> a = b.
Proof. intros H. rewrite <- (S2L_L2S a), <- (S2L_L2S b), H. reflexivity. Qed.

Lemma j_strs l : map_res j_str (map jstr l) = Ok l.
Proof. rewrite (map_res_map _ _ (fun x => x)); [now rewrite map_id | reflexivity]. Qed.

Lemma as_strs_jstrs l : as_strs (VJ (jstrs l)) = Ok l.
Proof. apply j_strs. Qed.

(* ------------------------------------------------------------------ dictionaries with distinct keys *)

Lemma dset_fresh {V} (d : list (string * V)) k v : ~ In k (map fst d) -> dset d k v = d ++ [(k, v)].
Proof.
  induction d as [|[k' v'] d IH]; intros H; [reflexivity|].
  cbn [dset]. destruct (String.eqb k k') eqn:E.
  - apply String.eqb_eq in E. subst. exfalso. apply H. now left.
  - rewrite IH; [reflexivity|]. intro. apply H. now right.
Qed.

Lemma dmerge_nodup {V} (b a : list (string * V)) :
  NoDup (map fst (a ++ b)) -> dmerge a b = a ++ b.
Proof.
  unfold dmerge. revert a. induction b as [|[k v] b IH]; intros a H; cbn [fold_left].
  - now rewrite app_nil_r.
  - cbn [fst snd]. rewrite dset_fresh.
    + rewrite IH; rewrite <- app_assoc; [reflexivity | exact H].
    + rewrite map_app in H. apply NoDup_remove_2 in H. intro Hin. apply H.
      rewrite <- map_app. rewrite map_app. apply in_or_app. now left.
Qed.

Lemma dict_of_nodup {V} (l : list (string * V)) : NoDup (map fst l) -> dict_of l = l.
Proof. intros H. exact (dmerge_nodup l [] H). Qed.

Lemma dget_app_fresh {V} (a b : list (string * V)) k :
  ~ In k (map fst a) -> dget (a ++ b) k = dget b k.
Proof.
  induction a as [|[k' v'] a IH]; intros H; [reflexivity|].
  cbn [app dget]. destruct (String.eqb k k') eqn:E.
  - apply String.eqb_eq in E. subst. exfalso. apply H. now left.
  - apply IH. intro. apply H. now right.
Qed.

(* ------------------------------------------------------------------ naturals, choice vectors *)

Lemma j_nat_jnat n : j_nat (jnat n) = Ok n.
Proof.
  unfold j_nat, jnat. destruct (0 <=? Z.of_nat n)%Z eqn:E; [now rewrite Nat2Z.id|].
  apply Z.leb_gt in E. lia.
Qed.

Lemma j_nats l : map_res j_nat (map jnat l) = Ok l.
Proof. rewrite (map_res_map _ _ (fun x => x)); [now rewrite map_id | intros; apply j_nat_jnat]. Qed.

Lemma j_valid_json v : j_valid (valid_json v) = Ok v.
Proof.
  unfold j_valid, valid_json, j_list.
  rewrite (map_res_map _ _ (fun x => x)); [now rewrite map_id|].
  intros b _. rewrite (map_res_map _ _ (fun x => x)); [now rewrite map_id|].
  intros e _. apply j_nats.
Qed.

Lemma choices_init_wf c : wf_choices c -> Choice.valid c <> [] -> choices_init (Choice.valid c) = c.
Proof.
  unfold wf_choices, choices_init, Choice.mk_choices. destruct c as [v i]. cbn [Choice.valid Choice.index].
  destruct v as [|v0 v]; [congruence|]. intros -> _. reflexivity.
Qed.

Lemma choices_init_nil c : wf_choices c -> Choice.valid c = [] -> choices_init (Choice.valid c) = c.
Proof.
  unfold wf_choices, choices_init, Choice.mk_choices. destruct c as [v i]. cbn [Choice.valid Choice.index].
  intros H ->. now rewrite H.
Qed.

Lemma choices_init_any c : wf_choices c -> choices_init (Choice.valid c) = c.
Proof.
  intros H. destruct (Choice.valid c) eqn:E.
  - rewrite <- E. now apply choices_init_nil.
  - rewrite <- E. apply choices_init_wf; [exact H | congruence].
Qed.

Lemma wf_nonempty_not_infinite c : Choice.valid c <> [] -> Choice.infinite c = false.
Proof. unfold Choice.infinite. destruct (Choice.valid c); [congruence | reflexivity]. Qed.

(* ------------------------------------------------------------------ monomials, matrices *)

Lemma insert_delta_last l d :
  (forall e, In e l -> snd e < snd d) -> insert_delta l d = Some (l ++ [d]).
Proof.
  induction l as [|h t IH]; intros H; [reflexivity|].
  cbn [insert_delta]. assert (Hh : snd h < snd d) by (apply H; now left).
  apply Nat.ltb_lt in Hh. rewrite Hh. rewrite IH by (intros; apply H; now right). reflexivity.
Qed.

Lemma ds_sorted_lt d t : ds_sorted (d :: t) -> forall e, In e t -> snd d < snd e.
Proof.
  revert d. induction t as [|h t IH]; intros d H e He; [destruct He|].
  destruct H as [H1 H2]. destruct He as [<-|He]; [exact H1|].
  specialize (IH h H2 e He). lia.
Qed.

Lemma ds_sorted_app_last cur d :
  ds_sorted (cur ++ [d]) -> forall e, In e cur -> snd e < snd d.
Proof.
  induction cur as [|h t IH]; intros H e He; [destruct He|].
  destruct He as [<-|He].
  - apply (ds_sorted_lt h (t ++ [d]) H). apply in_or_app. right. now left.
  - apply IH; [|exact He]. destruct H as [_ H]. exact H.
Qed.

Lemma ds_sorted_prefix a b : ds_sorted (a ++ b) -> ds_sorted a.
Proof.
  induction a as [|h t IH]; intros H; [exact Logic.I|].
  destruct H as [H1 H2]. split; [|now apply IH].
  destruct t; [exact Logic.I | exact H1].
Qed.

Lemma insert_deltas_sorted s new : forall cur,
  ds_sorted (cur ++ new) -> insert_deltas s cur new = Mono s (cur ++ new).
Proof.
  induction new as [|d t IH]; intros cur H; cbn [insert_deltas].
  - now rewrite app_nil_r.
  - rewrite insert_delta_last.
    + rewrite IH; rewrite <- app_assoc; [reflexivity | exact H].
    + apply ds_sorted_app_last. apply (ds_sorted_prefix (cur ++ [d]) t). now rewrite <- app_assoc.
Qed.

Lemma mk_mono_wf m : wf_mono m -> mk_mono (sc m) (ds m) = m.
Proof. intros H. unfold mk_mono. rewrite insert_deltas_sorted by exact H. now destruct m. Qed.

Lemma j_deltas l :
  map_res j_delta (map (fun d : delta => jarr [jnat (fst d); jnat (snd d)]) l) = Ok l.
Proof.
  rewrite (map_res_map _ _ (fun x => x)); [now rewrite map_id|].
  intros [a b] _. cbn [j_delta fst snd]. rewrite !j_nat_jnat. reflexivity.
Qed.

Lemma j_mono_json m : wf_mono m -> j_mono (mono_json m) = Ok m.
Proof.
  intros H. unfold j_mono, mono_json, item. cbn [dget String.eqb Ascii.eqb Bool.eqb bind j_str j_list].
  rewrite j_deltas. cbn [bind]. rewrite sc_of_str_str. now rewrite mk_mono_wf.
Qed.

Lemma decode_encode m : wf_matrix m -> decode (encode m) = Ok m.
Proof.
  intros H. unfold decode, encode, j_list.
  rewrite (map_res_map _ _ (fun x => x)); [now rewrite map_id|].
  intros row Hrow. rewrite (map_res_map _ _ (fun x => x)); [now rewrite map_id|].
  intros p Hp. unfold wf_matrix in H. rewrite Forall_forall in H. specialize (H row Hrow).
  rewrite Forall_forall in H. destruct (H p Hp) as [Hne Hm].
  rewrite (map_res_map _ _ (fun x => x)).
  - cbn [bind]. rewrite map_id. destruct p; [congruence | reflexivity].
  - intros mo Hmo. rewrite Forall_forall in Hm. apply j_mono_json, Hm, Hmo.
Qed.

Lemma filter_nonempty vars : Forall (fun v => v <> "") vars -> filter nonempty_str vars = vars.
Proof.
  induction 1 as [|v l Hv _ IH]; [reflexivity|]. cbn [filter]. unfold nonempty_str at 1.
  apply String.eqb_neq in Hv. rewrite Hv. cbn [negb]. now rewrite IH.
Qed.

Lemma mk_rel_wf vars r : wf_rel vars r -> mk_rel vars (rmat r) = r.
Proof.
  intros (Hv & Hne & Hlen & _). unfold mk_rel. rewrite filter_nonempty by exact Hne.
  destruct r as [rv rm]. cbn [rvars rmat] in *. subst rv.
  destruct rm; [|reflexivity]. destruct vars; [reflexivity | discriminate].
Qed.

(* ------------------------------------------------------------------ bounds *)

Lemma bound_str_lists b :
  Bound.bound_str b = Bound.bound_str (Bound.mb_of_lists (Bound.hp_variables (Bound.bx b))
                                                         (Bound.hp_variables (Bound.by_ b))
                                                         (Bound.hp_variables (Bound.bz b))).
Proof. destruct b as [[? ?] [? ?] [? ?]]. reflexivity. Qed.

Lemma mb_init_bound_str b : wf_mb b -> Bound.mb_init (Some (Bound.bound_str b)) = Some (canon_mb b).
Proof.
  intros (Hx & Hy & Hz). rewrite bound_str_lists. now apply Bound_text.mb_init_bound_str.
Qed.

Lemma bound_str_canon b : Bound.bound_str (canon_mb b) = Bound.bound_str b.
Proof.
  rewrite (bound_str_lists b). unfold canon_mb, Bound.bound_str.
  now rewrite Bound_text.bound_triple_sorted.
Qed.

Lemma mb_eqb_lists b :
  Bound.mb_eqb (canon_mb b) b = true.
Proof.
  destruct b as [[o1 x] [o2 y] [o3 z]]. unfold canon_mb. cbn [Bound.bx Bound.by_ Bound.bz Bound.hp_variables].
  exact (Bound_text.mb_eqb_sorted x y z).
Qed.

Lemma j_mwp_bound_str b : wf_mb b -> j_mwp (jstr (L2S (Bound.bound_str b))) = Ok (canon_mb b).
Proof.
  intros H. unfold j_mwp. cbn [j_str bind]. rewrite S2L_L2S, mb_init_bound_str by exact H. reflexivity.
Qed.

Lemma wf_mb_canon b : wf_mb b -> wf_mb (canon_mb b).
Proof.
  intros (Hx & Hy & Hz). unfold wf_mb, canon_mb. cbn.
  repeat split; apply Bound_proofs.Forall_sort_uniq; assumption.
Qed.

(* a bound string is never empty (it contains the two separators) *)
Lemma joinl3_nonempty (a b c : Bound.str) :
  Bound.joinl (Bound.L ";") [a; b; c] <> [].
Proof. cbn. destruct a; discriminate. Qed.

Lemma bound_str_nonempty b : L2S (Bound.bound_str b) <> "".
Proof.
  unfold Bound.bound_str. destruct (Bound.bound_triple b) as [[x y] z]. cbn [map].
  intro H. apply (f_equal S2L) in H. rewrite S2L_L2S in H. now apply joinl3_nonempty in H.
Qed.

Lemma NoDup_map_L2S (l : list Bound.str) : NoDup l -> NoDup (map L2S l).
Proof.
  induction 1 as [|a l Ha _ IH]; [constructor|]. cbn [map]. constructor; [|exact IH].
  intro Hin. apply in_map_iff in Hin. destruct Hin as (b & Hb & Hin). apply L2S_inj in Hb. subst. contradiction.
Qed.

Lemma bound_init_canon bd : Forall (fun kv => wf_mb (snd kv)) bd ->
  Bound.bound_init (map (fun kv => (fst kv, Bound.bound_str (snd kv))) bd) = Some (canon_bd bd).
Proof.
  induction 1 as [|[k b] l Hb _ IH]; [reflexivity|].
  cbn [map Bound.bound_init fst snd]. rewrite mb_init_bound_str by exact Hb. rewrite IH. reflexivity.
Qed.

Lemma bound_json_entries bd : NoDup (map fst bd) ->
  bound_json bd = jobj (map (fun kv => (L2S (fst kv), jstr (L2S (Bound.bound_str (snd kv))))) bd).
Proof.
  intros H. unfold bound_json, Bound.to_dict. rewrite map_map. cbn [fst snd].
  rewrite dict_of_nodup; [reflexivity|]. rewrite map_map. cbn [fst].
  rewrite <- (map_map fst L2S). now apply NoDup_map_L2S.
Qed.

Lemma j_bound_json bd : wf_bd bd -> j_bound (bound_json bd) = Ok (canon_bd bd).
Proof.
  intros [Hn Hw]. rewrite bound_json_entries by exact Hn. unfold j_bound.
  destruct bd as [|kv0 bd0] eqn:E; [reflexivity|]. rewrite <- E in *.
  assert (T : truthy (jobj (map (fun kv => (L2S (fst kv), jstr (L2S (Bound.bound_str (snd kv))))) bd)) = true)
    by (rewrite E; reflexivity).
  rewrite T.
  rewrite (map_res_map _ _ (fun kv => (fst kv, Bound.bound_str (snd kv)))).
  - cbn [bind]. rewrite bound_init_canon by exact Hw. reflexivity.
  - intros [k b] _. cbn [fst snd j_str bind]. now rewrite !S2L_L2S.
Qed.

Lemma bound_json_canon bd : NoDup (map fst bd) -> bound_json (canon_bd bd) = bound_json bd.
Proof.
  intros H. rewrite !bound_json_entries; [| exact H | unfold canon_bd; rewrite map_map; exact H].
  unfold canon_bd. rewrite map_map. f_equal. apply map_ext. intros [k b]. cbn [fst snd].
  now rewrite bound_str_canon.
Qed.

(* Bound.__eq__ of the reloaded bound and the original *)
Lemma dict_get_refl_in (bd : Bound.bdict) k :
  In k (map fst bd) -> exists b, Bound.dict_get bd k = Some b /\ In (k, b) bd.
Proof.
  induction bd as [|[k' b'] bd IH]; intros H; [destruct H|].
  cbn [Bound.dict_get]. destruct (Bound.str_eqb k k') eqn:E.
  - apply Bound_proofs.str_eqb_eq in E. subst. eexists. split; [reflexivity | now left].
  - destruct H as [H|H]; [cbn in H; subst; now rewrite Bound_proofs.str_eqb_refl in E|].
    destruct (IH H) as (b & Hb & Hin). exists b. split; [exact Hb | now right].
Qed.

Lemma dict_get_canon bd k :
  Bound.dict_get (canon_bd bd) k = option_map canon_mb (Bound.dict_get bd k).
Proof.
  induction bd as [|[k' b'] bd IH]; [reflexivity|].
  cbn [canon_bd map Bound.dict_get fst snd]. destruct (Bound.str_eqb k k'); [reflexivity | exact IH].
Qed.

Lemma list_eqb_refl {A} (e : A -> A -> bool) (H : forall a, e a a = true) l : list_eqb e l l = true.
Proof. induction l as [|a l IH]; [reflexivity|]. cbn. now rewrite H, IH. Qed.

Lemma bd_eqb_canon bd : bd_eqb (canon_bd bd) bd = true.
Proof.
  unfold bd_eqb, Bound.bound_variables.
  assert (E : map fst (canon_bd bd) = map fst bd) by (unfold canon_bd; rewrite map_map; reflexivity).
  rewrite E, list_eqb_refl by apply Bound_proofs.str_eqb_refl. cbn [andb].
  apply forallb_forall. intros k Hk. rewrite dict_get_canon.
  destruct (dict_get_refl_in bd k Hk) as (b & -> & _). cbn [option_map]. apply mb_eqb_lists.
Qed.

(* polynomial equality is reflexive: identical matrices are Polynomial.equal cell by cell *)
Lemma poly_eqb_refl p : poly_eqb p p = true.
Proof.
  apply list_eqb_refl. intros m. unfold mono_eqb. rewrite sc_eqb_refl. cbn [andb].
  apply list_eqb_refl. intros [a b]. unfold delta_eqb. cbn. now rewrite !Nat.eqb_refl.
Qed.
