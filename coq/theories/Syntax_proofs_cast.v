(* C18, casts: what the DISPATCH of Analysis.compute_relation (Syntax.cr_step) does with a cast,
   for ALL trees.
   (1) one cast around the whole right-hand side of an assignment is looked through: the kinds of
       the events are those of the un-cast assignment (paths differ by the ("expr",0) step).  The
       unwrapping is ONE level deep: `x = (int)(int)y` is sent to the warn-and-skip path although
       `x = (int)y` is a flow.  The exact condition is given ([cast_rhs_transparent_iff]).
   (2) casts around the operands of a binary operation: [binary_op_events] reads its operands
       through [rm_cast] only, which removes any number of casts and is idempotent.
   (3) a cast STATEMENT `(T)x++;` is not looked through: warn-and-skip. *)
From Coq Require Import String List Bool Arith.
From PMGen Require Import SyntaxGen PycSchema.
From PM Require Import Tree Syntax Syntax_proofs.
Import ListNotations.
Open Scope string_scope.
Open Scope list_scope.

(* ---------- kinds ---------- *)
Definition ekind_of (e : event) : ekind := let 'Ev k _ := e in k.
Definition kinds (l : list event) : list ekind := map ekind_of l.

(* ---------- equations ---------- *)
Lemma cr_eq c a ks : cr_events (Node c a ks) = cr_step c a ks (annk cr_step ks).
Proof. reflexivity. Qed.

(* the rule an (uncast) right-hand side [r] selects; [rp] = its path from the statement *)
Definition rv_events (r : node) (rp : path) : list event :=
  match find (fun cf => is_cls (fst cf) r) CR_ASSIGN_RV with
  | Some (_, fn) =>
    if String.eqb fn "binary_op" then binary_op_events r
    else if String.eqb fn "constant" then [Ev KFlow []]
    else if String.eqb fn "unary_asgn" then unary_asgn_events r rp
    else if String.eqb fn "id" then [Ev KFlow []]
    else [Ev KRaise []]
  | None => [Ev KUnsupported []]
  end.

(* compute_relation on an Assignment, as a function of its two children *)
Definition asg_events (lv rv0 : option node) : list event :=
  if ois_cls "ID" lv then
    if ois_cls "Cast" rv0
    then match (match rv0 with Some r => kid1 r "expr" | None => None end) with
         | Some r => rv_events r [("rvalue", 0); ("expr", 0)]
         | None => [Ev KUnsupported []]
         end
    else match rv0 with
         | Some r => rv_events r [("rvalue", 0)]
         | None => [Ev KUnsupported []]
         end
  else [Ev KUnsupported []].

Lemma cr_assignment a ks :
  cr_events (Node "Assignment" a ks) =
  asg_events (kid1 (Node "Assignment" a ks) "lvalue") (kid1 (Node "Assignment" a ks) "rvalue").
Proof.
  rewrite cr_eq.
  change (cr_step "Assignment" a ks (annk cr_step ks)) with
      (if ois_cls "ID" (kid1 (Node "Assignment" a ks) "lvalue") then
         let rv0 := kid1 (Node "Assignment" a ks) "rvalue" in
         let cast := CR_ASSIGN_UNWRAPS_CAST && ois_cls "Cast" rv0 in
         let rv := if cast then match rv0 with Some r => kid1 r "expr" | None => None end else rv0 in
         let rp := if cast then [("rvalue", 0); ("expr", 0)] else [("rvalue", 0)] in
         match rv with
         | Some r =>
           match find (fun cf => is_cls (fst cf) r) CR_ASSIGN_RV with
           | Some (_, fn) =>
             if String.eqb fn "binary_op" then binary_op_events r
             else if String.eqb fn "constant" then [Ev KFlow []]
             else if String.eqb fn "unary_asgn" then unary_asgn_events r rp
             else if String.eqb fn "id" then [Ev KFlow []]
             else [Ev KRaise []]
           | None => [Ev KUnsupported []]
           end
         | None => [Ev KUnsupported []]
         end
       else [Ev KUnsupported []]).
  unfold asg_events, rv_events. change CR_ASSIGN_UNWRAPS_CAST with true. cbv zeta. cbn [andb].
  destruct (ois_cls "ID" (kid1 (Node "Assignment" a ks) "lvalue")); [|reflexivity].
  destruct (ois_cls "Cast" (kid1 (Node "Assignment" a ks) "rvalue")); reflexivity.
Qed.

(* ---------- (1) a cast around the whole right-hand side ---------- *)
Lemma kinds_unary_asgn u rp rp' : kinds (unary_asgn_events u rp) = kinds (unary_asgn_events u rp').
Proof.
  unfold unary_asgn_events.
  destruct (attr_is u "op" OP_SIZEOF); [reflexivity|].
  destruct (attr_is u "op" OP_NEG); [reflexivity|].
  destruct (ois_cls "Constant" (kid1 u "expr")); [reflexivity|].
  destruct (_ && _); reflexivity.
Qed.

Lemma kinds_rv_events r rp rp' : kinds (rv_events r rp) = kinds (rv_events r rp').
Proof.
  unfold rv_events. destruct (find _ CR_ASSIGN_RV) as [[cs fn]|]; [|reflexivity].
  destruct (String.eqb fn "binary_op"); [reflexivity|].
  destruct (String.eqb fn "constant"); [reflexivity|].
  destruct (String.eqb fn "unary_asgn"); [apply kinds_unary_asgn|].
  destruct (String.eqb fn "id"); reflexivity.
Qed.

(* no rule of the assignment table is for a Cast *)
Lemma rv_events_cast r rp : is_cls "Cast" r = true -> rv_events r rp = [Ev KUnsupported []].
Proof.
  destruct r as [c a ks]. unfold is_cls. cbn [ncls]. intros H. apply String.eqb_eq in H. subst c. reflexivity.
Qed.

(* the general form: any two Assignment nodes with the same lvalue child *)
Lemma cast_rhs_kinds_gen a1 ks1 a2 ks2 c e :
  kid1 (Node "Assignment" a1 ks1) "lvalue" = kid1 (Node "Assignment" a2 ks2) "lvalue" ->
  kid1 (Node "Assignment" a1 ks1) "rvalue" = Some c ->
  kid1 (Node "Assignment" a2 ks2) "rvalue" = Some e ->
  is_cls "Cast" c = true -> kid1 c "expr" = Some e ->
  kinds (cr_events (Node "Assignment" a1 ks1)) =
  if ois_cls "ID" (kid1 (Node "Assignment" a2 ks2) "lvalue") && is_cls "Cast" e then [KUnsupported]
  else kinds (cr_events (Node "Assignment" a2 ks2)).
Proof.
  intros Hlv Hc He Cc Ce. rewrite !cr_assignment. rewrite Hlv, Hc, He. unfold asg_events.
  destruct (ois_cls "ID" (kid1 (Node "Assignment" a2 ks2) "lvalue")); [|reflexivity].
  cbn [ois_cls andb]. rewrite Cc, Ce.
  destruct (is_cls "Cast" e) eqn:E.
  - rewrite (rv_events_cast e _ E). reflexivity.
  - apply kinds_rv_events.
Qed.

Theorem cast_rhs_transparent_gen a1 ks1 a2 ks2 c e :
  kid1 (Node "Assignment" a1 ks1) "lvalue" = kid1 (Node "Assignment" a2 ks2) "lvalue" ->
  kid1 (Node "Assignment" a1 ks1) "rvalue" = Some c ->
  kid1 (Node "Assignment" a2 ks2) "rvalue" = Some e ->
  is_cls "Cast" c = true -> kid1 c "expr" = Some e ->
  is_cls "Cast" e = false ->
  map ekind_of (cr_events (Node "Assignment" a1 ks1)) = map ekind_of (cr_events (Node "Assignment" a2 ks2)).
Proof.
  intros Hlv Hc He Cc Ce E. pose proof (cast_rhs_kinds_gen a1 ks1 a2 ks2 c e Hlv Hc He Cc Ce) as H.
  rewrite E, andb_false_r in H. exact H.
Qed.

(* exact description, literal statement shape *)
Theorem cast_rhs_kinds a lv c e :
  is_cls "Cast" c = true -> kid1 c "expr" = Some e ->
  map ekind_of (cr_events (Node "Assignment" a [("lvalue", [lv]); ("rvalue", [c])])) =
  if is_cls "ID" lv && is_cls "Cast" e then [KUnsupported]
  else map ekind_of (cr_events (Node "Assignment" a [("lvalue", [lv]); ("rvalue", [e])])).
Proof.
  intros Cc Ce.
  exact (cast_rhs_kinds_gen a [("lvalue", [lv]); ("rvalue", [c])] a [("lvalue", [lv]); ("rvalue", [e])] c e
                            eq_refl eq_refl eq_refl Cc Ce).
Qed.

(* the requested statement *)
Theorem cast_rhs_transparent a lv c e :
  kid1 c "expr" = Some e /\ is_cls "Cast" c = true ->
  is_cls "Cast" e = false ->
  map ekind_of (cr_events (Node "Assignment" a [("lvalue", [lv]); ("rvalue", [c])])) =
  map ekind_of (cr_events (Node "Assignment" a [("lvalue", [lv]); ("rvalue", [e])])).
Proof.
  intros [Ce Cc] E. rewrite (cast_rhs_kinds a lv c e Cc Ce), E, andb_false_r. reflexivity.
Qed.

(* with the literal cast node of pycparser's schema: Cast(to_type, expr) *)
Corollary cast_rhs_transparent_literal a lv ca t e :
  is_cls "Cast" e = false ->
  map ekind_of (cr_events (Node "Assignment" a [("lvalue", [lv]); ("rvalue", [Node "Cast" ca [("to_type", [t]); ("expr", [e])]])])) =
  map ekind_of (cr_events (Node "Assignment" a [("lvalue", [lv]); ("rvalue", [e])])).
Proof. intros E. apply cast_rhs_transparent; [split; reflexivity | exact E]. Qed.

(* the weakest side condition: the cast is transparent exactly when the target is not an identifier
   (both sides skipped), or the inner expression is not itself a cast, or the un-cast statement is
   sent to the warn-and-skip path anyway *)
Theorem cast_rhs_transparent_iff a lv c e :
  kid1 c "expr" = Some e /\ is_cls "Cast" c = true ->
  (map ekind_of (cr_events (Node "Assignment" a [("lvalue", [lv]); ("rvalue", [c])])) =
   map ekind_of (cr_events (Node "Assignment" a [("lvalue", [lv]); ("rvalue", [e])]))
   <->
   is_cls "ID" lv = false \/ is_cls "Cast" e = false \/
   map ekind_of (cr_events (Node "Assignment" a [("lvalue", [lv]); ("rvalue", [e])])) = [KUnsupported]).
Proof.
  intros [Ce Cc]. rewrite (cast_rhs_kinds a lv c e Cc Ce).
  destruct (is_cls "ID" lv); [|split; [left; reflexivity | reflexivity]].
  destruct (is_cls "Cast" e); cbn [andb].
  - split; [intros H; right; right; symmetry; exact H | intros [H|[H|H]]; [discriminate | discriminate | symmetry; exact H]].
  - split; [right; left; reflexivity | reflexivity].
Qed.

(* the condition is needed.  x = (int)(int)y  against  x = (int)y *)
Definition id_ (s : string) : node := Node "ID" [("name", s)] [].
Definition int_t : node :=
  Node "Typename" [("quals", ""); ("align", "")]
       [("type", [Node "TypeDecl" [("quals", ""); ("align", "")] [("type", [Node "IdentifierType" [("names", "int")] []])]])].
Definition cast_ (e : node) : node := Node "Cast" [] [("to_type", [int_t]); ("expr", [e])].
Definition asg_ (lv rv : node) : node := Node "Assignment" [("op", "=")] [("lvalue", [lv]); ("rvalue", [rv])].

Example cast_twice_not_transparent :
  let e := cast_ (id_ "y") in
  let c := cast_ e in
  wf_pyc (asg_ (id_ "x") c) = true /\
  (kid1 c "expr" = Some e /\ is_cls "Cast" c = true) /\
  map ekind_of (cr_events (asg_ (id_ "x") c)) = [KUnsupported] /\
  map ekind_of (cr_events (asg_ (id_ "x") e)) = [KFlow] /\
  map ekind_of (cr_events (asg_ (id_ "x") c)) <> map ekind_of (cr_events (asg_ (id_ "x") e)).
Proof. vm_compute. repeat split. discriminate. Qed.

(* non-vacuity of the theorem: x = (int)!y has the kinds of x = !y, the paths differ *)
Example cast_once_example :
  let e := Node "UnaryOp" [("op", "!")] [("expr", [id_ "y"])] in
  cr_events (asg_ (id_ "x") (cast_ e)) = [Ev KFlow []; Ev KDropEval [("rvalue", 0); ("expr", 0); ("expr", 0)]] /\
  cr_events (asg_ (id_ "x") e) = [Ev KFlow []; Ev KDropEval [("rvalue", 0); ("expr", 0)]].
Proof. vm_compute. split; reflexivity. Qed.

(* ---------- (2) casts around the operands of a binary operation ---------- *)
Lemma rm_cast_eq c a ks :
  rm_cast (Node c a ks) = if String.eqb c "Cast" then match kid1 (Node c a ks) "expr" with Some e => rm_cast e | None => Node c a ks end
                          else Node c a ks.
Proof.
  unfold rm_cast at 1. rewrite walk_eq. unfold rmcast_step at 1. destruct (String.eqb c "Cast"); [|reflexivity].
  rewrite (ak1_node rmcast_step c a ks "expr"). destruct (kid1 (Node c a ks) "expr"); reflexivity.
Qed.

Theorem rm_cast_cast c e : is_cls "Cast" c = true -> kid1 c "expr" = Some e -> rm_cast c = rm_cast e.
Proof.
  destruct c as [cc a ks]. unfold is_cls. cbn [ncls]. intros C K. rewrite rm_cast_eq, C, K. reflexivity.
Qed.

Theorem rm_cast_not_cast n : is_cls "Cast" n = false -> rm_cast n = n.
Proof.
  destruct n as [cc a ks]. unfold is_cls. cbn [ncls]. intros C. rewrite rm_cast_eq, C. reflexivity.
Qed.

(* a cast without operand (not a pycparser tree) is left alone *)
Lemma rm_cast_no_expr n : kid1 n "expr" = None -> rm_cast n = n.
Proof.
  destruct n as [cc a ks]. intros K. rewrite rm_cast_eq, K. destruct (String.eqb cc "Cast"); reflexivity.
Qed.

Theorem rm_cast_idem n : rm_cast (rm_cast n) = rm_cast n.
Proof.
  induction n as [c a ks IH] using node_ind'.
  destruct (is_cls "Cast" (Node c a ks)) eqn:C.
  - destruct (kid1 (Node c a ks) "expr") as [e|] eqn:K.
    + rewrite (rm_cast_cast _ e C K). exact (Forall_kid1 _ c a ks "expr" e IH K).
    + rewrite (rm_cast_no_expr _ K). apply rm_cast_no_expr. exact K.
  - rewrite (rm_cast_not_cast _ C). apply rm_cast_not_cast. exact C.
Qed.

(* [w] is [e] under any number (possibly zero) of casts *)
Inductive casts_of (e : node) : node -> Prop :=
| casts_none : casts_of e e
| casts_more c x : is_cls "Cast" c = true -> kid1 c "expr" = Some x -> casts_of e x -> casts_of e c.

Theorem rm_cast_casts_of e w : casts_of e w -> rm_cast w = rm_cast e.
Proof. induction 1 as [|c x C K _ IH]; [reflexivity|]. rewrite (rm_cast_cast c x C K). exact IH. Qed.

(* the result of rm_cast of a schema-shaped tree is never a cast: every cast is removed *)
Lemma rm_cast_removes_all n :
  is_cls "Cast" (rm_cast n) = true -> exists w, casts_of w n /\ is_cls "Cast" w = true /\ kid1 w "expr" = None.
Proof.
  induction n as [c a ks IH] using node_ind'. intros H.
  destruct (is_cls "Cast" (Node c a ks)) eqn:C.
  - destruct (kid1 (Node c a ks) "expr") as [e|] eqn:K.
    + rewrite (rm_cast_cast _ e C K) in H.
      destruct (Forall_kid1 _ c a ks "expr" e IH K H) as [w [W1 [W2 W3]]].
      exists w. split; [eapply casts_more; eassumption | split; assumption].
    + exists (Node c a ks). split; [constructor | split; assumption].
  - rewrite (rm_cast_not_cast _ C) in H. congruence.
Qed.

(* binary_op reads its operands through rm_cast only *)
Theorem binary_op_events_rm_cast rv rv' :
  orm_cast (kid1 rv "left") = orm_cast (kid1 rv' "left") ->
  orm_cast (kid1 rv "right") = orm_cast (kid1 rv' "right") ->
  binary_op_events rv = binary_op_events rv'.
Proof. intros L R. unfold binary_op_events. rewrite L, R. reflexivity. Qed.

Theorem binary_op_cast_operands a a' l r l' r' :
  casts_of l l' -> casts_of r r' ->
  binary_op_events (Node "BinaryOp" a' [("left", [l']); ("right", [r'])]) =
  binary_op_events (Node "BinaryOp" a [("left", [l]); ("right", [r])]).
Proof.
  intros L R. apply binary_op_events_rm_cast.
  - change (Some (rm_cast l') = Some (rm_cast l)). rewrite (rm_cast_casts_of l l' L). reflexivity.
  - change (Some (rm_cast r') = Some (rm_cast r)). rewrite (rm_cast_casts_of r r' R). reflexivity.
Qed.

(* any number of literal casts *)
Fixpoint cast_n (k : nat) (t e : node) : node :=
  match k with 0 => e | S k' => Node "Cast" [] [("to_type", [t]); ("expr", [cast_n k' t e])] end.

Lemma casts_of_cast_n k t e : casts_of e (cast_n k t e).
Proof. induction k as [|k IH]; [constructor|]. cbn [cast_n]. eapply casts_more; [reflexivity | reflexivity | exact IH]. Qed.

Corollary binary_op_cast_n a i j t l r :
  binary_op_events (Node "BinaryOp" a [("left", [cast_n i t l]); ("right", [cast_n j t r])]) =
  binary_op_events (Node "BinaryOp" a [("left", [l]); ("right", [r])]).
Proof. apply binary_op_cast_operands; apply casts_of_cast_n. Qed.

(* and so for the statement: x = (T)..(T)y * (T)..(T)z dispatches like x = y * z, events and paths *)
Corollary cast_operands_statement a ab i j t x l r :
  cr_events (Node "Assignment" a [("lvalue", [id_ x]); ("rvalue", [Node "BinaryOp" ab [("left", [cast_n i t l]); ("right", [cast_n j t r])]])]) =
  cr_events (Node "Assignment" a [("lvalue", [id_ x]); ("rvalue", [Node "BinaryOp" ab [("left", [l]); ("right", [r])]])]).
Proof. rewrite !cr_assignment. exact (binary_op_cast_n ab i j t l r). Qed.

(* ---------- (3) a cast as a statement ---------- *)
Theorem cast_statement_is_skipped a ks : cr_events (Node "Cast" a ks) = [Ev KUnsupported []].
Proof. rewrite cr_eq. reflexivity. Qed.

(* ... although the statement under it is a flow:  (int)x++;  against  x++; *)
Example cast_statement_not_transparent :
  let s := Node "UnaryOp" [("op", "p++")] [("expr", [id_ "x"])] in
  wf_pyc (cast_ s) = true /\
  cr_events (cast_ s) = [Ev KUnsupported []] /\ cr_events s = [Ev KFlow []].
Proof. vm_compute. repeat split. Qed.
