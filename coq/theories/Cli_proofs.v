(* Lemmas about the command-line model Cli.v (property C17).

   1. split/join on one character are mutually inverse (Python's text.split('\n') / '\n'.join).
   2. add_attr_x: prepends the define exactly when no line starts with it; idempotent; its
      line-level and text-level forms agree.
   3. plumbing: for EVERY combination of the flags the property names (mode spelled in one of five
      ways, seven independent booleans, --out absent / empty / any non-empty string, any non-empty
      input path) the model of main() -- the interpreter of the tables generated from __main__.py --
      reaches the library call with exactly those options.  Proved by computation on each of the
      5 * 2^7 = 640 flag shapes, 960 cases with --out '' told apart (the strings stay symbolic).
   4. --no_cpp: the text handed to pycparser is the file text.
   5. cpp on/off: inside a Section, under an explicit hypothesis about the external preprocessor.
   6. default_file_out p = output/<name>.json with no slash in <name>. *)
From Coq Require Import String Ascii List Bool Arith Lia.
From PMGen Require Import CliGen.
From PM Require Import Cli.
Import ListNotations.
Open Scope string_scope.

(* ------------------------------------------------------------------------------------------ *)
(* 1. split / join                                                                             *)
(* ------------------------------------------------------------------------------------------ *)

Fixpoint no_char (c : ascii) (s : string) : bool :=
  match s with
  | EmptyString => true
  | String a t => negb (Ascii.eqb a c) && no_char c t
  end.

Lemma split_on_nonempty : forall c s, split_on c s <> [].
Proof.
  intros c s; destruct s as [|a t]; simpl; [discriminate|].
  destruct (Ascii.eqb a c); [discriminate|].
  destruct (split_on c t); discriminate.
Qed.

Lemma join_cons2 : forall sep x y l, join sep (x :: y :: l) = x ++ sep ++ join sep (y :: l).
Proof. reflexivity. Qed.

Lemma join_split : forall c s, join (String c "") (split_on c s) = s.
Proof.
  intros c s; induction s as [|a t IH]; [reflexivity|].
  cbn [split_on].
  destruct (Ascii.eqb a c) eqn:E.
  - apply Ascii.eqb_eq in E; subst a.
    destruct (split_on c t) as [|h r] eqn:S; [exfalso; eapply split_on_nonempty; eauto|].
    rewrite join_cons2, IH. reflexivity.
  - destruct (split_on c t) as [|h r] eqn:S; [exfalso; eapply split_on_nonempty; eauto|].
    destruct r as [|h2 r].
    + cbn [join] in *. rewrite IH. reflexivity.
    + rewrite join_cons2 in *. rewrite <- IH. reflexivity.
Qed.

Lemma split_on_no_char : forall c s, Forall (fun x => no_char c x = true) (split_on c s).
Proof.
  intros c s; induction s as [|a t IH]; simpl.
  - constructor; [reflexivity|constructor].
  - destruct (Ascii.eqb a c) eqn:E.
    + constructor; [reflexivity|exact IH].
    + destruct (split_on c t) as [|h r]; [constructor; [simpl; rewrite E; reflexivity|constructor]|].
      inversion IH; subst. constructor; [simpl; rewrite E; simpl; assumption|assumption].
Qed.

Lemma split_on_plain : forall c x, no_char c x = true -> split_on c x = [x].
Proof.
  intros c x; induction x as [|a t IH]; simpl; intro H; [reflexivity|].
  apply andb_true_iff in H; destruct H as [H1 H2]. apply negb_true_iff in H1. rewrite H1.
  rewrite (IH H2). reflexivity.
Qed.

Lemma split_on_app : forall c x y, no_char c x = true ->
  split_on c (x ++ String c y) = x :: split_on c y.
Proof.
  intros c x y; induction x as [|a t IH]; simpl; intro H.
  - rewrite Ascii.eqb_refl. reflexivity.
  - apply andb_true_iff in H; destruct H as [H1 H2]. apply negb_true_iff in H1. rewrite H1.
    rewrite (IH H2). reflexivity.
Qed.

Lemma split_join : forall c l, l <> [] -> Forall (fun x => no_char c x = true) l ->
  split_on c (join (String c "") l) = l.
Proof.
  intros c l; induction l as [|x l IH]; intros NE F; [congruence|].
  inversion F as [|? ? Hx Hl]; subst.
  destruct l as [|y l].
  - simpl. apply split_on_plain; assumption.
  - cbn [join]. simpl append.
    rewrite split_on_app by assumption. f_equal. apply IH; [discriminate|assumption].
Qed.

Lemma lines_cons : forall x t, no_char nl x = true -> lines (x ++ nls ++ t) = x :: lines t.
Proof. intros x t H. unfold lines, nls. simpl append. apply split_on_app; assumption. Qed.

Lemma unlines_lines : forall t, unlines (lines t) = t.
Proof. intro t; apply join_split. Qed.

Lemma unlines_cons : forall x t, unlines (x :: lines t) = x ++ nls ++ t.
Proof.
  intros x t. unfold unlines. pose proof (join_split nl t) as J.
  change (String nl "") with nls in J. change (split_on nl t) with (lines t) in J.
  destruct (lines t) as [|h r] eqn:S.
  - exfalso; eapply split_on_nonempty; exact S.
  - rewrite join_cons2, J. reflexivity.
Qed.

Lemma prefix_refl : forall s, String.prefix s s = true.
Proof.
  induction s as [|a s IH]; simpl; [reflexivity|].
  destruct (ascii_dec a a); [assumption|congruence].
Qed.

(* ------------------------------------------------------------------------------------------ *)
(* 2. add_attr_x                                                                               *)
(* ------------------------------------------------------------------------------------------ *)

Lemma attr_no_nl : no_char nl ATTR_X = true.
Proof. vm_compute. reflexivity. Qed.

Lemma add_attr_lines_absent : forall ls,
  (forall l, In l ls -> String.prefix ATTR_X l = false) -> add_attr_x_lines ls = ATTR_X :: ls.
Proof.
  intros ls H. unfold add_attr_x_lines, has_attr_line.
  destruct (existsb (String.prefix ATTR_X) ls) eqn:E; [|reflexivity].
  apply existsb_exists in E. destruct E as [l [I P]]. rewrite (H l I) in P. discriminate.
Qed.

Lemma add_attr_lines_present : forall ls,
  (exists l, In l ls /\ String.prefix ATTR_X l = true) -> add_attr_x_lines ls = ls.
Proof.
  intros ls H. unfold add_attr_x_lines, has_attr_line.
  assert (E : existsb (String.prefix ATTR_X) ls = true) by (apply existsb_exists; exact H).
  rewrite E. reflexivity.
Qed.

Lemma add_attr_lines_post : forall ls, has_attr_line (add_attr_x_lines ls) = true.
Proof.
  intro ls. unfold add_attr_x_lines. destruct (has_attr_line ls) eqn:E; cbn [negb]; [exact E|].
  unfold has_attr_line. cbn [existsb]. rewrite prefix_refl. reflexivity.
Qed.

Lemma add_attr_lines_idem : forall ls, add_attr_x_lines (add_attr_x_lines ls) = add_attr_x_lines ls.
Proof.
  intro ls. unfold add_attr_x_lines at 1. rewrite add_attr_lines_post. reflexivity.
Qed.

(* the inserted line is the only new one, and it is inserted at most once *)
Lemma add_attr_lines_count : forall ls,
  length (add_attr_x_lines ls) = (if has_attr_line ls then length ls else S (length ls)).
Proof. intro ls. unfold add_attr_x_lines. destruct (has_attr_line ls); reflexivity. Qed.

Lemma add_attr_x_text : forall t,
  add_attr_x t = if has_attr_line (lines t) then t else ATTR_X ++ nls ++ t.
Proof.
  intro t. unfold add_attr_x, has_attr_line.
  destruct (existsb (String.prefix ATTR_X) (lines t)); cbn [negb]; cbv iota; [reflexivity|].
  apply unlines_cons.
Qed.

Lemma lines_add_attr_x : forall t, lines (add_attr_x t) = add_attr_x_lines (lines t).
Proof.
  intro t. rewrite add_attr_x_text. unfold add_attr_x_lines.
  destruct (has_attr_line (lines t)); cbn [negb]; cbv iota; [reflexivity|].
  apply lines_cons. exact attr_no_nl.
Qed.

Lemma add_attr_x_idem : forall t, add_attr_x (add_attr_x t) = add_attr_x t.
Proof.
  intro t. rewrite (add_attr_x_text (add_attr_x t)).
  rewrite lines_add_attr_x, add_attr_lines_post. reflexivity.
Qed.

Lemma define_once : forall t,
  (* on the list of lines *)
  ((forall l, In l (lines t) -> String.prefix ATTR_X l = false) ->
      lines (add_attr_x t) = ATTR_X :: lines t /\ add_attr_x t = ATTR_X ++ nls ++ t) /\
  ((exists l, In l (lines t) /\ String.prefix ATTR_X l = true) -> add_attr_x t = t) /\
  add_attr_x (add_attr_x t) = add_attr_x t /\
  (exists l, In l (lines (add_attr_x t)) /\ String.prefix ATTR_X l = true).
Proof.
  intro t. repeat split.
  - rewrite lines_add_attr_x. apply add_attr_lines_absent; assumption.
  - rewrite add_attr_x_text. unfold has_attr_line.
    destruct (existsb (String.prefix ATTR_X) (lines t)) eqn:E; [|reflexivity].
    apply existsb_exists in E. destruct E as [l [I P]]. rewrite (H l I) in P. discriminate.
  - intro H. rewrite add_attr_x_text. unfold has_attr_line.
    assert (E : existsb (String.prefix ATTR_X) (lines t) = true) by (apply existsb_exists; exact H).
    rewrite E. reflexivity.
  - apply add_attr_x_idem.
  - apply existsb_exists. rewrite lines_add_attr_x. apply add_attr_lines_post.
Qed.

Lemma define_once_parser : forall t,
  parser_text true t = add_attr_x t /\
  ((forall l, In l (lines t) -> String.prefix ATTR_X l = false) ->
      lines (add_attr_x t) = ATTR_X :: lines t /\ add_attr_x t = ATTR_X ++ nls ++ t) /\
  ((exists l, In l (lines t) /\ String.prefix ATTR_X l = true) -> add_attr_x t = t) /\
  add_attr_x (add_attr_x t) = add_attr_x t /\
  (exists l, In l (lines (add_attr_x t)) /\ String.prefix ATTR_X l = true).
Proof. intro t. split; [reflexivity | exact (define_once t)]. Qed.

Lemma define_once_lines : forall ls,
  ((forall l, In l ls -> String.prefix ATTR_X l = false) -> add_attr_x_lines ls = ATTR_X :: ls) /\
  ((exists l, In l ls /\ String.prefix ATTR_X l = true) -> add_attr_x_lines ls = ls) /\
  add_attr_x_lines (add_attr_x_lines ls) = add_attr_x_lines ls /\
  (forall t, lines (add_attr_x t) = add_attr_x_lines (lines t)) /\
  (forall t, unlines (lines t) = t).
Proof.
  intro ls. exact (conj (add_attr_lines_absent ls) (conj (add_attr_lines_present ls)
    (conj (add_attr_lines_idem ls) (conj lines_add_attr_x unlines_lines)))).
Qed.

Example define_once_instances :
  add_attr_x ("int x;" ++ nls ++ "int y;") = ATTR_X ++ nls ++ "int x;" ++ nls ++ "int y;" /\
  add_attr_x ("int x;" ++ nls ++ "#define __attribute__(x) /*own*/" ++ nls) = "int x;" ++ nls ++ "#define __attribute__(x) /*own*/" ++ nls /\
  add_attr_x "" = ATTR_X ++ nls.
Proof. vm_compute. repeat split. Qed.

(* ------------------------------------------------------------------------------------------ *)
(* 3. plumbing                                                                                 *)
(* ------------------------------------------------------------------------------------------ *)

(* the flags the property quantifies over *)
Record flagset := mk_flags {
  fl_mode : option string;     (* --mode <as typed> *)
  fl_fin : bool;
  fl_strict : bool;
  fl_no_save : bool;
  fl_out : option string;      (* --out <path> *)
  fl_no_cpp : bool;
  fl_silent : bool;
  fl_info : bool
}.

Definition mode_spellings : list (option string) := [None; Some "F"; Some "L"; Some "f"; Some "l"].

Definition flag (b : bool) (o : string) : list (string * option string) := if b then [(o, None)] else [].
Definition valued (v : option string) (o : string) : list (string * option string) :=
  match v with Some s => [(o, Some s)] | None => [] end.

Definition to_cmdline (input : string) (f : flagset) : cmdline :=
  mk_cmd [input]
    (valued (fl_mode f) "--mode" ++ flag (fl_fin f) "--fin" ++ flag (fl_strict f) "--strict"
     ++ flag (fl_no_save f) "--no_save" ++ valued (fl_out f) "--out" ++ flag (fl_no_cpp f) "--no_cpp"
     ++ flag (fl_silent f) "--silent" ++ flag (fl_info f) "--info")%list.

Definition wants_loops (f : flagset) : bool :=
  match fl_mode f with Some m => upper m =? "L" | None => false end.

(* --out when given and non-empty, else the default computed from the input path *)
Definition out_path_gen (dfo : string -> string) (input : string) (f : flagset) : string :=
  match fl_out f with
  | Some (String a b) => String a b
  | _ => dfo input
  end.

Definition out_path := out_path_gen default_file_out.

Definition plumbing_spec_gen (dfo : string -> string) (input : string) (f : flagset) (o : outcome) : Prop :=
  match o with
  | Run r =>
    r_analyzer r = (if wants_loops f then "LoopAnalysis" else "Analysis") /\
    r_run_kw r = [("fin", VBool (fl_fin f)); ("strict", VBool (fl_strict f))] /\
    r_save r = (if fl_no_save f then None else Some (VStr (out_path_gen dfo input f))) /\
    run_use_cpp r = negb (fl_no_cpp f) /\
    r_parser_kw r = (if fl_no_cpp f then [("use_cpp", VBool false)]
                     else [("use_cpp", VBool true); ("cpp_path", VStr "gcc"); ("cpp_args", VStr "-E")]) /\
    r_parse_file r = VStr input /\ r_headers r = None /\
    r_program_path r = VStr input /\ r_loc_of r = VStr input /\
    r_loglevel r = (if fl_silent f then 50 else if fl_info f then 20 else 10)
  | _ => False
  end.

Definition plumbing_spec := plumbing_spec_gen default_file_out.

Lemma plumbing_gen : forall dfo c0 s0 f, In (fl_mode f) mode_spellings ->
  plumbing_spec_gen dfo (String c0 s0) f (main_model_gen dfo (to_cmdline (String c0 s0) f)).
Proof.
  intros dfo c0 s0 [m fin strict nosave out nocpp silent info] H. simpl in H.
  destruct H as [<-|[<-|[<-|[<-|[<-|[]]]]]];
    destruct fin, strict, nosave, nocpp, silent, info; destruct out as [[|a b]|];
    vm_compute; repeat split.
Qed.

Lemma plumbing : forall c0 s0 f, In (fl_mode f) mode_spellings ->
  plumbing_spec (String c0 s0) f (main_model (to_cmdline (String c0 s0) f)).
Proof. intros. apply plumbing_gen. assumption. Qed.

(* the number of flag shapes covered by [plumbing] (strings symbolic) *)
Definition all_bools : list bool := [false; true].
Definition flag_shapes : list (option string * bool * bool * bool * bool * bool * bool * bool) :=
  flat_map (fun m => flat_map (fun a => flat_map (fun b => flat_map (fun c => flat_map (fun d =>
  flat_map (fun e => flat_map (fun g => map (fun h => (m, a, b, c, d, e, g, h)) all_bools)
  all_bools) all_bools) all_bools) all_bools) all_bools) all_bools) mode_spellings.

Lemma flag_shapes_count : length flag_shapes = 640.
Proof. vm_compute. reflexivity. Qed.

(* unpacked form: every clause of the property that is decided by main()'s logic *)
Lemma plumbing_unpacked : forall c0 s0 f, In (fl_mode f) mode_spellings ->
  let input := String c0 s0 in
  exists r, main_model (to_cmdline input f) = Run r /\
    (* the library entry point and its options are the flags *)
    r_analyzer r = (if wants_loops f then "LoopAnalysis" else "Analysis") /\
    ns_get (r_run_kw r) "fin" = Some (VBool (fl_fin f)) /\
    ns_get (r_run_kw r) "strict" = Some (VBool (fl_strict f)) /\
    length (r_run_kw r) = 2 /\
    (* saving happens iff --no_save is absent, to --out or the default path *)
    (fl_no_save f = true -> r_save r = None) /\
    (fl_no_save f = false -> r_save r = Some (VStr (out_path input f))) /\
    (* the preprocessor switch, and the file that is parsed / counted / recorded *)
    run_use_cpp r = negb (fl_no_cpp f) /\
    r_parse_file r = VStr input /\ r_program_path r = VStr input /\ r_loc_of r = VStr input.
Proof.
  intros c0 s0 f H input. pose proof (plumbing c0 s0 f H) as P. fold input in P.
  unfold plumbing_spec, plumbing_spec_gen in P.
  destruct (main_model (to_cmdline input f)) as [?|?|r]; try contradiction.
  destruct P as (A & K & S & U & _ & PF & _ & PP & LC & _).
  exists r. split; [reflexivity|]. rewrite K. repeat split; try assumption.
  - intro E. rewrite E in S. exact S.
  - intro E. rewrite E in S. exact S.
Qed.

Example plumbing_instance :
  main_model (to_cmdline "dir/prog.c" (mk_flags (Some "l") true false false None true false true)) =
  Run (mk_run 20 VNone (VBool false) (VStr "dir/prog.c") None [("use_cpp", VBool false)]
              (VStr "dir/prog.c") (VStr "dir/prog.c") (VBool false) (Some (VStr "output/prog.json"))
              "LoopAnalysis" [("fin", VBool true); ("strict", VBool false)]).
Proof. vm_compute. reflexivity. Qed.

(* exits decided before any analysis *)
Lemma early_exits :
  main_model (mk_cmd [] []) = Exit 1 /\
  (forall p, main_model (mk_cmd [p] [("--version", None)]) = Exit 0) /\
  (forall p, main_model (mk_cmd [p] [("--help", None)]) = Exit 0) /\
  (forall p v, main_model (mk_cmd [p] [("--fin", None); ("--bogus", v)]) = Exit 2) /\
  (forall p, main_model (mk_cmd [p] [("--mode", Some "X")]) = Exit 2) /\
  (forall p, main_model (mk_cmd [p] [("--out", None)]) = Exit 2) /\
  (forall p q, main_model (mk_cmd [p; q] []) = Exit 2) /\
  (forall p, main_model (mk_cmd [p] [("--license", Some "w")]) = Exit 0).
Proof. repeat split; intros; try destruct v; vm_compute; reflexivity. Qed.

(* ------------------------------------------------------------------------------------------ *)
(* 4. --no_cpp: the parser sees the file text                                                  *)
(* ------------------------------------------------------------------------------------------ *)

Lemma parser_text_no_cpp : forall t, parser_text false t = t.
Proof. intro t. reflexivity. Qed.

Lemma parser_text_cpp : forall t, parser_text true t = add_attr_x t.
Proof. intro t. reflexivity. Qed.

Lemma cli_text : forall c0 s0 f t, In (fl_mode f) mode_spellings ->
  cli_parser_text (to_cmdline (String c0 s0) f) t =
  Some (if fl_no_cpp f then t else add_attr_x t).
Proof.
  intros c0 s0 f t H. unfold cli_parser_text.
  destruct (plumbing_unpacked c0 s0 f H) as (r & E & _ & _ & _ & _ & _ & _ & U & _).
  cbv zeta in E. rewrite E, U. destruct (fl_no_cpp f); reflexivity.
Qed.

Lemma no_cpp_text : forall c0 s0 f t, In (fl_mode f) mode_spellings -> fl_no_cpp f = true ->
  cli_parser_text (to_cmdline (String c0 s0) f) t = Some t.
Proof. intros c0 s0 f t H E. rewrite cli_text by assumption. rewrite E. reflexivity. Qed.

(* ------------------------------------------------------------------------------------------ *)
(* 5. cpp on / off on preprocessed text                                                        *)
(* ------------------------------------------------------------------------------------------ *)

Definition tab : ascii := ascii_of_nat 9.

(* the first character after leading blanks is '#' *)
Fixpoint starts_directive (l : string) : bool :=
  match l with
  | EmptyString => false
  | String c t => if Ascii.eqb c " "%char || Ascii.eqb c tab then starts_directive t else Ascii.eqb c "#"%char
  end.

Fixpoint mentions (needle hay : string) : bool :=
  match hay with
  | EmptyString => String.prefix needle EmptyString
  | String _ t => String.prefix needle hay || mentions needle t
  end.

Definition directive_free (t : string) : bool := forallb (fun l => negb (starts_directive l)) (lines t).
Definition comment_free (t : string) : bool := negb (mentions "//" t) && negb (mentions "/*" t).

(* "already preprocessed": no directive, no comment, no mention of __attribute__ *)
Definition plain (t : string) : bool :=
  directive_free t && comment_free t && negb (mentions "__attribute__" t).

Lemma attr_line_is_directive : forall l, String.prefix ATTR_X l = true -> starts_directive l = true.
Proof.
  intros l H. destruct l as [|b l]; [vm_compute in H; discriminate|].
  unfold ATTR_X in H. cbn [String.prefix] in H.
  destruct (ascii_dec "#" b) as [<-|]; [reflexivity|discriminate].
Qed.

Lemma directive_free_no_attr : forall t, directive_free t = true -> has_attr_line (lines t) = false.
Proof.
  intros t H. unfold has_attr_line, directive_free in *.
  destruct (existsb (String.prefix ATTR_X) (lines t)) eqn:E; [|reflexivity].
  apply existsb_exists in E. destruct E as [l [I P]].
  rewrite forallb_forall in H. specialize (H l I).
  rewrite (attr_line_is_directive l P) in H. discriminate.
Qed.

Definition with_no_cpp (f : flagset) (b : bool) : flagset :=
  mk_flags (fl_mode f) (fl_fin f) (fl_strict f) (fl_no_save f) (fl_out f) b (fl_silent f) (fl_info f).

Section CppOracle.
  (* the external tools: `cpp_path cpp_args file` as a function on the file's text, and the token
     sequence pycparser's lexer produces from a text (line markers consumed) *)
  Variable cpp : string -> string.
  Variable tokens : string -> list string.
  (* "no identifier of the text is a macro the preprocessor predefines" (linux, unix, __FILE__ ...) *)
  Variable predefined_free : string -> Prop.

  Hypothesis cpp_define_neutral : forall t, plain t = true -> predefined_free t ->
    tokens (cpp (ATTR_X ++ nls ++ t)) = tokens t.

  Lemma lexer_tokens_plain : forall t b, plain t = true -> predefined_free t ->
    tokens (lexer_input cpp b t) = tokens t.
  Proof.
    intros t b P Q. unfold lexer_input. destruct b.
    - rewrite parser_text_cpp, add_attr_x_text.
      assert (D : directive_free t = true).
      { unfold plain in P. apply andb_true_iff in P. destruct P as [P _].
        apply andb_true_iff in P. destruct P as [P _]. exact P. }
      rewrite (directive_free_no_attr t D). apply cpp_define_neutral; assumption.
    - rewrite parser_text_no_cpp. reflexivity.
  Qed.

  Lemma cpp_irrelevant : forall c0 s0 f t, In (fl_mode f) mode_spellings ->
    plain t = true -> predefined_free t ->
    let input := String c0 s0 in
    match main_model (to_cmdline input (with_no_cpp f false)), main_model (to_cmdline input (with_no_cpp f true)) with
    | Run r1, Run r2 =>
      (* pycparser's parser reads the same token sequence, the file's own *)
      tokens (lexer_input cpp (run_use_cpp r1) t) = tokens t /\
      tokens (lexer_input cpp (run_use_cpp r2) t) = tokens t /\
      run_use_cpp r1 = true /\ run_use_cpp r2 = false /\
      (* and everything else main() does is the same *)
      r_analyzer r1 = r_analyzer r2 /\ r_run_kw r1 = r_run_kw r2 /\ r_save r1 = r_save r2 /\
      r_parse_file r1 = r_parse_file r2 /\ r_program_path r1 = r_program_path r2 /\
      r_loc_of r1 = r_loc_of r2 /\ r_headers r1 = r_headers r2
    | _, _ => False
    end.
  Proof.
    intros c0 s0 f t H P Q input.
    assert (H1 : In (fl_mode (with_no_cpp f false)) mode_spellings) by exact H.
    assert (H2 : In (fl_mode (with_no_cpp f true)) mode_spellings) by exact H.
    pose proof (plumbing c0 s0 _ H1) as A. pose proof (plumbing c0 s0 _ H2) as B.
    fold input in A, B. unfold plumbing_spec, plumbing_spec_gen in A, B.
    destruct (main_model (to_cmdline input (with_no_cpp f false))) as [?|?|r1]; try contradiction.
    destruct (main_model (to_cmdline input (with_no_cpp f true))) as [?|?|r2]; try contradiction.
    destruct A as (A1 & A2 & A3 & A4 & _ & A6 & A7 & A8 & A9 & _).
    destruct B as (B1 & B2 & B3 & B4 & _ & B6 & B7 & B8 & B9 & _).
    repeat split.
    - apply lexer_tokens_plain; assumption.
    - apply lexer_tokens_plain; assumption.
    - exact A4.
    - exact B4.
    - rewrite A1, B1. reflexivity.
    - rewrite A2, B2. reflexivity.
    - rewrite A3, B3. reflexivity.
    - rewrite A6, B6. reflexivity.
    - rewrite A8, B8. reflexivity.
    - rewrite A9, B9. reflexivity.
    - rewrite A7, B7. reflexivity.
  Qed.
End CppOracle.

(* the oracle hypothesis is satisfiable by a non-trivial instance: a preprocessor that does nothing
   and a lexer that skips lines starting with '#' (and otherwise returns the lines) *)
Example cpp_oracle_satisfiable :
  let cpp := fun s : string => s in
  let tokens := fun s => filter (fun l => negb (String.prefix "#" l)) (lines s) in
  (forall t, plain t = true -> True -> tokens (cpp (ATTR_X ++ nls ++ t)) = tokens t) /\
  tokens "int x;" <> tokens "int y;" /\ plain ("int f(int x)" ++ nls ++ "{ x = x + x; }") = true.
Proof.
  cbv zeta. split; [|split].
  - intros t _ _. rewrite lines_cons by exact attr_no_nl. reflexivity.
  - vm_compute. discriminate.
  - vm_compute. reflexivity.
Qed.

(* ------------------------------------------------------------------------------------------ *)
(* 6. default_file_out                                                                         *)
(* ------------------------------------------------------------------------------------------ *)

Lemma rsplit_tail_no_char : forall c s h r, rsplit c s = Some (h, r) -> no_char c r = true.
Proof.
  intros c s; induction s as [|a t IH]; simpl; intros h r H; [discriminate|].
  destruct (rsplit c t) as [[h' r']|] eqn:E.
  - inversion H; subst. eapply IH. reflexivity.
  - destruct (Ascii.eqb a c) eqn:A; [|discriminate]. inversion H; subst.
    clear -E. induction r as [|b r IHr]; [reflexivity|].
    simpl in E. destruct (rsplit c r) as [[? ?]|]; [discriminate|].
    destruct (Ascii.eqb b c) eqn:B; [discriminate|]. simpl. rewrite B. simpl. apply IHr. reflexivity.
Qed.

Lemma rsplit_none_no_char : forall c s, rsplit c s = None -> no_char c s = true.
Proof.
  intros c s; induction s as [|b r IHr]; [reflexivity|]. simpl. intro E.
  destruct (rsplit c r) as [[? ?]|]; [discriminate|].
  destruct (Ascii.eqb b c) eqn:B; [discriminate|]. simpl. apply IHr. reflexivity.
Qed.

Lemma basename_no_slash : forall p, no_char slash (basename p) = true.
Proof.
  intro p. unfold basename. destruct (rsplit slash p) as [[h r]|] eqn:E.
  - eapply rsplit_tail_no_char; eauto.
  - apply rsplit_none_no_char; assumption.
Qed.

Lemma default_out_shape : forall p,
  exists n, default_file_out p = "output/" ++ n ++ ".json" /\ no_char slash n = true.
Proof.
  intro p. unfold default_file_out.
  set (n := basename (fst (splitext p))). exists n.
  assert (N : no_char slash n = true) by apply basename_no_slash.
  split; [|exact N]. unfold path_join.
  assert (Pf : String.prefix "/" (n ++ ".json") = false).
  { destruct n as [|a n']; [reflexivity|]. cbn [no_char] in N. cbn [append String.prefix].
    destruct (ascii_dec "/"%char a) as [<-|]; [|reflexivity].
    unfold slash in N. rewrite Ascii.eqb_refl in N. discriminate. }
  rewrite Pf. reflexivity.
Qed.

Example default_out_instances :
  map default_file_out ["a.c"; "d/e.f/a.b.c"; ".c"; "d/..c"; "d.x/y"; "a/"; ""; "/x.tar.gz"] =
  ["output/a.json"; "output/a.b.json"; "output/.c.json"; "output/..c.json"; "output/y.json";
   "output/.json"; "output/.json"; "output/x.tar.json"].
Proof. vm_compute. reflexivity. Qed.
