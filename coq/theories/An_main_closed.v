(* An_main.main_sim with the premises that are available as closed theorems discharged.
   An_seq.v provides the two list lemmas; the two loop-closing lemmas (An_close.v) are still
   premises here -- once An_close.v builds, the fully closed theorem is
     An_main.main_sim An_seq.seq_compound_sim An_seq.seq_branch_sim
                      An_close.close_while_sim An_close.close_for_sim : main_sim_stmt. *)
From PM Require Import An_stmts.
From PM Require An_seq An_main.

Theorem main_sim_seq_closed : close_while_sim_stmt -> close_for_sim_stmt -> main_sim_stmt.
Proof. exact (An_main.main_sim An_seq.seq_compound_sim An_seq.seq_branch_sim). Qed.

Print Assumptions main_sim_seq_closed.
