(* Variables.loop_guard / Coverage.loop_compat: what an accepted for-header guarantees.
   Every variable that an initialiser of the header copies from (`j = y`, `int k = y`) is either the guard X or
   an iterator (assigned / declared by an initialiser, or mentioned in the next expression): an accepted header
   has ONE source of iteration, no initialiser's flow is dropped from the guard computation. *)
From Coq Require Import String List Bool.
From PM Require Import Tree Syntax Syntax_proofs.
Import ListNotations.

Lemma dedup_In x l : forall seen, In x l -> ~ In x seen -> In x (dedup l seen).
Proof.
  induction l as [|y t IH]; intros seen Hin Hns; [destruct Hin|].
  cbn [dedup]. destruct (in_s y seen) eqn:E.
  - destruct Hin as [->|Hin]; [apply in_s_In in E; contradiction|]. apply IH; assumption.
  - destruct (String.eqb_spec x y) as [->|Hne]; [left; reflexivity|].
    destruct Hin as [Heq|Hin]; [congruence|]. right. apply IH; [exact Hin|].
    intros [Heq|Hs]; [congruence|contradiction].
Qed.

Theorem accepted_header_sources :
  forall init conds nxt body x iters0 srcs,
    init_vars init = Some (iters0, srcs) ->
    loop_guard_of init conds nxt body = LcYes x ->
    forall s, In s srcs -> s = x \/ In s iters0 \/ In s (vnames_of nxt).
Proof.
  intros init conds nxt body x iters0 srcs Hiv Hlg s Hs.
  unfold loop_guard_of in Hlg. rewrite Hiv in Hlg.
  destruct (vraises conds || vraises nxt || vraises body); [discriminate|].
  destruct (in_s s (iters0 ++ vnames_of nxt)) eqn:Eit.
  - apply in_s_In in Eit. apply in_app_or in Eit. tauto.
  - left.
    assert (Hin : In s (dedup (filter (fun v => negb (in_s v (iters0 ++ vnames_of nxt))) (vnames_of conds ++ srcs)) [])).
    { apply dedup_In; [|intros []]. apply filter_In. split; [apply in_or_app; right; exact Hs|]. rewrite Eit. reflexivity. }
    destruct (dedup (filter (fun v => negb (in_s v (iters0 ++ vnames_of nxt))) (vnames_of conds ++ srcs)) []) as [|y [|z r]];
      [discriminate | | discriminate].
    destruct (in_s y (vnames_of body)); [discriminate|].
    injection Hlg as <-. destruct Hin as [->|[]]. reflexivity.
Qed.

(* and the guard does not occur in the body *)
Theorem accepted_header_guard_not_in_body :
  forall init conds nxt body x, loop_guard_of init conds nxt body = LcYes x -> ~ In x (vnames_of body).
Proof.
  intros init conds nxt body x H. unfold loop_guard_of in H.
  destruct (init_vars init) as [[i0 sr]|]; [|discriminate].
  destruct (vraises conds || vraises nxt || vraises body); [discriminate|].
  destruct (dedup _ _) as [|y [|z r]]; try discriminate.
  destruct (in_s y (vnames_of body)) eqn:E; [discriminate|]. injection H as <-. apply in_s_false. exact E.
Qed.

(* non-vacuity: for (i = 0, j = n; i < n; i++) is accepted with guard n, and j's source n is the guard *)
Example accepted_header_example :
  let init := Node "ExprList" [] [("exprs", [Node "Assignment" [("op", "=")] [("lvalue", [Node "ID" [("name", "i")] []]); ("rvalue", [Node "Constant" [("value", "0")] []])];
                                             Node "Assignment" [("op", "=")] [("lvalue", [Node "ID" [("name", "j")] []]); ("rvalue", [Node "ID" [("name", "n")] []])]])] in
  loop_guard_of (Some init) [VName "i"; VName "n"] [VName "i"] [VName "x"] = LcYes "n".
Proof. vm_compute. reflexivity. Qed.
