(* C04 -- specification predicates and basic lemmas about the list/set helpers of Choice.v *)
From Coq Require Import List Arith Bool ZArith Lia Sorted.
From PM Require Import Choice.
Import ListNotations.

(* ---------- specification ---------- *)

(* no sequence of S is fully matched by v *)
Definition accepted (S : list dseq) (v : list nat) : Prop := forall s, In s S -> smatch v s = false.

(* v is a vector of dom^n *)
Definition vec_in (dom : list nat) (n : nat) (v : list nat) : Prop :=
  length v = n /\ Forall (fun x => In x dom) v.

Definition dlt (a b : delta) : Prop := snd a < snd b.

(* well-formed delta sequence: non-empty, indices strictly increasing and < n, values in dom *)
Definition wf_seq (dom : list nat) (n : nat) (s : dseq) : Prop :=
  s <> [] /\ StronglySorted dlt s /\ Forall (fun d => In (fst d) dom /\ snd d < n) s.

Definition wf_seqs (dom : list nat) (n : nat) (S : list dseq) : Prop :=
  forall s, In s S -> wf_seq dom n s.

(* v picks, at every index, a value the box allows *)
Definition in_box (v : list nat) (b : box) : Prop := Forall2 (fun x (e : entry) => In x e) v b.

Definition covered (bs : list box) (v : list nat) : Prop := exists b, In b bs /\ in_box v b.

Definition same_set {A} (l l' : list A) : Prop := forall x, In x l <-> In x l'.

(* S and S' accept the same vectors of dom^n *)
Definition equiv_on (dom : list nat) (n : nat) (S S' : list dseq) : Prop :=
  forall v, vec_in dom n v -> (accepted S v <-> accepted S' v).

Definition ord_ok (ord : order) : Prop := forall k l, same_set (ord k l) l.
Definition pick_ok (pick : picker) : Prop := forall l v, pick l = Some v -> In v l.

Lemma ord_id_ok : ord_ok ord_id.
Proof. intros k l x. reflexivity. Qed.

Lemma pick_head_ok : pick_ok pick_head.
Proof. intros [|a l] v H; simpl in H; inversion H; subst. now left. Qed.

(* ---------- boolean equalities ---------- *)

Lemma delta_eqb_eq a b : delta_eqb a b = true <-> a = b.
Proof.
  destruct a as [a1 a2], b as [b1 b2]. unfold delta_eqb. simpl.
  rewrite andb_true_iff, !Nat.eqb_eq. split; [intros [-> ->]; reflexivity | intros H; inversion H; auto].
Qed.

Lemma list_eqb_eq {A} (eqb : A -> A -> bool) (H : forall a b, eqb a b = true <-> a = b) l1 l2 :
  list_eqb eqb l1 l2 = true <-> l1 = l2.
Proof.
  revert l2. induction l1 as [|x t IH]; intros [|y t2]; simpl; try (split; congruence).
  rewrite andb_true_iff, H, IH. split; [intros [-> ->]; reflexivity | intros E; inversion E; auto].
Qed.

Lemma dseq_eqb_eq a b : dseq_eqb a b = true <-> a = b.
Proof. apply list_eqb_eq, delta_eqb_eq. Qed.

Lemma entry_eqb_eq a b : entry_eqb a b = true <-> a = b.
Proof. apply list_eqb_eq, Nat.eqb_eq. Qed.

Lemma box_eqb_eq a b : box_eqb a b = true <-> a = b.
Proof. apply list_eqb_eq, entry_eqb_eq. Qed.

Section SetHelpers.
  Context {A : Type} (eqb : A -> A -> bool) (eqb_eq : forall a b, eqb a b = true <-> a = b).

  Lemma memb_In x l : memb eqb x l = true <-> In x l.
  Proof.
    unfold memb. rewrite existsb_exists. split.
    - intros [y [Hy E]]. apply eqb_eq in E. subst. exact Hy.
    - intros H. exists x. split; [exact H | now apply eqb_eq].
  Qed.

  Lemma memb_false x l : memb eqb x l = false <-> ~ In x l.
  Proof. rewrite <- memb_In. destruct (memb eqb x l); split; congruence. Qed.

  Lemma dedup_In x l : In x (dedup eqb l) <-> In x l.
  Proof.
    induction l as [|y t IH]; simpl; [tauto|].
    destruct (memb eqb y t) eqn:E.
    - rewrite IH. apply memb_In in E. split; [auto | intros [->|H]; auto].
    - simpl. rewrite IH. tauto.
  Qed.

  Lemma dedup_NoDup l : NoDup (dedup eqb l).
  Proof.
    induction l as [|y t IH]; simpl; [constructor|].
    destruct (memb eqb y t) eqn:E; [exact IH|].
    constructor; [|exact IH]. rewrite dedup_In. now apply memb_false.
  Qed.

  Lemma dedup_id l : NoDup l -> dedup eqb l = l.
  Proof.
    induction 1 as [|y t Hn Hd IH]; simpl; [reflexivity|].
    apply memb_false in Hn. rewrite Hn, IH. reflexivity.
  Qed.

  Lemma set_add_In x y l : In y (set_add eqb x l) <-> y = x \/ In y l.
  Proof.
    unfold set_add. destruct (memb eqb x l) eqn:E.
    - apply memb_In in E. split; [auto | intros [->|H]; auto].
    - rewrite in_app_iff. simpl. split; [intros [H|[H|[]]]; auto | intros [H|H]; auto].
  Qed.

  Lemma set_remove_In x y l : In y (set_remove eqb x l) <-> In y l /\ y <> x.
  Proof.
    unfold set_remove. rewrite filter_In, negb_true_iff. split; intros [H1 H2]; split; auto.
    - intros ->. assert (eqb x x = true) by now apply eqb_eq. congruence.
    - destruct (eqb x y) eqn:E; [|reflexivity]. apply eqb_eq in E. congruence.
  Qed.

  Lemma set_eqb_spec a b : set_eqb eqb a b = true <-> same_set a b.
  Proof.
    unfold set_eqb, same_set. rewrite andb_true_iff, !forallb_forall. split.
    - intros [H1 H2] x. split; intros H; [apply H1 in H | apply H2 in H]; now apply memb_In in H.
    - intros H. split; intros x Hx; apply memb_In; now apply H.
  Qed.
End SetHelpers.

Lemma filter_length_le' {A} (f : A -> bool) l : length (filter f l) <= length l.
Proof. induction l; simpl; [lia|]. destruct (f a); simpl; lia. Qed.

(* ---------- matching ---------- *)

Lemma smatch_true v s : smatch v s = true <-> forall d, In d s -> dmatch v d = true.
Proof. unfold smatch. apply forallb_forall. Qed.

Lemma smatch_incl v s s' : incl s' s -> smatch v s = true -> smatch v s' = true.
Proof. rewrite !smatch_true. intros Hi H d Hd. apply H, Hi, Hd. Qed.

Lemma smatch_false v s : smatch v s = false <-> exists d, In d s /\ dmatch v d = false.
Proof.
  unfold smatch. induction s as [|d t IH]; simpl.
  - split; [discriminate | intros [d [[] _]]].
  - rewrite andb_false_iff, IH. split.
    + intros [H|[d' [H1 H2]]]; [exists d; auto | exists d'; auto].
    + intros [d' [[->|H1] H2]]; [auto | right; exists d'; auto].
Qed.

Lemma acceptedb_spec S v : acceptedb S v = true <-> accepted S v.
Proof.
  unfold acceptedb, accepted. rewrite forallb_forall. split; intros H s Hs; specialize (H s Hs).
  - now apply negb_true_iff in H.
  - now apply negb_true_iff.
Qed.

Lemma accepted_same_set S S' v : same_set S S' -> accepted S v -> accepted S' v.
Proof. intros H Ha s Hs. apply Ha, H, Hs. Qed.

Lemma equiv_on_refl dom n S : equiv_on dom n S S.
Proof. intros v _. tauto. Qed.

Lemma equiv_on_trans dom n S1 S2 S3 : equiv_on dom n S1 S2 -> equiv_on dom n S2 S3 -> equiv_on dom n S1 S3.
Proof. intros H1 H2 v Hv. rewrite (H1 v Hv). apply H2, Hv. Qed.

Lemma equiv_on_same_set dom n S S' : same_set S S' -> equiv_on dom n S S'.
Proof.
  intros H v _. split; apply accepted_same_set; [exact H | intros x; symmetry; apply H].
Qed.

Lemma wf_seqs_same_set dom n S S' : same_set S S' -> wf_seqs dom n S -> wf_seqs dom n S'.
Proof. intros H Hw s Hs. apply Hw, H, Hs. Qed.

Lemma vec_in_nth dom n v i : vec_in dom n v -> i < n -> exists x, nth_error v i = Some x /\ In x dom.
Proof.
  intros [Hl Hf] Hi. destruct (nth_error v i) as [x|] eqn:E.
  - exists x. split; [reflexivity|]. rewrite Forall_forall in Hf. apply Hf. eapply nth_error_In, E.
  - apply nth_error_None in E. lia.
Qed.

(* ---------- well-formedness is inherited by sub-sequences ---------- *)

Lemma In_removelast {A} (x : A) l : In x (removelast l) -> In x l.
Proof.
  induction l as [|a t IH]; simpl; [tauto|]. destruct t as [|b t]; [intros []|].
  intros [->|H]; [now left | right; apply IH, H].
Qed.

Lemma Forall_incl {A} (P : A -> Prop) l l' : incl l' l -> Forall P l -> Forall P l'.
Proof. rewrite !Forall_forall. intros Hi H x Hx. apply H, Hi, Hx. Qed.

Lemma SS_filter (f : delta -> bool) s : StronglySorted dlt s -> StronglySorted dlt (filter f s).
Proof.
  induction 1 as [|a t Hs IH Hf]; simpl; [constructor|].
  destruct (f a); [|exact IH]. constructor; [exact IH|].
  eapply Forall_incl; [|exact Hf]. intros x Hx. apply filter_In in Hx. tauto.
Qed.

Lemma SS_removelast s : StronglySorted dlt s -> StronglySorted dlt (removelast s).
Proof.
  induction 1 as [|a t Hs IH Hf]; simpl; [constructor|].
  destruct t as [|b t]; [constructor|]. constructor; [exact IH|].
  eapply Forall_incl; [|exact Hf]. intros x Hx. now apply In_removelast.
Qed.

Lemma wf_seq_tl dom n s : wf_seq dom n s -> 1 < length s -> wf_seq dom n (tl s).
Proof.
  intros (Hne & Hs & Hf) Hl. destruct s as [|a [|b t]]; simpl in *; try lia.
  split; [discriminate|]. split; [now inversion Hs | now inversion Hf].
Qed.

Lemma wf_seq_removelast dom n s : wf_seq dom n s -> 1 < length s -> wf_seq dom n (removelast s).
Proof.
  intros (Hne & Hs & Hf) Hl. split; [|split].
  - destruct s as [|a [|b t]]; simpl in *; try lia. discriminate.
  - now apply SS_removelast.
  - eapply Forall_incl; [|exact Hf]. intros x. apply In_removelast.
Qed.

Lemma wf_seq_strip dom n s f0 : wf_seq dom n s -> 1 < length s ->
  wf_seq dom n (filter (fun x => negb (delta_eqb x f0)) s).
Proof.
  intros (Hne & Hs & Hf) Hl. split; [|split].
  - destruct s as [|a [|b t]]; simpl in *; try lia.
    apply StronglySorted_inv in Hs. destruct Hs as [_ Hab]. apply Forall_inv in Hab. rename Hab into Hlt.
    destruct (delta_eqb a f0) eqn:Ea; simpl; [|discriminate].
    destruct (delta_eqb b f0) eqn:Eb; simpl; [|discriminate].
    apply delta_eqb_eq in Ea, Eb. subst. unfold dlt in Hlt. lia.
  - now apply SS_filter.
  - eapply Forall_incl; [|exact Hf]. intros x Hx. apply filter_In in Hx. tauto.
Qed.

(* ---------- subset test, remove_subset, sorting ---------- *)

Lemma subset_b_spec m item : subset_b m item = true <-> incl m item.
Proof.
  unfold subset_b, incl. rewrite forallb_forall. split; intros H d Hd.
  - apply (memb_In _ delta_eqb_eq), H, Hd.
  - apply (memb_In _ delta_eqb_eq), H, Hd.
Qed.

Lemma remove_subset_In m items x :
  In x (remove_subset m items) <-> In x items /\ ~ incl m x.
Proof.
  unfold remove_subset. rewrite filter_In, negb_true_iff, <- subset_b_spec.
  destruct (subset_b m x); split; intros [H1 H2]; split; auto; congruence.
Qed.

Lemma insert_by_len_In x l y : In y (insert_by_len x l) <-> y = x \/ In y l.
Proof.
  induction l as [|a t IH]; simpl; [intuition|].
  destruct (length x <=? length a); simpl; [intuition|]. rewrite IH. intuition.
Qed.

Lemma sort_by_len_same l : same_set (sort_by_len l) l.
Proof.
  intros y. induction l as [|a t IH]; simpl; [tauto|].
  rewrite insert_by_len_In, IH. intuition.
Qed.

Lemma insert_by_len_length x l : length (insert_by_len x l) = S (length l).
Proof. induction l as [|a t IH]; simpl; [reflexivity|]. destruct (_ <=? _); simpl; lia. Qed.
