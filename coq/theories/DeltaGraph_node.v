(* Node-level facts: well-formed tuples, matching, what node_diff = True means,
   and the clique argument (pigeonhole) behind fusion. *)
From Coq Require Import String List Arith Bool Lia.
From PM Require Import DeltaGraph DeltaGraph_base.
Import ListNotations.
Open Scope list_scope.

(* ------------------------------------------------------------------ *)
(* sorted tuples                                                       *)
(* ------------------------------------------------------------------ *)
Fixpoint Sorted' (n : node) : Prop :=
  match n with
  | [] => True
  | d :: t => (forall d', In d' t -> snd d < snd d') /\ Sorted' t
  end.

Lemma sorted_idx_Sorted' n : sorted_idx n = true -> Sorted' n.
Proof.
  induction n as [|d t IH]; simpl; auto.
  destruct t as [|d' t'].
  - intros _. split; [simpl; tauto | exact I].
  - rewrite andb_true_iff, Nat.ltb_lt. intros [Hlt Hs]. specialize (IH Hs). split; auto.
    intros x [Hx|Hx].
    + subst. exact Hlt.
    + destruct IH as [Hall _]. specialize (Hall x Hx). lia.
Qed.

Lemma Sorted'_sorted_idx n : Sorted' n -> sorted_idx n = true.
Proof.
  induction n as [|d t IH]; simpl; auto.
  intros [Hall Hs]. destruct t as [|d' t']; auto.
  rewrite andb_true_iff, Nat.ltb_lt. split; [apply Hall; simpl; auto | apply IH; exact Hs].
Qed.

Lemma Sorted'_filter f n : Sorted' n -> Sorted' (filter f n).
Proof.
  induction n as [|d t IH]; simpl; auto.
  intros [Hall Hs]. destruct (f d); simpl; auto.
  split; auto. intros d' Hd'. apply filter_In in Hd'. apply Hall. tauto.
Qed.

(* one delta per index *)
Lemma Sorted'_unique n : Sorted' n -> forall v w i, In (v, i) n -> In (w, i) n -> v = w.
Proof.
  induction n as [|d t IH]; simpl; [tauto|].
  intros [Hall Hs] v w i [H1|H1] [H2|H2].
  - congruence.
  - subst d. specialize (Hall _ H2). simpl in Hall. lia.
  - subst d. specialize (Hall _ H1). simpl in Hall. lia.
  - eauto.
Qed.

Lemma Sorted'_NoDup n : Sorted' n -> NoDup n.
Proof.
  induction n as [|d t IH]; simpl; [constructor|].
  intros [Hall Hs]. constructor; auto. intros H. specialize (Hall _ H). lia.
Qed.

(* sorted tuples with the same deltas are the same tuple *)
Lemma Sorted'_ext a : forall b, Sorted' a -> Sorted' b -> (forall d, In d a <-> In d b) -> a = b.
Proof.
  induction a as [|x a IH]; intros b Sa Sb H.
  - destruct b as [|y b]; auto. exfalso. apply (H y). simpl; auto.
  - destruct b as [|y b]; [exfalso; apply (H x); simpl; auto|].
    simpl in Sa, Sb. destruct Sa as [Ha Sa], Sb as [Hb Sb].
    assert (x = y).
    { destruct (proj1 (H x) (or_introl eq_refl)) as [E|E]; auto.
      destruct (proj2 (H y) (or_introl eq_refl)) as [E'|E']; auto.
      specialize (Ha _ E'). specialize (Hb _ E). lia. }
    subst y. f_equal. apply IH; auto.
    intros d. split; intros Hd.
    + destruct (proj1 (H d) (or_intror Hd)) as [E|E]; auto. subst d. specialize (Ha _ Hd). lia.
    + destruct (proj2 (H d) (or_intror Hd)) as [E|E]; auto. subst d. specialize (Hb _ Hd). lia.
Qed.

Definition Wf (deg : nat) (n : node) : Prop := Sorted' n /\ forall d, In d n -> fst d < deg.

Lemma wf_node_Wf deg n : wf_node deg n = true <-> Wf deg n.
Proof.
  unfold wf_node, Wf. rewrite andb_true_iff, forallb_forall. split.
  - intros [A B]. split; [apply sorted_idx_Sorted'; auto|]. intros d Hd. apply Nat.ltb_lt. auto.
  - intros [A B]. split; [apply Sorted'_sorted_idx; auto|]. intros d Hd. apply Nat.ltb_lt. auto.
Qed.

Lemma In_remove_index d n i : In d (remove_index n i) <-> In d n /\ snd d <> i.
Proof.
  unfold remove_index. rewrite filter_In, negb_true_iff, Nat.eqb_neq. tauto.
Qed.

Lemma Wf_remove_index deg n i : Wf deg n -> Wf deg (remove_index n i).
Proof.
  intros [A B]. split.
  - apply Sorted'_filter. exact A.
  - intros d Hd. apply In_remove_index in Hd. apply B. tauto.
Qed.

(* ------------------------------------------------------------------ *)
(* matching                                                            *)
(* ------------------------------------------------------------------ *)
Lemma matches_spec n c : matches n c = true <-> forall d, In d n -> c (snd d) = fst d.
Proof.
  unfold matches. rewrite forallb_forall. split; intros H d Hd; specialize (H d Hd).
  - apply Nat.eqb_eq. exact H.
  - apply Nat.eqb_eq. exact H.
Qed.

Definition covered (deg : nat) (ins : list node) (n : node) : Prop :=
  forall c, (forall i, c i < deg) -> matches n c = true ->
            exists t, In t ins /\ matches t c = true.

Lemma covered_incl deg ins ins' n : incl ins ins' -> covered deg ins n -> covered deg ins' n.
Proof. intros Hi Hc c Hd Hm. destruct (Hc c Hd Hm) as [t [Ht Hm']]. exists t. split; auto. Qed.

Lemma covered_self deg ins n : In n ins -> covered deg ins n.
Proof. intros H c _ Hm. exists n. auto. Qed.

(* ------------------------------------------------------------------ *)
(* what an edge means                                                  *)
(* ------------------------------------------------------------------ *)
Definition edge_ok (a b : node) (i : nat) : Prop :=
  exists va vb, In (va, i) a /\ In (vb, i) b /\ va <> vb /\
                forall d, snd d <> i -> (In d a <-> In d b).

Lemma edge_ok_sym a b i : edge_ok a b i -> edge_ok b a i.
Proof.
  intros [va [vb [A [B [C D]]]]]. exists vb, va. repeat split; auto.
  - apply D; auto.
  - apply D; auto.
Qed.

(* ------------------------------------------------------------------ *)
(* node_diff                                                           *)
(* ------------------------------------------------------------------ *)
Lemma ndl_found rec n1 n2 rest ix r :
  nd_loop rec n1 n2 rest true (Some ix) = (true, r) ->
  (forall d, In d rest -> In d n2) /\ r = Some ix.
Proof.
  induction rest as [|d t IH]; simpl.
  - intros H. inversion H. split; [tauto | reflexivity].
  - destruct (dmem d n2) eqn:E.
    + intros H. apply IH in H. destruct H as [H1 H2]. split; auto.
      intros x [Hx|Hx]; auto. subst. apply dmem_In. exact E.
    + discriminate.
Qed.

Lemma ndl_ix rec n1 n2 rest ix r :
  nd_loop rec n1 n2 rest false (Some ix) = (true, r) ->
  exists pre d post, rest = pre ++ d :: post /\ (forall x, In x pre -> In x n2) /\
                     ~ In d n2 /\ snd d = ix /\ (forall x, In x post -> In x n2) /\ r = Some ix.
Proof.
  induction rest as [|d t IH]; simpl.
  - discriminate.
  - destruct (dmem d n2) eqn:E.
    + intros H. apply IH in H. destruct H as [pre [d0 [post [H1 [H2 [H3 [H4 [H5 H6]]]]]]]].
      exists (d :: pre), d0, post. subst t. repeat split; auto.
      intros x [Hx|Hx]; auto. subst. apply dmem_In. exact E.
    + destruct (Nat.eqb ix (snd d)) eqn:Ei; simpl; [|discriminate].
      intros H. apply ndl_found in H. destruct H as [H1 H2].
      exists [], d, t. apply Nat.eqb_eq in Ei. repeat split; auto.
      * simpl. tauto.
      * intros Hd. apply dmem_In in Hd. congruence.
Qed.

Lemma ndl_top n1 n2 rest r :
  nd_loop node_diff_ix n1 n2 rest false None = (true, r) ->
  exists pre d post, rest = pre ++ d :: post /\ (forall x, In x pre -> In x n2) /\
                     ~ In d n2 /\ (forall x, In x post -> In x n2) /\ r = Some (snd d) /\
                     fst (node_diff_ix n2 n1 (snd d)) = true.
Proof.
  induction rest as [|d t IH]; simpl.
  - discriminate.
  - destruct (dmem d n2) eqn:E.
    + intros H. apply IH in H. destruct H as [pre [d0 [post [H1 [H2 [H3 [H4 [H5 H6]]]]]]]].
      exists (d :: pre), d0, post. subst t. repeat split; auto.
      intros x [Hx|Hx]; auto. subst. apply dmem_In. exact E.
    + destruct (node_diff_ix n2 n1 (snd d)) as [diff o] eqn:Er. destruct diff; [|discriminate].
      intros H. apply ndl_found in H. destruct H as [H1 H2].
      exists [], d, t. repeat split; auto.
      * simpl. tauto.
      * intros Hd. apply dmem_In in Hd. congruence.
      * rewrite Er. reflexivity.
Qed.

Lemma node_diff_sound a b r :
  node_diff a b = (true, r) -> exists i, r = Some i /\ edge_ok a b i.
Proof.
  unfold node_diff. intros H. apply ndl_top in H.
  destruct H as [pre [d1 [post [Ha [Hpre [Hd1 [Hpost [Hr Hix]]]]]]]].
  unfold node_diff_ix in Hix.
  destruct (nd_loop (fun _ _ _ => (false, None)) b a b false (Some (snd d1))) as [df o] eqn:E.
  simpl in Hix. subst df. apply ndl_ix in E.
  destruct E as [pre' [d2 [post' [Hb [Hpre' [Hd2 [Hi2 [Hpost' _]]]]]]]].
  exists (snd d1). split; auto.
  exists (fst d1), (fst d2). repeat split.
  - rewrite Ha. apply in_or_app. right. left. destruct d1; reflexivity.
  - rewrite Hb. apply in_or_app. right. left. destruct d2; simpl in *; subst; reflexivity.
  - intros Hv. apply Hd1. rewrite Hb. apply in_or_app. right. left.
    destruct d1, d2; simpl in *; subst; reflexivity.
  - intros Hin. rewrite Ha in Hin. apply in_app_or in Hin. destruct Hin as [Hin|[Hin|Hin]]; auto.
    subst d. congruence.
  - intros Hin. rewrite Hb in Hin. apply in_app_or in Hin. destruct Hin as [Hin|[Hin|Hin]]; auto.
    subst d. congruence.
Qed.

(* ------------------------------------------------------------------ *)
(* pigeonhole                                                          *)
(* ------------------------------------------------------------------ *)
Lemma NoDup_map_inj_on {A B} (f : A -> B) l :
  NoDup l -> (forall x y, In x l -> In y l -> f x = f y -> x = y) -> NoDup (map f l).
Proof.
  induction l as [|x t IH]; simpl; intros ND Hinj; [constructor|].
  inversion ND as [|? ? Hn ND']. subst. constructor.
  - intros H. apply in_map_iff in H. destruct H as [y [Hy Hin]].
    assert (y = x) by (apply Hinj; auto). subst. contradiction.
  - apply IH; auto.
Qed.

Lemma pigeon l n : NoDup l -> (forall x, In x l -> x < n) -> length l = n -> forall v, v < n -> In v l.
Proof.
  intros ND Hlt Hlen v Hv.
  assert (Hincl : incl (seq 0 n) l).
  { apply NoDup_length_incl; auto.
    - rewrite seq_length. lia.
    - intros x Hx. apply in_seq. specialize (Hlt x Hx). lia. }
  apply Hincl. apply in_seq. lia.
Qed.

(* value of a tuple at an index *)
Definition vat (n : node) (i : nat) : nat :=
  match find (fun d => Nat.eqb (snd d) i) n with Some d => fst d | None => 0 end.

Lemma vat_In n v i : Sorted' n -> In (v, i) n -> vat n i = v.
Proof.
  intros S H. unfold vat. destruct (find (fun d => Nat.eqb (snd d) i) n) as [d|] eqn:E.
  - apply find_some in E. destruct E as [E1 E2]. apply Nat.eqb_eq in E2. destruct d as [w j]. simpl in *. subst j.
    eapply Sorted'_unique; eauto.
  - exfalso. apply (find_none _ _ E) in H. simpl in H. rewrite Nat.eqb_refl in H. discriminate.
Qed.

(* The clique argument.  [a] is a well-formed tuple carrying index [idx]; [nbs] are its
   pairwise distinct neighbours over label [idx]; together they are [deg] tuples. *)
Lemma clique_covers deg ins a idx (nbs : list node) :
  Wf deg a -> In idx (map snd a) ->
  NoDup nbs ->
  (forall b, In b nbs -> Wf deg b /\ covered deg ins b /\ edge_ok a b idx) ->
  covered deg ins a ->
  S (length nbs) = deg ->
  covered deg ins (remove_index a idx).
Proof.
  intros [Sa Ba] Hidx ND Hnb Ca Hlen c Hc Hm.
  apply in_map_iff in Hidx. destruct Hidx as [[va i0] [Hi0 Hva]]. simpl in Hi0. subst i0.
  rewrite matches_spec in Hm.
  set (vals := va :: map (fun b => vat b idx) nbs).
  assert (Hvb : forall b, In b nbs -> exists vb, In (vb, idx) b /\ vb <> va /\ vat b idx = vb /\
                                       forall d, snd d <> idx -> (In d a <-> In d b)).
  { intros b Hb. destruct (Hnb b Hb) as [[Sb _] [_ [va' [vb [A [B [C D]]]]]]].
    assert (va' = va) by (apply (Sorted'_unique a Sa va' va idx); auto). subst va'.
    exists vb. split; [exact B|]. split; [congruence|]. split; [apply vat_In; auto|]. intros d Hd. apply D; auto. }
  assert (Hin : In (c idx) vals).
  { apply (pigeon vals deg); auto.
    - unfold vals. constructor.
      + intros H. apply in_map_iff in H. destruct H as [b [Hb1 Hb2]].
        destruct (Hvb b Hb2) as [vb [_ [Hne [Hv _]]]]. congruence.
      + apply NoDup_map_inj_on; auto. intros b1 b2 H1 H2 He.
        destruct (Hvb b1 H1) as [v1 [I1 [_ [V1 D1]]]]. destruct (Hvb b2 H2) as [v2 [I2 [_ [V2 D2]]]].
        destruct (Hnb b1 H1) as [[S1 _] _]. destruct (Hnb b2 H2) as [[S2 _] _].
        apply Sorted'_ext; auto. intros d. destruct (Nat.eq_dec (snd d) idx) as [Ed|Ed].
        * destruct d as [w j]. simpl in Ed. subst j. split; intros Hd.
          -- assert (w = v1) by (apply (Sorted'_unique b1 S1 w v1 idx); auto). subst w. replace v1 with v2 by congruence. exact I2.
          -- assert (w = v2) by (apply (Sorted'_unique b2 S2 w v2 idx); auto). subst w. replace v2 with v1 by congruence. exact I1.
        * rewrite <- (D1 d Ed), <- (D2 d Ed). tauto.
    - unfold vals. intros x [Hx|Hx].
      + subst x. apply (Ba (va, idx)). exact Hva.
      + apply in_map_iff in Hx. destruct Hx as [b [Hb1 Hb2]].
        destruct (Hvb b Hb2) as [vb [I1 [_ [V1 _]]]]. destruct (Hnb b Hb2) as [[_ Bb] _].
        subst x. rewrite V1. apply (Bb (vb, idx)). exact I1.
    - unfold vals. simpl. rewrite map_length. exact Hlen. }
  unfold vals in Hin. destruct Hin as [Hin|Hin].
  - (* the choice takes a's own value at idx *)
    apply Ca; auto. apply matches_spec. intros d Hd. destruct (Nat.eq_dec (snd d) idx) as [Ed|Ed].
    + destruct d as [w j]. simpl in *. subst j. assert (w = va) by (apply (Sorted'_unique a Sa w va idx); auto). congruence.
    + apply Hm. apply In_remove_index. auto.
  - apply in_map_iff in Hin. destruct Hin as [b [Hb1 Hb2]].
    destruct (Hvb b Hb2) as [vb [I1 [_ [V1 D1]]]]. destruct (Hnb b Hb2) as [[Sb _] [Cb _]].
    apply Cb; auto. apply matches_spec. intros d Hd. destruct (Nat.eq_dec (snd d) idx) as [Ed|Ed].
    + destruct d as [w j]. simpl in *. subst j. assert (w = vb) by (apply (Sorted'_unique b Sb w vb idx); auto). congruence.
    + apply Hm. apply In_remove_index. split; auto. apply D1; auto.
Qed.
