(* Closed versions of the Rel_ops theorems: the homogenisation premise is discharged with
   Rel_hom.homogenisation_sem. *)
From Coq Require Import String List Bool Arith Lia.
From PM Require Import Semiring Poly Poly_sem Poly_add Poly_times Rel Analysis Calculus Rel_sem Poly_wf.
From PM Require Rel_hom Rel_ops.
Import ListNotations.
Open Scope list_scope.

Theorem rel_sum_sem : rel_sum_sem_stmt.
Proof. exact (Rel_ops.rel_sum_sem Rel_hom.homogenisation_sem). Qed.

Theorem rel_comp_sem : rel_comp_sem_stmt.
Proof. exact (Rel_ops.rel_comp_sem Rel_hom.homogenisation_sem). Qed.

Theorem rel_comp_clean : rel_comp_clean_stmt.
Proof. exact (Rel_ops.rel_comp_clean Rel_hom.homogenisation_sem). Qed.

Theorem rel_comp_pwf a b : wf_rel a -> wf_rel b -> rel_pwf (rel_comp a b).
Proof. exact (Rel_ops.rel_comp_pwf Rel_hom.homogenisation_sem a b). Qed.

(* non-vacuity: two relations over different variable lists, with choice-dependent cells, meet the
   hypotheses; at choice (1,0) the composition is clean and differs from both operands, at choice
   (0,1) the right operand has an infinity (so only the exact formula applies) *)
Open Scope string_scope.
Definition ex_a : rel :=
  Rel ["x"; "y"] [[unit_poly; from_scalars 0 [M; P; W]]; [zero_poly; unit_poly]].
Definition ex_b : rel :=
  Rel ["y"; "z"] [[unit_poly; [Mono W [(0, 1)]; Mono I [(1, 1)]]]; [zero_poly; unit_poly]].

Example ex_hyps : wf_rel ex_a /\ wf_rel ex_b /\ rel_pwf ex_a /\ rel_pwf ex_b.
Proof.
  unfold wf_rel, rel_pwf, pwf, mwf. simpl.
  repeat split; repeat constructor; simpl; try discriminate; try lia;
    try (intros H; repeat (destruct H as [H|H]; try discriminate H)); try exact H.
Qed.

Example ex_values :
  rvars (rel_comp ex_a ex_b) = ["x"; "y"; "z"] /\
  rval (rel_comp ex_a ex_b) (choice_of_list [1; 0]) "x" "z" = P /\
  rval ex_a (choice_of_list [1; 0]) "x" "z" = O /\ rval ex_b (choice_of_list [1; 0]) "x" "z" = O /\
  rval (rel_comp ex_a ex_b) (choice_of_list [0; 1]) "x" "z" = I /\
  rval (rel_sum ex_a ex_b) (choice_of_list [2; 0]) "x" "y" = W.
Proof. repeat split; vm_compute; reflexivity. Qed.

Example ex_clean : clean ex_a (choice_of_list [1; 0]) /\ clean ex_b (choice_of_list [1; 0]).
Proof.
  split; intros x y Hx Hy; simpl in Hx, Hy;
    destruct Hx as [<-|[<-|[]]]; destruct Hy as [<-|[<-|[]]];
    intros H; vm_compute in H; discriminate H.
Qed.

Print Assumptions rel_sum_sem.
Print Assumptions rel_comp_sem.
Print Assumptions rel_comp_clean.
Print Assumptions rel_comp_pwf.
