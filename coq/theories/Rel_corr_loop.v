(* Semantics of Relation.loop_correction (Sem_stmts.loop_correction_sem_stmt):
   an invariant over the row-major walk of the cells. *)
From Coq Require Import String List Bool Arith Lia.
From PM Require Import Semiring Poly Poly_sem Poly_add Poly_times Poly_wf Rel Analysis Calculus Rel_sem Rel_hom
  Sem_stmts Rel_corr_base Rel_corr_while.
From PMGen Require Import RulesGen.
Import ListNotations.
Open Scope list_scope.

(* ------------------------------------------------------------------ *)
(* the code, in named pieces                                           *)
(* ------------------------------------------------------------------ *)

Definition lbad (d : bool) : Sc -> bool := fun s => L_BAD s d.
Definition lprop (d : bool) : mono -> bool := fun mo => L_PROPAGATE (sc mo) d.

Definition add_step (ell j : nat) (acc : matrix) (mo : mono) : matrix :=
  set_cell acc ell j (padd (mget acc ell j) [mono_copy mo]).
Definition add_all (ell j : nat) (pm : list mono) (m1 : matrix) : matrix :=
  fold_left (add_step ell j) pm m1.

Lemma loop_cell_eq ell m i j :
  loop_cell ell m i j =
  (add_all ell j (filter (lprop (Nat.eqb i j)) (corr_map (lbad (Nat.eqb i j)) (mget m i j)))
           (set_cell m i j (corr_map (lbad (Nat.eqb i j)) (mget m i j))),
   snd (corr_cell (lbad (Nat.eqb i j)) (mget m i j))).
Proof. reflexivity. Qed.

Definition lstep (ell : nat) : matrix * list (list delta) -> nat * nat -> matrix * list (list delta) :=
  fun '(m, rec) '(i, j) => let '(m', r') := loop_cell ell m i j in (m', (rec ++ r')%list).

Lemma lstep_eq ell m rec i j :
  lstep ell (m, rec) (i, j) = (fst (loop_cell ell m i j), rec ++ snd (loop_cell ell m i j)).
Proof. unfold lstep. destruct (loop_cell ell m i j). reflexivity. Qed.

Definition cells_idx (m : matrix) : list (nat * nat) :=
  flat_map (fun i => map (fun j => (i, j)) (seq 0 (length (nth i m [])))) (seq 0 (length m)).

Lemma loop_correction_eq r x :
  loop_correction r x =
  match index_of_str x (rvars r) with
  | None => None
  | Some ell =>
      let st := fold_left (lstep ell) (cells_idx (rmat r)) (rmat r, []) in
      Some (Rel (rvars r) (fst st), snd st)
  end.
Proof.
  unfold loop_correction. destruct (index_of_str x (rvars r)) as [ell|]; [|reflexivity].
  set (st := fold_left (lstep ell) (cells_idx (rmat r)) (rmat r, [])).
  change (match st with (m, rec) => Some (Rel (rvars r) m, rec) end = Some (Rel (rvars r) (fst st), snd st)).
  destruct st as [m rec]. reflexivity.
Qed.

(* closed forms of the generated predicates *)
Lemma lbad_false s : lbad false s = false.
Proof. unfold lbad. destruct side_conditions_are_documented as [_ [HL _]]. rewrite HL. reflexivity. Qed.

Lemma lbad_true s : lbad true s = negb (sc_eqb s M).
Proof. unfold lbad. destruct side_conditions_are_documented as [_ [HL _]]. rewrite HL. reflexivity. Qed.

Lemma lprop_P d s : L_PROPAGATE s d = sc_eqb s P.
Proof. destruct side_conditions_are_documented as [_ [_ [HP _]]]. apply HP. Qed.

(* ------------------------------------------------------------------ *)
(* the list of visited cells                                           *)
(* ------------------------------------------------------------------ *)

Lemma cells_idx_In m i j :
  In (i, j) (cells_idx m) <-> i < length m /\ j < length (nth i m []).
Proof.
  unfold cells_idx. rewrite in_flat_map. split.
  - intros [k [Hk H]]. apply in_map_iff in H. destruct H as [j' [E Hj']].
    injection E as -> ->. apply in_seq in Hk. apply in_seq in Hj'. lia.
  - intros [Hi Hj]. exists i. split; [apply in_seq; lia|].
    apply in_map_iff. exists j. split; [reflexivity | apply in_seq; lia].
Qed.

Lemma cells_idx_In_shape n m i j : shape n m -> (In (i, j) (cells_idx m) <-> i < n /\ j < n).
Proof.
  intros Hs. rewrite cells_idx_In. destruct Hs as [Hl Hr]. rewrite Hl. split.
  - intros [Hi Hj]. rewrite (shape_row n m i (conj Hl Hr) Hi) in Hj. tauto.
  - intros [Hi Hj]. rewrite (shape_row n m i (conj Hl Hr) Hi). tauto.
Qed.

Lemma NoDup_map_pair (i : nat) (l : list nat) : NoDup l -> NoDup (map (fun j => (i, j)) l).
Proof.
  induction 1 as [|h t Hh Ht IH]; cbn [map]; constructor; [|exact IH].
  intros H. apply in_map_iff in H. destruct H as [j [E Hj]]. injection E as ->. contradiction.
Qed.

Lemma NoDup_flat_map_pair (g : nat -> list nat) (l : list nat) :
  NoDup l -> (forall i, NoDup (g i)) -> NoDup (flat_map (fun i => map (fun j => (i, j)) (g i)) l).
Proof.
  intros Hl Hg. induction Hl as [|h t Hh Ht IH]; cbn [flat_map]; [constructor|].
  apply NoDup_app_intro; [apply NoDup_map_pair, Hg | exact IH |].
  intros [a b] H1 H2. apply in_map_iff in H1. destruct H1 as [j [E _]]. injection E as <- _.
  apply in_flat_map in H2. destruct H2 as [k [Hk H2]].
  apply in_map_iff in H2. destruct H2 as [j' [E _]]. injection E as -> _. contradiction.
Qed.

Lemma cells_idx_NoDup m : NoDup (cells_idx m).
Proof.
  unfold cells_idx.
  apply (NoDup_flat_map_pair (fun i => seq 0 (length (nth i m [])))); [apply seq_NoDup|].
  intros i. apply seq_NoDup.
Qed.

(* ------------------------------------------------------------------ *)
(* the inner loop: adding copies of monomials into cell (ell, j)       *)
(* ------------------------------------------------------------------ *)

Lemma val_single_copy mo c : val [mono_copy mo] c = mval mo c.
Proof. rewrite val_cons, val_nil, ssum_O_r. apply mval_mono_copy. Qed.

Lemma add_all_spec n ell j : ell < n -> j < n -> forall pm m1, shape n m1 ->
  shape n (add_all ell j pm m1) /\
  (forall i' j', i' <> ell \/ j' <> j -> mget (add_all ell j pm m1) i' j' = mget m1 i' j') /\
  (forall c, val (mget (add_all ell j pm m1) ell j) c = ssum (val (mget m1 ell j) c) (val pm c)) /\
  (pwf (mget m1 ell j) -> pwf (mget (add_all ell j pm m1) ell j)) /\
  (mget m1 ell j <> [] -> NFz (mget m1 ell j) -> NFz (mget (add_all ell j pm m1) ell j)).
Proof.
  intros Hell Hj. induction pm as [|mo pm IH]; intros m1 Hs.
  - unfold add_all. cbn [fold_left]. split; [exact Hs|]. split; [reflexivity|].
    split; [intros c; rewrite val_nil, ssum_O_r; reflexivity|]. split; [tauto | tauto].
  - unfold add_all. cbn [fold_left]. fold (add_all ell j pm (add_step ell j m1 mo)).
    assert (Hs1 : shape n (add_step ell j m1 mo)) by (apply shape_set_cell; exact Hs).
    assert (Hc1 : mget (add_step ell j m1 mo) ell j = padd (mget m1 ell j) [mono_copy mo]).
    { unfold add_step. rewrite (mget_set_cell n) by assumption. rewrite !Nat.eqb_refl. reflexivity. }
    assert (Ho1 : forall i' j', i' <> ell \/ j' <> j ->
               mget (add_step ell j m1 mo) i' j' = mget m1 i' j').
    { intros i' j' Hne. unfold add_step. rewrite (mget_set_cell n) by assumption.
      destruct (Nat.eqb_spec i' ell); destruct (Nat.eqb_spec j' j); cbn [andb]; try reflexivity.
      exfalso. tauto. }
    destruct (IH _ Hs1) as [A1 [A2 [A3 [A4 A5]]]].
    split; [exact A1|]. split; [|split; [|split]].
    + intros i' j' Hne. rewrite A2 by exact Hne. apply Ho1. exact Hne.
    + intros c. rewrite A3, Hc1, padd_val, val_single_copy, (val_cons mo pm c), ssum_assoc. reflexivity.
    + intros _. apply A4. rewrite Hc1. apply padd_pwf_r. constructor; [apply mono_copy_mwf | constructor].
    + intros Hne _. apply A5; rewrite Hc1; [apply padd_ne|].
      apply padd_nf; [exact Hne | discriminate].
Qed.

(* ------------------------------------------------------------------ *)
(* structural invariant (independent of the choice)                    *)
(* ------------------------------------------------------------------ *)

Definition Jstruct (n : nat) (m : matrix) : Prop :=
  shape n m /\ forall i j, i < n -> j < n -> pwf (mget m i j).

Lemma loop_cell_struct n ell m i j : ell < n -> i < n -> j < n ->
  Jstruct n m -> Jstruct n (fst (loop_cell ell m i j)).
Proof.
  intros Hell Hi Hj [Hs Hp]. rewrite loop_cell_eq. cbn [fst].
  set (p' := corr_map (lbad (Nat.eqb i j)) (mget m i j)).
  assert (Hs1 : shape n (set_cell m i j p')) by (apply shape_set_cell; exact Hs).
  assert (Hp1 : forall i' j', i' < n -> j' < n -> pwf (mget (set_cell m i j p') i' j')).
  { intros i' j' Hi' Hj'. rewrite (mget_set_cell n) by assumption.
    destruct (Nat.eqb i' i && Nat.eqb j' j); [apply corr_map_pwf; apply Hp; assumption | apply Hp; assumption]. }
  destruct (add_all_spec n ell j Hell Hj (filter (lprop (Nat.eqb i j)) p') _ Hs1) as [A1 [A2 [_ [A4 _]]]].
  split; [exact A1|]. intros i' j' Hi' Hj'.
  destruct (Nat.eq_dec i' ell) as [->|Hne]; [destruct (Nat.eq_dec j' j) as [->|Hne]|].
  - apply A4. apply Hp1; assumption.
  - rewrite A2 by (right; exact Hne). apply Hp1; assumption.
  - rewrite A2 by (left; exact Hne). apply Hp1; assumption.
Qed.

Lemma fold_struct n ell : ell < n -> forall todo m rec,
  (forall ij, In ij todo -> fst ij < n /\ snd ij < n) ->
  Jstruct n m -> Jstruct n (fst (fold_left (lstep ell) todo (m, rec))).
Proof.
  intros Hell. induction todo as [|[i j] t IH]; intros m rec Hb HJ; [exact HJ|].
  cbn [fold_left]. rewrite lstep_eq. apply IH.
  - intros ij Hij. apply Hb. right. exact Hij.
  - destruct (Hb (i, j) (or_introl eq_refl)) as [Hi Hj]. apply loop_cell_struct; assumption.
Qed.

(* ------------------------------------------------------------------ *)
(* semantic invariant at a fixed choice                                *)
(* ------------------------------------------------------------------ *)

Section SEM.
Variable n ell : nat.
Variable M0 : matrix.
Variable c : choice.
Hypothesis Hell : ell < n.
Hypothesis Hfin0 : forall i j, i < n -> j < n -> val (mget M0 i j) c <> I.
Hypothesis Hdiag0 : forall i, i < n -> sc_le M (val (mget M0 i i) c).
Hypothesis Hcol0 : forall i, i < n -> i <> ell -> val (mget M0 i ell) c = O.

Definition val0 (i j : nat) : Sc := val (mget M0 i j) c.

(* some already visited off-diagonal cell of column j has value p *)
Definition extf (j : nat) (ij : nat * nat) : bool :=
  Nat.eqb (snd ij) j && negb (Nat.eqb (fst ij) j) && sc_eqb (val0 (fst ij) j) P.
Definition extb (done : list (nat * nat)) (j : nat) : bool := existsb (extf j) done.

Definition Jsem (done : list (nat * nat)) (m : matrix) (rec : list (list delta)) : Prop :=
  (forall i j, i < n -> j < n -> i <> ell -> i <> j -> mget m i j = mget M0 i j) /\
  (forall i, i < n -> ~ In (i, i) done -> NFz (mget m i i) /\ val (mget m i i) c = val0 i i) /\
  (forall j, j < n -> j <> ell ->
     val (mget m ell j) c = ssum (val0 ell j) (if extb done j then P else O)) /\
  ((exists s, In s rec /\ mmatch c s = true) <-> (exists i, i < n /\ In (i, i) done /\ val0 i i <> M)) /\
  ((forall s, In s rec -> mmatch c s = false) ->
     forall i, i < n -> In (i, i) done -> val (mget m i i) c = val0 i i).

Lemma Jsem_init : (forall i, i < n -> NFz (mget M0 i i)) -> Jsem [] M0 [].
Proof.
  intros Hnf. unfold Jsem. split; [reflexivity|]. split; [|split; [|split]].
  - intros i Hi _. split; [apply Hnf; exact Hi | reflexivity].
  - intros j _ _. cbn. rewrite ssum_O_r. reflexivity.
  - split; [intros [s [[] _]] | intros [i [_ [[] _]]]].
  - intros _ i _ [].
Qed.

Lemma extb_snoc done j ij : extb (done ++ [ij]) j = extb done j || extf j ij.
Proof. unfold extb. rewrite existsb_app. cbn [existsb]. rewrite orb_false_r. reflexivity. Qed.

Lemma Jsem_step done m rec i j :
  Jstruct n m -> Jsem done m rec -> i < n -> j < n -> ~ In (i, j) done ->
  Jsem (done ++ [(i, j)]) (fst (loop_cell ell m i j)) (rec ++ snd (loop_cell ell m i j)).
Proof.
  intros [Hs Hp] [J3 [J4 [J5 [J6 J7]]]] Hi Hj Hnd.
  rewrite loop_cell_eq. cbn [fst snd].
  destruct (Nat.eqb_spec i j) as [<-|Hij].
  - (* ---------------- a diagonal cell ---------------- *)
    set (p := mget m i i).
    destruct (J4 i Hi Hnd) as [Hnfp Hvp]. fold p in Hnfp, Hvp.
    assert (Hpm : filter (lprop true) (corr_map (lbad true) p) = []).
    { exact (corr_map_diag_no_P (lbad true) (fun s => L_PROPAGATE s true) p lbad_true (lprop_P true)). }
    rewrite Hpm. unfold add_all. cbn [fold_left].
    assert (Hget : forall i' j', mget (set_cell m i i (corr_map (lbad true) p)) i' j' =
                     if Nat.eqb i' i && Nat.eqb j' i then corr_map (lbad true) p else mget m i' j').
    { intros i' j'. apply (mget_set_cell n); assumption. }
    assert (Hoff : forall i' j', i' <> j' -> mget (set_cell m i i (corr_map (lbad true) p)) i' j' = mget m i' j').
    { intros i' j' Hne. rewrite Hget.
      destruct (Nat.eqb_spec i' i); destruct (Nat.eqb_spec j' i); cbn [andb]; try reflexivity. lia. }
    assert (Hdg : forall i', i' <> i -> mget (set_cell m i i (corr_map (lbad true) p)) i' i' = mget m i' i').
    { intros i' Hne. rewrite Hget. destruct (Nat.eqb_spec i' i); cbn [andb]; [lia | reflexivity]. }
    assert (Hrec : (exists s, In s (snd (corr_cell (lbad true) p)) /\ mmatch c s = true) <-> val0 i i <> M).
    { rewrite <- Hvp. apply diag_rec_iff; [exact lbad_true | exact Hnfp |].
      rewrite Hvp. apply Hdiag0. exact Hi. }
    unfold Jsem. split; [|split; [|split; [|split]]].
    + intros i' j' Hi' Hj' Hne1 Hne2. rewrite Hoff by exact Hne2. apply J3; assumption.
    + intros i' Hi' Hnin. assert (Hne : i' <> i).
      { intros ->. apply Hnin. apply in_or_app. right. left. reflexivity. }
      rewrite Hdg by exact Hne. apply J4; [exact Hi'|].
      intros H. apply Hnin. apply in_or_app. left. exact H.
    + intros j' Hj' Hne. rewrite Hoff by (intros E; apply Hne; symmetry; exact E).
      rewrite J5 by assumption. rewrite extb_snoc. unfold extf. cbn [fst snd].
      rewrite andb_negb_r. cbn [andb]. rewrite orb_false_r. reflexivity.
    + split.
      * intros [s [Hin Hm]]. apply in_app_or in Hin. destruct Hin as [Hin|Hin].
        -- destruct (proj1 J6 (ex_intro _ s (conj Hin Hm))) as [i' [Hi' [Hd Hv]]].
           exists i'. split; [exact Hi'|]. split; [apply in_or_app; left; exact Hd | exact Hv].
        -- exists i. split; [exact Hi|]. split; [apply in_or_app; right; left; reflexivity|].
           apply Hrec. exists s. split; assumption.
      * intros [i' [Hi' [Hd Hv]]]. apply in_app_or in Hd. destruct Hd as [Hd|Hd].
        -- destruct (proj2 J6 (ex_intro _ i' (conj Hi' (conj Hd Hv)))) as [s [Hin Hm]].
           exists s. split; [apply in_or_app; left; exact Hin | exact Hm].
        -- destruct Hd as [E|[]]. injection E as <-.
           destruct (proj2 Hrec Hv) as [s [Hin Hm]].
           exists s. split; [apply in_or_app; right; exact Hin | exact Hm].
    + intros Hno i' Hi' Hd.
      assert (Hno1 : forall s, In s rec -> mmatch c s = false)
        by (intros s Hin; apply Hno; apply in_or_app; left; exact Hin).
      assert (Hno2 : forall s, In s (snd (corr_cell (lbad true) p)) -> mmatch c s = false)
        by (intros s Hin; apply Hno; apply in_or_app; right; exact Hin).
      destruct (Nat.eq_dec i' i) as [->|Hne].
      * rewrite Hget, !Nat.eqb_refl. cbn [andb]. rewrite <- Hvp. apply val_corr_map.
        intros mo Hmo Hm. destruct (lbad true (sc mo)) eqn:Eb; [|reflexivity]. exfalso.
        assert (Hin : In (ds mo) (snd (corr_cell (lbad true) p))).
        { apply corr_cell_snd_In. exists mo. split; [exact Hmo|]. split; [exact Eb | reflexivity]. }
        rewrite (Hno2 _ Hin) in Hm. discriminate.
      * rewrite Hdg by exact Hne. apply J7; [exact Hno1 | exact Hi' |].
        apply in_app_or in Hd. destruct Hd as [Hd|[E|[]]]; [exact Hd|].
        injection E as E. exfalso. apply Hne. symmetry. exact E.
  - (* ---------------- an off-diagonal cell ---------------- *)
    set (p := mget m i j).
    rewrite (corr_map_false (lbad false) p lbad_false).
    assert (Hrec : snd (corr_cell (lbad false) p) = []).
    { unfold corr_cell. cbn [snd]. rewrite (filter_false (fun mo => lbad false (sc mo))); [reflexivity|].
      intros a _. apply lbad_false. }
    rewrite Hrec, app_nil_r.
    set (pm := filter (lprop false) p).
    assert (Hs1 : shape n (set_cell m i j p)) by (apply shape_set_cell; exact Hs).
    assert (Hg1 : forall i' j', mget (set_cell m i j p) i' j' = mget m i' j').
    { intros i' j'. rewrite (mget_set_cell n) by assumption.
      destruct (Nat.eqb_spec i' i) as [->|]; destruct (Nat.eqb_spec j' j) as [->|]; reflexivity. }
    destruct (add_all_spec n ell j Hell Hj pm _ Hs1) as [A1 [A2 [A3 [_ A5]]]].
    set (m2 := add_all ell j pm (set_cell m i j p)) in *.
    assert (B2 : forall i' j', i' <> ell \/ j' <> j -> mget m2 i' j' = mget m i' j').
    { intros i' j' Hne. rewrite A2 by exact Hne. apply Hg1. }
    assert (B3 : val (mget m2 ell j) c = ssum (val (mget m ell j) c) (val pm c)).
    { rewrite A3, Hg1. reflexivity. }
    (* the value of the visited cell *)
    assert (Hvp : val p c = if Nat.eqb i ell then ssum (val0 ell j) (if extb done j then P else O)
                            else val0 i j).
    { unfold p. destruct (Nat.eqb_spec i ell) as [->|Hne].
      - apply J5; [exact Hj | intros E; apply Hij; symmetry; exact E].
      - rewrite J3 by assumption. reflexivity. }
    assert (Hvfin : val p c <> I).
    { rewrite Hvp. destruct (Nat.eqb i ell); [|apply Hfin0; assumption].
      apply ssum_not_I_intro; [apply Hfin0; assumption | destruct (extb done j); discriminate]. }
    assert (Hvpm : val pm c = if sc_eqb (val p c) P then P else O).
    { exact (val_filter_P (fun s => L_PROPAGATE s false) p c (lprop_P false) Hvfin). }
    (* the diagonal is untouched at c *)
    assert (Hdiag : forall i', i' < n ->
              val (mget m2 i' i') c = val (mget m i' i') c /\
              (NFz (mget m i' i') -> NFz (mget m2 i' i'))).
    { intros i' Hi'. destruct (Nat.eq_dec i' ell) as [->|Hne1]; [destruct (Nat.eq_dec ell j) as [<-|Hne2]|].
      - (* the cell (ell, ell) receives copies of monomials of (i, ell), none of which matches c *)
        assert (Hiell : i <> ell) by exact Hij.
        assert (E : val pm c = O).
        { rewrite Hvpm, Hvp. destruct (Nat.eqb_spec i ell); [contradiction|].
          unfold val0. rewrite (Hcol0 i Hi Hiell). reflexivity. }
        split.
        + rewrite B3, E, ssum_O_r. reflexivity.
        + intros Hnf. apply A5; rewrite Hg1; [|exact Hnf]. apply (Hp ell ell Hell Hell).
      - rewrite B2 by (right; exact Hne2). tauto.
      - rewrite B2 by (left; exact Hne1). tauto. }
    unfold Jsem. split; [|split; [|split; [|split]]].
    + intros i' j' Hi' Hj' Hne1 Hne2. rewrite B2 by (left; exact Hne1). apply J3; assumption.
    + intros i' Hi' Hnin. destruct (Hdiag i' Hi') as [D1 D2].
      destruct (J4 i' Hi') as [K1 K2].
      { intros H. apply Hnin. apply in_or_app. left. exact H. }
      split; [apply D2; exact K1 | rewrite D1; exact K2].
    + intros j' Hj' Hne. rewrite extb_snoc. unfold extf. cbn [fst snd].
      destruct (Nat.eqb_spec j j') as [<-|Hjj].
      * (* the cell that received the copies *)
        rewrite B3, Hvpm, (J5 j Hj Hne), Hvp.
        assert (Ei : Nat.eqb i j = false) by (apply Nat.eqb_neq; exact Hij).
        rewrite Ei. cbn [negb andb].
        destruct (Nat.eqb_spec i ell) as [->|Hne1].
        -- unfold val0. destruct (extb done j); destruct (val (mget M0 ell j) c); reflexivity.
        -- unfold val0.
           destruct (extb done j); destruct (val (mget M0 ell j) c); destruct (val (mget M0 i j) c);
             reflexivity.
      * cbn [andb]. rewrite orb_false_r.
        rewrite B2 by (right; intros E; apply Hjj; symmetry; exact E). apply J5; assumption.
    + rewrite J6. split.
      * intros [i' [Hi' [Hd Hv]]]. exists i'. split; [exact Hi'|].
        split; [apply in_or_app; left; exact Hd | exact Hv].
      * intros [i' [Hi' [Hd Hv]]]. exists i'. split; [exact Hi'|]. split; [|exact Hv].
        apply in_app_or in Hd. destruct Hd as [Hd|[E|[]]]; [exact Hd|].
        injection E as E1 E2. exfalso. apply Hij. congruence.
    + intros Hno i' Hi' Hd. destruct (Hdiag i' Hi') as [D1 _]. rewrite D1.
      apply J7; [exact Hno | exact Hi' |].
      apply in_app_or in Hd. destruct Hd as [Hd|[E|[]]]; [exact Hd|].
      injection E as E1 E2. exfalso. apply Hij. congruence.
Qed.

Lemma fold_sem : forall todo done m rec,
  NoDup (done ++ todo) -> (forall ij, In ij todo -> fst ij < n /\ snd ij < n) ->
  Jstruct n m -> Jsem done m rec ->
  Jsem (done ++ todo) (fst (fold_left (lstep ell) todo (m, rec)))
                      (snd (fold_left (lstep ell) todo (m, rec))).
Proof.
  induction todo as [|[i j] t IH]; intros done m rec Hnd Hb HS HJ.
  - rewrite app_nil_r. exact HJ.
  - cbn [fold_left]. rewrite lstep_eq.
    destruct (Hb (i, j) (or_introl eq_refl)) as [Hi Hj]. cbn [fst snd] in Hi, Hj.
    assert (Hnin : ~ In (i, j) done).
    { intros H. apply NoDup_remove_2 in Hnd. apply Hnd. apply in_or_app. left. exact H. }
    replace (done ++ (i, j) :: t) with ((done ++ [(i, j)]) ++ t)
      by (rewrite <- app_assoc; reflexivity).
    apply IH.
    + rewrite <- app_assoc. exact Hnd.
    + intros ij Hij. apply Hb. right. exact Hij.
    + apply loop_cell_struct; assumption.
    + apply Jsem_step; assumption.
Qed.

End SEM.

(* ------------------------------------------------------------------ *)
(* the theorem                                                         *)
(* ------------------------------------------------------------------ *)

Lemma rval_idx r c x y i j :
  index_of_str x (rvars r) = Some i -> index_of_str y (rvars r) = Some j ->
  rval r c x y = val (mget (rmat r) i j) c.
Proof. intros Hx Hy. unfold rval. rewrite (cell_idx r x y i j Hx Hy). reflexivity. Qed.

Theorem loop_correction_sem_main : loop_correction_sem_stmt.
Proof.
  unfold loop_correction_sem_stmt. intros r x Hwf Hpwf Hnfz Hx.
  destruct (var_index r x Hwf Hx) as [ell [Hxe Hell]].
  pose proof (wf_rel_shape r Hwf) as Hs.
  set (n := length (rvars r)) in *.
  set (st := fold_left (lstep ell) (cells_idx (rmat r)) (rmat r, [])).
  assert (Hbounds : forall ij, In ij (cells_idx (rmat r)) -> fst ij < n /\ snd ij < n).
  { intros [i j] H. apply (cells_idx_In_shape n) in H; [exact H | exact Hs]. }
  assert (HS0 : Jstruct n (rmat r)).
  { split; [exact Hs|]. intros i j Hi Hj. apply rel_pwf_mget; assumption. }
  pose proof (fold_struct n ell Hell _ _ [] Hbounds HS0) as HSf. fold st in HSf.
  destruct HSf as [Hsf Hpf].
  exists (Rel (rvars r) (fst st)), (snd st).
  split; [rewrite loop_correction_eq, Hxe; reflexivity|].
  split; [|split; [|split; [reflexivity|]]].
  - destruct Hwf as [W1 [W2 _]]. destruct Hsf as [Hl Hr]. unfold wf_rel. cbn [rvars rmat].
    split; [exact W1|]. split; [exact W2|]. split; [exact Hl | exact Hr].
  - unfold rel_pwf. cbn [rmat]. apply (mforall_of_mget pwf n); assumption.
  - intros c Hclean Hdiag Hcol.
    (* the hypotheses, by index *)
    assert (Hfin0 : forall i j, i < n -> j < n -> val (mget (rmat r) i j) c <> I).
    { intros i j Hi Hj. destruct (index_var r i Hwf Hi) as [Hxi Hxi'].
      destruct (index_var r j Hwf Hj) as [Hyi Hyi'].
      rewrite <- (rval_idx r c _ _ i j Hxi' Hyi'). apply Hclean; assumption. }
    assert (Hdiag0 : forall i, i < n -> sc_le M (val (mget (rmat r) i i) c)).
    { intros i Hi. destruct (index_var r i Hwf Hi) as [Hxi Hxi'].
      rewrite <- (rval_idx r c _ _ i i Hxi' Hxi'). apply Hdiag. exact Hxi. }
    assert (Hcol0 : forall i, i < n -> i <> ell -> val (mget (rmat r) i ell) c = O).
    { intros i Hi Hne. destruct (index_var r i Hwf Hi) as [Hxi Hxi'].
      rewrite <- (rval_idx r c _ x i ell Hxi' Hxe). apply Hcol; [exact Hxi|].
      intros E. rewrite E, Hxe in Hxi'. injection Hxi' as E'. apply Hne. symmetry. exact E'. }
    assert (Hnf0 : forall i, i < n -> NFz (mget (rmat r) i i)).
    { intros i Hi. apply (mget_of_mforall NFz n); assumption. }
    pose proof (fold_sem n ell (rmat r) c Hell Hfin0 Hdiag0 Hcol0 (cells_idx (rmat r)) [] (rmat r) []
                  (cells_idx_NoDup _) Hbounds HS0 (Jsem_init n ell (rmat r) c Hnf0)) as HJ.
    cbn [app] in HJ. fold st in HJ. destruct HJ as [J3 [_ [J5 [J6 J7]]]].
    assert (Hall : forall i, i < n -> In (i, i) (cells_idx (rmat r))).
    { intros i Hi. apply (cells_idx_In_shape n); [exact Hs | tauto]. }
    (* l_ok fails iff some diagonal value is not m *)
    assert (Hlok : l_ok (rvars r) (rval r c) = false <->
                   exists i, i < n /\ val (mget (rmat r) i i) c <> M).
    { unfold l_ok. split.
      - intros H. apply forallb_false_elim in H. destruct H as [y [Hy H]].
        apply negb_false_iff in H. destruct (var_index r y Hwf Hy) as [i [Hye Hi]].
        rewrite (rval_idx r c y y i i Hye Hye) in H. exists i. split; [exact Hi|].
        intros E. rewrite E in H. change (lbad true M = true) in H. rewrite lbad_true in H. discriminate.
      - intros [i [Hi Hv]]. destruct (index_var r i Hwf Hi) as [Hxi Hxi'].
        apply (forallb_false_intro _ _ _ Hxi). apply negb_false_iff.
        rewrite (rval_idx r c _ _ i i Hxi' Hxi').
        change (lbad true (val (mget (rmat r) i i) c) = true). rewrite lbad_true.
        destruct (val (mget (rmat r) i i) c); try reflexivity. congruence. }
    split.
    + rewrite J6, Hlok. unfold val0. split.
      * intros [i [Hi [_ Hv]]]. exists i. tauto.
      * intros [i [Hi Hv]]. exists i. split; [exact Hi|]. split; [apply Hall; exact Hi | exact Hv].
    + intros Hno.
      (* every diagonal value is m *)
      assert (HdM : forall i, i < n -> val (mget (rmat r) i i) c = M).
      { intros i Hi. destruct (sc_eqb_spec (val (mget (rmat r) i i) c) M) as [E|E]; [exact E|].
        exfalso. destruct (proj2 J6) as [s [Hin Hm]].
        - exists i. split; [exact Hi|]. split; [apply Hall; exact Hi | exact E].
        - rewrite (Hno s Hin) in Hm. discriminate. }
      assert (Hdg : forall i, i < n -> val (mget (fst st) i i) c = val (mget (rmat r) i i) c).
      { intros i Hi. apply (J7 Hno i Hi). apply Hall. exact Hi. }
      assert (Hext : forall x' y', In x' (rvars r) -> In y' (rvars r) ->
                rval (Rel (rvars r) (fst st)) c x' y' = l_extend (rvars r) x (rval r c) x' y').
      { intros x' y' Hx' Hy'.
        destruct (var_index r x' Hwf Hx') as [i' [Hxe' Hi']].
        destruct (var_index r y' Hwf Hy') as [j' [Hye' Hj']].
        rewrite (rval_idx (Rel (rvars r) (fst st)) c x' y' i' j' Hxe' Hye'). cbn [rmat].
        unfold l_extend. rewrite <- (index_of_str_eqb x' x _ i' ell Hxe' Hxe).
        rewrite (rval_idx r c x' y' i' j' Hxe' Hye').
        destruct (Nat.eqb_spec i' ell) as [->|Hne]; cbn [andb].
        - destruct (Nat.eq_dec j' ell) as [->|Hnej].
          + (* the cell (x, x) *)
            rewrite Hdg by exact Hell.
            destruct (existsb _ (rvars r)) eqn:E; [|reflexivity]. exfalso.
            apply existsb_exists in E. destruct E as [k [Hk E]]. rewrite lprop_P in E.
            destruct (var_index r k Hwf Hk) as [a [Hke Ha]].
            rewrite (rval_idx r c k y' a ell Hke Hye') in E.
            destruct (Nat.eq_dec a ell) as [->|Hnea].
            * rewrite (HdM ell Hell) in E. discriminate.
            * rewrite (Hcol0 a Ha Hnea) in E. discriminate.
          + (* the cells (x, v), v <> x *)
            rewrite (J5 j' Hj' Hnej). unfold val0.
            assert (Eb : extb (rmat r) c (cells_idx (rmat r)) j' =
                         existsb (fun i => L_PROPAGATE (rval r c i y') (String.eqb i y')) (rvars r)).
            { apply eq_true_iff_eq. unfold extb. rewrite !existsb_exists. split.
              - intros [[a b] [Hab H]]. unfold extf in H. cbn [fst snd] in H.
                apply andb_true_iff in H. destruct H as [H H3].
                apply andb_true_iff in H. destruct H as [H1 H2]. apply Nat.eqb_eq in H1. subst b.
                apply Hbounds in Hab. cbn [fst snd] in Hab. destruct Hab as [Ha _].
                destruct (index_var r a Hwf Ha) as [Hka Hka'].
                exists (nth a (rvars r) EmptyString). split; [exact Hka|].
                rewrite lprop_P, (rval_idx r c _ y' a j' Hka' Hye'). exact H3.
              - intros [k [Hk H]]. rewrite lprop_P in H.
                destruct (var_index r k Hwf Hk) as [a [Hke Ha]].
                rewrite (rval_idx r c k y' a j' Hke Hye') in H.
                exists (a, j'). split; [apply (cells_idx_In_shape n); [exact Hs | tauto]|].
                unfold extf. cbn [fst snd]. rewrite Nat.eqb_refl. cbn [andb].
                apply andb_true_iff. split; [|exact H].
                apply negb_true_iff. apply Nat.eqb_neq. intros ->.
                rewrite (HdM j' Hj') in H. discriminate. }
            rewrite Eb. destruct (existsb _ (rvars r)); [reflexivity | apply ssum_O_r].
        - (* rows other than x *)
          destruct (Nat.eq_dec i' j') as [<-|Hnej].
          + apply Hdg. exact Hi'.
          + rewrite (J3 i' j' Hi' Hj' Hne Hnej). reflexivity. }
      split; [|exact Hext].
      unfold clean. cbn [rvars]. intros x' y' Hx' Hy'. rewrite (Hext x' y' Hx' Hy').
      unfold l_extend. pose proof (Hclean x' y' Hx' Hy') as Hf.
      destruct (String.eqb x' x && existsb _ (rvars r)); [|exact Hf].
      apply ssum_not_I_intro; [exact Hf | discriminate].
Qed.

Print Assumptions loop_correction_sem_main.
