(* Scalars of the mwp semiring: typed version + the tie to the GENERATED tables
   (gen/SemiringGen.v is re-translated from pymwp/semiring.py on every run). *)
From Coq Require Import String List Bool Arith Lia.
From PMGen Require Import SemiringGen.
Import ListNotations.
Open Scope string_scope.

Inductive Sc := O | M | W | P | I.

Definition sc_eqb (a b : Sc) : bool :=
  match a, b with
  | O, O | M, M | W, W | P, P | I, I => true
  | _, _ => false
  end.

Lemma sc_eqb_spec a b : reflect (a = b) (sc_eqb a b).
Proof. destruct a, b; simpl; constructor; congruence. Qed.

Lemma sc_eqb_eq a b : sc_eqb a b = true <-> a = b.
Proof. destruct a, b; simpl; split; congruence. Qed.

Lemma sc_eqb_refl a : sc_eqb a a = true.
Proof. destruct a; reflexivity. Qed.

Definition sc_str (s : Sc) : string :=
  match s with O => "o" | M => "m" | W => "w" | P => "p" | I => "i" end.

Definition sc_of_str (s : string) : option Sc :=
  if String.eqb s "o" then Some O else
  if String.eqb s "m" then Some M else
  if String.eqb s "w" then Some W else
  if String.eqb s "p" then Some P else
  if String.eqb s "i" then Some I else None.

Definition all_sc : list Sc := [O; M; W; P; I].

Lemma all_sc_complete s : In s all_sc.
Proof. destruct s; simpl; tauto. Qed.

Lemma sc_of_str_str s : sc_of_str (sc_str s) = Some s.
Proof. destruct s; reflexivity. Qed.

(* rank = position in KEYS *)
Definition rank (s : Sc) : nat :=
  match s with O => 0 | M => 1 | W => 2 | P => 3 | I => 4 end.

Definition sc_leb (a b : Sc) : bool := Nat.leb (rank a) (rank b).
Definition sc_le (a b : Sc) : Prop := rank a <= rank b.

(* typed operations, written out; [typed_agrees_*] below proves they ARE the
   generated tables *)
Definition ssum (a b : Sc) : Sc := if sc_leb a b then b else a.

Definition sprod (a b : Sc) : Sc :=
  match a, b with
  | I, _ | _, I => I
  | O, _ | _, O => O
  | M, x => x
  | x, M => x
  | P, _ | _, P => P
  | W, W => W
  end.

(* ---- the source-level functions: guard + nested dictionary lookup ---- *)

Fixpoint assoc {A} (k : string) (l : list (string * A)) : option A :=
  match l with
  | [] => None
  | (k', v) :: t => if String.eqb k k' then Some v else assoc k t
  end.

Definition mem_str (k : string) (l : list string) : bool :=
  existsb (String.eqb k) l.

Definition lookup2 (d : list (string * list (string * string))) (a b : string) : option string :=
  match assoc a d with
  | Some row => assoc b row
  | None => None
  end.

(* None = the Python raises (Exception from the guard, or KeyError from a missing cell) *)
Definition prod_src (a b : string) : option string :=
  if mem_str a KEYS && mem_str b KEYS then lookup2 DICT_PROD a b else None.
Definition sum_src (a b : string) : option string :=
  if mem_str a KEYS && mem_str b KEYS then lookup2 DICT_SUM a b else None.

Fixpoint index_of (k : string) (l : list string) : option nat :=
  match l with
  | [] => None
  | h :: t => if String.eqb k h then Some 0 else option_map S (index_of k t)
  end.

(* ---- tie ---- *)

Lemma keys_are : KEYS = map sc_str all_sc.
Proof. reflexivity. Qed.

Lemma consts_are :
  ZERO_MWP = sc_str O /\ UNIT_MWP = sc_str M /\ WEAK_MWP = sc_str W /\
  POLY_MWP = sc_str P /\ INFTY_MWP = sc_str I.
Proof. repeat split; reflexivity. Qed.

Lemma typed_agrees_prod a b : prod_src (sc_str a) (sc_str b) = Some (sc_str (sprod a b)).
Proof. destruct a, b; reflexivity. Qed.

Lemma typed_agrees_sum a b : sum_src (sc_str a) (sc_str b) = Some (sc_str (ssum a b)).
Proof. destruct a, b; reflexivity. Qed.

Lemma rank_is_keys_index s : index_of (sc_str s) KEYS = Some (rank s).
Proof. destruct s; reflexivity. Qed.

Lemma in_keys_typed k : In k KEYS -> exists s, k = sc_str s.
Proof.
  rewrite keys_are. intros H. apply in_map_iff in H. destruct H as [s [Hs _]]. eauto.
Qed.

Lemma mem_str_In k l : mem_str k l = true <-> In k l.
Proof.
  unfold mem_str. rewrite existsb_exists. split.
  - intros [x [Hx He]]. apply String.eqb_eq in He. subst. exact Hx.
  - intros H. exists k. split; [exact H | apply String.eqb_refl].
Qed.

(* ---- laws on the typed operations ---- *)

Lemma ssum_comm a b : ssum a b = ssum b a.  Proof. destruct a, b; reflexivity. Qed.
Lemma sprod_comm a b : sprod a b = sprod b a.  Proof. destruct a, b; reflexivity. Qed.
Lemma ssum_assoc a b c : ssum a (ssum b c) = ssum (ssum a b) c.
Proof. destruct a, b, c; reflexivity. Qed.
Lemma sprod_assoc a b c : sprod a (sprod b c) = sprod (sprod a b) c.
Proof. destruct a, b, c; reflexivity. Qed.
Lemma sprod_ssum_distr_l a b c : sprod a (ssum b c) = ssum (sprod a b) (sprod a c).
Proof. destruct a, b, c; reflexivity. Qed.
Lemma sprod_ssum_distr_r a b c : sprod (ssum a b) c = ssum (sprod a c) (sprod b c).
Proof. destruct a, b, c; reflexivity. Qed.
Lemma ssum_idem a : ssum a a = a.  Proof. destruct a; reflexivity. Qed.
Lemma ssum_O_l a : ssum O a = a.  Proof. destruct a; reflexivity. Qed.
Lemma ssum_O_r a : ssum a O = a.  Proof. destruct a; reflexivity. Qed.
Lemma sprod_M_l a : sprod M a = a.  Proof. destruct a; reflexivity. Qed.
Lemma sprod_M_r a : sprod a M = a.  Proof. destruct a; reflexivity. Qed.
Lemma ssum_I_l a : ssum I a = I.  Proof. destruct a; reflexivity. Qed.
Lemma ssum_I_r a : ssum a I = I.  Proof. destruct a; reflexivity. Qed.
Lemma sprod_I_l a : sprod I a = I.  Proof. destruct a; reflexivity. Qed.
Lemma sprod_I_r a : sprod a I = I.  Proof. destruct a; reflexivity. Qed.
Lemma sprod_O_finite a : a <> I -> sprod O a = O /\ sprod a O = O.
Proof. destruct a; intros H; try congruence; split; reflexivity. Qed.

Lemma ssum_is_max a b : rank (ssum a b) = Nat.max (rank a) (rank b).
Proof. destruct a, b; reflexivity. Qed.

Lemma sc_le_refl a : sc_le a a.  Proof. unfold sc_le; lia. Qed.
Lemma sc_le_trans a b c : sc_le a b -> sc_le b c -> sc_le a c.
Proof. unfold sc_le; lia. Qed.
Lemma sc_le_antisym a b : sc_le a b -> sc_le b a -> a = b.
Proof. destruct a, b; unfold sc_le; simpl; intros; try reflexivity; lia. Qed.
Lemma sc_le_ssum_l a b : sc_le a (ssum a b).
Proof. unfold sc_le. rewrite ssum_is_max. lia. Qed.
Lemma sc_le_ssum_r a b : sc_le b (ssum a b).
Proof. unfold sc_le. rewrite ssum_is_max. lia. Qed.
Lemma ssum_lub a b c : sc_le a c -> sc_le b c -> sc_le (ssum a b) c.
Proof. unfold sc_le. rewrite ssum_is_max. lia. Qed.
Lemma ssum_absorb a b : sc_le a b -> ssum a b = b.
Proof. destruct a, b; unfold sc_le; simpl; intros; try reflexivity; lia. Qed.
Lemma ssum_absorb_r a b : sc_le a b -> ssum b a = b.
Proof. intros; rewrite ssum_comm; apply ssum_absorb; assumption. Qed.
Lemma sc_le_total a b : sc_le a b \/ sc_le b a.
Proof. unfold sc_le; lia. Qed.
Lemma sc_le_O a : sc_le O a.  Proof. unfold sc_le; simpl; lia. Qed.
Lemma sc_le_I a : sc_le a I.  Proof. destruct a; unfold sc_le; simpl; lia. Qed.
Lemma sprod_mono a b c d : sc_le a b -> sc_le c d -> a <> O -> c <> O -> sc_le (sprod a c) (sprod b d).
Proof. destruct a, b, c, d; unfold sc_le; simpl; intros; try lia; try congruence. Qed.
Lemma sprod_mono_r a c d : sc_le c d -> c <> O -> sc_le (sprod a c) (sprod a d).
Proof. destruct a, c, d; unfold sc_le; simpl; intros; try lia; try congruence. Qed.
Lemma sprod_nonzero a b : a <> O -> b <> O -> sprod a b <> O.
Proof. destruct a, b; simpl; congruence. Qed.
Lemma ssum_eq_O a b : ssum a b = O -> a = O /\ b = O.
Proof. destruct a, b; cbv; intros; split; congruence. Qed.
