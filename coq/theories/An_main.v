(* The simulation invariant between the analysis model (Analysis.compute) and the calculus
   (Calculus.derive), by induction on the fuel and cases on the statement.

     compute_vars  : compute_vars_stmt                       (no premise; An_main_aux.v)
     derive_finite : derive_finite_stmt                      (no premise; An_main_aux.v)
     main_sim      : seq_compound_sim_stmt -> seq_branch_sim_stmt ->
                     close_while_sim_stmt -> close_for_sim_stmt -> main_sim_stmt

   One lemma per statement form (skip_sim, const_sim, copy_sim, bin_sim, unasg_sim, unary_sim,
   block_sim, if_sim, while_sim, for_sim). *)
From Coq Require Import String List Bool Arith Lia.
From PM Require Import Semiring Poly Poly_sem Rel Analysis Calculus Rel_sem Sem_stmts An_stmts.
From PM Require Rel_hom Rel_ops Calc_alg Rel_fix Rel_ops_closed An_leaf Rel_dom An_main_aux.
From PM Require DeltaGraph.
Import ListNotations.
Open Scope list_scope.

Theorem compute_vars : compute_vars_stmt.
Proof. exact An_main_aux.compute_vars_thm. Qed.

Theorem derive_finite : derive_finite_stmt.
Proof. exact An_main_aux.derive_finite_thm. Qed.

(* ------------------------------------------------------------------ *)
(* generic facts about sim_res                                         *)
(* ------------------------------------------------------------------ *)

Lemma sim_res_ext V d r dv dv' :
  (forall cs, dv cs = dv' cs) -> sim_res V d r dv -> sim_res V d r dv'.
Proof.
  intros E (H1 & H2 & H3 & H4). split; [exact H1|]. split; [exact H2|]. split; [exact H3|].
  intros cs Hcs. cbv beta zeta. rewrite <- E. exact (H4 cs Hcs).
Qed.

Lemma cov_mono d d' c :
  incl (DeltaGraph.dg_recorded d) (DeltaGraph.dg_recorded d') -> cov d c -> cov d' c.
Proof. intros Hi [n [Hn Hm]]. exists n. split; [apply Hi; exact Hn|exact Hm]. Qed.

Lemma names_ne V v : names_ok V -> In v V -> v <> EmptyString.
Proof. intros [_ H] Hv. exact (proj1 (Forall_forall _ _) H v Hv). Qed.

(* outside its variables a relation is the identity, at every choice *)
Lemma rval_outside r c x y : ~ In x (rvars r) \/ ~ In y (rvars r) -> rval r c x y = sid x y.
Proof.
  intros H. unfold rval, sid. destruct H as [H|H]; apply (proj2 (Rel_hom.index_of_str_none _ _)) in H.
  - rewrite (Rel_hom.cell_outside_l r x y H). destruct (String.eqb x y); reflexivity.
  - rewrite (Rel_hom.cell_outside_r r x y H). destruct (String.eqb x y); reflexivity.
Qed.

(* agreement on the relation's own variables + identity outside = agreement on any list *)
Lemma eqV_lift r c A V :
  eqV (rvars r) (rval r c) A -> id_outside (rvars r) A -> eqV V (rval r c) A.
Proof.
  intros He Hi x y _ _.
  destruct (in_dec string_dec x (rvars r)) as [Hx|Hx].
  - destruct (in_dec string_dec y (rvars r)) as [Hy|Hy].
    + apply He; assumption.
    + rewrite rval_outside by (right; exact Hy). symmetry. apply Hi. right; exact Hy.
  - rewrite rval_outside by (left; exact Hx). symmetry. apply Hi. left; exact Hx.
Qed.

Lemma wf_rel_empty : wf_rel rel_empty.
Proof.
  change rel_empty with (Rel [] []). unfold wf_rel. cbn [rvars rmat length].
  repeat split; constructor.
Qed.

Lemma rel_ok_empty V : rel_ok V rel_empty.
Proof.
  split; [exact wf_rel_empty|]. split; [constructor|]. split; [exact Rel_dom.rel_dom_empty|].
  intros v Hv. rewrite An_main_aux.rel_empty_vars in Hv. destruct Hv.
Qed.

Lemma acc_ok_empty V d : acc_ok V d rel_empty (fun _ => Some sid).
Proof.
  split; [apply rel_ok_empty|]. intros cs _. split; [|discriminate].
  intros A H. injection H as <-. split; [apply Rel_fix.sid_finite|]. split.
  - intros x y Hx. rewrite An_main_aux.rel_empty_vars in Hx. destruct Hx.
  - intros x y _ _. apply rval_outside. left. rewrite An_main_aux.rel_empty_vars. intros [].
Qed.

(* a leaf of the analysis that meets leaf_ok at every choice vector simulates the calculus leaf *)
Lemma leaf_sim V d res dv r :
  dg_inv d -> (forall cs, in_domain cs -> leaf_ok res d (dv cs) cs) -> res = ROk r ->
  rel_dom (cr_rel r) -> incl (rvars (cr_rel r)) V -> sim_res V d r dv.
Proof.
  intros Hd Hl -> Hdom Hincl.
  pose proof (Hl [] (Forall_nil _)) as H0. unfold leaf_ok in H0.
  destruct H0 as (Edg & Eex & _ & Hwf & Hpwf & _).
  unfold sim_res. rewrite Edg. split; [exact Hd|]. split; [apply incl_refl|].
  split; [exact (conj Hwf (conj Hpwf (conj Hdom Hincl)))|].
  intros cs Hcs. cbv beta zeta.
  pose proof (Hl cs Hcs) as H1. unfold leaf_ok in H1.
  destruct H1 as (_ & _ & Eidx & _ & _ & Hm).
  split; [intros A _ Hc; exact Hc|]. split; [rewrite Eex; discriminate|].
  intros _. split; [exact Eidx|].
  destruct (fst (dv cs)) as [A|]; [|destruct Hm].
  destruct Hm as (Hcl & Hid & Heq). split; [discriminate|].
  intros A' E. injection E as <-. split; [exact Hcl|]. apply eqV_lift; assumption.
Qed.

Lemma skip_sim V index d r :
  dg_inv d -> skip index d = ROk r -> sim_res V d r (fun _ => (Some sid, index)).
Proof.
  intros Hd H.
  apply (leaf_sim V d (skip index d) (fun _ => (Some sid, index)) r Hd);
    [intros cs _; apply An_leaf.skip_leaf_ok|exact H| |];
    unfold skip in H; injection H as <-; cbn [cr_rel].
  - exact Rel_dom.rel_dom_empty.
  - intros v Hv. rewrite An_main_aux.rel_empty_vars in Hv. destruct Hv.
Qed.

Lemma const_sim V index x d r :
  names_ok V -> In x V -> dg_inv d -> an_constant index x d = ROk r ->
  sim_res V d r (fun _ => (Some (leaf_const x), index)).
Proof.
  intros HV Hx Hd H.
  apply (leaf_sim V d (an_constant index x d) (fun _ => (Some (leaf_const x), index)) r Hd).
  - intros cs _. exact (proj1 (An_leaf.an_constant_sem index x d cs (names_ne V x HV Hx))).
  - exact H.
  - eapply Rel_dom.rel_dom_an_constant. exact H.
  - intros v Hv. rewrite (An_main_aux.an_constant_vars _ _ _ _ _ H Hv). exact Hx.
Qed.

Lemma copy_sim V index x y d r :
  names_ok V -> In x V -> In y V -> dg_inv d -> an_id index x y d = ROk r ->
  sim_res V d r (fun _ => (Some (leaf_copy x y), index)).
Proof.
  intros HV Hx Hy Hd H.
  apply (leaf_sim V d (an_id index x y d) (fun _ => (Some (leaf_copy x y), index)) r Hd).
  - intros cs _.
    exact (proj1 (An_leaf.an_id_sem index x y d cs (names_ne V x HV Hx) (names_ne V y HV Hy))).
  - exact H.
  - eapply Rel_dom.rel_dom_an_id. exact H.
  - intros v Hv. destruct (An_main_aux.an_id_vars _ _ _ _ _ _ H Hv) as [->| ->]; assumption.
Qed.

Lemma bin_sim V index x op y z d r :
  names_ok V -> incl (x :: atom_vars y ++ atom_vars z) V -> dg_inv d ->
  an_binary index x op y z d = ROk r -> sim_res V d r (fun cs => d_bin x op y z cs index).
Proof.
  intros HV Hincl Hd H.
  assert (Hx : x <> EmptyString) by (apply (names_ne V x HV), Hincl; left; reflexivity).
  assert (Hy : forall v, atom_name y = Some v -> v <> EmptyString).
  { intros v E. apply (names_ne V v HV), Hincl. right. apply in_or_app. left.
    destruct y; [injection E as ->; left; reflexivity|discriminate]. }
  assert (Hz : forall v, atom_name z = Some v -> v <> EmptyString).
  { intros v E. apply (names_ne V v HV), Hincl. right. apply in_or_app. right.
    destruct z; [injection E as ->; left; reflexivity|discriminate]. }
  apply (leaf_sim V d (an_binary index x op y z d) (fun cs => d_bin x op y z cs index) r Hd).
  - intros cs Hcs. exact (proj1 (An_leaf.an_binary_sem index x op y z d cs Hx Hy Hz Hcs)).
  - exact H.
  - eapply Rel_dom.rel_dom_an_binary. exact H.
  - intros v Hv. apply Hincl. eapply An_main_aux.an_binary_vars; [exact H|exact Hv].
Qed.

(* an early exit of the body is passed on unchanged by a loop: every clause of sim_res survives
   wrapping the derivation in a rule f that needs a derivation of the body *)
Lemma exit_sim V d rb dv (f : option smat -> option smat) r :
  sim_res V d rb dv -> cr_exit rb = true ->
  (forall m A, f m = Some A -> exists B, m = Some B) ->
  cr_rel r = cr_rel rb -> cr_exit r = true -> cr_dg r = cr_dg rb ->
  sim_res V d r (fun cs => (f (fst (dv cs)), snd (dv cs))).
Proof.
  intros (I1 & R1 & K1 & C1) Ex Hf Er Ee Ed. unfold sim_res. rewrite Er, Ee, Ed.
  split; [exact I1|]. split; [exact R1|]. split; [exact K1|].
  intros cs Hcs. cbv beta zeta. cbn [fst snd]. specialize (C1 cs Hcs). cbv zeta in C1.
  destruct C1 as (Ca & Cb & _). split; [|split].
  - intros A HA. destruct (Hf _ _ HA) as [B HB]. exact (Ca B HB).
  - intros _. exact (Cb Ex).
  - discriminate.
Qed.

(* ------------------------------------------------------------------ *)
(* the induction                                                       *)
(* ------------------------------------------------------------------ *)

Section Main.

Hypothesis SEQC : seq_compound_sim_stmt.
Hypothesis SEQB : seq_branch_sim_stmt.
Hypothesis CLW : close_while_sim_stmt.
Hypothesis CLF : close_for_sim_stmt.

Section Step.

Variable V : list string.
Hypothesis HV : names_ok V.
Variable fuel' : nat.
Hypothesis IH : forall index s d, incl (stmt_vars s) V -> dg_inv d -> stmt_sim V fuel' index s d.

Definition drec_of (cs : list nat) (s : stmt) (i : nat) : dres := derive fuel' V s cs i.

(* the derivation of an if/else, as Calculus.derive computes it *)
Definition dv_if (index : nat) (t e : list stmt) (cs : list nat) : dres :=
  let '(mt, i1) := dlist (drec_of cs) V t (Some sid) index in
  let '(me, i2) := dlist (drec_of cs) V e (Some sid) i1 in
  (d_if V mt me, i2).

Lemma rec_ok_IH l : incl (flat_map stmt_vars l) V -> rec_ok V l (compute fuel') drec_of.
Proof.
  intros Hl. split.
  - intros s index d r Hs Hd Hc. apply (IH index s d); [|exact Hd|exact Hc].
    intros v Hv. apply Hl. apply in_flat_map. exists s. split; assumption.
  - intros s cs idx A _ H. exact (An_main_aux.derive_finite_thm fuel' V s cs idx A H).
Qed.

Lemma skip_case index m d : dg_inv d -> stmt_sim V (S fuel') index (SSkip m) d.
Proof. intros Hd r H. cbn [compute] in H. exact (skip_sim V index d r Hd H). Qed.

Lemma const_case index x d :
  incl (stmt_vars (SConst x)) V -> dg_inv d -> stmt_sim V (S fuel') index (SConst x) d.
Proof.
  intros Hl Hd r H. cbn [compute] in H.
  exact (const_sim V index x d r HV (Hl x (or_introl eq_refl)) Hd H).
Qed.

Lemma copy_case index x y d :
  incl (stmt_vars (SCopy x y)) V -> dg_inv d -> stmt_sim V (S fuel') index (SCopy x y) d.
Proof.
  intros Hl Hd r H. cbn [compute] in H.
  exact (copy_sim V index x y d r HV (Hl x (or_introl eq_refl))
           (Hl y (or_intror (or_introl eq_refl))) Hd H).
Qed.

Lemma bin_case index x op y z d :
  incl (stmt_vars (SBin x op y z)) V -> dg_inv d -> stmt_sim V (S fuel') index (SBin x op y z) d.
Proof.
  intros Hl Hd r H. cbn [compute] in H. exact (bin_sim V index x op y z d r HV Hl Hd H).
Qed.

Lemma unasg_sim index x op e d :
  incl (stmt_vars (SUnAsg x op e)) V -> dg_inv d -> stmt_sim V (S fuel') index (SUnAsg x op e) d.
Proof.
  intros Hl Hd r H. cbn [compute] in H.
  destruct (unary_asgn_rewrite x op e) as [s'|] eqn:E.
  - apply (sim_res_ext V d r (fun cs => derive fuel' V s' cs index)).
    { intros cs. cbn [derive]. rewrite E. reflexivity. }
    apply (IH index s' d); [|exact Hd|exact H].
    intros v Hv. apply Hl. eapply An_main_aux.unary_asgn_rewrite_vars; [exact E|exact Hv].
  - apply (sim_res_ext V d r (fun _ => (Some sid, index))).
    { intros cs. cbn [derive]. rewrite E. reflexivity. }
    exact (skip_sim V index d r Hd H).
Qed.

Lemma unary_sim index op e d :
  incl (stmt_vars (SUnary op e)) V -> dg_inv d -> stmt_sim V (S fuel') index (SUnary op e) d.
Proof.
  intros Hl Hd r H. cbn [compute] in H.
  destruct e as [|y|]; try exact (skip_sim V index d r Hd H).
  destruct (mem_strb op INC_DEC) eqn:Ei.
  - rewrite An_main_aux.inc_dec_stmt_eq in H. cbv beta iota in H.
    apply (sim_res_ext V d r
             (fun cs => d_bin y (if mem_strb op ["p++"; "++"]%string then "+" else "-")%string
                              (AVar y) ACst cs index)).
    { intros cs. cbn [derive]. rewrite Ei. reflexivity. }
    apply (bin_sim V index _ _ _ _ d r HV); [|exact Hd|exact H].
    cbn [stmt_vars] in Hl. rewrite (An_main_aux.inc_dec_u_ops op Ei) in Hl. cbn [uarg_vars] in Hl.
    intros v Hv. apply Hl. cbn in Hv. cbn [In]. tauto.
  - apply (sim_res_ext V d r (fun _ => (Some sid, index))).
    { intros cs. cbn [derive]. rewrite Ei. reflexivity. }
    exact (skip_sim V index d r Hd H).
Qed.

Lemma block_sim index l d :
  incl (stmt_vars (SBlock l)) V -> dg_inv d -> stmt_sim V (S fuel') index (SBlock l) d.
Proof.
  intros Hl Hd r H. cbn [compute] in H. cbn [stmt_vars] in Hl.
  exact (SEQC V (compute fuel') drec_of l index rel_empty d (fun _ => Some sid) r
           HV (rec_ok_IH l Hl) Hd (acc_ok_empty V d) H).
Qed.

Lemma if_sim index t e d :
  incl (stmt_vars (SIf t e)) V -> dg_inv d -> stmt_sim V (S fuel') index (SIf t e) d.
Proof.
  intros Hl Hd r H. cbn [compute] in H. cbn [stmt_vars] in Hl.
  assert (Ht : incl (flat_map stmt_vars t) V) by (intros v Hv; apply Hl, in_or_app; left; exact Hv).
  assert (He : incl (flat_map stmt_vars e) V) by (intros v Hv; apply Hl, in_or_app; right; exact Hv).
  destruct (seq_branch (compute fuel') t index rel_empty d) as [rt|] eqn:Et; cbn [rbind] in H; [|discriminate].
  pose proof (SEQB V (compute fuel') drec_of t index rel_empty d (fun _ => Some sid) rt
                HV (rec_ok_IH t Ht) Hd (acc_ok_empty V d) Et) as S1.
  cbv beta in S1.
  apply (sim_res_ext V d r (dv_if index t e)); [intros cs; reflexivity|].
  destruct S1 as (I1 & R1 & K1 & C1).
  destruct (cr_exit rt) eqn:Ext.
  - (* the first branch exits *)
    injection H as <-. split; [exact I1|]. split; [exact R1|]. split; [exact K1|].
    intros cs Hcs. cbv beta zeta. specialize (C1 cs Hcs). cbv zeta in C1. unfold dv_if.
    destruct (dlist (drec_of cs) V t (Some sid) index) as [mt i1].
    destruct (dlist (drec_of cs) V e (Some sid) i1) as [me i2].
    cbn [fst snd] in *. destruct C1 as (Ca & Cb & _). split; [|split].
    + intros A HA. destruct (An_main_aux.d_if_some _ _ _ _ HA) as (At & Ae & -> & _).
      exact (Ca At eq_refl).
    + intros _. apply Cb. reflexivity.
    + rewrite Ext. discriminate.
  - destruct (seq_branch (compute fuel') e (cr_index rt) rel_empty (cr_dg rt)) as [re|] eqn:Ee;
      cbn [rbind] in H; [|discriminate].
    pose proof (SEQB V (compute fuel') drec_of e (cr_index rt) rel_empty (cr_dg rt) (fun _ => Some sid) re
                  HV (rec_ok_IH e He) I1 (acc_ok_empty V (cr_dg rt)) Ee) as S2.
    cbv beta in S2. destruct S2 as (I2 & R2 & K2 & C2).
    (* what both branches give at a choice vector, with the indices aligned *)
    assert (Hboth : forall cs, in_domain cs ->
              let c := choice_of_list cs in
              exists mt me i2,
                dv_if index t e cs = (d_if V mt me, i2) /\
                (forall A, mt = Some A -> cov (cr_dg rt) c -> cov d c) /\
                (mt = None -> cov (cr_dg rt) c) /\
                (forall A, mt = Some A -> clean (cr_rel rt) c /\ eqV V (rval (cr_rel rt) c) A) /\
                (forall A, me = Some A -> cov (cr_dg re) c -> cov (cr_dg rt) c) /\
                (cr_exit re = true -> cov (cr_dg re) c) /\
                (cr_exit re = false ->
                   cr_index re = i2 /\ (me = None -> cov (cr_dg re) c) /\
                   (forall A, me = Some A -> clean (cr_rel re) c /\ eqV V (rval (cr_rel re) c) A))).
    { intros cs Hcs c. specialize (C1 cs Hcs). specialize (C2 cs Hcs). cbv zeta in C1, C2. fold c in C1, C2.
      unfold dv_if.
      destruct (dlist (drec_of cs) V t (Some sid) index) as [mt i1].
      cbn [fst snd] in C1. destruct C1 as (Ca & _ & Cc). destruct (Cc eq_refl) as (Ei & Cn & Cs).
      rewrite <- Ei.
      destruct (dlist (drec_of cs) V e (Some sid) (cr_index rt)) as [me i2].
      cbn [fst snd] in C2. destruct C2 as (Da & Db & Dc).
      exists mt, me, i2. split; [reflexivity|]. repeat (split; [assumption|]). assumption. }
    destruct (cr_exit re) eqn:Exe.
    + (* the second branch exits *)
      injection H as <-. split; [exact I2|]. split; [exact (incl_tran R1 R2)|]. split; [exact K2|].
      intros cs Hcs. cbv beta zeta.
      destruct (Hboth cs Hcs) as (mt & me & i2 & -> & Ca & _ & _ & Da & Db & _). cbn [fst snd].
      split; [|split].
      * intros A HA Hc. destruct (An_main_aux.d_if_some _ _ _ _ HA) as (At & Ae & -> & -> & _).
        exact (Ca At eq_refl (Da Ae eq_refl Hc)).
      * intros _. apply Db. reflexivity.
      * rewrite Exe. discriminate.
    + (* both branches complete: the sum *)
      injection H as <-.
      destruct K1 as (W1 & P1 & D1 & N1). destruct K2 as (W2 & P2 & D2 & N2).
      destruct (Rel_ops_closed.rel_sum_sem (cr_rel re) (cr_rel rt) W2 W1) as (Ws & Vs & Vals & Ps).
      unfold sim_res. cbn [cr_dg cr_rel cr_exit cr_index].
      split; [exact I2|]. split; [exact (incl_tran R1 R2)|]. split.
      { split; [exact Ws|]. split; [exact (Ps P2 P1)|].
        split; [exact (Rel_dom.rel_dom_sum _ _ D2 D1)|].
        intros v Hv. apply Vs in Hv. destruct Hv as [Hv|Hv]; [exact (N2 v Hv)|exact (N1 v Hv)]. }
      intros cs Hcs. cbv beta zeta.
      destruct (Hboth cs Hcs) as (mt & me & i2 & -> & Ca & Cn & Cs & Da & _ & Dc). cbn [fst snd].
      destruct (Dc eq_refl) as (Ei2 & Dn & Ds).
      split; [|split].
      * intros A HA Hc. destruct (An_main_aux.d_if_some _ _ _ _ HA) as (At & Ae & -> & -> & _).
        exact (Ca At eq_refl (Da Ae eq_refl Hc)).
      * discriminate.
      * intros _. split; [exact Ei2|]. split.
        -- intros HN. destruct mt as [At|].
           ++ destruct me as [Ae|]; [discriminate HN|]. exact (Dn eq_refl).
           ++ exact (cov_mono _ _ _ R2 (Cn eq_refl)).
        -- intros A HA. destruct (An_main_aux.d_if_some _ _ _ _ HA) as (At & Ae & -> & -> & ->).
           destruct (Cs At eq_refl) as (Clt & Eqt). destruct (Ds Ae eq_refl) as (Cle & Eqe).
           split.
           ++ intros x y _ _. rewrite Vals.
              apply Rel_fix.ssum_ne_I; apply Rel_ops.clean_ne_I; assumption.
           ++ intros x y Hx Hy. rewrite Vals, Calc_alg.memo_eq. unfold sadd.
              rewrite (Eqe x y Hx Hy), (Eqt x y Hx Hy). reflexivity.
Qed.

Lemma while_sim index cv body d :
  incl (stmt_vars (SWhile cv body)) V -> dg_inv d -> stmt_sim V (S fuel') index (SWhile cv body) d.
Proof.
  intros Hl Hd r H. cbn [compute] in H. cbn [stmt_vars] in Hl.
  assert (Hb : incl (stmt_vars body) V) by (intros v Hv; apply Hl, in_or_app; right; exact Hv).
  destruct (compute fuel' index body d) as [rb|] eqn:Eb; cbn [rbind] in H; [|discriminate].
  pose proof (IH index body d Hb Hd rb Eb) as Sb.
  apply (sim_res_ext V d r
           (fun cs => (d_while V (fst (derive fuel' V body cs index)), snd (derive fuel' V body cs index)))).
  { intros cs. cbn [derive]. destruct (derive fuel' V body cs index); reflexivity. }
  destruct (cr_exit rb) eqn:Ex.
  - injection H as <-.
    exact (exit_sim V d rb _ (d_while V) rb Sb Ex (An_main_aux.d_while_some V) eq_refl Ex eq_refl).
  - apply (CLW V d rb (fun cs => derive fuel' V body cs index) r HV Sb Ex); [|exact H].
    intros cs A HA. exact (An_main_aux.derive_finite_thm fuel' V body cs index A HA).
Qed.

Lemma for_sim index iters srcs conds nxt body d :
  incl (stmt_vars (SFor iters srcs conds nxt body)) V -> dg_inv d ->
  stmt_sim V (S fuel') index (SFor iters srcs conds nxt body) d.
Proof.
  intros Hl Hd r H. cbn [compute] in H.
  destruct (loop_compat iters srcs conds nxt body) as [x|] eqn:El.
  - destruct (An_main_aux.loop_compat_some _ _ _ _ _ _ El) as [Esv Hnx]. rewrite Esv in Hl.
    assert (Hb : incl (stmt_vars body) V) by (intros v Hv; apply Hl; right; exact Hv).
    destruct (compute fuel' index body d) as [rb|] eqn:Eb; cbn [rbind] in H; [|discriminate].
    pose proof (IH index body d Hb Hd rb Eb) as Sb.
    apply (sim_res_ext V d r
             (fun cs => (d_for V x (fst (derive fuel' V body cs index)), snd (derive fuel' V body cs index)))).
    { intros cs. cbn [derive]. rewrite El. destruct (derive fuel' V body cs index); reflexivity. }
    destruct (cr_exit rb) eqn:Ex.
    + injection H as <-.
      apply (exit_sim V d rb (fun cs => derive fuel' V body cs index) (d_for V x));
        [exact Sb|exact Ex|exact (An_main_aux.d_for_some V x)|reflexivity|reflexivity|reflexivity].
    + apply (CLF V d rb (fun cs => derive fuel' V body cs index) x r HV Sb Ex); [| | |exact H].
      * intros cs A HA. exact (An_main_aux.derive_finite_thm fuel' V body cs index A HA).
      * apply Hl. left; reflexivity.
      * intros Hin. apply Hnx. exact (An_main_aux.compute_vars_thm fuel' index body d rb Eb x Hin).
  - apply (sim_res_ext V d r (fun _ => (Some sid, index))).
    { intros cs. cbn [derive]. rewrite El. reflexivity. }
    exact (skip_sim V index d r Hd H).
Qed.

End Step.

Theorem main_sim : main_sim_stmt.
Proof.
  intros V fuel. induction fuel as [|fuel' IH]; intros index s d HV Hl Hd; [intros r H; discriminate|].
  assert (IH' : forall index s d, incl (stmt_vars s) V -> dg_inv d -> stmt_sim V fuel' index s d).
  { intros i0 s0 d0 A B. exact (IH i0 s0 d0 HV A B). }
  destruct s as [m|x op y z|x|x y|x op e|op e|t e|cv body|iters srcs conds nxt body|l].
  - apply skip_case; assumption.
  - apply bin_case; assumption.
  - apply const_case; assumption.
  - apply copy_case; assumption.
  - apply unasg_sim; assumption.
  - apply unary_sim; assumption.
  - apply if_sim; assumption.
  - apply while_sim; assumption.
  - apply for_sim; assumption.
  - apply block_sim; assumption.
Qed.

End Main.

Check main_sim : seq_compound_sim_stmt -> seq_branch_sim_stmt -> close_while_sim_stmt ->
                 close_for_sim_stmt -> main_sim_stmt.

Print Assumptions compute_vars.
Print Assumptions derive_finite.
Print Assumptions main_sim.
