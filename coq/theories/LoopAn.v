(* Executable, code-shaped model of pymwp/analysis.py class LoopAnalysis (inspect / get_result /
   maybe_result) and of the VResult flag setters of pymwp/result.py, on top of the model of
   Analysis.cmds / compute_relation (PM.Analysis), Relation.var_eval / apply_choice (PM.Rel) and
   Bound.calculate (PM.Bound).

   What is NOT modelled here and how it enters:
   * the Choices object (choice.py) is property C04's.  This file uses its SPECIFICATION
     (props/C04.v: C04_generate_is_valid, C04_generate_first): Choices.generate(DOMAIN, index, S)
       - is `infinite` iff index > 0 and no vector of DOMAIN^index avoids every delta list of S
         ([choices_infinite], brute force exactly like Analysis.no_valid_choice);
       - its `first` is SOME vector of DOMAIN^index avoiding every delta list of S -- which one
         depends on the iteration order of Python sets inside build_choices.  The chosen vector
         is therefore a PARAMETER ([chosen], [firsts], [red_first]) of the functions below; they
         check that it meets the specification ([first_ok]) and answer [RErr "spec:Choices.first"]
         otherwise.  Theorems quantify over every admissible vector; the correspondence feeds the
         vector the real code picked;
       - choice_reduce( *cs) accepts exactly the vectors accepted by every c in cs (an
         intersection), so it is represented by the concatenation of the delta lists.
     A Choices value is represented by the list of delta lists it was generated from.
   * the order of the result dictionary of maybe_result for the non-failing variables is the
     iteration order of a Python set of strings (hash order); the model lists them in variable
     order and results are compared as maps.
   * pr.is_loop: a While/DoWhile/For node whose body is not made of EmptyStatements and empty
     blocks only (PM.Syntax.is_loop models it exactly).  The typed grammar does not distinguish
     `;` from break/continue, so [is_loop_stmt] only rejects the empty block; the harness never
     feeds loops the real syntax_check rejects.
   No proofs in this file. *)
From Coq Require Import String List Bool Arith Ascii.
From PM Require Import Semiring Poly Rel Analysis.
From PM Require DeltaGraph Bound.
From PMGen Require Import RulesGen SemiringGen.
Import ListNotations.
Open Scope list_scope.

(* ------------------------------------------------------------------ VResult flags *)

Record vflags := VF { f_m : bool; f_w : bool; f_p : bool }.      (* _is_m, _is_w, _is_p *)

(* the three property setters, result.py *)
Definition set_m (f : vflags) (value : bool) : vflags :=
  if value then VF true true true else VF false (f_w f) (f_p f).
Definition set_w (f : vflags) (value : bool) : vflags :=
  if value then VF (f_m f) true true else VF false false (f_p f).
Definition set_p (f : vflags) (value : bool) : vflags :=
  if value then VF (f_m f) (f_w f) true else VF false false false.

Inductive attr := IS_M | IS_W | IS_P.

(* setattr(result, attr, value) *)
Definition set_attr (f : vflags) (a : attr) (value : bool) : vflags :=
  match a with IS_M => set_m f value | IS_W => set_w f value | IS_P => set_p f value end.

(* VResult.__init__(name, is_m, is_w, is_p): the private fields start False, then the three
   setters run in this order *)
Definition flags_init (is_m is_w is_p : bool) : vflags :=
  set_p (set_w (set_m (VF false false false) is_m) is_w) is_p.

Definition flags_new : vflags := flags_init false false false.       (* VResult(v) *)

Definition run_setters (f : vflags) (l : list (attr * bool)) : vflags :=
  fold_left (fun g av => set_attr g (fst av) (snd av)) l f.

Definition exponential (f : vflags) : bool := negb (f_p f).

(* a Choices value = the delta lists handed to Choices.generate (see the header) *)
Definition choices_repr := list (list delta).

Record vresult := VR {
  vr_name : string;
  vr_flags : vflags;
  vr_bound : option Bound.MwpBound;
  vr_choices : option choices_repr }.

Definition vresult_new (v : string) : vresult := VR v flags_new None None.    (* VResult(v) *)

(* ------------------------------------------------------------------ Choices, by specification *)

(* Choices.generate(DOMAIN, index, seqs).infinite = (len(valid) == 0 and index > 0) *)
Definition choices_infinite (index : nat) (seqs : choices_repr) : bool :=
  no_valid_choice DOMAIN index seqs && Nat.ltb 0 index.

Definition in_domain (index : nat) (c : list nat) : bool :=
  Nat.eqb (length c) index && forallb (fun x => existsb (Nat.eqb x) DOMAIN) c.

(* what C04 guarantees about `first` of a non-infinite object *)
Definition first_ok (index : nat) (seqs : choices_repr) (c : list nat) : bool :=
  in_domain index c && accepted seqs c.

(* ------------------------------------------------------------------ var_eval *)

(* Relation.var_eval(DOMAIN, index, v_name, *scalars) for one variable name:
   col = self.variables.index(v_name) raises ValueError when absent *)
Definition var_eval (r : rel) (v : string) (scalars : list Sc) : res choices_repr :=
  match index_of_str v (rvars r) with
  | Some col => ROk (col_infinity_deltas r col scalars)
  | None => RErr "ValueError:variables.index"
  end.

(* ------------------------------------------------------------------ get_result *)

(* options = (('is_m', (WEAK, POLY)), ('is_w', (POLY,)), ('is_p', ())) *)
Definition LADDER : list (attr * list Sc) := [(IS_M, [W; P]); (IS_W, [P]); (IS_P, [])].

(* the for/break loop: first option whose choices are not infinite *)
Fixpoint ladder (r : rel) (index : nat) (v : string) (opts : list (attr * list Sc))
  : res (option (attr * choices_repr)) :=
  match opts with
  | [] => ROk None
  | (a, scalars) :: t =>
      rbind (var_eval r v scalars) (fun seqs =>
        if choices_infinite index seqs then ladder r index v t else ROk (Some (a, seqs)))
  end.

Definition simple_matrix (r : rel) (c : list nat) : list (list Sc) := apply_choice r (choice_of_list c).

(* Bound().calculate(simple_mat).bound_dict[v_name]; None = IndexError / KeyError *)
Definition bound_of (vars : list string) (simple : list (list Sc)) (v : string) : option Bound.MwpBound :=
  match Bound.calculate [] (map Bound.L vars) (map (map sc_str) simple) with
  | Some bd => Bound.dict_get bd (Bound.L v)
  | None => None
  end.

Definition get_result (r : rel) (index : nat) (v : string) (chosen : list nat) : res vresult :=
  rbind (ladder r index v LADDER) (fun o =>
    match o with
    | None => RErr "AssertionError:get_result"                (* assert result.choices *)
    | Some (a, seqs) =>
        if negb (first_ok index seqs chosen) then RErr "spec:Choices.first" else
        match bound_of (rvars r) (simple_matrix r chosen) v with
        | None => RErr "KeyError:bound_dict"
        | Some b => ROk (VR v (set_attr flags_new a true) (Some b) (Some seqs))
        end
    end).

(* ------------------------------------------------------------------ maybe_result *)

Fixpoint map_res {A B} (f : A -> res B) (l : list A) : res (list B) :=
  match l with
  | [] => ROk []
  | x :: t => rbind (f x) (fun y => rbind (map_res f t) (fun ys => ROk (y :: ys)))
  end.

(* deps == {ZERO_MWP} with deps = set(simple_mat.matrix[fi][idx] for fi in fail_idx) *)
Definition cell (simple : list (list Sc)) (i j : nat) : Sc := nth j (nth i simple []) O.

Definition deps_zero (simple : list (list Sc)) (fail_idx : list nat) (idx : nat) : bool :=
  negb (is_nilb fail_idx) && forallb (fun fi => sc_eqb (cell simple fi idx) O) fail_idx.

Definition index_or0 (v : string) (vars : list string) : nat :=
  match index_of_str v vars with Some i => i | None => 0 end.

Definition maybe_result (r : rel) (index : nat) (red_first : list nat) (firsts : string -> list nat)
  : res (list (string * vresult)) :=
  let variables := rvars r in
  rbind (map_res (fun v => rbind (var_eval r v []) (fun s => ROk (v, s))) variables) (fun p_bounds =>
    let fail := map fst (filter (fun vs => choices_infinite index (snd vs)) p_bounds) in
    let rest := filter (fun vs => negb (mem_strb (fst vs) fail)) p_bounds in
    let result := map (fun v => (v, vresult_new v)) fail in
    let fail_idx := map (fun v => index_or0 v variables) fail in
    match rest with
    | [] => ROk result
    | _ =>
        let red := flat_map snd rest in                     (* Choices.choice_reduce( *rest.values()) *)
        if choices_infinite index red then RErr "AssertionError:maybe_result" else
        if negb (first_ok index red red_first) then RErr "spec:Choices.first" else
        let simple := simple_matrix r red_first in
        rbind (map_res (fun vs =>
                 let v := fst vs in
                 if deps_zero simple fail_idx (index_or0 v variables)
                 then rbind (get_result r index v (firsts v)) (fun x => ROk (v, x))
                 else ROk (v, vresult_new v)) rest)
              (fun l => ROk (result ++ l))
    end).

(* ------------------------------------------------------------------ inspect *)

Definition is_loop_stmt (s : stmt) : bool :=
  match s with
  | SWhile _ (SBlock []) | SFor _ _ _ _ (SBlock []) => false
  | SWhile _ _ | SFor _ _ _ _ _ => true
  | _ => false
  end.

(* Variables(node).vars for a loop node *)
Definition loop_vars (loop : stmt) : list string := func_vars {| f_params := []; f_body := [loop] |}.

(* the analysis of the loop statement alone, always to completion:
   (delta-graph infinity, index, relation) *)
Definition loop_relation (loop : stmt) : res (bool * nat * rel) :=
  rbind (cmds [loop] false 0 (rel_identity (loop_vars loop)) false (DeltaGraph.dg_new 3))
        (fun '(di, index, r, _) => ROk (di, index, r)).

(* infty or relations.first.eval(DOMAIN, index).infinite   (no recorded set is passed) *)
Definition loop_infty (di : bool) (index : nat) (r : rel) : bool :=
  di || choices_infinite index (rel_infinity_deltas r [] []).

(* dict(zip(variables, map(get_result, variables))) *)
Definition all_results (r : rel) (index : nat) (firsts : string -> list nat) : res (list (string * vresult)) :=
  map_res (fun v => rbind (get_result r index v (firsts v)) (fun x => ROk (v, x))) (rvars r).

Definition inspect (loop : stmt) (red_first : list nat) (firsts : string -> list nat)
  : res (list (string * vresult)) :=
  if negb (is_loop_stmt loop) then RErr "AssertionError:is_loop" else
  rbind (loop_relation loop) (fun '(di, index, r) =>
    if negb (loop_infty di index r) then all_results r index firsts
    else maybe_result r index red_first firsts).

(* ------------------------------------------------------------------ reading a result *)

(* the column of variable number [col] of the simple matrix *)
Definition column (r : rel) (c : list nat) (col : nat) : list Sc :=
  map (fun i => cell (simple_matrix r c) i col) (seq 0 (length (rvars r))).

(* names of the rows whose entry in the column of variable number [col] is [s], in row order *)
Definition rows_with (r : rel) (c : list nat) (col : nat) (s : Sc) : list string :=
  map (fun i => nth i (rvars r) EmptyString)
      (filter (fun i => sc_eqb (cell (simple_matrix r c) i col) s) (seq 0 (length (rvars r)))).

(* level number of a ladder attribute and the scalars a level excludes (besides infinity) *)
Definition level_of (a : attr) : nat := match a with IS_M => 0 | IS_W => 1 | IS_P => 2 end.
Definition excluded (k : nat) : list Sc := match k with 0 => [W; P] | 1 => [P] | _ => [] end.
Definition bad_at (k : nat) (s : Sc) : bool :=
  match k, s with
  | _, I => true
  | 0, W | 0, P | 1, P => true
  | _, _ => false
  end.
Definition flags_of_level (k : nat) : vflags :=
  match k with 0 => VF true true true | 1 => VF false true true | _ => VF false false true end.

(* the delta lists of column [col] at ladder level [k] *)
Definition level_seqs (r : rel) (col k : nat) : choices_repr := col_infinity_deltas r col (excluded k).

(* the variables for which var_eval (no scalar excluded) is infinite, and their row numbers *)
Definition col_failing (r : rel) (index : nat) (v : string) : bool :=
  match index_of_str v (rvars r) with
  | Some col => choices_infinite index (level_seqs r col 2)
  | None => false
  end.
Definition fail_vars (r : rel) (index : nat) : list string := filter (col_failing r index) (rvars r).
Definition rest_vars (r : rel) (index : nat) : list string :=
  filter (fun v => negb (mem_strb v (fail_vars r index))) (rvars r).
Definition fail_rows (r : rel) (index : nat) : list nat := map (fun v => index_or0 v (rvars r)) (fail_vars r index).
(* what choice_reduce of the remaining variables accepts *)
Definition red_seqs (r : rel) (index : nat) : choices_repr :=
  flat_map (fun v => level_seqs r (index_or0 v (rvars r)) 2) (rest_vars r index).

(* ------------------------------------------------------------------ the dependency clause (specification) *)

(* v depends on u at the vector c: the entry (u, v) of the simple matrix is not zero.  The relation of a
   loop is a closure (fixpoint), so for the analysed loop the direct dependencies at c are the
   transitive ones. *)
Definition depends_at (r : rel) (c : list nat) (u v : nat) : bool :=
  negb (sc_eqb (cell (simple_matrix r c) u v) O).

(* c is failure-free for variable number u: it selects no infinity in column u *)
Definition failure_free (r : rel) (c : list nat) (u : nat) : bool := accepted (level_seqs r u 2) c.

(* c is failure-free for variable number v and for every variable v depends on at c *)
Definition valid_for_dependencies (r : rel) (c : list nat) (v : nat) : bool :=
  forallb (fun u => negb (depends_at r c u v) || failure_free r c u) (seq 0 (length (rvars r))).
