(* Domination order on monomials, antichains, and what Polynomial.inclusion / Polynomial.add do to them.
   m [= m'  ("m is dominated by m'", [mleb m m' = true]) iff every delta of m' is a delta of m and
   sc m <= sc m'.  [minclusion] is exactly a three-way test of this order.
   Main results (used by Rel_term.v for the termination of Relation.fixpoint):
     padd_mem      every monomial of padd p q is a monomial of p or of q (or the result is the zero polynomial)
     padd_dom_mono everything with a non-zero scalar dominated by p or by q is dominated by padd p q
     padd_good     padd of a "good" polynomial (strictly sorted antichain in normal form) is good
     good_eq       two good polynomials dominating each other's non-zero monomials are EQUAL (syntactically) *)
From Coq Require Import String List Bool Arith Lia.
From PM Require Import Semiring Poly Poly_sem Poly_add Poly_times Rel Analysis Calculus Rel_sem Poly_wf.
Import ListNotations.
Open Scope list_scope.

(* ------------------------------------------------------------------ *)
(* the domination order                                                *)
(* ------------------------------------------------------------------ *)

Definition mleb (m m' : mono) : bool := mcontains m m' && sc_leb (sc m) (sc m').

Lemma minclusion_mleb m mn :
  minclusion m mn = if mleb m mn then CONTAINS else if mleb mn m then INCLUDED else EMPTYI.
Proof.
  unfold minclusion, mleb.
  destruct (mcontains m mn), (mcontains mn m), (sc m), (sc mn); reflexivity.
Qed.

Lemma mcontains_In a b : mcontains a b = true <-> (forall d, In d (ds b) -> In d (ds a)).
Proof.
  unfold mcontains. rewrite forallb_forall. split; intros H d Hd.
  - apply delta_in_In. apply H. exact Hd.
  - apply delta_in_In. apply H. exact Hd.
Qed.

Lemma sc_leb_le a b : sc_leb a b = true <-> sc_le a b.
Proof. unfold sc_leb, sc_le. apply Nat.leb_le. Qed.

Lemma mleb_spec a b :
  mleb a b = true <-> (forall d, In d (ds b) -> In d (ds a)) /\ sc_le (sc a) (sc b).
Proof. unfold mleb. rewrite andb_true_iff, mcontains_In, sc_leb_le. tauto. Qed.

Lemma mleb_refl a : mleb a a = true.
Proof. apply mleb_spec. split; [auto | apply sc_le_refl]. Qed.

Lemma mleb_trans a b c : mleb a b = true -> mleb b c = true -> mleb a c = true.
Proof.
  rewrite !mleb_spec. intros [H1 H2] [H3 H4]. split; [auto | eapply sc_le_trans; eassumption].
Qed.

Lemma mleb_nz a b : mleb a b = true -> sc a <> O -> sc b <> O.
Proof.
  rewrite mleb_spec. intros [_ H] Ha Hb. rewrite Hb in H. unfold sc_le in H.
  destruct (sc a); simpl in H; try lia. congruence.
Qed.

(* two sorted delta lists with the same elements are equal *)
Lemma dsorted_ext : forall l1 l2, dsorted l1 -> dsorted l2 -> (forall d, In d l1 <-> In d l2) -> l1 = l2.
Proof.
  induction l1 as [|a t1 IH]; intros [|b t2] H1 H2 E.
  - reflexivity.
  - destruct (proj2 (E b) (or_introl eq_refl)).
  - destruct (proj1 (E a) (or_introl eq_refl)).
  - pose proof (dsorted_all_gt _ _ H1) as G1. pose proof (dsorted_all_gt _ _ H2) as G2.
    assert (a = b) as <-.
    { destruct (proj1 (E a) (or_introl eq_refl)) as [Hab|Hab]; [symmetry; exact Hab|].
      destruct (proj2 (E b) (or_introl eq_refl)) as [Hba|Hba]; [exact Hba|].
      specialize (G1 _ Hba). specialize (G2 _ Hab). lia. }
    f_equal. apply dsorted_cons in H1. apply dsorted_cons in H2.
    apply IH; [exact (proj2 H1) | exact (proj2 H2) |].
    intros d. split; intros Hd.
    + destruct (proj1 (E d) (or_intror Hd)) as [<-|Hd']; [|exact Hd'].
      specialize (G1 _ Hd). lia.
    + destruct (proj2 (E d) (or_intror Hd)) as [<-|Hd']; [|exact Hd'].
      specialize (G2 _ Hd). lia.
Qed.

Lemma mleb_antisym a b : mwf a -> mwf b -> mleb a b = true -> mleb b a = true -> a = b.
Proof.
  rewrite !mleb_spec. unfold mwf. destruct a as [sa da], b as [sb db]. cbn [sc ds].
  intros Wa Wb [H1 H2] [H3 H4]. f_equal.
  - apply sc_le_antisym; assumption.
  - apply dsorted_ext; try assumption. intros d. split; auto.
Qed.

(* ------------------------------------------------------------------ *)
(* down-closure of a list of monomials                                 *)
(* ------------------------------------------------------------------ *)

Definition dom_by (l : list mono) (u : mono) : Prop := exists m, In m l /\ mleb u m = true.
Definition domb (l : list mono) (u : mono) : bool := existsb (fun m => mleb u m) l.

Lemma domb_spec l u : domb l u = true <-> dom_by l u.
Proof. unfold domb, dom_by. apply existsb_exists. Qed.

Lemma dom_by_trans l u v : mleb u v = true -> dom_by l v -> dom_by l u.
Proof. intros H [m [Hm Hv]]. exists m. split; [exact Hm | eapply mleb_trans; eassumption]. Qed.

Lemma dom_by_incl l l' u : (forall x, In x l -> In x l') -> dom_by l u -> dom_by l' u.
Proof. intros H [m [Hm Hu]]. exists m. split; [apply H; exact Hm | exact Hu]. Qed.

Lemma dom_by_self l u : In u l -> dom_by l u.
Proof. intros H. exists u. split; [exact H | apply mleb_refl]. Qed.

Lemma dom_by_app l1 l2 u : dom_by (l1 ++ l2) u <-> dom_by l1 u \/ dom_by l2 u.
Proof.
  split.
  - intros [m [Hm Hu]]. apply in_app_or in Hm. destruct Hm; [left|right]; exists m; tauto.
  - intros [H|H]; eapply dom_by_incl; try exact H; intros x Hx; apply in_or_app; tauto.
Qed.

Lemma dom_by_nil u : ~ dom_by [] u.
Proof. intros [m [[] _]]. Qed.

Lemma dom_by_cons m l u : dom_by (m :: l) u <-> mleb u m = true \/ dom_by l u.
Proof.
  split.
  - intros [y [[<-|Hy] Hu]]; [left; exact Hu | right; exists y; tauto].
  - intros [H|[y [Hy Hu]]]; [exists m; split; [left; reflexivity | exact H] | exists y; split; [right; exact Hy | exact Hu]].
Qed.

(* ------------------------------------------------------------------ *)
(* antichains (as sets)                                                *)
(* ------------------------------------------------------------------ *)

Definition santi (l : list mono) : Prop :=
  forall a b, In a l -> In b l -> mleb a b = true -> a = b.

Definition incomp (l : list mono) (m : mono) : Prop :=
  forall x, In x l -> mleb x m = false /\ mleb m x = false.

Lemma santi_incl l l' : (forall x, In x l' -> In x l) -> santi l -> santi l'.
Proof. intros H S a b Ha Hb. apply S; apply H; assumption. Qed.

Lemma santi_add l m S :
  santi l -> incomp l m -> (forall x, In x S -> In x l \/ x = m) -> santi S.
Proof.
  intros Hl Hi HS a b Ha Hb Hab.
  destruct (HS a Ha) as [Ha'| ->]; destruct (HS b Hb) as [Hb'| ->].
  - apply Hl; assumption.
  - destruct (Hi a Ha') as [E _]. congruence.
  - destruct (Hi b Hb') as [_ E]. congruence.
  - reflexivity.
Qed.

Lemma santi_single m : santi [m].
Proof. intros a b [<-|[]] [<-|[]] _. reflexivity. Qed.

(* in an antichain, equal delta lists means equal monomials *)
Lemma santi_sameds l : santi l -> forall a b, In a l -> In b l -> ds a = ds b -> a = b.
Proof.
  intros S a b Ha Hb E.
  destruct (sc_le_total (sc a) (sc b)) as [H|H].
  - apply S; try assumption. unfold mleb.
    rewrite (mcontains_refl_ds a b E). apply sc_leb_le. exact H.
  - symmetry. apply S; try assumption. unfold mleb.
    rewrite (mcontains_refl_ds b a (eq_sym E)). apply sc_leb_le. exact H.
Qed.

(* ------------------------------------------------------------------ *)
(* Polynomial.inclusion                                                *)
(* ------------------------------------------------------------------ *)

Lemma pincl_go_props rest mn : forall j i acc b i' nl,
  pincl_go rest mn j i acc = (b, i', nl) ->
  (forall x, In x nl -> In x acc \/ In x rest) /\
  (b = false -> dom_by nl mn) /\
  (forall u, dom_by acc u \/ dom_by rest u -> dom_by nl u \/ (b = true /\ mleb u mn = true)).
Proof.
  induction rest as [|m t IH]; intros j i acc b i' nl H; cbn [pincl_go] in H.
  - injection H as <- <- <-. split; [|split].
    + intros x Hx. left. apply in_rev. exact Hx.
    + discriminate.
    + intros u [Hu|Hu]; [|destruct (dom_by_nil _ Hu)].
      left. eapply dom_by_incl; [|exact Hu]. intros x Hx. apply in_rev in Hx. exact Hx.
  - rewrite minclusion_mleb in H. destruct (mleb m mn) eqn:E1.
    + destruct (IH _ _ _ _ _ _ H) as (A & Bf & C). split; [|split].
      * intros x Hx. destruct (A x Hx); [left | right; right]; assumption.
      * exact Bf.
      * intros u [Hu|Hu]; [apply C; left; exact Hu|].
        apply dom_by_cons in Hu. destruct Hu as [Hu|Hu]; [|apply C; right; exact Hu].
        pose proof (mleb_trans _ _ _ Hu E1) as Hle.
        destruct b; [right; split; [reflexivity | exact Hle]|].
        left. eapply dom_by_trans; [exact Hle | apply Bf; reflexivity].
    + destruct (mleb mn m) eqn:E2.
      * injection H as <- <- <-. rewrite rev_append_rev. split; [|split].
        -- intros x Hx. apply in_app_or in Hx. destruct Hx as [Hx|Hx]; [left; apply in_rev; exact Hx | right; exact Hx].
        -- intros _. exists m. split; [apply in_or_app; right; left; reflexivity | exact E2].
        -- intros u Hu. left. apply dom_by_app. destruct Hu as [Hu|Hu]; [left | right; exact Hu].
           eapply dom_by_incl; [|exact Hu]. intros x Hx. apply in_rev in Hx. exact Hx.
      * destruct (IH _ _ _ _ _ _ H) as (A & Bf & C). split; [|split].
        -- intros x Hx. destruct (A x Hx) as [[<-|Hx']|Hx']; [right; left; reflexivity | left; exact Hx' | right; right; exact Hx'].
        -- exact Bf.
        -- intros u [Hu|Hu].
           ++ apply C. left. apply dom_by_cons. right. exact Hu.
           ++ apply dom_by_cons in Hu. destruct Hu as [Hu|Hu].
              ** apply C. left. apply dom_by_cons. left. exact Hu.
              ** apply C. right. exact Hu.
Qed.

Lemma empty_incomp x mn : minclusion x mn = EMPTYI -> mleb x mn = false /\ mleb mn x = false.
Proof.
  rewrite minclusion_mleb. destruct (mleb x mn); [discriminate|].
  destruct (mleb mn x); [discriminate|]. tauto.
Qed.

Lemma pincl_props l mn i b i' nl : pincl l mn i = (b, i', nl) ->
  (forall x, In x nl -> In x l) /\
  (b = true -> incomp nl mn) /\
  (b = false -> dom_by nl mn) /\
  (forall u, dom_by l u -> dom_by nl u \/ (b = true /\ mleb u mn = true)).
Proof.
  unfold pincl. intros H. destruct (pincl_go_props _ _ _ _ _ _ _ _ H) as (A & Bf & C).
  split; [|split; [|split]].
  - intros x Hx. destruct (A x Hx) as [[]|Hx']. exact Hx'.
  - intros ->. destruct (pincl_go_true _ _ _ _ _ _ _ H (Forall_nil _)) as [F _].
    intros x Hx. rewrite Forall_forall in F. apply empty_incomp. apply F. exact Hx.
  - exact Bf.
  - intros u Hu. apply C. right. exact Hu.
Qed.

(* one step "test mn against l, then insert it somewhere if the verdict says so" *)
Lemma step_props l mn i b i' nl S :
  pincl l mn i = (b, i', nl) ->
  (forall x, In x S <-> In x nl \/ (b = true /\ x = mn)) ->
  (forall x, In x S -> In x l \/ x = mn) /\
  (santi l -> santi S) /\
  (forall u, dom_by l u \/ mleb u mn = true -> dom_by S u).
Proof.
  intros H HS. destruct (pincl_props _ _ _ _ _ _ H) as (A & Bt & Bf & C).
  split; [|split].
  - intros x Hx. apply HS in Hx. destruct Hx as [Hx|[_ ->]]; [left; apply A; exact Hx | right; reflexivity].
  - intros Hl. pose proof (santi_incl l nl A Hl) as Hnl. destruct b.
    + apply (santi_add nl mn S Hnl (Bt eq_refl)). intros x Hx. apply HS in Hx. tauto.
    + eapply santi_incl; [|exact Hnl]. intros x Hx. apply HS in Hx. destruct Hx as [Hx|[Hx _]]; [exact Hx | discriminate].
  - assert (Hsub : forall u, dom_by nl u -> dom_by S u).
    { intros u. apply dom_by_incl. intros x Hx. apply HS. left. exact Hx. }
    assert (Hmn : forall u, mleb u mn = true -> dom_by S u).
    { intros u Hu. destruct b.
      - exists mn. split; [apply HS; right; split; reflexivity | exact Hu].
      - apply Hsub. eapply dom_by_trans; [exact Hu | apply Bf; reflexivity]. }
    intros u [Hu|Hu]; [|apply Hmn; exact Hu].
    destruct (C u Hu) as [Hu'|[_ Hu']]; [apply Hsub; exact Hu' | apply Hmn; exact Hu'].
Qed.

(* ------------------------------------------------------------------ *)
(* the loops of Polynomial.add                                         *)
(* ------------------------------------------------------------------ *)

Lemma add_tail_props rest : forall nl i,
  (forall x, In x (add_tail nl rest i) -> In x nl \/ In x rest) /\
  (santi nl -> santi (add_tail nl rest i)) /\
  (forall u, dom_by nl u \/ dom_by rest u -> dom_by (add_tail nl rest i) u).
Proof.
  induction rest as [|m t IH]; intros nl i; cbn [add_tail].
  - split; [|split].
    + intros x Hx. left. exact Hx.
    + auto.
    + intros u [Hu|Hu]; [exact Hu | destruct (dom_by_nil _ Hu)].
  - destruct (pincl nl m i) as [[tobe i'] nl'] eqn:E.
    set (S := if tobe then nl' ++ [m] else nl').
    assert (HS : forall x, In x S <-> In x nl' \/ (tobe = true /\ x = m)).
    { intros x. subst S. destruct tobe.
      - rewrite in_app_iff. simpl. split; [intros [H|[H|[]]]; [left; exact H | right; split; [reflexivity | symmetry; exact H]]
                                         | intros [H|[_ H]]; [left; exact H | right; left; symmetry; exact H]].
      - split; [intros H; left; exact H | intros [H|[H _]]; [exact H | discriminate]]. }
    destruct (step_props _ _ _ _ _ _ S E HS) as (A & B & C).
    destruct (IH S i') as (A' & B' & C'). split; [|split].
    + intros x Hx. destruct (A' x Hx) as [Hx'|Hx']; [|right; right; exact Hx'].
      destruct (A x Hx') as [Hx''| ->]; [left; exact Hx'' | right; left; reflexivity].
    + intros Hn. apply B', B, Hn.
    + intros u [Hu|Hu].
      * apply C'. left. apply C. left. exact Hu.
      * apply dom_by_cons in Hu. destruct Hu as [Hu|Hu].
        -- apply C'. left. apply C. right. exact Hu.
        -- apply C'. right. exact Hu.
Qed.

Lemma list_insert_In {A} (l : list A) y : forall i x, In x (list_insert l i y) <-> x = y \/ In x l.
Proof.
  induction l as [|h t IH]; intros [|i] x; simpl.
  - split; [intros [H|[]]; left; symmetry; exact H | intros [H|[]]; left; symmetry; exact H].
  - split; [intros [H|[]]; left; symmetry; exact H | intros [H|[]]; left; symmetry; exact H].
  - split; [intros [H|H]; [left; symmetry; exact H | right; exact H] | intros [H|H]; [left; symmetry; exact H | right; exact H]].
  - rewrite IH. split; [intros [H|[H|H]]; tauto | intros [H|[H|H]]; tauto].
Qed.

Lemma add_loop_props fuel : forall nl q i r,
  add_loop fuel nl q i = Some r ->
  (forall x, In x r -> In x nl \/ In x q) /\
  (santi nl -> santi r) /\
  (forall u, dom_by nl u \/ dom_by q u -> dom_by r u).
Proof.
  induction fuel as [|f IH]; intros nl q i r H; cbn [add_loop] in H; [discriminate|].
  destruct q as [|mono2 q'].
  - injection H as <-. split; [|split].
    + intros x Hx. left. exact Hx.
    + auto.
    + intros u [Hu|Hu]; [exact Hu | destruct (dom_by_nil _ Hu)].
  - destruct (pincl nl mono2 i) as [[tobe i1] nl1] eqn:E.
    destruct (pincl_props _ _ _ _ _ _ E) as (PA & PBt & PBf & PC).
    destruct tobe; cbn [negb] in H; cbv iota in H.
    + (* to be inserted: every element of nl1 is incomparable with mono2 *)
      specialize (PBt eq_refl).
      assert (Hkeep : (forall x, In x nl1 \/ In x (mono2 :: q') -> In x nl \/ In x (mono2 :: q')) /\
                      (santi nl -> santi nl1) /\
                      (forall u, dom_by nl u \/ dom_by (mono2 :: q') u -> dom_by nl1 u \/ dom_by (mono2 :: q') u)).
      { split; [|split].
        - intros x [Hx|Hx]; [left; apply PA; exact Hx | right; exact Hx].
        - apply santi_incl. exact PA.
        - intros u [Hu|Hu]; [|right; exact Hu].
          destruct (PC u Hu) as [Hu'|[_ Hu']]; [left; exact Hu' | right; apply dom_by_cons; left; exact Hu']. }
      destruct Hkeep as (KA & KB & KC).
      destruct (Nat.eqb i1 (length nl1)).
      * assert (r = add_tail nl1 (mono2 :: q') i1) as -> by congruence.
        destruct (add_tail_props (mono2 :: q') nl1 i1) as (A & B & C). split; [|split].
        -- intros x Hx. apply KA, A, Hx.
        -- intros Hn. apply B, KB, Hn.
        -- intros u Hu. apply C, KC, Hu.
      * destruct (nth_error nl1 i1) as [mono1|] eqn:En; [|discriminate].
        destruct (compare (ds mono1) (ds mono2)) eqn:Ec.
        -- destruct (IH _ _ _ _ H) as (A & B & C). split; [|split].
           ++ intros x Hx. apply KA, A, Hx.
           ++ intros Hn. apply B, KB, Hn.
           ++ intros u Hu. apply C, KC, Hu.
        -- (* equal delta lists are always comparable: this branch is dead *)
           exfalso. apply compare_equal_eq in Ec. apply nth_error_In in En.
           destruct (PBt _ En) as [X1 X2].
           apply (minclusion_same_ds _ _ Ec). rewrite minclusion_mleb, X1, X2. reflexivity.
        -- set (S := list_insert nl1 i1 mono2) in *.
           assert (HS : forall x, In x S <-> In x nl1 \/ (true = true /\ x = mono2)).
           { intros x. subst S. rewrite list_insert_In. split; [intros [Hx|Hx]; tauto | intros [Hx|[_ Hx]]; tauto]. }
           destruct (step_props _ _ _ _ _ _ S E HS) as (A & B & C).
           destruct (IH _ _ _ _ H) as (A' & B' & C'). split; [|split].
           ++ intros x Hx. destruct (A' x Hx) as [Hx'|Hx']; [|right; right; exact Hx'].
              destruct (A x Hx') as [Hx''| ->]; [left; exact Hx'' | right; left; reflexivity].
           ++ intros Hn. apply B', B, Hn.
           ++ intros u [Hu|Hu].
              ** apply C'. left. apply C. left. exact Hu.
              ** apply dom_by_cons in Hu. destruct Hu as [Hu|Hu].
                 --- apply C'. left. apply C. right. exact Hu.
                 --- apply C'. right. exact Hu.
    + (* dominated by an element of nl1: dropped *)
      assert (HS : forall x, In x nl1 <-> In x nl1 \/ (false = true /\ x = mono2)).
      { intros x. split; [intros Hx; left; exact Hx | intros [Hx|[Hx _]]; [exact Hx | discriminate]]. }
      destruct (step_props _ _ _ _ _ _ nl1 E HS) as (A & B & C).
      destruct (IH _ _ _ _ H) as (A' & B' & C'). split; [|split].
      * intros x Hx. destruct (A' x Hx) as [Hx'|Hx']; [|right; right; exact Hx'].
        destruct (A x Hx') as [Hx''| ->]; [left; exact Hx'' | right; left; reflexivity].
      * intros Hn. apply B', B, Hn.
      * intros u [Hu|Hu].
        -- apply C'. left. apply C. left. exact Hu.
        -- apply dom_by_cons in Hu. destruct Hu as [Hu|Hu].
           ++ apply C'. left. apply C. right. exact Hu.
           ++ apply C'. right. exact Hu.
Qed.

(* ------------------------------------------------------------------ *)
(* copying a well-formed monomial is the identity                      *)
(* ------------------------------------------------------------------ *)

Lemma dsorted_app_lt a : forall b, dsorted (a ++ b) -> forall x y, In x a -> In y b -> snd x < snd y.
Proof.
  induction a as [|h t IH]; intros b H x y Hx Hy; [destruct Hx|].
  change ((h :: t) ++ b) with (h :: (t ++ b)) in H.
  pose proof (dsorted_all_gt _ _ H) as G. apply dsorted_cons in H.
  destruct Hx as [<-|Hx].
  - apply G. apply in_or_app. right. exact Hy.
  - destruct H as [_ H]. exact (IH b H x y Hx Hy).
Qed.

Lemma insert_delta_end cur d :
  (forall e, In e cur -> snd e < snd d) -> insert_delta cur d = Some (cur ++ [d]).
Proof.
  induction cur as [|h t IH]; intros H; cbn [insert_delta]; [reflexivity|].
  assert (Hh : snd h < snd d) by (apply H; left; reflexivity).
  apply Nat.ltb_lt in Hh. rewrite Hh.
  rewrite IH; [reflexivity|]. intros e He. apply H. right. exact He.
Qed.

Lemma insert_deltas_sorted s new : forall cur,
  dsorted (cur ++ new) -> insert_deltas s cur new = Mono s (cur ++ new).
Proof.
  induction new as [|d t IH]; intros cur H; cbn [insert_deltas].
  - rewrite app_nil_r. reflexivity.
  - rewrite insert_delta_end.
    + replace (cur ++ d :: t) with ((cur ++ [d]) ++ t) in * by (rewrite <- app_assoc; reflexivity).
      apply IH. exact H.
    + intros e He. apply (dsorted_app_lt cur (d :: t) H); [exact He | left; reflexivity].
Qed.

Lemma mono_copy_id m : mwf m -> mono_copy m = m.
Proof.
  intros H. unfold mono_copy, mk_mono. rewrite insert_deltas_sorted; [|exact H].
  destruct m; reflexivity.
Qed.

Lemma map_copy_id p : Forall mwf p -> map mono_copy p = p.
Proof.
  induction 1 as [|m p Hm _ IH]; simpl; [reflexivity|]. rewrite IH, (mono_copy_id m Hm). reflexivity.
Qed.

Lemma poly_copy_id p : pwf p -> poly_copy p = p.
Proof.
  intros [Hne Hp]. unfold poly_copy. rewrite (map_copy_id p Hp).
  destruct p; [congruence | reflexivity].
Qed.

(* ------------------------------------------------------------------ *)
(* sort_monomials on an antichain keeps the set of non-zero monomials  *)
(* ------------------------------------------------------------------ *)

Definition sameds_eq (l r : list mono) : Prop :=
  forall a b, In a l -> In b r -> ds a = ds b -> a = b.

Lemma set_sc_self m s : sc m = s -> set_sc m s = m.
Proof. intros <-. destruct m; reflexivity. Qed.

Lemma merge_fuel_In f : forall l r, sameds_eq l r ->
  (forall x, In x (merge_fuel f l r) -> In x l \/ In x r) /\
  (forall x, In x l \/ In x r -> sc x <> O -> In x (merge_fuel f l r)).
Proof.
  induction f as [|f IH]; intros l r HE; cbn [merge_fuel].
  - split.
    + intros x Hx. apply in_app_or in Hx. tauto.
    + intros x Hx _. apply in_or_app. tauto.
  - destruct l as [|lh lt].
    { split; [intros x Hx; apply in_app_or in Hx; tauto | intros x Hx _; apply in_or_app; tauto]. }
    destruct r as [|rh rt].
    { split; [intros x Hx; apply in_app_or in Hx; tauto | intros x Hx _; apply in_or_app; tauto]. }
    destruct (compare (ds lh) (ds rh)) eqn:Ec.
    + destruct (IH lt (rh :: rt)) as [A B].
      { intros a b Ha Hb. apply HE; [right; exact Ha | exact Hb]. }
      split.
      * intros x [<-|Hx]; [left; left; reflexivity|].
        destruct (A x Hx) as [H|H]; [left; right; exact H | right; exact H].
      * intros x Hx Hnz. destruct Hx as [[<-|Hx]|Hx]; [left; reflexivity | right; apply B; tauto | right; apply B; tauto].
    + apply compare_equal_eq in Ec.
      assert (lh = rh) as <- by (apply HE; [left; reflexivity | left; reflexivity | exact Ec]).
      rewrite ssum_idem.
      destruct (IH lt rt) as [A B].
      { intros a b Ha Hb. apply HE; right; assumption. }
      assert (A' : forall x, In x (lh :: merge_fuel f lt rt) -> In x (lh :: lt) \/ In x (lh :: rt)).
      { intros x [<-|Hx]; [left; left; reflexivity|].
        destruct (A x Hx) as [H|H]; [left; right; exact H | right; right; exact H]. }
      assert (B' : forall x, In x (lh :: lt) \/ In x (lh :: rt) -> sc x <> O -> In x (lh :: merge_fuel f lt rt)).
      { intros x Hx Hnz. destruct Hx as [[<-|Hx]|[<-|Hx]];
          [left; reflexivity | right; apply B; tauto | left; reflexivity | right; apply B; tauto]. }
      destruct (sc lh) eqn:Es; try (rewrite (set_sc_self lh _ Es); split; assumption).
      split.
      * intros x Hx. destruct (A x Hx) as [H|H]; [left; right; exact H | right; right; exact H].
      * intros x Hx Hnz. apply B; [|exact Hnz].
        destruct Hx as [[<-|Hx]|[<-|Hx]]; try tauto; congruence.
    + destruct (IH (lh :: lt) rt) as [A B].
      { intros a b Ha Hb. apply HE; [exact Ha | right; exact Hb]. }
      split.
      * intros x [<-|Hx]; [right; left; reflexivity|].
        destruct (A x Hx) as [H|H]; [left; exact H | right; right; exact H].
      * intros x Hx Hnz. destruct Hx as [Hx|[<-|Hx]]; [right; apply B; tauto | left; reflexivity | right; apply B; tauto].
Qed.

Lemma in_firstn_skipn {A} n (l : list A) x : In x l <-> In x (firstn n l) \/ In x (skipn n l).
Proof. rewrite <- (firstn_skipn n l) at 1. apply in_app_iff. Qed.

Lemma sort_fuel_In f : forall l,
  (forall a b, In a l -> In b l -> ds a = ds b -> a = b) ->
  (forall x, In x (sort_fuel f l) -> In x l) /\
  (forall x, In x l -> sc x <> O -> In x (sort_fuel f l)).
Proof.
  induction f as [|f IH]; intros l HE; cbn [sort_fuel]; [split; auto|].
  destruct l as [|a [|b t]]; [split; auto | split; auto |].
  remember (a :: b :: t) as x eqn:Ex. clear Ex.
  set (mid := Nat.div2 (length x)).
  destruct (IH (skipn mid x)) as [A1 B1].
  { intros u v Hu Hv. apply HE; apply (in_firstn_skipn mid); right; assumption. }
  destruct (IH (firstn mid x)) as [A2 B2].
  { intros u v Hu Hv. apply HE; apply (in_firstn_skipn mid); left; assumption. }
  destruct (merge_fuel_In (length (sort_fuel f (skipn mid x)) + length (sort_fuel f (firstn mid x)))
              (sort_fuel f (skipn mid x)) (sort_fuel f (firstn mid x))) as [A B].
  { intros u v Hu Hv. apply HE; apply (in_firstn_skipn mid); [right; apply A1 | left; apply A2]; assumption. }
  unfold merge. split.
  - intros y Hy. apply (in_firstn_skipn mid). destruct (A y Hy) as [H|H]; [right; apply A1 | left; apply A2]; exact H.
  - intros y Hy Hnz. apply B; [|exact Hnz]. apply (in_firstn_skipn mid) in Hy.
    destruct Hy as [Hy|Hy]; [right; apply B2 | left; apply B1]; assumption.
Qed.

(* ------------------------------------------------------------------ *)
(* remove_zeros . mk_poly                                              *)
(* ------------------------------------------------------------------ *)

Lemma rz_In l x : In x (remove_zeros (mk_poly l)) ->
  (In x l /\ sc x <> O) \/ remove_zeros (mk_poly l) = zero_poly.
Proof.
  unfold remove_zeros.
  destruct (filter (fun m => negb (is_O (sc m))) (mk_poly l)) as [|y ys] eqn:E; [right; reflexivity|].
  intros Hx. left. rewrite <- E in Hx. apply filter_In in Hx. destruct Hx as [Hx Hnz].
  assert (Hs : sc x <> O) by (intros Hs; rewrite Hs in Hnz; discriminate).
  split; [|exact Hs]. destruct l; [|exact Hx].
  destruct Hx as [<-|[]]. exfalso. apply Hs. reflexivity.
Qed.

Lemma rz_In_rev l x : In x l -> sc x <> O -> In x (remove_zeros (mk_poly l)).
Proof.
  intros Hx Hs. unfold remove_zeros.
  assert (Hf : In x (filter (fun m => negb (is_O (sc m))) (mk_poly l))).
  { apply filter_In. split; [destruct l; [destruct Hx | exact Hx]|].
    destruct (sc x); try reflexivity. congruence. }
  destruct (filter (fun m => negb (is_O (sc m))) (mk_poly l)); [destruct Hf | exact Hf].
Qed.

(* ------------------------------------------------------------------ *)
(* Polynomial.add on a well-formed left operand                        *)
(* ------------------------------------------------------------------ *)

Lemma padd_unfold p q : pwf p -> q <> [] -> exists nl,
  add_loop (add_fuel_for p q) p q 0 = Some nl /\
  padd p q = remove_zeros (mk_poly (sort_monomials nl)).
Proof.
  intros Hp Hq. unfold padd. destruct (padd_opt_total p q) as [r Hr]. rewrite Hr.
  unfold padd_opt in Hr. pose proof (poly_copy_id p Hp) as Hc.
  destruct p as [|a p]; [destruct Hp; congruence|]. destruct q as [|b q]; [congruence|].
  rewrite Hc in Hr.
  destruct (add_loop _ _ _ _) as [nl|]; [|discriminate]. injection Hr as <-.
  exists nl. split; reflexivity.
Qed.

(* good: what every cell of every iterate of Relation.fixpoint is *)
Definition good (p : poly) : Prop := ssorted p /\ NFz p /\ santi p /\ Forall mwf p.

Lemma good_pwf p : good p -> pwf p.
Proof.
  intros (_ & N & _ & W). split; [|exact W].
  destruct N as [->|[N _]]; [discriminate | exact N].
Qed.

Section PaddFacts.
Variables p q : poly.
Hypothesis Gp : good p.
Hypothesis Hq : q <> [].

Lemma padd_parts : exists nl,
  padd p q = remove_zeros (mk_poly (sort_monomials nl)) /\
  (forall x, In x nl -> In x p \/ In x q) /\ santi nl /\
  (forall u, dom_by p u \/ dom_by q u -> dom_by nl u) /\
  (forall x, In x (sort_monomials nl) -> In x nl) /\
  (forall x, In x nl -> sc x <> O -> In x (sort_monomials nl)).
Proof.
  destruct (padd_unfold p q (good_pwf p Gp) Hq) as [nl [E1 E2]].
  destruct (add_loop_props _ _ _ _ _ E1) as (A & B & C).
  destruct Gp as (_ & _ & Sp & _). specialize (B Sp).
  destruct (sort_fuel_In (length nl) nl (santi_sameds nl B)) as [S1 S2].
  exists nl. repeat split; assumption.
Qed.

Theorem padd_mem x : In x (padd p q) -> (In x p \/ In x q) \/ padd p q = zero_poly.
Proof.
  destruct padd_parts as (nl & E & A & _ & _ & S1 & _). rewrite E. intros Hx.
  destruct (rz_In _ _ Hx) as [[Hx' _]|Hz]; [left; apply A, S1, Hx' | right; exact Hz].
Qed.

Theorem padd_dom_mono u : sc u <> O -> dom_by p u \/ dom_by q u -> dom_by (padd p q) u.
Proof.
  destruct padd_parts as (nl & E & _ & _ & C & _ & S2). rewrite E. intros Hnz Hu.
  destruct (C u Hu) as [m [Hm Hle]]. exists m. split; [|exact Hle].
  pose proof (mleb_nz _ _ Hle Hnz) as Hmz.
  apply rz_In_rev; [apply S2; assumption | exact Hmz].
Qed.

Theorem padd_good : Forall mwf q -> good (padd p q).
Proof.
  intros Wq. pose proof (good_pwf p Gp) as [Hp _].
  destruct (padd_nf p q Hp Hq) as (N & S & _).
  split; [exact S|]. split; [exact N|]. split; [|exact (proj2 (padd_pwf_r p q Wq))].
  destruct padd_parts as (nl & E & _ & B & _ & S1 & _).
  intros a b Ha Hb Hab. rewrite E in Ha, Hb.
  destruct (rz_In _ _ Ha) as [[Ha' _]|Hz].
  - destruct (rz_In _ _ Hb) as [[Hb' _]|Hz].
    + apply B; [apply S1; exact Ha' | apply S1; exact Hb' | exact Hab].
    + rewrite Hz in Ha, Hb. destruct Ha as [<-|[]]. destruct Hb as [<-|[]]. reflexivity.
  - rewrite Hz in Ha, Hb. destruct Ha as [<-|[]]. destruct Hb as [<-|[]]. reflexivity.
Qed.

End PaddFacts.

(* ------------------------------------------------------------------ *)
(* a good polynomial is determined by what it dominates                *)
(* ------------------------------------------------------------------ *)

Lemma all_lt_In a t x : all_lt a t -> In x t -> dlt a (ds x).
Proof.
  induction t as [|m t IH]; simpl; [tauto|]. intros [H1 H2] [<-|Hx]; [exact H1 | apply IH; assumption].
Qed.

Lemma ssorted_ext : forall l1 l2, ssorted l1 -> ssorted l2 -> (forall x, In x l1 <-> In x l2) -> l1 = l2.
Proof.
  induction l1 as [|a t1 IH]; intros [|b t2] H1 H2 E.
  - reflexivity.
  - destruct (proj2 (E b) (or_introl eq_refl)).
  - destruct (proj1 (E a) (or_introl eq_refl)).
  - cbn [ssorted] in H1, H2. destruct H1 as [L1 S1], H2 as [L2 S2].
    assert (a = b) as <-.
    { destruct (proj1 (E a) (or_introl eq_refl)) as [Hab|Hab]; [symmetry; exact Hab|].
      destruct (proj2 (E b) (or_introl eq_refl)) as [Hba|Hba]; [exact Hba|].
      exfalso. apply (dlt_irrefl (ds a)).
      eapply dlt_trans; [exact (all_lt_In _ _ _ L1 Hba) | exact (all_lt_In _ _ _ L2 Hab)]. }
    f_equal. apply IH; [exact S1 | exact S2 |].
    intros d. split; intros Hd.
    + destruct (proj1 (E d) (or_intror Hd)) as [<-|Hd']; [|exact Hd'].
      exfalso. exact (dlt_irrefl _ (all_lt_In _ _ _ L1 Hd)).
    + destruct (proj2 (E d) (or_intror Hd)) as [<-|Hd']; [|exact Hd'].
      exfalso. exact (dlt_irrefl _ (all_lt_In _ _ _ L2 Hd)).
Qed.

Lemma dom_zero_poly u : dom_by zero_poly u -> sc u = O.
Proof.
  intros [m [[<-|[]] H]]. apply mleb_spec in H. destruct H as [_ H]. cbn [sc] in H.
  unfold sc_le in H. destruct (sc u); simpl in H; try lia. reflexivity.
Qed.

Lemma good_sub p p' :
  santi p -> Forall mwf p -> Forall mwf p' ->
  Forall (fun m => sc m <> O) p -> Forall (fun m => sc m <> O) p' ->
  (forall x, In x p -> sc x <> O -> dom_by p' x) ->
  (forall x, In x p' -> sc x <> O -> dom_by p x) ->
  forall x, In x p -> In x p'.
Proof.
  intros S W W' Z Z' H1 H2 x Hx. rewrite Forall_forall in W, W', Z, Z'.
  destruct (H1 x Hx (Z x Hx)) as [y [Hy Hxy]].
  destruct (H2 y Hy (Z' y Hy)) as [z [Hz Hyz]].
  assert (x = z) as <- by (apply S; [exact Hx | exact Hz | eapply mleb_trans; eassumption]).
  assert (x = y) as <- by (apply mleb_antisym; [apply W, Hx | apply W', Hy | exact Hxy | exact Hyz]).
  exact Hy.
Qed.

Theorem good_eq p p' : good p -> good p' ->
  (forall x, In x p -> sc x <> O -> dom_by p' x) ->
  (forall x, In x p' -> sc x <> O -> dom_by p x) -> p = p'.
Proof.
  intros (S & N & A & W) (S' & N' & A' & W') H1 H2.
  destruct N as [->|[Ne Z]]; destruct N' as [->|[Ne' Z']].
  - reflexivity.
  - exfalso. destruct p' as [|x t]; [congruence|].
    inversion Z' as [|? ? Hx _]; subst. apply Hx. apply dom_zero_poly. apply H2; [left; reflexivity | exact Hx].
  - exfalso. destruct p as [|x t]; [congruence|].
    inversion Z as [|? ? Hx _]; subst. apply Hx. apply dom_zero_poly. apply H1; [left; reflexivity | exact Hx].
  - apply ssorted_ext; try assumption. intros x. split.
    + apply (good_sub p p'); assumption.
    + apply (good_sub p' p); assumption.
Qed.

(* the cells of the identity matrix *)
Lemma good_zero_poly : good zero_poly.
Proof.
  split; [simpl; tauto|]. split; [left; reflexivity|]. split; [apply santi_single|].
  constructor; [exact Logic.I | constructor].
Qed.

Lemma good_unit_poly : good unit_poly.
Proof.
  split; [simpl; tauto|]. split.
  - right. split; [discriminate | constructor; [discriminate | constructor]].
  - split; [apply santi_single|]. constructor; [exact Logic.I | constructor].
Qed.

(* non-vacuity: an antichain that a sum refines; domination pruning at work *)
Example good_example :
  let p := [Mono W [(0, 0)]; Mono M [(1, 0)]] in
  let q := [Mono P [(0, 0); (1, 1)]; Mono W [(1, 0)]; Mono M [(0, 0); (2, 2)]] in
  good p /\ padd p q = [Mono W [(0, 0)]; Mono P [(0, 0); (1, 1)]; Mono W [(1, 0)]] /\ good (padd p q).
Proof.
  assert (G : good [Mono W [(0, 0)]; Mono M [(1, 0)]]).
  { split; [simpl; repeat split|]. split.
    - right. split; [discriminate | repeat constructor; discriminate].
    - split.
      + intros a b [<-|[<-|[]]] [<-|[<-|[]]] H; try reflexivity; vm_compute in H; discriminate.
      + repeat constructor. }
  cbv zeta. split; [exact G|]. split; [vm_compute; reflexivity|].
  apply padd_good; [exact G | discriminate | repeat constructor; simpl; lia].
Qed.

Print Assumptions minclusion_mleb.
Print Assumptions mleb_antisym.
Print Assumptions pincl_props.
Print Assumptions add_loop_props.
Print Assumptions mono_copy_id.
Print Assumptions sort_fuel_In.
Print Assumptions padd_mem.
Print Assumptions padd_dom_mono.
Print Assumptions padd_good.
Print Assumptions good_eq.
Print Assumptions good_zero_poly.
Print Assumptions good_unit_poly.
Print Assumptions good_example.
