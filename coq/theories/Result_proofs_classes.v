From Coq Require Import String Ascii List Bool ZArith Arith Lia.
From PMGen Require Import ResultGen.
From PM Require Import Semiring Poly Rel Json Result Result_proofs_base.
From PM Require Bound Choice.
Import ListNotations.
Open Scope string_scope.

Definition program_json (p : Program) : json :=
  jobj [("program_path", ostr (pg_path p)); ("n_lines", jnum (pg_n_lines p)); ("n_func", jnum (pg_n_func p));
        ("n_loops", jnum (pg_n_loops p)); ("n_func_vars", jnum (pg_n_func_vars p));
        ("n_loop_vars", jnum (pg_n_loop_vars p))].

Lemma to_dict_program n p : to_dict_n (S n) (AProgram p) = Ok (program_json p).
Proof. destruct p. reflexivity. Qed.

Lemma from_dict_program n p : from_dict_n not_none (S n) "Program" (program_json p) = Ok (AProgram p).
Proof. destruct p as [[pa|] nl nf nlo nfv nlv]; reflexivity. Qed.

Definition opt_entry (k : string) (o : option json) : list (string * json) :=
  match o with Some j => [(k, j)] | None => [] end.

Definition choices_entry (c : option Choice.choices) : option json :=
  match c with
  | Some c => if Choice.infinite c then None else Some (valid_json (Choice.valid c))
  | None => None
  end.

Definition vresult_json (v : VResult) : json :=
  jobj ([("name", ostr (vr_name v)); ("is_m", jbool (vr_m v)); ("is_w", jbool (vr_w v)); ("is_p", jbool (vr_p v))]
        ++ opt_entry "choices" (choices_entry (vr_choices v))
        ++ opt_entry "bound" (option_map (fun b => jstr (L2S (Bound.bound_str b))) (vr_bound v))).

Lemma to_dict_vresult n v : to_dict_n (S n) (AVResult v) = Ok (vresult_json v).
Proof.
  destruct v as [na m w p [b|] [[[|v0 vs] [|ip|im]]|]]; reflexivity.
Qed.

Definition canon_vr (v : VResult) : VResult :=
  mkVR (vr_name v) (vr_m v) (vr_w v) (vr_p v) (option_map canon_mb (vr_bound v)) (vr_choices v).

Definition wf_flags (m w p : bool) : Prop := (m = true -> w = true) /\ (w = true -> p = true).

Definition wf_vr (v : VResult) : Prop :=
  wf_flags (vr_m v) (vr_w v) (vr_p v) /\
  (forall c, vr_choices v = Some c -> Choice.valid c <> [] /\ wf_choices c) /\
  (forall b, vr_bound v = Some b -> wf_mb b).

Ltac crunch := cbv -[j_valid j_mwp choices_init canon_mb].

Lemma from_dict_vresult n v : wf_vr v ->
  from_dict_n not_none (S n) "VResult" (vresult_json v) = Ok (AVResult (canon_vr v)).
Proof.
  destruct v as [na m w p b c]. unfold wf_vr, canon_vr. cbn [vr_m vr_w vr_p vr_choices vr_bound vr_name].
  intros (Hf & Hc & Hb).
  unfold vresult_json. cbn [vr_m vr_w vr_p vr_choices vr_bound vr_name].
  destruct c as [c|].
  - destruct (Hc c eq_refl) as [Hne Hwf].
    unfold choices_entry. rewrite wf_nonempty_not_infinite by exact Hne.
    pose proof (j_valid_json (Choice.valid c)) as HV.
    pose proof (choices_init_wf c Hwf Hne) as HI.
    destruct (Choice.valid c) as [|v0 vs] eqn:E; [congruence|].
    unfold valid_json in *. cbn [map] in *.
    set (x := jarr (map (fun e : Choice.entry => jarr (map jnat e)) v0)) in *.
    set (xs := map (fun b : Choice.box => jarr (map (fun e : Choice.entry => jarr (map jnat e)) b)) vs) in *.
    clearbody x xs. clear Hc E Hwf. subst c.
    destruct b as [b|].
    + pose proof (j_mwp_bound_str b (Hb b eq_refl)) as HB.
      pose proof (bound_str_nonempty b) as HN.
      cbn [option_map opt_entry app].
      destruct (L2S (Bound.bound_str b)) as [|a s]; [congruence|].
      destruct na as [na|]; destruct m, w, p; try (exfalso; destruct Hf; intuition congruence).
      all: crunch; rewrite HV; crunch; rewrite HB; reflexivity.
    + cbn [option_map opt_entry app].
      destruct na as [na|]; destruct m, w, p; try (exfalso; destruct Hf; intuition congruence).
      all: crunch; rewrite HV; reflexivity.
  - unfold choices_entry. cbn [opt_entry app].
    destruct b as [b|].
    + pose proof (j_mwp_bound_str b (Hb b eq_refl)) as HB.
      pose proof (bound_str_nonempty b) as HN.
      cbn [option_map opt_entry app].
      destruct (L2S (Bound.bound_str b)) as [|a s]; [congruence|].
      destruct na as [na|]; destruct m, w, p; try (exfalso; destruct Hf; intuition congruence).
      all: crunch; rewrite HB; reflexivity.
    + destruct na as [na|]; destruct m, w, p; try (exfalso; destruct Hf; intuition congruence).
      all: reflexivity.
Qed.

Definition loopresult_json (l : LoopResult) : json :=
  jobj ([("loop_code", ostr (lr_code l)); ("start_time", jnum (lr_start l)); ("end_time", jnum (lr_end l))]
        ++ match lr_variables l with
           | [] => []
           | vs => [("variables", jobj (map (fun kv => (fst kv, vresult_json (snd kv))) vs))]
           end).

Lemma map_res_children {A} (rec : anyobj -> res json) (f : A -> anyobj) (g : A -> json) (l : list (string * A)) :
  (forall x, In x l -> rec (f (snd x)) = Ok (g (snd x))) ->
  map_res (fun kv : string * anyobj => j <- rec (snd kv) ;; Ok (fst kv, j)) (map (fun kv => (fst kv, f (snd kv))) l)
  = Ok (map (fun kv => (fst kv, g (snd kv))) l).
Proof.
  intros H. apply map_res_map. intros x Hx. cbn [fst snd]. rewrite H by exact Hx. reflexivity.
Qed.

Lemma to_dict_loopresult n l : NoDup (map fst (lr_variables l)) ->
  to_dict_n (S (S n)) (ALoopResult l) = Ok (loopresult_json l).
Proof.
  destruct l as [co st en vs]. cbn [lr_variables]. intros Hn.
  destruct vs as [|kv0 vs]; [reflexivity|].
  change (to_dict_n (S (S n))) with (to_dict_step (to_dict_n (S n))).
  unfold to_dict_step, ser_to_dict.
  cbn -[to_dict_n dict_of dmerge].
  rewrite to_dict_vresult. cbn [bind].
  rewrite (map_res_children (to_dict_n (S n)) AVResult vresult_json vs) by (intros; apply to_dict_vresult).
  cbn [bind concat app].
  rewrite (dict_of_nodup ((fst kv0, vresult_json (snd kv0)) :: _)).
  - reflexivity.
  - cbn [map fst]. rewrite map_map. exact Hn.
Qed.

(* ---- generic facts about the children of a dict / list attribute ---- *)

Lemma children_values {A} (from : string -> json -> res anyobj) cls (G : string * A -> json) (F : string * A -> anyobj)
      (l : list (string * A)) :
  (forall x, In x l -> from cls (G x) = Ok (F x)) ->
  map_res (fun x : string * json => from cls (snd x)) (map (fun kv => (fst kv, G kv)) l)
  = Ok (map F l).
Proof. intros H. apply map_res_map. intros x Hx. cbn [snd]. now apply H. Qed.

Lemma children_keys {A} (F : string * A -> anyobj) (l : list (string * A)) :
  (forall x, In x l -> getattr (F x) "name" = Ok (VJ (jstr (fst x)))) ->
  map_res (fun ob : anyobj => k <- getattr ob "name" ;; k0 <- as_json k ;; j_str k0)
          (map F l) = Ok (map fst l).
Proof. intros H. apply map_res_map. intros x Hx. rewrite H by exact Hx. reflexivity. Qed.

Lemma combine_keys {A B} (F : string * A -> B) (l : list (string * A)) :
  combine (map fst l) (map F l) = map (fun kv => (fst kv, F kv)) l.
Proof. induction l as [|[k a] l IH]; [reflexivity|]. cbn. now rewrite IH. Qed.

Lemma all_of_d_children {A B} (is_x : anyobj -> option B) (inj : B -> anyobj) (h : string * A -> B)
      (l : list (string * A)) :
  (forall b, is_x (inj b) = Some b) ->
  all_of_d is_x (map (fun kv => (fst kv, inj (h kv))) l) = Ok (map (fun kv => (fst kv, h kv)) l).
Proof.
  intros H. induction l as [|[k a] l IH]; [reflexivity|].
  cbn [map all_of_d fst snd]. rewrite H, IH. reflexivity.
Qed.

Lemma all_of_children {A B} (is_x : anyobj -> option B) (inj : B -> anyobj) (h : A -> B) (l : list A) :
  (forall b, is_x (inj b) = Some b) ->
  all_of is_x (map (fun a => inj (h a)) l) = Ok (map h l).
Proof.
  intros H. induction l as [|a l IH]; [reflexivity|].
  cbn [map all_of]. rewrite H, IH. reflexivity.
Qed.

Lemma map_nonempty {A B} (f : A -> B) a l : exists b l', map f (a :: l) = b :: l'.
Proof. eexists. eexists. reflexivity. Qed.

Definition canon_lr (l : LoopResult) : LoopResult :=
  mkLR (lr_code l) (lr_start l) (lr_end l) (map (fun kv => (fst kv, canon_vr (snd kv))) (lr_variables l)).

Definition wf_lr (l : LoopResult) : Prop :=
  NoDup (map fst (lr_variables l)) /\
  Forall (fun kv => vr_name (snd kv) = Some (fst kv) /\ wf_vr (snd kv)) (lr_variables l).

Lemma from_dict_loopresult n l : wf_lr l ->
  from_dict_n not_none (S (S n)) "LoopResult" (loopresult_json l) = Ok (ALoopResult (canon_lr l)).
Proof.
  destruct l as [co st en vs]. unfold wf_lr, canon_lr, loopresult_json.
  cbn [lr_variables lr_code lr_start lr_end]. intros [Hn Hw].
  change (from_dict_n not_none (S (S n))) with (from_dict_step (from_dict_n not_none (S n)) not_none).
  destruct vs as [|kv0 vs].
  - destruct co; reflexivity.
  - destruct (map_nonempty (fun kv : string * VResult => (fst kv, vresult_json (snd kv))) kv0 vs) as (d0 & D & HD).
    set (l := kv0 :: vs) in *. rewrite HD.
    unfold from_dict_step, ser_load.
    assert (Hk : forall x : string * VResult, In x l ->
                 getattr (AVResult (canon_vr (snd x))) "name" = Ok (VJ (jstr (fst x)))).
    { intros x Hx. rewrite Forall_forall in Hw. destruct (Hw x Hx) as [Hname _].
      unfold getattr. cbn. now rewrite Hname. }
    assert (Hv : forall x : string * VResult, In x l ->
                 from_dict_n not_none (S n) "VResult" (vresult_json (snd x)) = Ok (AVResult (canon_vr (snd x)))).
    { intros x Hx. rewrite Forall_forall in Hw. destruct (Hw x Hx) as [_ Hwf]. now apply from_dict_vresult. }
    assert (Hnd : NoDup (map fst (map (fun kv : string * VResult => (fst kv, AVResult (canon_vr (snd kv)))) l)))
      by (rewrite map_map; exact Hn).
    destruct co; cbn -[from_dict_n dict_of map_res combine all_of_d]; rewrite <- HD;
      rewrite (children_values _ "VResult" (fun kv => vresult_json (snd kv)) (fun kv => AVResult (canon_vr (snd kv))) l Hv);
      cbn [bind];
      rewrite (children_keys (fun kv => AVResult (canon_vr (snd kv))) l Hk); cbn [bind];
      rewrite combine_keys, (dict_of_nodup _ Hnd),
        (all_of_d_children is_vresult AVResult (fun kv => canon_vr (snd kv)) l) by reflexivity;
      reflexivity.
Qed.

(* ------------------------------------------------------------------ FuncLoops *)

Definition funcloops_json (f : FuncLoops) : json :=
  jobj ([("name", ostr (fl_name f)); ("start_time", jnum (fl_start f)); ("end_time", jnum (fl_end f))]
        ++ match fl_loops f with
           | [] => []
           | ls => [("loops", jarr (map loopresult_json ls))]
           end).

Definition canon_fl (f : FuncLoops) : FuncLoops :=
  mkFL (fl_name f) (fl_start f) (fl_end f) (map canon_lr (fl_loops f)).

Definition wf_fl (f : FuncLoops) : Prop := Forall wf_lr (fl_loops f).

Lemma to_dict_funcloops n f : wf_fl f ->
  to_dict_n (S (S (S n))) (AFuncLoops f) = Ok (funcloops_json f).
Proof.
  destruct f as [na st en ls]. unfold wf_fl. cbn [fl_loops]. intros Hw.
  destruct ls as [|l0 ls]; [reflexivity|].
  change (to_dict_n (S (S (S n)))) with (to_dict_step (to_dict_n (S (S n)))).
  unfold to_dict_step, ser_to_dict.
  cbn -[to_dict_n dict_of dmerge].
  inversion Hw as [|? ? H0 Hs]; subst.
  rewrite to_dict_loopresult by apply H0. cbn [bind].
  rewrite (map_res_map _ ALoopResult loopresult_json ls).
  - reflexivity.
  - intros x Hx. rewrite Forall_forall in Hs. apply to_dict_loopresult, Hs, Hx.
Qed.

Lemma from_dict_funcloops n f : wf_fl f ->
  from_dict_n not_none (S (S (S n))) "FuncLoops" (funcloops_json f) = Ok (AFuncLoops (canon_fl f)).
Proof.
  destruct f as [na st en ls]. unfold wf_fl, canon_fl, funcloops_json.
  cbn [fl_loops fl_name fl_start fl_end]. intros Hw.
  change (from_dict_n not_none (S (S (S n)))) with (from_dict_step (from_dict_n not_none (S (S n))) not_none).
  destruct ls as [|l0 ls].
  - destruct na; reflexivity.
  - destruct (map_nonempty loopresult_json l0 ls) as (d0 & D & HD).
    set (l := l0 :: ls) in *. rewrite HD.
    unfold from_dict_step, ser_load.
    assert (Hv : forall x, In x l ->
                 from_dict_n not_none (S (S n)) "LoopResult" (loopresult_json x) = Ok (ALoopResult (canon_lr x))).
    { intros x Hx. rewrite Forall_forall in Hw. now apply from_dict_loopresult, Hw. }
    destruct na; cbn -[from_dict_n map_res all_of]; rewrite <- HD;
      rewrite (map_res_map _ loopresult_json (fun x => ALoopResult (canon_lr x)) l Hv); cbn [bind];
      rewrite (all_of_children is_loopresult ALoopResult canon_lr l) by reflexivity;
      reflexivity.
Qed.

(* ------------------------------------------------------------------ FuncResult *)

Definition funcresult_json (f : FuncResult) : json :=
  jobj ([("name", ostr (fr_name f)); ("infinite", jbool (fr_infinite f));
         ("start_time", jnum (fr_start f)); ("end_time", jnum (fr_end f));
         ("variables", jstrs (fr_variables f)); ("inf_flows", ostr (fr_inf_flows f));
         ("index", jnum (fr_index f)); ("func_code", ostr (fr_func_code f))]
        ++ opt_entry "relation" (option_map rel_json (fr_relation f))
        ++ opt_entry "choices" (choices_entry (fr_choices f))
        ++ opt_entry "bound" (option_map bound_json (fr_bound f))).

Lemma to_dict_funcresult n f : to_dict_n (S n) (AFuncResult f) = Ok (funcresult_json f).
Proof.
  destruct f as [na inf st en vs fl ix co [r|] [[[|v0 vl] [|ip|im]]|] [b|]]; reflexivity.
Qed.

Definition canon_fr (f : FuncResult) : FuncResult :=
  mkFR (fr_name f) (fr_infinite f) (fr_start f) (fr_end f) (fr_variables f) (fr_inf_flows f) (fr_index f)
       (fr_func_code f) (fr_relation f) (fr_choices f) (option_map canon_bd (fr_bound f)).

Definition wf_fr (f : FuncResult) : Prop :=
  (forall r, fr_relation f = Some r -> wf_rel (fr_variables f) r) /\
  (forall c, fr_choices f = Some c -> wf_choices c) /\
  (forall b, fr_bound f = Some b -> wf_bd b).

Lemma wf_choices_not_infinite c : wf_choices c -> Choice.infinite c = false.
Proof.
  unfold wf_choices, Choice.infinite. destruct (Choice.valid c); [|reflexivity].
  intros ->. reflexivity.
Qed.

Ltac crunch_fr := cbn -[as_strs decode mk_rel j_valid choices_init j_bound canon_bd].

Lemma from_dict_funcresult n f : wf_fr f ->
  from_dict_n not_none (S n) "FuncResult" (funcresult_json f) = Ok (AFuncResult (canon_fr f)).
Proof.
  destruct f as [na inf st en vs fl ix co r c b]. unfold wf_fr, canon_fr, funcresult_json.
  cbn [fr_name fr_infinite fr_start fr_end fr_variables fr_inf_flows fr_index fr_func_code fr_relation
       fr_choices fr_bound].
  intros (Hr & Hc & Hb).
  pose proof (as_strs_jstrs vs) as HV. unfold jstrs in *.
  set (JV := map jstr vs) in *. clearbody JV.
  (* relation *)
  assert (HR : exists JR, option_map rel_json r = option_map (fun _ => jobj [("matrix", jarr JR)]) r /\
                          forall x, r = Some x -> decode (jarr JR) = Ok (rmat x) /\ mk_rel vs (rmat x) = x).
  { destruct r as [x|].
    - eexists. split; [reflexivity|]. intros ? [= <-]. destruct (Hr x eq_refl) as (H1 & H2 & H3 & H4).
      split; [apply (decode_encode _ H4) | apply mk_rel_wf; repeat split; assumption].
    - exists []. split; [reflexivity | discriminate]. }
  destruct HR as (JR & -> & HR).
  (* choices *)
  assert (HC : exists JC, choices_entry c = option_map (fun _ => jarr JC) c /\
                          forall x, c = Some x -> j_valid (jarr JC) = Ok (Choice.valid x) /\
                                                  choices_init (Choice.valid x) = x).
  { destruct c as [x|].
    - eexists. unfold choices_entry. rewrite (wf_choices_not_infinite x (Hc x eq_refl)).
      split; [reflexivity|]. intros ? [= <-].
      split; [apply j_valid_json | apply choices_init_any, Hc; reflexivity].
    - exists []. split; [reflexivity | discriminate]. }
  destruct HC as (JC & -> & HC).
  (* bound *)
  assert (HB : exists JB, option_map bound_json b = option_map (fun _ => jobj JB) b /\
                          forall x, b = Some x -> j_bound (jobj JB) = Ok (canon_bd x)).
  { destruct b as [x|].
    - eexists. split; [reflexivity|]. intros ? [= <-]. apply j_bound_json, Hb. reflexivity.
    - exists []. split; [reflexivity | discriminate]. }
  destruct HB as (JB & -> & HB).
  clear Hr Hc Hb.
  destruct r as [r|]; [destruct (HR r eq_refl) as [HR1 HR2]|]; clear HR;
  (destruct c as [c|]; [destruct (HC c eq_refl) as [HC1 HC2]|]; clear HC);
  (destruct b as [b|]; [pose proof (HB b eq_refl) as HB1|]; clear HB);
  cbn [option_map opt_entry app];
  destruct na, fl, co;
  crunch_fr; change (as_strs (VJ (jarr []))) with (@Ok (list string) []); crunch_fr;
  rewrite HV; crunch_fr;
  repeat first [ rewrite HV; crunch_fr | rewrite as_strs_jstrs; crunch_fr
               | rewrite HR1; crunch_fr; rewrite HR2; crunch_fr
               | rewrite HC1; crunch_fr; rewrite HC2; crunch_fr
               | rewrite HB1; crunch_fr ];
  reflexivity.
Qed.

(* ------------------------------------------------------------------ Result *)

Definition result_json (r : Result) : json :=
  jobj ([("start_time", jnum (rs_start r)); ("end_time", jnum (rs_end r))]
        ++ opt_entry "program" (option_map program_json (rs_program r))
        ++ match rs_loops r with
           | [] => []
           | ls => [("loops", jobj (map (fun kv => (fst kv, funcloops_json (snd kv))) ls))]
           end
        ++ match rs_relations r with
           | [] => []
           | fs => [("relations", jobj (map (fun kv => (fst kv, funcresult_json (snd kv))) fs))]
           end).

Definition canon_rs (r : Result) : Result :=
  mkRS (rs_start r) (rs_end r) (rs_program r)
       (map (fun kv => (fst kv, canon_fr (snd kv))) (rs_relations r))
       (map (fun kv => (fst kv, canon_fl (snd kv))) (rs_loops r)).

Definition wf_rs (r : Result) : Prop :=
  rs_program r <> None /\
  NoDup (map fst (rs_relations r)) /\
  Forall (fun kv => fr_name (snd kv) = Some (fst kv) /\ wf_fr (snd kv)) (rs_relations r) /\
  NoDup (map fst (rs_loops r)) /\
  Forall (fun kv => fl_name (snd kv) = Some (fst kv) /\ wf_fl (snd kv)) (rs_loops r).

Lemma to_dict_result n r : wf_rs r ->
  to_dict_n (S (S (S (S n)))) (AResult r) = Ok (result_json r).
Proof.
  destruct r as [st en pg fs ls]. unfold wf_rs, result_json.
  cbn [rs_program rs_relations rs_loops rs_start rs_end]. intros (Hp & Hnf & Hwf & Hnl & Hwl).
  destruct pg as [p|]; [clear Hp | congruence].
  change (to_dict_n (S (S (S (S n))))) with (to_dict_step (to_dict_n (S (S (S n))))).
  unfold to_dict_step, ser_to_dict.
  assert (HF : forall x : string * FuncResult, In x fs ->
               to_dict_n (S (S (S n))) (AFuncResult (snd x)) = Ok (funcresult_json (snd x)))
    by (intros; apply to_dict_funcresult).
  assert (HL : forall x : string * FuncLoops, In x ls ->
               to_dict_n (S (S (S n))) (AFuncLoops (snd x)) = Ok (funcloops_json (snd x))).
  { intros x Hx. rewrite Forall_forall in Hwl. apply to_dict_funcloops, Hwl, Hx. }
  destruct fs as [|f0 fs]; destruct ls as [|l0 ls];
    cbn -[to_dict_n dict_of dmerge]; rewrite to_dict_program; cbn [bind].
  - reflexivity.
  - rewrite (HL l0) by (now left). cbn [bind].
    rewrite (map_res_children (to_dict_n (S (S (S n)))) AFuncLoops funcloops_json ls)
      by (intros; apply HL; now right).
    cbn [bind concat app].
    rewrite (dict_of_nodup ((fst l0, funcloops_json (snd l0)) :: _)); [reflexivity|].
    cbn [map fst]. rewrite map_map. exact Hnl.
  - rewrite (HF f0) by (now left). cbn [bind].
    rewrite (map_res_children (to_dict_n (S (S (S n)))) AFuncResult funcresult_json fs)
      by (intros; apply HF; now right).
    cbn [bind concat app].
    rewrite (dict_of_nodup ((fst f0, funcresult_json (snd f0)) :: _)); [reflexivity|].
    cbn [map fst]. rewrite map_map. exact Hnf.
  - rewrite (HL l0) by (now left). cbn [bind].
    rewrite (map_res_children (to_dict_n (S (S (S n)))) AFuncLoops funcloops_json ls)
      by (intros; apply HL; now right).
    cbn [bind].
    rewrite (HF f0) by (now left). cbn [bind].
    rewrite (map_res_children (to_dict_n (S (S (S n)))) AFuncResult funcresult_json fs)
      by (intros; apply HF; now right).
    cbn [bind concat app].
    rewrite (dict_of_nodup ((fst l0, funcloops_json (snd l0)) :: _)),
            (dict_of_nodup ((fst f0, funcresult_json (snd f0)) :: _)); [reflexivity| |].
    + cbn [map fst]. rewrite map_map. exact Hnf.
    + cbn [map fst]. rewrite map_map. exact Hnl.
Qed.

Lemma program_json_nonempty p : exists d D, program_json p = jobj (d :: D).
Proof. eexists. eexists. reflexivity. Qed.

Ltac load_children cls G F Hv Hk Hnd isx inj canon l :=
  rewrite (children_values _ cls G F l Hv); cbn [bind];
  rewrite (children_keys F l Hk); cbn [bind];
  rewrite combine_keys, (dict_of_nodup _ Hnd);
  cbn -[from_dict_n];
  rewrite (all_of_d_children isx inj canon l) by reflexivity;
  cbn -[from_dict_n].

Lemma from_dict_result n r : wf_rs r ->
  from_dict_n not_none (S (S (S (S n)))) "Result" (result_json r) = Ok (AResult (canon_rs r)).
Proof.
  destruct r as [st en pg fs ls]. unfold wf_rs, result_json, canon_rs.
  cbn [rs_program rs_relations rs_loops rs_start rs_end]. intros (Hp & Hnf & Hwf & Hnl & Hwl).
  destruct pg as [p|]; [clear Hp | congruence].
  change (from_dict_n not_none (S (S (S (S n))))) with (from_dict_step (from_dict_n not_none (S (S (S n)))) not_none).
  pose proof (from_dict_program (S (S n)) p) as HP.
  destruct (program_json_nonempty p) as (dp & DP & EP).
  (* children facts *)
  assert (HkF : forall x : string * FuncResult, In x fs ->
                getattr (AFuncResult (canon_fr (snd x))) "name" = Ok (VJ (jstr (fst x)))).
  { intros x Hx. rewrite Forall_forall in Hwf. destruct (Hwf x Hx) as [Hname _].
    unfold getattr. cbn. now rewrite Hname. }
  assert (HvF : forall x : string * FuncResult, In x fs ->
                from_dict_n not_none (S (S (S n))) "FuncResult" (funcresult_json (snd x))
                = Ok (AFuncResult (canon_fr (snd x)))).
  { intros x Hx. rewrite Forall_forall in Hwf. destruct (Hwf x Hx) as [_ Hw]. now apply from_dict_funcresult. }
  assert (HnF : NoDup (map fst (map (fun kv : string * FuncResult => (fst kv, AFuncResult (canon_fr (snd kv)))) fs)))
    by (rewrite map_map; exact Hnf).
  assert (HkL : forall x : string * FuncLoops, In x ls ->
                getattr (AFuncLoops (canon_fl (snd x))) "name" = Ok (VJ (jstr (fst x)))).
  { intros x Hx. rewrite Forall_forall in Hwl. destruct (Hwl x Hx) as [Hname _].
    unfold getattr. cbn. now rewrite Hname. }
  assert (HvL : forall x : string * FuncLoops, In x ls ->
                from_dict_n not_none (S (S (S n))) "FuncLoops" (funcloops_json (snd x))
                = Ok (AFuncLoops (canon_fl (snd x)))).
  { intros x Hx. rewrite Forall_forall in Hwl. destruct (Hwl x Hx) as [_ Hw]. now apply from_dict_funcloops. }
  assert (HnL : NoDup (map fst (map (fun kv : string * FuncLoops => (fst kv, AFuncLoops (canon_fl (snd kv)))) ls)))
    by (rewrite map_map; exact Hnl).
  clear Hnf Hwf Hnl Hwl.
  cbn [option_map opt_entry app].
  unfold from_dict_step, ser_load.
  destruct fs as [|f0 fs0] eqn:EF; destruct ls as [|l0 ls0] eqn:EL.
  - rewrite EP. cbn -[from_dict_n dict_of map_res combine all_of_d]. rewrite <- EP, HP. reflexivity.
  - rewrite <- EL in *.
    destruct (map_nonempty (fun kv : string * FuncLoops => (fst kv, funcloops_json (snd kv))) l0 ls0) as (d0 & D & HD).
    rewrite <- EL in HD. rewrite EL at 1. cbn [app]. rewrite HD, EP.
    cbn -[from_dict_n dict_of map_res combine all_of_d]. rewrite <- EP, HP. cbn [bind]. rewrite <- HD.
    load_children "FuncLoops" (fun kv : string * FuncLoops => funcloops_json (snd kv))
                  (fun kv : string * FuncLoops => AFuncLoops (canon_fl (snd kv))) HvL HkL HnL
                  is_funcloops AFuncLoops (fun kv : string * FuncLoops => canon_fl (snd kv)) ls.
    reflexivity.
  - rewrite <- EF in *.
    destruct (map_nonempty (fun kv : string * FuncResult => (fst kv, funcresult_json (snd kv))) f0 fs0) as (d0 & D & HD).
    rewrite <- EF in HD. rewrite EF at 1. cbn [app]. rewrite HD, EP.
    cbn -[from_dict_n dict_of map_res combine all_of_d]. rewrite <- EP, HP. cbn [bind]. rewrite <- HD.
    load_children "FuncResult" (fun kv : string * FuncResult => funcresult_json (snd kv))
                  (fun kv : string * FuncResult => AFuncResult (canon_fr (snd kv))) HvF HkF HnF
                  is_funcresult AFuncResult (fun kv : string * FuncResult => canon_fr (snd kv)) fs.
    reflexivity.
  - rewrite <- EF, <- EL in *.
    destruct (map_nonempty (fun kv : string * FuncResult => (fst kv, funcresult_json (snd kv))) f0 fs0) as (d0 & D & HD).
    destruct (map_nonempty (fun kv : string * FuncLoops => (fst kv, funcloops_json (snd kv))) l0 ls0) as (e0 & E & HE).
    rewrite <- EF in HD. rewrite <- EL in HE. rewrite EF at 1. rewrite EL at 1. cbn [app]. rewrite HD, HE, EP.
    cbn -[from_dict_n dict_of map_res combine all_of_d]. rewrite <- EP, HP. cbn [bind]. rewrite <- HE, <- HD.
    load_children "FuncLoops" (fun kv : string * FuncLoops => funcloops_json (snd kv))
                  (fun kv : string * FuncLoops => AFuncLoops (canon_fl (snd kv))) HvL HkL HnL
                  is_funcloops AFuncLoops (fun kv : string * FuncLoops => canon_fl (snd kv)) ls.
    load_children "FuncResult" (fun kv : string * FuncResult => funcresult_json (snd kv))
                  (fun kv : string * FuncResult => AFuncResult (canon_fr (snd kv))) HvF HkF HnF
                  is_funcresult AFuncResult (fun kv : string * FuncResult => canon_fr (snd kv)) fs.
    reflexivity.
Qed.
