(* Aliasing discipline of the reference-level model RefModel.v (property C13).

   The whole file is one invariant, parameterised by a set [A] of stamps that is closed under
   "allocated from now on" ([up]):
     - [wr h h']   : the heap only grew and every stamp OUTSIDE A holds what it held  (frame);
     - [Forall A r]: every monomial of a result is in A                                (provenance).
   add preserves it when its ARGUMENT is in A (its own copies are fresh), times unconditionally,
   hence matrix_prod unconditionally, matrix_sum when its right operand is in A, hence every
   iteration of Relation.fixpoint, hence the corrections that follow.  Instantiated with
   A = "allocated after the call started" this is C13_fresh_mutation / C13_constants_unchanged. *)
From Coq Require Import List Bool Arith Lia.
From PM Require Import Semiring Poly Rel RefModel.
From PMGen Require Import RulesGen.
Import ListNotations.

(* ---------------- heap basics ---------------- *)

Lemma hget_app_old h m s : s < length h -> hget (h ++ [m]) s = hget h s.
Proof. intro H. unfold hget. now rewrite app_nth1. Qed.

Lemma hget_app_beyond h m s : length h < s -> hget (h ++ [m]) s = hget h s.
Proof.
  intro H. unfold hget. rewrite !nth_overflow; auto; try lia.
  rewrite app_length. simpl. lia.
Qed.

Lemma list_update_length' {X} (l : list X) i f : length (list_update l i f) = length l.
Proof. revert i. induction l; intros [|i]; simpl; auto. Qed.

Lemma list_update_nth_other {X} (l : list X) f d : forall i k, k <> i -> nth k (list_update l i f) d = nth k l d.
Proof.
  induction l; intros [|i] [|k] H; simpl; auto; try congruence.
  all: try (apply IHl; congruence).
Qed.

Lemma hset_length h s v : length (hset_sc h s v) = length h.
Proof. apply list_update_length'. Qed.

Lemma hget_set_other h s v s' : s' <> s -> hget (hset_sc h s v) s' = hget h s'.
Proof. intro H. unfold hget, hset_sc. now apply list_update_nth_other. Qed.

(* ---------------- list facts ---------------- *)

Lemma Forall_snoc' {X} (Q : X -> Prop) l x : Forall Q l -> Q x -> Forall Q (l ++ [x]).
Proof. intros. apply Forall_app. split; auto. Qed.

Lemma Forall_list_insert {X} (Q : X -> Prop) l : forall i x, Forall Q l -> Q x -> Forall Q (list_insert l i x).
Proof.
  induction l; intros [|i] x Hl Hx; simpl; auto.
  inversion Hl; subst. constructor; auto.
Qed.

Lemma Forall_list_update {X} (Q : X -> Prop) f l : forall i,
  (forall a, Q a -> Q (f a)) -> Forall Q l -> Forall Q (list_update l i f).
Proof.
  induction l; intros [|i] Hf Hl; simpl; auto; inversion Hl; subst; constructor; auto.
Qed.

Lemma Forall_firstn {X} (Q : X -> Prop) k (l : list X) : Forall Q l -> Forall Q (firstn k l).
Proof. revert l. induction k; intros [|a l] H; simpl; auto. inversion H; subst. constructor; auto. Qed.

Lemma Forall_skipn {X} (Q : X -> Prop) k (l : list X) : Forall Q l -> Forall Q (skipn k l).
Proof. revert l. induction k; intros [|a l] H; simpl; auto. inversion H; subst. auto. Qed.

Lemma Forall_filter {X} (Q : X -> Prop) f (l : list X) : Forall Q l -> Forall Q (filter f l).
Proof. induction 1; simpl; auto. destruct (f x); auto. Qed.

Lemma Forall_nth_error {X} (Q : X -> Prop) (l : list X) i x : Forall Q l -> nth_error l i = Some x -> Q x.
Proof. intros H E. apply nth_error_In in E. rewrite Forall_forall in H. auto. Qed.

Lemma Forall_nth_default {X} (Q : X -> Prop) (l : list X) i d : Forall Q l -> Q d -> Q (nth i l d).
Proof.
  intros H Hd. destruct (nth_in_or_default i l d) as [Hin | ->]; auto.
  rewrite Forall_forall in H. auto.
Qed.

Lemma Forall_combine_snd {X Y} (Q : Y -> Prop) (l1 : list X) (l2 : list Y) :
  Forall Q l2 -> Forall (fun p => Q (snd p)) (combine l1 l2).
Proof.
  revert l1. induction l2; intros [|x l1] H; simpl; auto.
  inversion H; subst. constructor; auto.
Qed.

Lemma fold_left_inv {S X} (Pst : S -> Prop) (Q : X -> Prop) (f : S -> X -> S) (l : list X) :
  (forall s x, Pst s -> Q x -> Pst (f s x)) -> Forall Q l -> forall s, Pst s -> Pst (fold_left f l s).
Proof.
  intros Hf Hl. induction Hl; intros s Hs; simpl; auto.
Qed.

(* ---------------- the invariant ---------------- *)

Section Discipline.
  Variable A : stamp -> Prop.
  Variable n : nat.
  Hypothesis up : forall s, n <= s -> A s.

  Definition wr (h h' : heap) : Prop :=
    length h <= length h' /\ forall s, ~ A s -> hget h' s = hget h s.

  Lemma wr_refl h : wr h h.
  Proof. split; auto. Qed.

  Lemma wr_trans h1 h2 h3 : wr h1 h2 -> wr h2 h3 -> wr h1 h3.
  Proof. intros [L1 E1] [L2 E2]. split; [lia|]. intros s Hs. rewrite E2, E1; auto. Qed.

  Lemma wr_len h h' : wr h h' -> n <= length h -> n <= length h'.
  Proof. intros [L _] H. lia. Qed.

  Lemma notA_lt s : ~ A s -> s < n.
  Proof. intro H. destruct (le_lt_dec n s); auto. exfalso. auto. Qed.

  Lemma wr_alloc h m : n <= length h -> wr h (h ++ [m]).
  Proof.
    intro H. split; [rewrite app_length; simpl; lia|].
    intros s Hs. apply hget_app_old. apply notA_lt in Hs. lia.
  Qed.

  Lemma wr_set h s v : A s -> wr h (hset_sc h s v).
  Proof.
    intro H. split; [rewrite hset_length; lia|].
    intros s' Hs'. apply hget_set_other. intro E; subst; auto.
  Qed.

  Lemma A_fresh (h : heap) : n <= length h -> A (length h).
  Proof. intro H. apply up. lia. Qed.

  (* ---- copy ---- *)

  Lemma rcopy_list_ok p : forall h h' r, n <= length h -> rcopy_list h p = (h', r) -> wr h h' /\ Forall A r.
  Proof.
    induction p as [|s t IH]; intros h h' r Hn E; simpl in E.
    - inversion E; subst. split; [apply wr_refl | constructor].
    - unfold halloc in E.
      destruct (rcopy_list (h ++ [mono_copy (hget h s)]) t) as [h2 r2] eqn:E2.
      inversion E; subst.
      assert (W1 : wr h (h ++ [mono_copy (hget h s)])) by now apply wr_alloc.
      destruct (IH _ _ _ (wr_len _ _ W1 Hn) E2) as [W2 F2].
      split; [eapply wr_trans; eauto|]. constructor; auto; now apply A_fresh.
  Qed.

  Lemma rmk_poly_ok h l h' r : n <= length h -> Forall A l -> rmk_poly h l = (h', r) -> wr h h' /\ Forall A r.
  Proof.
    intros Hn Hl E. destruct l; simpl in E; inversion E; subst.
    - split; [now apply wr_alloc|]. constructor; auto; now apply A_fresh.
    - split; [apply wr_refl | auto].
  Qed.

  Lemma rcopy_ok h p h' r : n <= length h -> rcopy h p = (h', r) -> wr h h' /\ Forall A r.
  Proof.
    intros Hn E. unfold rcopy in E. destruct (rcopy_list h p) as [h1 l] eqn:E1.
    destruct (rcopy_list_ok _ _ _ _ Hn E1) as [W1 F1].
    destruct (rmk_poly_ok _ _ _ _ (wr_len _ _ W1 Hn) F1 E) as [W2 F2].
    split; auto. eapply wr_trans; eauto.
  Qed.

  (* ---- add ---- *)

  Lemma rincl_go_ok h mn rest : forall j i acc b i' nl,
    Forall A rest -> Forall A acc -> rincl_go h rest mn j i acc = (b, i', nl) -> Forall A nl.
  Proof.
    induction rest as [|m t IH]; intros j i acc b i' nl Hr Ha E; simpl in E.
    - inversion E; subst. now apply Forall_rev.
    - inversion Hr; subst.
      destruct (minclusion (hget h m) (hget h mn)).
      + eapply IH; [| |exact E]; auto.
      + inversion E; subst. rewrite rev_append_rev. apply Forall_app. split; [now apply Forall_rev | auto].
      + eapply IH; [| |exact E]; auto.
  Qed.

  Lemma rincl_ok h l mn i b i' nl : Forall A l -> rincl h l mn i = (b, i', nl) -> Forall A nl.
  Proof. intros Hl E. unfold rincl in E. eapply rincl_go_ok; [exact Hl | constructor | exact E]. Qed.

  Lemma radd_tail_ok h rest : forall nl i, Forall A nl -> Forall A rest -> Forall A (radd_tail h nl rest i).
  Proof.
    induction rest as [|m t IH]; intros nl i Hn Hr; simpl; auto.
    inversion Hr; subst.
    destruct (rincl h nl m i) as [[b i'] nl'] eqn:E.
    pose proof (rincl_ok _ _ _ _ _ _ _ Hn E) as Hnl'.
    apply IH; auto. destruct b; auto. now apply Forall_snoc'.
  Qed.

  Lemma radd_loop_ok fuel : forall h nl q i h' r,
    Forall A nl -> Forall A q -> radd_loop fuel h nl q i = Some (h', r) -> wr h h' /\ Forall A r.
  Proof.
    induction fuel as [|f IH]; intros h nl q i h' r Hnl Hq E; cbn [radd_loop] in E; [discriminate|].
    destruct q as [|mono2 q'].
    - inversion E; subst. split; [apply wr_refl | auto].
    - inversion Hq as [|? ? Hm2 Hq']; subst.
      destruct (rincl h nl mono2 i) as [[tobe i1] nl1] eqn:Ei.
      pose proof (rincl_ok _ _ _ _ _ _ _ Hnl Ei) as Hnl1.
      destruct tobe; cbn [negb] in E.
      + destruct (Nat.eqb i1 (length nl1)).
        * injection E as <- <-. split; [apply wr_refl|].
          change (Forall A (radd_tail h nl1 (mono2 :: q') i1)). now apply radd_tail_ok.
        * destruct (nth_error nl1 i1) as [mono1|] eqn:En; [|discriminate].
          destruct (compare (ds (hget h mono1)) (ds (hget h mono2))).
          -- eapply IH; [| |exact E]; auto.
          -- pose proof (Forall_nth_error _ _ _ _ Hnl1 En) as Hm1.
             destruct (IH _ _ _ _ _ _ Hnl1 Hq' E) as [W F].
             split; auto. eapply wr_trans; [apply wr_set; exact Hm1 | exact W].
          -- eapply IH; [| |exact E]; auto. now apply Forall_list_insert.
      + eapply IH; [| |exact E]; auto.
  Qed.

  Lemma rmerge_fuel_ok fuel : forall h l r h' res,
    Forall A l -> Forall A r -> rmerge_fuel fuel h l r = (h', res) -> wr h h' /\ Forall A res.
  Proof.
    induction fuel as [|f IH]; intros h l r h' res Hl Hr E; simpl in E.
    - injection E as <- <-. split; [apply wr_refl|]. apply Forall_app; split; auto.
    - destruct l as [|lh lt]; [injection E as <- <-; split; [apply wr_refl | first [assumption | apply Forall_app; split; auto]]|].
      destruct r as [|rh rt]; [injection E as <- <-; split; [apply wr_refl | first [assumption | apply Forall_app; split; auto]]|].
      inversion Hl as [|? ? Hlh Hlt]; inversion Hr as [|? ? Hrh Hrt]; subst.
      destruct (compare (ds (hget h lh)) (ds (hget h rh))).
      + destruct (rmerge_fuel f h lt (rh :: rt)) as [h1 r1] eqn:E1. inversion E; subst.
        destruct (IH _ _ _ _ _ Hlt Hr E1) as [W F]. split; auto.
      + destruct (rmerge_fuel f (hset_sc h lh (ssum (sc (hget h lh)) (sc (hget h rh)))) lt rt) as [h2 r2] eqn:E1.
        inversion E; subst.
        destruct (IH _ _ _ _ _ Hlt Hrt E1) as [W F].
        split; [eapply wr_trans; [apply wr_set; exact Hlh | exact W]|].
        destruct (ssum (sc (hget h lh)) (sc (hget h rh))); auto.
      + destruct (rmerge_fuel f h (lh :: lt) rt) as [h1 r1] eqn:E1. inversion E; subst.
        destruct (IH _ _ _ _ _ Hl Hrt E1) as [W F]. split; auto.
  Qed.

  Lemma rsort_fuel_ok fuel : forall h l h' res,
    Forall A l -> rsort_fuel fuel h l = (h', res) -> wr h h' /\ Forall A res.
  Proof.
    induction fuel as [|f IH]; intros h l h' res Hl E; cbn [rsort_fuel] in E.
    - inversion E; subst. split; [apply wr_refl | auto].
    - destruct l as [|a [|b t]]; try (inversion E; subst; split; [apply wr_refl | auto]; fail).
      remember (a :: b :: t) as l0.
      destruct (rsort_fuel f h (skipn (Nat.div2 (length l0)) l0)) as [h1 lft] eqn:E1.
      destruct (rsort_fuel f h1 (firstn (Nat.div2 (length l0)) l0)) as [h2 rgt] eqn:E2.
      destruct (IH _ _ _ _ (Forall_skipn _ _ _ Hl) E1) as [W1 F1].
      destruct (IH _ _ _ _ (Forall_firstn _ _ _ Hl) E2) as [W2 F2].
      unfold rmerge in E.
      destruct (rmerge_fuel_ok _ _ _ _ _ _ F1 F2 E) as [W3 F3].
      split; auto. eapply wr_trans; [exact W1|]. eapply wr_trans; eauto.
  Qed.

  Lemma rremove_zeros_ok h l h' r : n <= length h -> Forall A l -> rremove_zeros h l = (h', r) -> wr h h' /\ Forall A r.
  Proof.
    intros Hn Hl E. unfold rremove_zeros in E.
    pose proof (Forall_filter A (fun s => negb (is_O (sc (hget h s)))) l Hl) as Hf.
    destruct (filter (fun s => negb (is_O (sc (hget h s)))) l) as [|x t].
    - simpl in E. inversion E; subst. split; [now apply wr_alloc|]. constructor; auto; now apply A_fresh.
    - inversion E; subst. split; [apply wr_refl | auto].
  Qed.

  Theorem radd_ok h p q h' r : n <= length h -> Forall A q -> radd h p q = (h', r) -> wr h h' /\ Forall A r.
  Proof.
    intros Hn Hq E. unfold radd in E.
    destruct p as [|p0 pt].
    - destruct q as [|q0 qt].
      + eapply rmk_poly_ok; eauto.
      + eapply rcopy_ok; eauto.
    - destruct q as [|q0 qt]; [eapply rcopy_ok; eauto|].
      remember (p0 :: pt) as p. remember (q0 :: qt) as q.
      destruct (rcopy h p) as [h1 nl0] eqn:E1.
      destruct (rcopy_ok _ _ _ _ Hn E1) as [W1 F1].
      pose proof (wr_len _ _ W1 Hn) as Hn1.
      destruct (radd_loop (radd_fuel_for p q) h1 nl0 q 0) as [[h2 nl]|] eqn:E2.
      + destruct (radd_loop_ok _ _ _ _ _ _ _ F1 Hq E2) as [W2 F2].
        pose proof (wr_len _ _ W2 Hn1) as Hn2.
        destruct (rsort_monomials h2 nl) as [h3 sorted] eqn:E3.
        unfold rsort_monomials in E3.
        destruct (rsort_fuel_ok _ _ _ _ _ F2 E3) as [W3 F3].
        pose proof (wr_len _ _ W3 Hn2) as Hn3.
        destruct (rmk_poly h3 sorted) as [h4 pl] eqn:E4.
        destruct (rmk_poly_ok _ _ _ _ Hn3 F3 E4) as [W4 F4].
        pose proof (wr_len _ _ W4 Hn3) as Hn4.
        destruct (rremove_zeros_ok _ _ _ _ Hn4 F4 E) as [W5 F5].
        split; auto.
        eapply wr_trans; [exact W1|]. eapply wr_trans; [exact W2|]. eapply wr_trans; [exact W3|].
        eapply wr_trans; eauto.
      + inversion E; subst. split; auto.
  Qed.

  (* ---- times ---- *)

  Lemma rprod_row_ok p : forall h m2 h' r, n <= length h -> rprod_row h p m2 = (h', r) -> wr h h' /\ Forall A r.
  Proof.
    induction p as [|m1 t IH]; intros h m2 h' r Hn E; simpl in E.
    - inversion E; subst. split; [apply wr_refl | constructor].
    - unfold halloc in E.
      set (h1 := h ++ [mprod (hget h m1) (hget h m2)]) in *.
      destruct (rprod_row h1 t m2) as [h2 r2] eqn:E2.
      assert (W1 : wr h h1) by now apply wr_alloc.
      destruct (IH _ _ _ _ (wr_len _ _ W1 Hn) E2) as [W2 F2].
      inversion E; subst.
      split; [eapply wr_trans; eauto|].
      destruct (is_O (sc (hget h1 (length h)))); auto; constructor; auto; now apply A_fresh.
  Qed.

  Lemma rproducts_ok p q : forall h h' rows, n <= length h -> rproducts h p q = (h', rows) -> wr h h' /\ Forall (Forall A) rows.
  Proof.
    induction q as [|m2 t IH]; intros h h' rows Hn E; simpl in E.
    - inversion E; subst. split; [apply wr_refl | constructor].
    - destruct (rprod_row h p m2) as [h1 row] eqn:E1.
      destruct (rproducts h1 p t) as [h2 rows2] eqn:E2.
      destruct (rprod_row_ok _ _ _ _ _ Hn E1) as [W1 F1].
      destruct (IH _ _ _ (wr_len _ _ W1 Hn) E2) as [W2 F2].
      inversion E; subst. split; [eapply wr_trans; eauto | constructor; auto].
  Qed.

  Lemma rinsert_row_ok h row rows : Forall A row -> Forall (Forall A) rows -> Forall (Forall A) (rinsert_row h row rows).
  Proof.
    intros Hr Hrs. induction Hrs as [|r rs Hr0 Hrs IH]; simpl; [constructor; auto|].
    destruct row as [|m1 rt]; [constructor; auto|].
    destruct r as [|m2 r']; [constructor; auto|].
    destruct (compare (ds (hget h m1)) (ds (hget h m2))); constructor; auto.
  Qed.

  Lemma rorder_rows_ok h table : Forall (Forall A) table -> Forall (Forall A) (rorder_rows h table).
  Proof.
    intro H. destruct table as [|r0 rest]; simpl; auto.
    inversion H as [|? ? H0 Hrest]; subst.
    assert (G : forall acc, Forall (Forall A) acc -> Forall (Forall A) (fold_left (fun acc r => rinsert_row h r acc) rest acc)).
    { clear H H0. induction Hrest as [|x l Hx Hl IH]; intros acc Hacc; simpl; auto.
      apply IH. now apply rinsert_row_ok. }
    apply G. constructor; auto.
  Qed.

  Lemma rmerge_rows_ok h fuel : forall rows result r,
    Forall (Forall A) rows -> Forall A result -> rmerge_rows fuel h rows result = Some r -> Forall A r.
  Proof.
    induction fuel as [|f IH]; intros rows result r Hrows Hres E; simpl in E.
    - destruct rows; [inversion E; subst; auto | discriminate].
    - destruct rows as [|row rest]; [inversion E; subst; auto|].
      inversion Hrows as [|? ? Hrow Hrest]; subst.
      destruct row as [|m tl]; [eapply IH; [| |exact E]; auto|].
      pose proof (Forall_inv Hrow) as Hm. pose proof (Forall_inv_tail Hrow) as Htl.
      destruct (rincl h result m 0) as [[tobe i'] res1] eqn:Ei.
      pose proof (rincl_ok _ _ _ _ _ _ _ Hres Ei) as H1.
      eapply IH; [| |exact E].
      + destruct tl; auto. now apply rinsert_row_ok.
      + destruct tobe; auto. now apply Forall_snoc'.
  Qed.

  Theorem rtimes_ok h p q h' r : n <= length h -> rtimes h p q = (h', r) -> wr h h' /\ Forall A r.
  Proof.
    intros Hn E. unfold rtimes in E.
    destruct (rproducts h p q) as [h1 prods] eqn:E1.
    destruct (rproducts_ok _ _ _ _ _ Hn E1) as [W1 F1].
    pose proof (wr_len _ _ W1 Hn) as Hn1.
    pose proof (Forall_filter (Forall A) (fun r => negb (is_nil r)) prods F1) as Ft.
    destruct (filter (fun r => negb (is_nil r)) prods) as [|t0 tt] eqn:Et.
    - destruct (rmk_poly_ok _ _ _ _ Hn1 (Forall_nil A) E) as [W2 F2].
      split; auto. eapply wr_trans; eauto.
    - destruct (rmerge_rows (rtotal_len (t0 :: tt) + 1) h1 (rorder_rows h1 (t0 :: tt)) []) as [res|] eqn:Em.
      + pose proof (rmerge_rows_ok _ _ _ _ _ (rorder_rows_ok h1 _ Ft) (Forall_nil A) Em) as Fres.
        destruct (rmk_poly h1 res) as [h2 pl] eqn:E2.
        destruct (rmk_poly_ok _ _ _ _ Hn1 Fres E2) as [W2 F2].
        destruct (rremove_zeros_ok _ _ _ _ (wr_len _ _ W2 Hn1) F2 E) as [W3 F3].
        split; auto. eapply wr_trans; [exact W1|]. eapply wr_trans; eauto.
      + inversion E; subst. split; auto.
  Qed.

  (* ---- matrices ---- *)

  Definition MA (m : rmatrix) : Prop := Forall (Forall (Forall A)) m.

  Lemma rmget_ok m i j : MA m -> Forall A (rmget m i j).
  Proof.
    intro H. unfold rmget.
    apply (Forall_nth_default (Forall A)); [|constructor].
    apply (Forall_nth_default (Forall (Forall A))); [exact H | constructor].
  Qed.

  Lemma rset_cell_ok m i j p : MA m -> Forall A p -> MA (rset_cell m i j p).
  Proof.
    intros Hm Hp. unfold rset_cell. apply Forall_list_update; auto.
    intros row Hrow. apply Forall_list_update; auto.
  Qed.

  Lemma rbuild_row_ok (f : heap -> nat -> heap * rpoly) :
    (forall h j h' c, n <= length h -> f h j = (h', c) -> wr h h' /\ Forall A c) ->
    forall js h h' row, n <= length h -> rbuild_row h f js = (h', row) -> wr h h' /\ Forall (Forall A) row.
  Proof.
    intros Hf. induction js as [|j t IH]; intros h h' row Hn E; simpl in E.
    - inversion E; subst. split; [apply wr_refl | constructor].
    - destruct (f h j) as [h1 c] eqn:E1. destruct (rbuild_row h1 f t) as [h2 r] eqn:E2.
      destruct (Hf _ _ _ _ Hn E1) as [W1 F1].
      destruct (IH _ _ _ (wr_len _ _ W1 Hn) E2) as [W2 F2].
      inversion E; subst. split; [eapply wr_trans; eauto | constructor; auto].
  Qed.

  Lemma rbuild_ok (f : heap -> nat -> nat -> heap * rpoly) js :
    (forall h i j h' c, n <= length h -> f h i j = (h', c) -> wr h h' /\ Forall A c) ->
    forall is_ h h' m, n <= length h -> rbuild h f is_ js = (h', m) -> wr h h' /\ MA m.
  Proof.
    intros Hf. induction is_ as [|i t IH]; intros h h' m Hn E; simpl in E.
    - inversion E; subst. split; [apply wr_refl | constructor].
    - destruct (rbuild_row h (fun h' j => f h' i j) js) as [h1 row] eqn:E1.
      destruct (rbuild h1 f t js) as [h2 rows] eqn:E2.
      destruct (rbuild_row_ok (fun h' j => f h' i j) (fun h0 j h0' c => Hf h0 i j h0' c) _ _ _ _ Hn E1) as [W1 F1].
      destruct (IH _ _ _ (wr_len _ _ W1 Hn) E2) as [W2 F2].
      inversion E; subst. split; [eapply wr_trans; eauto | constructor; auto].
  Qed.

  Theorem rmatrix_sum_ok h m1 m2 h' r : n <= length h -> MA m2 -> rmatrix_sum h m1 m2 = (h', r) -> wr h h' /\ MA r.
  Proof.
    intros Hn H2 E. unfold rmatrix_sum in E.
    eapply rbuild_ok; [| exact Hn | exact E].
    intros h0 i j h0' c Hn0 E0. cbv beta in E0.
    eapply radd_ok; [exact Hn0 | | exact E0]. now apply rmget_ok.
  Qed.

  Definition pe_step (m1 m2 : rmatrix) (i j : nat) : heap * rpoly -> nat -> heap * rpoly :=
    fun '(h', total) k => let '(h1, t) := rtimes h' (rmget m1 i k) (rmget m2 k j) in radd h1 total t.

  (* one step of the reduce: whatever the accumulator is, the new accumulator is in A *)
  Lemma pe_step_ok m1 m2 i j h total k h' c :
    n <= length h -> pe_step m1 m2 i j (h, total) k = (h', c) -> wr h h' /\ Forall A c.
  Proof.
    intros Hn E. simpl in E.
    destruct (rtimes h (rmget m1 i k) (rmget m2 k j)) as [h1 t] eqn:E1.
    destruct (rtimes_ok _ _ _ _ _ Hn E1) as [W1 F1].
    destruct (radd_ok _ _ _ _ _ (wr_len _ _ W1 Hn) F1 E) as [W2 F2].
    split; auto. eapply wr_trans; eauto.
  Qed.

  Lemma pe_fold_ok m1 m2 i j ks : forall h total h' c,
    n <= length h -> Forall A total -> fold_left (pe_step m1 m2 i j) ks (h, total) = (h', c) -> wr h h' /\ Forall A c.
  Proof.
    induction ks as [|k t IH]; intros h total h' c Hn Ht E; cbn [fold_left] in E.
    - inversion E; subst. split; [apply wr_refl | auto].
    - destruct (pe_step m1 m2 i j (h, total) k) as [h1 c1] eqn:E1.
      destruct (pe_step_ok _ _ _ _ _ _ _ _ _ Hn E1) as [W1 F1].
      destruct (IH _ _ _ _ (wr_len _ _ W1 Hn) F1 E) as [W2 F2].
      split; auto. eapply wr_trans; eauto.
  Qed.

  Lemma rprod_entry_ok m1 m2 h i j h' c :
    m1 <> [] -> n <= length h -> rprod_entry m1 m2 h i j = (h', c) -> wr h h' /\ Forall A c.
  Proof.
    intros Hne Hn E. unfold rprod_entry in E. fold (pe_step m1 m2 i j) in E.
    destruct m1 as [|r0 rt]; [congruence|].
    change (length (r0 :: rt)) with (S (length rt)) in E. cbn [seq fold_left] in E.
    destruct (pe_step (r0 :: rt) m2 i j (h, RZERO) 0) as [h1 c1] eqn:E1.
    assert (E' : fold_left (pe_step (r0 :: rt) m2 i j) (seq 1 (length rt)) (h1, c1) = (h', c))
      by (rewrite <- E1; exact E).
    destruct (pe_step_ok _ _ _ _ _ _ _ _ _ Hn E1) as [W1 F1].
    destruct (pe_fold_ok _ _ _ _ _ _ _ _ _ (wr_len _ _ W1 Hn) F1 E') as [W2 F2].
    split; auto. eapply wr_trans; eauto.
  Qed.

  (* matrix_prod: no hypothesis on the operands at all *)
  Theorem rmatrix_prod_ok h m1 m2 h' r : n <= length h -> rmatrix_prod h m1 m2 = (h', r) -> wr h h' /\ MA r.
  Proof.
    intros Hn E. unfold rmatrix_prod in E.
    destruct m1 as [|r0 rt] eqn:Em.
    - simpl in E. inversion E; subst. split; [apply wr_refl | constructor].
    - rewrite <- Em in E. eapply rbuild_ok; [| exact Hn | exact E].
      intros h0 i j h0' c Hn0 E0. eapply rprod_entry_ok; eauto. rewrite Em. discriminate.
  Qed.

  (* ---- fixpoint ---- *)

  Theorem rfix_loop_ok fuel : forall h self fix_ current h' r,
    n <= length h -> rfix_loop fuel h self fix_ current = Some (h', r) -> wr h h' /\ MA r.
  Proof.
    induction fuel as [|f IH]; intros h self fix_ current h' r Hn E; simpl in E; [discriminate|].
    destruct (rmatrix_prod h current self) as [h1 current'] eqn:E1.
    destruct (rmatrix_sum h1 fix_ current') as [h2 fix'] eqn:E2.
    destruct (rmatrix_prod_ok _ _ _ _ _ Hn E1) as [W1 F1].
    pose proof (wr_len _ _ W1 Hn) as Hn1.
    destruct (rmatrix_sum_ok _ _ _ _ _ Hn1 F1 E2) as [W2 F2].
    pose proof (wr_len _ _ W2 Hn1) as Hn2.
    assert (W12 : wr h h2) by (eapply wr_trans; eauto).
    destruct (mats_eqb (vmat h2 fix') (vmat h2 fix_)).
    - inversion E; subst. split; auto.
    - destruct (IH _ _ _ _ _ _ Hn2 E) as [W3 F3]. split; auto. eapply wr_trans; eauto.
  Qed.

  Theorem rfixpoint_ok fuel h k self h' r : n <= length h -> rfixpoint fuel h k self = Some (h', r) -> wr h h' /\ MA r.
  Proof. intros Hn E. unfold rfixpoint in E. eapply rfix_loop_ok; eauto. Qed.

  (* ---- corrections ---- *)

  Lemma rw_mons_ok d mons : forall h w h' w',
    Forall A mons -> Forall A w -> rw_mons d h mons w = (h', w') -> wr h h' /\ Forall A w'.
  Proof.
    induction mons as [|s t IH]; intros h w h' w' Hm Hw E; simpl in E.
    - inversion E; subst. split; [apply wr_refl | auto].
    - inversion Hm as [|? ? Hs Ht]; subst.
      destruct (W_BAD (sc (hget h s)) d).
      + destruct (IH _ _ _ _ Ht (Forall_snoc' _ _ _ Hw Hs) E) as [W F].
        split; auto. eapply wr_trans; [apply wr_set; exact Hs | exact W].
      + eapply IH; [| |exact E]; auto.
  Qed.

  Definition corr_inv (h0 : heap) (hw : heap * list stamp) : Prop := wr h0 (fst hw) /\ Forall A (snd hw).

  Lemma rw_row_ok h0 i hw row : corr_inv h0 hw -> Forall (Forall A) row -> corr_inv h0 (rw_row i hw row).
  Proof.
    intros Hinv Hrow. unfold rw_row.
    apply (fold_left_inv (corr_inv h0) (fun jp : nat * rpoly => Forall A (snd jp))); auto.
    - intros [h w] [j p] [W F] Hp. simpl in *.
      destruct (rw_mons (Nat.eqb i j) h p w) as [h' w'] eqn:E.
      destruct (rw_mons_ok _ _ _ _ _ _ Hp F E) as [W' F'].
      split; simpl; auto. eapply wr_trans; eauto.
    - now apply Forall_combine_snd.
  Qed.

  Theorem rwhile_correction_ok h m h' w : MA m -> rwhile_correction h m = (h', w) -> wr h h' /\ Forall A w.
  Proof.
    intros Hm E. unfold rwhile_correction in E.
    match type of E with ?X = _ => assert (G : corr_inv h X) end.
    { apply (fold_left_inv (corr_inv h) (fun ir : nat * list rpoly => Forall (Forall A) (snd ir))).
      - intros hw [i row] Hinv Hrow. now apply rw_row_ok.
      - now apply Forall_combine_snd.
      - split; simpl; [apply wr_refl | constructor]. }
    rewrite E in G. exact G.
  Qed.

  Definition lc_inv (h0 : heap) (st : heap * rmatrix * list stamp) : Prop :=
    let '(h, m, w) := st in wr h0 h /\ n <= length h /\ MA m /\ Forall A w.

  Lemma rl_mons_ok h0 ell i j mons : forall st, Forall A mons -> lc_inv h0 st -> lc_inv h0 (rl_mons ell i j mons st).
  Proof.
    induction mons as [|s t IH]; intros [[h m] w] Hm Hinv; simpl; auto.
    inversion Hm as [|? ? Hs Ht]; subst.
    destruct Hinv as (W & Hn & HM & HW).
    set (d := Nat.eqb i j).
    assert (Hstep : exists h1 w1, (if L_BAD (sc (hget h s)) d then (hset_sc h s I, w ++ [s]) else (h, w)) = (h1, w1)
                                  /\ wr h0 h1 /\ n <= length h1 /\ Forall A w1).
    { destruct (L_BAD (sc (hget h s)) d); eexists; eexists; split; try reflexivity.
      - split; [eapply wr_trans; [exact W | now apply wr_set]|]. split; [now rewrite hset_length | now apply Forall_snoc'].
      - auto. }
    destruct Hstep as (h1 & w1 & Est & W1 & Hn1 & HW1). rewrite Est.
    destruct (L_PROPAGATE (sc (hget h1 s)) d).
    - unfold halloc.
      match goal with |- context [radd ?a ?b ?c] => destruct (radd a b c) as [h3 r] eqn:Ea end.
      assert (Wc : wr h1 (h1 ++ [mono_copy (hget h1 s)])) by now apply wr_alloc.
      pose proof (wr_len _ _ Wc Hn1) as Hn2.
      assert (Fc : Forall A [length h1]) by (constructor; [now apply A_fresh | constructor]).
      destruct (radd_ok _ _ _ _ _ Hn2 Fc Ea) as [W3 F3].
      apply IH; auto. repeat split.
      + destruct W1 as [L1 E1], Wc as [L2 E2], W3 as [L3 E3]. lia.
      + intros s' Hs'. destruct W1 as [L1 E1], Wc as [L2 E2], W3 as [L3 E3]. rewrite E3, E2, E1; auto.
      + eapply wr_len; eauto.
      + now apply rset_cell_ok.
      + exact HW1.
    - apply IH; auto. repeat split; auto; apply W1.
  Qed.

  Theorem rloop_correction_ok h m ell h' m' w :
    n <= length h -> MA m -> rloop_correction h m ell = (h', m', w) -> wr h h' /\ MA m' /\ Forall A w.
  Proof.
    intros Hn Hm E. unfold rloop_correction in E.
    match type of E with ?X = _ => assert (G : lc_inv h X) end.
    { apply (fold_left_inv (lc_inv h) (fun _ : nat * nat => True)).
      - intros [[h1 m1] w1] [i j] Hinv _. apply rl_mons_ok; auto.
        destruct Hinv as (_ & _ & HM & _). now apply rmget_ok.
      - apply Forall_forall. auto.
      - repeat split; auto; constructor. }
    rewrite E in G. destruct G as (W & _ & HM & HW). auto.
  Qed.
End Discipline.

(* ---------------- instances ---------------- *)

Definition fresh_from (k : nat) : stamp -> Prop := fun s => k <= s.

Lemma fresh_up k : forall s, k <= s -> fresh_from k s.
Proof. auto. Qed.

Lemma wr_fresh_keeps k h h' : wr (fresh_from k) h h' -> forall s, s < k -> hget h' s = hget h s.
Proof. intros [_ E] s Hs. apply E. unfold fresh_from. lia. Qed.

Lemma MA_stamps (A : stamp -> Prop) m : MA A m -> forall s, In s (mat_stamps m) -> A s.
Proof.
  intros H s Hin. unfold mat_stamps in Hin.
  apply in_concat in Hin. destruct Hin as (p & Hp & Hs).
  apply in_concat in Hp. destruct Hp as (row & Hrow & Hp).
  unfold MA in H. rewrite Forall_forall in H. specialize (H _ Hrow).
  rewrite Forall_forall in H. specialize (H _ Hp). rewrite Forall_forall in H. auto.
Qed.

(* the relation returned by Relation.fixpoint holds only monomials allocated inside the call, and the
   call changed no field of any monomial that existed before *)
Theorem fixpoint_fresh fuel h0 k body h1 fx :
  rfixpoint fuel h0 k body = Some (h1, fx) ->
  (forall s, In s (mat_stamps fx) -> length h0 <= s) /\
  length h0 <= length h1 /\
  (forall s, s < length h0 -> hget h1 s = hget h0 s).
Proof.
  intro E.
  destruct (rfixpoint_ok (fresh_from (length h0)) (length h0) (fresh_up _) _ _ _ _ _ _ (le_n _) E) as [W F].
  split; [apply (MA_stamps _ _ F)|]. split; [apply W | now apply wr_fresh_keeps].
Qed.

Theorem while_fresh fuel h0 k body h2 fx w :
  rwhile fuel h0 k body = Some (h2, fx, w) ->
  (forall s, In s w -> length h0 <= s) /\
  (forall s, In s (mat_stamps fx) -> length h0 <= s) /\
  (forall s, s < length h0 -> hget h2 s = hget h0 s).
Proof.
  intro E. unfold rwhile in E.
  destruct (rfixpoint fuel h0 k body) as [[h1 fx1]|] eqn:E1; [|discriminate].
  destruct (rwhile_correction h1 fx1) as [h2' w'] eqn:E2. inversion E; subst.
  destruct (rfixpoint_ok (fresh_from (length h0)) (length h0) (fresh_up _) _ _ _ _ _ _ (le_n _) E1) as [W1 F1].
  destruct (rwhile_correction_ok (fresh_from (length h0)) _ _ _ _ F1 E2) as [W2 F2].
  split; [rewrite Forall_forall in F2; exact F2|].
  split; [apply (MA_stamps _ _ F1)|].
  apply wr_fresh_keeps. eapply wr_trans; eauto.
Qed.

Theorem for_fresh fuel h0 k body ell h2 fx w :
  rfor fuel h0 k body ell = Some (h2, fx, w) ->
  (forall s, In s w -> length h0 <= s) /\
  (forall s, In s (mat_stamps fx) -> length h0 <= s) /\
  (forall s, s < length h0 -> hget h2 s = hget h0 s).
Proof.
  intro E. unfold rfor in E.
  destruct (rfixpoint fuel h0 k body) as [[h1 fx1]|] eqn:E1; [|discriminate].
  inversion E as [E2]; clear E.
  destruct (rfixpoint_ok (fresh_from (length h0)) (length h0) (fresh_up _) _ _ _ _ _ _ (le_n _) E1) as [W1 F1].
  pose proof (wr_len _ _ _ _ W1 (le_n _)) as Hn1.
  destruct (rloop_correction_ok (fresh_from (length h0)) (length h0) (fresh_up _) _ _ _ _ _ _ Hn1 F1 E2) as (W2 & F2 & F3).
  split; [rewrite Forall_forall in F3; exact F3|].
  split; [apply (MA_stamps _ _ F2)|].
  apply wr_fresh_keeps. eapply wr_trans; eauto.
Qed.

(* what "existed before": any matrix whose monomials are objects of the heap at the time of the call *)
Definition valid_in (h : heap) (m : rmatrix) : Prop := forall s, In s (mat_stamps m) -> s < length h.

Lemma vmat_keeps h h' m : valid_in h m -> (forall s, s < length h -> hget h' s = hget h s) -> vmat h' m = vmat h m.
Proof.
  intros V K. unfold vmat, view.
  apply map_ext_in. intros row Hrow. apply map_ext_in. intros p Hp. apply map_ext_in. intros s Hs.
  apply K, V. unfold mat_stamps. apply in_concat. exists p. split; auto. apply in_concat. exists row. auto.
Qed.

Definition heap_ok (h : heap) : Prop :=
  2 <= length h /\ hget h ZERO_ST = Mono O [] /\ hget h UNIT_ST = Mono M [].

Lemma heap0_ok : heap_ok heap0.
Proof. repeat split; simpl; lia. Qed.

(* add: frame and provenance, for arbitrary operands (whatever they alias) *)
Theorem add_frame h p q h' r :
  radd h p q = (h', r) ->
  length h <= length h' /\
  (forall s, s < length h -> ~ In s q -> hget h' s = hget h s) /\
  (forall s, In s r -> length h <= s \/ In s q).
Proof.
  intro E.
  assert (U : forall s, length h <= s -> (fun s => length h <= s \/ In s q) s) by (intros; auto).
  assert (Fq : Forall (fun s => length h <= s \/ In s q) q) by (apply Forall_forall; auto).
  destruct (radd_ok _ _ U _ _ _ _ _ (le_n _) Fq E) as [[L K] F].
  split; auto. split.
  - intros s Hs Hq. apply K. intros [H|H]; [lia | auto].
  - rewrite Forall_forall in F. exact F.
Qed.

Theorem times_fresh h p q h' r :
  rtimes h p q = (h', r) ->
  length h <= length h' /\
  (forall s, s < length h -> hget h' s = hget h s) /\
  (forall s, In s r -> length h <= s).
Proof.
  intro E.
  destruct (rtimes_ok (fresh_from (length h)) (length h) (fresh_up _) _ _ _ _ _ (le_n _) E) as [W F].
  split; [apply W|]. split; [now apply wr_fresh_keeps|]. rewrite Forall_forall in F. exact F.
Qed.

(* ---------------- a non-trivial instance (hypotheses are satisfiable, conclusions not vacuous) ------------- *)

(* the loop  while (...) { x = x + y; }  over variables [x; y]: body relation = identity with column x
   replaced by the vector of create_vector('+') at site 0 -- its other cells ARE matrix.ZERO / matrix.UNIT *)
Definition ex_heap : heap :=
  heap0 ++ [Mono M [(0, 0)]; Mono P [(1, 0)]; Mono W [(2, 0)]; Mono P [(0, 0)]; Mono M [(1, 0)]; Mono W [(2, 0)]].
Definition ex_body : rmatrix := [[[2; 3; 4]; RZERO]; [[5; 6; 7]; RUNIT]].

Example ex_while_runs :
  heap_ok ex_heap /\ valid_in ex_heap ex_body /\
  exists h2 fx w, rwhile 10 ex_heap 2 ex_body = Some (h2, fx, w) /\ length w = 4 /\
                  In UNIT_ST (mat_stamps ex_body) /\ In ZERO_ST (mat_stamps ex_body).
Proof.
  split; [repeat split; simpl; lia|].
  split.
  { intros s Hs. change (In s [2; 3; 4; 0; 5; 6; 7; 1]) in Hs. change (s < 8).
    simpl in Hs. repeat (destruct Hs as [<-|Hs]; [lia|]). contradiction. }
  vm_compute. eexists; eexists; eexists. split; [reflexivity|].
  split; [reflexivity|]. split; auto 20.
Qed.

Example ex_for_runs :
  exists h2 fx w, rfor 10 ex_heap 2 ex_body 1 = Some (h2, fx, w) /\ w <> [].
Proof. vm_compute. eexists; eexists; eexists. split; [reflexivity | discriminate]. Qed.

(* ---------------- statements used by props/C13.v ---------------- *)

Lemma old_not_written h0 (w : list stamp) :
  (forall s, In s w -> length h0 <= s) ->
  forall old, valid_in h0 old -> forall s, In s w -> ~ In s (mat_stamps old).
Proof. intros Hw old V s Hs Hin. specialize (Hw _ Hs). specialize (V _ Hin). lia. Qed.

Lemma heap_ok_keeps h h' : heap_ok h -> (forall s, s < length h -> hget h' s = hget h s) -> length h <= length h' -> heap_ok h'.
Proof.
  intros (L & Z & U) K Le. unfold heap_ok, ZERO_ST, UNIT_ST in *.
  split; [lia|]. split; [rewrite K; auto; lia | rewrite K; auto; lia].
Qed.

Lemma heap_ok_not_fresh h (w : list stamp) : heap_ok h -> (forall s, In s w -> length h <= s) -> ~ In ZERO_ST w /\ ~ In UNIT_ST w.
Proof.
  intros (L & _) Hw. unfold ZERO_ST, UNIT_ST. split; intro Hin; specialize (Hw _ Hin); lia.
Qed.

Definition loop_discipline (h0 h2 : heap) (fx : rmatrix) (w : list stamp) : Prop :=
  (forall s, In s w -> length h0 <= s) /\
  (forall s, In s (mat_stamps fx) -> length h0 <= s) /\
  (forall old, valid_in h0 old -> forall s, In s w -> ~ In s (mat_stamps old)) /\
  (forall old, valid_in h0 old -> vmat h2 old = vmat h0 old) /\
  (forall s, s < length h0 -> hget h2 s = hget h0 s).

Lemma loop_discipline_of h0 h2 fx w :
  (forall s, In s w -> length h0 <= s) /\
  (forall s, In s (mat_stamps fx) -> length h0 <= s) /\
  (forall s, s < length h0 -> hget h2 s = hget h0 s) -> loop_discipline h0 h2 fx w.
Proof.
  intros (Hw & Hf & K). unfold loop_discipline. repeat split; auto.
  - now apply old_not_written.
  - intros old V. now apply vmat_keeps.
Qed.

Theorem fresh_mutation : forall fuel h0 k body,
  (forall h2 fx w, rwhile fuel h0 k body = Some (h2, fx, w) ->
     (forall s, In s w -> length h0 <= s) /\
     (forall s, In s (mat_stamps fx) -> length h0 <= s) /\
     (forall old, valid_in h0 old -> forall s, In s w -> ~ In s (mat_stamps old)) /\
     (forall old, valid_in h0 old -> vmat h2 old = vmat h0 old) /\
     (forall s, s < length h0 -> hget h2 s = hget h0 s)) /\
  (forall ell h2 fx w, rfor fuel h0 k body ell = Some (h2, fx, w) ->
     (forall s, In s w -> length h0 <= s) /\
     (forall s, In s (mat_stamps fx) -> length h0 <= s) /\
     (forall old, valid_in h0 old -> forall s, In s w -> ~ In s (mat_stamps old)) /\
     (forall old, valid_in h0 old -> vmat h2 old = vmat h0 old) /\
     (forall s, s < length h0 -> hget h2 s = hget h0 s)).
Proof.
  intros fuel h0 k body. split.
  - intros h2 fx w E. apply (loop_discipline_of h0 h2 fx w). eapply while_fresh; eauto.
  - intros ell h2 fx w E. apply (loop_discipline_of h0 h2 fx w). eapply for_fresh; eauto.
Qed.

Lemma prod_keeps h m1 m2 h' r : rmatrix_prod h m1 m2 = (h', r) ->
  length h <= length h' /\ (forall s, s < length h -> hget h' s = hget h s) /\ (forall s, In s (mat_stamps r) -> length h <= s).
Proof.
  intro E.
  destruct (rmatrix_prod_ok (fresh_from (length h)) (length h) (fresh_up _) _ _ _ _ _ (le_n _) E) as [W F].
  split; [apply W|]. split; [now apply wr_fresh_keeps | apply (MA_stamps _ _ F)].
Qed.

Theorem constants_unchanged : forall h0, heap_ok h0 ->
  (forall fuel k body h2 fx w, rwhile fuel h0 k body = Some (h2, fx, w) ->
     heap_ok h2 /\ ~ In ZERO_ST w /\ ~ In UNIT_ST w) /\
  (forall fuel k body ell h2 fx w, rfor fuel h0 k body ell = Some (h2, fx, w) ->
     heap_ok h2 /\ ~ In ZERO_ST w /\ ~ In UNIT_ST w) /\
  (forall fuel k body h1 fx, rfixpoint fuel h0 k body = Some (h1, fx) -> heap_ok h1) /\
  (forall m1 m2 h1 r, rmatrix_prod h0 m1 m2 = (h1, r) -> heap_ok h1) /\
  (forall p q h1 r, rtimes h0 p q = (h1, r) -> heap_ok h1) /\
  (forall p q h1 r, radd h0 p q = (h1, r) -> ~ In ZERO_ST q -> ~ In UNIT_ST q -> heap_ok h1).
Proof.
  intros h0 Hok.
  split; [|split; [|split; [|split; [|split]]]].
  - intros fuel k body h2 fx w H.
    destruct (while_fresh _ _ _ _ _ _ _ H) as (Hw & Hf & K).
    split; [|apply (heap_ok_not_fresh _ _ Hok Hw)].
    eapply heap_ok_keeps; eauto.
    unfold rwhile in H. destruct (rfixpoint fuel h0 k body) as [[h1 fx1]|] eqn:E1; [|discriminate].
    destruct (rwhile_correction h1 fx1) as [h2' w'] eqn:E2. inversion H; subst.
    destruct (rfixpoint_ok (fresh_from (length h0)) (length h0) (fresh_up _) _ _ _ _ _ _ (le_n _) E1) as [[L1 _] F1].
    destruct (rwhile_correction_ok (fresh_from (length h0)) _ _ _ _ F1 E2) as [[L2 _] _]. lia.
  - intros fuel k body ell h2 fx w H.
    destruct (for_fresh _ _ _ _ _ _ _ _ H) as (Hw & Hf & K).
    split; [|apply (heap_ok_not_fresh _ _ Hok Hw)].
    eapply heap_ok_keeps; eauto.
    unfold rfor in H. destruct (rfixpoint fuel h0 k body) as [[h1 fx1]|] eqn:E1; [|discriminate].
    inversion H as [E2].
    destruct (rfixpoint_ok (fresh_from (length h0)) (length h0) (fresh_up _) _ _ _ _ _ _ (le_n _) E1) as [W1 F1].
    pose proof (wr_len _ _ _ _ W1 (le_n _)) as Hn1.
    destruct (rloop_correction_ok (fresh_from (length h0)) (length h0) (fresh_up _) _ _ _ _ _ _ Hn1 F1 E2) as ([L2 _] & _).
    destruct W1 as [L1 _]. lia.
  - intros fuel k body h1 fx H.
    destruct (fixpoint_fresh _ _ _ _ _ _ H) as (_ & L & K). eapply heap_ok_keeps; eauto.
  - intros m1 m2 h1 r H.
    destruct (prod_keeps _ _ _ _ _ H) as (L & K & _). eapply heap_ok_keeps; eauto.
  - intros p q h1 r H.
    destruct (times_fresh _ _ _ _ _ H) as (L & K & _). eapply heap_ok_keeps; eauto.
  - intros p q h1 r H Hz Hu.
    destruct (add_frame _ _ _ _ _ H) as (L & K & _).
    destruct Hok as (L0 & Z & U). unfold heap_ok, ZERO_ST, UNIT_ST in *.
    split; [lia|]. split; [rewrite K; auto; lia | rewrite K; auto; lia].
Qed.

(* the analysis model is a Gallina function: its value at any position of any history of calls is its value alone *)
Lemma history_independent {X Y} (run : X -> Y) (pre post : list X) x :
  nth_error (map run (pre ++ x :: post)) (length pre) = Some (run x).
Proof.
  rewrite map_app, nth_error_app2; rewrite map_length; auto.
  now rewrite Nat.sub_diag.
Qed.

Require PM.Analysis.

Theorem model_is_function : forall (pre post : list (PM.Analysis.func_src * bool)) f stop,
  nth_error (map (fun c => PM.Analysis.analyse (fst c) (snd c)) (pre ++ (f, stop) :: post)) (length pre)
  = Some (PM.Analysis.analyse f stop).
Proof. intros. apply (history_independent (fun c => PM.Analysis.analyse (fst c) (snd c)) pre post (f, stop)). Qed.
