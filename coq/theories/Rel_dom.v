(* Delta provenance at the level of matrices and relations: every delta occurring in a relation built
   by the relation operations (and every delta list the corrections record) satisfies Q as soon as the
   operands do.  Arbitrary predicate Q first, then Q := fun d => fst d < 3 with the closed corollaries
   stated with An_stmts.mdom / An_stmts.rel_dom.

   NO shape hypothesis (wf_rel) is needed anywhere: [mget] defaults to zero_poly, which has no delta,
   and every matrix is produced by [build] / [set_cell] / [map]. *)
From Coq Require Import String List Bool Arith Lia.
From PM Require Import Semiring Poly Poly_sem Poly_add Poly_times Rel Analysis Calculus Rel_sem
  Poly_wf Rel_ops Poly_dom An_stmts.
From PMGen Require Import RulesGen.
Import ListNotations.
Open Scope list_scope.

Lemma Forall_concat' {A} (R : A -> Prop) (ls : list (list A)) :
  Forall (Forall R) ls -> Forall R (concat ls).
Proof.
  induction 1 as [|l ls Hl _ IH]; simpl; [constructor|]. apply Forall_app. split; assumption.
Qed.

Section Generic.
Variable Q : delta -> Prop.
Notation mq := (mQ Q).
Notation pq := (pQ Q).
Notation dlQ := (Forall (Forall Q)).       (* a list of recorded delta lists *)

Definition mxQ (m : matrix) : Prop := Forall (fun row => Forall pq row) m.
Definition rQ (r : rel) : Prop := Forall (fun row => Forall pq row) (rmat r).

(* ---------------- matrices ---------------- *)

Lemma mget_pQ m i j : mxQ m -> pq (mget m i j).
Proof.
  intros H. unfold mget. destruct (nth_in_or_default i m []) as [Hi|Hi].
  - unfold mxQ in H. rewrite Forall_forall in H. specialize (H _ Hi).
    destruct (nth_in_or_default j (nth i m []) zero_poly) as [Hj | ->].
    + rewrite Forall_forall in H. apply H, Hj.
    + apply pQ_zero_poly.
  - rewrite Hi. destruct j; apply pQ_zero_poly.
Qed.

Lemma build_mxQ n k f : (forall i j, i < n -> j < k -> pq (f i j)) -> mxQ (build n k f).
Proof. apply build_forall. Qed.

Lemma id_cell_pQ (b : bool) : pq (if b then unit_poly else zero_poly).
Proof. destruct b; [apply pQ_unit_poly | apply pQ_zero_poly]. Qed.

Lemma init_matrix_mxQ n : mxQ (init_matrix n).
Proof. apply build_mxQ. intros. apply pQ_zero_poly. Qed.

Lemma identity_matrix_mxQ n : mxQ (identity_matrix n).
Proof. apply build_mxQ. intros. apply id_cell_pQ. Qed.

Lemma resize_mxQ m n : mxQ m -> mxQ (resize m n).
Proof.
  intros H. unfold resize. apply build_mxQ. intros i j _ _.
  destruct (_ && _); [apply mget_pQ, H | apply id_cell_pQ].
Qed.

Lemma matrix_sum_mxQ m1 m2 : mxQ m1 -> mxQ m2 -> mxQ (matrix_sum m1 m2).
Proof.
  intros H1 H2. unfold matrix_sum. apply build_mxQ. intros i j _ _.
  apply padd_pQ; apply mget_pQ; assumption.
Qed.

Lemma fold_left_padd_pQ (g : nat -> poly) l : (forall k, pq (g k)) ->
  forall acc, pq acc -> pq (fold_left (fun t k => padd t (g k)) l acc).
Proof.
  intros Hg. induction l as [|k l IH]; intros acc Ha; simpl; [exact Ha|].
  apply IH. apply padd_pQ; [exact Ha | apply Hg].
Qed.

Lemma prod_entry_pQ m1 m2 i j : mxQ m1 -> mxQ m2 -> pq (prod_entry m1 m2 i j).
Proof.
  intros H1 H2. unfold prod_entry.
  apply (fold_left_padd_pQ (fun k => ptimes (mget m1 i k) (mget m2 k j))).
  - intros k. apply ptimes_pQ; apply mget_pQ; assumption.
  - apply pQ_zero_poly.
Qed.

Lemma matrix_prod_mxQ m1 m2 : mxQ m1 -> mxQ m2 -> mxQ (matrix_prod m1 m2).
Proof.
  intros H1 H2. unfold matrix_prod. apply build_mxQ. intros i j _ _.
  apply prod_entry_pQ; assumption.
Qed.

Lemma set_cell_mxQ m i j p : mxQ m -> pq p -> mxQ (set_cell m i j p).
Proof.
  intros Hm Hp. unfold set_cell, mxQ. apply list_update_forall; [|exact Hm].
  intros row Hrow. apply list_update_forall; [intros _ _; exact Hp | exact Hrow].
Qed.

(* ---------------- relations ---------------- *)

Theorem mk_rel_rQ vars mat : mxQ mat -> rQ (mk_rel vars mat).
Proof.
  intros H. unfold mk_rel, rQ. cbn [rmat]. destruct mat; [apply init_matrix_mxQ | exact H].
Qed.

Theorem mk_rel_build_rQ vars n k f :
  (forall i j, i < n -> j < k -> pq (f i j)) -> rQ (mk_rel vars (build n k f)).
Proof. intros H. apply mk_rel_rQ, build_mxQ, H. Qed.

Theorem rel_empty_rQ : rQ rel_empty.
Proof. apply mk_rel_rQ. constructor. Qed.

Theorem rel_zero_rQ vars : rQ (rel_zero vars).
Proof. apply mk_rel_rQ. constructor. Qed.

Theorem rel_identity_rQ vars : rQ (rel_identity vars).
Proof. apply mk_rel_rQ, identity_matrix_mxQ. Qed.

Theorem homogenisation_rQ r1 r2 : rQ r1 -> rQ r2 ->
  rQ (fst (homogenisation r1 r2)) /\ rQ (snd (homogenisation r1 r2)).
Proof.
  intros H1 H2. unfold homogenisation.
  destruct (list_str_eqb (rvars r1) (rvars r2)); [split; assumption|].
  destruct (rel_is_empty r1); [split; [apply rel_identity_rQ | exact H2]|].
  destruct (rel_is_empty r2); [split; [exact H1 | apply rel_identity_rQ]|].
  cbv zeta. cbn [fst snd]. split.
  - apply mk_rel_rQ, resize_mxQ, H1.
  - apply mk_rel_build_rQ. intros i j _ _.
    destruct (index_of_str _ (rvars r2)) as [ri|]; [|apply id_cell_pQ].
    destruct (index_of_str _ (rvars r2)) as [rj|]; [|apply id_cell_pQ].
    apply mget_pQ, H2.
Qed.

Theorem rel_sum_rQ a b : rQ a -> rQ b -> rQ (rel_sum a b).
Proof.
  intros Ha Hb. unfold rel_sum. pose proof (homogenisation_rQ a b Ha Hb) as [H1 H2].
  destruct (homogenisation a b) as [e1 e2]. cbn [fst snd] in H1, H2.
  apply mk_rel_rQ, matrix_sum_mxQ; assumption.
Qed.

Theorem rel_comp_rQ a b : rQ a -> rQ b -> rQ (rel_comp a b).
Proof.
  intros Ha Hb. unfold rel_comp. pose proof (homogenisation_rQ a b Ha Hb) as [H1 H2].
  destruct (homogenisation a b) as [e1 e2]. cbn [fst snd] in H1, H2.
  apply mk_rel_rQ, matrix_prod_mxQ; assumption.
Qed.

Lemma fix_loop_rQ fuel self : rQ self -> forall fx cur f,
  fix_loop fuel self fx cur = Some f -> rQ fx -> rQ cur -> rQ f.
Proof.
  intros Hs. induction fuel as [|n IH]; intros fx cur f H Hf Hc; cbn [fix_loop] in H; [discriminate|].
  cbv zeta in H.
  assert (Hc' : rQ (rel_comp cur self)) by (apply rel_comp_rQ; assumption).
  assert (Hf' : rQ (rel_sum fx (rel_comp cur self))) by (apply rel_sum_rQ; assumption).
  destruct (rel_equal _ fx).
  - injection H as <-. exact Hf'.
  - eapply IH; [exact H | exact Hf' | exact Hc'].
Qed.

Theorem rel_fixpoint_rQ fuel r f : rel_fixpoint fuel r = Some f -> rQ r -> rQ f.
Proof.
  unfold rel_fixpoint. cbv zeta. intros H Hr.
  assert (Hs : rQ (mk_rel (rvars r) (identity_matrix (length (rvars r)))))
    by apply mk_rel_rQ, identity_matrix_mxQ.
  eapply fix_loop_rQ; [exact Hr | exact H | exact Hs | exact Hs].
Qed.

(* ---------------- corrections ---------------- *)

(* a row of corrected cells: (new polynomial, recorded delta lists) *)
Definition cellQ (c : poly * list (list delta)) : Prop := pq (fst c) /\ dlQ (snd c).

Lemma corr_row_Q (bad : nat -> Sc -> bool) js row : Forall pq row ->
  Forall cellQ (map (fun '(j, p) => corr_cell (bad j) p) (combine js row)).
Proof.
  intros H. apply Forall_forall. intros c Hc. apply in_map_iff in Hc.
  destruct Hc as [[j p] [<- Hjp]]. apply in_combine_r in Hjp.
  rewrite Forall_forall in H. apply corr_cell_pQ. apply H, Hjp.
Qed.

Lemma cells_split (crow : list (poly * list (list delta))) :
  Forall cellQ crow -> Forall pq (map fst crow) /\ dlQ (concat (map snd crow)).
Proof.
  intros H. split.
  - apply Forall_forall. intros p Hp. apply in_map_iff in Hp. destruct Hp as [c [<- Hc]].
    rewrite Forall_forall in H. apply (H _ Hc).
  - apply Forall_concat'. apply Forall_forall. intros l Hl. apply in_map_iff in Hl.
    destruct Hl as [c [<- Hc]]. rewrite Forall_forall in H. apply (H _ Hc).
Qed.

Theorem while_correction_rQ r : rQ r ->
  rQ (fst (while_correction r)) /\ dlQ (snd (while_correction r)).
Proof.
  intros H. unfold while_correction. cbv zeta. cbn [fst snd].
  set (cells := map _ (combine (seq 0 (length (rmat r))) (rmat r))).
  assert (HC : Forall (Forall cellQ) cells).
  { subst cells. apply Forall_forall. intros crow Hcrow. apply in_map_iff in Hcrow.
    destruct Hcrow as [[i row] [<- Hir]]. apply in_combine_r in Hir.
    unfold rQ in H. rewrite Forall_forall in H.
    apply (corr_row_Q (fun j s => W_BAD s (Nat.eqb i j))). apply H, Hir. }
  clearbody cells. split.
  - unfold rQ. cbn [rmat]. apply Forall_forall. intros row Hrow. apply in_map_iff in Hrow.
    destruct Hrow as [crow [<- Hc]]. rewrite Forall_forall in HC.
    apply (proj1 (cells_split _ (HC _ Hc))).
  - apply Forall_concat'. apply Forall_forall. intros l Hl. apply in_map_iff in Hl.
    destruct Hl as [crow [<- Hc]]. rewrite Forall_forall in HC.
    apply (proj2 (cells_split _ (HC _ Hc))).
Qed.

Lemma fold_propagate_mxQ ell j pm : Forall mq pm -> forall m, mxQ m ->
  mxQ (fold_left (fun acc mo => set_cell acc ell j (padd (mget acc ell j) [mono_copy mo])) pm m).
Proof.
  induction 1 as [|mo pm Hmo _ IH]; intros m Hm; simpl; [exact Hm|].
  apply IH. apply set_cell_mxQ; [exact Hm|].
  apply padd_pQ; [apply mget_pQ, Hm | apply singleton_copy_pQ, Hmo].
Qed.

Theorem loop_cell_Q ell m i j : mxQ m ->
  mxQ (fst (loop_cell ell m i j)) /\ dlQ (snd (loop_cell ell m i j)).
Proof.
  intros Hm. unfold loop_cell, corr_cell. cbv beta iota zeta. cbn [fst snd].
  pose proof (mget_pQ m i j Hm) as Hp.
  pose proof (corr_map_pQ Q (fun s => L_BAD s (Nat.eqb i j)) _ Hp) as Hp'.
  split.
  - apply fold_propagate_mxQ.
    + apply filter_forall. exact Hp'.
    + apply set_cell_mxQ; [exact Hm | exact Hp'].
  - apply map_ds_Q, filter_pQ, Hp.
Qed.

Lemma loop_fold_Q ell cells : forall st, mxQ (fst st) -> dlQ (snd st) ->
  let st' := fold_left (fun '(m, rec) '(i, j) =>
                          let '(m', r') := loop_cell ell m i j in (m', (rec ++ r')%list))
                       cells st in
  mxQ (fst st') /\ dlQ (snd st').
Proof.
  induction cells as [|[i j] cells IH]; intros [m rec] Hm Hrec; cbn [fold_left].
  - split; assumption.
  - destruct (loop_cell_Q ell m i j Hm) as [A B].
    destruct (loop_cell ell m i j) as [m' r']. cbn [fst snd] in A, B.
    apply IH; cbn [fst snd]; [exact A | apply Forall_app; split; assumption].
Qed.

Theorem loop_correction_rQ r x r' rec : loop_correction r x = Some (r', rec) -> rQ r ->
  rQ r' /\ dlQ rec.
Proof.
  unfold loop_correction. intros H Hr.
  destruct (index_of_str x (rvars r)) as [ell|]; [|discriminate]. cbv zeta in H.
  match type of H with
  | context [fold_left ?F ?l ?a] =>
      pose proof (loop_fold_Q ell l a Hr (Forall_nil _)) as HF;
      cbv zeta in HF; destruct (fold_left F l a) as [m rec0]
  end.
  injection H as <- <-. exact HF.
Qed.

(* ---------------- replace_column and the leaf relations ---------------- *)

Lemma put_column_mxQ j vector : Forall pq vector -> forall m idx m',
  put_column m j idx vector = Some m' -> mxQ m -> mxQ m'.
Proof.
  induction 1 as [|v t Hv _ IH]; intros m idx m' H Hm; cbn [put_column] in H.
  - injection H as <-. exact Hm.
  - destruct (_ && _); [|discriminate].
    eapply IH; [exact H | apply set_cell_mxQ; assumption].
Qed.

(* the result is built from the identity on r's variables: r itself need not satisfy rQ *)
Theorem replace_column_rQ r vector x r' :
  replace_column r vector x = Some r' -> Forall pq vector -> rQ r'.
Proof.
  unfold replace_column. cbv zeta. intros H Hv.
  pose proof (rel_identity_rQ (rvars r)) as Hi.
  destruct (index_of_str x (rvars r)) as [j|].
  - destruct (put_column _ j 0 vector) as [m|] eqn:E; [|discriminate]. injection H as <-.
    unfold rQ. cbn [rmat]. eapply put_column_mxQ; [exact Hv | exact E | exact Hi].
  - injection H as <-. exact Hi.
Qed.

Theorem leaf_rel_rQ variables vector x r :
  leaf_rel variables vector x = ROk r -> Forall pq vector -> rQ r.
Proof.
  unfold leaf_rel. cbv zeta. intros H Hv.
  destruct (replace_column _ vector x) as [r0|] eqn:E; [|discriminate].
  injection H as <-. eapply replace_column_rQ; [exact E | exact Hv].
Qed.

(* Relation.eval *)
Theorem rel_infinity_deltas_Q r scalars recorded :
  rQ r -> dlQ recorded -> dlQ (rel_infinity_deltas r scalars recorded).
Proof.
  intros Hr Hrec. unfold rel_infinity_deltas. apply Forall_app. split; [exact Hrec|].
  apply Forall_forall. intros s Hs. apply in_flat_map in Hs. destruct Hs as [row [Hrow Hs]].
  apply in_flat_map in Hs. destruct Hs as [p [Hp Hs]].
  unfold rQ in Hr. rewrite Forall_forall in Hr. specialize (Hr _ Hrow).
  rewrite Forall_forall in Hr. specialize (Hr _ Hp).
  pose proof (peval_Q Q p scalars Hr) as HE. rewrite Forall_forall in HE. apply HE, Hs.
Qed.

End Generic.

Lemma rQ_impl (Q R : delta -> Prop) : (forall d, Q d -> R d) -> forall r, rQ Q r -> rQ R r.
Proof.
  intros H r. unfold rQ. apply Forall_impl. intros row. apply Forall_impl. apply pQ_impl. exact H.
Qed.

(* ---------------- instance: delta values below the degree ---------------- *)

Lemma rel_dom_rQ r : rel_dom r <-> rQ Q3 r.
Proof. split; exact (fun H => H). Qed.

Lemma mdom_mQ m : mdom m <-> mQ Q3 m.
Proof. split; exact (fun H => H). Qed.

(* every vector create_vector builds has delta values 0, 1, 2 (whatever the generated table is) *)
Theorem create_vector_dom index op x y z index' vector :
  create_vector index op x y z = Some (index', vector) -> Forall (pQ Q3) vector.
Proof.
  unfold create_vector. intros H.
  destruct (negb (mem_strb op BIN_OPS)); [discriminate|]. cbv zeta in H.
  destruct (cv_lookup CV_TABLE op y z) as [tr|]; [|discriminate].
  injection H as _ <-. apply Forall_app. split.
  - destruct (_ && _); [constructor; [apply pQ_zero_poly | constructor] | constructor].
  - apply Forall_forall. intros p Hp. apply in_map_iff in Hp. destruct Hp as [t [<- _]].
    apply poly_of_triple_dom.
Qed.

Theorem an_constant_rQ index x d r : an_constant index x d = ROk r -> rQ Q3 (cr_rel r).
Proof. unfold an_constant. intros H. injection H as <-. cbn [cr_rel]. apply rel_zero_rQ. Qed.

Theorem an_binary_rQ index x op y z d r : an_binary index x op y z d = ROk r -> rQ Q3 (cr_rel r).
Proof.
  unfold an_binary. intros H.
  destruct y as [y|], z as [z|]; cbv beta iota in H;
    try (eapply an_constant_rQ; exact H);
    match type of H with
    | context [create_vector ?a ?b ?c ?e ?f] =>
        destruct (create_vector a b c e f) as [[i' vec]|] eqn:E; [|discriminate]
    end;
    unfold rbind in H;
    match type of H with
    | context [leaf_rel ?a ?b ?c] => destruct (leaf_rel a b c) as [r0|] eqn:EL; [|discriminate]
    end;
    injection H as <-; cbn [cr_rel];
    (eapply leaf_rel_rQ; [exact EL | eapply create_vector_dom; exact E]).
Qed.

Theorem an_id_rQ index x y d r : an_id index x y d = ROk r -> rQ Q3 (cr_rel r).
Proof.
  unfold an_id. intros H. destruct (String.eqb x y).
  - unfold skip in H. injection H as <-. cbn [cr_rel]. apply rel_empty_rQ.
  - unfold rbind in H.
    destruct (leaf_rel _ _ x) as [r0|] eqn:EL; [|discriminate].
    injection H as <-. cbn [cr_rel]. eapply leaf_rel_rQ; [exact EL|].
    constructor; [apply pQ_zero_poly | constructor; [apply pQ_unit_poly | constructor]].
Qed.

(* ---------------- closed corollaries, in the vocabulary of An_stmts ---------------- *)

Theorem rel_dom_identity vars : rel_dom (rel_identity vars).
Proof. exact (rel_identity_rQ Q3 vars). Qed.

Theorem rel_dom_empty : rel_dom rel_empty.
Proof. exact (rel_empty_rQ Q3). Qed.

Theorem rel_dom_zero vars : rel_dom (rel_zero vars).
Proof. exact (rel_zero_rQ Q3 vars). Qed.

Theorem rel_dom_homogenisation r1 r2 : rel_dom r1 -> rel_dom r2 ->
  rel_dom (fst (homogenisation r1 r2)) /\ rel_dom (snd (homogenisation r1 r2)).
Proof. exact (homogenisation_rQ Q3 r1 r2). Qed.

Theorem rel_dom_sum a b : rel_dom a -> rel_dom b -> rel_dom (rel_sum a b).
Proof. exact (rel_sum_rQ Q3 a b). Qed.

Theorem rel_dom_comp a b : rel_dom a -> rel_dom b -> rel_dom (rel_comp a b).
Proof. exact (rel_comp_rQ Q3 a b). Qed.

Theorem rel_dom_fixpoint fuel r f : rel_fixpoint fuel r = Some f -> rel_dom r -> rel_dom f.
Proof. exact (rel_fixpoint_rQ Q3 fuel r f). Qed.

Theorem rel_dom_while_correction r : rel_dom r ->
  rel_dom (fst (while_correction r)) /\
  forall s, In s (snd (while_correction r)) -> Forall (fun d => fst d < 3) s.
Proof.
  intros H. destruct (while_correction_rQ Q3 r H) as [A B]. split; [exact A|].
  rewrite Forall_forall in B. exact B.
Qed.

Theorem rel_dom_loop_correction r x r' rec : loop_correction r x = Some (r', rec) -> rel_dom r ->
  rel_dom r' /\ forall s, In s rec -> Forall (fun d => fst d < 3) s.
Proof.
  intros E H. destruct (loop_correction_rQ Q3 r x r' rec E H) as [A B]. split; [exact A|].
  rewrite Forall_forall in B. exact B.
Qed.

Theorem rel_dom_replace_column r vector x r' :
  replace_column r vector x = Some r' -> Forall (fun p => Forall mdom p) vector -> rel_dom r'.
Proof. exact (replace_column_rQ Q3 r vector x r'). Qed.

Theorem rel_dom_an_binary index x op y z d r : an_binary index x op y z d = ROk r -> rel_dom (cr_rel r).
Proof. exact (an_binary_rQ index x op y z d r). Qed.

Theorem rel_dom_an_constant index x d r : an_constant index x d = ROk r -> rel_dom (cr_rel r).
Proof. exact (an_constant_rQ index x d r). Qed.

Theorem rel_dom_an_id index x y d r : an_id index x y d = ROk r -> rel_dom (cr_rel r).
Proof. exact (an_id_rQ index x y d r). Qed.

Theorem rel_dom_infinity_deltas r scalars recorded :
  rel_dom r -> (forall s, In s recorded -> Forall (fun d => fst d < 3) s) ->
  forall s, In s (rel_infinity_deltas r scalars recorded) -> Forall (fun d => fst d < 3) s.
Proof.
  intros Hr Hrec. apply Forall_forall. apply (rel_infinity_deltas_Q Q3); [exact Hr|].
  apply Forall_forall. exact Hrec.
Qed.

(* non-vacuity: a leaf relation of the analysis, its fixpoint and both corrections *)
Example rel_dom_example :
  exists r fx, an_binary 0 "x" "+" (AVar "x") (AVar "y") (DeltaGraph.dg_new 3) = ROk r /\
    rel_fixpoint 5 (cr_rel r) = Some fx /\ rel_dom fx /\
    snd (while_correction fx) <> [] /\ rel_dom (fst (while_correction fx)).
Proof.
  destruct (an_binary 0 "x" "+" (AVar "x") (AVar "y") (DeltaGraph.dg_new 3)) as [r|e] eqn:E;
    [|vm_compute in E; discriminate].
  destruct (rel_fixpoint 5 (cr_rel r)) as [fx|] eqn:F.
  - exists r, fx. pose proof (rel_dom_fixpoint _ _ _ F (rel_dom_an_binary _ _ _ _ _ _ _ E)) as D.
    repeat split; try assumption.
    + vm_compute in E. injection E as <-. vm_compute in F. injection F as <-. vm_compute. discriminate.
    + apply rel_dom_while_correction, D.
  - vm_compute in E. injection E as <-. vm_compute in F. discriminate.
Qed.

Print Assumptions mk_rel_rQ.
Print Assumptions rel_identity_rQ.
Print Assumptions rel_zero_rQ.
Print Assumptions rel_empty_rQ.
Print Assumptions homogenisation_rQ.
Print Assumptions rel_sum_rQ.
Print Assumptions rel_comp_rQ.
Print Assumptions rel_fixpoint_rQ.
Print Assumptions while_correction_rQ.
Print Assumptions loop_cell_Q.
Print Assumptions loop_correction_rQ.
Print Assumptions replace_column_rQ.
Print Assumptions leaf_rel_rQ.
Print Assumptions rel_infinity_deltas_Q.
Print Assumptions create_vector_dom.
Print Assumptions rel_dom_identity.
Print Assumptions rel_dom_empty.
Print Assumptions rel_dom_zero.
Print Assumptions rel_dom_homogenisation.
Print Assumptions rel_dom_sum.
Print Assumptions rel_dom_comp.
Print Assumptions rel_dom_fixpoint.
Print Assumptions rel_dom_while_correction.
Print Assumptions rel_dom_loop_correction.
Print Assumptions rel_dom_replace_column.
Print Assumptions rel_dom_an_binary.
Print Assumptions rel_dom_an_constant.
Print Assumptions rel_dom_an_id.
Print Assumptions rel_dom_infinity_deltas.
Print Assumptions rel_dom_example.
