(* Delta provenance: every delta occurring in the result of a monomial / polynomial operation is a
   delta of an operand.  Stated for an ARBITRARY predicate Q on deltas ([mQ], [pQ]) and then
   instantiated at [fun d => fst d < 3] (the three alternatives of a choice site).
   No well-formedness hypothesis is needed anywhere in this file. *)
From Coq Require Import String List Bool Arith Lia.
From PM Require Import Semiring Poly Poly_sem Poly_add Poly_times Rel Analysis Calculus Rel_sem Poly_wf.
Import ListNotations.
Open Scope list_scope.

(* ---------------- membership form (Q-free): deltas of the result come from the inputs ---------------- *)

Lemma insert_delta_In l : forall d r, insert_delta l d = Some r ->
  forall e, In e r -> e = d \/ In e l.
Proof.
  induction l as [|h t IH]; intros d r H e He; simpl in H.
  - injection H as <-. destruct He as [<-|[]]. left; reflexivity.
  - destruct (Nat.ltb (snd h) (snd d)).
    + destruct (insert_delta t d) as [r'|] eqn:E; [|discriminate]. injection H as <-.
      destruct He as [<-|He]; [right; left; reflexivity|].
      destruct (IH _ _ E _ He) as [->|Hi]; [left; reflexivity | right; right; exact Hi].
    + destruct (Nat.eqb (snd h) (snd d)).
      * destruct (Nat.eqb (fst h) (fst d)); [|discriminate]. injection H as <-. right; exact He.
      * injection H as <-. destruct He as [<-|He]; [left; reflexivity | right; exact He].
Qed.

Lemma insert_deltas_In s new : forall cur e,
  In e (ds (insert_deltas s cur new)) -> In e cur \/ In e new.
Proof.
  induction new as [|d t IH]; intros cur e H; cbn [insert_deltas] in H.
  - left; exact H.
  - destruct (insert_delta cur d) as [r|] eqn:E; [|simpl in H; destruct H].
    destruct (IH _ _ H) as [Hr|Ht]; [|right; right; exact Ht].
    destruct (insert_delta_In _ _ _ E _ Hr) as [->|Hc]; [right; left; reflexivity | left; exact Hc].
Qed.

Lemma mk_mono_In s l e : In e (ds (mk_mono s l)) -> In e l.
Proof.
  unfold mk_mono. intros H. apply insert_deltas_In in H. destruct H as [[]|H]. exact H.
Qed.

Lemma mono_copy_In m e : In e (ds (mono_copy m)) -> In e (ds m).
Proof. apply mk_mono_In. Qed.

Lemma mprod_In a b e : In e (ds (mprod a b)) -> In e (ds a) \/ In e (ds b).
Proof.
  unfold mprod. cbv zeta. intros H.
  assert (C : forall s,
    In e (ds (match ds b with
              | [] => Mono s (ds (mono_copy a))
              | _ :: _ => insert_deltas s (ds (mono_copy a)) (ds b)
              end)) -> In e (ds a) \/ In e (ds b)).
  { intros s. destruct (ds b) as [|d l]; intros H'.
    - left. apply mono_copy_In. exact H'.
    - apply insert_deltas_In in H'.
      destruct H' as [H'|H']; [left; apply mono_copy_In; exact H' | right; exact H']. }
  destruct (sprod (sc a) (sc b)); first [ exact (C _ H) | simpl in H; destruct H ].
Qed.

Lemma set_sc_ds m s : ds (set_sc m s) = ds m.
Proof. reflexivity. Qed.

(* ---------------- arbitrary predicate on deltas ---------------- *)

Section Generic.
Variable Q : delta -> Prop.

Definition mQ (m : mono) : Prop := Forall Q (ds m).
Definition pQ (p : poly) : Prop := Forall mQ p.

Lemma mQ_zero_mono : mQ (Mono O []).
Proof. constructor. Qed.

Lemma insert_delta_Q l d r : insert_delta l d = Some r -> Forall Q l -> Q d -> Forall Q r.
Proof.
  intros H Hl Hd. apply Forall_forall. intros e He.
  destruct (insert_delta_In _ _ _ H _ He) as [->|Hi]; [exact Hd|].
  rewrite Forall_forall in Hl. apply Hl, Hi.
Qed.

Lemma insert_deltas_mQ s cur new : Forall Q cur -> Forall Q new -> mQ (insert_deltas s cur new).
Proof.
  intros Hc Hn. apply Forall_forall. intros e He.
  rewrite Forall_forall in Hc, Hn.
  destruct (insert_deltas_In _ _ _ _ He) as [H|H]; [apply Hc, H | apply Hn, H].
Qed.

Lemma mk_mono_mQ s l : Forall Q l -> mQ (mk_mono s l).
Proof. intros H. unfold mk_mono. apply insert_deltas_mQ; [constructor | exact H]. Qed.

Lemma mono_copy_mQ m : mQ m -> mQ (mono_copy m).
Proof. intros H. apply mk_mono_mQ. exact H. Qed.

Lemma mprod_mQ a b : mQ a -> mQ b -> mQ (mprod a b).
Proof.
  intros Ha Hb. apply Forall_forall. intros e He. unfold mQ in Ha, Hb.
  rewrite Forall_forall in Ha, Hb.
  destruct (mprod_In _ _ _ He) as [H|H]; [apply Ha, H | apply Hb, H].
Qed.

Lemma set_sc_mQ m s : mQ m -> mQ (set_sc m s).
Proof. exact (fun H => H). Qed.

(* ---------------- Polynomial.add ---------------- *)

Lemma add_tail_mQ rest : forall nl i, Forall mQ nl -> Forall mQ rest -> Forall mQ (add_tail nl rest i).
Proof.
  induction rest as [|m t IH]; intros nl i Hn Hr; simpl; [exact Hn|].
  inversion Hr; subst.
  destruct (pincl nl m i) as [[tobe i'] nl'] eqn:E.
  pose proof (pincl_forall mQ _ _ _ _ _ _ E Hn) as Hn'.
  apply IH; [|assumption]. destruct tobe; [apply Forall_snoc; assumption | exact Hn'].
Qed.

Lemma add_loop_mQ fuel : forall nl q i r,
  add_loop fuel nl q i = Some r -> Forall mQ nl -> Forall mQ q -> Forall mQ r.
Proof.
  induction fuel as [|f IH]; intros nl q i r H Hn Hq; cbn [add_loop] in H; [discriminate|].
  destruct q as [|mono2 q'].
  - injection H as <-. exact Hn.
  - destruct (pincl nl mono2 i) as [[tobe i1] nl1] eqn:E.
    pose proof (pincl_forall mQ _ _ _ _ _ _ E Hn) as Hn1.
    pose proof Hq as Hq0. inversion Hq as [|? ? Hm2 Hq']; subst.
    destruct tobe; cbn [negb] in H; cbv iota in H.
    + destruct (Nat.eqb i1 (length nl1)).
      * assert (r = add_tail nl1 (mono2 :: q') i1) as -> by congruence.
        apply add_tail_mQ; assumption.
      * destruct (nth_error nl1 i1) as [mono1|] eqn:En; [|discriminate].
        destruct (compare (ds mono1) (ds mono2)).
        -- eapply IH; [exact H | exact Hn1 | exact Hq0].
        -- eapply IH; [exact H | | exact Hq'].
           apply list_update_forall; [intros a Ha; exact Ha | exact Hn1].
        -- eapply IH; [exact H | | exact Hq'].
           apply list_insert_forall; assumption.
    + eapply IH; [exact H | exact Hn1 | exact Hq'].
Qed.

Lemma merge_fuel_mQ f : forall l r, Forall mQ l -> Forall mQ r -> Forall mQ (merge_fuel f l r).
Proof.
  induction f as [|f IH]; intros l r Hl Hr; simpl.
  - apply Forall_app. tauto.
  - destruct l as [|lh lt]; [apply Forall_app; tauto|].
    destruct r as [|rh rt]; [apply Forall_app; tauto|].
    inversion Hl; subst. inversion Hr; subst.
    destruct (compare (ds lh) (ds rh)).
    + constructor; [assumption | apply IH; assumption].
    + destruct (ssum (sc lh) (sc rh)); try (apply IH; assumption);
        (constructor; [apply set_sc_mQ; assumption | apply IH; assumption]).
    + constructor; [assumption | apply IH; assumption].
Qed.

Lemma sort_fuel_mQ f : forall l, Forall mQ l -> Forall mQ (sort_fuel f l).
Proof.
  induction f as [|f IH]; intros l Hl; simpl; [exact Hl|].
  destruct l as [|a [|b t]]; try exact Hl.
  unfold merge. apply merge_fuel_mQ; apply IH; [apply skipn_forall | apply firstn_forall]; exact Hl.
Qed.

Lemma sort_monomials_mQ l : Forall mQ l -> Forall mQ (sort_monomials l).
Proof. apply sort_fuel_mQ. Qed.

Lemma pQ_zero_poly : pQ zero_poly.
Proof. constructor; [apply mQ_zero_mono | constructor]. Qed.

Lemma pQ_unit_poly : pQ unit_poly.
Proof. constructor; [constructor | constructor]. Qed.

Lemma mk_poly_pQ l : Forall mQ l -> pQ (mk_poly l).
Proof. destruct l; intros H; [apply pQ_zero_poly | exact H]. Qed.

Lemma remove_zeros_pQ l : Forall mQ l -> pQ (remove_zeros l).
Proof.
  intros H. unfold remove_zeros.
  pose proof (filter_forall mQ (fun m => negb (is_O (sc m))) l H) as Hf.
  destruct (filter (fun m => negb (is_O (sc m))) l); [apply pQ_zero_poly | exact Hf].
Qed.

Lemma map_copy_mQ p : pQ p -> Forall mQ (map mono_copy p).
Proof.
  intros H. apply Forall_forall. intros m Hm. apply in_map_iff in Hm. destruct Hm as [x [<- Hx]].
  apply mono_copy_mQ. unfold pQ in H. rewrite Forall_forall in H. apply H, Hx.
Qed.

Lemma poly_copy_pQ p : pQ p -> pQ (poly_copy p).
Proof. intros H. unfold poly_copy. apply mk_poly_pQ, map_copy_mQ, H. Qed.

Theorem padd_pQ p q : pQ p -> pQ q -> pQ (padd p q).
Proof.
  intros Hp Hq. unfold padd. destruct (padd_opt_total p q) as [r Hr]. rewrite Hr.
  unfold padd_opt in Hr. destruct p as [|a p]; destruct q as [|b q].
  - injection Hr as <-. apply pQ_zero_poly.
  - injection Hr as <-. apply poly_copy_pQ, Hq.
  - injection Hr as <-. apply poly_copy_pQ, Hp.
  - destruct (add_loop _ _ _ _) as [nl|] eqn:E; [|discriminate]. injection Hr as <-.
    apply remove_zeros_pQ. apply mk_poly_pQ. apply sort_monomials_mQ.
    eapply add_loop_mQ; [exact E | apply poly_copy_pQ, Hp | exact Hq].
Qed.

(* ---------------- Polynomial.times ---------------- *)

Lemma insert_row_mQ row rows : Forall mQ row -> Forall (Forall mQ) rows ->
  Forall (Forall mQ) (insert_row row rows).
Proof.
  intros Hr. induction rows as [|r rs IH]; intros H; simpl.
  - constructor; [exact Hr | constructor].
  - inversion H; subst. destruct row as [|m1 t1]; [constructor; auto|].
    destruct r as [|m2 t2]; [constructor; auto|].
    destruct (compare (ds m1) (ds m2)); constructor; auto.
Qed.

Lemma fold_insert_row_mQ rest : forall acc,
  Forall (Forall mQ) rest -> Forall (Forall mQ) acc ->
  Forall (Forall mQ) (fold_left (fun a r => insert_row r a) rest acc).
Proof.
  induction rest as [|r rs IH]; intros acc H1 H2; simpl; [exact H2|].
  inversion H1; subst. apply IH; [assumption | apply insert_row_mQ; assumption].
Qed.

Lemma order_rows_mQ table : Forall (Forall mQ) table -> Forall (Forall mQ) (order_rows table).
Proof.
  destruct table as [|r0 rest]; intros H; [constructor|]. unfold order_rows.
  inversion H; subst. apply fold_insert_row_mQ; [assumption | constructor; [assumption | constructor]].
Qed.

Lemma table_of_mQ p q : pQ p -> pQ q -> Forall (Forall mQ) (table_of p q).
Proof.
  intros Hp Hq. unfold pQ in Hp, Hq. rewrite Forall_forall in Hp, Hq.
  unfold table_of, products. apply filter_forall. apply Forall_forall. intros row Hrow.
  apply in_map_iff in Hrow. destruct Hrow as [m2 [<- H2]]. apply filter_forall.
  apply Forall_forall. intros m Hm. apply in_map_iff in Hm. destruct Hm as [m1 [<- H1]].
  apply mprod_mQ; [apply Hp, H1 | apply Hq, H2].
Qed.

Lemma merge_rows_mQ fuel : forall rows result r,
  merge_rows fuel rows result = Some r -> Forall (Forall mQ) rows -> Forall mQ result -> Forall mQ r.
Proof.
  induction fuel as [|f IH]; intros rows result r H Hrows Hres; cbn [merge_rows] in H.
  - destruct rows; [|discriminate]. injection H as <-. exact Hres.
  - destruct rows as [|row rest]; [injection H as <-; exact Hres|].
    inversion Hrows as [|? ? Hrow Hrest]; subst.
    destruct row as [|m tl]; [eapply IH; eassumption|].
    inversion Hrow as [|? ? Hm Htl]; subst.
    destruct (pincl result m 0) as [[tobe i'] res1] eqn:E. cbv beta iota in H.
    pose proof (pincl_forall mQ _ _ _ _ _ _ E Hres) as Hres1.
    eapply IH; [exact H | |].
    + destruct tl; [exact Hrest | apply insert_row_mQ; assumption].
    + destruct tobe; [apply Forall_snoc; assumption | exact Hres1].
Qed.

Theorem ptimes_pQ p q : pQ p -> pQ q -> pQ (ptimes p q).
Proof.
  intros Hp Hq. unfold ptimes. destruct (ptimes_opt_total p q) as [r Hr]. rewrite Hr.
  unfold ptimes_opt in Hr. pose proof (table_of_mQ p q Hp Hq) as Ht.
  destruct (table_of p q) as [|r0 rest]; [injection Hr as <-; apply pQ_zero_poly|].
  destruct (merge_rows _ _ _) as [res|] eqn:Em; [|discriminate]. injection Hr as <-.
  apply remove_zeros_pQ. apply mk_poly_pQ.
  eapply merge_rows_mQ; [exact Em | apply order_rows_mQ, Ht | constructor].
Qed.

(* ---------------- leaves and corrections ---------------- *)

Theorem from_scalars_pQ i l : (forall n, n < length l -> Q (n, i)) -> pQ (from_scalars i l).
Proof.
  intros H. unfold from_scalars. apply mk_poly_pQ. apply Forall_forall. intros m Hm.
  apply in_map_iff in Hm. destruct Hm as [[n s] [<- Hns]].
  apply in_combine_l in Hns. apply in_seq in Hns.
  apply mk_mono_mQ. constructor; [apply H; lia | constructor].
Qed.

Lemma singleton_copy_pQ m : mQ m -> pQ [mono_copy m].
Proof. intros H. constructor; [apply mono_copy_mQ, H | constructor]. Qed.

Lemma set_sc_map_pQ s p : pQ p -> pQ (map (fun m => set_sc m s) p).
Proof.
  intros H. apply Forall_forall. intros m Hm. apply in_map_iff in Hm. destruct Hm as [x [<- Hx]].
  apply set_sc_mQ. unfold pQ in H. rewrite Forall_forall in H. apply H, Hx.
Qed.

(* the map applied to a cell by while_correction / loop_correction *)
Theorem corr_map_pQ (bad : Sc -> bool) p :
  pQ p -> pQ (map (fun m => if bad (sc m) then set_sc m I else m) p).
Proof.
  intros H. apply Forall_forall. intros m Hm. apply in_map_iff in Hm. destruct Hm as [x [<- Hx]].
  unfold pQ in H. rewrite Forall_forall in H. specialize (H _ Hx).
  destruct (bad (sc x)); [apply set_sc_mQ, H | exact H].
Qed.

Lemma filter_pQ f p : pQ p -> pQ (filter f p).
Proof. apply filter_forall. Qed.

(* the delta lists a correction records *)
Lemma map_ds_Q p : pQ p -> Forall (Forall Q) (map ds p).
Proof.
  intros H. apply Forall_forall. intros s Hs. apply in_map_iff in Hs. destruct Hs as [m [<- Hm]].
  unfold pQ in H. rewrite Forall_forall in H. apply (H _ Hm).
Qed.

Theorem corr_cell_pQ bad p : pQ p ->
  pQ (fst (corr_cell bad p)) /\ Forall (Forall Q) (snd (corr_cell bad p)).
Proof.
  intros H. unfold corr_cell. simpl. split.
  - apply corr_map_pQ, H.
  - apply map_ds_Q, filter_pQ, H.
Qed.

(* Polynomial.eval: the delta lists of selected monomials *)
Lemma peval_Q p scalars : pQ p -> Forall (Forall Q) (peval p scalars).
Proof. intros H. unfold peval. apply map_ds_Q, filter_pQ, H. Qed.

End Generic.

(* monotonicity in the predicate *)
Lemma mQ_impl (Q R : delta -> Prop) : (forall d, Q d -> R d) -> forall m, mQ Q m -> mQ R m.
Proof. intros H m. unfold mQ. apply Forall_impl. exact H. Qed.

Lemma pQ_impl (Q R : delta -> Prop) : (forall d, Q d -> R d) -> forall p, pQ Q p -> pQ R p.
Proof. intros H p. unfold pQ. apply Forall_impl. apply mQ_impl. exact H. Qed.

(* ---------------- instance: delta values below the degree ---------------- *)

Definition Q3 : delta -> Prop := fun d => fst d < 3.

Theorem from_scalars_dom i l : length l <= 3 -> pQ Q3 (from_scalars i l).
Proof. intros H. apply from_scalars_pQ. intros n Hn. unfold Q3. simpl. lia. Qed.

Theorem poly_of_triple_dom i t : pQ Q3 (poly_of_triple i t).
Proof. destruct t as [[a b] c]. unfold poly_of_triple. apply from_scalars_dom. simpl. lia. Qed.

Definition padd_dom := padd_pQ Q3.
Definition ptimes_dom := ptimes_pQ Q3.
Definition mprod_dom := mprod_mQ Q3.
Definition zero_poly_dom := pQ_zero_poly Q3.
Definition unit_poly_dom := pQ_unit_poly Q3.
Definition corr_map_dom := corr_map_pQ Q3.

(* the bound is tight and the hypothesis of from_scalars_pQ is needed: a fourth scalar yields value 3 *)
Example from_scalars_four : ~ pQ Q3 (from_scalars 0 [M; M; M; M]).
Proof.
  intros H. unfold pQ in H. rewrite Forall_forall in H.
  specialize (H (Mono M [(3, 0)])). simpl in H.
  assert (A : mQ Q3 (Mono M [(3, 0)])) by (apply H; tauto).
  inversion A as [|? ? B _]; subst. unfold Q3 in B. simpl in B. lia.
Qed.

(* non-vacuity *)
Example dom_example :
  pQ Q3 (padd (from_scalars 1 [M; P; W]) (ptimes (from_scalars 0 [W; W; W]) (from_scalars 2 [M; M; I]))).
Proof. apply padd_dom; [|apply ptimes_dom]; apply from_scalars_dom; simpl; lia. Qed.

Print Assumptions insert_delta_In.
Print Assumptions insert_deltas_In.
Print Assumptions mprod_In.
Print Assumptions insert_delta_Q.
Print Assumptions insert_deltas_mQ.
Print Assumptions mk_mono_mQ.
Print Assumptions mono_copy_mQ.
Print Assumptions mprod_mQ.
Print Assumptions set_sc_mQ.
Print Assumptions padd_pQ.
Print Assumptions ptimes_pQ.
Print Assumptions pQ_zero_poly.
Print Assumptions pQ_unit_poly.
Print Assumptions from_scalars_pQ.
Print Assumptions corr_map_pQ.
Print Assumptions corr_cell_pQ.
Print Assumptions peval_Q.
Print Assumptions from_scalars_dom.
Print Assumptions poly_of_triple_dom.
