(* C05: the gate (Coverage) against the dispatch of the analysis.  On the unchanged tree the
   full-strength statements are false of the faithful model; the witnesses below are the shrunk
   inputs found by the search of tools/props/c05.py (they replay on the real code). *)
From Coq Require Import String List Bool Arith Lia.
From PMGen Require Import SyntaxGen PycSchema.
From PM Require Import Tree Syntax Syntax_proofs.
Import ListNotations.
Open Scope string_scope.
Open Scope list_scope.

(* void f(int x, int y, int z) { <body> } *)
Definition fn_decl : node :=
  (Node "Decl" (aC "name" "f" (aC "quals" "" (aC "align" "" (aC "storage" "" (aC "funcspec" "" aN))))) (kC "type" (lC (Node "FuncDecl" aN (kC "args" (lC (Node "ParamList" aN (kC "params" (lC (Node "Decl" (aC "name" "x" (aC "quals" "" (aC "align" "" (aC "storage" "" (aC "funcspec" "" aN))))) (kC "type" (lC (Node "TypeDecl" (aC "declname" "x" (aC "quals" "" (aC "align" "" aN))) (kC "type" (lC (Node "IdentifierType" (aC "names" "int" aN) kN) lN) kN)) lN) (kC "init" lN (kC "bitsize" lN kN)))) (lC (Node "Decl" (aC "name" "y" (aC "quals" "" (aC "align" "" (aC "storage" "" (aC "funcspec" "" aN))))) (kC "type" (lC (Node "TypeDecl" (aC "declname" "y" (aC "quals" "" (aC "align" "" aN))) (kC "type" (lC (Node "IdentifierType" (aC "names" "int" aN) kN) lN) kN)) lN) (kC "init" lN (kC "bitsize" lN kN)))) (lC (Node "Decl" (aC "name" "z" (aC "quals" "" (aC "align" "" (aC "storage" "" (aC "funcspec" "" aN))))) (kC "type" (lC (Node "TypeDecl" (aC "declname" "z" (aC "quals" "" (aC "align" "" aN))) (kC "type" (lC (Node "IdentifierType" (aC "names" "int" aN) kN) lN) kN)) lN) (kC "init" lN (kC "bitsize" lN kN)))) lN))) kN)) lN) (kC "type" (lC (Node "TypeDecl" (aC "declname" "f" (aC "quals" "" (aC "align" "" aN))) (kC "type" (lC (Node "IdentifierType" (aC "names" "void" aN) kN) lN) kN)) lN) kN))) lN) (kC "init" lN (kC "bitsize" lN kN)))).

Definition fn_xyz (body : list node) : node :=
  Node "FuncDef" aN (kC "decl" (lC fn_decl lN) (kC "param_decls" lN (kC "body" (lC (Node "Compound" aN (kC "block_items" body kN)) lN) kN))).

(* L: x = y * z; *)
Definition w_label : node := fn_xyz
  (lC (Node "Label" (aC "name" "L" aN) (kC "stmt" (lC (Node "Assignment" (aC "op" "=" aN) (kC "lvalue" (lC (Node "ID" (aC "name" "x" aN) kN) lN) (kC "rvalue" (lC (Node "BinaryOp" (aC "op" "*" aN) (kC "left" (lC (Node "ID" (aC "name" "y" aN) kN) lN) (kC "right" (lC (Node "ID" (aC "name" "z" aN) kN) lN) kN))) lN) kN))) lN) kN)) lN).

(* x = y, y = z * z; *)
Definition w_comma : node := fn_xyz
  (lC (Node "ExprList" aN (kC "exprs" (lC (Node "Assignment" (aC "op" "=" aN) (kC "lvalue" (lC (Node "ID" (aC "name" "x" aN) kN) lN) (kC "rvalue" (lC (Node "ID" (aC "name" "y" aN) kN) lN) kN))) (lC (Node "Assignment" (aC "op" "=" aN) (kC "lvalue" (lC (Node "ID" (aC "name" "y" aN) kN) lN) (kC "rvalue" (lC (Node "BinaryOp" (aC "op" "*" aN) (kC "left" (lC (Node "ID" (aC "name" "z" aN) kN) lN) (kC "right" (lC (Node "ID" (aC "name" "z" aN) kN) lN) kN))) lN) kN))) lN)) kN)) lN).

(* x = -(-y); *)
Definition w_negneg : node := fn_xyz
  (lC (Node "Assignment" (aC "op" "=" aN) (kC "lvalue" (lC (Node "ID" (aC "name" "x" aN) kN) lN) (kC "rvalue" (lC (Node "UnaryOp" (aC "op" "-" aN) (kC "expr" (lC (Node "UnaryOp" (aC "op" "-" aN) (kC "expr" (lC (Node "ID" (aC "name" "y" aN) kN) lN) kN)) lN) kN)) lN) kN))) lN).

(* x = -(int)y; *)
Definition w_negcast : node := fn_xyz
  (lC (Node "Assignment" (aC "op" "=" aN) (kC "lvalue" (lC (Node "ID" (aC "name" "x" aN) kN) lN) (kC "rvalue" (lC (Node "UnaryOp" (aC "op" "-" aN) (kC "expr" (lC (Node "Cast" aN (kC "to_type" (lC (Node "Typename" (aC "quals" "" (aC "align" "" aN)) (kC "type" (lC (Node "TypeDecl" (aC "quals" "" (aC "align" "" aN)) (kC "type" (lC (Node "IdentifierType" (aC "names" "int" aN) kN) lN) kN)) lN) kN)) lN) (kC "expr" (lC (Node "ID" (aC "name" "y" aN) kN) lN) kN))) lN) kN)) lN) kN))) lN).

(* - x++; *)
Definition w_neg_inc : node := fn_xyz
  (lC (Node "UnaryOp" (aC "op" "-" aN) (kC "expr" (lC (Node "UnaryOp" (aC "op" "p++" aN) (kC "expr" (lC (Node "ID" (aC "name" "x" aN) kN) lN) kN)) lN) kN)) lN).

(* (int)x++; *)
Definition w_cast_inc : node := fn_xyz
  (lC (Node "Cast" aN (kC "to_type" (lC (Node "Typename" (aC "quals" "" (aC "align" "" aN)) (kC "type" (lC (Node "TypeDecl" (aC "quals" "" (aC "align" "" aN)) (kC "type" (lC (Node "IdentifierType" (aC "names" "int" aN) kN) lN) kN)) lN) kN)) lN) (kC "expr" (lC (Node "UnaryOp" (aC "op" "p++" aN) (kC "expr" (lC (Node "ID" (aC "name" "x" aN) kN) lN) kN)) lN) kN))) lN).

(* return x = y * z; *)
Definition w_return_asg : node := fn_xyz
  (lC (Node "Return" aN (kC "expr" (lC (Node "Assignment" (aC "op" "=" aN) (kC "lvalue" (lC (Node "ID" (aC "name" "x" aN) kN) lN) (kC "rvalue" (lC (Node "BinaryOp" (aC "op" "*" aN) (kC "left" (lC (Node "ID" (aC "name" "y" aN) kN) lN) (kC "right" (lC (Node "ID" (aC "name" "z" aN) kN) lN) kN))) lN) kN))) lN) kN)) lN).

(* if (x++ > 0) { y = z; } *)
Definition w_if_inc : node := fn_xyz
  (lC (Node "If" aN (kC "cond" (lC (Node "BinaryOp" (aC "op" ">" aN) (kC "left" (lC (Node "UnaryOp" (aC "op" "p++" aN) (kC "expr" (lC (Node "ID" (aC "name" "x" aN) kN) lN) kN)) lN) (kC "right" (lC (Node "Constant" (aC "type" "int" (aC "value" "0" aN)) kN) lN) kN))) lN) (kC "iftrue" (lC (Node "Compound" aN (kC "block_items" (lC (Node "Assignment" (aC "op" "=" aN) (kC "lvalue" (lC (Node "ID" (aC "name" "y" aN) kN) lN) (kC "rvalue" (lC (Node "ID" (aC "name" "z" aN) kN) lN) kN))) lN) kN)) lN) (kC "iffalse" lN kN)))) lN).

(* while ((x = x * y) < z) { y = z; } *)
Definition w_while_asg : node := fn_xyz
  (lC (Node "While" aN (kC "cond" (lC (Node "BinaryOp" (aC "op" "<" aN) (kC "left" (lC (Node "Assignment" (aC "op" "=" aN) (kC "lvalue" (lC (Node "ID" (aC "name" "x" aN) kN) lN) (kC "rvalue" (lC (Node "BinaryOp" (aC "op" "*" aN) (kC "left" (lC (Node "ID" (aC "name" "x" aN) kN) lN) (kC "right" (lC (Node "ID" (aC "name" "y" aN) kN) lN) kN))) lN) kN))) lN) (kC "right" (lC (Node "ID" (aC "name" "z" aN) kN) lN) kN))) lN) (kC "stmt" (lC (Node "Compound" aN (kC "block_items" (lC (Node "Assignment" (aC "op" "=" aN) (kC "lvalue" (lC (Node "ID" (aC "name" "y" aN) kN) lN) (kC "rvalue" (lC (Node "ID" (aC "name" "z" aN) kN) lN) kN))) lN) kN)) lN) kN))) lN).

(* x = !y++; *)
Definition w_not_inc : node := fn_xyz
  (lC (Node "Assignment" (aC "op" "=" aN) (kC "lvalue" (lC (Node "ID" (aC "name" "x" aN) kN) lN) (kC "rvalue" (lC (Node "UnaryOp" (aC "op" "!" aN) (kC "expr" (lC (Node "UnaryOp" (aC "op" "p++" aN) (kC "expr" (lC (Node "ID" (aC "name" "y" aN) kN) lN) kN)) lN) kN)) lN) kN))) lN).

(* assert(x++ > 0); *)
Definition w_assert_inc : node := fn_xyz
  (lC (Node "FuncCall" aN (kC "name" (lC (Node "ID" (aC "name" "assert" aN) kN) lN) (kC "args" (lC (Node "ExprList" aN (kC "exprs" (lC (Node "BinaryOp" (aC "op" ">" aN) (kC "left" (lC (Node "UnaryOp" (aC "op" "p++" aN) (kC "expr" (lC (Node "ID" (aC "name" "x" aN) kN) lN) kN)) lN) (kC "right" (lC (Node "Constant" (aC "type" "int" (aC "value" "0" aN)) kN) lN) kN))) lN) kN)) lN) kN))) lN).

(* x + y; *)
Definition w_expr_stmt : node := fn_xyz
  (lC (Node "BinaryOp" (aC "op" "+" aN) (kC "left" (lC (Node "ID" (aC "name" "x" aN) kN) lN) (kC "right" (lC (Node "ID" (aC "name" "y" aN) kN) lN) kN))) lN).

(* x = y + z; while (x < y) { y = y * x; } if (x > 0) { x++; } else { z = -y; } *)
Definition w_ok : node := fn_xyz
  (lC (Node "Assignment" (aC "op" "=" aN) (kC "lvalue" (lC (Node "ID" (aC "name" "x" aN) kN) lN) (kC "rvalue" (lC (Node "BinaryOp" (aC "op" "+" aN) (kC "left" (lC (Node "ID" (aC "name" "y" aN) kN) lN) (kC "right" (lC (Node "ID" (aC "name" "z" aN) kN) lN) kN))) lN) kN))) (lC (Node "While" aN (kC "cond" (lC (Node "BinaryOp" (aC "op" "<" aN) (kC "left" (lC (Node "ID" (aC "name" "x" aN) kN) lN) (kC "right" (lC (Node "ID" (aC "name" "y" aN) kN) lN) kN))) lN) (kC "stmt" (lC (Node "Compound" aN (kC "block_items" (lC (Node "Assignment" (aC "op" "=" aN) (kC "lvalue" (lC (Node "ID" (aC "name" "y" aN) kN) lN) (kC "rvalue" (lC (Node "BinaryOp" (aC "op" "*" aN) (kC "left" (lC (Node "ID" (aC "name" "y" aN) kN) lN) (kC "right" (lC (Node "ID" (aC "name" "x" aN) kN) lN) kN))) lN) kN))) lN) kN)) lN) kN))) (lC (Node "If" aN (kC "cond" (lC (Node "BinaryOp" (aC "op" ">" aN) (kC "left" (lC (Node "ID" (aC "name" "x" aN) kN) lN) (kC "right" (lC (Node "Constant" (aC "type" "int" (aC "value" "0" aN)) kN) lN) kN))) lN) (kC "iftrue" (lC (Node "Compound" aN (kC "block_items" (lC (Node "UnaryOp" (aC "op" "p++" aN) (kC "expr" (lC (Node "ID" (aC "name" "x" aN) kN) lN) kN)) lN) kN)) lN) (kC "iffalse" (lC (Node "Compound" aN (kC "block_items" (lC (Node "Assignment" (aC "op" "=" aN) (kC "lvalue" (lC (Node "ID" (aC "name" "z" aN) kN) lN) (kC "rvalue" (lC (Node "UnaryOp" (aC "op" "-" aN) (kC "expr" (lC (Node "ID" (aC "name" "y" aN) kN) lN) kN)) lN) kN))) lN) kN)) lN) kN)))) lN))).

Definition kinds_of (f : node) : list string := map fst (c05_bad f).

(* the gate accepts each of these and the analysis loses something *)
Definition accepted_and_lossy (f : node) (k : string) : Prop :=
  wf_pyc f = true /\ is_func f = true /\ full f = true /\ In k (kinds_of f).

Lemma no_skip_refuted :
  accepted_and_lossy w_label "unsupported" /\ accepted_and_lossy w_comma "unsupported" /\
  accepted_and_lossy w_negneg "unsupported" /\ accepted_and_lossy w_negcast "unsupported" /\
  accepted_and_lossy w_cast_inc "unsupported" /\ accepted_and_lossy w_expr_stmt "unsupported".
Proof. unfold accepted_and_lossy. vm_compute. intuition. Qed.

Lemma no_dropped_effect_refuted :
  accepted_and_lossy w_neg_inc "dropped" /\ accepted_and_lossy w_return_asg "dropped" /\
  accepted_and_lossy w_not_inc "dropped" /\ accepted_and_lossy w_assert_inc "dropped".
Proof. unfold accepted_and_lossy. vm_compute. intuition. Qed.

Lemma no_effect_in_conditions_refuted :
  accepted_and_lossy w_if_inc "cond" /\ accepted_and_lossy w_while_asg "cond".
Proof. unfold accepted_and_lossy. vm_compute. intuition. Qed.

(* the converse direction read as an implication: "the analysis cannot model it -> the gate rejects" *)
Lemma converse_refuted : exists f, wf_pyc f = true /\ is_func f = true /\ c05_bad f <> [] /\ full f = true.
Proof. exists w_label. vm_compute. repeat split; discriminate. Qed.

(* non-vacuity of [full] and of the specification: an ordinary function is accepted and nothing is lost *)
Example accepted_and_clean : wf_pyc w_ok = true /\ is_func w_ok = true /\ full w_ok = true /\ c05_bad w_ok = [].
Proof. vm_compute. repeat split. Qed.

(* what IS proved for every tree: the rewriting of `x = <unary> y` never reaches the skip path when it
   produces a new statement, i.e. [unary_asgn_events] warns only when no rule applies *)
Lemma unary_asgn_total u rp :
  unary_asgn_events u rp = [Ev KUnsupported []] \/
  (exists r, unary_asgn_events u rp = Ev KFlow [] :: r /\ forall e, In e r -> exists k p, e = Ev k p /\ (k = KDropEval \/ k = KDropSizeof)).
Proof.
  unfold unary_asgn_events.
  destruct (attr_is u "op" OP_SIZEOF); [right; eexists; split; [reflexivity|]; intros e [<-|[]]; eauto|].
  destruct (attr_is u "op" OP_NEG); [right; eexists; split; [reflexivity|]; intros e [<-|[]]; eauto|].
  destruct (ois_cls "Constant" (kid1 u "expr")); [right; exists []; split; [reflexivity | intros e []]|].
  destruct (_ && _); [right; exists []; split; [reflexivity | intros e []] | left; reflexivity].
Qed.
