From Coq Require Import String List Bool Arith Lia.
From PMGen Require Import SemiringGen.
From PM Require Import Semiring.
Import ListNotations.
Open Scope string_scope.

Definition bind2 (f : string -> string -> option string) (a b : option string) : option string :=
  match a, b with Some x, Some y => f x y | _, _ => None end.

Lemma keys_literal : KEYS = ["o"; "m"; "w"; "p"; "i"].
Proof. reflexivity. Qed.

Ltac typed a Ha := let s := fresh "s" in apply in_keys_typed in Ha; destruct Ha as [s ->].

Lemma sc_str_in_keys s : In (sc_str s) KEYS.
Proof. rewrite keys_are. apply in_map. apply all_sc_complete. Qed.

Lemma total_on_keys a b : In a KEYS -> In b KEYS ->
  (exists r, prod_src a b = Some r /\ In r KEYS) /\ (exists r, sum_src a b = Some r /\ In r KEYS).
Proof.
  intros Ha Hb. typed a Ha. typed b Hb. split.
  - eexists. split; [apply typed_agrees_prod | apply sc_str_in_keys].
  - eexists. split; [apply typed_agrees_sum | apply sc_str_in_keys].
Qed.

Lemma comm_src a b : In a KEYS -> In b KEYS ->
  prod_src a b = prod_src b a /\ sum_src a b = sum_src b a.
Proof.
  intros Ha Hb. typed a Ha. typed b Hb.
  rewrite !typed_agrees_prod, !typed_agrees_sum, sprod_comm, ssum_comm. split; reflexivity.
Qed.

Lemma assoc_src a b c : In a KEYS -> In b KEYS -> In c KEYS ->
  bind2 prod_src (Some a) (prod_src b c) = bind2 prod_src (prod_src a b) (Some c) /\
  bind2 sum_src (Some a) (sum_src b c) = bind2 sum_src (sum_src a b) (Some c).
Proof.
  intros Ha Hb Hc. typed a Ha. typed b Hb. typed c Hc.
  rewrite !typed_agrees_prod, !typed_agrees_sum. cbn [bind2].
  rewrite !typed_agrees_prod, !typed_agrees_sum, sprod_assoc, ssum_assoc. split; reflexivity.
Qed.

Lemma distr_src a b c : In a KEYS -> In b KEYS -> In c KEYS ->
  bind2 prod_src (Some a) (sum_src b c) = bind2 sum_src (prod_src a b) (prod_src a c) /\
  bind2 prod_src (sum_src a b) (Some c) = bind2 sum_src (prod_src a c) (prod_src b c).
Proof.
  intros Ha Hb Hc. typed a Ha. typed b Hb. typed c Hc.
  rewrite !typed_agrees_prod, !typed_agrees_sum. cbn [bind2].
  rewrite !typed_agrees_prod, !typed_agrees_sum, sprod_ssum_distr_l, sprod_ssum_distr_r. split; reflexivity.
Qed.

Lemma sum_idem_max_src a b : In a KEYS -> In b KEYS ->
  sum_src a a = Some a /\
  exists r ia ib ir, sum_src a b = Some r /\ index_of a KEYS = Some ia /\ index_of b KEYS = Some ib /\
     index_of r KEYS = Some ir /\ ir = Nat.max ia ib.
Proof.
  intros Ha Hb. typed a Ha. typed b Hb. split.
  - rewrite typed_agrees_sum, ssum_idem. reflexivity.
  - exists (sc_str (ssum s s0)), (rank s), (rank s0), (rank (ssum s s0)).
    rewrite typed_agrees_sum, !rank_is_keys_index, ssum_is_max. repeat split; reflexivity.
Qed.

Lemma units_src a : In a KEYS ->
  prod_src "m" a = Some a /\ prod_src a "m" = Some a /\ sum_src "o" a = Some a /\ sum_src a "o" = Some a.
Proof.
  intros Ha. typed a Ha.
  change "m" with (sc_str M). change "o" with (sc_str O).
  rewrite !typed_agrees_prod, !typed_agrees_sum, sprod_M_l, sprod_M_r, ssum_O_l, ssum_O_r.
  repeat split; reflexivity.
Qed.

Lemma infty_src a : In a KEYS ->
  prod_src "i" a = Some "i" /\ prod_src a "i" = Some "i" /\
  sum_src "i" a = Some "i" /\ sum_src a "i" = Some "i".
Proof.
  intros Ha. typed a Ha. change "i" with (sc_str I).
  rewrite !typed_agrees_prod, !typed_agrees_sum, sprod_I_l, sprod_I_r, ssum_I_l, ssum_I_r.
  repeat split; reflexivity.
Qed.

Lemma zero_src a : In a KEYS -> a <> "i" ->
  prod_src "o" a = Some "o" /\ prod_src a "o" = Some "o".
Proof.
  intros Ha Hi. typed a Ha. change "o" with (sc_str O).
  assert (s <> I) as Hs by (intros ->; apply Hi; reflexivity).
  destruct (sprod_O_finite s Hs) as [H1 H2].
  rewrite !typed_agrees_prod, H1, H2. split; reflexivity.
Qed.

Lemma nonkey_raises a b : ~ In a KEYS \/ ~ In b KEYS ->
  prod_src a b = None /\ sum_src a b = None.
Proof.
  intros H. unfold prod_src, sum_src.
  destruct (mem_str a KEYS) eqn:Ea; destruct (mem_str b KEYS) eqn:Eb; simpl; try (split; reflexivity).
  apply mem_str_In in Ea. apply mem_str_In in Eb. tauto.
Qed.

Lemma typed_agrees a b :
  prod_src (sc_str a) (sc_str b) = Some (sc_str (sprod a b)) /\
  sum_src (sc_str a) (sc_str b) = Some (sc_str (ssum a b)).
Proof. split; [apply typed_agrees_prod | apply typed_agrees_sum]. Qed.
