(* Semantics of Relation.fixpoint (Sem_stmts.rel_fixpoint_sem_stmt): when the iteration
   fix_{n+1} = fix_n + current_n . self stops, the result is -- at every choice at which the relation has
   no infinity -- the reflexive-transitive closure (least solution of X = 1 + X.R) of the relation's
   value; it keeps the variable list, its cells are outputs of Polynomial.add (well-formed, normal form),
   and a column that is zero off the diagonal stays so.
   Relative to four statements of the P1 algebra (Sem_stmts), which are section hypotheses here and
   premises of the exported theorem; Rel_fix_closed.v discharges them. *)
From Coq Require Import String List Bool Arith Lia.
From PM Require Import Semiring Poly Poly_sem Poly_add Poly_times Rel Analysis Calculus Rel_sem Poly_wf Sem_stmts.
From PM Require Import Rel_hom.
From PM Require Rel_ops Rel_ops_closed.
Import ListNotations.
Open Scope list_scope.

(* ------------------------------------------------------------------ *)
(* Polynomial.equal / the zip-based matrix comparison decide equality   *)
(* ------------------------------------------------------------------ *)

Lemma list_eqb_eq {A} (e : A -> A -> bool) :
  (forall x y, e x y = true -> x = y) -> forall a b, list_eqb e a b = true -> a = b.
Proof.
  intros He. induction a as [|x s IH]; intros [|y t] H; cbn [list_eqb] in H; try discriminate H.
  - reflexivity.
  - apply andb_true_iff in H. destruct H as [H1 H2].
    f_equal; [apply He; exact H1 | apply IH; exact H2].
Qed.

Lemma mono_eqb_eq a b : mono_eqb a b = true -> a = b.
Proof.
  unfold mono_eqb. intros H. apply andb_true_iff in H. destruct H as [H1 H2].
  apply sc_eqb_eq in H1.
  apply (list_eqb_eq delta_eqb) in H2; [|intros x y E; apply delta_eqb_eq; exact E].
  destruct a as [sa da], b as [sb db]. cbn [sc ds] in H1, H2. subst. reflexivity.
Qed.

Lemma poly_eqb_eq p q : poly_eqb p q = true -> p = q.
Proof. unfold poly_eqb. apply list_eqb_eq. exact mono_eqb_eq. Qed.

Lemma rows_eqb_eq : forall a b, rows_eqb a b = true -> length a = length b -> a = b.
Proof.
  induction a as [|x s IH]; intros [|y t] H L; cbn [rows_eqb length] in *; try discriminate L.
  - reflexivity.
  - apply andb_true_iff in H. destruct H as [H1 H2].
    f_equal; [apply poly_eqb_eq; exact H1 | apply IH; [exact H2 | lia]].
Qed.

Lemma mats_eqb_eq n : forall a b, mats_eqb a b = true -> length a = length b ->
  Forall (fun row => length row = n) a -> Forall (fun row => length row = n) b -> a = b.
Proof.
  induction a as [|x s IH]; intros [|y t] H L Fa Fb; cbn [mats_eqb length] in *; try discriminate L.
  - reflexivity.
  - apply andb_true_iff in H. destruct H as [H1 H2].
    inversion Fa as [|? ? Hx Fs]; subst. inversion Fb as [|? ? Hy Ft]; subst.
    f_equal; [apply rows_eqb_eq; [exact H1 | congruence] | apply IH; [exact H2 | lia | exact Fs | exact Ft]].
Qed.

Lemma rel_eta a b : rvars a = rvars b -> rmat a = rmat b -> a = b.
Proof. destruct a as [va ma], b as [vb mb]. cbn [rvars rmat]. intros -> ->. reflexivity. Qed.

(* ------------------------------------------------------------------ *)
(* eqV / leV / finite_on                                               *)
(* ------------------------------------------------------------------ *)

Lemma eqV_refl V A : eqV V A A.
Proof. intros x y _ _. reflexivity. Qed.

Lemma eqV_sym V A B : eqV V A B -> eqV V B A.
Proof. intros H x y Hx Hy. symmetry. apply H; assumption. Qed.

Lemma eqV_trans V A B C : eqV V A B -> eqV V B C -> eqV V A C.
Proof. intros H1 H2 x y Hx Hy. rewrite (H1 x y Hx Hy). apply H2; assumption. Qed.

Lemma leV_refl V A : leV V A A.
Proof. intros x y _ _. apply sc_le_refl. Qed.

Lemma leV_trans V A B C : leV V A B -> leV V B C -> leV V A C.
Proof. intros H1 H2 x y Hx Hy. eapply sc_le_trans; [apply H1 | apply H2]; assumption. Qed.

Lemma eqV_finite V A B : eqV V A B -> finite_on V B -> finite_on V A.
Proof. intros E F x y Hx Hy. rewrite (E x y Hx Hy). apply F; assumption. Qed.

Lemma ssum_ne_I a b : a <> I -> b <> I -> ssum a b <> I.
Proof. destruct a, b; cbv; congruence. Qed.

Lemma sid_ne_I x y : sid x y <> I.
Proof. unfold sid. destruct (String.eqb x y); discriminate. Qed.

Lemma sid_finite V : finite_on V sid.
Proof. intros x y _ _. apply sid_ne_I. Qed.

Lemma sadd_finite V A B : finite_on V A -> finite_on V B -> finite_on V (sadd A B).
Proof. intros FA FB x y Hx Hy. unfold sadd. apply ssum_ne_I; [apply FA | apply FB]; assumption. Qed.

Lemma sid_off_diag i x : i <> x -> sid i x = O.
Proof. intros H. unfold sid. apply String.eqb_neq in H. rewrite H. reflexivity. Qed.

(* a product all of whose summands vanish *)
Lemma smul_zero V A B i x :
  (forall j, In j V -> sprod (A i j) (B j x) = O) -> smul V A B i x = O.
Proof.
  unfold smul. induction V as [|v V IH]; intros H; cbn [fold_right]; [reflexivity|].
  rewrite (H v (or_introl eq_refl)), IH; [reflexivity|].
  intros j Hj. apply H. right. exact Hj.
Qed.

(* ------------------------------------------------------------------ *)
(* powers and partial sums of powers of a scalar matrix                *)
(* ------------------------------------------------------------------ *)

Fixpoint pw (V : list string) (R : smat) (k : nat) : smat :=
  match k with 0 => sid | S k' => smul V (pw V R k') R end.

Fixpoint sm (V : list string) (R : smat) (k : nat) : smat :=
  match k with 0 => sid | S k' => sadd (sm V R k') (pw V R (S k')) end.

Section P1.

Hypothesis DISTR : smul_distr_stmt.
Hypothesis EXT : smul_ext_stmt.
Hypothesis MONO : smul_mono_stmt.
Hypothesis FIN : smul_finite_stmt.

Lemma pw_finite V R : finite_on V R -> forall k, finite_on V (pw V R k).
Proof.
  intros FR. induction k as [|k IH]; cbn [pw]; [apply sid_finite|].
  apply FIN; assumption.
Qed.

Lemma sm_finite V R : finite_on V R -> forall k, finite_on V (sm V R k).
Proof.
  intros FR. induction k as [|k IH]; cbn [sm]; [apply sid_finite|].
  apply sadd_finite; [exact IH | apply (pw_finite V R FR (S k))].
Qed.

(* shifting the sum: sum_{j<=k+1} R^j = 1 + (sum_{j<=k} R^j) . R, pointwise everywhere *)
Lemma sm_shift V R k x y : sm V R (S k) x y = ssum (sid x y) (smul V (sm V R k) R x y).
Proof.
  induction k as [|k IH].
  - reflexivity.
  - change (sm V R (S (S k)) x y) with (ssum (sm V R (S k) x y) (smul V (pw V R (S k)) R x y)).
    rewrite IH.
    change (sm V R (S k)) with (sadd (sm V R k) (pw V R (S k))).
    rewrite (proj2 DISTR). rewrite ssum_assoc. reflexivity.
Qed.

(* every power, hence every partial sum, is below any solution of X = 1 + X.R *)
Lemma pw_le V R X : eqV V X (sadd sid (smul V X R)) -> forall k, leV V (pw V R k) X.
Proof.
  intros HX. induction k as [|k IH]; cbn [pw].
  - intros x y Hx Hy. rewrite (HX x y Hx Hy). unfold sadd. apply sc_le_ssum_l.
  - apply (leV_trans V _ (smul V X R)).
    + apply MONO; [exact IH | apply leV_refl].
    + intros x y Hx Hy. pose proof (HX x y Hx Hy) as E. unfold sadd in E.
      rewrite E. apply sc_le_ssum_r.
Qed.

Lemma sm_le V R X : eqV V X (sadd sid (smul V X R)) -> forall k, leV V (sm V R k) X.
Proof.
  intros HX. induction k as [|k IH]; cbn [sm].
  - exact (pw_le V R X HX 0).
  - intros x y Hx Hy. unfold sadd. apply ssum_lub; [apply IH | apply (pw_le V R X HX (S k))]; assumption.
Qed.

(* a column that is zero off the diagonal stays so in every power and partial sum *)
Lemma pw_col V R x : finite_on V R -> In x V ->
  (forall i, In i V -> i <> x -> R i x = O) ->
  forall k i, In i V -> i <> x -> pw V R k i x = O.
Proof.
  intros FR Hx Hcol. induction k as [|k IH]; intros i Hi Hne; cbn [pw].
  - apply sid_off_diag. exact Hne.
  - apply smul_zero. intros j Hj.
    destruct (string_dec j x) as [->|Hjx].
    + rewrite (IH i Hi Hne). apply (sprod_O_finite (R x x)). apply FR; assumption.
    + rewrite (Hcol j Hj Hjx). apply (sprod_O_finite (pw V R k i j)).
      apply (pw_finite V R FR k); assumption.
Qed.

Lemma sm_col V R x : finite_on V R -> In x V ->
  (forall i, In i V -> i <> x -> R i x = O) ->
  forall k i, In i V -> i <> x -> sm V R k i x = O.
Proof.
  intros FR Hx Hcol. induction k as [|k IH]; intros i Hi Hne; cbn [sm].
  - apply sid_off_diag. exact Hne.
  - unfold sadd. rewrite (IH i Hi Hne), (pw_col V R x FR Hx Hcol (S k) i Hi Hne). reflexivity.
Qed.

(* a partial sum that no longer grows is the closure *)
Lemma star_of_fix V R F k :
  eqV V F (sm V R k) -> eqV V F (sm V R (S k)) -> is_star V R F.
Proof.
  intros H1 H2. split.
  - intros x y Hx Hy. rewrite (H2 x y Hx Hy), sm_shift. unfold sadd. f_equal.
    symmetry. apply (EXT V F (sm V R k) R R H1 (eqV_refl V R)); assumption.
  - intros X HX x y Hx Hy. rewrite (H1 x y Hx Hy). apply (sm_le V R X HX k); assumption.
Qed.

(* ------------------------------------------------------------------ *)
(* sum / composition of two relations over the SAME variable list      *)
(* ------------------------------------------------------------------ *)

Lemma hom_same a b : rvars a = rvars b -> homogenisation a b = (a, b).
Proof.
  intros H. unfold homogenisation. rewrite (proj2 (list_str_eqb_eq _ _) H). reflexivity.
Qed.

Lemma rel_sum_same a b : wf_rel a -> rvars a = rvars b ->
  rel_sum a b =
  Rel (rvars a) (build (length (rvars a)) (length (rvars a))
                   (fun i j => padd (mget (rmat a) i j) (mget (rmat b) i j))).
Proof.
  intros (ND & NE & L & RW) E. unfold rel_sum. rewrite (hom_same a b E). cbv beta iota.
  unfold matrix_sum. rewrite L. apply mk_rel_build. exact NE.
Qed.

Lemma rel_comp_vars a b : wf_rel a -> rvars a = rvars b -> rvars (rel_comp a b) = rvars a.
Proof.
  intros (ND & NE & L & RW) E. unfold rel_comp. rewrite (hom_same a b E). cbv beta iota.
  unfold mk_rel. cbn [rvars]. apply filter_nonempty. exact NE.
Qed.

Lemma rel_equal_same a b : rvars a = rvars b -> rel_equal a b = true ->
  mats_eqb (rmat a) (rmat b) = true.
Proof.
  intros E H. unfold rel_equal in H.
  destruct (negb (subset_str (rvars a) (rvars b) && subset_str (rvars b) (rvars a))); [discriminate H|].
  rewrite (hom_same a b E) in H. exact H.
Qed.

Lemma val_id_cell (b : bool) c : val (if b then unit_poly else zero_poly) c = if b then M else O.
Proof. destruct b; reflexivity. Qed.

(* ------------------------------------------------------------------ *)
(* the loop                                                            *)
(* ------------------------------------------------------------------ *)

Section Loop.

Variable r : rel.
Hypothesis Wr : wf_rel r.
Hypothesis Pr : rel_pwf r.

Let V := rvars r.

(* after k rounds: current = r^k and fix = sum_{j<=k} r^j at every clean choice *)
Definition Inv (k : nat) (cur fx : rel) : Prop :=
  wf_rel cur /\ wf_rel fx /\ rel_pwf cur /\ rel_pwf fx /\ rvars cur = V /\ rvars fx = V /\
  forall c, clean r c ->
    finite_on V (rval cur c) /\ finite_on V (rval fx c) /\
    eqV V (rval cur c) (pw V (rval r c) k) /\ eqV V (rval fx c) (sm V (rval r c) k).

Definition Post (f : rel) : Prop :=
  wf_rel f /\ rel_pwf f /\ rel_nfz f /\ rvars f = V /\
  forall c, clean r c ->
    clean f c /\ is_star V (rval r c) (rval f c) /\
    (forall x, In x V ->
       (forall i, In i V -> i <> x -> rval r c i x = O) ->
       (forall i, In i V -> i <> x -> rval f c i x = O)).

Lemma inv_start : Inv 0 (rel_identity V) (rel_identity V).
Proof.
  destruct Wr as (ND & NE & _).
  destruct (rel_identity_sem V (Rel [] []) ND NE eq_refl) as (Ws & Vs & Cs & Ps).
  assert (E : forall c x y, rval (rel_identity V) c x y = sid x y).
  { intros c x y. unfold rval. rewrite Cs, (cell_no_vars (Rel [] []) x y eq_refl), val_id_cell.
    reflexivity. }
  unfold Inv. repeat (split; [assumption|]).
  intros c _.
  assert (F : finite_on V (rval (rel_identity V) c)).
  { intros x y _ _. rewrite E. apply sid_ne_I. }
  split; [exact F|]. split; [exact F|].
  split; intros x y _ _; cbn [pw sm]; apply E.
Qed.

Lemma inv_step k cur fx :
  Inv k cur fx -> Inv (S k) (rel_comp cur r) (rel_sum fx (rel_comp cur r)).
Proof.
  intros (Wc & Wf & Pc & Pf & Vc & Vf & H).
  destruct (Rel_ops_closed.rel_comp_sem cur r Wc Wr Pc Pr) as (Wc' & Pc' & _ & _).
  assert (Vc' : rvars (rel_comp cur r) = V).
  { rewrite (rel_comp_vars cur r Wc Vc). exact Vc. }
  destruct (Rel_ops_closed.rel_sum_sem fx (rel_comp cur r) Wf Wc') as (Wf' & _ & Sv & Pf').
  assert (Vf' : rvars (rel_sum fx (rel_comp cur r)) = V).
  { rewrite (rel_sum_same fx (rel_comp cur r) Wf (eq_trans Vf (eq_sym Vc'))). exact Vf. }
  unfold Inv.
  split; [exact Wc'|]. split; [exact Wf'|]. split; [exact Pc'|]. split; [exact (Pf' Pf Pc')|].
  split; [exact Vc'|]. split; [exact Vf'|].
  intros c Hc. destruct (H c Hc) as (Fc & Ff & Ec & Ef).
  assert (Cc : clean cur c).
  { unfold clean. rewrite Vc. exact Fc. }
  assert (E1 : eqV V (rval (rel_comp cur r) c) (smul V (rval cur c) (rval r c))).
  { intros x y Hx Hy.
    pose proof (Rel_ops_closed.rel_comp_clean cur r c Wc Wr Pc Pr Cc Hc x y) as Q.
    rewrite Vc' in Q. exact (Q Hx Hy). }
  assert (E2 : eqV V (rval (rel_comp cur r) c) (pw V (rval r c) (S k))).
  { apply (eqV_trans V _ _ _ E1). cbn [pw]. apply EXT; [exact Ec | apply eqV_refl]. }
  assert (Fc' : finite_on V (rval (rel_comp cur r) c)).
  { apply (eqV_finite V _ _ E1). apply FIN; [exact Fc | exact Hc]. }
  assert (E3 : forall x y, rval (rel_sum fx (rel_comp cur r)) c x y =
                           sadd (rval fx c) (rval (rel_comp cur r) c) x y).
  { intros x y. apply Sv. }
  split; [exact Fc'|]. split; [|split; [exact E2|]].
  - intros x y Hx Hy. rewrite E3. apply (sadd_finite V _ _ Ff Fc'); assumption.
  - intros x y Hx Hy. rewrite E3. cbn [sm]. unfold sadd.
    rewrite (Ef x y Hx Hy), (E2 x y Hx Hy). reflexivity.
Qed.

Lemma inv_exit k cur fx :
  Inv k cur fx -> rel_equal (rel_sum fx (rel_comp cur r)) fx = true ->
  Post (rel_sum fx (rel_comp cur r)).
Proof.
  intros HI HE. pose proof (inv_step k cur fx HI) as HI'.
  destruct HI as (Wc & Wf & Pc & Pf & Vc & Vf & H).
  destruct HI' as (Wc' & Wf' & Pc' & Pf' & Vc' & Vf' & H').
  (* the comparison of two matrices of the same shape decides equality *)
  assert (EQ : rel_sum fx (rel_comp cur r) = fx).
  { apply rel_eta; [rewrite Vf', Vf; reflexivity|].
    pose proof (rel_equal_same _ _ (eq_trans Vf' (eq_sym Vf)) HE) as Hm.
    destruct Wf' as (_ & _ & L1 & R1). destruct Wf as (_ & _ & L2 & R2).
    rewrite Vf' in L1, R1. rewrite Vf in L2, R2.
    apply (mats_eqb_eq (length V) _ _ Hm); [congruence | exact R1 | exact R2]. }
  unfold Post.
  split; [exact Wf'|]. split; [exact Pf'|]. split; [|split; [exact Vf'|]].
  - (* every cell is an output of Polynomial.add on non-empty operands *)
    unfold rel_nfz. rewrite (rel_sum_same fx (rel_comp cur r) Wf (eq_trans Vf (eq_sym Vc'))).
    cbn [rmat]. apply build_Forall. intros i j _ _.
    apply padd_nf.
    + exact (proj1 (Rel_ops.mget_pwf _ i j Pf)).
    + exact (proj1 (Rel_ops.mget_pwf _ i j Pc')).
  - intros c Hc.
    destruct (H c Hc) as (_ & _ & _ & Ef).
    destruct (H' c Hc) as (_ & Ff' & _ & Ef').
    split; [|split].
    + unfold clean. rewrite Vf'. exact Ff'.
    + apply (star_of_fix V (rval r c) _ k); [rewrite EQ; exact Ef | exact Ef'].
    + intros x Hx Hcol i Hi Hne. rewrite (Ef' i x Hi Hx).
      apply (sm_col V (rval r c) x Hc Hx Hcol (S k) i Hi Hne).
Qed.

Lemma fix_loop_sem fuel : forall k cur fx f,
  Inv k cur fx -> fix_loop fuel r fx cur = Some f -> Post f.
Proof.
  induction fuel as [|fuel IH]; intros k cur fx f HI HF; cbn [fix_loop] in HF; [discriminate HF|].
  destruct (rel_equal (rel_sum fx (rel_comp cur r)) fx) eqn:E.
  - injection HF as <-. exact (inv_exit k cur fx HI E).
  - exact (IH (S k) _ _ f (inv_step k cur fx HI) HF).
Qed.

Lemma rel_fixpoint_post fuel f : rel_fixpoint fuel r = Some f -> Post f.
Proof.
  intros HF. unfold rel_fixpoint in HF.
  change (mk_rel (rvars r) (identity_matrix (length (rvars r)))) with (rel_identity V) in HF.
  exact (fix_loop_sem fuel 0 _ _ f inv_start HF).
Qed.

End Loop.

Theorem rel_fixpoint_sem : rel_fixpoint_sem_stmt.
Proof.
  intros fuel r f Wr Pr HF. exact (rel_fixpoint_post r Wr Pr fuel f HF).
Qed.

End P1.

Check rel_fixpoint_sem :
  smul_distr_stmt -> smul_ext_stmt -> smul_mono_stmt -> smul_finite_stmt -> rel_fixpoint_sem_stmt.

(* ------------------------------------------------------------------ *)
(* non-vacuity: a relation with choice-dependent cells on which the loop runs several rounds *)
(* ------------------------------------------------------------------ *)

Open Scope string_scope.

Definition ex_r : rel :=
  Rel ["x"; "y"; "z"]
      [[unit_poly; from_scalars 0 [M; W; P]; zero_poly];
       [zero_poly; unit_poly; from_scalars 1 [M; I; W]];
       [zero_poly; zero_poly; unit_poly]].

Example ex_r_hyps : wf_rel ex_r /\ rel_pwf ex_r.
Proof.
  unfold wf_rel, rel_pwf, pwf, mwf. simpl.
  repeat split; repeat constructor; simpl; try discriminate; try lia;
    try (intros H; repeat (destruct H as [H|H]; try discriminate H)); try exact H.
Qed.

Example ex_r_runs :
  rel_fixpoint 1 ex_r = None /\ rel_fixpoint 2 ex_r = None /\
  match rel_fixpoint 3 ex_r with
  | Some f => rvars f = ["x"; "y"; "z"] /\
              rval f (choice_of_list [1; 2]) "x" "z" = W /\
              rval ex_r (choice_of_list [1; 2]) "x" "z" = O /\
              rval f (choice_of_list [2; 0]) "x" "z" = P
  | None => False
  end.
Proof. vm_compute. repeat split; reflexivity. Qed.

Example ex_r_clean : clean ex_r (choice_of_list [1; 2]).
Proof.
  intros x y Hx Hy; simpl in Hx, Hy;
    destruct Hx as [<-|[<-|[<-|[]]]]; destruct Hy as [<-|[<-|[<-|[]]]];
    intros H; vm_compute in H; discriminate H.
Qed.

Print Assumptions rel_fixpoint_sem.
