(* C07, part c: after the removal pass the gate accepts (idempotence), accepted trees are untouched. *)
From Coq Require Import String List Bool Arith Lia.
From PMGen Require Import SyntaxGen PycSchema.
From PM Require Import Tree Syntax Syntax_proofs Syntax_proofs_C07a Syntax_proofs_C07b.
Import ListNotations.
Open Scope string_scope.
Open Scope list_scope.

(* the node after its own closures ran *)
Definition clean (n : node) : node := apply_clears (acts (cov n)) n.

(* the variable walker sees no more on n' than on n *)
Definition vsub (l' l : list vitem) : Prop :=
  (vraises l' = true -> vraises l = true) /\ incl (vnames_of l') (vnames_of l).
Definition vmono (n n' : node) : Prop := vsub (vitems n') (vitems n).

Definition P (n : node) : Prop :=
  wf_pyc n = true -> has_err (cov n) = false -> has_inh (cov n) = false -> cov (clean n) = [] /\ vmono n (clean n).

Lemma vraises_app a b : vraises (a ++ b) = vraises a || vraises b.
Proof. unfold vraises. apply existsb_app. Qed.
Lemma vnames_app a b : vnames_of (a ++ b) = vnames_of a ++ vnames_of b.
Proof. unfold vnames_of. apply flat_map_app. Qed.

Lemma vsub_refl l : vsub l l.
Proof. split; [auto | apply incl_refl]. Qed.
Lemma vsub_nil l : vsub [] l.
Proof. split; [discriminate | intros x []]. Qed.
Lemma vsub_app a' a b' b : vsub a' a -> vsub b' b -> vsub (a' ++ b') (a ++ b).
Proof.
  intros [A1 A2] [B1 B2]. split.
  - rewrite !vraises_app, !orb_true_iff. intros [H|H]; [left; auto | right; auto].
  - rewrite !vnames_app. apply incl_app; [apply incl_appl | apply incl_appr]; assumption.
Qed.
Lemma vsub_cons i a' a : vsub a' a -> vsub (i :: a') (i :: a).
Proof. intros H. apply (vsub_app [i] [i] a' a (vsub_refl [i]) H). Qed.

Lemma P_trivial n : cov n = [] -> P n.
Proof.
  intros E _ _ _. unfold clean. rewrite E. simpl. rewrite apply_clears_nil. split; [exact E | apply vsub_refl].
Qed.

Lemma P_fire n : cov n = fire -> P n.
Proof. intros E _ _ H. rewrite E in H. discriminate. Qed.

Lemma resolve_walker W c : resolve W c = OwnWalker -> In c W.
Proof.
  unfold resolve. destruct (in_s c W) eqn:E; [intros _; apply in_s_In; exact E|].
  destruct (in_s c BASE_METHODS); [discriminate|]. destruct (in_s c NODEHANDLER_METHODS); discriminate.
Qed.

Lemma resolve_base W c : resolve W c = OwnBase -> exists s, In (c, s) BASE_ITER.
Proof.
  unfold resolve. destruct (in_s c W); [discriminate|].
  destruct (in_s c BASE_METHODS) eqn:E; [|destruct (in_s c NODEHANDLER_METHODS); discriminate].
  intros _. apply in_s_In in E. cbn [In BASE_METHODS] in E.
  repeat match goal with H : _ \/ _ |- _ => destruct H as [H|H] end; try contradiction; subst c;
    eexists; cbn [In BASE_ITER]; eauto 10.
Qed.

(* ---------- schema well-formedness goes down ---------- *)
Lemma assoc_In {A} s (ks : list (string * A)) l : assoc s ks = Some l -> In (s, l) ks.
Proof.
  induction ks as [|[s' l'] ks IH]; simpl; [discriminate|].
  destruct (String.eqb_spec s s') as [->|N]; intros H; [inversion H; left; reflexivity | right; apply IH; exact H].
Qed.

Lemma wf_kidl n s x : wf_pyc n = true -> In x (kidl n s) -> wf_pyc x = true.
Proof.
  destruct n as [c a ks]. intros W Hin. unfold kidl, slot in Hin. simpl in Hin.
  destruct (assoc s ks) as [l|] eqn:E; [|contradiction]. apply assoc_In in E.
  simpl in W. destruct (schema_of c) as [[an sl]|]; [|discriminate].
  rewrite !andb_true_iff in W. destruct W as [_ W]. rewrite forallb_forall in W. specialize (W (s, l) E). simpl in W.
  destruct (assoc s sl); [|discriminate]. apply andb_true_iff in W. destruct W as [_ W].
  rewrite forallb_forall in W. apply W. exact Hin.
Qed.

Lemma wf_kid1 n s x : wf_pyc n = true -> kid1 n s = Some x -> wf_pyc x = true.
Proof.
  intros W K. apply (wf_kidl n s x W). unfold kid1 in K. destruct (kidl n s); [discriminate|]. inversion K. left. reflexivity.
Qed.

(* the induction hypothesis: P for every node strictly below *)
Definition D (n : node) : Prop := Forall P (subnodes n).

Lemma D_self n : D n -> P n.
Proof. destruct n. intros H. inversion H. assumption. Qed.

Lemma subnodes_kidl n s x : In x (kidl n s) -> incl (subnodes x) (subnodes n).
Proof.
  destruct n as [c a ks]. intros Hin y Hy. unfold kidl, slot in Hin. simpl in Hin.
  destruct (assoc s ks) as [l|] eqn:E; [|contradiction]. apply assoc_In in E.
  simpl. right. apply in_flat_map. exists (s, l). split; [exact E|]. simpl. apply in_flat_map. exists x. auto.
Qed.

Lemma D_kidl n s x : D n -> In x (kidl n s) -> D x.
Proof. intros H Hin. unfold D in *. rewrite Forall_forall in *. intros y Hy. apply H. apply (subnodes_kidl n s x Hin). exact Hy. Qed.

Lemma D_kid1 n s x : D n -> kid1 n s = Some x -> D x.
Proof. intros H K. apply (D_kidl n s x H). unfold kid1 in K. destruct (kidl n s); [discriminate|]. inversion K. left. reflexivity. Qed.

(* ---------- children of a node whose closures all go below one child ---------- *)
Lemma apply_routed A n s :
  routed (s, 0) A ->
  kid1 (apply_clears A n) s = option_map (apply_clears (descend s 0 A)) (kid1 n s) /\
  (forall s', s' <> s -> kidl (apply_clears A n) s' = kidl n s').
Proof.
  intros R. split.
  - apply kid1_apply_through; apply (routed_no_here (s, 0)); auto.
  - intros s' N. apply kidl_apply_untouched.
    + apply (routed_no_here (s, 0)); auto.
    + intros j. apply (routed_no_here (s, 0)); auto.
    + intros j. apply (routed_other (s, 0)); [assumption|]. intro E. inversion E. congruence.
Qed.

Lemma kid1_of_kidl n n' s : kidl n' s = kidl n s -> kid1 n' s = kid1 n s.
Proof. unfold kid1. intros ->. reflexivity. Qed.

Lemma cov_empty_stmt : cov empty_stmt = [].
Proof. reflexivity. Qed.
Lemma vitems_empty_stmt : vitems empty_stmt = [].
Proof. reflexivity. Qed.

Lemma map_eq_nil' {A B} (f : A -> B) l : map f l = [] -> l = [].
Proof. destruct l; [reflexivity | discriminate]. Qed.

Lemma descend_pass' s i pre L : descend s i (acts (map (pass ((s, i) :: pre)) L)) = acts (map (pass pre) L).
Proof. exact (descend_pass (s, i) pre L). Qed.

(* ---------- pass-through of one child: Return, Cast, UnaryOp ---------- *)
Lemma clean_pass_kid c a ks s :
  cov (Node c a ks) = pass_kid (Node c a ks) s ->
  kid1 (clean (Node c a ks)) s = option_map clean (kid1 (Node c a ks) s) /\
  (forall s', s' <> s -> kidl (clean (Node c a ks)) s' = kidl (Node c a ks) s').
Proof.
  intros E. unfold clean at 1 3. rewrite E. unfold pass_kid.
  destruct (kid1 (Node c a ks) s) as [x|] eqn:K.
  - destruct (apply_routed (acts (map (pass [(s, 0)]) (cov x))) (Node c a ks) s (routed_pass (s, 0) [] (cov x))) as [A B].
    split; [|exact B]. rewrite A, K. simpl. f_equal.
    rewrite (descend_pass' s 0 [] (cov x)), map_pass_nil. reflexivity.
  - change (acts []) with (@nil action). rewrite apply_clears_nil. rewrite K. auto.
Qed.

Lemma pass_kid_flags n s x :
  kid1 n s = Some x -> has_err (pass_kid n s) = has_err (cov x) /\ has_inh (pass_kid n s) = has_inh (cov x).
Proof. intros K. unfold pass_kid. rewrite K, has_err_pass, has_inh_pass. auto. Qed.

Lemma ovmono_clean (o : option node) :
  (forall x, o = Some x -> vmono x (clean x)) -> vsub (ovitems (option_map clean o)) (ovitems o).
Proof. destruct o as [x|]; simpl; intros H; [apply H; reflexivity | apply vsub_nil]. Qed.

Lemma clean_shape n : exists ks', clean n = Node (ncls n) (nattrs n) ks'.
Proof. destruct n as [c a ks]. unfold clean. rewrite apply_clears_eq. eexists. reflexivity. Qed.

Ltac ih_kid IH c a ks s x K :=
  pose proof (Forall_kid1 P c a ks s x IH K).

Lemma P_Return a ks : Forall (fun sk => Forall P (snd sk)) ks -> P (Node "Return" a ks).
Proof.
  intros IH Hw He Hi. pose proof (cov_Return a ks) as E.
  destruct (clean_pass_kid "Return" a ks "expr" E) as [K1 _].
  destruct (clean_shape (Node "Return" a ks)) as [ks' Ec]. simpl in Ec. rewrite Ec in *.
  rewrite cov_Return. unfold vmono. rewrite !vitems_Return.
  rewrite E in He, Hi. unfold pass_kid in *. rewrite K1.
  destruct (kid1 (Node "Return" a ks) "expr") as [x|] eqn:K; simpl; [|split; [reflexivity | apply vsub_nil]].
  rewrite has_err_pass in He. rewrite has_inh_pass in Hi.
  destruct (Forall_kid1 P "Return" a ks "expr" x IH K (wf_kid1 _ _ _ Hw K) He Hi) as [C V]. rewrite C. split; [reflexivity | exact V].
Qed.

Lemma P_Cast a ks : Forall (fun sk => Forall P (snd sk)) ks -> P (Node "Cast" a ks).
Proof.
  intros IH Hw He Hi. pose proof (cov_Cast a ks) as E.
  destruct (clean_pass_kid "Cast" a ks "expr" E) as [K1 _].
  destruct (clean_shape (Node "Cast" a ks)) as [ks' Ec]. simpl in Ec. rewrite Ec in *.
  rewrite cov_Cast. unfold vmono. rewrite !vitems_Cast.
  rewrite E in He, Hi. unfold pass_kid in *. rewrite K1.
  destruct (kid1 (Node "Cast" a ks) "expr") as [x|] eqn:K; simpl; [|split; [reflexivity | apply vsub_nil]].
  rewrite has_err_pass in He. rewrite has_inh_pass in Hi.
  destruct (Forall_kid1 P "Cast" a ks "expr" x IH K (wf_kid1 _ _ _ Hw K) He Hi) as [C V]. rewrite C. split; [reflexivity | exact V].
Qed.


Lemma ocls_in_clean cs o : ocls_in cs (option_map clean o) = ocls_in cs o.
Proof. destruct o as [x|]; [|reflexivity]. simpl. unfold clean. rewrite ncls_apply. reflexivity. Qed.
Lemma ois_cls_clean c o : ois_cls c (option_map clean o) = ois_cls c o.
Proof. destruct o as [x|]; [|reflexivity]. simpl. unfold clean. rewrite is_cls_apply. reflexivity. Qed.

Lemma attr_in_clean c a ks ks' x vs : attr_in (Node c a ks') x vs = attr_in (Node c a ks) x vs.
Proof. reflexivity. Qed.

Lemma P_UnaryOp a ks : Forall (fun sk => Forall P (snd sk)) ks -> P (Node "UnaryOp" a ks).
Proof.
  intros IH. pose proof (cov_UnaryOp a ks) as E.
  destruct (attr_in (Node "UnaryOp" a ks) "op" U_OPS && ocls_in COV_UNOP_ALLOW (kid1 (Node "UnaryOp" a ks) "expr")) eqn:Cnd;
    [|apply P_fire; exact E].
  intros Hw He Hi.
  destruct (clean_pass_kid "UnaryOp" a ks "expr" E) as [K1 _].
  destruct (clean_shape (Node "UnaryOp" a ks)) as [ks' Ec]. simpl in Ec. rewrite Ec in *.
  rewrite cov_UnaryOp. unfold vmono. rewrite !vitems_UnaryOp.
  rewrite (attr_in_clean "UnaryOp" a ks ks'). rewrite K1, ocls_in_clean, Cnd.
  apply andb_true_iff in Cnd. destruct Cnd as [C1 C2]. rewrite C1.
  rewrite E in He, Hi. unfold pass_kid in *. rewrite K1.
  destruct (kid1 (Node "UnaryOp" a ks) "expr") as [x|] eqn:K; simpl; [|split; [reflexivity | apply vsub_nil]].
  rewrite has_err_pass in He. rewrite has_inh_pass in Hi.
  destruct (Forall_kid1 P "UnaryOp" a ks "expr" x IH K (wf_kid1 _ _ _ Hw K) He Hi) as [C V]. rewrite C. split; [reflexivity | exact V].
Qed.

(* ---------- Assignment ---------- *)
Lemma cov_of_ID x : is_cls "ID" x = true -> cov x = [].
Proof.
  destruct x as [c a ks]. unfold is_cls. simpl. intros H. apply String.eqb_eq in H. subst c. reflexivity.
Qed.

Lemma uncast1_some o x : uncast1 o = Some x ->
  (exists r, o = Some r /\ is_cls "Cast" r = true /\ kid1 r "expr" = Some x) \/ (o = Some x /\ is_cls "Cast" x = false).
Proof.
  destruct o as [r|]; simpl; [|discriminate]. destruct (is_cls "Cast" r) eqn:E; intros H.
  - left. exists r. auto.
  - right. inversion H; subst. auto.
Qed.

Lemma P_Assignment a ks : Forall (fun sk => Forall P (snd sk)) ks -> P (Node "Assignment" a ks).
Proof.
  intros IH. pose proof (cov_Assignment a ks) as E.
  destruct (assign_ok (Node "Assignment" a ks)) eqn:Ok; [|apply P_fire; exact E].
  intros Hw He Hi.
  unfold assign_ok in Ok. apply andb_true_iff in Ok. destruct Ok as [Ok Oallow]. apply andb_true_iff in Ok. destruct Ok as [Oop Olv].
  (* lvalue is an ID: contributes nothing *)
  assert (Lv : pass_kid (Node "Assignment" a ks) "lvalue" = []).
  { unfold pass_kid. destruct (kid1 (Node "Assignment" a ks) "lvalue") as [l|]; [|reflexivity]. simpl in Olv. rewrite (cov_of_ID l Olv). reflexivity. }
  rewrite Lv in E. simpl in E.
  (* the right part is the Cast handler's / the child's own result, passed through rvalue *)
  assert (Er : assign_right (Node "Assignment" a ks) = pass_kid (Node "Assignment" a ks) "rvalue").
  { unfold assign_right. destruct (ois_cls "Cast" (kid1 (Node "Assignment" a ks) "rvalue")) eqn:Cs; [|reflexivity].
    unfold pass_kid. destruct (kid1 (Node "Assignment" a ks) "rvalue") as [r|]; [|reflexivity]. simpl in Cs.
    destruct r as [cr ar kr]. unfold is_cls in Cs. simpl in Cs. apply String.eqb_eq in Cs. subst cr.
    rewrite cov_Cast. unfold pass_kid. destruct (kid1 (Node "Cast" ar kr) "expr") as [e|]; [|reflexivity].
    rewrite map_map. apply map_ext. intros [p [|b]|p]; simpl; try reflexivity. destruct b; reflexivity. }
  rewrite Er in E.
  destruct (clean_pass_kid "Assignment" a ks "rvalue" E) as [K1 K2].
  destruct (clean_shape (Node "Assignment" a ks)) as [ks' Ec]. simpl in Ec.
  assert (Klv : kid1 (clean (Node "Assignment" a ks)) "lvalue" = kid1 (Node "Assignment" a ks) "lvalue") by (apply kid1_of_kidl, K2; discriminate).
  rewrite Ec in *.
  rewrite cov_Assignment. unfold vmono. rewrite !vitems_Assignment.
  assert (Ok' : assign_ok (Node "Assignment" a ks') = true).
  { unfold assign_ok. rewrite Klv, K1. change (attr_is (Node "Assignment" a ks') "op" "=") with (attr_is (Node "Assignment" a ks) "op" "=").
    rewrite Oop, Olv. simpl.
    destruct (kid1 (Node "Assignment" a ks) "rvalue") as [r|] eqn:Kr; [|exact Oallow]. simpl.
    unfold clean. rewrite is_cls_apply. destruct (is_cls "Cast" r) eqn:Cr.
    - (* the Cast keeps its operand's class *)
      simpl in Oallow. rewrite Cr in Oallow.
      destruct r as [cr ar kr]. unfold is_cls in Cr. simpl in Cr. apply String.eqb_eq in Cr. subst cr.
      fold (clean (Node "Cast" ar kr)).
      destruct (clean_pass_kid "Cast" ar kr "expr" (cov_Cast ar kr)) as [Q _]. rewrite Q. rewrite ocls_in_clean. exact Oallow.
    - simpl in Oallow. rewrite Cr in Oallow. simpl. rewrite ncls_apply. exact Oallow. }
  rewrite Ok'.
  assert (Lv' : pass_kid (Node "Assignment" a ks') "lvalue" = []).
  { unfold pass_kid. rewrite Klv. exact Lv. }
  rewrite Lv'. simpl.
  rewrite E in He, Hi. rewrite Klv, K1.
  destruct (kid1 (Node "Assignment" a ks) "rvalue") as [r|] eqn:Kr.
  - unfold pass_kid in He, Hi. rewrite Kr in He, Hi. rewrite has_err_pass in He. rewrite has_inh_pass in Hi.
    destruct (Forall_kid1 P "Assignment" a ks "rvalue" r IH Kr (wf_kid1 _ _ _ Hw Kr) He Hi) as [C V].
    split.
    + (* right part of the new node = passed result of the cleaned child = [] *)
      assert (Er' : assign_right (Node "Assignment" a ks') = pass_kid (Node "Assignment" a ks') "rvalue").
      { unfold assign_right. rewrite K1. simpl option_map. cbv iota beta.
        destruct (ois_cls "Cast" (Some (clean r))) eqn:Cs; [|reflexivity].
        unfold pass_kid. rewrite K1. simpl option_map. cbv iota beta.
        destruct (clean r) as [cr ar kr] eqn:Ecr. unfold ois_cls, is_cls in Cs. simpl in Cs. apply String.eqb_eq in Cs. subst cr.
        rewrite cov_Cast. unfold pass_kid. destruct (kid1 (Node "Cast" ar kr) "expr") as [e|]; [|reflexivity].
        rewrite map_map. apply map_ext. intros [p [|b]|p]; simpl; try reflexivity. destruct b; reflexivity. }
      rewrite Er'. unfold pass_kid. rewrite K1. simpl. rewrite C. reflexivity.
    + apply vsub_app; [apply vsub_refl | exact V].
  - simpl. split.
    + unfold assign_right. rewrite K1. simpl. unfold pass_kid. rewrite K1. reflexivity.
    + apply vsub_refl.
Qed.

(* ---------- parts for which the parent supplies rm_attr: If branches, loop bodies ---------- *)
Definition wc_part (s : string) (L : cres) : list action := acts (map (with_clear (RmAttr [] s) [(s, 0)]) L).

Lemma wc_rmattr s s' L : has_act (RmAttr [] s') (wc_part s L) = has_inh L && String.eqb s' s.
Proof. unfold wc_part. rewrite has_act_with_clear by reflexivity. simpl. reflexivity. Qed.
Lemma wc_rmchild s s' j L : has_act (RmChild [] s' j) (wc_part s L) = false.
Proof. unfold wc_part. rewrite has_act_with_clear by reflexivity. simpl. apply andb_false_r. Qed.
Lemma wc_descend s s' j L : descend s' j (wc_part s L) = if step_eqb (s, 0) (s', j) then acts L else [].
Proof. unfold wc_part. apply descend_with_clear. reflexivity. Qed.

Lemma step_neq s s' j : s' <> s -> step_eqb (s, 0) (s', j) = false.
Proof. intros N. apply not_true_is_false. intro E. apply step_eqb_eq in E. inversion E. congruence. Qed.

(* the slot s of (apply_clears (A0 ++ wc_part s (cov x) ++ A1) n) when A0, A1 do not touch slot s *)
Lemma kid1_wc A0 A1 n s x :
  kid1 n s = Some x ->
  (has_act (RmAttr [] s) A0 = false /\ has_act (RmChild [] s 0) A0 = false /\ descend s 0 A0 = []) ->
  (has_act (RmAttr [] s) A1 = false /\ has_act (RmChild [] s 0) A1 = false /\ descend s 0 A1 = []) ->
  kid1 (apply_clears (A0 ++ wc_part s (cov x) ++ A1) n) s = Some (if has_inh (cov x) then empty_stmt else clean x).
Proof.
  intros K [a0 [b0 d0]] [a1 [b1 d1]]. unfold kid1 in *. rewrite kidl_apply. unfold kidl in K.
  destruct (slot n s) as [l|]; [|discriminate]. destruct l as [|y l]; [discriminate|]. inversion K; subst y.
  unfold slot_res. rewrite !has_act_app, a0, a1, wc_rmattr, String.eqb_refl, andb_true_r, orb_false_r. simpl.
  destruct (has_inh (cov x)); [reflexivity|].
  simpl. rewrite !has_act_app, b0, b1, wc_rmchild. simpl.
  rewrite !descend_app, d0, d1, wc_descend, step_eqb_refl, app_nil_r. reflexivity.
Qed.

Lemma kidl_wc_other A n s s' L :
  s' <> s ->
  kidl (apply_clears (A ++ wc_part s L) n) s' = kidl (apply_clears A n) s' ->
  True.
Proof. auto. Qed.

Lemma untouched_by_wc s s' L :
  s' <> s ->
  has_act (RmAttr [] s') (wc_part s L) = false /\ (forall j, has_act (RmChild [] s' j) (wc_part s L) = false) /\
  (forall j, descend s' j (wc_part s L) = []).
Proof.
  intros N. split; [|split].
  - rewrite wc_rmattr. apply String.eqb_neq in N. rewrite N. apply andb_false_r.
  - intros j. apply wc_rmchild.
  - intros j. rewrite wc_descend, step_neq by assumption. reflexivity.
Qed.

Lemma kidl_untouched_app A B n s :
  (has_act (RmAttr [] s) A = false /\ (forall j, has_act (RmChild [] s j) A = false) /\ (forall j, descend s j A = [])) ->
  (has_act (RmAttr [] s) B = false /\ (forall j, has_act (RmChild [] s j) B = false) /\ (forall j, descend s j B = [])) ->
  kidl (apply_clears (A ++ B) n) s = kidl n s.
Proof.
  intros [a [b c]] [a' [b' c']]. apply kidl_apply_untouched.
  - rewrite has_act_app, a, a'. reflexivity.
  - intros j. rewrite has_act_app, b, b'. reflexivity.
  - intros j. rewrite descend_app, c, c'. reflexivity.
Qed.

Lemma untouched_nil s :
  has_act (RmAttr [] s) [] = false /\ (forall j, has_act (RmChild [] s j) [] = false) /\ (forall j, descend s j [] = []).
Proof. auto. Qed.

Lemma P_kid_branch c a ks s x :
  Forall (fun sk => Forall P (snd sk)) ks -> wf_pyc (Node c a ks) = true -> kid1 (Node c a ks) s = Some x ->
  has_err (cov x) = false ->
  cov (if has_inh (cov x) then empty_stmt else clean x) = [] /\
  vsub (vitems (if has_inh (cov x) then empty_stmt else clean x)) (vitems x).
Proof.
  intros IH Hw K He. destruct (has_inh (cov x)) eqn:Hi.
  - split; [reflexivity | apply vsub_nil].
  - apply (Forall_kid1 P c a ks s x IH K (wf_kid1 _ _ _ Hw K) He Hi).
Qed.

Lemma if_part_acts n s : acts (if_part n s) = match kid1 n s with Some x => wc_part s (cov x) | None => [] end.
Proof. unfold if_part, wc_part. destruct (kid1 n s); reflexivity. Qed.

Lemma if_part_err n s : has_err (if_part n s) = match kid1 n s with Some x => has_err (cov x) | None => false end.
Proof. unfold if_part. destruct (kid1 n s); [apply has_err_with_clear | reflexivity]. Qed.

Definition wc_opt (o : option node) (s : string) : list action :=
  match o with Some x => wc_part s (cov x) | None => [] end.

Lemma wc_or_nil_untouched (o : option node) s s' :
  s' <> s ->
  has_act (RmAttr [] s') (wc_opt o s) = false /\ (forall j, has_act (RmChild [] s' j) (wc_opt o s) = false) /\
  (forall j, descend s' j (wc_opt o s) = []).
Proof. intros N. destruct o; simpl; [apply untouched_by_wc; assumption | auto]. Qed.

Lemma P_If a ks : Forall (fun sk => Forall P (snd sk)) ks -> P (Node "If" a ks).
Proof.
  intros IH Hw He Hi. set (n := Node "If" a ks) in *.
  assert (E : cov n = if_part n "iftrue" ++ if_part n "iffalse") by apply cov_If.
  rewrite E, has_err_app, !if_part_err in He. apply orb_false_iff in He. destruct He as [He1 He2].
  destruct (clean_shape n) as [ks' Ec]. simpl in Ec.
  assert (A : acts (cov n) = match kid1 n "iftrue" with Some x => wc_part "iftrue" (cov x) | None => [] end ++
                           match kid1 n "iffalse" with Some x => wc_part "iffalse" (cov x) | None => [] end).
  { rewrite E, acts_app, !if_part_acts. reflexivity. }
  (* the two branches after cleaning *)
  assert (Kt : kid1 (clean n) "iftrue" = option_map (fun x => if has_inh (cov x) then empty_stmt else clean x) (kid1 n "iftrue")).
  { unfold clean. rewrite A. destruct (kid1 n "iftrue") as [x|] eqn:K.
    - pose proof (kid1_wc [] (match kid1 n "iffalse" with Some y => wc_part "iffalse" (cov y) | None => [] end) n "iftrue" x K) as Q.
      simpl app in Q. rewrite Q; [reflexivity | auto |].
      destruct (wc_or_nil_untouched (kid1 n "iffalse") "iffalse" "iftrue") as [u1 [u2 u3]]; [discriminate|]. auto.
    - simpl app. simpl option_map. rewrite <- K. apply (kid1_of_kidl n _ "iftrue").
      destruct (wc_or_nil_untouched (kid1 n "iffalse") "iffalse" "iftrue") as [u1 [u2 u3]]; [discriminate|].
      apply kidl_apply_untouched; assumption. }
  assert (Kf : kid1 (clean n) "iffalse" = option_map (fun x => if has_inh (cov x) then empty_stmt else clean x) (kid1 n "iffalse")).
  { unfold clean. rewrite A. destruct (kid1 n "iffalse") as [x|] eqn:K.
    - pose proof (kid1_wc (match kid1 n "iftrue" with Some y => wc_part "iftrue" (cov y) | None => [] end) [] n "iffalse" x K) as Q.
      rewrite app_nil_r in Q. rewrite Q; [reflexivity | | auto].
      destruct (wc_or_nil_untouched (kid1 n "iftrue") "iftrue" "iffalse") as [u1 [u2 u3]]; [discriminate|]. auto.
    - rewrite app_nil_r. simpl option_map. rewrite <- K. apply (kid1_of_kidl n _ "iffalse").
      destruct (wc_or_nil_untouched (kid1 n "iftrue") "iftrue" "iffalse") as [u1 [u2 u3]]; [discriminate|].
      apply kidl_apply_untouched; assumption. }
  rewrite Ec in *. rewrite cov_If. unfold vmono. subst n. rewrite !vitems_If. unfold if_part. rewrite Kt, Kf.
  assert (Bt : forall s, (s = "iftrue" \/ s = "iffalse") ->
               match kid1 (Node "If" a ks) s with Some x => has_err (cov x) | None => false end = false ->
               map (with_clear (RmAttr [] s) [(s, 0)])
                   (ocov (option_map (fun x => if has_inh (cov x) then empty_stmt else clean x) (kid1 (Node "If" a ks) s))) = [] /\
               vsub (ovitems (option_map (fun x => if has_inh (cov x) then empty_stmt else clean x) (kid1 (Node "If" a ks) s)))
                    (ovitems (kid1 (Node "If" a ks) s))).
  { intros s _ Hes. destruct (kid1 (Node "If" a ks) s) as [x|] eqn:K; simpl; [|split; [reflexivity | apply vsub_nil]].
    destruct (P_kid_branch "If" a ks s x IH Hw K Hes) as [C V]. rewrite C. split; [reflexivity | exact V]. }
  destruct (Bt "iftrue" (or_introl eq_refl) He1) as [C1 V1]. destruct (Bt "iffalse" (or_intror eq_refl) He2) as [C2 V2].
  split.
  - destruct (kid1 (Node "If" a ks) "iftrue"), (kid1 (Node "If" a ks) "iffalse"); simpl in *; rewrite ?C1, ?C2; reflexivity.
  - apply vsub_app; assumption.
Qed.

(* ---------- loop bodies ---------- *)
Lemma compound_cov x : is_cls "Compound" x = true -> cov x = iter_kids x "block_items".
Proof.
  destruct x as [c a ks]. unfold is_cls. simpl. intros H. apply String.eqb_eq in H. subst c.
  apply cov_base. cbn [In BASE_ITER]. auto.
Qed.

Lemma body_part_compound n x :
  kid1 n "stmt" = Some x -> is_cls "Compound" x = true -> body_part n = pass_kid n "stmt".
Proof. intros K C. unfold body_part, pass_kid. rewrite K, C, (compound_cov x C). reflexivity. Qed.

Lemma list_s_eqb_eq a b : list_s_eqb a b = true -> a = b.
Proof.
  revert b. induction a as [|x a IH]; intros [|y b]; simpl; try discriminate; [reflexivity|].
  intros H. apply andb_true_iff in H. destruct H as [H1 H2]. apply String.eqb_eq in H1. subst. f_equal. apply IH. exact H2.
Qed.

Lemma wf_slots c a ks an sl : schema_of c = Some (an, sl) -> wf_pyc (Node c a ks) = true -> map fst ks = map fst sl.
Proof.
  intros S W. simpl in W. rewrite S in W. rewrite !andb_true_iff in W. destruct W as [[_ W] _]. apply list_s_eqb_eq. exact W.
Qed.

Lemma wf_has_stmt c a ks :
  (c = "While" \/ c = "DoWhile" \/ c = "For") -> wf_pyc (Node c a ks) = true -> has_slot "stmt" (Node c a ks) = true.
Proof.
  intros Hc W. unfold has_slot, slot. simpl nkids.
  destruct Hc as [Hc|[Hc|Hc]]; subst c.
  - pose proof (wf_slots "While" a ks _ _ eq_refl W) as M. simpl in M.
    destruct ks as [|[s1 l1] [|[s2 l2] [|? ?]]]; simpl in M; try discriminate. inversion M; subst. reflexivity.
  - pose proof (wf_slots "DoWhile" a ks _ _ eq_refl W) as M. simpl in M.
    destruct ks as [|[s1 l1] [|[s2 l2] [|? ?]]]; simpl in M; try discriminate. inversion M; subst. reflexivity.
  - pose proof (wf_slots "For" a ks _ _ eq_refl W) as M. simpl in M.
    destruct ks as [|[s1 l1] [|[s2 l2] [|[s3 l3] [|[s4 l4] [|? ?]]]]]; simpl in M; try discriminate. inversion M; subst. reflexivity.
Qed.

(* the body slot after cleaning, and what the two walkers see of it *)
Lemma body_clean c a ks :
  (c = "While" \/ c = "DoWhile" \/ c = "For") ->
  Forall (fun sk => Forall P (snd sk)) ks -> wf_pyc (Node c a ks) = true ->
  cov (Node c a ks) = body_part (Node c a ks) -> has_err (cov (Node c a ks)) = false ->
  body_part (clean (Node c a ks)) = [] /\
  vsub (ovitems (kid1 (clean (Node c a ks)) "stmt")) (ovitems (kid1 (Node c a ks) "stmt")) /\
  (forall s', s' <> "stmt" -> kidl (clean (Node c a ks)) s' = kidl (Node c a ks) s').
Proof.
  intros Hc IH Hw E He. set (n := Node c a ks) in *.
  destruct (kid1 n "stmt") as [x|] eqn:K.
  - destruct (is_cls "Compound" x) eqn:Cx.
    + (* compound body: the block's own iteration, passed through *)
      rewrite (body_part_compound n x K Cx) in E.
      destruct (clean_pass_kid c a ks "stmt" E) as [K1 K2]. fold n in K1, K2. rewrite K in K1. simpl in K1.
      rewrite E in He. unfold pass_kid in He. rewrite K, has_err_pass in He.
      assert (Hi : has_inh (cov x) = false) by (rewrite (compound_cov x Cx); apply has_inh_iter_from).
      destruct (Forall_kid1 P c a ks "stmt" x IH K (wf_kid1 _ _ _ Hw K) He Hi) as [C V].
      split; [|split; [rewrite K1; exact V | exact K2]].
      assert (Cc : is_cls "Compound" (clean x) = true) by (unfold clean; rewrite is_cls_apply; exact Cx).
      rewrite (body_part_compound (clean n) (clean x) K1 Cc). unfold pass_kid. rewrite K1, C. reflexivity.
    + (* single statement body: rm_attr *)
      assert (A : acts (cov n) = [] ++ wc_part "stmt" (cov x) ++ []).
      { rewrite E. unfold body_part. rewrite K, Cx, app_nil_r. reflexivity. }
      assert (He' : has_err (cov x) = false).
      { rewrite E in He. unfold body_part in He. rewrite K, Cx, has_err_with_clear in He. exact He. }
      assert (K1 : kid1 (clean n) "stmt" = Some (if has_inh (cov x) then empty_stmt else clean x)).
      { unfold clean. rewrite A. apply kid1_wc; auto. }
      destruct (P_kid_branch c a ks "stmt" x IH Hw K He') as [C V].
      split; [|split; [rewrite K1; exact V|]].
      * unfold body_part. rewrite K1.
        assert (Nc : is_cls "Compound" (if has_inh (cov x) then empty_stmt else clean x) = false).
        { destruct (has_inh (cov x)); [reflexivity|]. unfold clean. rewrite is_cls_apply. exact Cx. }
        rewrite Nc, C. reflexivity.
      * intros s' N. unfold clean. rewrite A. simpl app. rewrite app_nil_r.
        apply kidl_apply_untouched; apply (untouched_by_wc "stmt" s' (cov x) N).
  - (* no body at all: recurse(None) asks for rm_attr, which puts an EmptyStatement there *)
    assert (A : acts (cov n) = [RmAttr [] "stmt"]).
    { rewrite E. unfold body_part. rewrite K. reflexivity. }
    assert (K1 : kid1 (clean n) "stmt" = Some empty_stmt).
    { unfold clean. rewrite A. unfold kid1. rewrite kidl_apply.
      pose proof (wf_has_stmt c a ks Hc Hw) as Hs. fold n in Hs. unfold has_slot in Hs.
      destruct (slot n "stmt"); [|discriminate]. unfold slot_res. simpl. reflexivity. }
    split; [|split].
    + unfold body_part. rewrite K1. reflexivity.
    + rewrite K1. apply vsub_nil.
    + intros s' N. unfold clean. rewrite A. apply kidl_apply_untouched.
      * simpl. apply String.eqb_neq in N. rewrite N. reflexivity.
      * intros j. reflexivity.
      * intros j. reflexivity.
Qed.

Lemma P_While a ks : Forall (fun sk => Forall P (snd sk)) ks -> P (Node "While" a ks).
Proof.
  intros IH Hw He Hi.
  destruct (body_clean "While" a ks (or_introl eq_refl) IH Hw (cov_While a ks) He) as [B [V U]].
  destruct (clean_shape (Node "While" a ks)) as [ks' Ec]. simpl in Ec. rewrite Ec in *.
  rewrite cov_While. split; [exact B|]. unfold vmono. rewrite !vitems_While.
  rewrite (kid1_of_kidl _ _ "cond" (U "cond" ltac:(discriminate))). apply vsub_app; [apply vsub_refl | exact V].
Qed.

Lemma P_DoWhile a ks : Forall (fun sk => Forall P (snd sk)) ks -> P (Node "DoWhile" a ks).
Proof.
  intros IH Hw He Hi.
  destruct (body_clean "DoWhile" a ks (or_intror (or_introl eq_refl)) IH Hw (cov_DoWhile a ks) He) as [B [V U]].
  destruct (clean_shape (Node "DoWhile" a ks)) as [ks' Ec]. simpl in Ec. rewrite Ec in *.
  rewrite cov_DoWhile. split; [exact B|]. unfold vmono. rewrite !vitems_DoWhile.
  rewrite (kid1_of_kidl _ _ "cond" (U "cond" ltac:(discriminate))). apply vsub_app; [apply vsub_refl | exact V].
Qed.

Lemma lg_mono init conds nxt b b' x :
  loop_guard_of init conds nxt b = LcYes x -> vsub b' b -> loop_guard_of init conds nxt b' = LcYes x.
Proof.
  unfold loop_guard_of. destruct (init_vars init) as [[it sr]|]; [|discriminate].
  intros H [V1 V2].
  destruct (vraises conds || vraises nxt || vraises b) eqn:R; [discriminate|].
  apply orb_false_iff in R. destruct R as [R Rb]. rewrite R. simpl.
  destruct (vraises b') eqn:Rb'; [rewrite (V1 eq_refl) in Rb; discriminate|].
  destruct (dedup (filter (fun v => negb (in_s v (it ++ vnames_of nxt))) (vnames_of conds ++ sr)) []) as [|y [|z l]]; try discriminate.
  destruct (in_s y (vnames_of b)) eqn:Iy; [discriminate|].
  assert (Iy' : in_s y (vnames_of b') = false).
  { apply in_s_false. apply in_s_false in Iy. intro Q. apply Iy. apply V2. exact Q. }
  rewrite Iy'. exact H.
Qed.

Lemma P_For a ks : Forall (fun sk => Forall P (snd sk)) ks -> P (Node "For" a ks).
Proof.
  intros IH. pose proof (cov_For a ks) as E.
  destruct (loop_compat (Node "For" a ks)) as [| |x] eqn:L.
  - intros _ He _. rewrite E in He. discriminate.
  - apply P_fire. exact E.
  - intros Hw He Hi.
    destruct (body_clean "For" a ks (or_intror (or_intror eq_refl)) IH Hw E He) as [B [V U]].
    destruct (clean_shape (Node "For" a ks)) as [ks' Ec]. simpl in Ec. rewrite Ec in *.
    assert (L' : loop_compat (Node "For" a ks') = LcYes x).
    { unfold loop_compat in *.
      rewrite (kid1_of_kidl _ _ "init" (U "init" ltac:(discriminate))), (kid1_of_kidl _ _ "cond" (U "cond" ltac:(discriminate))),
              (kid1_of_kidl _ _ "next" (U "next" ltac:(discriminate))).
      apply (lg_mono _ _ _ _ _ x L V). }
    rewrite cov_For, L'. split; [exact B|]. unfold vmono. rewrite !vitems_For, L, L'.
    apply vsub_app; [apply vsub_refl | exact V].
Qed.

(* ---------- list slots (Compound, Case, Default, ExprList, DeclList, ParamList) ---------- *)
Lemma iter_from_all_nil s k Ls : Forall (fun L => L = []) Ls -> iter_from s k Ls = [].
Proof.
  revert k. induction Ls as [|L r IH]; intros k H; simpl; [reflexivity|]. inversion H; subst. simpl. apply IH. assumption.
Qed.

Lemma vsub_appr b' a b : vsub b' b -> vsub b' (a ++ b).
Proof.
  intros [V1 V2]. split.
  - intros H. rewrite vraises_app. rewrite (V1 H). apply orb_true_r.
  - rewrite vnames_app. apply incl_appr. exact V2.
Qed.

Lemma prune_list_ok l :
  Forall P l -> Forall (fun x => wf_pyc x = true) l -> existsb has_err (map cov l) = false ->
  Forall (fun L => L = []) (map cov (prune_list cov l)) /\
  vsub (flat_map vitems (prune_list cov l)) (flat_map vitems l).
Proof.
  induction l as [|x l IH]; intros HP HW He; simpl; [split; [constructor | apply vsub_refl]|].
  inversion HP; subst. inversion HW; subst. simpl in He. apply orb_false_iff in He. destruct He as [He1 He2].
  destruct (IH H2 H4 He2) as [C V].
  destruct (has_inh (cov x)) eqn:Hi; simpl.
  - split; [exact C | apply vsub_appr; exact V].
  - destruct (H1 H3 He1 Hi) as [Cx Vx]. split.
    + constructor; [exact Cx | exact C].
    + apply vsub_app; assumption.
Qed.

Lemma P_base c a ks s : In (c, s) BASE_ITER -> Forall (fun sk => Forall P (snd sk)) ks -> P (Node c a ks).
Proof.
  intros Hin IH Hw He Hi. set (n := Node c a ks) in *.
  assert (E : cov n = iter_kids n s) by (apply cov_base; exact Hin).
  destruct (slot n s) as [l|] eqn:Sl.
  2:{ apply (P_trivial n); auto. rewrite E. unfold iter_kids, kidl. rewrite Sl. reflexivity. }
  assert (Kl : kidl n s = l) by (unfold kidl; rewrite Sl; reflexivity).
  assert (A : acts (cov n) = [] ++ acts (iter_from s 0 (map cov l)) ++ []).
  { rewrite E. unfold iter_kids. rewrite Kl, app_nil_r. reflexivity. }
  assert (Kl' : kidl (clean n) s = prune_list cov l).
  { unfold clean. rewrite kidl_apply, Sl. unfold slot_res. rewrite A.
    rewrite !has_act_app. simpl. rewrite iter_from_no_rmattr. simpl.
    apply (ac_go_iter cov s [] [] l); intros j; auto. }
  rewrite E in He. unfold iter_kids in He. rewrite Kl, has_err_iter_from in He.
  assert (HPl : Forall P l) by (rewrite <- Kl; apply (Forall_kidl P c a ks s IH)).
  assert (HWl : Forall (fun x => wf_pyc x = true) l).
  { apply Forall_forall. intros x Hx. apply (wf_kidl n s x Hw). rewrite Kl. exact Hx. }
  destruct (prune_list_ok l HPl HWl He) as [C V].
  destruct (clean_shape n) as [ks' Ec]. simpl in Ec. rewrite Ec in *.
  split.
  - rewrite (cov_base c a ks' s Hin). unfold iter_kids. rewrite Kl'. apply iter_from_all_nil. exact C.
  - unfold vmono. subst n. rewrite (vitems_base c a ks' s Hin), (vitems_base c a ks s Hin), Kl', Kl. exact V.
Qed.

(* ---------- FuncDef: parameters (three levels down) and body ---------- *)
Lemma apply_routed2 A1 A2 n s1 s2 :
  s1 <> s2 -> routed (s1, 0) A1 -> routed (s2, 0) A2 ->
  kid1 (apply_clears (A1 ++ A2) n) s1 = option_map (apply_clears (descend s1 0 A1)) (kid1 n s1) /\
  kid1 (apply_clears (A1 ++ A2) n) s2 = option_map (apply_clears (descend s2 0 A2)) (kid1 n s2).
Proof.
  intros N R1 R2.
  assert (N1 : (s1, 0) <> (s2, 0)) by (intro E; inversion E; congruence).
  assert (N2 : (s2, 0) <> (s1, 0)) by (intro E; inversion E; congruence).
  split.
  - rewrite kid1_apply_through.
    + rewrite descend_app, (routed_other (s2, 0) A2 s1 0 R2 N1), app_nil_r. reflexivity.
    + rewrite has_act_app, (routed_no_here (s1, 0) A1), (routed_no_here (s2, 0) A2); auto.
    + rewrite has_act_app, (routed_no_here (s1, 0) A1), (routed_no_here (s2, 0) A2); auto.
  - rewrite kid1_apply_through.
    + rewrite descend_app, (routed_other (s1, 0) A1 s2 0 R1 N2). reflexivity.
    + rewrite has_act_app, (routed_no_here (s1, 0) A1), (routed_no_here (s2, 0) A2); auto.
    + rewrite has_act_app, (routed_no_here (s1, 0) A1), (routed_no_here (s2, 0) A2); auto.
Qed.

Lemma option_map_id_nil (o : option node) : option_map (apply_clears []) o = o.
Proof. destruct o; simpl; [rewrite apply_clears_nil|]; reflexivity. Qed.

Lemma P_FuncDef a ks : Forall (fun sk => Forall D (snd sk)) ks -> P (Node "FuncDef" a ks).
Proof.
  intros IH Hw He Hi. set (n := Node "FuncDef" a ks) in *.
  assert (E : cov n = args_part n ++ pass_kid n "body") by apply cov_FuncDef.
  rewrite E, has_err_app in He. apply orb_false_iff in He. destruct He as [He1 He2].
  rewrite E, has_inh_app in Hi. apply orb_false_iff in Hi. destruct Hi as [Hi1 Hi2].
  destruct (kid1 n "decl") as [d|] eqn:Kd; [|unfold args_part in He1; rewrite Kd in He1; discriminate].
  pose proof (Forall_kid1 D "FuncDef" a ks "decl" d IH Kd) as Dd.
  pose proof (wf_kid1 _ _ _ Hw Kd) as Wd.
  assert (R1 : routed ("decl", 0) (acts (args_part n))).
  { unfold args_part. rewrite Kd. destruct (kid1 d "type") as [t|]; [|apply routed_nil].
    destruct (kid1 t "args") as [x|]; [|apply routed_nil]. apply routed_pass. }
  assert (R2 : routed ("body", 0) (acts (pass_kid n "body"))).
  { unfold pass_kid. destruct (kid1 n "body"); [apply routed_pass | apply routed_nil]. }
  destruct (apply_routed2 _ _ n "decl" "body" ltac:(discriminate) R1 R2) as [K1 K2].
  destruct (clean_shape n) as [ks' Ec]. simpl in Ec.
  assert (A : acts (cov n) = acts (args_part n) ++ acts (pass_kid n "body")) by (rewrite E; apply acts_app).
  unfold clean in Ec. rewrite A in Ec. rewrite Ec in K1, K2.
  (* body *)
  assert (Kb : kid1 (Node "FuncDef" a ks') "body" = option_map clean (kid1 n "body")).
  { rewrite K2. unfold pass_kid. destruct (kid1 n "body") as [b|] eqn:Kb; simpl; [|reflexivity].
    rewrite (descend_pass' "body" 0 [] (cov b)), map_pass_nil. reflexivity. }
  assert (Pb : pass_kid (Node "FuncDef" a ks') "body" = [] /\
               vsub (ovitems (kid1 (Node "FuncDef" a ks') "body")) (ovitems (kid1 n "body"))).
  { unfold pass_kid. rewrite Kb. destruct (kid1 n "body") as [b|] eqn:Kbb; simpl; [|split; [reflexivity | apply vsub_nil]].
    unfold pass_kid in He2, Hi2. rewrite Kbb in He2, Hi2. rewrite has_err_pass in He2. rewrite has_inh_pass in Hi2.
    destruct (D_self b (Forall_kid1 D "FuncDef" a ks "body" b IH Kbb) (wf_kid1 _ _ _ Hw Kbb) He2 Hi2) as [C V].
    rewrite C. split; [reflexivity | exact V]. }
  (* parameters *)
  assert (Pa : args_part (Node "FuncDef" a ks') = [] /\ vsub (vargs_part (Node "FuncDef" a ks')) (vargs_part n)).
  { unfold args_part, vargs_part. rewrite K1, Kd. simpl option_map. cbv iota beta.
    unfold args_part in He1, Hi1 |- *. rewrite Kd in He1, Hi1 |- *.
    destruct (kid1 d "type") as [t|] eqn:Kt.
    2:{ change (acts []) with (@nil action). rewrite descend_nil, apply_clears_nil, Kt. split; [reflexivity | apply vsub_refl]. }
    destruct (kid1 t "args") as [x|] eqn:Kx.
    2:{ change (acts []) with (@nil action). rewrite descend_nil, apply_clears_nil, Kt, Kx. split; [reflexivity | apply vsub_refl]. }
    rewrite (descend_pass' "decl" 0 [("type", 0); ("args", 0)] (cov x)).
    destruct (apply_routed (acts (map (pass [("type", 0); ("args", 0)]) (cov x))) d "type" (routed_pass ("type", 0) [("args", 0)] (cov x))) as [Q1 _].
    rewrite Q1, Kt. simpl option_map. cbv iota beta.
    rewrite (descend_pass' "type" 0 [("args", 0)] (cov x)).
    destruct (apply_routed (acts (map (pass [("args", 0)]) (cov x))) t "args" (routed_pass ("args", 0) [] (cov x))) as [Q2 _].
    rewrite Q2, Kx. simpl option_map. cbv iota beta.
    rewrite (descend_pass' "args" 0 [] (cov x)), map_pass_nil.
    rewrite has_err_pass in He1. rewrite has_inh_pass in Hi1.
    pose proof (D_kid1 d "type" t Dd Kt) as Dt. pose proof (D_kid1 t "args" x Dt Kx) as Dx.
    pose proof (wf_kid1 _ _ _ (wf_kid1 _ _ _ Wd Kt) Kx) as Wx.
    destruct (D_self x Dx Wx He1 Hi1) as [C V]. fold (clean x). rewrite C. split; [reflexivity | exact V]. }
  unfold clean. rewrite A, Ec. rewrite cov_FuncDef. destruct Pa as [Pa1 Pa2]. destruct Pb as [Pb1 Pb2]. rewrite Pa1, Pb1.
  split; [reflexivity|]. unfold vmono. subst n. rewrite !vitems_FuncDef. apply vsub_app; assumption.
Qed.

(* ---------- every node ---------- *)
Lemma D_to_P ks : Forall (fun sk => Forall D (snd sk)) ks -> Forall (fun sk : string * list node => Forall P (snd sk)) ks.
Proof.
  intros H. eapply Forall_impl; [|exact H]. intros sk Hs. eapply Forall_impl; [|exact Hs]. intros x. apply D_self.
Qed.

Lemma P_step c a ks : Forall (fun sk => Forall D (snd sk)) ks -> P (Node c a ks).
Proof.
  intros IHD. pose proof (D_to_P ks IHD) as IH.
  destruct (in_s c COV_REJECT) eqn:Rj; [apply P_fire, cov_reject; exact Rj|].
  destruct (String.eqb_spec c "FuncCall") as [->|Nf].
  { destruct (fcall_special (Node "FuncCall" a ks)) eqn:Sp.
    - apply P_trivial. rewrite cov_FuncCall, Sp. reflexivity.
    - apply P_fire. rewrite cov_FuncCall, Sp. reflexivity. }
  destruct (resolve COVERAGE_METHODS c) eqn:R.
  - apply resolve_walker in R. cbn [In COVERAGE_METHODS] in R.
    repeat match goal with H : _ \/ _ |- _ => destruct H as [H|H] end; try contradiction; subst c.
    + apply P_Assignment; exact IH.
    + destruct (cov (Node "BinaryOp" a ks)) eqn:E; [apply P_trivial; exact E|].
      apply P_fire. rewrite cov_BinaryOp in E |- *. destruct (_ && _); [discriminate | reflexivity].
    + apply P_Cast; exact IH.
    + destruct (cov (Node "Decl" a ks)) eqn:E; [apply P_trivial; exact E|].
      apply P_fire. rewrite cov_Decl in E |- *. destruct (_ && _); [discriminate | reflexivity].
    + apply P_DoWhile; exact IH.
    + apply P_For; exact IH.
    + congruence.
    + apply P_FuncDef; exact IHD.
    + apply P_If; exact IH.
    + apply P_Return; exact IH.
    + apply P_UnaryOp; exact IH.
    + apply P_While; exact IH.
  - destruct (resolve_base _ _ R) as [s Hs]. apply (P_base c a ks s Hs IH).
  - apply P_trivial. apply cov_nh; assumption.
  - apply P_fire. apply cov_none; assumption.
Qed.

Theorem D_all n : D n.
Proof.
  induction n as [c a ks IH] using node_ind'. unfold D. simpl. constructor.
  - apply P_step. exact IH.
  - apply Forall_flat_map. apply Forall_forall. intros [s l] Hin. simpl.
    rewrite Forall_forall in IH. specialize (IH (s, l) Hin). simpl in IH.
    apply Forall_flat_map. eapply Forall_impl; [|exact IH]. intros x Hx. exact Hx.
Qed.

Theorem P_all n : P n.
Proof. apply D_self, D_all. Qed.

(* ---------- the C07 statements ---------- *)
Theorem idempotent_full t t' : wf_pyc t = true -> ast_mod t = Ok t' -> full t' = true.
Proof.
  intros W H. unfold ast_mod in H. destruct (coverage t) as [l|] eqn:C; [|discriminate]. inversion H; subst t'. clear H.
  unfold coverage in C. destruct (cov_entries_ok _ _ C) as [Hi [He M]].
  destruct (P_all t W He Hi) as [Cc _]. unfold clean in Cc. rewrite <- M in Cc.
  unfold full, coverage. rewrite Cc. reflexivity.
Qed.

Theorem supported_untouched t : full t = true -> ast_mod t = Ok t.
Proof.
  unfold full, ast_mod. destruct (coverage t) as [[|e l]|]; try discriminate. intros _. simpl. rewrite apply_clears_nil. reflexivity.
Qed.

(* strict mode refuses a function that is not fully supported (and never touches it) *)
Theorem strict_refuses t : full t = false -> (exists l, coverage t = Ok l) -> syntax_check t true = Ok (false, t).
Proof.
  unfold full, syntax_check. intros F [l C]. rewrite C in *. destruct l; [discriminate | reflexivity].
Qed.

Theorem default_mode_cleans t r : wf_pyc t = true -> syntax_check t false = Ok r -> fst r = true /\ full (snd r) = true.
Proof.
  intros W. unfold syntax_check. destruct (coverage t) as [l|] eqn:C; [|discriminate].
  destruct l as [|e l].
  - intros H. inversion H; subst. simpl. split; [reflexivity|]. unfold full. rewrite C. reflexivity.
  - intros H. inversion H; subst. simpl. split; [reflexivity|].
    apply (idempotent_full t); [exact W|]. unfold ast_mod. rewrite C. reflexivity.
Qed.
