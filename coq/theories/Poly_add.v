(* Polynomial.add: the sum law, for ALL monomial lists (no well-formedness needed),
   fuel sufficiency, and the normal form of the result. *)
From Coq Require Import List Bool Arith Lia.
From PM Require Import Semiring Poly Poly_sem.
Import ListNotations.

Lemma add_tail_val rest : forall nl i c,
  val (add_tail nl rest i) c = ssum (val nl c) (val rest c).
Proof.
  induction rest as [|m t IH]; intros nl i c; simpl.
  - rewrite val_nil, ssum_O_r. reflexivity.
  - destruct (pincl nl m i) as [[tobe i'] nl'] eqn:E.
    rewrite IH, val_cons. destruct tobe.
    + destruct (pincl_val _ _ _ c _ _ _ E) as [H1 _].
      rewrite val_app, val_cons, val_nil, ssum_O_r, H1. clear. sc_solve.
    + rewrite (pincl_val_false _ _ _ c _ _ E). clear. sc_solve.
Qed.

Lemma add_loop_val fuel : forall nl q i r c,
  add_loop fuel nl q i = Some r -> val r c = ssum (val nl c) (val q c).
Proof.
  induction fuel as [|f IH]; intros nl q i r c H; cbn [add_loop] in H; [discriminate|].
  destruct q as [|mono2 q'].
  - inversion H. subst. rewrite val_nil, ssum_O_r. reflexivity.
  - destruct (pincl nl mono2 i) as [[tobe i1] nl1] eqn:E.
    destruct tobe; cbn [negb] in H; cbv iota in H.
    + destruct (pincl_val _ _ _ c _ _ _ E) as [H1 _].
      destruct (Nat.eqb i1 (length nl1)).
      * assert (r = add_tail nl1 (mono2 :: q') i1) as -> by congruence.
        rewrite add_tail_val, !val_cons.
        clear - H1. sc_solve.
      * destruct (nth_error nl1 i1) as [mono1|] eqn:En; [|discriminate].
        destruct (compare (ds mono1) (ds mono2)) eqn:Ec.
        -- apply (IH _ _ _ _ c) in H. rewrite H, !val_cons. clear - H1. sc_solve.
        -- apply (IH _ _ _ _ c) in H. apply compare_equal_eq in Ec.
           rewrite H, (val_list_update_sum _ _ _ _ c En Ec), val_cons. clear - H1. sc_solve.
        -- apply (IH _ _ _ _ c) in H. rewrite H, val_list_insert, val_cons. clear - H1. sc_solve.
    + apply (IH _ _ _ _ c) in H. rewrite H, (pincl_val_false _ _ _ c _ _ E), val_cons. clear. sc_solve.
Qed.

Lemma merge_fuel_val f : forall l r c, val (merge_fuel f l r) c = ssum (val l c) (val r c).
Proof.
  induction f as [|f IH]; intros l r c; simpl.
  - rewrite val_app. apply ssum_comm.
  - destruct l as [|lh lt]; [rewrite app_nil_r, val_nil, ssum_O_l; reflexivity|].
    destruct r as [|rh rt]; [simpl; rewrite val_nil, ssum_O_r; reflexivity|].
    destruct (compare (ds lh) (ds rh)) eqn:Ec.
    + rewrite !val_cons, IH, !val_cons. clear. sc_solve.
    + apply compare_equal_eq in Ec.
      assert (ssum (mval lh c) (mval rh c) = mval (set_sc lh (ssum (sc lh) (sc rh))) c) as Hm.
      { unfold mval. simpl. rewrite Ec. destruct (mmatch c (ds rh)); [reflexivity|reflexivity]. }
      destruct (ssum (sc lh) (sc rh)) eqn:Es.
      * rewrite IH, !val_cons.
        assert (ssum (mval lh c) (mval rh c) = O) as Hz.
        { rewrite Hm. unfold mval. simpl. destruct (mmatch c (ds lh)); reflexivity. }
        clear - Hz. sc_solve.
      * rewrite !val_cons, IH, <- Hm. clear. sc_solve.
      * rewrite !val_cons, IH, <- Hm. clear. sc_solve.
      * rewrite !val_cons, IH, <- Hm. clear. sc_solve.
      * rewrite !val_cons, IH, <- Hm. clear. sc_solve.
    + rewrite !val_cons, IH, !val_cons. clear. sc_solve.
Qed.

Lemma merge_val l r c : val (merge l r) c = ssum (val l c) (val r c).
Proof. apply merge_fuel_val. Qed.

Lemma val_firstn_skipn n l c : ssum (val (firstn n l) c) (val (skipn n l) c) = val l c.
Proof. rewrite <- val_app, firstn_skipn. reflexivity. Qed.

Lemma sort_fuel_val f : forall l c, val (sort_fuel f l) c = val l c.
Proof.
  induction f as [|f IH]; intros l c; simpl; [reflexivity|].
  destruct l as [|a [|b t]]; try reflexivity.
  rewrite merge_val, !IH, ssum_comm. apply val_firstn_skipn.
Qed.

Lemma sort_monomials_val l c : val (sort_monomials l) c = val l c.
Proof. apply sort_fuel_val. Qed.

Lemma val_filter_nz l c : val (filter (fun m => negb (is_O (sc m))) l) c = val l c.
Proof.
  induction l as [|m t IH]; simpl; [reflexivity|].
  destruct (is_O (sc m)) eqn:E; simpl.
  - rewrite val_cons, IH. unfold mval. destruct (sc m); try discriminate.
    destruct (mmatch c (ds m)); rewrite ssum_O_l; reflexivity.
  - rewrite !val_cons, IH. reflexivity.
Qed.

Lemma remove_zeros_val l c : val (remove_zeros l) c = val l c.
Proof.
  unfold remove_zeros. rewrite <- (val_filter_nz l c).
  destruct (filter (fun m => negb (is_O (sc m))) l); reflexivity.
Qed.

Theorem padd_opt_val p q r c : padd_opt p q = Some r -> val r c = ssum (val p c) (val q c).
Proof.
  unfold padd_opt. destruct p as [|a p]; destruct q as [|b q]; intros H.
  - inversion H. reflexivity.
  - inversion H. rewrite val_poly_copy, val_nil, ssum_O_l. reflexivity.
  - inversion H. rewrite val_poly_copy, val_nil, ssum_O_r. reflexivity.
  - destruct (add_loop _ _ _ _) as [nl|] eqn:E; [|discriminate].
    inversion H. rewrite remove_zeros_val, val_mk_poly, sort_monomials_val.
    rewrite (add_loop_val _ _ _ _ _ c E), val_poly_copy. reflexivity.
Qed.

(* ---- fuel is always sufficient ---- *)

Lemma pincl_go_len rest mn : forall j i acc b i' nl,
  pincl_go rest mn j i acc = (b, i', nl) ->
  j = length acc -> i <= length acc + length rest ->
  length nl <= length acc + length rest /\ i' <= length nl /\
  (length acc + length rest - i) >= (length nl - i').
Proof.
  induction rest as [|m t IH]; intros j i acc b i' nl H Hj Hi; simpl in H.
  - inversion H. subst. rewrite rev_length. simpl in *. lia.
  - destruct (minclusion m mn).
    + assert (Hi0 : (if Nat.ltb j i then i - 1 else i) <= length acc + length t).
      { cbn [length] in Hi. destruct (Nat.ltb j i) eqn:E.
        - apply Nat.ltb_lt in E. lia.
        - apply Nat.ltb_ge in E. lia. }
      specialize (IH _ _ _ _ _ _ H Hj Hi0). cbn [length] in *.
      destruct (Nat.ltb j i) eqn:E.
      * apply Nat.ltb_lt in E. lia.
      * lia.
    + inversion H. subst. rewrite rev_append_rev, app_length, rev_length. simpl in *. lia.
    + assert (Hj' : S j = length (m :: acc)) by (simpl; lia).
      assert (Hi' : i <= length (m :: acc) + length t) by (simpl in *; lia).
      specialize (IH _ _ _ _ _ _ H Hj' Hi'). cbn [length] in *. lia.
Qed.

Lemma pincl_len l mn i b i' nl :
  pincl l mn i = (b, i', nl) -> i <= length l ->
  length nl <= length l /\ i' <= length nl /\ length l - i >= length nl - i'.
Proof.
  unfold pincl. intros H Hi. apply pincl_go_len in H; cbn [length] in *; try lia.
Qed.

Lemma list_insert_length {A} (l : list A) i x : length (list_insert l i x) = S (length l).
Proof. revert i. induction l as [|h t IH]; intros [|i]; simpl; try reflexivity. rewrite IH. reflexivity. Qed.

Lemma list_update_length {A} (l : list A) i f : length (list_update l i f) = length l.
Proof. revert i. induction l as [|h t IH]; intros [|i]; simpl; try reflexivity. rewrite IH. reflexivity. Qed.

Lemma add_loop_fuel_ok fuel : forall nl q i,
  i <= length nl -> 2 * length q + (length nl - i) < fuel ->
  exists r, add_loop fuel nl q i = Some r.
Proof.
  induction fuel as [|f IH]; intros nl q i Hi Hf; [lia|]. simpl.
  destruct q as [|mono2 q']; [eexists; reflexivity|].
  destruct (pincl nl mono2 i) as [[tobe i1] nl1] eqn:E.
  destruct (pincl_len _ _ _ _ _ _ E Hi) as [L1 [L2 L3]].
  destruct tobe; simpl.
  - destruct (Nat.eqb i1 (length nl1)) eqn:Ee; [eexists; reflexivity|].
    apply Nat.eqb_neq in Ee.
    destruct (nth_error nl1 i1) as [mono1|] eqn:En.
    + destruct (compare (ds mono1) (ds mono2)).
      * apply IH; simpl in *; lia.
      * apply IH; rewrite ?list_update_length; simpl in *; lia.
      * apply IH; rewrite ?list_insert_length; simpl in *; lia.
    + apply nth_error_None in En. lia.
  - apply IH; simpl in *; lia.
Qed.

Theorem padd_opt_total p q : exists r, padd_opt p q = Some r.
Proof.
  unfold padd_opt. destruct p as [|a p]; destruct q as [|b q]; try (eexists; reflexivity).
  destruct (add_loop_fuel_ok (add_fuel_for (a :: p) (b :: q)) (poly_copy (a :: p)) (b :: q) 0) as [r Hr].
  - lia.
  - unfold add_fuel_for, poly_copy. simpl. rewrite map_length. lia.
  - rewrite Hr. eexists. reflexivity.
Qed.

Theorem padd_val p q c : val (padd p q) c = ssum (val p c) (val q c).
Proof.
  unfold padd. destruct (padd_opt_total p q) as [r Hr]. rewrite Hr. apply (padd_opt_val _ _ _ c Hr).
Qed.

(* ---- normal form of the result ---- *)

(* no zero term alongside others *)
Definition NFz (l : poly) : Prop := l = zero_poly \/ (l <> [] /\ Forall (fun m => sc m <> O) l).

Lemma remove_zeros_NFz l : NFz (remove_zeros l).
Proof.
  unfold remove_zeros, NFz.
  destruct (filter (fun m => negb (is_O (sc m))) l) as [|a t] eqn:E; [left; reflexivity|].
  right. split; [discriminate|].
  rewrite <- E. apply Forall_forall. intros m Hm. apply filter_In in Hm. destruct Hm as [_ Hm].
  destruct (sc m); simpl in Hm; congruence.
Qed.

(* strict sortedness w.r.t. compare => no two terms with the same delta list *)
Definition dlt (a b : list delta) : Prop := compare a b = SMALLER.

Fixpoint all_lt (a : list delta) (l : list mono) : Prop :=
  match l with [] => True | m :: t => dlt a (ds m) /\ all_lt a t end.

Fixpoint ssorted (l : list mono) : Prop :=
  match l with [] => True | m :: t => all_lt (ds m) t /\ ssorted t end.

Lemma delta_ltb_irrefl a : delta_ltb a a = false.
Proof. unfold delta_ltb. rewrite !Nat.ltb_irrefl, Nat.eqb_refl. reflexivity. Qed.

Lemma delta_ltb_trans a b c : delta_ltb a b = true -> delta_ltb b c = true -> delta_ltb a c = true.
Proof.
  unfold delta_ltb. rewrite !orb_true_iff, !andb_true_iff, !Nat.ltb_lt, !Nat.eqb_eq. lia.
Qed.

Lemma delta_ltb_total a b : delta_eqb a b = false -> delta_ltb a b = false -> delta_ltb b a = true.
Proof.
  destruct a as [a1 a2], b as [b1 b2]. unfold delta_eqb, delta_ltb. simpl.
  rewrite andb_false_iff, orb_false_iff, andb_false_iff, orb_true_iff, andb_true_iff,
    !Nat.eqb_neq, !Nat.ltb_ge, !Nat.ltb_lt, Nat.eqb_eq. lia.
Qed.

Lemma delta_ltb_asym a b : delta_ltb a b = true -> delta_ltb b a = false.
Proof.
  unfold delta_ltb. rewrite orb_true_iff, andb_true_iff, orb_false_iff, andb_false_iff,
    !Nat.ltb_lt, !Nat.ltb_ge, Nat.eqb_eq, Nat.eqb_neq. lia.
Qed.

Lemma delta_eqb_sym a b : delta_eqb a b = delta_eqb b a.
Proof. unfold delta_eqb. rewrite (Nat.eqb_sym (fst a)), (Nat.eqb_sym (snd a)). reflexivity. Qed.

Lemma compare_larger_smaller a : forall b, compare a b = LARGER -> compare b a = SMALLER.
Proof.
  induction a as [|x a IH]; intros [|y b] H; simpl in *; try discriminate; try reflexivity.
  rewrite delta_eqb_sym. destruct (delta_eqb x y) eqn:E.
  - apply IH. exact H.
  - destruct (delta_ltb x y) eqn:L; [discriminate|].
    rewrite (delta_ltb_total _ _ E L). reflexivity.
Qed.

Lemma compare_smaller_larger a : forall b, compare a b = SMALLER -> compare b a = LARGER.
Proof.
  induction a as [|x a IH]; intros [|y b] H; simpl in *; try discriminate; try reflexivity.
  rewrite delta_eqb_sym. destruct (delta_eqb x y) eqn:E.
  - apply IH. exact H.
  - destruct (delta_ltb x y) eqn:L; [|discriminate].
    rewrite (delta_ltb_asym _ _ L). reflexivity.
Qed.

Lemma dlt_trans a : forall b c, dlt a b -> dlt b c -> dlt a c.
Proof.
  unfold dlt. induction a as [|x a IH]; intros [|y b] [|z c] H1 H2; simpl in *; try discriminate; try reflexivity.
  destruct (delta_eqb x y) eqn:E1.
  - apply delta_eqb_eq in E1. subst y.
    destruct (delta_eqb x z) eqn:E2.
    + eapply IH; eassumption.
    + exact H2.
  - destruct (delta_ltb x y) eqn:L1; [|discriminate].
    destruct (delta_eqb y z) eqn:E2.
    + apply delta_eqb_eq in E2. subst z. rewrite E1, L1. reflexivity.
    + destruct (delta_ltb y z) eqn:L2; [|discriminate].
      pose proof (delta_ltb_trans _ _ _ L1 L2) as L3.
      destruct (delta_eqb x z) eqn:E3.
      * apply delta_eqb_eq in E3. subst z. rewrite (delta_ltb_asym _ _ L1) in L2. discriminate.
      * rewrite L3. reflexivity.
Qed.

Lemma dlt_irrefl a : ~ dlt a a.
Proof. unfold dlt. rewrite compare_refl. discriminate. Qed.

Lemma all_lt_trans a b l : dlt a b -> all_lt b l -> all_lt a l.
Proof.
  induction l as [|m t IH]; simpl; [tauto|]. intros H [H1 H2]. split; [eapply dlt_trans; eassumption | auto].
Qed.

Lemma all_lt_app a l r : all_lt a (l ++ r) <-> all_lt a l /\ all_lt a r.
Proof. induction l as [|m t IH]; simpl; [tauto|]. rewrite IH. tauto. Qed.

Lemma merge_fuel_sorted f : forall l r,
  length l + length r <= f -> ssorted l -> ssorted r ->
  ssorted (merge_fuel f l r) /\
  (forall a, all_lt a l -> all_lt a r -> all_lt a (merge_fuel f l r)).
Proof.
  induction f as [|f IH]; intros l r Hf Hl Hr.
  - destruct l, r; simpl in *; try lia. split; [exact Logic.I|tauto].
  - simpl. destruct l as [|lh lt]; [rewrite app_nil_r; split; [exact Hr | tauto]|].
    destruct r as [|rh rt]; [simpl; split; [exact Hl | tauto]|].
    simpl in Hl, Hr. destruct Hl as [Hl1 Hl2], Hr as [Hr1 Hr2].
    destruct (compare (ds lh) (ds rh)) eqn:Ec.
    + destruct (IH lt (rh :: rt)) as [S1 S2]; [simpl in *; lia | exact Hl2 | simpl; tauto |].
      split.
      * simpl. split; [|exact S1]. apply S2; [exact Hl1|]. simpl. split; [exact Ec|].
        eapply all_lt_trans; [exact Ec | exact Hr1].
      * intros a [A1 A2] A3. simpl. split; [exact A1|]. apply S2; assumption.
    + pose proof (compare_equal_eq _ _ Ec) as Eq.
      destruct (IH lt rt) as [S1 S2]; [simpl in *; lia | exact Hl2 | exact Hr2 |].
      assert (all_lt (ds lh) (merge_fuel f lt rt)) as Hall.
      { apply S2; [exact Hl1 | rewrite Eq; exact Hr1]. }
      destruct (ssum (sc lh) (sc rh)); simpl.
      * split; [exact S1|]. intros a [A1 A2] [A3 A4]. apply S2; assumption.
      * split; [split; [exact Hall | exact S1]|]. intros a [A1 A2] [A3 A4]. split; [exact A1 | apply S2; assumption].
      * split; [split; [exact Hall | exact S1]|]. intros a [A1 A2] [A3 A4]. split; [exact A1 | apply S2; assumption].
      * split; [split; [exact Hall | exact S1]|]. intros a [A1 A2] [A3 A4]. split; [exact A1 | apply S2; assumption].
      * split; [split; [exact Hall | exact S1]|]. intros a [A1 A2] [A3 A4]. split; [exact A1 | apply S2; assumption].
    + pose proof (compare_larger_smaller _ _ Ec) as Ec'.
      destruct (IH (lh :: lt) rt) as [S1 S2]; [simpl in *; lia | simpl; tauto | exact Hr2 |].
      split.
      * simpl. split; [|exact S1]. apply S2; [|exact Hr1]. simpl. split; [exact Ec'|].
        eapply all_lt_trans; [exact Ec' | exact Hl1].
      * intros a A1 [A2 A3]. simpl. split; [exact A2|]. apply S2; assumption.
Qed.

Lemma merge_fuel_length h : forall u v, length (merge_fuel h u v) <= length u + length v.
Proof.
  induction h as [|h IHh]; intros u v; simpl.
  - rewrite app_length. lia.
  - destruct u as [|uh ut]; [rewrite app_nil_r; simpl; lia|].
    destruct v as [|vh vt]; [simpl; lia|].
    destruct (compare (ds uh) (ds vh)).
    + cbn [length]. specialize (IHh ut (vh :: vt)). cbn [length] in *. lia.
    + specialize (IHh ut vt). destruct (ssum (sc uh) (sc vh)); cbn [length] in *; lia.
    + cbn [length]. specialize (IHh (uh :: ut) vt). cbn [length] in *. lia.
Qed.

Lemma sort_fuel_length g : forall x, length (sort_fuel g x) <= length x.
Proof.
  induction g as [|g IHg]; intros x; simpl; [lia|].
  destruct x as [|a [|b t]]; try (simpl; lia).
  remember (a :: b :: t) as x eqn:Ex.
  unfold merge. eapply Nat.le_trans; [apply merge_fuel_length|].
  pose proof (IHg (skipn (Nat.div2 (length x)) x)) as H1.
  pose proof (IHg (firstn (Nat.div2 (length x)) x)) as H2.
  pose proof (f_equal (@length mono) (firstn_skipn (Nat.div2 (length x)) x)) as H3.
  rewrite app_length in H3. lia.
Qed.

Lemma sort_fuel_sorted f : forall l, length l <= f -> ssorted (sort_fuel f l).
Proof.
  induction f as [|f IH]; intros l Hf.
  - destruct l; simpl in *; [exact Logic.I | lia].
  - simpl. destruct l as [|a [|b t]]; [exact Logic.I | simpl; tauto |].
    remember (a :: b :: t) as x eqn:Ex.
    assert (Nat.div2 (length x) < length x) as Hd by (apply Nat.lt_div2; subst x; simpl; lia).
    assert (0 < Nat.div2 (length x)) as Hd0 by (subst x; simpl; lia).
    apply merge_fuel_sorted.
    + reflexivity.
    + apply IH. rewrite skipn_length. lia.
    + apply IH. rewrite firstn_length. lia.
Qed.

Lemma sort_monomials_sorted l : ssorted (sort_monomials l).
Proof. apply sort_fuel_sorted. lia. Qed.

Lemma ssorted_filter f l : ssorted l -> ssorted (filter f l).
Proof.
  induction l as [|m t IH]; simpl; [tauto|]. intros [H1 H2].
  assert (forall a, all_lt a t -> all_lt a (filter f t)) as Hf.
  { clear. intros a. induction t as [|x t IH]; simpl; [tauto|]. intros [A B]. destruct (f x); simpl; tauto. }
  destruct (f m); simpl; [split; [apply Hf; exact H1 | apply IH; exact H2] | apply IH; exact H2].
Qed.

Lemma all_lt_not_in a t : all_lt a t -> ~ In a (map ds t).
Proof.
  induction t as [|y t IHt]; simpl; [tauto|]. intros [A B] [Hin | Hin].
  - rewrite Hin in A. exact (dlt_irrefl _ A).
  - exact (IHt B Hin).
Qed.

Lemma ssorted_no_dup_ds l : ssorted l -> NoDup (map ds l).
Proof.
  induction l as [|m t IH]; simpl; intros H; constructor.
  - apply all_lt_not_in. tauto.
  - apply IH. tauto.
Qed.

Lemma remove_zeros_sorted l : ssorted l -> ssorted (remove_zeros l).
Proof.
  intros H. unfold remove_zeros.
  pose proof (ssorted_filter (fun m => negb (is_O (sc m))) l H) as Hf.
  destruct (filter (fun m => negb (is_O (sc m))) l); [simpl; tauto | exact Hf].
Qed.

Lemma mk_poly_sorted l : ssorted l -> ssorted (mk_poly l).
Proof. destruct l; simpl; tauto. Qed.

(* Polynomial.list is never empty in pymwp (the constructor substitutes the zero monomial);
   for non-empty operands the result is in normal form whatever the operands contain *)
Theorem padd_nf p q : p <> [] -> q <> [] ->
  NFz (padd p q) /\ ssorted (padd p q) /\ NoDup (map ds (padd p q)).
Proof.
  intros Hp Hq. unfold padd. destruct (padd_opt_total p q) as [r Hr]. rewrite Hr.
  unfold padd_opt in Hr. destruct p as [|a p]; [congruence|]. destruct q as [|b q]; [congruence|].
  destruct (add_loop _ _ _ _) as [nl|]; [|discriminate]. inversion Hr. subst r.
  assert (ssorted (remove_zeros (mk_poly (sort_monomials nl)))) as Hs.
  { apply remove_zeros_sorted, mk_poly_sorted, sort_monomials_sorted. }
  split; [apply remove_zeros_NFz|]. split; [exact Hs | apply ssorted_no_dup_ds; exact Hs].
Qed.
