(* Section P4 of Sem_stmts.v: the leaves of the analysis (x = y op z; x = c; x = y; skipped
   statements) against the leaves of the calculus.

   Layout:
     1. list_update / set_cell / put_column            (generic, reusable)
     2. leaf_rel = identity(variables).replace_column(vector, x): shape and meaning
     3. the calculus side (assoc_sc, scol, id_outside / eqV plumbing)
     4. create_vector: value of from_scalars, the rule table, dedup_first bookkeeping
     5. the four theorems + non-vacuity examples *)
From Coq Require Import String List Bool Arith Lia.
From PM Require Import Semiring Poly Poly_sem Poly_add Poly_times Poly_wf Rel Analysis Calculus
  Rel_sem Rel_hom Sem_stmts.
From PMGen Require Import RulesGen.
Import ListNotations.
Open Scope list_scope.

(* ------------------------------------------------------------------ *)
(* 1. list_update / set_cell / put_column                              *)
(* ------------------------------------------------------------------ *)

Lemma list_update_length {A} (f : A -> A) : forall l i, length (list_update l i f) = length l.
Proof. induction l as [|h t IH]; intros [|i]; simpl; auto. Qed.

Lemma list_update_nth {A} (f : A -> A) (d : A) : forall l i k,
  nth k (list_update l i f) d =
  if Nat.eqb k i && Nat.ltb i (length l) then f (nth k l d) else nth k l d.
Proof.
  induction l as [|h t IH]; intros i k.
  - cbn [list_update length]. replace (Nat.ltb i 0) with false by (symmetry; apply Nat.ltb_ge; lia).
    rewrite andb_false_r. reflexivity.
  - destruct i as [|i], k as [|k]; cbn [list_update nth length]; try reflexivity.
    rewrite IH. reflexivity.
Qed.

Lemma set_cell_length m i j p : length (set_cell m i j p) = length m.
Proof. unfold set_cell. apply list_update_length. Qed.

Lemma set_cell_row_length m i j p k :
  length (nth k (set_cell m i j p) []) = length (nth k m []).
Proof.
  unfold set_cell. rewrite list_update_nth.
  destruct (Nat.eqb k i && Nat.ltb i (length m)); [apply list_update_length|reflexivity].
Qed.

Lemma mget_set_cell m i j p i' j' :
  i < length m -> j < length (nth i m []) ->
  mget (set_cell m i j p) i' j' = if Nat.eqb i' i && Nat.eqb j' j then p else mget m i' j'.
Proof.
  intros Hi Hj. unfold mget, set_cell. rewrite list_update_nth.
  apply Nat.ltb_lt in Hi. rewrite Hi, andb_true_r.
  destruct (Nat.eqb_spec i' i) as [->|Hne]; cbn [andb]; [|reflexivity].
  rewrite list_update_nth. apply Nat.ltb_lt in Hj. rewrite Hj, andb_true_r.
  destruct (Nat.eqb j' j); reflexivity.
Qed.

Lemma set_cell_Forall (Q : poly -> Prop) m i j p :
  Forall (Forall Q) m -> Q p -> Forall (Forall Q) (set_cell m i j p).
Proof.
  intros Hm Hp. unfold set_cell. apply list_update_forall; [|exact Hm].
  intros row Hrow. apply list_update_forall; [intros _ _; exact Hp|exact Hrow].
Qed.

(* Relation.replace_column's loop: succeeds when the vector fits; writes the vector into column j
   on rows idx .. idx+|vector|-1 and nothing else *)
Lemma put_column_spec j : forall vector m idx,
  idx + length vector <= length m ->
  (forall i, i < length m -> j < length (nth i m [])) ->
  exists m', put_column m j idx vector = Some m' /\
    length m' = length m /\
    (forall i, length (nth i m' []) = length (nth i m [])) /\
    (forall i k, mget m' i k =
       if Nat.eqb k j && (Nat.leb idx i && Nat.ltb i (idx + length vector))
       then nth (i - idx) vector zero_poly else mget m i k) /\
    (forall Q : poly -> Prop, Forall (Forall Q) m -> Forall Q vector -> Forall (Forall Q) m').
Proof.
  induction vector as [|v t IH]; intros m idx Hfit Hrows.
  - exists m. cbn [put_column length]. split; [reflexivity|]. split; [reflexivity|].
    split; [reflexivity|]. split; [|intros Q Hm _; exact Hm].
    intros i k. replace (Nat.leb idx i && Nat.ltb i (idx + 0)) with false; [rewrite andb_false_r; reflexivity|].
    symmetry. destruct (Nat.leb_spec idx i); [|reflexivity]. apply Nat.ltb_ge. lia.
  - cbn [length] in Hfit. cbn [put_column].
    assert (Hi : idx < length m) by lia.
    pose proof (Hrows idx Hi) as Hj.
    rewrite (proj2 (Nat.ltb_lt _ _) Hi), (proj2 (Nat.ltb_lt _ _) Hj). cbn [andb].
    destruct (IH (set_cell m idx j v) (S idx)) as [m' [Hput [Hlen [Hrl [Hget HQ]]]]].
    + rewrite set_cell_length. lia.
    + intros i Hil. rewrite set_cell_length in Hil. rewrite set_cell_row_length. apply Hrows. exact Hil.
    + exists m'. split; [exact Hput|]. split; [rewrite Hlen; apply set_cell_length|].
      split; [intros i; rewrite Hrl; apply set_cell_row_length|]. split.
      * intros i k. rewrite Hget. rewrite (mget_set_cell m idx j v i k Hi Hj). cbn [length].
        destruct (Nat.eqb_spec k j) as [->|Hk]; cbn [andb].
        -- destruct (Nat.eqb_spec i idx) as [->|Hne].
           ++ replace (Nat.leb (S idx) idx) with false by (symmetry; apply Nat.leb_gt; lia).
              cbn [andb]. rewrite Nat.leb_refl.
              replace (Nat.ltb idx (idx + S (length t))) with true by (symmetry; apply Nat.ltb_lt; lia).
              cbn [andb]. rewrite Nat.sub_diag. reflexivity.
           ++ destruct (Nat.leb_spec (S idx) i) as [Hle|Hgt].
              ** replace (Nat.leb idx i) with true by (symmetry; apply Nat.leb_le; lia).
                 replace (idx + S (length t)) with (S idx + length t) by lia. cbn [andb].
                 destruct (Nat.ltb i (S idx + length t)); [|reflexivity].
                 replace (i - idx) with (S (i - S idx)) by lia. reflexivity.
              ** replace (Nat.leb idx i) with false by (symmetry; apply Nat.leb_gt; lia).
                 reflexivity.
        -- rewrite andb_false_r. reflexivity.
      * intros Q Hm Hvec. inversion Hvec as [|? ? Hv Ht]; subst.
        apply HQ; [apply set_cell_Forall; assumption|exact Ht].
Qed.

(* ------------------------------------------------------------------ *)
(* 2. leaf_rel                                                         *)
(* ------------------------------------------------------------------ *)

Lemma opt_names_cons_some s l : opt_names (Some s :: l) = s :: opt_names l.
Proof. reflexivity. Qed.

Lemma opt_names_cons_none l : opt_names (None :: l) = opt_names l.
Proof. reflexivity. Qed.

Lemma opt_names_In s l : In s (opt_names l) <-> In (Some s) l.
Proof.
  induction l as [|o l IH]; [reflexivity|].
  destruct o as [t|]; [rewrite opt_names_cons_some|rewrite opt_names_cons_none]; cbn [In]; rewrite IH.
  - split; (intros [H|H]; [left; congruence|right; exact H]).
  - split; [intros H; right; exact H|intros [H|H]; [discriminate|exact H]].
Qed.

(* mk_rel's falsy-name filter on the names of a leaf (None stands for a constant operand, which the
   code turns into a falsy name) keeps exactly the variables *)
Lemma filter_names variables :
  Forall (fun v => v <> EmptyString) (opt_names variables) ->
  filter nonempty_str (map (fun o => match o with Some s => s | None => EmptyString end) variables)
  = opt_names variables.
Proof.
  induction variables as [|o l IH]; intros H; [reflexivity|].
  destruct o as [s|]; cbn [map filter].
  - rewrite opt_names_cons_some in *. inversion H as [|? ? Hs Hl]; subst.
    rewrite (nonempty_str_true s Hs), (IH Hl). reflexivity.
  - rewrite opt_names_cons_none in *. cbn. apply IH. exact H.
Qed.

Definition idc (i k : nat) : poly := if Nat.eqb i k then unit_poly else zero_poly.

(* shape of identity(variables).replace_column(vector, x) when the vector has one entry per variable *)
Lemma leaf_rel_ok variables vector x j :
  Forall (fun v => v <> EmptyString) (opt_names variables) ->
  NoDup (opt_names variables) ->
  index_of_str x (opt_names variables) = Some j ->
  length vector = length (opt_names variables) ->
  exists r, leaf_rel variables vector x = ROk r /\ rvars r = opt_names variables /\ wf_rel r /\
    (Forall pwf vector -> rel_pwf r) /\
    (forall i k, i < length (opt_names variables) -> k < length (opt_names variables) ->
       mget (rmat r) i k = if Nat.eqb k j then nth i vector zero_poly else idc i k).
Proof.
  set (rows := opt_names variables). intros Hne Hnd Hj Hlen.
  unfold leaf_rel, replace_column.
  assert (Hrv : rvars (mk_rel (map (fun o => match o with Some s => s | None => EmptyString end) variables)
                              (identity_matrix (length variables))) = rows).
  { unfold mk_rel. cbn [rvars]. apply filter_names. exact Hne. }
  rewrite Hrv. rewrite (rel_identity_eq rows Hne). cbn [rvars rmat]. rewrite Hj.
  set (n := length rows) in *.
  set (idf := fun i k : nat => if Nat.eqb i k then unit_poly else zero_poly).
  pose proof (index_of_str_lt _ _ _ Hj) as Hjn. fold n in Hjn.
  assert (Hbrow : forall i, i < n -> length (nth i (build n n idf) []) = n).
  { intros i Hi. apply (proj1 (Forall_forall _ _) (build_rows n n idf)). apply nth_In.
    rewrite build_length. exact Hi. }
  destruct (put_column_spec j vector (build n n idf) 0) as [m' [Hput [Hl [Hrl [Hget HQ]]]]].
  - rewrite build_length. lia.
  - intros i Hi. rewrite build_length in Hi. rewrite (Hbrow i Hi). exact Hjn.
  - rewrite Hput. exists (Rel rows m'). split; [reflexivity|]. split; [reflexivity|].
    rewrite build_length in Hl. split; [|split].
    + unfold wf_rel. cbn [rvars rmat]. split; [exact Hnd|]. split; [exact Hne|]. split; [exact Hl|].
      apply Forall_forall. intros row Hrow.
      destruct (In_nth _ _ [] Hrow) as [i [Hi Hnth]]. rewrite <- Hnth, Hrl. apply Hbrow. lia.
    + intros Hvec. unfold rel_pwf. cbn [rmat]. apply HQ; [|exact Hvec].
      apply build_Forall. intros i k _ _. apply id_cell_pwf.
    + intros i k Hi Hk. cbn [rmat]. rewrite Hget. cbn [Nat.leb Nat.add]. rewrite Nat.sub_0_r.
      rewrite Hlen. fold n. rewrite (proj2 (Nat.ltb_lt _ _) Hi). cbn [andb]. rewrite andb_true_r.
      rewrite (mget_build n n idf i k Hi Hk). reflexivity.
Qed.

Lemma val_unit_poly c : val unit_poly c = M.
Proof. reflexivity. Qed.

Lemma val_idc i k c : val (idc i k) c = if Nat.eqb i k then M else O.
Proof. unfold idc. destruct (Nat.eqb i k); reflexivity. Qed.

(* ------------------------------------------------------------------ *)
(* 3. the calculus side                                                *)
(* ------------------------------------------------------------------ *)

Lemma assoc_sc_index u : forall rows vec,
  assoc_sc u rows vec = match index_of_str u rows with Some i => nth i vec O | None => O end.
Proof.
  induction rows as [|r rs IH]; intros vec; [reflexivity|].
  cbn [assoc_sc index_of_str]. destruct vec as [|v vs].
  - destruct (String.eqb u r); [reflexivity|].
    destruct (index_of_str u rs) as [i|]; cbn [option_map]; [destruct i|]; reflexivity.
  - destruct (String.eqb u r); [reflexivity|]. rewrite IH.
    destruct (index_of_str u rs) as [i|]; reflexivity.
Qed.

Lemma id_outside_ext V A B : (forall x y, A x y = B x y) -> id_outside V A -> id_outside V B.
Proof. intros E H x y Hxy. rewrite <- E. apply H. exact Hxy. Qed.

Lemma eqV_ext_r V R A B : (forall x y, A x y = B x y) -> eqV V R A -> eqV V R B.
Proof. intros E H x y Hx Hy. rewrite <- E. apply H; assumption. Qed.

(* a matrix that differs from the identity only in column x, there only on rows of V, is the
   identity outside V as soon as x is in V *)
Lemma id_outside_scol V x f :
  In x V -> (forall u, ~ In u V -> f u = O) -> id_outside V (scol x f).
Proof.
  intros Hx Hf u v Huv. unfold scol.
  destruct (String.eqb_spec v x) as [->|Hne]; [|reflexivity].
  destruct Huv as [Hu|Hv]; [|contradiction].
  rewrite (Hf u Hu). unfold sid.
  destruct (String.eqb_spec u x) as [->|_]; [contradiction|reflexivity].
Qed.

(* the meaning of the leaf relation: column x is the vector (as values), the rest is the identity *)
Lemma leaf_rel_sem variables vector x j ch :
  Forall (fun v => v <> EmptyString) (opt_names variables) ->
  NoDup (opt_names variables) ->
  index_of_str x (opt_names variables) = Some j ->
  length vector = length (opt_names variables) ->
  Forall pwf vector ->
  Forall (fun p => val p ch <> I) vector ->
  let A := scol x (fun u => assoc_sc u (opt_names variables) (map (fun p => val p ch) vector)) in
  exists r, leaf_rel variables vector x = ROk r /\ rvars r = opt_names variables /\
    wf_rel r /\ rel_pwf r /\ clean r ch /\
    id_outside (opt_names variables) A /\ eqV (opt_names variables) (rval r ch) A.
Proof.
  intros Hne Hnd Hj Hlen Hpwf Hfin A.
  destruct (leaf_rel_ok variables vector x j Hne Hnd Hj Hlen) as [r [Hr [Hrv [Hwf [Hp Hget]]]]].
  set (rows := opt_names variables) in *.
  assert (Hval : forall u v i k, index_of_str u rows = Some i -> index_of_str v rows = Some k ->
            rval r ch u v = if Nat.eqb k j then val (nth i vector zero_poly) ch
                            else if Nat.eqb i k then M else O).
  { intros u v i k Hu Hv. unfold rval, cell. rewrite Hrv, Hu, Hv.
    rewrite (Hget i k (index_of_str_lt _ _ _ Hu) (index_of_str_lt _ _ _ Hv)).
    destruct (Nat.eqb k j); [reflexivity|apply val_idc]. }
  exists r. split; [exact Hr|]. split; [exact Hrv|]. split; [exact Hwf|]. split; [exact (Hp Hpwf)|].
  split; [|split].
  - intros u v Hu Hv. rewrite Hrv in Hu, Hv.
    apply index_of_str_In in Hu. destruct Hu as [i Hu].
    apply index_of_str_In in Hv. destruct Hv as [k Hv].
    rewrite (Hval u v i k Hu Hv).
    destruct (Nat.eqb k j).
    + apply (proj1 (Forall_forall _ _) Hfin). apply nth_In. rewrite Hlen.
      exact (index_of_str_lt _ _ _ Hu).
    + destruct (Nat.eqb i k); discriminate.
  - apply id_outside_scol.
    + apply index_of_str_In. exists j. exact Hj.
    + intros u Hu. rewrite assoc_sc_index. apply index_of_str_none in Hu. rewrite Hu. reflexivity.
  - intros u v Hu Hv.
    apply index_of_str_In in Hu. destruct Hu as [i Hu].
    apply index_of_str_In in Hv. destruct Hv as [k Hv].
    rewrite (Hval u v i k Hu Hv). unfold A, scol.
    rewrite <- (index_of_str_eqb v x rows k j Hv Hj).
    destruct (Nat.eqb k j).
    + rewrite assoc_sc_index, Hu. change O with (val zero_poly ch) at 1.
      rewrite (map_nth (fun p => val p ch)). reflexivity.
    + unfold sid. rewrite (index_of_str_eqb u v rows i k Hu Hv). reflexivity.
Qed.

(* ------------------------------------------------------------------ *)
(* 4. create_vector                                                    *)
(* ------------------------------------------------------------------ *)

Lemma from_scalars3 i a b c :
  from_scalars i [a; b; c] = [Mono a [(0, i)]; Mono b [(1, i)]; Mono c [(2, i)]].
Proof. reflexivity. Qed.

(* three monomials with deltas (0,i), (1,i), (2,i): exactly one matches an in-domain choice *)
Lemma val_from_scalars3 i a b c ch :
  ch i < 3 -> val (from_scalars i [a; b; c]) ch = nth_triple (a, b, c) (ch i).
Proof.
  intros H. rewrite from_scalars3. unfold val, terms, mmatch, dmatch, nth_triple.
  cbn [filter forallb ds fst snd].
  destruct (ch i) as [|[|[|k]]]; [| | |lia]; cbn; apply ssum_O_r.
Qed.

Lemma pwf_from_scalars3 i a b c : pwf (from_scalars i [a; b; c]).
Proof. rewrite from_scalars3. split; [discriminate|]. repeat constructor. Qed.

Lemma in_domain_nth cs i : in_domain cs -> nth i cs 0 < 3.
Proof.
  intros H. destruct (Nat.lt_ge_cases i (length cs)) as [Hi|Hi].
  - apply (proj1 (Forall_forall _ _) H). apply nth_In. exact Hi.
  - rewrite nth_overflow by exact Hi. lia.
Qed.

Lemma opt_str_eqb_eq a b : opt_str_eqb a b = true <-> a = b.
Proof.
  destruct a as [s|], b as [t|]; cbn [opt_str_eqb]; try (split; congruence).
  rewrite String.eqb_eq. split; congruence.
Qed.

Lemma opt_str_eqb_refl a : opt_str_eqb a a = true.
Proof. apply opt_str_eqb_eq. reflexivity. Qed.

Lemma dedup_first_In o : forall l, In o (dedup_first l) -> In o l.
Proof.
  induction l as [|h t IH]; [intros []|]. cbn [dedup_first In].
  intros [H|H]; [left; exact H|]. apply filter_In in H. right. apply IH. tauto.
Qed.

Lemma dedup_first_NoDup : forall l, NoDup (dedup_first l).
Proof.
  induction l as [|h t IH]; cbn [dedup_first]; constructor.
  - intros H. apply filter_In in H. destruct H as [_ H]. rewrite opt_str_eqb_refl in H. discriminate.
  - apply NoDup_filter'. exact IH.
Qed.

Lemma opt_names_NoDup l : NoDup l -> NoDup (opt_names l).
Proof.
  induction 1 as [|o l Ho Hl IH]; [constructor|].
  destruct o as [s|]; [rewrite opt_names_cons_some|rewrite opt_names_cons_none; exact IH].
  constructor; [rewrite opt_names_In; exact Ho|exact IH].
Qed.

(* number of rule triples for the operand shapes *)
Definition ntr (yn zn : option string) : nat :=
  match yn, zn with
  | Some a, Some b => if String.eqb a b then 1 else 2
  | _, _ => 1
  end.

Lemma mem_bin_ops op : mem_strb op BIN_OPS = true -> op = "+"%string \/ op = "-"%string \/ op = "*"%string.
Proof.
  intros H. apply mem_strb_In in H. cbn [BIN_OPS In] in H.
  destruct H as [H|[H|[H|[]]]]; auto.
Qed.

(* what the generated table yields for an operator of BIN_OPS: the documented number of triples,
   none of which contains the infinity scalar *)
Lemma cv_lookup_len op yn zn tr :
  mem_strb op BIN_OPS = true -> cv_lookup CV_TABLE op yn zn = Some tr ->
  length tr = ntr yn zn /\ Forall (fun t => forall c, nth_triple t c <> I) tr.
Proof.
  intros Hop H. rewrite cv_table_is_documented in H.
  assert (Hfin : forall a b c k, In (a, b, c) [(M, M, M); (W, W, W); (P, P, W); (M, P, W); (P, M, W)] ->
                   nth_triple (a, b, c) k <> I).
  { intros a b c k Hin. cbn [In] in Hin.
    destruct Hin as [E|[E|[E|[E|[E|[]]]]]]; injection E as <- <- <-;
      destruct k as [|[|k]]; discriminate. }
  destruct (mem_bin_ops op Hop) as [-> | [-> | ->]];
    destruct yn as [a|], zn as [b|]; cbn in H; unfold ntr;
    try (destruct (String.eqb a b)); cbn in H; injection H as <-;
    (split; [reflexivity|]);
    repeat constructor; intros k; apply Hfin; cbn [In]; tauto.
Qed.

Lemma rows_len x yn zn :
  yn <> None \/ zn <> None ->
  length (opt_names (dedup_first [Some x; yn; zn])) =
  (if negb (opt_str_eqb (Some x) yn) && negb (opt_str_eqb (Some x) zn) then 1 else 0) + ntr yn zn.
Proof.
  intros Hyz. unfold ntr.
  destruct yn as [a|], zn as [b|]; cbn [dedup_first filter opt_str_eqb negb andb];
    [| | |destruct Hyz; congruence];
    repeat (match goal with
            | |- context[String.eqb ?s ?t] =>
                destruct (String.eqb_spec s t); try subst; cbn [filter opt_str_eqb negb andb]
            end);
    try congruence; try reflexivity.
Qed.

(* ------------------------------------------------------------------ *)
(* 5. the theorems                                                     *)
(* ------------------------------------------------------------------ *)

(* the non-constant branch of an_binary, on operand NAMES *)
Definition an_bin_core (index : nat) (x op : string) (yn zn : option string) (d : dgraph) : res cr :=
  match create_vector index op x yn zn with
  | None => RErr "AssertionError:create_vector"
  | Some (index', vector) =>
      rbind (leaf_rel (dedup_first [Some x; yn; zn]) vector x)
            (fun r => ROk {| cr_index := index'; cr_rel := r; cr_exit := false; cr_dg := d |})
  end.

Lemma val_poly_of_triple index t ch :
  ch index < 3 -> val (poly_of_triple index t) ch = nth_triple t (ch index).
Proof. destruct t as [[a b] c]. apply val_from_scalars3. Qed.

Lemma an_bin_core_sem index x op yn zn d cs :
  x <> EmptyString ->
  (forall v, yn = Some v -> v <> EmptyString) ->
  (forall v, zn = Some v -> v <> EmptyString) ->
  yn <> None \/ zn <> None ->
  in_domain cs ->
  leaf_ok (an_bin_core index x op yn zn d) d (leaf_bin x op yn zn (nth index cs 0), S index) cs /\
  (forall r, an_bin_core index x op yn zn d = ROk r ->
     forall v, In v (rvars (cr_rel r)) -> In v (opt_names [Some x; yn; zn])).
Proof.
  intros Hx Hy Hz Hyz Hdom.
  unfold an_bin_core, create_vector, leaf_bin.
  destruct (mem_strb op BIN_OPS) eqn:Eop; cbn [negb];
    [|split; [reflexivity|intros r Hr; discriminate]].
  destruct (cv_lookup CV_TABLE op yn zn) as [tr|] eqn:Etr;
    [|split; [reflexivity|intros r Hr; discriminate]].
  destruct (cv_lookup_len op yn zn tr Eop Etr) as [Hlen Hfin].
  set (b := negb (opt_str_eqb (Some x) yn) && negb (opt_str_eqb (Some x) zn)).
  set (variables := dedup_first [Some x; yn; zn]).
  set (vector := (if b then [zero_poly] else []) ++ map (poly_of_triple index) tr).
  set (ch := choice_of_list cs).
  assert (Hch : ch index < 3) by (apply in_domain_nth; exact Hdom).
  assert (Hsub : forall v, In v (opt_names variables) -> In v (opt_names [Some x; yn; zn])).
  { intros v Hv. apply opt_names_In. apply opt_names_In in Hv.
    apply dedup_first_In. exact Hv. }
  assert (Hne : Forall (fun v => v <> EmptyString) (opt_names variables)).
  { apply Forall_forall. intros v Hv. apply Hsub, opt_names_In in Hv. cbn [In] in Hv.
    destruct Hv as [E|[E|[E|[]]]].
    - congruence.
    - apply Hy. exact E.
    - apply Hz. exact E. }
  assert (Hnd : NoDup (opt_names variables)) by (apply opt_names_NoDup, dedup_first_NoDup).
  assert (Hj : index_of_str x (opt_names variables) = Some 0).
  { unfold variables. cbn [dedup_first]. rewrite opt_names_cons_some.
    cbn [index_of_str]. rewrite String.eqb_refl. reflexivity. }
  assert (Hvl : length vector = length (opt_names variables)).
  { unfold vector, variables. rewrite (rows_len x yn zn Hyz). fold b.
    rewrite app_length, map_length, Hlen. destruct b; reflexivity. }
  assert (Hpwf : Forall pwf vector).
  { unfold vector. apply Forall_app. split.
    - destruct b; repeat constructor; apply pwf_zero_poly.
    - apply Forall_forall. intros p Hp. apply in_map_iff in Hp.
      destruct Hp as [[[a1 a2] a3] [<- _]]. apply pwf_from_scalars3. }
  assert (Hvals : map (fun p => val p ch) vector =
                  (if b then [O] else []) ++ map (fun t => nth_triple t (nth index cs 0)) tr).
  { unfold vector. rewrite map_app, map_map. f_equal; [destruct b; reflexivity|].
    apply map_ext. intros t. apply (val_poly_of_triple index t ch Hch). }
  assert (Hclean : Forall (fun p => val p ch <> I) vector).
  { apply Forall_forall. intros p Hp.
    assert (Hin : In (val p ch) (map (fun p => val p ch) vector)) by (apply (in_map (fun q => val q ch)); exact Hp).
    rewrite Hvals in Hin. apply in_app_iff in Hin. destruct Hin as [Hin|Hin].
    - destruct b; [destruct Hin as [<-|[]]; discriminate|destruct Hin].
    - apply in_map_iff in Hin. destruct Hin as [t [<- Ht]].
      apply (proj1 (Forall_forall _ _) Hfin t Ht). }
  destruct (leaf_rel_sem variables vector x 0 ch Hne Hnd Hj Hvl Hpwf Hclean)
    as [r [Hr [Hrv [Hwf [Hp [Hcl [Hid HeqV]]]]]]].
  rewrite Hvals in Hid, HeqV.
  rewrite Hr. cbn [rbind]. split.
  - unfold leaf_ok. cbn [cr_dg cr_exit cr_index cr_rel fst snd].
    rewrite Hrv. repeat (split; [reflexivity || assumption|]). assumption.
  - intros r' Hr' v Hv. injection Hr' as <-. cbn [cr_rel] in Hv. rewrite Hrv in Hv.
    apply Hsub. exact Hv.
Qed.

Lemma rel_zero_single x : x <> EmptyString -> rel_zero [x] = Rel [x] [[zero_poly]].
Proof.
  intros Hx. unfold rel_zero, mk_rel. cbn [filter]. rewrite (nonempty_str_true x Hx). reflexivity.
Qed.

Theorem an_constant_sem : an_constant_sem_stmt.
Proof.
  intros index x d cs Hx. unfold an_constant. rewrite (rel_zero_single x Hx).
  split; [|intros r Hr; injection Hr as <-; reflexivity].
  unfold leaf_ok. cbn [cr_dg cr_exit cr_index cr_rel fst snd rvars].
  assert (Hcell : forall c, rval (Rel [x] [[zero_poly]]) c x x = O).
  { intros c. unfold rval, cell. cbn [rvars rmat index_of_str]. rewrite String.eqb_refl. reflexivity. }
  split; [reflexivity|]. split; [reflexivity|]. split; [reflexivity|]. split; [|split; [|split; [|split]]].
  - unfold wf_rel. cbn [rvars rmat length]. split; [repeat constructor; intros []|].
    split; [repeat constructor; exact Hx|]. split; [reflexivity|repeat constructor].
  - unfold rel_pwf. cbn [rmat]. repeat constructor; apply pwf_zero_poly.
  - intros u v [<-|[]] [<-|[]]. rewrite Hcell. discriminate.
  - unfold leaf_const. apply id_outside_scol; [left; reflexivity|reflexivity].
  - intros u v [<-|[]] [<-|[]]. rewrite Hcell. unfold leaf_const, scol. rewrite String.eqb_refl. reflexivity.
Qed.

Lemma some_not_none (a : string) : Some a <> None.
Proof. discriminate. Qed.

Theorem an_binary_sem : an_binary_sem_stmt.
Proof.
  intros index x op y z d cs Hx Hy Hz Hdom.
  destruct y as [a|], z as [b|].
  - exact (an_bin_core_sem index x op (Some a) (Some b) d cs Hx Hy Hz (or_introl (some_not_none a)) Hdom).
  - exact (an_bin_core_sem index x op (Some a) None d cs Hx Hy Hz (or_introl (some_not_none a)) Hdom).
  - exact (an_bin_core_sem index x op None (Some b) d cs Hx Hy Hz (or_intror (some_not_none b)) Hdom).
  - destruct (an_constant_sem index x d cs Hx) as [H1 H2]. split; [exact H1|].
    intros r Hr v Hv. cbn [an_binary] in Hr. rewrite (H2 r Hr) in Hv. cbn [atom_vars app]. exact Hv.
Qed.

Lemma skip_leaf_ok index d cs : leaf_ok (skip index d) d (Some sid, index) cs.
Proof.
  unfold skip, leaf_ok. cbn [cr_dg cr_exit cr_index cr_rel fst snd].
  change rel_empty with (Rel [] []). cbn [rvars].
  split; [reflexivity|]. split; [reflexivity|]. split; [reflexivity|].
  split; [unfold wf_rel; cbn [rvars rmat length]; repeat split; constructor|].
  split; [constructor|].
  split; [intros u v []|]. split; [intros u v _; reflexivity|intros u v []].
Qed.

Theorem skip_sem : skip_sem_stmt.
Proof. exact skip_leaf_ok. Qed.

Theorem an_id_sem : an_id_sem_stmt.
Proof.
  intros index x y d cs Hx Hy. unfold an_id, leaf_copy.
  destruct (String.eqb_spec x y) as [E|E].
  - split; [apply skip_leaf_ok|]. intros r Hr v Hv. unfold skip in Hr. injection Hr as <-.
    destruct Hv.
  - set (variables := [Some x; Some y]). set (vector := [zero_poly; unit_poly]).
    assert (Hne : Forall (fun v => v <> EmptyString) (opt_names variables))
      by (repeat constructor; assumption).
    assert (Hnd : NoDup (opt_names variables)).
    { repeat constructor; cbn [opt_names flat_map app In]; [intros [H|[]]; congruence|intros []]. }
    assert (Hj : index_of_str x (opt_names variables) = Some 0).
    { cbn [variables opt_names flat_map app index_of_str]. rewrite String.eqb_refl. reflexivity. }
    destruct (leaf_rel_sem variables vector x 0 (choice_of_list cs) Hne Hnd Hj eq_refl)
      as [r [Hr [Hrv [Hwf [Hp [Hcl [Hid HeqV]]]]]]].
    { repeat constructor; [apply pwf_zero_poly|apply pwf_unit_poly]. }
    { repeat constructor; discriminate. }
    rewrite Hr. cbn [rbind].
    assert (Hext : forall u v,
              scol x (fun u0 => assoc_sc u0 (opt_names variables)
                                  (map (fun p => val p (choice_of_list cs)) vector)) u v =
              scol x (fun u0 => if String.eqb u0 y then M else O) u v).
    { intros u v. unfold scol. destruct (String.eqb v x); [|reflexivity].
      cbn [variables opt_names flat_map app assoc_sc vector map].
      destruct (String.eqb_spec u x) as [->|Hux].
      - destruct (String.eqb_spec x y); [contradiction|reflexivity].
      - destruct (String.eqb u y); reflexivity. }
    split.
    + unfold leaf_ok. cbn [cr_dg cr_exit cr_index cr_rel fst snd]. rewrite Hrv.
      split; [reflexivity|]. split; [reflexivity|]. split; [reflexivity|].
      split; [exact Hwf|]. split; [exact Hp|]. split; [exact Hcl|].
      split; [exact (id_outside_ext _ _ _ Hext Hid)|exact (eqV_ext_r _ _ _ _ Hext HeqV)].
    + intros r' Hr' v Hv. injection Hr' as <-. cbn [cr_rel] in Hv. rewrite Hrv in Hv.
      cbn [variables opt_names flat_map app In] in Hv. destruct Hv as [<-|[<-|[]]]; auto.
Qed.

(* ------------------------------------------------------------------ *)
(* non-vacuity: the hypotheses are met by real leaves, including the operand-equals-target corners *)
(* ------------------------------------------------------------------ *)

Definition leaf_table (r : res cr) (cs : list nat) : option (list string * list (list Sc)) :=
  match r with
  | ROk c => Some (rvars (cr_rel c),
                   map (fun u => map (fun v => rval (cr_rel c) (choice_of_list cs) u v) (rvars (cr_rel c)))
                       (rvars (cr_rel c)))
  | RErr _ => None
  end.

Definition calc_table (V : list string) (dr : dres) : option (list (list Sc)) :=
  match fst dr with Some A => Some (smat_table V A) | None => None end.

Example an_binary_examples :
  let d := DeltaGraph.dg_new 3 in
  (* x = y + z, choice 1 at site 0: column x is (o, p, m) *)
  leaf_table (an_binary 0 "x" "+" (AVar "y") (AVar "z") d) [1]
    = Some (["x"; "y"; "z"]%string, [[O; O; O]; [P; M; O]; [M; O; M]]) /\
  calc_table ["x"; "y"; "z"]%string (d_bin "x" "+" (AVar "y") (AVar "z") [1] 0)
    = Some [[O; O; O]; [P; M; O]; [M; O; M]] /\
  (* x = y - x : target equal to the second operand *)
  leaf_table (an_binary 1 "x" "-" (AVar "y") (AVar "x") d) [0; 1]
    = Some (["x"; "y"]%string, [[P; O]; [M; M]]) /\
  calc_table ["x"; "y"]%string (d_bin "x" "-" (AVar "y") (AVar "x") [0; 1] 1)
    = Some [[P; O]; [M; M]] /\
  (* x = x * x *)
  leaf_table (an_binary 0 "x" "*" (AVar "x") (AVar "x") d) [2] = Some (["x"]%string, [[W]]) /\
  (* x = 3 + y : constant operand *)
  leaf_table (an_binary 0 "x" "+" ACst (AVar "y") d) [2] = Some (["x"; "y"]%string, [[O; O]; [M; M]]) /\
  (* operator outside BIN_OPS: error on both sides *)
  leaf_table (an_binary 0 "x" "/" (AVar "y") (AVar "z") d) [0] = None /\
  fst (d_bin "x" "/" (AVar "y") (AVar "z") [0] 0) = None.
Proof. vm_compute. repeat split; reflexivity. Qed.

Print Assumptions an_binary_sem.
Print Assumptions an_constant_sem.
Print Assumptions an_id_sem.
Print Assumptions skip_sem.
