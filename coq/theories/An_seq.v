(* The statement-list lemmas of the simulation (An_stmts.seq_compound_sim_stmt / seq_branch_sim_stmt)
   and the composition lemma they rest on (rel_comp_V): composing two relations that denote A and B on
   the ambient variable list V denotes memo V (smul V A B) on V, although pymwp only multiplies over the
   union of the two relations' own variable lists. *)
From Coq Require Import String List Bool Arith Lia.
From PM Require Import Semiring Poly Poly_sem Rel Analysis Calculus Rel_sem Sem_stmts An_stmts.
From PM Require Calc_alg Rel_hom Rel_ops_closed Rel_dom.
From PM Require DeltaGraph.
Import ListNotations.
Open Scope list_scope.

(* ------------------------------------------------------------------ *)
(* rval outside the relation's own variables                           *)

Lemma rval_outside r c x y :
  ~ In x (rvars r) \/ ~ In y (rvars r) -> rval r c x y = sid x y.
Proof.
  intros H. unfold rval.
  assert (E : cell r x y = if String.eqb x y then unit_poly else zero_poly).
  { destruct H as [H|H].
    - apply Rel_hom.cell_outside_l. apply Rel_hom.index_of_str_none. exact H.
    - apply Rel_hom.cell_outside_r. apply Rel_hom.index_of_str_none. exact H. }
  rewrite E. unfold sid. destruct (String.eqb x y); reflexivity.
Qed.

Lemma rval_id_outside r c V' : incl (rvars r) V' -> id_outside V' (rval r c).
Proof.
  intros Hi x y H. apply rval_outside.
  destruct H as [H|H]; [left|right]; intros K; apply H, Hi, K.
Qed.

(* a clean relation has no infinity anywhere (outside its variables it is the identity) *)
Lemma rval_finite_on r c V : clean r c -> finite_on V (rval r c).
Proof.
  intros Hc x y _ _.
  destruct (in_dec string_dec x (rvars r)) as [Hx|Hx];
    [|rewrite rval_outside by (left; exact Hx); apply Calc_alg.sid_fin].
  destruct (in_dec string_dec y (rvars r)) as [Hy|Hy];
    [|rewrite rval_outside by (right; exact Hy); apply Calc_alg.sid_fin].
  apply Hc; assumption.
Qed.

(* agreement with a finite matrix on V implies cleanliness *)
Lemma eqV_finite_clean V r c A :
  incl (rvars r) V -> finite_on V A -> eqV V (rval r c) A -> clean r c.
Proof.
  intros Hi HF HE x y Hx Hy. rewrite HE by (apply Hi; assumption). apply HF; apply Hi; assumption.
Qed.

(* ------------------------------------------------------------------ *)
(* composition on the ambient variable list                            *)

Lemma rel_ok_comp V a b : rel_ok V a -> rel_ok V b -> rel_ok V (rel_comp a b).
Proof.
  intros (Wa & Pa & Da & Ia) (Wb & Pb & Db & Ib).
  destruct (Rel_ops_closed.rel_comp_sem a b Wa Wb Pa Pb) as (W & P & Hv & _).
  split; [exact W|]. split; [exact P|]. split; [apply Rel_dom.rel_dom_comp; assumption|].
  intros v Hin. apply Hv in Hin. destruct Hin as [Hin|Hin]; [apply Ia | apply Ib]; exact Hin.
Qed.

Lemma rel_comp_V V a b c A B :
  names_ok V -> rel_ok V a -> rel_ok V b -> clean a c -> clean b c ->
  finite_on V A -> finite_on V B -> eqV V (rval a c) A -> eqV V (rval b c) B ->
  rel_ok V (rel_comp a b) /\ clean (rel_comp a b) c /\
  eqV V (rval (rel_comp a b) c) (memo V (smul V A B)).
Proof.
  intros [NV _] Oa Ob Ca Cb FA FB EA EB.
  pose proof (rel_ok_comp V a b Oa Ob) as Oc.
  destruct Oa as (Wa & Pa & Da & Ia), Ob as (Wb & Pb & Db & Ib).
  destruct (Rel_ops_closed.rel_comp_sem a b Wa Wb Pa Pb) as (W & _ & Hv & _).
  pose proof (Rel_ops_closed.rel_comp_clean a b c Wa Wb Pa Pb Ca Cb) as Hcl.
  set (V' := rvars (rel_comp a b)) in *.
  assert (IaV' : incl (rvars a) V') by (intros v Hin; apply Hv; left; exact Hin).
  assert (IbV' : incl (rvars b) V') by (intros v Hin; apply Hv; right; exact Hin).
  split; [exact Oc|]. split.
  - intros x y Hx Hy. rewrite Hcl by assumption.
    apply (Calc_alg.smul_finite V' _ _ (rval_finite_on a c V' Ca) (rval_finite_on b c V' Cb));
      assumption.
  - intros x y Hx Hy. rewrite Calc_alg.memo_eq.
    rewrite <- (Calc_alg.smul_ext V _ _ _ _ EA EB x y Hx Hy).
    rewrite (Calc_alg.smul_restrict V V' (rval a c) (rval b c) NV (proj1 W)
               (proj2 (proj2 (proj2 Oc))) (rval_id_outside a c V' IaV') (rval_id_outside b c V' IbV')
               (rval_finite_on a c V Ca) (rval_finite_on b c V Cb) x y Hx Hy).
    destruct (mem_strb x V') eqn:Ex; [destruct (mem_strb y V') eqn:Ey|]; cbn [andb].
    + apply Hcl; apply Calc_alg.mem_strb_In; assumption.
    + apply rval_outside. right. apply Calc_alg.mem_strb_notIn. exact Ey.
    + apply rval_outside. left. apply Calc_alg.mem_strb_notIn. exact Ex.
Qed.

(* ------------------------------------------------------------------ *)
(* dseq / dlist                                                        *)

Lemma dseq_Some V a b A :
  dseq V a b = Some A -> exists A0 B0, a = Some A0 /\ b = Some B0 /\ A = memo V (smul V A0 B0).
Proof.
  destruct a as [A0|], b as [B0|]; cbn [dseq]; intros H; try discriminate.
  injection H as <-. eauto.
Qed.

Lemma dseq_None V a b : dseq V a b = None -> a = None \/ b = None.
Proof. destruct a, b; cbn [dseq]; intros H; try discriminate; auto. Qed.

Lemma dlist_cons rec V s1 t acc idx :
  dlist rec V (s1 :: t) acc idx = dlist rec V t (dseq V acc (fst (rec s1 idx))) (snd (rec s1 idx)).
Proof. cbn [dlist]. destruct (rec s1 idx); reflexivity. Qed.

Lemma dlist_None rec V l : forall idx, fst (dlist rec V l None idx) = None.
Proof.
  induction l as [|s1 t IH]; intros idx; [reflexivity|].
  rewrite dlist_cons. cbn [dseq]. apply IH.
Qed.

Lemma dlist_Some_acc rec V l acc idx A :
  fst (dlist rec V l acc idx) = Some A -> exists A0, acc = Some A0.
Proof.
  destruct acc as [A0|]; [eauto|]. rewrite dlist_None. discriminate.
Qed.

(* a derivation of the list needs a derivation of its head *)
Lemma dlist_Some_head rec V s1 t acc idx A :
  fst (dlist rec V (s1 :: t) acc idx) = Some A ->
  exists A0 A1, acc = Some A0 /\ fst (rec s1 idx) = Some A1.
Proof.
  rewrite dlist_cons. intros H. apply dlist_Some_acc in H. destruct H as [B H].
  apply dseq_Some in H. destruct H as (A0 & A1 & -> & -> & _). eauto.
Qed.

(* ------------------------------------------------------------------ *)
(* cov / sim_res plumbing                                              *)

Lemma cov_mono d d' c :
  incl (DeltaGraph.dg_recorded d) (DeltaGraph.dg_recorded d') -> cov d c -> cov d' c.
Proof. intros Hi (n & Hn & Hm). exists n. split; [apply Hi, Hn | exact Hm]. Qed.

Lemma sim_res_unfold V d r dv :
  sim_res V d r dv <->
  dg_inv (cr_dg r) /\
  incl (DeltaGraph.dg_recorded d) (DeltaGraph.dg_recorded (cr_dg r)) /\
  rel_ok V (cr_rel r) /\
  forall cs, in_domain cs ->
    (forall A, fst (dv cs) = Some A -> cov (cr_dg r) (choice_of_list cs) -> cov d (choice_of_list cs)) /\
    (cr_exit r = true -> cov (cr_dg r) (choice_of_list cs)) /\
    (cr_exit r = false ->
       cr_index r = snd (dv cs) /\
       (fst (dv cs) = None -> cov (cr_dg r) (choice_of_list cs)) /\
       (forall A, fst (dv cs) = Some A ->
          clean (cr_rel r) (choice_of_list cs) /\ eqV V (rval (cr_rel r) (choice_of_list cs)) A)).
Proof. split; exact (fun H => H). Qed.

(* sim_res only looks at the derivation on in-domain choice vectors *)
Lemma sim_res_ext V d r dv dv' :
  (forall cs, in_domain cs -> dv cs = dv' cs) -> sim_res V d r dv -> sim_res V d r dv'.
Proof.
  intros He H. apply sim_res_unfold in H. apply sim_res_unfold.
  destruct H as (H1 & H2 & H3 & H4). repeat (split; [assumption|]).
  intros cs Hcs. rewrite <- (He cs Hcs). apply H4. exact Hcs.
Qed.

(* composing along d -> d1 -> result: the first clause is transitive, the others do not mention d *)
Lemma sim_res_trans V d d1 r dv :
  incl (DeltaGraph.dg_recorded d) (DeltaGraph.dg_recorded d1) ->
  (forall cs A, in_domain cs -> fst (dv cs) = Some A ->
     cov d1 (choice_of_list cs) -> cov d (choice_of_list cs)) ->
  sim_res V d1 r dv -> sim_res V d r dv.
Proof.
  intros Hi Hc H. apply sim_res_unfold in H. apply sim_res_unfold.
  destruct H as (H1 & H2 & H3 & H4). split; [exact H1|]. split.
  { eapply incl_tran; eassumption. }
  split; [exact H3|]. intros cs Hcs. destruct (H4 cs Hcs) as (K1 & K2 & K3).
  split; [|split; assumption].
  intros A HA Hcov. eapply Hc; [exact Hcs | exact HA |]. eapply K1; eassumption.
Qed.

Lemma rec_ok_tail V s1 t rec drec : rec_ok V (s1 :: t) rec drec -> rec_ok V t rec drec.
Proof.
  intros [H1 H2]. split.
  - intros s index d r Hin. apply H1. right; exact Hin.
  - intros s cs idx A Hin. apply H2. right; exact Hin.
Qed.

(* ------------------------------------------------------------------ *)
(* one element of the list                                             *)

Section Step.
Variables (V : list string) (rec : nat -> stmt -> dgraph -> res cr)
          (drec : list nat -> stmt -> nat -> dres).
Variables (s1 : stmt) (t : list stmt) (index : nat) (acc : rel) (d : dgraph)
          (accm : list nat -> option smat) (r1 : cr).
Hypothesis HV : names_ok V.
Hypothesis Hfin : forall cs idx A, fst (drec cs s1 idx) = Some A -> finite_on V A.
Hypothesis Hacc : acc_ok V d acc accm.
Hypothesis Hr1 : sim_res V d r1 (fun cs => drec cs s1 index).

Let accm' : list nat -> option smat := fun cs => dseq V (accm cs) (fst (drec cs s1 index)).

(* the head did not exit: the composed accumulator is again acc_ok, in the head's delta graph *)
Lemma step_acc_ok :
  cr_exit r1 = false -> acc_ok V (cr_dg r1) (rel_comp acc (cr_rel r1)) accm'.
Proof.
  intros Hex. apply sim_res_unfold in Hr1. destruct Hr1 as (_ & Hinc & Hok1 & Hcs1).
  destruct Hacc as [Hoka Hcsa]. split; [apply rel_ok_comp; assumption|].
  intros cs Hcs. destruct (Hcsa cs Hcs) as [Ka Kn].
  destruct (Hcs1 cs Hcs) as (_ & _ & K3). destruct (K3 Hex) as (_ & K1n & K1s). cbv beta in *.
  split.
  - intros A HA. unfold accm' in HA. apply dseq_Some in HA.
    destruct HA as (A0 & A1 & E0 & E1 & ->).
    destruct (Ka A0 E0) as (F0 & C0 & Q0). destruct (K1s A1 E1) as (C1 & Q1).
    pose proof (Hfin cs index A1 E1) as F1.
    destruct (rel_comp_V V acc (cr_rel r1) (choice_of_list cs) A0 A1 HV Hoka Hok1 C0 C1 F0 F1 Q0 Q1)
      as (_ & Cc & Qc).
    split; [|split; assumption].
    intros x y Hx Hy. rewrite Calc_alg.memo_eq. apply Calc_alg.smul_finite; assumption.
  - intros HN. unfold accm' in HN. apply dseq_None in HN. destruct HN as [HN|HN].
    + eapply cov_mono; [exact Hinc | apply Kn; exact HN].
    + apply K1n. exact HN.
Qed.

(* ... and a simulation of the tail from there is a simulation of the whole list from d *)
Lemma step_lift r :
  cr_exit r1 = false ->
  sim_res V (cr_dg r1) r (fun cs => dlist (drec cs) V t (accm' cs) (cr_index r1)) ->
  sim_res V d r (fun cs => dlist (drec cs) V (s1 :: t) (accm cs) index).
Proof.
  intros Hex Ht. apply sim_res_unfold in Hr1. destruct Hr1 as (_ & Hinc & _ & Hcs1).
  apply (sim_res_ext V d r (fun cs => dlist (drec cs) V t (accm' cs) (cr_index r1))).
  { intros cs Hcs. rewrite dlist_cons. destruct (Hcs1 cs Hcs) as (_ & _ & K3).
    destruct (K3 Hex) as (Ei & _). cbv beta in Ei. rewrite <- Ei. reflexivity. }
  apply (sim_res_trans V d (cr_dg r1)); [exact Hinc | | exact Ht].
  intros cs A Hcs HA Hcov. destruct (Hcs1 cs Hcs) as (K1 & _ & _). cbv beta in K1.
  apply dlist_Some_acc in HA. destruct HA as [B HB]. unfold accm' in HB.
  apply dseq_Some in HB. destruct HB as (A0 & A1 & _ & E1 & _).
  eapply K1; eassumption.
Qed.

(* the head exited: whatever relation is returned (as long as it is rel_ok), the result simulates *)
Lemma step_exit i R :
  cr_exit r1 = true -> rel_ok V R ->
  sim_res V d {| cr_index := i; cr_rel := R; cr_exit := true; cr_dg := cr_dg r1 |}
          (fun cs => dlist (drec cs) V (s1 :: t) (accm cs) index).
Proof.
  intros Hex HR. apply sim_res_unfold in Hr1. destruct Hr1 as (Hdg & Hinc & _ & Hcs1).
  apply sim_res_unfold. cbn [cr_index cr_rel cr_exit cr_dg].
  split; [exact Hdg|]. split; [exact Hinc|]. split; [exact HR|].
  intros cs Hcs. destruct (Hcs1 cs Hcs) as (K1 & K2 & _). cbv beta in K1. split; [|split].
  - intros A HA Hcov. apply dlist_Some_head in HA. destruct HA as (A0 & A1 & _ & E1).
    eapply K1; eassumption.
  - intros _. apply K2. exact Hex.
  - discriminate.
Qed.

End Step.

(* ------------------------------------------------------------------ *)
(* the list lemmas                                                     *)

Lemma sim_res_nil V index acc d accm :
  dg_inv d -> acc_ok V d acc accm ->
  sim_res V d {| cr_index := index; cr_rel := acc; cr_exit := false; cr_dg := d |}
          (fun cs => (accm cs, index)).
Proof.
  intros Hd [Hok Hcs]. apply sim_res_unfold. cbn [cr_index cr_rel cr_exit cr_dg fst snd].
  split; [exact Hd|]. split; [apply incl_refl|]. split; [exact Hok|].
  intros cs Hin. destruct (Hcs cs Hin) as [Ks Kn]. split; [|split].
  - intros A _ H. exact H.
  - discriminate.
  - intros _. split; [reflexivity|]. split; [exact Kn|].
    intros A HA. destruct (Ks A HA) as (_ & C & Q). split; assumption.
Qed.

Theorem seq_compound_sim : seq_compound_sim_stmt.
Proof.
  intros V rec drec l. induction l as [|s1 t IH]; intros index acc d accm r HV Hrec Hd Hacc Hrun.
  - cbn [seq_compound] in Hrun. injection Hrun as <-.
    exact (sim_res_nil V index acc d accm Hd Hacc).
  - cbn [seq_compound] in Hrun. unfold rbind in Hrun.
    destruct (rec index s1 d) as [r1|e] eqn:E1; [|discriminate].
    pose proof (proj1 Hrec s1 index d r1 (or_introl eq_refl) Hd E1) as Hr1.
    assert (Hfin : forall cs idx A, fst (drec cs s1 idx) = Some A -> finite_on V A)
      by (intros cs idx A; apply (proj2 Hrec); left; reflexivity).
    cbv zeta in Hrun. destruct (cr_exit r1) eqn:Hex.
    + injection Hrun as <-. apply step_exit; try assumption.
      apply rel_ok_comp; [exact (proj1 Hacc)|].
      apply sim_res_unfold in Hr1. exact (proj1 (proj2 (proj2 Hr1))).
    + apply step_lift with (r1 := r1); [exact Hr1 | exact Hex |].
      apply (IH (cr_index r1) (rel_comp acc (cr_rel r1)) (cr_dg r1)
                (fun cs => dseq V (accm cs) (fst (drec cs s1 index))) r HV).
      * eapply rec_ok_tail; exact Hrec.
      * apply sim_res_unfold in Hr1. exact (proj1 Hr1).
      * first [ apply step_acc_ok; assumption | eapply step_acc_ok; eassumption ].
      * exact Hrun.
Qed.

Theorem seq_branch_sim : seq_branch_sim_stmt.
Proof.
  intros V rec drec l. induction l as [|s1 t IH]; intros index acc d accm r HV Hrec Hd Hacc Hrun.
  - cbn [seq_branch] in Hrun. injection Hrun as <-.
    exact (sim_res_nil V index acc d accm Hd Hacc).
  - cbn [seq_branch] in Hrun. unfold rbind in Hrun.
    destruct (rec index s1 d) as [r1|e] eqn:E1; [|discriminate].
    pose proof (proj1 Hrec s1 index d r1 (or_introl eq_refl) Hd E1) as Hr1.
    assert (Hfin : forall cs idx A, fst (drec cs s1 idx) = Some A -> finite_on V A)
      by (intros cs idx A; apply (proj2 Hrec); left; reflexivity).
    destruct (cr_exit r1) eqn:Hex.
    + injection Hrun as <-. apply step_exit; try assumption. exact (proj1 Hacc).
    + apply step_lift with (r1 := r1); [exact Hr1 | exact Hex |].
      apply (IH (cr_index r1) (rel_comp acc (cr_rel r1)) (cr_dg r1)
                (fun cs => dseq V (accm cs) (fst (drec cs s1 index))) r HV).
      * eapply rec_ok_tail; exact Hrec.
      * apply sim_res_unfold in Hr1. exact (proj1 Hr1).
      * first [ apply step_acc_ok; assumption | eapply step_acc_ok; eassumption ].
      * exact Hrun.
Qed.

(* ------------------------------------------------------------------ *)
(* non-vacuity of rel_comp_V: the relations of Rel_ops_closed at choice (1,0), over a strictly larger
   ambient list (so that the restriction argument is exercised) *)
Example rel_comp_V_instance :
  let V := ["w"; "x"; "y"; "z"]%string in
  let c := choice_of_list [1; 0] in
  names_ok V /\ rel_ok V Rel_ops_closed.ex_a /\ rel_ok V Rel_ops_closed.ex_b /\
  clean Rel_ops_closed.ex_a c /\ clean Rel_ops_closed.ex_b c /\
  finite_on V (rval Rel_ops_closed.ex_a c) /\ finite_on V (rval Rel_ops_closed.ex_b c) /\
  rval (rel_comp Rel_ops_closed.ex_a Rel_ops_closed.ex_b) c "x"%string "z"%string = P /\
  rval (rel_comp Rel_ops_closed.ex_a Rel_ops_closed.ex_b) c "w"%string "w"%string = M.
Proof.
  cbv zeta.
  destruct Rel_ops_closed.ex_hyps as (Wa & Wb & Pa & Pb).
  destruct Rel_ops_closed.ex_clean as (Ca & Cb).
  assert (HV : names_ok ["w"; "x"; "y"; "z"]%string).
  { split.
    - repeat constructor; simpl; intuition discriminate.
    - repeat constructor; discriminate. }
  assert (Da : rel_dom Rel_ops_closed.ex_a).
  { unfold rel_dom, mdom. simpl. repeat constructor. }
  assert (Db : rel_dom Rel_ops_closed.ex_b).
  { unfold rel_dom, mdom. simpl. repeat constructor. }
  split; [exact HV|].
  split; [split; [exact Wa|split; [exact Pa|split; [exact Da|]]]|].
  { intros v Hv. simpl in Hv |- *. tauto. }
  split; [split; [exact Wb|split; [exact Pb|split; [exact Db|]]]|].
  { intros v Hv. simpl in Hv |- *. tauto. }
  split; [exact Ca|]. split; [exact Cb|].
  split; [apply rval_finite_on; exact Ca|]. split; [apply rval_finite_on; exact Cb|].
  split; vm_compute; reflexivity.
Qed.

Print Assumptions rel_comp_V.
Print Assumptions seq_compound_sim.
Print Assumptions seq_branch_sim.
