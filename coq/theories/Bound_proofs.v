(* Lemmas about the model of bound.py: sorting/dedup, meaning of the tree, tree = printed text. *)
From Coq Require Import String Ascii List Bool Arith NArith Lia Permutation Sorted.
From PMGen Require Import SemiringGen.
From PM Require Import Bound Bound_syntax.
Import ListNotations.
Local Open Scope string_scope.
Local Open Scope list_scope.

(* ------------------------------------------------------------------ strings *)

Lemma str_eqb_eq a b : str_eqb a b = true <-> a = b.
Proof.
  revert b; induction a as [|x a IH]; intros [|y b]; simpl; split; intro H; try congruence; auto.
  - apply andb_true_iff in H as [H1 H2]. apply Ascii.eqb_eq in H1. apply IH in H2. congruence.
  - inversion H; subst. rewrite Ascii.eqb_refl. simpl. now apply IH.
Qed.

Lemma str_eqb_refl a : str_eqb a a = true.
Proof. now apply str_eqb_eq. Qed.

Lemma str_eqb_neq a b : str_eqb a b = false <-> a <> b.
Proof.
  split; intro H.
  - intro E. apply str_eqb_eq in E. congruence.
  - destruct (str_eqb a b) eqn:E; auto. apply str_eqb_eq in E. contradiction.
Qed.

Lemma ascii_cmp_refl x : Ascii.compare x x = Eq.
Proof. unfold Ascii.compare. apply N.compare_refl. Qed.

Lemma ascii_cmp_lt_trans x y z : Ascii.compare x y = Lt -> Ascii.compare y z = Lt -> Ascii.compare x z = Lt.
Proof. unfold Ascii.compare. rewrite !N.compare_lt_iff. lia. Qed.

Lemma str_cmp_eq a b : str_cmp a b = Eq -> a = b.
Proof.
  revert b; induction a as [|x a IH]; intros [|y b]; simpl; try congruence.
  destruct (Ascii.compare x y) eqn:E; try congruence.
  intro H. apply Ascii.compare_eq_iff in E. apply IH in H. congruence.
Qed.

Lemma str_cmp_refl a : str_cmp a a = Eq.
Proof. induction a; simpl; auto. now rewrite ascii_cmp_refl. Qed.

Lemma str_cmp_antisym a b : str_cmp b a = CompOpp (str_cmp a b).
Proof.
  revert b; induction a as [|x a IH]; intros [|y b]; simpl; auto.
  rewrite (Ascii.compare_antisym x y).
  destruct (Ascii.compare y x) eqn:E; simpl; auto.
Qed.

Lemma str_cmp_lt_trans a b c : str_cmp a b = Lt -> str_cmp b c = Lt -> str_cmp a c = Lt.
Proof.
  revert b c; induction a as [|x a IH]; intros [|y b] [|z c]; simpl; try congruence.
  destruct (Ascii.compare x y) eqn:E1; try congruence;
  destruct (Ascii.compare y z) eqn:E2; try congruence; intros H1 H2.
  - apply Ascii.compare_eq_iff in E1, E2. subst. rewrite ascii_cmp_refl. eauto.
  - apply Ascii.compare_eq_iff in E1. subst. now rewrite E2.
  - apply Ascii.compare_eq_iff in E2. subst. now rewrite E1.
  - now rewrite (ascii_cmp_lt_trans _ _ _ E1 E2).
Qed.

Lemma mem_In a l : mem a l = true <-> In a l.
Proof.
  induction l as [|b l IH]; simpl; [split; [congruence | tauto]|].
  rewrite orb_true_iff, IH, str_eqb_eq. split; intros [H|H]; auto.
Qed.

(* ------------------------------------------------------------------ sorted(set(..)) *)

Definition slt (a b : str) : Prop := str_cmp a b = Lt.

Lemma In_insert_uniq v a l : In v (insert_uniq a l) <-> v = a \/ In v l.
Proof.
  induction l as [|b l IH]; simpl; [intuition|].
  destruct (str_cmp a b) eqn:E; simpl.
  - apply str_cmp_eq in E. subst. intuition.
  - intuition.
  - rewrite IH. intuition.
Qed.

Lemma In_sort_uniq v l : In v (sort_uniq l) <-> In v l.
Proof.
  induction l as [|a l IH]; simpl; [tauto|].
  rewrite In_insert_uniq, IH. intuition.
Qed.

Lemma insert_uniq_sorted a l : StronglySorted slt l -> StronglySorted slt (insert_uniq a l).
Proof.
  induction 1 as [|b l Hs IH Hall]; simpl.
  - repeat constructor.
  - destruct (str_cmp a b) eqn:E.
    + now constructor.
    + constructor; [now constructor|]. constructor; auto.
      eapply Forall_impl; [|exact Hall]. intros c Hc. eapply str_cmp_lt_trans; eauto.
    + constructor; auto.
      apply Forall_forall. intros c Hc. apply In_insert_uniq in Hc as [->|Hc].
      * unfold slt. rewrite str_cmp_antisym, E. reflexivity.
      * rewrite Forall_forall in Hall. auto.
Qed.

Lemma sort_uniq_sorted l : StronglySorted slt (sort_uniq l).
Proof. induction l; simpl; [constructor | now apply insert_uniq_sorted]. Qed.

Lemma sorted_NoDup l : StronglySorted slt l -> NoDup l.
Proof.
  induction 1 as [|b l Hs IH Hall]; constructor; auto.
  intro Hin. rewrite Forall_forall in Hall. specialize (Hall _ Hin).
  unfold slt in Hall. rewrite str_cmp_refl in Hall. discriminate.
Qed.

Lemma sort_uniq_NoDup l : NoDup (sort_uniq l).
Proof. apply sorted_NoDup, sort_uniq_sorted. Qed.

(* a strictly sorted list is determined by its elements: [sort_uniq l] is THE sorted set of l *)
Lemma sorted_unique l1 l2 :
  StronglySorted slt l1 -> StronglySorted slt l2 -> (forall v, In v l1 <-> In v l2) -> l1 = l2.
Proof.
  intros H1; revert l2; induction H1 as [|a l1 Hs1 IH Ha]; intros l2 H2 Hin.
  - destruct l2 as [|b l2]; auto. destruct (proj2 (Hin b)); simpl; auto.
  - destruct H2 as [|b l2 Hs2 Hb].
    + destruct (proj1 (Hin a)); simpl; auto.
    + rewrite Forall_forall in Ha, Hb.
      assert (a = b).
      { destruct (proj1 (Hin a)) as [E|E]; simpl; auto.
        destruct (proj2 (Hin b)) as [E'|E']; simpl; auto.
        specialize (Ha _ E'). specialize (Hb _ E). unfold slt in *.
        rewrite str_cmp_antisym, Ha in Hb. discriminate. }
      subst b. f_equal. apply IH; auto.
      intro v. split; intro Hv.
      * destruct (proj1 (Hin v)) as [E|E]; simpl; auto. subst v.
        specialize (Ha _ Hv). unfold slt in Ha. rewrite str_cmp_refl in Ha. discriminate.
      * destruct (proj2 (Hin v)) as [E|E]; simpl; auto. subst v.
        specialize (Hb _ Hv). unfold slt in Hb. rewrite str_cmp_refl in Hb. discriminate.
Qed.

Lemma insert_uniq_perm a l : ~ In a l -> Permutation (a :: l) (insert_uniq a l).
Proof.
  induction l as [|b l IH]; simpl; intro H; auto.
  destruct (str_cmp a b) eqn:E.
  - apply str_cmp_eq in E. subst. tauto.
  - reflexivity.
  - rewrite perm_swap. constructor. apply IH. tauto.
Qed.

Lemma sort_uniq_perm l : NoDup l -> Permutation l (sort_uniq l).
Proof.
  induction 1 as [|a l Hn Hd IH]; simpl; auto.
  rewrite <- insert_uniq_perm; [now constructor|].
  now rewrite In_sort_uniq.
Qed.

Lemma Forall_sort_uniq (P : str -> Prop) l : Forall P l -> Forall P (sort_uniq l).
Proof. rewrite !Forall_forall. intros H v Hv. apply H. now apply In_sort_uniq. Qed.

Lemma insert_uniq_nonempty a l : insert_uniq a l <> [].
Proof. destruct l as [|b l]; simpl; [congruence|]. destruct (str_cmp a b); congruence. Qed.

Lemma sort_uniq_nil l : sort_uniq l = [] <-> l = [].
Proof.
  destruct l as [|a l]; simpl; [tauto|]. split; [|congruence].
  intro H. now apply insert_uniq_nonempty in H.
Qed.

Lemma sort_uniq_sorted_id l : StronglySorted slt l -> sort_uniq l = l.
Proof.
  intro H. apply sorted_unique; auto using sort_uniq_sorted. intro v. apply In_sort_uniq.
Qed.

Lemma sort_uniq_idem l : sort_uniq (sort_uniq l) = sort_uniq l.
Proof. apply sort_uniq_sorted_id, sort_uniq_sorted. Qed.

(* ------------------------------------------------------------------ meaning of lists *)

Lemma maxl_ge rho l v : In v l -> rho v <= maxl rho l.
Proof. induction l as [|a l IH]; simpl; [tauto|]. intros [->|H]; [lia|]. specialize (IH H). lia. Qed.

Lemma maxl_le rho l m : (forall v, In v l -> rho v <= m) -> maxl rho l <= m.
Proof.
  induction l as [|a l IH]; simpl; intro H; [lia|].
  assert (rho a <= m) by (apply H; auto). assert (maxl rho l <= m) by (apply IH; auto). lia.
Qed.

Lemma maxl_set rho l1 l2 : (forall v, In v l1 <-> In v l2) -> maxl rho l1 = maxl rho l2.
Proof.
  intro H. apply Nat.le_antisymm; apply maxl_le; intros v Hv; apply maxl_ge; now apply H.
Qed.

Lemma suml_perm rho l1 l2 : Permutation l1 l2 -> suml rho l1 = suml rho l2.
Proof. induction 1; simpl; lia. Qed.

Lemma prodl_perm rho l1 l2 : Permutation l1 l2 -> prodl rho l1 = prodl rho l2.
Proof. induction 1; simpl; nia. Qed.

Lemma prodz_perm rho l1 l2 : Permutation l1 l2 -> prodz rho l1 = prodz rho l2.
Proof.
  intro H. destruct l1 as [|a l1], l2 as [|b l2]; simpl; auto.
  - apply Permutation_nil in H. discriminate.
  - symmetry in H. apply Permutation_nil in H. discriminate.
  - now apply (prodl_perm rho) in H.
Qed.

(* ------------------------------------------------------------------ the model over the three sorted lists *)

Definition is_nil {A} (l : list A) : bool := match l with [] => true | _ :: _ => false end.

Definition vstr (op : str) (l : list str) : str := match l with [] => L "0" | _ :: _ => joinl op l end.

Definition ST (op : str) (H Z : list str) (c : bool) : str :=
  if c then (if Nat.ltb 1 (length H) then L "max(" ++ vstr op H ++ L ")" else vstr op H)
  else (if Nat.ltb 1 (length H) || negb (is_nil Z) then L "max(" ++ vstr op H ++ L ",0)" else vstr op H).

Definition BP (X Y Z : list str) (c : bool) : str :=
  let term := match X, Y with
              | _ :: _, _ :: _ => Some (L "max(" ++ vstr (L ",") X ++ L "," ++ vstr (L "+") Y ++ L ")")
              | _ :: _, [] => Some (ST (L ",") X Z c)
              | [], _ :: _ => Some (ST (L "+") Y Z c)
              | [], [] => None
              end in
  match term with
  | Some t => if truthy t then (if is_nil Z then t else t ++ L "+" ++ vstr (L "*") Z) else vstr (L "*") Z
  | None => vstr (L "*") Z
  end.

Definition BE (X Y Z : list str) (c : bool) : expr :=
  let vx := map Var X in
  let vy := map Var Y in
  let pz := mk_mul (map Var Z) in
  let term := match X, Y with
              | _ :: _, _ :: _ => Some (Max (vx ++ [mk_add vy]))
              | _ :: _, [] => Some (single_expr vx vx (is_nil Z) c)
              | [], _ :: _ => Some (single_expr vy [mk_add vy] (is_nil Z) c)
              | [], [] => None
              end in
  match term with
  | Some t => if is_nil Z then t else Add [t; pz]
  | None => if is_nil Z then Zero else pz
  end.

Lemma hp_cases (x : list str) :
  (x = [] /\ sort_uniq x = []) \/
  (exists a t b X, x = a :: t /\ sort_uniq x = b :: X).
Proof.
  destruct x as [|a t]; [left; auto|right].
  destruct (sort_uniq (a :: t)) as [|b X] eqn:E.
  - apply (proj1 (sort_uniq_nil _)) in E. discriminate E.
  - now exists a, t, b, X.
Qed.

Lemma hp_str_vstr op x : hp_str (mkHP op x) = vstr op (sort_uniq x).
Proof.
  unfold hp_str, hp_value, hp_empty, hp_vars; simpl.
  destruct (hp_cases x) as [[-> E]|(a & t & b & X & -> & E)]; rewrite E; reflexivity.
Qed.

Lemma bound_poly_BP x y z c :
  bound_poly (mb_of_lists x y z) c = BP (sort_uniq x) (sort_uniq y) (sort_uniq z) c.
Proof.
  unfold bound_poly, BP, single_term, ST, mb_of_lists, MaxVar; cbn [bx by_ bz].
  rewrite !hp_str_vstr. unfold hp_empty, hp_vars; cbn [hp_variables].
  destruct (hp_cases x) as [[-> Ex]|(a1 & t1 & b1 & X & -> & Ex)];
  destruct (hp_cases y) as [[-> Ey]|(a2 & t2 & b2 & Y & -> & Ey)];
  destruct (hp_cases z) as [[-> Ez]|(a3 & t3 & b3 & Z & -> & Ez)];
  rewrite ?Ex, ?Ey, ?Ez; reflexivity.
Qed.

Lemma bound_expr_BE x y z c :
  bound_expr (mb_of_lists x y z) c = BE (sort_uniq x) (sort_uniq y) (sort_uniq z) c.
Proof.
  unfold bound_expr, BE, mb_of_lists, MaxVar; cbn [bx by_ bz].
  unfold hp_empty, hp_vars; cbn [hp_variables].
  destruct (hp_cases x) as [[-> Ex]|(a1 & t1 & b1 & X & -> & Ex)];
  destruct (hp_cases y) as [[-> Ey]|(a2 & t2 & b2 & Y & -> & Ey)];
  destruct (hp_cases z) as [[-> Ez]|(a3 & t3 & b3 & Z & -> & Ez)];
  rewrite ?Ex, ?Ey, ?Ez; reflexivity.
Qed.

(* ------------------------------------------------------------------ meaning of the tree *)

Lemma eval_Max_vars rho X : eval rho (Max (map Var X)) = maxl rho X.
Proof. induction X as [|a X IH]; simpl in *; auto. Qed.

Lemma eval_Max_app rho l1 l2 : eval rho (Max (l1 ++ l2)) = Nat.max (eval rho (Max l1)) (eval rho (Max l2)).
Proof. induction l1 as [|a l1 IH]; simpl in *; [reflexivity|]. rewrite IH. lia. Qed.

Lemma eval_Add_vars rho Y : eval rho (Add (map Var Y)) = suml rho Y.
Proof. induction Y as [|a Y IH]; simpl in *; auto. Qed.

Lemma eval_Mul_vars rho Z : eval rho (Mul (map Var Z)) = prodl rho Z.
Proof. induction Z as [|a Z IH]; simpl in *; auto. Qed.

Lemma eval_mk_add_vars rho Y : eval rho (mk_add (map Var Y)) = suml rho Y.
Proof.
  destruct Y as [|a [|b Y]]; try reflexivity.
  - simpl. lia.
  - unfold mk_add, one_or. cbn [map]. apply (eval_Add_vars rho (a :: b :: Y)).
Qed.

Lemma eval_mk_mul_vars rho Z : eval rho (mk_mul (map Var Z)) = prodl rho Z.
Proof.
  destruct Z as [|a [|b Z]]; try reflexivity.
  - simpl. lia.
  - unfold mk_mul, one_or. cbn [map]. apply (eval_Mul_vars rho (a :: b :: Z)).
Qed.

Lemma eval_one_or_Max rho l : eval rho (one_or Max l) = eval rho (Max l).
Proof. destruct l as [|a [|b l]]; try reflexivity. simpl. lia. Qed.

Lemma eval_single_expr rho vs inner ze c : eval rho (single_expr vs inner ze c) = eval rho (Max inner).
Proof.
  unfold single_expr.
  destruct c, (Nat.ltb 1 (length vs)), ze; cbn [orb negb];
    rewrite ?eval_one_or_Max, ?eval_Max_app; try reflexivity; simpl; lia.
Qed.

Lemma eval_BE rho X Y Z c : eval rho (BE X Y Z c) = bound_value rho X Y Z.
Proof.
  unfold BE, bound_value.
  assert (HZ : forall t, eval rho (if is_nil Z then t else Add [t; mk_mul (map Var Z)]) = eval rho t + prodz rho Z).
  { intro t. destruct Z as [|a Z]; [simpl; lia|].
    cbn [is_nil]. change (eval rho (Add [t; mk_mul (map Var (a :: Z))]))
      with (eval rho t + (eval rho (mk_mul (map Var (a :: Z))) + 0)).
    rewrite eval_mk_mul_vars. simpl. lia. }
  destruct X as [|a X], Y as [|b Y].
  - destruct Z as [|d Z]; [reflexivity|]. cbn [is_nil]. rewrite eval_mk_mul_vars. reflexivity.
  - rewrite HZ, eval_single_expr.
    change (eval rho (Max [mk_add (map Var (b :: Y))])) with (Nat.max (eval rho (mk_add (map Var (b :: Y)))) 0).
    rewrite eval_mk_add_vars. simpl maxl. lia.
  - rewrite HZ, eval_single_expr, eval_Max_vars. simpl suml. lia.
  - rewrite HZ, eval_Max_app, eval_Max_vars.
    change (eval rho (Max [mk_add (map Var (b :: Y))])) with (Nat.max (eval rho (mk_add (map Var (b :: Y)))) 0).
    rewrite eval_mk_add_vars. lia.
Qed.

(* for ANY three lists of names (duplicates, any order, overlapping): the tree means
   max(max x, sum of the distinct y) + product of the distinct z *)
Lemma eval_bound_expr rho x y z c :
  eval rho (bound_expr (mb_of_lists x y z) c) = bound_value rho x (sort_uniq y) (sort_uniq z).
Proof.
  rewrite bound_expr_BE, eval_BE. unfold bound_value. f_equal. f_equal.
  apply maxl_set. intro v. apply In_sort_uniq.
Qed.

Lemma eval_bound_expr_nodup rho x y z c : NoDup y -> NoDup z ->
  eval rho (bound_expr (mb_of_lists x y z) c) = bound_value rho x y z.
Proof.
  intros Hy Hz. rewrite eval_bound_expr. unfold bound_value.
  rewrite <- (suml_perm rho _ _ (sort_uniq_perm y Hy)), <- (prodz_perm rho _ _ (sort_uniq_perm z Hz)).
  reflexivity.
Qed.

(* ------------------------------------------------------------------ printed text = rendering of the tree *)

Lemma untok_app a b : untok (a ++ b) = untok a ++ untok b.
Proof. apply flat_map_app. Qed.

Lemma render_Var a : render (Var a) = a.
Proof. unfold render; simpl. apply app_nil_r. Qed.

Lemma joinl_cons2 {A} (sep : list A) a b l : joinl sep (a :: b :: l) = a ++ sep ++ joinl sep (b :: l).
Proof. reflexivity. Qed.

Lemma untok_joinl t es : untok (joinl [t] (map toks es)) = joinl (tok_str t) (map render es).
Proof.
  induction es as [|e [|e' es] IH]; try reflexivity.
  cbn [map] in *. rewrite !joinl_cons2, !untok_app, IH. simpl. now rewrite app_nil_r.
Qed.

Lemma map_render_vars X : map render (map Var X) = X.
Proof. induction X; simpl; auto. rewrite render_Var. congruence. Qed.

Lemma render_Add_vars Y : render (Add (map Var Y)) = joinl (L "+") Y.
Proof. unfold render. cbn [toks]. now rewrite untok_joinl, map_render_vars. Qed.

Lemma render_Mul_vars Y : render (Mul (map Var Y)) = joinl (L "*") Y.
Proof. unfold render. cbn [toks]. now rewrite untok_joinl, map_render_vars. Qed.

Lemma render_mk_add_vars a Y : render (mk_add (map Var (a :: Y))) = vstr (L "+") (a :: Y).
Proof. destruct Y; [apply render_Var|]. apply (render_Add_vars (a :: s :: Y)). Qed.

Lemma render_mk_mul_vars a Y : render (mk_mul (map Var (a :: Y))) = vstr (L "*") (a :: Y).
Proof. destruct Y; [apply render_Var|]. apply (render_Mul_vars (a :: s :: Y)). Qed.

Lemma render_Max l : render (Max l) = L "max(" ++ joinl (L ",") (map render l) ++ L ")".
Proof.
  unfold render. cbn [toks].
  change (TId (L "max") :: TLP :: joinl [TComma] (map toks l) ++ [TRP])
    with ([TId (L "max"); TLP] ++ joinl [TComma] (map toks l) ++ [TRP]).
  rewrite !untok_app, untok_joinl. reflexivity.
Qed.

Lemma render_Add2 a b : render (Add [a; b]) = render a ++ L "+" ++ render b.
Proof. unfold render. cbn [toks map joinl]. now rewrite !untok_app. Qed.

Lemma joinl_snoc {A} (sep : list A) l a : l <> [] -> joinl sep (l ++ [a]) = joinl sep l ++ sep ++ a.
Proof.
  induction l as [|b [|b' l] IH]; intro H; [congruence|reflexivity|].
  change ((b :: b' :: l) ++ [a]) with (b :: (b' :: l) ++ [a]).
  cbn [app]. rewrite !joinl_cons2. cbn [app] in IH. rewrite IH by congruence.
  now rewrite <- !app_assoc.
Qed.

Definition nonempty (a : str) : Prop := a <> [].

Lemma truthy_max s : truthy (L "max(" ++ s) = true.
Proof. reflexivity. Qed.

Lemma render_BE X Y Z c : Forall nonempty X -> Forall nonempty Y ->
  render (BE X Y Z c) = BP X Y Z c.
Proof.
  intros HX HY. unfold BE, BP.
  assert (HZ : forall t, truthy (render t) = true ->
     render (if is_nil Z then t else Add [t; mk_mul (map Var Z)]) =
     (if truthy (render t) then (if is_nil Z then render t else render t ++ L "+" ++ vstr (L "*") Z) else vstr (L "*") Z)).
  { intros t Ht. rewrite Ht. destruct Z as [|d Z]; [reflexivity|]. cbn [is_nil].
    now rewrite render_Add2, render_mk_mul_vars. }
  assert (HS : forall op a H (inner : list expr),
     nonempty a -> inner <> [] ->
     joinl (L ",") (map render inner) = vstr op (a :: H) ->
     (H = [] -> render (one_or Max inner) = a) ->
     render (single_expr (map Var (a :: H)) inner (is_nil Z) c) = ST op (a :: H) Z c /\
     truthy (ST op (a :: H) Z c) = true).
  { intros op a H inner Ha Hne Hj H1. unfold single_expr, ST. rewrite map_length.
    assert (Hv1 : H = [] -> vstr op (a :: H) = a) by (intros ->; reflexivity).
    assert (Ht : truthy a = true) by (destruct a; [now elim Ha|reflexivity]).
    assert (Hm : render (Max inner) = L "max(" ++ vstr op (a :: H) ++ L ")").
    { now rewrite render_Max, Hj. }
    assert (Hm0 : render (Max (inner ++ [Zero])) = L "max(" ++ vstr op (a :: H) ++ L ",0)").
    { rewrite render_Max, map_app. cbn [map]. pose proof (joinl_snoc (L ",") (map render inner) (render Zero)) as HH. unfold str in *. rewrite HH.
      - rewrite Hj. rewrite <- !app_assoc. reflexivity.
      - destruct inner; [congruence|discriminate]. }
    assert (H0 : Nat.ltb 1 (length (a :: H)) = false -> H = []).
    { destruct H; [reflexivity|discriminate]. }
    destruct c.
    - destruct (Nat.ltb 1 (length (a :: H))) eqn:El.
      + rewrite Hm. split; reflexivity.
      + rewrite H1, Hv1 by auto. split; [reflexivity|assumption].
    - destruct (Nat.ltb 1 (length (a :: H)) || negb (is_nil Z)) eqn:El.
      + rewrite Hm0. split; reflexivity.
      + apply orb_false_iff in El as [El _]. rewrite H1, Hv1 by auto. split; [reflexivity|assumption].
  }
  destruct X as [|a X], Y as [|b Y].
  - destruct Z as [|d Z]; [reflexivity|]. cbn [is_nil]. apply render_mk_mul_vars.
  - inversion HY; subst.
    destruct (HS (L "+") b Y [mk_add (map Var (b :: Y))]) as [E T]; auto; try discriminate.
    + cbn [map joinl]. apply render_mk_add_vars.
    + intros ->. exact (render_Var b).
    + rewrite <- E in T |- *. now apply HZ.
  - inversion HX; subst.
    destruct (HS (L ",") a X (map Var (a :: X))) as [E T]; auto; try discriminate.
    + now rewrite map_render_vars.
    + intros ->. exact (render_Var a).
    + rewrite <- E in T |- *. now apply HZ.
  - set (t := Max (map Var (a :: X) ++ [mk_add (map Var (b :: Y))])).
    assert (E : render t = L "max(" ++ vstr (L ",") (a :: X) ++ L "," ++ vstr (L "+") (b :: Y) ++ L ")").
    { unfold t. rewrite render_Max, map_app, map_render_vars.
      change (map render [mk_add (map Var (b :: Y))]) with [render (mk_add (map Var (b :: Y)))].
      pose proof (joinl_snoc (L ",") (a :: X) (render (mk_add (map Var (b :: Y))))) as HH.
      unfold str in *. rewrite HH by discriminate. rewrite render_mk_add_vars.
      now rewrite <- !app_assoc. }
    rewrite <- E. apply HZ. rewrite E. reflexivity.
Qed.

Lemma vars_sorted_set l :
  StronglySorted (fun a b => str_cmp a b = Lt) (sort_uniq l) /\ (forall v, In v (sort_uniq l) <-> In v l).
Proof. split; [apply sort_uniq_sorted | intro v; apply In_sort_uniq]. Qed.
