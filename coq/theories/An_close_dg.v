(* Delta-graph bookkeeping used to close loops (An_close.v): the invariant [dg_inv] is preserved by
   inserting a list of well-formed delta lists and by a fusion pass; the recorded lists only grow, by
   exactly the inserted ones; a collapsed graph covers every choice vector of the domain. *)
From Coq Require Import String List Bool Arith Lia.
From PM Require Import Semiring Poly Rel Analysis Calculus Rel_sem Sem_stmts An_stmts.
From PM Require DeltaGraph DeltaGraph_base DeltaGraph_proofs.
Import ListNotations.
Open Scope list_scope.

Module DG := DeltaGraph.

(* ---------------- histories ---------------- *)

Lemma fold_res_app {A S} (f : S -> A -> DG.result S) (a b : list A) (s : S) :
  DG.fold_res f (a ++ b) s =
  match DG.fold_res f a s with DG.Ok s' => DG.fold_res f b s' | DG.Err e => DG.Err e end.
Proof.
  revert s. induction a as [|x a IH]; intros s; [reflexivity|].
  simpl. destruct (f s x); [apply IH | reflexivity].
Qed.

Lemma run_snoc deg h o g :
  DG.run deg h = DG.Ok g -> DG.run deg (h ++ [o]) = DG.step deg g o.
Proof.
  unfold DG.run, DG.run_from. intros H. rewrite fold_res_app, H. simpl.
  destruct (DG.step deg g o); reflexivity.
Qed.

Lemma inserted_app h h' : DG.inserted (h ++ h') = DG.inserted h ++ DG.inserted h'.
Proof. unfold DG.inserted. apply flat_map_app. Qed.

Lemma wf_op_app deg h h' :
  forallb (DG.wf_op deg) (h ++ h') = forallb (DG.wf_op deg) h && forallb (DG.wf_op deg) h'.
Proof. apply forallb_app. Qed.

(* ---------------- recorded lists ---------------- *)

Lemma record_node_In n l m : In m (DG.record_node n l) <-> m = n \/ In m l.
Proof.
  unfold DG.record_node. destruct (existsb (DG.node_eqb n) l) eqn:E.
  - split; [auto|]. intros [->|H]; [|exact H].
    apply existsb_exists in E. destruct E as [x [Hx Hn]].
    apply DeltaGraph_base.node_eqb_eq in Hn. subst x. exact Hx.
  - rewrite in_app_iff. simpl. split.
    + intros [H|[H|[]]]; auto.
    + intros [->|H]; auto.
Qed.

(* ---------------- well-formed nodes ---------------- *)

Lemma dsorted_sorted_idx (l : list delta) : dsorted l -> DG.sorted_idx l = true.
Proof.
  induction l as [|d t IH]; [reflexivity|].
  intros [H1 H2]. destruct t as [|d' t']; [reflexivity|].
  change (DG.sorted_idx (d :: d' :: t')) with (Nat.ltb (snd d) (snd d') && DG.sorted_idx (d' :: t')).
  apply andb_true_iff. split; [apply Nat.ltb_lt; exact H1 | apply IH; exact H2].
Qed.

Lemma wf_node_intro (l : list delta) :
  dsorted l -> Forall (fun d => fst d < 3) l -> DG.wf_node 3 l = true.
Proof.
  intros Hs Hd. unfold DG.wf_node. apply andb_true_iff. split; [apply dsorted_sorted_idx; exact Hs|].
  apply forallb_forall. intros d Hin. apply Nat.ltb_lt.
  rewrite Forall_forall in Hd. apply Hd. exact Hin.
Qed.

Lemma matches_mmatch (n : list delta) (c : choice) : DG.matches n c = mmatch c n.
Proof.
  unfold DG.matches, mmatch. induction n as [|d t IH]; [reflexivity|].
  simpl. rewrite IH. unfold dmatch. rewrite Nat.eqb_sym. reflexivity.
Qed.

Lemma in_domain_choice cs : in_domain cs -> forall i, choice_of_list cs i < 3.
Proof.
  intros H i. unfold choice_of_list. destruct (Nat.lt_ge_cases i (length cs)) as [Hi|Hi].
  - unfold in_domain in H. rewrite Forall_forall in H. apply H. apply nth_In. exact Hi.
  - rewrite nth_overflow by exact Hi. lia.
Qed.

(* ---------------- one insertion ---------------- *)

Lemma from_monomial_inv d n d' :
  dg_inv d -> DG.wf_node 3 n = true -> DG.from_monomial d n = DG.Ok d' ->
  dg_inv d' /\ (forall m, In m (DG.dg_recorded d') <-> m = n \/ In m (DG.dg_recorded d)).
Proof.
  intros [Hdeg [h [Hwf [Hrun [Hins Hrec]]]]] Hn E.
  pose proof (DeltaGraph_proofs.from_monomial_graph d n d' E) as [Eg Ed].
  assert (Erec : DG.dg_recorded d' = DG.record_node n (DG.dg_recorded d)).
  { unfold DG.from_monomial in E. destruct (DG.insert_node (DG.dg_graph d) n); simpl in E; [|discriminate].
    inversion E. reflexivity. }
  split.
  - split; [congruence|]. exists (h ++ [DG.Insert n]). split; [|split; [|split]].
    + rewrite wf_op_app, Hwf. simpl. rewrite Hn. reflexivity.
    + rewrite (run_snoc 3 h (DG.Insert n) _ Hrun). exact Eg.
    + intros m Hm. rewrite inserted_app in Hm. apply in_app_iff in Hm. rewrite Erec.
      apply record_node_In. destruct Hm as [Hm|Hm]; [right; apply Hins; exact Hm|].
      simpl in Hm. destruct Hm as [<-|[]]. left; reflexivity.
    + intros m Hm. rewrite Erec in Hm. apply record_node_In in Hm.
      destruct Hm as [->|Hm]; [exact Hn | apply Hrec; exact Hm].
  - intros m. rewrite Erec. apply record_node_In.
Qed.

(* ---------------- a list of insertions ---------------- *)

Lemma dg_insert_all_inv l : forall d d1,
  dg_inv d -> (forall n, In n l -> DG.wf_node 3 n = true) -> dg_insert_all d l = ROk d1 ->
  dg_inv d1 /\ (forall m, In m (DG.dg_recorded d1) <-> In m l \/ In m (DG.dg_recorded d)).
Proof.
  induction l as [|n t IH]; intros d d1 Hinv Hwf E.
  - simpl in E. inversion E; subst. split; [exact Hinv|]. intros m. simpl. tauto.
  - simpl in E. destruct (DG.from_monomial d n) as [d'|e] eqn:E1; simpl in E; [|discriminate].
    destruct (from_monomial_inv d n d' Hinv (Hwf n (or_introl eq_refl)) E1) as [Hinv' Hrec'].
    destruct (IH d' d1 Hinv' (fun m Hm => Hwf m (or_intror Hm)) E) as [Hinv1 Hrec1].
    split; [exact Hinv1|]. intros m. rewrite Hrec1, Hrec'. simpl. intuition congruence.
Qed.

(* ---------------- fusion ---------------- *)

Lemma dg_fusion_inv d1 d2 :
  dg_inv d1 -> dg_fusion d1 = ROk d2 -> dg_inv d2 /\ DG.dg_recorded d2 = DG.dg_recorded d1.
Proof.
  intros [Hdeg [h [Hwf [Hrun [Hins Hrec]]]]] E. unfold dg_fusion in E.
  destruct (DG.fusion (DG.dg_degree d1) (DG.dg_graph d1)) as [g|e] eqn:Ef; simpl in E; [|discriminate].
  inversion E; subst d2; clear E. cbn [DG.dg_recorded DG.dg_degree DG.dg_graph].
  split; [|reflexivity]. split; [exact Hdeg|]. exists (h ++ [DG.Fuse]). split; [|split; [|split]].
  - rewrite wf_op_app, Hwf. reflexivity.
  - rewrite (run_snoc 3 h DG.Fuse _ Hrun). simpl. rewrite <- Hdeg. exact Ef.
  - intros m Hm. rewrite inserted_app in Hm. apply in_app_iff in Hm. destruct Hm as [Hm|Hm]; [|destruct Hm].
    apply Hins. exact Hm.
  - exact Hrec.
Qed.

(* ---------------- collapse ---------------- *)

Lemma dg_empty_cov d cs : dg_inv d -> dg_is_empty d = true -> in_domain cs -> cov d (choice_of_list cs).
Proof.
  intros [Hdeg [h [Hwf [Hrun [Hins Hrec]]]]] He Hcs. unfold dg_is_empty in He.
  destruct (DeltaGraph_proofs.c11_sound 3 h _ Hwf Hrun He (choice_of_list cs) (in_domain_choice cs Hcs))
    as [t [Ht Hm]].
  exists t. split; [apply Hins; exact Ht|]. rewrite <- matches_mmatch. exact Hm.
Qed.

(* ---------------- the whole delta-graph step of a loop ---------------- *)

Lemma close_dg_step d rec d1 d2 :
  dg_inv d -> (forall n, In n rec -> dsorted n /\ Forall (fun dl => fst dl < 3) n) ->
  dg_insert_all d rec = ROk d1 -> dg_fusion d1 = ROk d2 ->
  dg_inv d2 /\ (forall m, In m (DG.dg_recorded d2) <-> In m rec \/ In m (DG.dg_recorded d)).
Proof.
  intros Hinv Hwf E1 E2.
  destruct (dg_insert_all_inv rec d d1 Hinv) as [Hinv1 Hrec1]; [|exact E1|].
  { intros n Hn. destruct (Hwf n Hn). apply wf_node_intro; assumption. }
  destruct (dg_fusion_inv d1 d2 Hinv1 E2) as [Hinv2 Hrec2].
  split; [exact Hinv2|]. intros m. rewrite Hrec2. apply Hrec1.
Qed.

Lemma cov_mono d d' c : incl (DG.dg_recorded d) (DG.dg_recorded d') -> cov d c -> cov d' c.
Proof. intros Hi [n [Hn Hm]]. exists n. split; [apply Hi; exact Hn | exact Hm]. Qed.
