(* Closed version of Rel_fix.rel_fixpoint_sem: the four P1 premises are discharged with the
   theorems of Calc_alg.v. *)
From Coq Require Import String List Bool Arith Lia.
From PM Require Import Semiring Poly Rel Calculus Rel_sem Sem_stmts.
From PM Require Calc_alg Rel_fix.

Theorem rel_fixpoint_sem : rel_fixpoint_sem_stmt.
Proof.
  exact (Rel_fix.rel_fixpoint_sem Calc_alg.smul_distr Calc_alg.smul_ext Calc_alg.smul_mono
           Calc_alg.smul_finite).
Qed.

Print Assumptions rel_fixpoint_sem.
