(* Persistence of infinity: true for sums; REFUTED for composition on a reachable pair of relations
   (the state of the analysis before, and the relation of, the second loop of
   x=5; y=5; while(z>0){x=y+y;} while(z>0){z=x+x;} ) -- DESIGN.md D7. *)
From Coq Require Import String List Bool Arith Lia.
From PM Require Import Semiring Poly Poly_sem Rel Rel_sem.
From PM Require Rel_ops_closed.
Import ListNotations.
Open Scope string_scope.
Open Scope list_scope.

Lemma infinity_persists_sum a b c x y : wf_rel a -> wf_rel b ->
  (rval a c x y = I \/ rval b c x y = I) -> rval (rel_sum a b) c x y = I.
Proof.
  intros Ha Hb H. destruct (Rel_ops_closed.rel_sum_sem a b Ha Hb) as [_ [_ [Hs _]]].
  rewrite Hs. destruct H as [-> | ->]; [apply ssum_I_l | apply ssum_I_r].
Qed.

Definition wit_a : rel := Rel ["x"; "y"; "z"]
  [[[Mono I [(0, 0)]; Mono I [(1, 0)]]; [Mono O []]; [Mono O []]];
   [[Mono I [(0, 0)]; Mono I [(1, 0)]]; [Mono O []]; [Mono O []]];
   [[Mono I [(0, 0)]; Mono I [(1, 0)]]; [Mono O []]; [Mono M []]]].
Definition wit_b : rel := Rel ["z"; "x"]
  [[[Mono M []]; [Mono O []]];
   [[Mono I [(0, 1)]; Mono I [(1, 1)]; Mono W [(2, 1)]]; [Mono M []]]].
Definition wit_c : choice := choice_of_list [2; 0].

Lemma wit_wf : wf_rel wit_a /\ wf_rel wit_b /\ rel_pwf wit_a /\ rel_pwf wit_b.
Proof.
  repeat split; try (repeat constructor; simpl; intuition (try discriminate; try lia)).
Qed.

Lemma composition_loses_infinity :
  rval wit_b wit_c "x" "z" = I /\
  (forall x y, In x (rvars (rel_comp wit_a wit_b)) -> In y (rvars (rel_comp wit_a wit_b)) ->
     rval (rel_comp wit_a wit_b) wit_c x y <> I).
Proof.
  split; [vm_compute; reflexivity|].
  assert (rvars (rel_comp wit_a wit_b) = ["x"; "y"; "z"]) as Hv by (vm_compute; reflexivity).
  rewrite Hv. intros x y Hx Hy.
  simpl in Hx, Hy.
  destruct Hx as [<- | [<- | [<- | []]]]; destruct Hy as [<- | [<- | [<- | []]]];
    vm_compute; discriminate.
Qed.

Theorem infinity_persists_comp_refuted :
  exists a b c, wf_rel a /\ wf_rel b /\ rel_pwf a /\ rel_pwf b /\
    (exists x y, In x (rvars b) /\ In y (rvars b) /\ rval b c x y = I) /\
    clean (rel_comp a b) c.
Proof.
  exists wit_a, wit_b, wit_c. destruct wit_wf as [A [B [C D]]].
  split; [exact A|]. split; [exact B|]. split; [exact C|]. split; [exact D|]. split.
  - exists "x", "z". split; [simpl; tauto|]. split; [simpl; tauto | vm_compute; reflexivity].
  - unfold clean. apply composition_loses_infinity.
Qed.
