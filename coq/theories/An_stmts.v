(* Statements relating the analysis model (Analysis.v) to the calculus (Calculus.v): the simulation
   invariant proved by induction over statements (An_main.v) and the function-level corollaries that
   props/C01.v, C02.v, C15.v state.  Definitions + statements only. *)
From Coq Require Import String List Bool Arith Lia.
From PM Require Import Semiring Poly Poly_sem Rel Analysis Calculus Rel_sem Sem_stmts.
From PM Require DeltaGraph.
Import ListNotations.
Open Scope list_scope.

(* every delta value is one of the three alternatives *)
Definition mdom (m : mono) : Prop := Forall (fun d => fst d < 3) (ds m).
Definition rel_dom (r : rel) : Prop := Forall (fun row => Forall (fun p => Forall mdom p) row) (rmat r).

Definition rel_ok (V : list string) (r : rel) : Prop :=
  wf_rel r /\ rel_pwf r /\ rel_dom r /\ incl (rvars r) V.

(* the choice vector is excluded by a delta list recorded in the delta graph *)
Definition cov (d : dgraph) (c : choice) : Prop :=
  exists n, In n (DeltaGraph.dg_recorded d) /\ mmatch c n = true.

(* the delta graph is a reachable state of DeltaGraph(degree=3) whose inserted tuples were all recorded *)
Definition dg_inv (d : dgraph) : Prop :=
  DeltaGraph.dg_degree d = 3 /\
  exists h, forallb (DeltaGraph.wf_op 3) h = true /\
            DeltaGraph.run 3 h = DeltaGraph.Ok (DeltaGraph.dg_graph d) /\
            (forall n, In n (DeltaGraph.inserted h) -> In n (DeltaGraph.dg_recorded d)) /\
            (forall n, In n (DeltaGraph.dg_recorded d) -> DeltaGraph.wf_node 3 n = true).

Definition names_ok (V : list string) : Prop := NoDup V /\ Forall (fun v => v <> EmptyString) V.

(* what a result r of the analysis (started with delta graph d) guarantees against the derivation
   results dv cs = (matrix or failure, index) of the same piece of program, for every choice vector *)
Definition sim_res (V : list string) (d : dgraph) (r : cr) (dv : list nat -> dres) : Prop :=
  dg_inv (cr_dg r) /\
  incl (DeltaGraph.dg_recorded d) (DeltaGraph.dg_recorded (cr_dg r)) /\
  rel_ok V (cr_rel r) /\
  forall cs, in_domain cs ->
    let c := choice_of_list cs in
    let m := fst (dv cs) in
    let idx' := snd (dv cs) in
    (* a choice at which the piece has a derivation is not newly excluded (also on early exit) *)
    (forall A, m = Some A -> cov (cr_dg r) c -> cov d c) /\
    (* early exit is only taken when every choice is excluded *)
    (cr_exit r = true -> cov (cr_dg r) c) /\
    (cr_exit r = false ->
       cr_index r = idx' /\
       (m = None -> cov (cr_dg r) c) /\
       (forall A, m = Some A -> clean (cr_rel r) c /\ eqV V (rval (cr_rel r) c) A)).

Definition stmt_sim (V : list string) (fuel index : nat) (s : stmt) (d : dgraph) : Prop :=
  forall r, compute fuel index s d = ROk r -> sim_res V d r (fun cs => derive fuel V s cs index).

Definition main_sim_stmt : Prop :=
  forall V fuel index s d, names_ok V -> incl (stmt_vars s) V -> dg_inv d -> stmt_sim V fuel index s d.

(* the accumulated relation of a statement list, against the accumulated derivation *)
Definition acc_ok (V : list string) (d : dgraph) (acc : rel) (accm : list nat -> option smat) : Prop :=
  rel_ok V acc /\
  forall cs, in_domain cs ->
    (forall A, accm cs = Some A -> finite_on V A /\ clean acc (choice_of_list cs) /\ eqV V (rval acc (choice_of_list cs)) A) /\
    (accm cs = None -> cov d (choice_of_list cs)).

(* hypotheses on the element-wise analysis [rec] / derivation [drec] used by the list lemmas *)
Definition rec_ok (V : list string) (l : list stmt)
           (rec : nat -> stmt -> dgraph -> res cr) (drec : list nat -> stmt -> nat -> dres) : Prop :=
  (forall s index d r, In s l -> dg_inv d -> rec index s d = ROk r -> sim_res V d r (fun cs => drec cs s index)) /\
  (forall s cs idx A, In s l -> fst (drec cs s idx) = Some A -> finite_on V A).

Definition seq_compound_sim_stmt : Prop :=
  forall V rec drec l index acc d accm r, names_ok V -> rec_ok V l rec drec -> dg_inv d -> acc_ok V d acc accm ->
    seq_compound rec l index acc d = ROk r ->
    sim_res V d r (fun cs => dlist (drec cs) V l (accm cs) index).

Definition seq_branch_sim_stmt : Prop :=
  forall V rec drec l index acc d accm r, names_ok V -> rec_ok V l rec drec -> dg_inv d -> acc_ok V d acc accm ->
    seq_branch rec l index acc d = ROk r ->
    sim_res V d r (fun cs => dlist (drec cs) V l (accm cs) index).

(* closing a while loop / a counted for loop around an analysed body *)
Definition close_while_sim_stmt : Prop :=
  forall V d rb dv r, names_ok V -> sim_res V d rb dv -> cr_exit rb = false ->
    (forall cs A, fst (dv cs) = Some A -> finite_on V A) ->
    close_while rb = ROk r ->
    sim_res V d r (fun cs => (d_while V (fst (dv cs)), snd (dv cs))).

Definition close_for_sim_stmt : Prop :=
  forall V d rb dv x r, names_ok V -> sim_res V d rb dv -> cr_exit rb = false ->
    (forall cs A, fst (dv cs) = Some A -> finite_on V A) ->
    In x V -> ~ In x (rvars (cr_rel rb)) ->
    close_for x rb = ROk r ->
    sim_res V d r (fun cs => (d_for V x (fst (dv cs)), snd (dv cs))).

(* the relation of an analysed statement only mentions the statement's variables *)
Definition compute_vars_stmt : Prop :=
  forall fuel index s d r, compute fuel index s d = ROk r ->
    forall v, In v (rvars (cr_rel r)) -> In v (stmt_vars s).

(* derivations only produce finite matrices *)
Definition derive_finite_stmt : Prop :=
  forall fuel V s cs idx A, fst (derive fuel V s cs idx) = Some A -> finite_on V A.

(* ---------------- function level ---------------- *)

Definition vec_ok (n : nat) (cs : list nat) : Prop := length cs = n /\ in_domain cs.

(* names of the function are proper identifiers *)
Definition func_ok (f : func_src) : Prop := Forall (fun v => v <> EmptyString) (func_vars f).

(* C02: the verdict.  (3^k vectors: k = number of binary-operation sites of the function) *)
Definition verdict_sound_stmt : Prop :=
  forall f stop res, func_ok f -> analyse f stop = ROk res -> fr_infinite res = true ->
    forall cs, vec_ok (sites f) cs -> fst (derive_func f cs) = None.

Definition verdict_complete_stmt : Prop :=
  forall f stop res, func_ok f -> analyse f stop = ROk res -> fr_infinite res = false -> 0 < fr_index res ->
    exists cs, vec_ok (fr_index res) cs /\ fst (derive_func f cs) <> None.

(* a function without binary-operation sites always has its (single, empty-vector) derivation *)
Definition no_sites_derivable_stmt : Prop :=
  forall f, func_ok f -> sites f = 0 -> fst (derive_func f []) <> None.

(* C01: degree, valid vectors and matrices of a function reported not infinite *)
Definition finite_result_stmt : Prop :=
  forall f stop res, func_ok f -> analyse f stop = ROk res -> fr_infinite res = false ->
    fr_index res = sites f /\
    fr_vars res = func_vars f /\
    exists r, fr_rel res = Some r /\ rvars r = func_vars f /\
    forall cs, vec_ok (fr_index res) cs ->
      (accepted (fr_inf_deltas res) cs = true <-> exists A, fst (derive_func f cs) = Some A) /\
      (forall A, fst (derive_func f cs) = Some A ->
         apply_choice r (choice_of_list cs) = smat_table (func_vars f) A).

(* C02/C15: the two modes agree on the verdict, and on everything when not infinite *)
Definition modes_agree_stmt : Prop :=
  forall f r1 r2, analyse f true = ROk r1 -> analyse f false = ROk r2 ->
    fr_infinite r1 = fr_infinite r2 /\
    (fr_infinite r1 = false -> r1 = r2).

(* C15: which fields a result carries *)
Definition result_fields_stmt : Prop :=
  forall f stop res, analyse f stop = ROk res ->
    (fr_infinite res = true -> (fr_rel res <> None <-> stop = false)) /\
    (fr_infinite res = false -> fr_rel res <> None /\ fr_delta_infty res = false).
