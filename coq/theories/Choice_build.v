(* C04 -- build_choices (choice.py:383) computes exactly the complement of the given sequences:
   the lens/iters arithmetic enumerates the whole cross product (one delta per sequence), the
   `is_valid` filter only drops empty boxes, and the vect_new / vect_rm maximality filter (as written:
   it only consults one stored vector) never loses coverage. *)
From Coq Require Import List Arith Bool ZArith Lia Sorted FinFun.
From PM Require Import Choice Choice_base.
Import ListNotations.

(* ---------- products, mixed-radix digits ---------- *)

Lemma fold_mul_acc l a : fold_left Nat.mul l a = a * fold_left Nat.mul l 1.
Proof.
  revert a. induction l as [|x t IH]; intros a; simpl; [lia|].
  rewrite (IH (a * x)), (IH (x + 0)). replace (x + 0) with x by lia. lia.
Qed.

Lemma prod_cons x t : prod (x :: t) = x * prod t.
Proof. unfold prod. simpl. rewrite fold_mul_acc. lia. Qed.

Lemma prod_nil : prod [] = 1.
Proof. reflexivity. Qed.

Lemma prod_pos l : Forall (fun x => 0 < x) l -> 0 < prod l.
Proof. induction 1; [rewrite prod_nil; lia | rewrite prod_cons; nia]. Qed.

Lemma iters_cons x t : iters_of (x :: t) = prod t :: iters_of t.
Proof.
  unfold iters_of. simpl length. rewrite <- cons_seq. simpl map at 1. f_equal.
  rewrite <- seq_shift, map_map. reflexivity.
Qed.

Fixpoint digits (lens : list nat) (i : nat) : list nat :=
  match lens with
  | [] => []
  | x :: t => (i / prod t) mod x :: digits t i
  end.

Lemma indices_digits lens i : indices_of lens (iters_of lens) i = digits lens i.
Proof.
  unfold indices_of. induction lens as [|x t IH]; [reflexivity|].
  rewrite iters_cons. simpl. f_equal. exact IH.
Qed.

Lemma digits_shift t : Forall (fun x => 0 < x) t -> forall a i, digits t (a * prod t + i) = digits t i.
Proof.
  induction 1 as [|y u Hy Hu IH]; intros a i; [reflexivity|].
  simpl. pose proof (prod_pos _ Hu) as Hp. f_equal.
  - rewrite prod_cons. replace (a * (y * prod u)) with ((a * y) * prod u) by lia.
    rewrite Nat.div_add_l by lia. rewrite Nat.add_comm. apply Nat.mod_add. lia.
  - rewrite prod_cons. replace (a * (y * prod u)) with ((a * y) * prod u) by lia. apply IH.
Qed.

Lemma digits_surj lens js : Forall2 (fun j x => j < x) js lens ->
  exists i, i < prod lens /\ digits lens i = js.
Proof.
  induction 1 as [|j x js t Hj Hf IH].
  - exists 0. rewrite prod_nil. split; [lia | reflexivity].
  - destruct IH as [i' [Hi' Hd]].
    assert (Forall (fun x => 0 < x) t) as Hpos.
    { clear - Hf. induction Hf; constructor; [lia | assumption]. }
    exists (j * prod t + i'). rewrite prod_cons. split; [nia|].
    simpl. f_equal.
    + rewrite Nat.div_add_l by lia. rewrite (Nat.div_small i') by lia.
      rewrite Nat.add_0_r. apply Nat.mod_small. lia.
    + rewrite digits_shift by assumption. exact Hd.
Qed.

Lemma digits_bound lens i : Forall (fun x => 0 < x) lens -> Forall2 (fun j x => j < x) (digits lens i) lens.
Proof.
  induction 1 as [|x t Hx Ht IH]; simpl; constructor; [|exact IH].
  apply Nat.mod_upper_bound. lia.
Qed.

(* ---------- one delta per sequence ---------- *)

Definition picks (sorted : list dseq) (ds : list delta) : Prop := Forall2 (fun d s => In d s) ds sorted.

Lemma deltas_of_picks sorted js :
  Forall2 (fun j x => j < x) js (map (@length delta) sorted) -> picks sorted (deltas_of sorted js).
Proof.
  unfold deltas_of. revert js. induction sorted as [|s t IH]; intros js H; simpl in *.
  - constructor.
  - inversion H as [|j x js' l' Hj Hf]; subst. simpl. constructor.
    + apply nth_In. exact Hj.
    + apply IH, Hf.
Qed.

Lemma picks_deltas_of sorted ds : picks sorted ds ->
  exists js, Forall2 (fun j x => j < x) js (map (@length delta) sorted) /\ deltas_of sorted js = ds.
Proof.
  unfold deltas_of. induction 1 as [|d s ds t Hd Hf IH].
  - exists []. split; [constructor | reflexivity].
  - destruct IH as [js [Hj He]]. destruct (In_nth _ _ (0, 0) Hd) as [j [Hl Hn]].
    exists (j :: js). split; [constructor; assumption|]. simpl. rewrite Hn, He. reflexivity.
Qed.

Lemma picks_choose (P : delta -> Prop) sorted :
  (forall s, In s sorted -> exists d, In d s /\ P d) ->
  exists ds, picks sorted ds /\ Forall P ds.
Proof.
  induction sorted as [|s t IH]; intros H.
  - exists []. split; constructor.
  - destruct IH as [ds [H1 H2]]; [intros s' Hs'; apply H; now right|].
    destruct (H s (or_introl eq_refl)) as [d [Hd Hp]].
    exists (d :: ds). split; constructor; assumption.
Qed.

Lemma picks_In sorted ds s : picks sorted ds -> In s sorted -> exists d, In d ds /\ In d s.
Proof.
  induction 1 as [|d s' ds t Hd Hf IH]; intros Hs; [destruct Hs|].
  destruct Hs as [->|Hs]; [exists d; split; [now left | exact Hd]|].
  destruct (IH Hs) as [d' [H1 H2]]. exists d'. split; [now right | exact H2].
Qed.

Lemma picks_In_l sorted ds d : picks sorted ds -> In d ds -> exists s, In s sorted /\ In d s.
Proof.
  induction 1 as [|d' s ds t Hd Hf IH]; intros Hi; [destruct Hi|].
  destruct Hi as [->|Hi]; [exists s; split; [now left | exact Hd]|].
  destruct (IH Hi) as [s' [H1 H2]]. exists s'. split; [now right | exact H2].
Qed.

(* ---------- boxes ---------- *)

Lemma Forall2_nth_iff {A B} (R : A -> B -> Prop) l l' :
  Forall2 R l l' <->
  length l = length l' /\ forall k x y, nth_error l k = Some x -> nth_error l' k = Some y -> R x y.
Proof.
  split.
  - induction 1 as [|x y l l' Hr Hf [IH1 IH2]]; split; simpl; auto.
    + intros [|k] a b; simpl; congruence.
    + intros [|k] a b; simpl; [intros Ha Hb; inversion Ha; inversion Hb; subst; exact Hr | apply IH2].
  - revert l'. induction l as [|x l IH]; intros [|y l'] [Hl H]; simpl in *; try discriminate; constructor.
    + apply (H 0); reflexivity.
    + apply IH. split; [lia|]. intros k a b. apply (H (S k)).
Qed.

Lemma forallb_false {A} (f : A -> bool) l : forallb f l = false -> exists x, In x l /\ f x = false.
Proof.
  induction l as [|a t IH]; simpl; [discriminate|]. intros H. apply andb_false_iff in H.
  destruct H as [H|H]; [exists a; auto|]. destruct (IH H) as [x [H1 H2]]. exists x. auto.
Qed.

Section Boxes.
  Context (dom : list nat) (n : nat).

  (* the box obtained from dom^n by striking out the deltas of D *)
  Definition box_sem (D : list delta) (b : box) : Prop :=
    length b = n /\
    forall k e, nth_error b k = Some e -> forall x, In x e <-> In x dom /\ ~ In (x, k) D.

  Lemma box_sem_ext D D' b : (forall d, In d D <-> In d D') -> box_sem D b -> box_sem D' b.
  Proof.
    intros H [Hl Hb]. split; [exact Hl|]. intros k e He x. rewrite (Hb k e He x), H. tauto.
  Qed.

  Lemma box_sem_init : box_sem [] (repeat (dedup Nat.eqb dom) n).
  Proof.
    split; [apply repeat_length|]. intros k e He x.
    apply nth_error_In, repeat_spec in He. subst e. rewrite (dedup_In _ Nat.eqb_eq). simpl. tauto.
  Qed.

  Lemma remove_choice_spec c idx b : idx < length b ->
    exists b', remove_choice c idx b = Ok b' /\ length b' = length b /\
      forall k e', nth_error b' k = Some e' ->
        exists e, nth_error b k = Some e /\ forall x, In x e' <-> In x e /\ ~ (k = idx /\ x = c).
  Proof.
    revert idx. induction b as [|e r IH]; intros idx Hl; [simpl in Hl; lia|].
    destruct idx as [|idx]; simpl in Hl; cbn [remove_choice].
    - eexists. split; [reflexivity|]. split; [reflexivity|].
      intros [|k] e' He'; simpl in *.
      + inversion He'; subst. exists e. split; [reflexivity|]. intros x.
        rewrite filter_In, negb_true_iff, Nat.eqb_neq. intuition.
      + exists e'. split; [exact He'|]. intros x. intuition; discriminate.
    - destruct (IH idx) as [r' [Hr [Hlen Hs]]]; [lia|]. rewrite Hr. cbn [bind].
      eexists. split; [reflexivity|]. split; [simpl; lia|].
      intros [|k] e' He'; simpl in *.
      + inversion He'; subst. exists e'. split; [reflexivity|]. intros x. intuition; discriminate.
      + destruct (Hs k e' He') as [e0 [H0 H1]]. exists e0. split; [exact H0|]. intros x.
        rewrite H1. split; [intros [Ha Hb]; split; [exact Ha | intros [Hk Hx]; apply Hb; split; [lia | exact Hx]] | intros [Ha Hb]; split; [exact Ha | intros [Hk Hx]; apply Hb; split; [lia | exact Hx]]].
  Qed.

  Lemma remove_choice_sem c idx D b : box_sem D b -> idx < n ->
    exists b', remove_choice c idx b = Ok b' /\ box_sem ((c, idx) :: D) b'.
  Proof.
    intros [Hl Hb] Hi. destruct (remove_choice_spec c idx b) as [b' [Hr [Hlen Hs]]]; [lia|].
    exists b'. split; [exact Hr|]. split; [lia|]. intros k e' He' x.
    destruct (Hs k e' He') as [e [He Hx]]. rewrite Hx, (Hb k e He x). simpl.
    split.
    - intros [[H1 H2] H3]. split; [exact H1|]. intros [E|E]; [inversion E; subst; apply H3; auto | auto].
    - intros [H1 H2]. split; [split; [exact H1 | intros E; apply H2; now right]|].
      intros [-> ->]. apply H2. now left.
  Qed.

  Lemma fold_remove_sem ds : forall D b, box_sem D b -> Forall (fun d => snd d < n) ds ->
    exists b', fold_left (fun acc d => bind acc (remove_choice (fst d) (snd d))) ds (Ok b) = Ok b' /\
               box_sem (ds ++ D) b'.
  Proof.
    induction ds as [|[c idx] t IH]; intros D b Hb Hf; simpl.
    - exists b. split; [reflexivity | exact Hb].
    - inversion Hf as [|? ? Hi Hf']; subst. simpl in Hi.
      destruct (remove_choice_sem c idx D b Hb Hi) as [b1 [Hr Hb1]]. rewrite Hr.
      destruct (IH _ _ Hb1 Hf') as [b' [Hfold Hb']]. exists b'. split; [exact Hfold|].
      eapply box_sem_ext; [|exact Hb']. intros d. rewrite !in_app_iff. simpl. rewrite in_app_iff. tauto.
  Qed.

  Lemma in_box_sem D b v : box_sem D b ->
    (in_box v b <-> vec_in dom n v /\ forall d, In d D -> dmatch v d = false).
  Proof.
    intros [Hl Hb]. unfold in_box. rewrite Forall2_nth_iff. split.
    - intros [Hlen H]. split; [split; [lia|]|].
      + apply Forall_forall. intros x Hx. apply In_nth_error in Hx. destruct Hx as [k Hk].
        destruct (nth_error b k) as [e|] eqn:He.
        * apply (Hb k e He x). apply (H k x e Hk He).
        * apply nth_error_None in He. assert (k < length v) by (apply nth_error_Some; congruence). lia.
      + intros [c k] Hd. unfold dmatch. simpl. destruct (nth_error v k) as [x|] eqn:Hx; [|reflexivity].
        destruct (Nat.eqb_spec x c) as [->|]; [|reflexivity]. exfalso.
        destruct (nth_error b k) as [e|] eqn:He.
        * apply (Hb k e He c); [apply (H k c e Hx He) | exact Hd].
        * apply nth_error_None in He. assert (k < length v) by (apply nth_error_Some; congruence). lia.
    - intros [[Hlen Hf] Hd]. split; [lia|]. intros k x e Hx He.
      apply (Hb k e He x). split.
      + rewrite Forall_forall in Hf. apply Hf. eapply nth_error_In, Hx.
      + intros Hin. specialize (Hd _ Hin). unfold dmatch in Hd. simpl in Hd.
        rewrite Hx, Nat.eqb_refl in Hd. discriminate.
  Qed.

  (* ---------- the `is_valid` filter of one iteration ---------- *)

  Lemma count_filter_snd k (ds : list delta) :
    length (filter (Nat.eqb k) (map snd ds)) = length (filter (fun d => k =? snd d) ds).
  Proof. induction ds as [|d t IH]; simpl; [reflexivity|]. destruct (k =? snd d); simpl; rewrite IH; reflexivity. Qed.

  Lemma NoDup_fst_same_snd k (l : list delta) :
    NoDup l -> (forall d, In d l -> snd d = k) -> NoDup (map fst l).
  Proof.
    induction 1 as [|d t Hn Hd IH]; intros Hk; simpl; constructor.
    - intros Hin. apply in_map_iff in Hin. destruct Hin as [d' [Hf Hd']]. apply Hn.
      assert (d' = d) as <-; [|exact Hd'].
      destruct d as [a b], d' as [a' b']. simpl in Hf. subst a'.
      pose proof (Hk (a, b) (or_introl eq_refl)) as E1. pose proof (Hk (a, b') (or_intror Hd')) as E2.
      simpl in *. congruence.
    - apply IH. intros d' Hd'. apply Hk. now right.
  Qed.

  Definition filter_ok (ds : list delta) : bool :=
    forallb (fun k => length (filter (Nat.eqb k) (map snd ds)) <? length dom) (dedup Nat.eqb (map snd ds)).

  (* filter passed: no index is emptied *)
  Lemma filter_ok_nonempty ds b : NoDup dom -> dom <> [] -> NoDup ds ->
    filter_ok ds = true -> box_sem ds b -> Forall (fun e => e <> [] /\ incl e dom) b.
  Proof.
    intros Hnd Hne Hds Hf [Hl Hb]. apply Forall_forall. intros e He.
    apply In_nth_error in He. destruct He as [k He]. split.
    2:{ intros x Hx. apply (Hb k e He x), Hx. }
    intros ->.
    assert (forall x, In x dom -> In (x, k) ds) as Hall.
    { intros x Hx. destruct (in_dec (fun a b : delta => ltac:(decide equality; apply Nat.eq_dec)) (x, k) ds) as [H|H];
        [exact H|]. exfalso. apply (proj2 (Hb k [] He x)). tauto. }
    unfold filter_ok in Hf. rewrite forallb_forall in Hf.
    destruct dom as [|x0 dom'] eqn:Edom; [congruence|]. rewrite <- Edom in *.
    assert (In k (dedup Nat.eqb (map snd ds))) as Hk.
    { apply (dedup_In _ Nat.eqb_eq). apply in_map_iff. exists (x0, k). split; [reflexivity|].
      apply Hall. rewrite Edom. now left. }
    specialize (Hf k Hk). apply Nat.ltb_lt in Hf. rewrite count_filter_snd in Hf.
    assert (length dom <= length (filter (fun d => k =? snd d) ds)); [|lia].
    rewrite <- (map_length (fun x => (x, k)) dom). apply NoDup_incl_length.
    - apply Injective_map_NoDup; [|exact Hnd]. intros a a' E. now inversion E.
    - intros d Hd. apply in_map_iff in Hd. destruct Hd as [x [<- Hx]]. apply filter_In.
      split; [now apply Hall | simpl; apply Nat.eqb_refl].
  Qed.

  (* filter failed: the deltas strike out a whole index, no vector of dom^n avoids them all *)
  Lemma filter_ko_empty ds v : NoDup dom -> NoDup ds ->
    Forall (fun d => In (fst d) dom /\ snd d < n) ds ->
    filter_ok ds = false -> vec_in dom n v -> exists d, In d ds /\ dmatch v d = true.
  Proof.
    intros Hnd Hds Hwf Hf Hv. unfold filter_ok in Hf.
    assert (exists k, In k (map snd ds) /\ length dom <= length (filter (fun d => k =? snd d) ds)) as [k [Hk Hc]].
    { destruct (forallb_false _ _ Hf) as [k [Hk Hc]]. exists k.
      apply (proj1 (dedup_In _ Nat.eqb_eq _ _)) in Hk. split; [exact Hk|].
      apply Nat.ltb_ge in Hc. rewrite count_filter_snd in Hc. exact Hc. }
    set (L := filter (fun d => k =? snd d) ds) in *.
    assert (NoDup (map fst L)) as HndL.
    { apply (NoDup_fst_same_snd k); [apply NoDup_filter, Hds|].
      intros d Hd. apply filter_In in Hd. destruct Hd as [_ Hd]. apply Nat.eqb_eq in Hd. auto. }
    assert (incl (map fst L) dom) as Hincl.
    { intros x Hx. apply in_map_iff in Hx. destruct Hx as [d [<- Hd]]. apply filter_In in Hd.
      rewrite Forall_forall in Hwf. apply (Hwf d), Hd. }
    assert (incl dom (map fst L)) as Hcover.
    { apply NoDup_length_incl; [exact HndL | rewrite map_length; exact Hc | exact Hincl]. }
    assert (k < n) as Hkn.
    { apply in_map_iff in Hk. destruct Hk as [d [<- Hd]]. rewrite Forall_forall in Hwf. apply (Hwf d Hd). }
    destruct (vec_in_nth _ _ _ k Hv Hkn) as [x [Hx Hxd]].
    apply Hcover in Hxd. apply in_map_iff in Hxd. destruct Hxd as [[x' k'] [Hfst Hd]]. simpl in Hfst. subst x'.
    apply filter_In in Hd. destruct Hd as [Hd Hk']. simpl in Hk'. apply Nat.eqb_eq in Hk'. subst k'.
    exists (x, k). split; [exact Hd|]. unfold dmatch. simpl. rewrite Hx. apply Nat.eqb_refl.
  Qed.
End Boxes.

(* ---------- the maximality filter ---------- *)

(* every entry non-empty and inside dom, n entries *)
Definition good_box (dom : list nat) (n : nat) (b : box) : Prop :=
  length b = n /\ Forall (fun e => e <> [] /\ incl e dom) b.

Lemma vect_contains_in_box a b v :
  length a = length b -> vect_contains a b = true -> in_box v b -> in_box v a.
Proof.
  unfold in_box, vect_contains. intros Hl Hc H. revert a Hl Hc.
  induction H as [|x e v b Hx Hf IH]; intros [|ea a] Hl Hc; simpl in *; try discriminate; constructor.
  - apply andb_true_iff in Hc. destruct Hc as [Hc _]. rewrite forallb_forall in Hc.
    apply (memb_In _ Nat.eqb_eq). apply Hc, Hx.
  - apply IH; [lia|]. apply andb_true_iff in Hc. tauto.
Qed.

Section Build.
  Context (pick : picker) (dom : list nat) (n : nat) (sorted : list dseq).
  Context (Hpick : pick_ok pick) (Hnd : NoDup dom) (Hne : dom <> []) (Hwf : wf_seqs dom n sorted).

  Local Notation lens := (map (@length delta) sorted).
  Local Notation iters := (iters_of (map (@length delta) sorted)).

  Definition Deltas (i : nat) : list delta := deltas_of sorted (indices_of lens iters i).

  Lemma lens_pos : Forall (fun x => 0 < x) lens.
  Proof.
    apply Forall_forall. intros x Hx. apply in_map_iff in Hx. destruct Hx as [s [<- Hs]].
    destruct (Hwf s Hs) as [Hn _]. destruct s; [congruence | simpl; lia].
  Qed.

  Lemma Deltas_picks i : picks sorted (Deltas i).
  Proof. unfold Deltas. rewrite indices_digits. apply deltas_of_picks, digits_bound, lens_pos. Qed.

  Lemma Deltas_surj ds : picks sorted ds -> exists i, i < prod lens /\ Deltas i = ds.
  Proof.
    intros H. destruct (picks_deltas_of _ _ H) as [js [Hj Hd]].
    destruct (digits_surj _ _ Hj) as [i [Hi Hdi]]. exists i. split; [exact Hi|].
    unfold Deltas. rewrite indices_digits, Hdi. exact Hd.
  Qed.

  Lemma Deltas_wf i : Forall (fun d => In (fst d) dom /\ snd d < n) (Deltas i).
  Proof.
    apply Forall_forall. intros d Hd. destruct (picks_In_l _ _ _ (Deltas_picks i) Hd) as [s [Hs Hds]].
    destruct (Hwf s Hs) as (_ & _ & Hf). rewrite Forall_forall in Hf. apply Hf, Hds.
  Qed.

  (* the vectors of dom^n allowed by iteration i: those avoiding every chosen delta *)
  Definition iter_sem (i : nat) (v : list nat) : Prop :=
    vec_in dom n v /\ forall d, In d (Deltas i) -> dmatch v d = false.

  Lemma iter_vector_unfold i :
    iter_vector dom n sorted lens iters i =
    let ds := dedup delta_eqb (Deltas i) in
    if negb (filter_ok dom ds) then Ok None
    else bind (fold_left (fun acc d => bind acc (remove_choice (fst d) (snd d))) ds
                         (Ok (repeat (dedup Nat.eqb dom) n)))
              (fun vector => Ok (Some vector)).
  Proof. reflexivity. Qed.

  Lemma iter_vector_spec i :
    match iter_vector dom n sorted lens iters i with
    | Err _ => False
    | Ok None => forall v, ~ iter_sem i v
    | Ok (Some b) => (forall v, in_box v b <-> iter_sem i v) /\ good_box dom n b
    end.
  Proof.
    rewrite iter_vector_unfold. cbv zeta.
    set (ds := dedup delta_eqb (Deltas i)).
    assert (forall d, In d ds <-> In d (Deltas i)) as Hin by (intros d; apply (dedup_In _ delta_eqb_eq)).
    assert (NoDup ds) as Hds by apply (dedup_NoDup _ delta_eqb_eq).
    assert (Forall (fun d => In (fst d) dom /\ snd d < n) ds) as Hdwf.
    { apply Forall_forall. intros d Hd. apply Hin in Hd. pose proof (Deltas_wf i) as H.
      rewrite Forall_forall in H. apply H, Hd. }
    destruct (filter_ok dom ds) eqn:Ef; cbn [negb].
    - destruct (fold_remove_sem dom n ds [] _ (box_sem_init dom n)) as [b [Hfold Hb]].
      { eapply Forall_impl; [|exact Hdwf]. intros d Hd. apply Hd. }
      match goal with |- context [bind ?X _] => replace X with (@Ok box b) by (symmetry; exact Hfold) end.
      cbn [bind].
      assert (box_sem dom n ds b) as Hb'.
      { eapply box_sem_ext; [|exact Hb]. intros d. rewrite app_nil_r. tauto. }
      split.
      + intros v. rewrite (in_box_sem dom n ds b v Hb'). unfold iter_sem.
        split; intros [H1 H2]; split; auto; intros d Hd; apply H2, Hin, Hd.
      + split; [apply Hb'|]. eapply filter_ok_nonempty; eauto.
    - intros v [Hv Hd]. destruct (filter_ko_empty dom n ds v Hnd Hds Hdwf Ef Hv) as [d [Hd1 Hd2]].
      apply Hin in Hd1. rewrite (Hd d Hd1) in Hd2. discriminate.
  Qed.

  Lemma iter_sem_accepted v :
    (exists i, In i (seq 0 (prod lens)) /\ iter_sem i v) <-> vec_in dom n v /\ accepted sorted v.
  Proof.
    split.
    - intros [i [_ [Hv Hd]]]. split; [exact Hv|]. intros s Hs.
      destruct (picks_In _ _ _ (Deltas_picks i) Hs) as [d [Hd1 Hd2]].
      apply smatch_false. exists d. split; [exact Hd2 | apply Hd, Hd1].
    - intros [Hv Ha].
      destruct (picks_choose (fun d => dmatch v d = false) sorted) as [ds [Hp Hf]].
      { intros s Hs. apply smatch_false, Ha, Hs. }
      destruct (Deltas_surj ds Hp) as [i [Hi Hd]]. exists i. split; [apply in_seq; lia|].
      split; [exact Hv|]. rewrite Hd. rewrite Forall_forall in Hf. exact Hf.
  Qed.

  Lemma add_vector_spec distinct vectors vec :
    Forall (fun b => length b = n) vectors -> length vec = n ->
    (forall v, covered (add_vector pick distinct vectors vec) v <-> covered vectors v \/ in_box v vec) /\
    (forall b, In b (add_vector pick distinct vectors vec) -> In b vectors \/ b = vec).
  Proof.
    intros Hlen Hl. unfold add_vector. rewrite Forall_forall in Hlen.
    destruct distinct; simpl.
    - split.
      + intros v. unfold covered. split.
        * intros [b [Hb Hv]]. apply (set_add_In _ box_eqb_eq) in Hb. destruct Hb as [->|Hb]; [now right|].
          left. exists b. auto.
        * intros [[b [Hb Hv]]|Hv]; [exists b | exists vec]; (split; [apply (set_add_In _ box_eqb_eq)|]); auto.
      + intros b Hb. apply (set_add_In _ box_eqb_eq) in Hb. tauto.
    - destruct (vect_new pick vectors vec) eqn:En.
      + split.
        * intros v. unfold covered. split.
          -- intros [b [Hb Hv]]. apply (set_add_In _ box_eqb_eq) in Hb. destruct Hb as [->|Hb]; [now right|].
             left. exists b. unfold vect_rm in Hb. apply filter_In in Hb. tauto.
          -- intros [[b [Hb Hv]]|Hv].
             ++ destruct (vect_contains vec b) eqn:Ec.
                ** exists vec. split; [apply (set_add_In _ box_eqb_eq); now left|].
                   eapply vect_contains_in_box; [|exact Ec|exact Hv]. rewrite (Hlen b Hb), Hl. reflexivity.
                ** exists b. split; [|exact Hv]. apply (set_add_In _ box_eqb_eq). right.
                   unfold vect_rm. apply filter_In. split; [exact Hb | now rewrite Ec].
             ++ exists vec. split; [apply (set_add_In _ box_eqb_eq); now left | exact Hv].
        * intros b Hb. apply (set_add_In _ box_eqb_eq) in Hb. destruct Hb as [->|Hb]; [now right|].
          left. unfold vect_rm in Hb. apply filter_In in Hb. tauto.
      + unfold vect_new in En. destruct (pick vectors) as [p|] eqn:Ep; [|discriminate].
        apply negb_false_iff in En. apply Hpick in Ep. split; [|tauto].
        intros v. split; [tauto|]. intros [H|Hv]; [exact H|]. exists p. split; [exact Ep|].
        eapply vect_contains_in_box; [|exact En|exact Hv]. rewrite (Hlen p Ep). symmetry. exact Hl.
  Qed.

  Lemma build_loop_spec distinct its : forall vectors,
    Forall (fun b => length b = n) vectors ->
    exists out, build_loop pick distinct dom n sorted lens iters its vectors = Ok out /\
      (forall v, covered out v <-> covered vectors v \/ exists i, In i its /\ iter_sem i v) /\
      (forall b, In b out -> In b vectors \/ good_box dom n b).
  Proof.
    induction its as [|i t IH]; intros vectors Hlen; simpl.
    - exists vectors. split; [reflexivity|]. split; [|tauto].
      intros v. split; [tauto | intros [H|[i [[] _]]]; exact H].
    - pose proof (iter_vector_spec i) as Hi.
      destruct (iter_vector dom n sorted lens iters i) as [[b|]|e]; [| |destruct Hi].
      + destruct Hi as [Hsem Hgood].
        destruct (add_vector_spec distinct vectors b Hlen (proj1 Hgood)) as [Hcov Hsub].
        destruct (IH (add_vector pick distinct vectors b)) as [out [Ho [Hc Hg]]].
        { apply Forall_forall. intros b' Hb'. destruct (Hsub b' Hb') as [H| ->].
          - rewrite Forall_forall in Hlen. now apply Hlen.
          - apply Hgood. }
        exists out. split; [exact Ho|]. split.
        * intros v. rewrite Hc, Hcov, Hsem. split.
          -- intros [[H|H]|[j [Hj H]]]; [now left | right; exists i; auto | right; exists j; auto].
          -- intros [H|[j [[<-|Hj] H]]]; [left; now left | left; now right | right; exists j; auto].
        * intros b' Hb'. destruct (Hg b' Hb') as [H|H]; [|now right].
          destruct (Hsub b' H) as [H'| ->]; [now left | now right].
      + destruct (IH vectors Hlen) as [out [Ho [Hc Hg]]]. exists out. split; [exact Ho|]. split; [|exact Hg].
        intros v. rewrite Hc. split.
        * intros [H|[j [Hj H]]]; [now left | right; exists j; auto].
        * intros [H|[j [[<-|Hj] H]]]; [now left | exfalso; apply (Hi v H) | right; exists j; auto].
  Qed.
End Build.

(* ---------- build_choices ---------- *)

Lemma in_box_repeat dom n v : in_box v (repeat dom n) <-> vec_in dom n v.
Proof.
  unfold in_box, vec_in. revert v. induction n as [|n IH]; intros v; simpl.
  - split; [intros H; inversion H; auto | intros [Hl _]; destruct v; [constructor | discriminate]].
  - split.
    + intros H. inversion H as [|x e v' b Hx Hf]; subst. apply IH in Hf. destruct Hf as [Hl Hf].
      split; [simpl; lia | constructor; assumption].
    + intros [Hl Hf]. destruct v as [|x v']; [discriminate|]. inversion Hf; subst.
      constructor; [assumption|]. apply IH. split; [simpl in Hl; lia | assumption].
Qed.

Theorem build_choices_spec pick dom n S :
  pick_ok pick -> NoDup dom -> dom <> [] -> wf_seqs dom n S ->
  exists bs, build_choices pick dom n S = Ok bs /\
    (forall v, covered bs v <-> vec_in dom n v /\ accepted S v) /\
    Forall (good_box dom n) bs.
Proof.
  intros Hpick Hnd Hne Hwf. unfold build_choices. destruct S as [|s0 S'] eqn:ES.
  - exists [repeat dom n]. split; [reflexivity|]. split.
    + intros v. unfold covered. split.
      * intros [b [[<-|[]] Hv]]. apply in_box_repeat in Hv. split; [exact Hv | intros s []].
      * intros [Hv _]. exists (repeat dom n). split; [now left | now apply in_box_repeat].
    + constructor; [|constructor]. split; [apply repeat_length|].
      apply Forall_forall. intros e He. apply repeat_spec in He. subst e. split; [exact Hne | apply incl_refl].
  - rewrite <- ES in *. clear ES s0 S'.
    assert (wf_seqs dom n (sort_by_len S)) as Hwf'.
    { eapply wf_seqs_same_set; [|exact Hwf]. intros x. symmetry. apply sort_by_len_same. }
    match goal with |- context [build_loop pick ?d dom n _ _ _ _ []] => set (distinct := d) end.
    destruct (build_loop_spec pick dom n (sort_by_len S) Hpick Hnd Hne Hwf' distinct
                (seq 0 (prod (map (@length delta) (sort_by_len S)))) []) as [out [Ho [Hc Hg]]];
      [constructor|].
    exists out. split; [exact Ho|]. split.
    + intros v. rewrite Hc, (iter_sem_accepted dom n (sort_by_len S) Hwf' v).
      split.
      * intros [[b [[] _]]|[Hv Ha]]. split; [exact Hv|].
        eapply accepted_same_set; [|exact Ha]. apply sort_by_len_same.
      * intros [Hv Ha]. right. split; [exact Hv|].
        eapply accepted_same_set; [|exact Ha]. intros x. symmetry. apply sort_by_len_same.
    + apply Forall_forall. intros b Hb. destruct (Hg b Hb) as [[]|H]. exact H.
Qed.
