(* C12: the function-level theorems of Equiv.v with their three premises discharged by the closed
   simulation theorems (An_closed.v). *)
From Coq Require Import String List Bool.
From PM Require Import Semiring Poly Rel Analysis Calculus Sem_stmts An_stmts
                       Equiv_base Equiv_rel Equiv_layout Equiv.
From PM Require An_func An_closed.
Import ListNotations.

Definition analyse_rename_closed :=
  analyse_rename An_closed.finite_result An_closed.verdict_sound An_closed.verdict_complete_all.

Definition analyse_pfm_closed :=
  analyse_pfm An_closed.finite_result An_closed.verdict_sound An_closed.verdict_complete_all.

Definition analyse_pfm_tables_closed := analyse_pfm_tables An_closed.finite_result.

Definition analyse_layout_closed :=
  analyse_layout An_closed.finite_result An_closed.verdict_sound An_closed.verdict_complete_all.

Definition analyse_empty_statement_closed :=
  analyse_empty_statement An_closed.finite_result An_closed.verdict_sound An_closed.verdict_complete_all.

Definition analyse_braces_closed :=
  analyse_braces An_closed.finite_result An_closed.verdict_sound An_closed.verdict_complete_all.
