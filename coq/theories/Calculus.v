(* The mwp flow calculus over plain scalar matrices (no polynomials, no deltas, no infinity):
   the SPECIFICATION the analysis is compared with.  One of three rule alternatives per
   binary-operation site, composition for sequences, sum for if/else, closure + W for while/do-while,
   closure + L for counted for-loops.  Executable, so that it can be cross-checked against the
   independent Python transcription tools/calc.py. *)
From Coq Require Import String List Bool Arith Lia.
From PM Require Import Semiring Poly Rel Analysis.
From PMGen Require Import RulesGen.
Import ListNotations.
Open Scope list_scope.

Definition smat := string -> string -> Sc.

Definition sid : smat := fun x y => if String.eqb x y then M else O.

Definition sadd (A B : smat) : smat := fun x y => ssum (A x y) (B x y).

Definition smul (V : list string) (A B : smat) : smat :=
  fun x y => fold_right (fun k acc => ssum (sprod (A x k) (B k y)) acc) O V.

(* identity except column x, which is given by f *)
Definition scol (x : string) (f : string -> Sc) : smat :=
  fun u v => if String.eqb v x then f u else sid u v.

(* tabulate a matrix on V x V (extensionally the same function; evaluation no longer re-computes the
   closures it was built from) *)
Definition memo (V : list string) (A : smat) : smat :=
  let t := map (fun x => map (fun y => A x y) V) V in
  fun x y => match index_of_str x V, index_of_str y V with
             | Some i, Some j => nth j (nth i t []) O
             | _, _ => A x y
             end.

Definition smat_eqb (V : list string) (A B : smat) : bool :=
  forallb (fun x => forallb (fun y => sc_eqb (A x y) (B x y)) V) V.

(* closure: iterate X |-> 1 + X.A from 1 until it is stable on V x V; None = fuel exhausted *)
Fixpoint sstar_loop (fuel : nat) (V : list string) (A X : smat) : option smat :=
  match fuel with
  | 0 => None
  | S f => let X' := memo V (sadd sid (smul V X A)) in
           if smat_eqb V X' X then Some X else sstar_loop f V A X'
  end.

Definition sstar (V : list string) (A : smat) : option smat := sstar_loop (4 * length V * length V + 2) V A sid.

Definition w_ok (V : list string) (A : smat) : bool :=
  forallb (fun x => forallb (fun y => negb (W_BAD (A x y) (String.eqb x y))) V) V.

Definition l_ok (V : list string) (A : smat) : bool :=
  forallb (fun x => negb (L_BAD (A x x) true)) V.

(* L rule: for every p at (i, j) add p at (X, j) *)
Definition l_extend (V : list string) (X : string) (A : smat) : smat :=
  fun u v => if String.eqb u X && existsb (fun i => L_PROPAGATE (A i v) (String.eqb i v)) V
             then ssum (A u v) P else A u v.

(* ---- leaves ---- *)

Definition nth_triple (t : Sc * Sc * Sc) (c : nat) : Sc :=
  let '(a, b, d) := t in match c with 0 => a | 1 => b | _ => d end.

Fixpoint assoc_sc (u : string) (rows : list string) (vec : list Sc) : Sc :=
  match rows, vec with
  | r :: rs, v :: vs => if String.eqb u r then v else assoc_sc u rs vs
  | _, _ => O
  end.

(* x = y op z at a site with choice c (numbered as the implementation numbers the alternatives:
   rows of list(dict.fromkeys((x, y, z)))).  None = operator outside the calculus *)
Definition leaf_bin (x op : string) (y z : option string) (c : nat) : option smat :=
  if negb (mem_strb op BIN_OPS) then None else
  match cv_lookup CV_TABLE op y z with
  | None => None
  | Some tr =>
      let rows := opt_names (dedup_first [Some x; y; z]) in
      let pre := if negb (opt_str_eqb (Some x) y) && negb (opt_str_eqb (Some x) z) then [O] else [] in
      let vec := pre ++ map (fun t => nth_triple t c) tr in
      Some (scol x (fun u => assoc_sc u rows vec))
  end.

Definition leaf_const (x : string) : smat := scol x (fun _ => O).
Definition leaf_copy (x y : string) : smat :=
  if String.eqb x y then sid else scol x (fun u => if String.eqb u y then M else O).

(* ---- derivations ---- *)

(* result of a sub-derivation: the matrix (None = a side condition failed, or an operator outside the
   calculus) and the index after consuming this statement's sites *)
Definition dres := (option smat * nat)%type.

Definition dseq (V : list string) (a : option smat) (b : option smat) : option smat :=
  match a, b with Some A, Some B => Some (memo V (smul V A B)) | _, _ => None end.

Definition d_bin (x op : string) (y z : atom) (cs : list nat) (idx : nat) : dres :=
  match y, z with
  | ACst, ACst => (Some (leaf_const x), idx)
  | _, _ => (leaf_bin x op (atom_name y) (atom_name z) (nth idx cs 0), S idx)
  end.

Fixpoint dlist (rec : stmt -> nat -> dres) (V : list string) (l : list stmt) (acc : option smat) (idx : nat) : dres :=
  match l with
  | [] => (acc, idx)
  | s1 :: t => let '(m, idx') := rec s1 idx in dlist rec V t (dseq V acc m) idx'
  end.

Definition d_while (V : list string) (mb : option smat) : option smat :=
  match mb with
  | Some B => match sstar V B with
              | Some St => if w_ok V St then Some St else None
              | None => None
              end
  | None => None
  end.

Definition d_for (V : list string) (X : string) (mb : option smat) : option smat :=
  match mb with
  | Some B => match sstar V B with
              | Some St => if l_ok V St then Some (memo V (l_extend V X St)) else None
              | None => None
              end
  | None => None
  end.

Definition d_if (V : list string) (mt me : option smat) : option smat :=
  match mt, me with Some A, Some B => Some (memo V (sadd B A)) | _, _ => None end.

Fixpoint derive (fuel : nat) (V : list string) (s : stmt) (cs : list nat) (idx : nat) {struct fuel} : dres :=
  match fuel with
  | 0 => (None, idx)
  | S fuel' =>
    match s with
    | SSkip _ => (Some sid, idx)
    | SBin x op y z => d_bin x op y z cs idx
    | SConst x => (Some (leaf_const x), idx)
    | SCopy x y => (Some (leaf_copy x y), idx)
    | SUnAsg x op e =>
        match unary_asgn_rewrite x op e with
        | Some s' => derive fuel' V s' cs idx
        | None => (Some sid, idx)
        end
    | SUnary op e =>
        match e with
        | UVar y => if mem_strb op INC_DEC
                    then match inc_dec_stmt op y with
                         | SBin x o a b => d_bin x o a b cs idx
                         | _ => (Some sid, idx)
                         end
                    else (Some sid, idx)
        | _ => (Some sid, idx)
        end
    | SIf t e =>
        let '(mt, i1) := dlist (fun s1 i => derive fuel' V s1 cs i) V t (Some sid) idx in
        let '(me, i2) := dlist (fun s1 i => derive fuel' V s1 cs i) V e (Some sid) i1 in
        (d_if V mt me, i2)
    | SWhile _ body =>
        let '(mb, i1) := derive fuel' V body cs idx in (d_while V mb, i1)
    | SFor iters srcs conds nxt body =>
        match loop_compat iters srcs conds nxt body with
        | None => (Some sid, idx)
        | Some X => let '(mb, i1) := derive fuel' V body cs idx in (d_for V X mb, i1)
        end
    | SBlock l => dlist (fun s1 i => derive fuel' V s1 cs i) V l (Some sid) idx
    end
  end.

Definition derive_list (V : list string) (l : list stmt) (cs : list nat) (acc : option smat) (idx : nat) : dres :=
  dlist (fun s1 i => derive depth_fuel V s1 cs i) V l acc idx.

(* the derivation of a whole function body for the choice vector cs *)
Definition derive_func (f : func_src) (cs : list nat) : dres :=
  derive_list (func_vars f) (f_body f) cs (Some sid) 0.

Definition sites (f : func_src) : nat := snd (derive_func f []).

Definition smat_table (V : list string) (A : smat) : list (list Sc) :=
  map (fun x => map (fun y => A x y) V) V.

(* the generated rule table is the documented one *)
Lemma cv_table_is_documented :
  CV_TABLE = [(CvConst, [], [(M, M, M)]);
              (CvEq, ["*"%string], [(W, W, W)]);
              (CvNe, ["*"%string], [(W, W, W); (W, W, W)]);
              (CvEq, ["+"%string; "-"%string], [(P, P, W)]);
              (CvNe, ["+"%string; "-"%string], [(M, P, W); (P, M, W)])].
Proof. reflexivity. Qed.

Lemma side_conditions_are_documented :
  (forall s d, W_BAD s d = (sc_eqb s P || (sc_eqb s W && d))) /\
  (forall s d, L_BAD s d = (d && negb (sc_eqb s M))) /\
  (forall s d, L_PROPAGATE s d = sc_eqb s P) /\ APPLY_CHOICE_LEAST = O /\ DOMAIN = [0; 1; 2].
Proof. repeat split; intros; try reflexivity; destruct s, d; reflexivity. Qed.
