(* Executable, code-shaped model of pymwp/delta_graphs.py (class DeltaGraph).

   Data layout mirrors the Python object:
     delta  = (value, index)                         a pair of naturals
     node   = tuple of deltas                        list delta
     graph  = graph_dict : size -> node -> neighbour -> label
              three nested CPython dicts = three nested insertion-ordered
              association lists.
   Dict operations: [lookup] (d[k], KeyError = None), [aset] (d[k] = v: update in
   place if the key exists, append otherwise), [aremove] (del d[k]), [keys]
   (list(d)).  Every dictionary read is an option lookup and a miss is an
   explicit [Err "KeyError"].  Recursion of remove_node is on explicit fuel
   (= number of nodes in the graph) with the distinguished [Err "fuel"].

   No proofs here (they are in DeltaGraph_proofs.v). *)
From Coq Require Import String List Arith Bool.
Import ListNotations.
Open Scope string_scope.
Open Scope list_scope.

Inductive result (T : Type) : Type :=
| Ok (x : T)
| Err (e : string).
Arguments Ok {T} x.
Arguments Err {T} e.

Definition bind {A B} (r : result A) (f : A -> result B) : result B :=
  match r with Ok x => f x | Err e => Err e end.
Notation "x <- r ;; k" := (bind r (fun x => k))
  (at level 61, r at next level, right associativity).

Definition of_opt {A} (o : option A) (e : string) : result A :=
  match o with Some x => Ok x | None => Err e end.

(* for x in xs: state = f state x   (stops at the first exception) *)
Fixpoint fold_res {A S} (f : S -> A -> result S) (xs : list A) (s : S) : result S :=
  match xs with
  | [] => Ok s
  | x :: t => match f s x with Ok s' => fold_res f t s' | Err e => Err e end
  end.

(* ------------------------------------------------------------------ *)
(* insertion-ordered dictionaries                                      *)
(* ------------------------------------------------------------------ *)
Section Assoc.
  Context {K V : Type} (eqb : K -> K -> bool).

  Fixpoint lookup (k : K) (l : list (K * V)) : option V :=
    match l with
    | [] => None
    | (k', v) :: t => if eqb k k' then Some v else lookup k t
    end.

  (* d[k] = v *)
  Fixpoint aset (k : K) (v : V) (l : list (K * V)) : list (K * V) :=
    match l with
    | [] => [(k, v)]
    | (k', v') :: t => if eqb k k' then (k', v) :: t else (k', v') :: aset k v t
    end.

  (* del d[k]  (callers check presence first when Python would raise) *)
  Fixpoint aremove (k : K) (l : list (K * V)) : list (K * V) :=
    match l with
    | [] => []
    | (k', v') :: t => if eqb k k' then aremove k t else (k', v') :: aremove k t
    end.

  Definition amem (k : K) (l : list (K * V)) : bool :=
    match lookup k l with Some _ => true | None => false end.

  Definition keys (l : list (K * V)) : list K := map fst l.
End Assoc.

(* ------------------------------------------------------------------ *)
(* data                                                                *)
(* ------------------------------------------------------------------ *)
Definition delta := (nat * nat)%type.           (* (value, index) *)
Definition node := list delta.
Definition nbrs := list (node * nat).            (* neighbour -> label *)
Definition bucket := list (node * nbrs).         (* node -> neighbours *)
Definition graph := list (nat * bucket).         (* size -> bucket *)

Definition delta_eqb (a b : delta) : bool :=
  Nat.eqb (fst a) (fst b) && Nat.eqb (snd a) (snd b).

Fixpoint node_eqb (a b : node) : bool :=
  match a, b with
  | [], [] => true
  | x :: a', y :: b' => delta_eqb x y && node_eqb a' b'
  | _, _ => false
  end.

(* d in node   (tuple membership) *)
Fixpoint dmem (d : delta) (n : node) : bool :=
  match n with
  | [] => false
  | x :: t => delta_eqb d x || dmem d t
  end.

Definition KeyError := "KeyError".

(* graph_dict[size]  /  graph_dict[size][node] *)
Definition get_bucket (g : graph) (size : nat) : result bucket :=
  of_opt (lookup Nat.eqb size g) KeyError.

Definition glookup (g : graph) (size : nat) (n : node) : option nbrs :=
  match lookup Nat.eqb size g with
  | Some bk => lookup node_eqb n bk
  | None => None
  end.

(* graph_dict[size][n] = {} *)
Definition add_node (g : graph) (size : nat) (n : node) : result graph :=
  bk <- get_bucket g size ;;
  Ok (aset Nat.eqb size (aset node_eqb n [] bk) g).

(* graph_dict[size][n1][n2] = label *)
Definition set_edge (g : graph) (size : nat) (n1 n2 : node) (label : nat) : result graph :=
  bk <- get_bucket g size ;;
  nb <- of_opt (lookup node_eqb n1 bk) KeyError ;;
  Ok (aset Nat.eqb size (aset node_eqb n1 (aset node_eqb n2 label nb) bk) g).

(* del graph_dict[size][n] *)
Definition del_node (g : graph) (size : nat) (n : node) : result graph :=
  bk <- get_bucket g size ;;
  if amem node_eqb n bk then Ok (aset Nat.eqb size (aremove node_eqb n bk) g)
  else Err KeyError.

(* del graph_dict[size][n1][n2] *)
Definition del_edge (g : graph) (size : nat) (n1 n2 : node) : result graph :=
  bk <- get_bucket g size ;;
  nb <- of_opt (lookup node_eqb n1 bk) KeyError ;;
  if amem node_eqb n2 nb
  then Ok (aset Nat.eqb size (aset node_eqb n1 (aremove node_eqb n2 nb) bk) g)
  else Err KeyError.

(* ------------------------------------------------------------------ *)
(* DeltaGraph.insert_edge                                              *)
(* ------------------------------------------------------------------ *)
Definition insert_edge (g : graph) (node1 node2 : node) (label : nat) : result graph :=
  let size := length node1 in
  bk <- get_bucket g size ;;
  g <- (if amem node_eqb node1 bk then Ok g else add_node g size node1) ;;
  g <- set_edge g size node1 node2 label ;;
  bk <- get_bucket g size ;;
  g <- (if amem node_eqb node2 bk then Ok g else add_node g size node2) ;;
  set_edge g size node2 node1 label.

(* ------------------------------------------------------------------ *)
(* DeltaGraph.node_diff                                                *)
(*   the while loop; [rec] is the recursive call DeltaGraph.node_diff  *)
(*   (node2, node1, i1), reached only when [index] is None.  The       *)
(*   callee has index <> None and so never recurses: two levels.       *)
(*   Result: (diff, index) with index : option nat (None = Python None)*)
(* ------------------------------------------------------------------ *)
Fixpoint nd_loop (rec : node -> node -> nat -> bool * option nat)
         (node1 node2 rest : node) (diff_found : bool) (index : option nat)
  : bool * option nat :=
  match rest with
  | [] => (diff_found, index)
  | d :: rest' =>
    if dmem d node2 then nd_loop rec node1 node2 rest' diff_found index
    else
      let i1 := snd d in
      if diff_found then (false, Some i1)
      else match index with
           | Some ix =>
             if negb (Nat.eqb ix i1) then (false, Some ix)
             else nd_loop rec node1 node2 rest' true index
           | None =>
             let (diff, _) := rec node2 node1 i1 in
             if diff then nd_loop rec node1 node2 rest' true (Some i1)
             else (false, Some i1)
           end
  end.

(* node_diff(node1, node2, index) with index given *)
Definition node_diff_ix (node1 node2 : node) (index : nat) : bool * option nat :=
  nd_loop (fun _ _ _ => (false, None)) node1 node2 node1 false (Some index).

(* node_diff(node1, node2) *)
Definition node_diff (node1 node2 : node) : bool * option nat :=
  nd_loop node_diff_ix node1 node2 node1 false None.

(* ------------------------------------------------------------------ *)
(* DeltaGraph.insert_node                                              *)
(* ------------------------------------------------------------------ *)
Definition insert_step (n : node) (st : graph * bool) (node2 : node) : result (graph * bool) :=
  let (g, inserted) := st in
  match node_diff n node2 with
  | (true, Some i) => g' <- insert_edge g n node2 i ;; Ok (g', true)
  | (true, None) => Err "TypeError"   (* label None: not representable; proved unreachable *)
  | (false, _) => Ok (g, inserted)
  end.

Definition insert_node (g : graph) (n : node) : result graph :=
  let size := length n in
  match lookup Nat.eqb size g with
  | None => Ok (g ++ [(size, [(n, [])])])
  | Some bk =>
    if amem node_eqb n bk then Ok g
    else
      st <- fold_res (insert_step n) (keys bk) (g, false) ;;
      let (g', inserted) := st in
      if inserted then Ok g' else add_node g' size n
  end.

(* ------------------------------------------------------------------ *)
(* DeltaGraph.remove_index / remove_node / is_full                     *)
(* ------------------------------------------------------------------ *)
Definition remove_index (n : node) (index : nat) : node :=
  filter (fun d => negb (Nat.eqb (snd d) index)) n.

Definition count_nodes (g : graph) : nat :=
  fold_right (fun sb acc => length (snd sb) + acc) 0 g.

(* body of `for neighbor in neighbors:`; [rec] is the recursive call self.remove_node *)
Definition rn_step (rec : graph -> node -> nat -> result graph) (size : nat) (n : node) (index : nat)
           (g : graph) (neighbor : node) : result graph :=
  bk <- get_bucket g size ;;
  match lookup node_eqb neighbor bk with
  | None => Ok g                                   (* neighbor not in graph_dict[size] *)
  | Some nnb =>
    label <- of_opt (lookup node_eqb n nnb) KeyError ;;
    if Nat.eqb label index then rec g neighbor index
    else del_edge g size neighbor n
  end.

Fixpoint remove_node (fuel : nat) (g : graph) (n : node) (index : nat) : result graph :=
  match fuel with
  | 0 => Err "fuel"
  | S fuel' =>
    let size := length n in
    bk <- get_bucket g size ;;
    nb <- of_opt (lookup node_eqb n bk) KeyError ;;
    let neighbors := keys nb in
    g <- del_node g size n ;;
    fold_res (rn_step (remove_node fuel') size n index) neighbors g
  end.

(* fuel: every recursive call happens after a node was deleted, so 1 + number of nodes is enough
   (proved in DeltaGraph_proofs.remove_node_ok) *)
Definition remove_node_top (g : graph) (n : node) (index : nat) : result graph :=
  remove_node (S (count_nodes g)) g n index.

Definition is_full (degree : nat) (g : graph) (n : node) (size index : nat) : result bool :=
  bk <- get_bucket g size ;;
  src <- of_opt (lookup node_eqb n bk) KeyError ;;
  let adjacent := length (filter (fun e : node * nat => Nat.eqb (snd e) index) src) in
  (* adjacent == degree - 1 over Python ints (degree - 1 may be -1) *)
  Ok (Nat.eqb (S adjacent) degree).

(* ------------------------------------------------------------------ *)
(* DeltaGraph.fusion                                                   *)
(* ------------------------------------------------------------------ *)
Fixpoint insert_desc (x : nat) (l : list nat) : list nat :=
  match l with
  | [] => [x]
  | y :: t => if Nat.leb y x then x :: l else y :: insert_desc x t
  end.

(* sorted(keys, reverse=True) *)
Definition sort_desc (l : list nat) : list nat := fold_right insert_desc [] l.

Definition fusion_index (degree size : nat) (n : node) (g : graph) (index : nat) : result graph :=
  bk <- get_bucket g size ;;
  if amem node_eqb n bk then
    full <- is_full degree g n size index ;;
    if full then
      g <- remove_node_top g n index ;;
      insert_node g (remove_index n index)
    else Ok g
  else Ok g.

Definition fusion_node (degree size : nat) (g : graph) (n : node) : result graph :=
  fold_res (fusion_index degree size n) (map snd n) g.

Definition fusion_size (degree : nat) (g : graph) (size : nat) : result graph :=
  bk <- get_bucket g size ;;
  fold_res (fusion_node degree size) (keys bk) g.

Definition fusion (degree : nat) (g : graph) : result graph :=
  fold_res (fusion_size degree) (sort_desc (keys g)) g.

(* ------------------------------------------------------------------ *)
(* DeltaGraph.is_empty:  0 in graph_dict and graph_dict[0] == {(): {}} *)
(* ------------------------------------------------------------------ *)
Definition is_empty (g : graph) : bool :=
  match lookup Nat.eqb 0 g with
  | Some [([], [])] => true
  | _ => false
  end.

(* ------------------------------------------------------------------ *)
(* the object: degree, graph_dict, recorded (a Python set: order-free,  *)
(* kept here as a duplicate-free list; it never influences graph_dict) *)
(* ------------------------------------------------------------------ *)
Record dgraph := { dg_degree : nat; dg_graph : graph; dg_recorded : list node }.

Definition dg_new (degree : nat) : dgraph :=
  {| dg_degree := degree; dg_graph := []; dg_recorded := [] |}.

Definition record_node (n : node) (l : list node) : list node :=
  if existsb (node_eqb n) l then l else l ++ [n].

Definition from_monomial (d : dgraph) (deltas : node) : result dgraph :=
  g <- insert_node (dg_graph d) deltas ;;
  Ok {| dg_degree := dg_degree d; dg_graph := g;
        dg_recorded := record_node deltas (dg_recorded d) |}.

(* ------------------------------------------------------------------ *)
(* histories                                                           *)
(* ------------------------------------------------------------------ *)
Inductive op := Insert (n : node) | Fuse.

Definition step (degree : nat) (g : graph) (o : op) : result graph :=
  match o with
  | Insert n => insert_node g n
  | Fuse => fusion degree g
  end.

Definition run_from (degree : nat) (g : graph) (h : list op) : result graph :=
  fold_res (step degree) h g.

Definition run (degree : nat) (h : list op) : result graph := run_from degree [] h.

Definition inserted (h : list op) : list node :=
  flat_map (fun o => match o with Insert n => [n] | Fuse => [] end) h.

(* choice vector c matches node n:  every delta (v, i) of n has c i = v *)
Definition matches (n : node) (c : nat -> nat) : bool :=
  forallb (fun d => Nat.eqb (c (snd d)) (fst d)) n.

(* well-formed node of the analysis domain: deltas sorted by strictly
   increasing index (hence unique indices), values below degree *)
Fixpoint sorted_idx (n : node) : bool :=
  match n with
  | [] => true
  | d :: t => match t with
              | [] => true
              | d' :: _ => Nat.ltb (snd d) (snd d') && sorted_idx t
              end
  end.

Definition wf_node (degree : nat) (n : node) : bool :=
  sorted_idx n && forallb (fun d => Nat.ltb (fst d) degree) n.

Definition wf_op (degree : nat) (o : op) : bool :=
  match o with Insert n => wf_node degree n | Fuse => true end.

(* ------------------------------------------------------------------ *)
(* correspondence interface: a richer operation set (direct calls of   *)
(* the public methods), the observable after every operation           *)
(* ------------------------------------------------------------------ *)
Inductive cop :=
| CInsert (n : node)
| CFuse
| CFromMono (n : node)
| CRemoveNode (n : node) (index : nat)
| CInsertEdge (n1 n2 : node) (label : nat).

Definition cstep (d : dgraph) (o : cop) : result dgraph :=
  let upd g := Ok {| dg_degree := dg_degree d; dg_graph := g; dg_recorded := dg_recorded d |} in
  match o with
  | CInsert n => g <- insert_node (dg_graph d) n ;; upd g
  | CFuse => g <- fusion (dg_degree d) (dg_graph d) ;; upd g
  | CFromMono n => from_monomial d n
  | CRemoveNode n i => g <- remove_node_top (dg_graph d) n i ;; upd g
  | CInsertEdge a b l => g <- insert_edge (dg_graph d) a b l ;; upd g
  end.

(* expected observable after an operation, as produced by the real code:
   either the exception class name, or (graph_dict, is_empty, recorded sorted) *)
Inductive obs :=
| ORaise (e : string)
| OState (g : graph) (empty : bool) (rec : list node)
| OSame.    (* the real object is exactly as it was before this operation *)

Fixpoint list_eqb {A} (eqb : A -> A -> bool) (a b : list A) : bool :=
  match a, b with
  | [], [] => true
  | x :: a', y :: b' => eqb x y && list_eqb eqb a' b'
  | _, _ => false
  end.

Definition nbrs_eqb : nbrs -> nbrs -> bool :=
  list_eqb (fun x y => node_eqb (fst x) (fst y) && Nat.eqb (snd x) (snd y)).
Definition bucket_eqb : bucket -> bucket -> bool :=
  list_eqb (fun x y => node_eqb (fst x) (fst y) && nbrs_eqb (snd x) (snd y)).
Definition graph_eqb : graph -> graph -> bool :=
  list_eqb (fun x y => Nat.eqb (fst x) (fst y) && bucket_eqb (snd x) (snd y)).

Definition set_eqb (a b : list node) : bool :=
  forallb (fun x => existsb (node_eqb x) b) a && forallb (fun x => existsb (node_eqb x) a) b
  && Nat.eqb (length a) (length b).

Definition obs_ok (prev : dgraph) (r : result dgraph) (o : obs) : bool :=
  match r, o with
  | Err e, ORaise e' => String.eqb e e'
  | Ok d, OState g em rc =>
    graph_eqb (dg_graph d) g && Bool.eqb (is_empty (dg_graph d)) em && set_eqb (dg_recorded d) rc
  | Ok d, OSame =>
    graph_eqb (dg_graph d) (dg_graph prev) && set_eqb (dg_recorded d) (dg_recorded prev)
  | _, _ => false
  end.

(* run a history, comparing after every operation; the history ends at the
   first exception.  Result: index of the first disagreeing operation. *)
Fixpoint ccheck (d : dgraph) (h : list (cop * obs)) (k : nat) : option nat :=
  match h with
  | [] => None
  | (o, ob) :: t =>
    let r := cstep d o in
    if obs_ok d r ob then
      match r with Ok d' => ccheck d' t (S k) | Err _ => None end
    else Some k
  end.

(* a case = (degree, history with observations); failing = (case index, op index) *)
Fixpoint cbad (n : nat) (cases : list (nat * list (cop * obs))) : list (nat * nat) :=
  match cases with
  | [] => []
  | (deg, h) :: t =>
    match ccheck (dg_new deg) h 0 with
    | None => cbad (S n) t
    | Some k => (n, k) :: cbad (S n) t
    end
  end.

(* node_diff correspondence: (node1, node2, optional index, expected diff, expected index) *)
Definition nd_case := (node * node * option nat * bool * option nat)%type.
Definition opt_nat_eqb (a b : option nat) : bool :=
  match a, b with Some x, Some y => Nat.eqb x y | None, None => true | _, _ => false end.
Definition nd_ok (c : nd_case) : bool :=
  let '(n1, n2, ix, ed, ei) := c in
  let r := match ix with Some i => node_diff_ix n1 n2 i | None => node_diff n1 n2 end in
  Bool.eqb (fst r) ed && opt_nat_eqb (snd r) ei.
Fixpoint nd_bad (n : nat) (cases : list nd_case) : list nat :=
  match cases with
  | [] => []
  | c :: t => if nd_ok c then nd_bad (S n) t else n :: nd_bad (S n) t
  end.
