(* Reference-level (object identity) model of the part of pymwp in which aliasing matters:
   pymwp/monomial.py (copy, prod), pymwp/polynomial.py (copy, add, times, sort_monomials,
   remove_zeros, inclusion), pymwp/matrix.py (ZERO, UNIT, identity_matrix, matrix_sum, matrix_prod),
   pymwp/relation.py (fixpoint, while_correction, loop_correction).

   A Monomial OBJECT is a stamp: its index in the heap, i.e. its allocation order (the n-th call of
   Monomial.__init__ gets stamp n).  The heap maps a stamp to the current field values
   (scalar, deltas) of that object.  A Polynomial is the list of the stamps in its [.list]; a
   matrix is a list of rows of such lists.  Two polynomials alias a monomial iff they contain the
   same stamp.  Stamps 0 and 1 are the monomials of the module-level polynomials matrix.ZERO and
   matrix.UNIT, which identity_matrix / init_matrix / matrix_prod place BY REFERENCE in every matrix.

   Every function below threads the heap: reads of [mon.scalar]/[mon.deltas] are [hget], the
   in-place assignments [mon.scalar = ...] are [hset_sc], constructor calls are [halloc].
   The control flow is that of coq/theories/Poly.v / Rel.v (same shape, same fuel), with the
   value-level helpers of Poly.v (minclusion, compare, mprod, mono_copy, ssum) applied to what the
   heap currently holds.

   What is abstracted (see LEVEL_TEXT of tools/props/c13.py): identity of the Polynomial and list
   objects themselves (a polynomial is an immutable list of stamps here; in the Python the only
   list mutations are on lists created inside add/times/remove_zeros), the delta graph, variable
   names (fixpoint only needs their number; homogenisation is the identity when both variable lists
   are equal, which is the case inside Relation.fixpoint), the RelationList wrapper (one relation).
   No proofs here (RefModel_proofs.v). *)
From Coq Require Import List Bool Arith Lia.
From PM Require Import Semiring Poly Rel.
From PMGen Require Import RulesGen.
Import ListNotations.

Definition stamp := nat.
Definition heap := list mono.                    (* stamp -> (scalar, deltas) *)

Definition hget (h : heap) (s : stamp) : mono := nth s h (Mono O []).

(* Monomial(...) : a new object; its stamp is the number of objects allocated so far *)
Definition halloc (h : heap) (m : mono) : heap * stamp := (h ++ [m], length h).

(* mon.scalar = v *)
Definition hset_sc (h : heap) (s : stamp) (v : Sc) : heap := list_update h s (fun m => set_sc m v).

Definition ZERO_ST : stamp := 0.                 (* matrix.ZERO.list[0] *)
Definition UNIT_ST : stamp := 1.                 (* matrix.UNIT.list[0] *)
Definition heap0 : heap := [Mono O []; Mono M []].   (* the heap right after `import pymwp` *)

Definition rpoly := list stamp.                  (* Polynomial.list, by reference *)
Definition RZERO : rpoly := [ZERO_ST].
Definition RUNIT : rpoly := [UNIT_ST].

Definition view (h : heap) (p : rpoly) : poly := map (hget h) p.

(* ---------------- copy ---------------- *)

(* [m.copy() for m in self.list] *)
Fixpoint rcopy_list (h : heap) (p : rpoly) : heap * rpoly :=
  match p with
  | [] => (h, [])
  | s :: t =>
      let '(h1, c) := halloc h (mono_copy (hget h s)) in
      let '(h2, r) := rcopy_list h1 t in
      (h2, c :: r)
  end.

(* Polynomial( *monomials): Monomial.format returns a Monomial argument itself (by reference);
   an empty argument list gives a fresh [Monomial(o)] *)
Definition rmk_poly (h : heap) (l : rpoly) : heap * rpoly :=
  match l with
  | [] => let '(h1, z) := halloc h (Mono O []) in (h1, [z])
  | _ => (h, l)
  end.

(* Polynomial.copy *)
Definition rcopy (h : heap) (p : rpoly) : heap * rpoly :=
  let '(h1, l) := rcopy_list h p in rmk_poly h1 l.

(* ---------------- add ---------------- *)

(* Polynomial.inclusion(list_monom, mono, i): reads only; list_monom.remove(m) acts on a list
   that add/times created themselves *)
Fixpoint rincl_go (h : heap) (rest : rpoly) (mn : stamp) (j i : nat) (acc : rpoly)
  : bool * nat * rpoly :=
  match rest with
  | [] => (true, i, rev acc)
  | m :: t =>
      match minclusion (hget h m) (hget h mn) with
      | CONTAINS => rincl_go h t mn j (if Nat.ltb j i then i - 1 else i) acc
      | INCLUDED => (false, i, rev_append acc (m :: t))
      | EMPTYI => rincl_go h t mn (S j) i (m :: acc)
      end
  end.

Definition rincl (h : heap) (l : rpoly) (mn : stamp) (i : nat) : bool * nat * rpoly :=
  rincl_go h l mn 0 i [].

(* `for m in polynomial.list[j:]`: new_list = new_list + [m]  -- m itself, not a copy *)
Fixpoint radd_tail (h : heap) (new_list rest : rpoly) (i : nat) : rpoly :=
  match rest with
  | [] => new_list
  | m :: t =>
      let '(tobe, i', nl) := rincl h new_list m i in
      radd_tail h (if tobe then nl ++ [m] else nl) t i'
  end.

(* the main loop of add.  LARGER: new_list.insert(i, mono2) -- mono2 itself, not a copy.
   EQUAL: new_list[i].scalar = sum_mwp(...) -- an in-place write to the object at position i *)
Fixpoint radd_loop (fuel : nat) (h : heap) (new_list q : rpoly) (i : nat) : option (heap * rpoly) :=
  match fuel with
  | 0 => None
  | S fuel' =>
      match q with
      | [] => Some (h, new_list)
      | mono2 :: q' =>
          let '(tobe, i1, nl) := rincl h new_list mono2 i in
          if negb tobe then radd_loop fuel' h nl q' i1
          else if Nat.eqb i1 (length nl) then Some (h, radd_tail h nl q i1)
          else
            match nth_error nl i1 with
            | None => None
            | Some mono1 =>
                match compare (ds (hget h mono1)) (ds (hget h mono2)) with
                | SMALLER => radd_loop fuel' h nl q (S i1)
                | LARGER => radd_loop fuel' h (list_insert nl i1 mono2) q' (S i1)
                | EQUALC =>
                    radd_loop fuel' (hset_sc h mono1 (ssum (sc (hget h mono1)) (sc (hget h mono2))))
                              nl q' i1
                end
            end
      end
  end.

(* Polynomial.sort_monomials; EQUAL: `monomial = lhead; monomial.scalar = sum_mwp(...)` is an
   in-place write to lhead, whoever else holds it *)
Fixpoint rmerge_fuel (fuel : nat) (h : heap) (left right : rpoly) : heap * rpoly :=
  match fuel with
  | 0 => (h, right ++ left)
  | S f =>
      match left, right with
      | lh :: lt, rh :: rt =>
          match compare (ds (hget h lh)) (ds (hget h rh)) with
          | SMALLER => let '(h1, r) := rmerge_fuel f h lt right in (h1, lh :: r)
          | LARGER => let '(h1, r) := rmerge_fuel f h left rt in (h1, rh :: r)
          | EQUALC =>
              let s := ssum (sc (hget h lh)) (sc (hget h rh)) in
              let '(h2, r) := rmerge_fuel f (hset_sc h lh s) lt rt in
              (h2, match s with O => r | _ => lh :: r end)
          end
      | _, _ => (h, right ++ left)
      end
  end.

Definition rmerge (h : heap) (left right : rpoly) : heap * rpoly :=
  rmerge_fuel (length left + length right) h left right.

Fixpoint rsort_fuel (fuel : nat) (h : heap) (l : rpoly) : heap * rpoly :=
  match fuel with
  | 0 => (h, l)
  | S f =>
      match l with
      | [] | [_] => (h, l)
      | _ =>
          let mid := Nat.div2 (length l) in
          let '(h1, lft) := rsort_fuel f h (skipn mid l) in
          let '(h2, rgt) := rsort_fuel f h1 (firstn mid l) in
          rmerge h2 lft rgt
      end
  end.

Definition rsort_monomials (h : heap) (l : rpoly) : heap * rpoly := rsort_fuel (length l) h l.

(* Polynomial.remove_zeros (on the Polynomial object that add/times just created) *)
Definition rremove_zeros (h : heap) (l : rpoly) : heap * rpoly :=
  match filter (fun s => negb (is_O (sc (hget h s)))) l with
  | [] => let '(h1, z) := halloc h (Mono O []) in (h1, [z])
  | r => (h, r)
  end.

Definition radd_fuel_for (p q : rpoly) : nat := 2 * (length p + length q) + 2.   (* = Poly.add_fuel_for *)

(* Polynomial.add: new_list = self.copy().list (fresh objects); the monomials of the ARGUMENT
   enter the result by reference.  Out of fuel (impossible, same fuel as Poly.padd_opt) = (h, []) *)
Definition radd (h : heap) (p q : rpoly) : heap * rpoly :=
  match p, q with
  | [], [] => rmk_poly h []
  | [], _ => rcopy h q
  | _, [] => rcopy h p
  | _, _ =>
      let '(h1, nl0) := rcopy h p in
      match radd_loop (radd_fuel_for p q) h1 nl0 q 0 with
      | None => (h1, [])
      | Some (h2, nl) =>
          let '(h3, sorted) := rsort_monomials h2 nl in
          let '(h4, pl) := rmk_poly h3 sorted in
          rremove_zeros h4 pl
      end
  end.

(* ---------------- times ---------------- *)

(* [mono for mono in (m1 * m2 for m1 in self.list) if mono.scalar != o]: Monomial.prod copies self
   and then only touches the copy: one allocation holding the product value *)
Fixpoint rprod_row (h : heap) (p : rpoly) (m2 : stamp) : heap * rpoly :=
  match p with
  | [] => (h, [])
  | m1 :: t =>
      let '(h1, c) := halloc h (mprod (hget h m1) (hget h m2)) in
      let '(h2, r) := rprod_row h1 t m2 in
      (h2, if is_O (sc (hget h1 c)) then r else c :: r)
  end.

Fixpoint rproducts (h : heap) (p q : rpoly) : heap * list rpoly :=
  match q with
  | [] => (h, [])
  | m2 :: t =>
      let '(h1, row) := rprod_row h p m2 in
      let '(h2, rows) := rproducts h1 p t in
      (h2, row :: rows)
  end.

Fixpoint rinsert_row (h : heap) (row : rpoly) (rows : list rpoly) : list rpoly :=
  match rows with
  | [] => [row]
  | r :: rs =>
      match row, r with
      | m1 :: _, m2 :: _ =>
          match compare (ds (hget h m1)) (ds (hget h m2)) with
          | SMALLER => row :: rows
          | _ => r :: rinsert_row h row rs
          end
      | _, _ => r :: rinsert_row h row rs
      end
  end.

Definition rorder_rows (h : heap) (table : list rpoly) : list rpoly :=
  match table with
  | [] => []
  | r0 :: rest => fold_left (fun acc r => rinsert_row h r acc) rest [r0]
  end.

Fixpoint rmerge_rows (fuel : nat) (h : heap) (rows : list rpoly) (result : rpoly) : option rpoly :=
  match fuel with
  | 0 => match rows with [] => Some result | _ => None end
  | S f =>
      match rows with
      | [] => Some result
      | [] :: rest => rmerge_rows f h rest result
      | (m :: tl) :: rest =>
          let '(tobe, _, res1) := rincl h result m 0 in
          let res2 := if tobe then res1 ++ [m] else res1 in
          let rows' := match tl with [] => rest | _ => rinsert_row h tl rest end in
          rmerge_rows f h rows' res2
      end
  end.

Definition rtotal_len (rows : list rpoly) : nat := fold_right (fun r n => length r + n) 0 rows.

(* Polynomial.times: every monomial of the result was created by Monomial.prod in this call *)
Definition rtimes (h : heap) (p q : rpoly) : heap * rpoly :=
  let '(h1, prods) := rproducts h p q in
  let table := filter (fun r => negb (is_nil r)) prods in
  match table with
  | [] => rmk_poly h1 []
  | _ =>
      match rmerge_rows (rtotal_len table + 1) h1 (rorder_rows h1 table) [] with
      | None => (h1, [])
      | Some res => let '(h2, pl) := rmk_poly h1 res in rremove_zeros h2 pl
      end
  end.

(* ---------------- matrices ---------------- *)

Definition rmatrix := list (list rpoly).

Definition rmget (m : rmatrix) (i j : nat) : rpoly := nth j (nth i m []) [].

Definition rset_cell (m : rmatrix) (i j : nat) (p : rpoly) : rmatrix :=
  list_update m i (fun row => list_update row j (fun _ => p)).

(* identity_matrix: every cell IS matrix.UNIT / matrix.ZERO (no allocation) *)
Definition ridentity (n : nat) : rmatrix :=
  map (fun i => map (fun j => if Nat.eqb i j then RUNIT else RZERO) (seq 0 n)) (seq 0 n).

(* [[f(i,j) for j in js] for i in is_]: row-major evaluation order, the heap threaded through *)
Fixpoint rbuild_row (h : heap) (f : heap -> nat -> heap * rpoly) (js : list nat) : heap * list rpoly :=
  match js with
  | [] => (h, [])
  | j :: t =>
      let '(h1, c) := f h j in
      let '(h2, r) := rbuild_row h1 f t in
      (h2, c :: r)
  end.

Fixpoint rbuild (h : heap) (f : heap -> nat -> nat -> heap * rpoly) (is_ js : list nat) : heap * rmatrix :=
  match is_ with
  | [] => (h, [])
  | i :: t =>
      let '(h1, row) := rbuild_row h (fun h' j => f h' i j) js in
      let '(h2, rows) := rbuild h1 f t js in
      (h2, row :: rows)
  end.

(* matrix_sum: matrix1[i][j] + matrix2[i][j]  (matrix1's monomials are copied, matrix2's shared) *)
Definition rmatrix_sum (h : heap) (m1 m2 : rmatrix) : heap * rmatrix :=
  let n := length m1 in
  rbuild h (fun h' i j => radd h' (rmget m1 i j) (rmget m2 i j)) (seq 0 n) (seq 0 n).

(* reduce(lambda total, k: total + (m1[i][k] * m2[k][j]), range(len(m1)), ZERO): the accumulator
   starts as the shared ZERO polynomial and is always the LEFT (copied) operand of add *)
Definition rprod_entry (m1 m2 : rmatrix) (h : heap) (i j : nat) : heap * rpoly :=
  fold_left (fun '(h', total) k =>
               let '(h1, t) := rtimes h' (rmget m1 i k) (rmget m2 k j) in
               radd h1 total t)
            (seq 0 (length m1)) (h, RZERO).

Definition rmatrix_prod (h : heap) (m1 m2 : rmatrix) : heap * rmatrix :=
  rbuild h (rprod_entry m1 m2) (seq 0 (length m1)) (seq 0 (length m2)).

Definition vmat (h : heap) (m : rmatrix) : matrix := map (map (view h)) m.

(* ---------------- Relation.fixpoint ---------------- *)

(* while True: prev_fix.matrix = fix.matrix; current = current * self; fix = fix + current;
   if fix.equal(prev_fix): return fix.       None = out of fuel (non-termination) *)
Fixpoint rfix_loop (fuel : nat) (h : heap) (self fix_ current : rmatrix) : option (heap * rmatrix) :=
  match fuel with
  | 0 => None
  | S f =>
      let '(h1, current') := rmatrix_prod h current self in
      let '(h2, fix') := rmatrix_sum h1 fix_ current' in
      if mats_eqb (vmat h2 fix') (vmat h2 fix_) then Some (h2, fix')
      else rfix_loop f h2 self fix' current'
  end.

(* [n] = len(self.variables); fix, prev_fix and current all start on ONE identity matrix *)
Definition rfixpoint (fuel : nat) (h : heap) (n : nat) (self : rmatrix) : option (heap * rmatrix) :=
  let m := ridentity n in rfix_loop fuel h self m m.

(* ---------------- corrections ---------------- *)

(* for mon in poly.list: if W_BAD: mon.scalar = "i".   [w] = stamps written so far, in order *)
Fixpoint rw_mons (d : bool) (h : heap) (mons : rpoly) (w : list stamp) : heap * list stamp :=
  match mons with
  | [] => (h, w)
  | s :: t =>
      if W_BAD (sc (hget h s)) d then rw_mons d (hset_sc h s I) t (w ++ [s])
      else rw_mons d h t w
  end.

Definition rw_row (i : nat) (hw : heap * list stamp) (row : list rpoly) : heap * list stamp :=
  fold_left (fun '(h, w) '(j, p) => rw_mons (Nat.eqb i j) h p w)
            (combine (seq 0 (length row)) row) hw.

(* Relation.while_correction: returns the heap and the stamps whose scalar it assigned *)
Definition rwhile_correction (h : heap) (m : rmatrix) : heap * list stamp :=
  fold_left (fun hw '(i, row) => rw_row i hw row) (combine (seq 0 (length m)) m) (h, []).

(* loop_correction, the monomials of the cell visited at (i,j).  The cell at (ell,j) is REPLACED
   (self.matrix[ell][j] = self.matrix[ell][j].add(Polynomial(mon.copy()))) while the iteration
   goes on over the list object it started with *)
Fixpoint rl_mons (ell i j : nat) (mons : rpoly) (st : heap * rmatrix * list stamp)
  : heap * rmatrix * list stamp :=
  match mons with
  | [] => st
  | s :: t =>
      let '(h, m, w) := st in
      let d := Nat.eqb i j in
      let '(h1, w1) := if L_BAD (sc (hget h s)) d then (hset_sc h s I, w ++ [s]) else (h, w) in
      if L_PROPAGATE (sc (hget h1 s)) d then
        let '(h2, c) := halloc h1 (mono_copy (hget h1 s)) in
        let '(h3, r) := radd h2 (rmget m ell j) [c] in
        rl_mons ell i j t (h3, rset_cell m ell j r, w1)
      else rl_mons ell i j t (h1, m, w1)
  end.

(* `for j, poly in enumerate(vector)`: the row list is read at every step, so a cell replaced
   earlier in the same row is seen in its new state *)
Definition rl_cells (m0 : rmatrix) : list (nat * nat) :=
  flat_map (fun i => map (fun j => (i, j)) (seq 0 (length (nth i m0 [])))) (seq 0 (length m0)).

Definition rloop_correction (h : heap) (m : rmatrix) (ell : nat) : heap * rmatrix * list stamp :=
  fold_left (fun st '(i, j) => let '(_, mc, _) := st in rl_mons ell i j (rmget mc i j) st)
            (rl_cells m) (h, m, []).

(* ---------------- the two loop pipelines of analysis.py ---------------- *)

(* while_loop / do-while: relations.fixpoint(); relations.while_correction(dg) on the relation
   [body] that the composition of the loop body produced *)
Definition rwhile (fuel : nat) (h : heap) (n : nat) (body : rmatrix)
  : option (heap * rmatrix * list stamp) :=
  match rfixpoint fuel h n body with
  | None => None
  | Some (h1, fx) => let '(h2, w) := rwhile_correction h1 fx in Some (h2, fx, w)
  end.

(* for_loop: relations.fixpoint(); relations.loop_correction(x_var, dg) *)
Definition rfor (fuel : nat) (h : heap) (n : nat) (body : rmatrix) (ell : nat)
  : option (heap * rmatrix * list stamp) :=
  match rfixpoint fuel h n body with
  | None => None
  | Some (h1, fx) => Some (rloop_correction h1 fx ell)
  end.

Definition mat_stamps (m : rmatrix) : list stamp := concat (concat m).
