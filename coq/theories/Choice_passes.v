(* C04 -- every simplification pass of Choices.simplify preserves well-formedness and the set of
   accepted vectors of dom^n, whatever the iteration order of the Python sets. *)
From Coq Require Import List Arith Bool ZArith Lia Sorted.
From PM Require Import Choice Choice_base.
Import ListNotations.

Lemma filter_res_In {A} (f : A -> res bool) l r :
  filter_res f l = Ok r -> forall x, In x r <-> In x l /\ f x = Ok true.
Proof.
  revert r. induction l as [|a t IH]; simpl; intros r H x.
  - inversion H; subst. simpl. tauto.
  - destruct (f a) as [b|e] eqn:Ef; [|discriminate].
    destruct (filter_res f t) as [r'|e] eqn:Er; [|discriminate].
    inversion H; subst. specialize (IH _ eq_refl x).
    destruct b; simpl; rewrite IH; split.
    + intros [->|[H1 H2]]; auto.
    + intros [[->|H1] H2]; auto.
    + intros [H1 H2]; auto.
    + intros [[->|H1] H2]; [congruence | auto].
Qed.

(* ---------- _reduce, generic in the direction ---------- *)

Section Reduce.
  Context (sub_eq : dseq -> dseq -> res bool) (get_ : dseq -> nat) (keep_ : dseq -> dseq)
          (ix : dseq -> nat) (dom : list nat) (n : nat).
  Context (H_shape : forall s1 s2, 1 < length s1 -> sub_eq s1 s2 = Ok true ->
                       forall d, In d s2 <-> d = (get_ s2, ix s1) \/ In d (keep_ s1)).
  Context (H_ix : forall s1, wf_seq dom n s1 -> ix s1 < n).
  Context (H_keep_wf : forall s1, wf_seq dom n s1 -> 1 < length s1 -> wf_seq dom n (keep_ s1)).

  Lemma reduce_loop_ok cands S S' :
    reduce_loop sub_eq get_ keep_ dom cands S = Ok (Some S') ->
    (forall s, In s cands -> In s S /\ 1 < length s) -> wf_seqs dom n S ->
    wf_seqs dom n S' /\ equiv_on dom n S S'.
  Proof.
    induction cands as [|s1 rest IH]; simpl; intros H Hc Hw; [discriminate|].
    destruct (filter_res (sub_eq s1) S) as [ms|e] eqn:Ef; [|discriminate].
    destruct (set_eqb Nat.eqb (map get_ ms) dom) eqn:Es.
    2:{ apply IH; [exact H | | exact Hw]. intros s Hs. apply Hc. now right. }
    inversion H; subst S'; clear H IH.
    destruct (Hc s1 (or_introl eq_refl)) as [Hs1 Hl1].
    pose proof (Hw s1 Hs1) as Hw1.
    apply (set_eqb_spec _ Nat.eqb_eq) in Es.
    pose proof (filter_res_In _ _ _ Ef) as Hms.
    split.
    - intros s Hs. apply (set_add_In _ dseq_eqb_eq) in Hs. destruct Hs as [->|Hs].
      + now apply H_keep_wf.
      + apply remove_subset_In in Hs. apply Hw, Hs.
    - intros v Hv. split; intros Ha s Hs.
      + apply (set_add_In _ dseq_eqb_eq) in Hs. destruct Hs as [->|Hs].
        2:{ apply remove_subset_In in Hs. apply Ha, Hs. }
        destruct (smatch v (keep_ s1)) eqn:Em; [|reflexivity]. exfalso.
        destruct (vec_in_nth _ _ _ (ix s1) Hv (H_ix _ Hw1)) as [x [Hx Hxd]].
        apply Es in Hxd. apply in_map_iff in Hxd. destruct Hxd as [s2 [Hg Hs2]].
        apply Hms in Hs2. destruct Hs2 as [Hs2 Hse].
        assert (smatch v s2 = true) as Hm2.
        { apply smatch_true. intros d Hd. apply (H_shape _ _ Hl1 Hse) in Hd. destruct Hd as [->|Hd].
          - unfold dmatch. simpl. rewrite Hx, Hg. apply Nat.eqb_refl.
          - rewrite smatch_true in Em. apply Em, Hd. }
        rewrite (Ha _ Hs2) in Hm2. discriminate.
      + destruct (subset_b (keep_ s1) s) eqn:Esub.
        * apply subset_b_spec in Esub.
          destruct (smatch v s) eqn:Em; [|reflexivity].
          apply (smatch_incl _ _ _ Esub) in Em.
          rewrite Ha in Em; [discriminate|]. apply (set_add_In _ dseq_eqb_eq). now left.
        * apply Ha. apply (set_add_In _ dseq_eqb_eq). right. apply remove_subset_In. split; [exact Hs|].
          rewrite <- subset_b_spec. congruence.
  Qed.

  Lemma _reduce_ok S S' :
    _reduce sub_eq get_ keep_ dom S = Ok (Some S') -> wf_seqs dom n S ->
    wf_seqs dom n S' /\ equiv_on dom n S S'.
  Proof.
    unfold _reduce. intros H Hw. eapply reduce_loop_ok; eauto.
    intros s Hs. apply filter_In in Hs. destruct Hs as [Hs Hl]. apply Nat.ltb_lt in Hl. auto.
  Qed.
End Reduce.

Lemma reduce_ok dom n S S' :
  reduce dom S = Ok (Some S') -> wf_seqs dom n S -> wf_seqs dom n S' /\ equiv_on dom n S S'.
Proof.
  unfold reduce. apply (_reduce_ok _ _ _ (fun s => snd (hd (0, 0) s))).
  - intros [|[a i1] t1] [|[b i2] t2] Hl H d; simpl in *; try discriminate.
    inversion H as [E]. apply andb_true_iff in E. destruct E as [E1 E2].
    apply Nat.eqb_eq in E1. apply dseq_eqb_eq in E2. subst. intuition.
  - intros s1 (Hne & _ & Hf). destruct s1 as [|d t]; [congruence|]. simpl.
    apply Forall_inv in Hf. tauto.
  - intros s1. apply wf_seq_tl.
Qed.

Lemma last_In {A} (l : list A) d : l <> [] -> In (last l d) l.
Proof.
  induction l as [|a t IH]; [congruence|]. intros _. destruct t as [|b t]; [now left|].
  right. apply IH. discriminate.
Qed.

Lemma reduce_end_ok dom n S S' :
  reduce_end dom S = Ok (Some S') -> wf_seqs dom n S -> wf_seqs dom n S' /\ equiv_on dom n S S'.
Proof.
  unfold reduce_end. apply (_reduce_ok _ _ _ (fun s => snd (last s (0, 0)))).
  - intros s1 s2 Hl H d. unfold sub_equal_end in H.
    assert (s2 <> [] /\ snd (last s1 (0, 0)) = snd (last s2 (0, 0)) /\ removelast s1 = removelast s2)
      as (N2 & E1 & E2).
    { destruct s1 as [|a1 t1]; [discriminate|]. destruct s2 as [|a2 t2]; [discriminate|].
      inversion H as [E]. apply andb_true_iff in E. destruct E as [E1 E2].
      apply Nat.eqb_eq in E1. apply dseq_eqb_eq in E2.
      split; [discriminate|]. split; [exact E1 | exact E2]. }
    cbv beta. rewrite E2, E1.
    rewrite (app_removelast_last (0, 0) N2) at 1.
    rewrite in_app_iff. simpl. rewrite <- surjective_pairing. intuition.
  - intros s1 (Hne & _ & Hf). rewrite Forall_forall in Hf. apply (Hf _ (last_In _ _ Hne)).
  - intros s1. apply wf_seq_removelast.
Qed.

(* ---------- the `while reduce(...)` loops ---------- *)

Lemma while_reduce_ok rd ord key dom n :
  (forall S S', rd S = Ok (Some S') -> wf_seqs dom n S -> wf_seqs dom n S' /\ equiv_on dom n S S') ->
  ord_ok ord -> forall fuel S S',
  while_reduce rd ord key fuel S = Ok S' -> wf_seqs dom n S ->
  wf_seqs dom n S' /\ equiv_on dom n S S'.
Proof.
  intros Hrd Hord. induction fuel as [|f IH]; simpl; intros S S' H Hw; [discriminate|].
  destruct (rd (ord (f :: key) S)) as [[S1|]|e] eqn:E; try discriminate.
  - assert (wf_seqs dom n (ord (f :: key) S)) as Hw0.
    { eapply wf_seqs_same_set; [|exact Hw]. intros x. symmetry. apply Hord. }
    destruct (Hrd _ _ E Hw0) as [Hw1 He1].
    destruct (IH _ _ H Hw1) as [Hw2 He2]. split; [exact Hw2|].
    eapply equiv_on_trans; [|exact He2]. eapply equiv_on_trans; [|exact He1].
    apply equiv_on_same_set. intros x. symmetry. apply Hord.
  - inversion H; subst. split; [exact Hw | apply equiv_on_refl].
Qed.

(* ---------- unique_sequences ---------- *)

Lemma uniq_loop_spec fuel l : length l <= fuel ->
  (forall r, In r (uniq_loop fuel l) -> In r l) /\
  (forall s, In s l -> exists r, In r (uniq_loop fuel l) /\ incl r s).
Proof.
  revert l. induction fuel as [|f IH]; intros l Hl.
  - destruct l; simpl in *; [|lia]. split; [tauto | intros s []].
  - destruct l as [|x t]; simpl in *; [split; [tauto | intros s []]|].
    assert (length (remove_subset x t) <= f) as Hl'.
    { unfold remove_subset. pose proof (filter_length_le' (fun item => negb (subset_b x item)) t). lia. }
    destruct (IH _ Hl') as [H1 H2]. split.
    + intros r [->|Hr]; [now left|]. right. apply H1 in Hr. apply remove_subset_In in Hr. tauto.
    + intros s [->|Hs].
      * exists s. split; [now left | apply incl_refl].
      * destruct (subset_b x s) eqn:E.
        -- exists x. split; [now left | now apply subset_b_spec].
        -- destruct (H2 s) as [r [Hr Hi]].
           { apply remove_subset_In. split; [exact Hs|]. rewrite <- subset_b_spec. congruence. }
           exists r. split; [now right | exact Hi].
Qed.

Lemma unique_sequences_spec S :
  (forall r, In r (unique_sequences S) -> In r S) /\
  (forall s, In s S -> exists r, In r (unique_sequences S) /\ incl r s).
Proof.
  unfold unique_sequences.
  destruct (uniq_loop_spec (length (sort_by_len S)) (sort_by_len S) (le_n _)) as [H1 H2]. split.
  - intros r Hr. apply sort_by_len_same, H1, Hr.
  - intros s Hs. apply H2, sort_by_len_same, Hs.
Qed.

Lemma unique_sequences_accepted S v : accepted (unique_sequences S) v <-> accepted S v.
Proof.
  destruct (unique_sequences_spec S) as [H1 H2]. split; intros Ha s Hs.
  - destruct (H2 s Hs) as [r [Hr Hi]]. destruct (smatch v s) eqn:Em; [|reflexivity].
    apply (smatch_incl _ _ _ Hi) in Em. rewrite (Ha r Hr) in Em. discriminate.
  - apply Ha, H1, Hs.
Qed.

Lemma unique_sequences_ok dom n S :
  wf_seqs dom n S -> wf_seqs dom n (unique_sequences S) /\ equiv_on dom n S (unique_sequences S).
Proof.
  intros Hw. split.
  - intros s Hs. apply Hw. now apply unique_sequences_spec.
  - intros v _. symmetry. apply unique_sequences_accepted.
Qed.

(* ---------- except_one ---------- *)

Section ExceptOne.
  Context (dom : list nat) (n : nat).

  (* every vector of dom^n whose value at idx is not c is rejected by a singleton of T *)
  Definition pins (T : list dseq) (c idx : nat) : Prop :=
    idx < n /\ forall x, In x dom -> x <> c -> In [(x, idx)] T.

  Definition strip (f0 : delta) (p : dseq) : dseq := filter (fun x => negb (delta_eqb x f0)) p.

  Lemma strip_match v c idx p :
    smatch v p = true <-> smatch v (strip (c, idx) p) = true /\ (In (c, idx) p -> dmatch v (c, idx) = true).
  Proof.
    rewrite !smatch_true. unfold strip. split.
    - intros H. split; [|intros Hi; apply H, Hi]. intros d Hd. apply filter_In in Hd. apply H, Hd.
    - intros [H1 H2] d Hd. destruct (delta_eqb d (c, idx)) eqn:E.
      + apply delta_eqb_eq in E. subst. apply H2, Hd.
      + apply H1. apply filter_In. split; [exact Hd|]. now rewrite E.
  Qed.

  (* the inner `for p in [...]` loop, relative to the set S0 it started from *)
  Lemma except_fold_ok c idx S0 sel acc :
    (forall p, In p sel -> In p S0 /\ In (c, idx) p /\ 1 < length p) ->
    wf_seqs dom n S0 -> wf_seqs dom n acc -> equiv_on dom n S0 acc ->
    pins acc c idx ->
    (forall s, In s S0 -> length s = 1 -> In s acc) ->
    let out := fold_left (fun acc p => set_remove dseq_eqb p (set_add dseq_eqb (strip (c, idx) p) acc)) sel acc in
    wf_seqs dom n out /\ equiv_on dom n S0 out /\ (forall s, In s S0 -> length s = 1 -> In s out).
  Proof.
    revert acc. induction sel as [|p sel IH]; simpl; intros acc Hsel Hw0 Hw He Hp Hsing; [auto|].
    destruct (Hsel p (or_introl eq_refl)) as (HpS & Hcp & Hlp).
    set (acc' := set_remove dseq_eqb p (set_add dseq_eqb (strip (c, idx) p) acc)).
    assert (forall s, In s acc' <-> (s = strip (c, idx) p \/ In s acc) /\ s <> p) as Hin.
    { intros s. unfold acc'. rewrite (set_remove_In _ dseq_eqb_eq), (set_add_In _ dseq_eqb_eq). tauto. }
    assert (forall s, In s acc -> length s = 1 -> In s acc') as Hkeep.
    { intros s Hs Hl. apply Hin. split; [now right|]. intros ->. unfold dseq, delta in *. lia. }
    apply IH.
    - intros q Hq. apply Hsel. now right.
    - exact Hw0.
    - intros s Hs. apply Hin in Hs. destruct Hs as [[->|Hs] _]; [|now apply Hw].
      apply wf_seq_strip; [now apply Hw0 | exact Hlp].
    - eapply equiv_on_trans; [exact He|]. intros v Hv. split; intros Ha s Hs.
      + apply Hin in Hs. destruct Hs as [[->|Hs] _]; [|now apply Ha].
        destruct (smatch v (strip (c, idx) p)) eqn:Em; [|reflexivity]. exfalso.
        destruct Hp as [Hidx Hp].
        destruct (vec_in_nth _ _ _ idx Hv Hidx) as [x [Hx Hxd]].
        destruct (Nat.eq_dec x c) as [->|Hne].
        * (* then p itself matches v, and p is in S0 *)
          assert (smatch v p = true) as Hm.
          { apply (strip_match v c idx p). split; [exact Em|]. intros _. unfold dmatch. simpl.
            rewrite Hx. apply Nat.eqb_refl. }
          assert (accepted S0 v) as Ha0 by (apply (He v Hv); exact Ha).
          rewrite (Ha0 p HpS) in Hm. discriminate.
        * specialize (Ha _ (Hp x Hxd Hne)). unfold smatch, dmatch in Ha. simpl in Ha.
          rewrite Hx, Nat.eqb_refl in Ha. discriminate.
      + destruct (dseq_eqb s p) eqn:Esp.
        * apply dseq_eqb_eq in Esp. subst s.
          destruct (smatch v p) eqn:Em; [|reflexivity].
          apply (strip_match v c idx p) in Em. destruct Em as [Em _].
          rewrite Ha in Em; [discriminate|]. apply Hin. split; [now left|].
          intros E. assert (In (c, idx) (strip (c, idx) p)) as Hc by (rewrite E; exact Hcp).
          unfold strip in Hc. apply filter_In in Hc. destruct Hc as [_ Hc].
          assert (delta_eqb (c, idx) (c, idx) = true) by now apply delta_eqb_eq.
          rewrite H in Hc. discriminate.
        * apply Ha. apply Hin. split; [now right|]. intros ->.
          assert (dseq_eqb p p = true) by now apply dseq_eqb_eq. congruence.
    - destruct Hp as [Hidx Hp]. split; [exact Hidx|]. intros x Hx Hne. apply Hkeep; [now apply Hp | reflexivity].
    - intros s Hs Hl. apply Hkeep; [now apply Hsing | exact Hl].
  Qed.

  Lemma except_loop_ok l1 S0 :
    forall S, wf_seqs dom n S0 -> wf_seqs dom n S -> equiv_on dom n S0 S ->
    (forall d, In d l1 -> In [d] S) ->
    wf_seqs dom n (except_loop dom l1 S) /\ equiv_on dom n S0 (except_loop dom l1 S).
  Proof.
    induction l1 as [|[v idx] t IH]; simpl; intros S Hw0 Hw He Hl; [auto|].
    set (find := map (fun c => (c, idx))
                   (filter (fun c => negb (c =? v) &&
                      negb (memb Nat.eqb c (map fst (filter (fun itm => snd itm =? idx) t)))) dom)).
    assert (forall d, In d t -> In [d] S) as Ht by (intros d Hd; apply Hl; now right).
    destruct find as [|f0 [|f1 find']] eqn:Ef; try solve [apply IH; auto].
    (* exactly one candidate *)
    assert (exists c, f0 = (c, idx) /\ pins S c idx) as [c [-> Hp]].
    { unfold find in Ef.
      destruct (filter _ dom) as [|c [|c' r]] eqn:Efd; simpl in Ef; try discriminate.
      inversion Ef; subst f0. exists c. split; [reflexivity|]. split.
      - assert (wf_seq dom n [(v, idx)]) as Hwv by (apply Hw, Hl; now left).
        destruct Hwv as (_ & _ & Hf). apply Forall_inv in Hf. simpl in Hf. tauto.
      - intros x Hx Hne.
        destruct (Nat.eq_dec x v) as [->|Hxv]; [apply Hl; now left|].
        destruct (memb Nat.eqb x (map fst (filter (fun itm => snd itm =? idx) t))) eqn:Em.
        + apply (memb_In _ Nat.eqb_eq) in Em. apply in_map_iff in Em. destruct Em as [[x' i'] [Hx' Hi']].
          simpl in Hx'. subst x'. apply filter_In in Hi'. destruct Hi' as [Hi' Hii]. simpl in Hii.
          apply Nat.eqb_eq in Hii. subst i'. now apply Ht.
        + exfalso. assert (In x (c :: nil)) as Hin.
          { rewrite <- Efd. apply filter_In. split; [exact Hx|]. rewrite Em.
            apply Nat.eqb_neq in Hxv. rewrite Hxv. reflexivity. }
          destruct Hin as [->|[]]. congruence. }
    set (sel := filter (fun s => memb delta_eqb (c, idx) s && (1 <? length s)) S).
    destruct (except_fold_ok c idx S sel S) as (Hw' & He' & Hs'); auto.
    - intros p Hp'. apply filter_In in Hp'. destruct Hp' as [HpS Hb]. apply andb_true_iff in Hb.
      destruct Hb as [Hb1 Hb2]. apply (memb_In _ delta_eqb_eq) in Hb1. apply Nat.ltb_lt in Hb2. auto.
    - apply equiv_on_refl.
    - apply IH; [exact Hw0 | exact Hw' | eapply equiv_on_trans; [exact He | exact He'] |].
      intros d Hd. apply Hs'; [now apply Ht | reflexivity].
  Qed.

  Lemma except_one_ok S :
    wf_seqs dom n S -> wf_seqs dom n (except_one dom S) /\ equiv_on dom n S (except_one dom S).
  Proof.
    intros Hw. unfold except_one. apply except_loop_ok; auto; [apply equiv_on_refl|].
    intros d Hd. apply in_map_iff in Hd. destruct Hd as [s [Hh Hs]]. apply filter_In in Hs.
    destruct Hs as [Hs Hl]. apply Nat.eqb_eq in Hl.
    destruct s as [|a [|b t]]; simpl in *; try discriminate. subst. exact Hs.
  Qed.
End ExceptOne.

(* ---------- simplify ---------- *)

Lemma simplify_loop_ok ord ifuel dom n : ord_ok ord -> forall fuel S S',
  simplify_loop ord ifuel dom fuel S = Ok S' -> wf_seqs dom n S ->
  wf_seqs dom n S' /\ equiv_on dom n S S'.
Proof.
  intros Hord. induction fuel as [|f IH]; simpl; intros S S' H Hw; [discriminate|].
  destruct (while_reduce (reduce dom) ord [0; f] ifuel S) as [S1|e] eqn:E1; [|discriminate].
  simpl in H.
  destruct (while_reduce (reduce_end dom) ord [1; f] ifuel S1) as [S2|e] eqn:E2; [|discriminate].
  simpl in H.
  destruct (while_reduce_ok _ ord _ dom n (reduce_ok dom n) Hord _ _ _ E1 Hw) as [Hw1 He1].
  destruct (while_reduce_ok _ ord _ dom n (reduce_end_ok dom n) Hord _ _ _ E2 Hw1) as [Hw2 He2].
  assert (wf_seqs dom n (ord [2; f] S2)) as Hw2'.
  { eapply wf_seqs_same_set; [|exact Hw2]. intros x. symmetry. apply Hord. }
  destruct (unique_sequences_ok dom n _ Hw2') as [Hw3 He3].
  set (S3 := unique_sequences (ord [2; f] S2)) in *.
  assert (wf_seqs dom n (ord [3; f] S3)) as Hw3'.
  { eapply wf_seqs_same_set; [|exact Hw3]. intros x. symmetry. apply Hord. }
  destruct (except_one_ok dom n _ Hw3') as [Hw4 He4].
  set (S4 := except_one dom (ord [3; f] S3)) in *.
  assert (equiv_on dom n S S4) as He.
  { eapply equiv_on_trans; [exact He1|]. eapply equiv_on_trans; [exact He2|].
    eapply equiv_on_trans; [apply equiv_on_same_set; intros x; symmetry; apply Hord|].
    eapply equiv_on_trans; [exact He3|].
    eapply equiv_on_trans; [apply equiv_on_same_set; intros x; symmetry; apply Hord|].
    exact He4. }
  destruct ((length S =? length S4) || (length S4 =? 0)).
  - inversion H; subst. auto.
  - destruct (IH _ _ H Hw4) as [Hw5 He5]. split; [exact Hw5|].
    eapply equiv_on_trans; [exact He | exact He5].
Qed.

Lemma simplify_ok ord fuel dom n S S' : ord_ok ord ->
  simplify ord fuel dom S = Ok S' -> wf_seqs dom n S ->
  wf_seqs dom n S' /\ equiv_on dom n S S'.
Proof. intros Hord. apply simplify_loop_ok, Hord. Qed.
