(* C06, Coq part: the Err-instrumented analysis model (Analysis.v) raises no "real" error.

   Analysis.compute returns [RErr] exactly where the Python would raise:
     "AssertionError:create_vector"  (operator outside BIN_OPS),
     "IndexError:replace_column"     (vector longer than the variable list),
     "ValueError:loop_correction"    (the guard variable is not a variable of the relation),
     "KeyError" / "TypeError" / "fuel" from the delta graph (DeltaGraph.v),
   plus the two ARTIFICIAL errors of the model: "fuel" (nesting deeper than the recursion fuel) and
   "fuel:fixpoint" (the closure iteration of Relation.fixpoint did not stabilise within [fix_fuel]
   rounds).

   Proved here, for every statement whose binary operators are in BIN_OPS ([ops_ok]) and whose
   names are proper identifiers ([names_ne]: the reader never produces the empty name; the model uses
   it for "constant operand"), every fuel, index and every delta graph satisfying An_stmts.dg_inv:

     compute_no_spurious_error : compute returns ROk, RErr "fuel" or RErr "fuel:fixpoint";
     fuel_sufficient_nesting   : with  depth s < fuel  only ROk or RErr "fuel:fixpoint";
     analyse_no_spurious_error : the same for cmds / analyse (function level).

   NOT proved: termination of Relation.fixpoint on polynomials -- the theorems leave
   RErr "fuel:fixpoint" open (the real `while fix != prev` loop is only observed to stop by the
   differential runs of tools/props/c06.py).  The dispatch over arbitrary pycparser node classes and
   the removal pass (Coverage / ast_mod / Variables / FindLoops) are not in this typed model: they
   are the Syntax.v model of C05/C07/C19 plus the fuzzing of the real tool in tools/props/c06.py.

   The induction carries the light-weight invariant [cr_ok] (reachable delta graph; well-formed
   relation with sorted deltas and delta values < 3), which is what the delta-graph operations and
   the L correction need in order not to raise. *)
From Coq Require Import String List Bool Arith Lia.
From PM Require Import Semiring Poly Poly_sem Rel Analysis Calculus Rel_sem Sem_stmts An_stmts.
From PM Require DeltaGraph DeltaGraph_proofs Poly_wf Rel_ops Rel_ops_closed Rel_fix_closed
  Rel_corr_base Rel_corr Rel_dom An_leaf An_main_aux An_close_dg Calc_alg.
From PMGen Require Import RulesGen.
Import ListNotations.
Open Scope list_scope.

Module DG := DeltaGraph.

(* ------------------------------------------------------------------ *)
(* hypotheses on statements                                            *)
(* ------------------------------------------------------------------ *)

(* every binary operator is one of BIN_OPS (what Coverage.BinaryOp lets through) *)
Fixpoint ops_ok (s : stmt) : bool :=
  match s with
  | SBin _ op _ _ => mem_strb op BIN_OPS
  | SIf t e => forallb ops_ok t && forallb ops_ok e
  | SWhile _ b => ops_ok b
  | SFor _ _ _ _ b => ops_ok b
  | SBlock l => forallb ops_ok l
  | _ => true
  end.

(* names are non-empty (C identifiers) *)
Definition names_ne (s : stmt) : Prop := forall v, In v (stmt_vars s) -> v <> EmptyString.

(* nesting depth, counting the rewriting step of unary_asgn (x = y++ becomes a two-statement block) *)
Fixpoint depth (s : stmt) : nat :=
  match s with
  | SUnAsg _ _ _ => 2
  | SIf t e => S (Nat.max (fold_right (fun s acc => Nat.max (depth s) acc) 0 t)
                          (fold_right (fun s acc => Nat.max (depth s) acc) 0 e))
  | SWhile _ b => S (depth b)
  | SFor _ _ _ _ b => S (depth b)
  | SBlock l => S (fold_right (fun s acc => Nat.max (depth s) acc) 0 l)
  | _ => 0
  end.

Definition depth_list (l : list stmt) : nat := fold_right (fun s acc => Nat.max (depth s) acc) 0 l.

Lemma depth_in l s : In s l -> depth s <= depth_list l.
Proof.
  induction l as [|a l IH]; intros H; [destruct H|]. unfold depth_list in *. cbn [fold_right].
  destruct H as [->|H]; [lia|]. specialize (IH H). lia.
Qed.

(* ------------------------------------------------------------------ *)
(* the invariant                                                       *)
(* ------------------------------------------------------------------ *)

Definition rel3 (r : rel) : Prop := wf_rel r /\ rel_pwf r /\ rel_dom r.

Definition cr_ok (r : cr) : Prop := dg_inv (cr_dg r) /\ rel3 (cr_rel r).

(* strict = true: the nesting fuel is known to suffice, only the fixpoint fuel may run out *)
Definition benign (strict : bool) (e : string) : Prop :=
  e = "fuel:fixpoint"%string \/ (strict = false /\ e = "fuel"%string).

Definition good (strict : bool) (r : res cr) : Prop :=
  match r with ROk r => cr_ok r | RErr e => benign strict e end.

Lemma good_bind strict (a : res cr) (f : cr -> res cr) :
  good strict a -> (forall r, a = ROk r -> cr_ok r -> good strict (f r)) -> good strict (rbind a f).
Proof. intros Ha Hf. destruct a as [r|e]; cbn [rbind]; [apply Hf; [reflexivity|exact Ha] | exact Ha]. Qed.

(* ------------------------------------------------------------------ *)
(* relations                                                           *)
(* ------------------------------------------------------------------ *)

Lemma wf_rel_empty : wf_rel rel_empty.
Proof.
  change rel_empty with (Rel [] []). unfold wf_rel. cbn [rvars rmat length].
  repeat split; constructor.
Qed.

Lemma rel3_empty : rel3 rel_empty.
Proof. split; [exact wf_rel_empty|]. split; [constructor | exact Rel_dom.rel_dom_empty]. Qed.

Lemma rel3_comp a b : rel3 a -> rel3 b -> rel3 (rel_comp a b).
Proof.
  intros (Wa & Pa & Da) (Wb & Pb & Db).
  destruct (Rel_ops_closed.rel_comp_sem a b Wa Wb Pa Pb) as (W & P & _).
  split; [exact W|]. split; [exact P|]. apply Rel_dom.rel_dom_comp; assumption.
Qed.

Lemma rel3_sum a b : rel3 a -> rel3 b -> rel3 (rel_sum a b).
Proof.
  intros (Wa & Pa & Da) (Wb & Pb & Db).
  destruct (Rel_ops_closed.rel_sum_sem a b Wa Wb) as (W & _ & _ & P).
  split; [exact W|]. split; [exact (P Pa Pb)|]. apply Rel_dom.rel_dom_sum; assumption.
Qed.

Lemma rel3_zero1 x : x <> EmptyString -> rel3 (rel_zero [x]).
Proof.
  intros Hx.
  destruct (An_leaf.an_constant_sem 0 x (DG.dg_new 3) [] Hx) as [H _].
  unfold an_constant, leaf_ok in H. cbn [cr_rel] in H.
  destruct H as (_ & _ & _ & W & P & _).
  split; [exact W|]. split; [exact P|]. apply Rel_dom.rel_dom_zero.
Qed.

Lemma rel_comp_zero_var x b : x <> EmptyString -> rel3 b -> In x (rvars (rel_comp (rel_zero [x]) b)).
Proof.
  intros Hx (Wb & Pb & _). destruct (rel3_zero1 x Hx) as (Wz & Pz & _).
  destruct (Rel_ops_closed.rel_comp_sem (rel_zero [x]) b Wz Wb Pz Pb) as (_ & _ & Vs & _).
  apply Vs. left. rewrite (An_leaf.rel_zero_single x Hx). left; reflexivity.
Qed.

(* ------------------------------------------------------------------ *)
(* the delta lists recorded by the two corrections are sorted           *)
(* (same argument as in An_close.v, repeated here so that this file     *)
(*  depends on closed files only)                                       *)
(* ------------------------------------------------------------------ *)

Lemma corr_cell_rec_sorted bad p s : pwf p -> In s (snd (corr_cell bad p)) -> dsorted s.
Proof.
  intros [_ Hp] H. apply Rel_corr_base.corr_cell_snd_In in H. destruct H as [m [Hm [_ <-]]].
  rewrite Forall_forall in Hp. apply (Hp m Hm).
Qed.

Lemma while_rec_sorted r s : rel_pwf r -> In s (snd (while_correction r)) -> dsorted s.
Proof.
  intros Hp H. unfold while_correction in H. cbv zeta in H. cbn [snd] in H.
  apply in_concat in H. destruct H as [l [Hl Hs]].
  apply in_map_iff in Hl. destruct Hl as [crow [<- Hcrow]].
  apply in_map_iff in Hcrow. destruct Hcrow as [[i row] [<- Hir]]. apply in_combine_r in Hir.
  apply in_concat in Hs. destruct Hs as [l2 [Hl2 Hs]].
  apply in_map_iff in Hl2. destruct Hl2 as [cc [<- Hcc]].
  apply in_map_iff in Hcc. destruct Hcc as [[j p] [<- Hjp]]. apply in_combine_r in Hjp.
  eapply corr_cell_rec_sorted; [|exact Hs].
  unfold rel_pwf in Hp. rewrite Forall_forall in Hp. specialize (Hp _ Hir).
  rewrite Forall_forall in Hp. apply Hp. exact Hjp.
Qed.

Definition mxP (m : matrix) : Prop := Forall (fun row => Forall pwf row) m.

Lemma set_cell_mxP m i j p : mxP m -> pwf p -> mxP (set_cell m i j p).
Proof.
  intros Hm Hp. unfold set_cell, mxP. apply Poly_wf.list_update_forall; [|exact Hm].
  intros row Hrow. apply Poly_wf.list_update_forall; [intros _ _; exact Hp | exact Hrow].
Qed.

Lemma fold_propagate_mxP ell j pm : forall m, mxP m ->
  mxP (fold_left (fun acc mo => set_cell acc ell j (padd (mget acc ell j) [mono_copy mo])) pm m).
Proof.
  induction pm as [|mo pm IH]; intros m Hm; simpl; [exact Hm|].
  apply IH. apply set_cell_mxP; [exact Hm|].
  apply Poly_wf.padd_pwf_r. constructor; [apply Poly_wf.mono_copy_mwf | constructor].
Qed.

Lemma loop_cell_P ell m i j : mxP m ->
  mxP (fst (loop_cell ell m i j)) /\ Forall dsorted (snd (loop_cell ell m i j)).
Proof.
  intros Hm.
  pose proof (Rel_ops.mget_pwf m i j Hm) as Hp.
  pose proof (Rel_corr_base.corr_map_pwf (fun s => L_BAD s (Nat.eqb i j)) _ Hp) as Hp'.
  split.
  - unfold loop_cell, corr_cell. cbv beta iota zeta. cbn [fst snd].
    apply fold_propagate_mxP. apply set_cell_mxP; [exact Hm | exact Hp'].
  - apply Forall_forall. intros s Hs.
    apply (corr_cell_rec_sorted (fun s => L_BAD s (Nat.eqb i j)) (mget m i j) s Hp).
    unfold loop_cell, corr_cell in Hs. cbv beta iota zeta in Hs. cbn [fst snd] in Hs.
    unfold corr_cell. cbn [snd]. exact Hs.
Qed.

Lemma loop_fold_P ell cells : forall st, mxP (fst st) -> Forall dsorted (snd st) ->
  let st' := fold_left (fun '(m, rec) '(i, j) =>
                          let '(m', r') := loop_cell ell m i j in (m', (rec ++ r')%list))
                       cells st in
  mxP (fst st') /\ Forall dsorted (snd st').
Proof.
  induction cells as [|[i j] cells IH]; intros [m rec] Hm Hrec; cbn [fold_left].
  - split; assumption.
  - destruct (loop_cell_P ell m i j Hm) as [A B].
    destruct (loop_cell ell m i j) as [m' r']. cbn [fst snd] in A, B.
    apply IH; cbn [fst snd]; [exact A | apply Forall_app; split; assumption].
Qed.

Lemma loop_rec_sorted r x r' rec : loop_correction r x = Some (r', rec) -> rel_pwf r ->
  Forall dsorted rec.
Proof.
  unfold loop_correction. intros H Hr.
  destruct (index_of_str x (rvars r)) as [ell|]; [|discriminate]. cbv zeta in H.
  match type of H with
  | context [fold_left ?F ?l ?a] =>
      pose proof (loop_fold_P ell l a Hr (Forall_nil _)) as HF;
      cbv zeta in HF; destruct (fold_left F l a) as [m rec0]
  end.
  injection H as <- <-. exact (proj2 HF).
Qed.

(* ------------------------------------------------------------------ *)
(* the delta-graph step of a loop never raises                          *)
(* ------------------------------------------------------------------ *)

Lemma dg_insert_all_total l : forall d, exists d', dg_insert_all d l = ROk d'.
Proof.
  induction l as [|n t IH]; intros d; cbn [dg_insert_all]; [eexists; reflexivity|].
  unfold DG.from_monomial.
  destruct (DeltaGraph_proofs.insert_node_total (DG.dg_graph d) n) as [g' E]. rewrite E.
  cbn [DG.bind of_dg rbind]. apply IH.
Qed.

Lemma dg_fusion_total d : dg_inv d -> exists d', dg_fusion d = ROk d'.
Proof.
  intros [Hdeg [h [Hwf [Hrun _]]]].
  assert (Hwf' : forallb (DG.wf_op 3) (h ++ [DG.Fuse]) = true).
  { rewrite forallb_app, Hwf. reflexivity. }
  destruct (DeltaGraph_proofs.c11_no_raise 3 _ Hwf') as [g Hg].
  rewrite (An_close_dg.run_snoc 3 h DG.Fuse _ Hrun) in Hg. cbn [DG.step] in Hg.
  unfold dg_fusion. rewrite Hdeg, Hg. cbn [of_dg rbind]. eexists; reflexivity.
Qed.

Lemma close_dg_good strict d rec idx rfin :
  dg_inv d -> rel3 rfin ->
  (forall n, In n rec -> dsorted n /\ Forall (fun dl : delta => fst dl < 3) n) ->
  good strict
    (rbind (dg_insert_all d rec) (fun d1 =>
     rbind (dg_fusion d1) (fun d2 =>
       ROk {| cr_index := idx; cr_rel := rfin; cr_exit := dg_is_empty d2; cr_dg := d2 |}))).
Proof.
  intros Hd Hr Hrec.
  destruct (dg_insert_all_total rec d) as [d1 E1]. rewrite E1. cbn [rbind].
  destruct (An_close_dg.dg_insert_all_inv rec d d1 Hd) as [Hd1 _]; [|exact E1|].
  { intros n Hn. destruct (Hrec n Hn). apply An_close_dg.wf_node_intro; assumption. }
  destruct (dg_fusion_total d1 Hd1) as [d2 E2]. rewrite E2. cbn [rbind].
  destruct (An_close_dg.dg_fusion_inv d1 d2 Hd1 E2) as [Hd2 _].
  split; [exact Hd2 | exact Hr].
Qed.

(* ------------------------------------------------------------------ *)
(* closing a loop                                                      *)
(* ------------------------------------------------------------------ *)

Lemma fixpoint_benign strict : benign strict "fuel:fixpoint".
Proof. left; reflexivity. Qed.

Lemma close_while_good strict rb : cr_ok rb -> good strict (close_while rb).
Proof.
  intros [Hd Hr]. unfold close_while. cbv zeta.
  pose proof (rel3_comp rel_empty (cr_rel rb) rel3_empty Hr) as (W0 & P0 & D0).
  destruct (rel_fixpoint fix_fuel (rel_comp rel_empty (cr_rel rb))) as [fx|] eqn:Efx;
    [|exact (fixpoint_benign strict)].
  destruct (Rel_fix_closed.rel_fixpoint_sem fix_fuel _ fx W0 P0 Efx) as (Wf & Pf & _).
  pose proof (Rel_dom.rel_dom_fixpoint fix_fuel _ fx Efx D0) as Df.
  pose proof (Rel_corr.while_correction_sem fx Wf Pf) as HW.
  pose proof (Rel_dom.rel_dom_while_correction fx Df) as [Dw Drec].
  pose proof (fun s => while_rec_sorted fx s Pf) as Srec.
  destruct (while_correction fx) as [rw rec]. cbn [fst snd] in Dw, Drec, Srec.
  destruct HW as (Ww & Pw & _).
  apply close_dg_good; [exact Hd | exact (conj Ww (conj Pw Dw)) |].
  intros n Hn. split; [apply Srec | apply Drec]; exact Hn.
Qed.

Lemma close_for_good strict x rb : x <> EmptyString -> cr_ok rb -> good strict (close_for x rb).
Proof.
  intros Hx [Hd Hr]. unfold close_for. cbv zeta.
  pose proof (rel3_comp (rel_zero [x]) (cr_rel rb) (rel3_zero1 x Hx) Hr) as (W0 & P0 & D0).
  pose proof (rel_comp_zero_var x (cr_rel rb) Hx Hr) as Hx0.
  destruct (rel_fixpoint fix_fuel (rel_comp (rel_zero [x]) (cr_rel rb))) as [fx|] eqn:Efx;
    [|exact (fixpoint_benign strict)].
  destruct (Rel_fix_closed.rel_fixpoint_sem fix_fuel _ fx W0 P0 Efx) as (Wf & Pf & Nf & Vf & _).
  pose proof (Rel_dom.rel_dom_fixpoint fix_fuel _ fx Efx D0) as Df.
  assert (Hxf : In x (rvars fx)) by (rewrite Vf; exact Hx0).
  destruct (Rel_corr.loop_correction_sem fx x Wf Pf Nf Hxf) as (rl & rec & El & Wl & Pl & _).
  rewrite El.
  destruct (Rel_dom.rel_dom_loop_correction fx x rl rec El Df) as [Dl Drec].
  pose proof (loop_rec_sorted fx x rl rec El Pf) as Srec. rewrite Forall_forall in Srec.
  apply close_dg_good; [exact Hd | exact (conj Wl (conj Pl Dl)) |].
  intros n Hn. split; [apply Srec | apply Drec]; exact Hn.
Qed.

(* ------------------------------------------------------------------ *)
(* leaves                                                              *)
(* ------------------------------------------------------------------ *)

Lemma skip_good strict index d : dg_inv d -> good strict (skip index d).
Proof. intros Hd. split; [exact Hd | exact rel3_empty]. Qed.

Lemma leaf_good strict (res : res cr) d dr :
  dg_inv d -> fst dr <> None -> leaf_ok res d dr [] ->
  (forall r, res = ROk r -> rel_dom (cr_rel r)) -> good strict res.
Proof.
  intros Hd Hdr Hl Hdom. destruct res as [r|e].
  - unfold leaf_ok in Hl. destruct Hl as (Edg & _ & _ & W & P & _).
    split; [cbn; rewrite Edg; exact Hd|]. split; [exact W|]. split; [exact P|]. apply Hdom. reflexivity.
  - unfold leaf_ok in Hl. contradiction.
Qed.

Lemma an_constant_good strict index x d : x <> EmptyString -> dg_inv d -> good strict (an_constant index x d).
Proof.
  intros Hx Hd.
  apply (leaf_good strict _ d (Some (leaf_const x), index) Hd); [discriminate | |].
  - exact (proj1 (An_leaf.an_constant_sem index x d [] Hx)).
  - intros r Hr. eapply Rel_dom.rel_dom_an_constant. exact Hr.
Qed.

Lemma an_id_good strict index x y d :
  x <> EmptyString -> y <> EmptyString -> dg_inv d -> good strict (an_id index x y d).
Proof.
  intros Hx Hy Hd.
  apply (leaf_good strict _ d (Some (leaf_copy x y), index) Hd); [discriminate | |].
  - exact (proj1 (An_leaf.an_id_sem index x y d [] Hx Hy)).
  - intros r Hr. eapply Rel_dom.rel_dom_an_id. exact Hr.
Qed.

Lemma cv_lookup_some tbl op y z : exists tr, cv_lookup tbl op y z = Some tr.
Proof.
  induction tbl as [|[[c ops] tr] rest IH]; cbn [cv_lookup]; [eexists; reflexivity|].
  destruct c.
  - destruct y; [destruct z; [exact IH|] |]; eexists; reflexivity.
  - destruct (mem_strb op ops && opt_str_eqb y z); [eexists; reflexivity | exact IH].
  - destruct (mem_strb op ops && negb (opt_str_eqb y z)); [eexists; reflexivity | exact IH].
Qed.

Lemma d_bin_some x op y z idx : mem_strb op BIN_OPS = true -> fst (d_bin x op y z [] idx) <> None.
Proof.
  intros Hop. unfold d_bin.
  destruct y as [a|], z as [b|]; cbn [fst]; try discriminate;
    unfold leaf_bin; rewrite Hop; cbn [negb];
    match goal with |- context [cv_lookup ?t ?o ?u ?v] =>
      destruct (cv_lookup_some t o u v) as [tr ->] end; discriminate.
Qed.

Lemma an_binary_good strict index x op y z d :
  mem_strb op BIN_OPS = true ->
  (forall v, In v (x :: atom_vars y ++ atom_vars z) -> v <> EmptyString) ->
  dg_inv d -> good strict (an_binary index x op y z d).
Proof.
  intros Hop Hn Hd.
  assert (Hx : x <> EmptyString) by (apply Hn; left; reflexivity).
  assert (Hy : forall v, atom_name y = Some v -> v <> EmptyString).
  { intros v E. apply Hn. right. apply in_or_app. left.
    destruct y; [injection E as ->; left; reflexivity | discriminate]. }
  assert (Hz : forall v, atom_name z = Some v -> v <> EmptyString).
  { intros v E. apply Hn. right. apply in_or_app. right.
    destruct z; [injection E as ->; left; reflexivity | discriminate]. }
  apply (leaf_good strict _ d (d_bin x op y z [] index) Hd).
  - apply d_bin_some. exact Hop.
  - exact (proj1 (An_leaf.an_binary_sem index x op y z d [] Hx Hy Hz (Forall_nil _))).
  - intros r Hr. eapply Rel_dom.rel_dom_an_binary. exact Hr.
Qed.

(* ------------------------------------------------------------------ *)
(* statement lists                                                     *)
(* ------------------------------------------------------------------ *)

Section Walk.
Variable strict : bool.
Variable rec : nat -> stmt -> dgraph -> res cr.
Variable Q : stmt -> Prop.
Hypothesis rec_good : forall i s d, Q s -> dg_inv d -> good strict (rec i s d).

Lemma seq_compound_good l : Forall Q l -> forall index acc d,
  rel3 acc -> dg_inv d -> good strict (seq_compound rec l index acc d).
Proof.
  induction 1 as [|s t Hs Ht IH]; intros index acc d Ha Hd; cbn [seq_compound].
  - split; [exact Hd | exact Ha].
  - apply good_bind; [apply rec_good; assumption|].
    intros r _ [Hd' Hr']. pose proof (rel3_comp acc (cr_rel r) Ha Hr') as Hc.
    cbv zeta. destruct (cr_exit r).
    + split; [exact Hd' | exact Hc].
    + apply IH; assumption.
Qed.

Lemma seq_branch_good l : Forall Q l -> forall index acc d,
  rel3 acc -> dg_inv d -> good strict (seq_branch rec l index acc d).
Proof.
  induction 1 as [|s t Hs Ht IH]; intros index acc d Ha Hd; cbn [seq_branch].
  - split; [exact Hd | exact Ha].
  - apply good_bind; [apply rec_good; assumption|].
    intros r _ [Hd' Hr']. destruct (cr_exit r).
    + split; [exact Hd' | exact Ha].
    + apply IH; [apply rel3_comp; assumption | exact Hd'].
Qed.
End Walk.

(* ------------------------------------------------------------------ *)
(* the induction                                                       *)
(* ------------------------------------------------------------------ *)

Definition pre (strict : bool) (fuel : nat) (s : stmt) : Prop :=
  ops_ok s = true /\ names_ne s /\ (strict = true -> depth s < fuel).

Lemma pre_list strict fuel l :
  forallb ops_ok l = true -> (forall v, In v (flat_map stmt_vars l) -> v <> EmptyString) ->
  (strict = true -> depth_list l < fuel) -> Forall (pre strict fuel) l.
Proof.
  intros Ho Hn Hdp. apply Forall_forall. intros s Hs. split; [|split].
  - rewrite forallb_forall in Ho. apply Ho. exact Hs.
  - intros v Hv. apply Hn. apply in_flat_map. exists s. split; assumption.
  - intros E. specialize (Hdp E). pose proof (depth_in l s Hs). lia.
Qed.

Lemma rewrite_ops_depth x op e s' :
  unary_asgn_rewrite x op e = Some s' -> ops_ok s' = true /\ depth s' <= 1.
Proof.
  unfold unary_asgn_rewrite. cbv zeta.
  destruct (String.eqb op "!"); [intros H; injection H as <-; split; [reflexivity | cbn; lia]|].
  destruct (String.eqb op "sizeof"); [intros H; injection H as <-; split; [reflexivity | cbn; lia]|].
  destruct e as [|y|]; [intros H; injection H as <-; split; [reflexivity | cbn; lia] | | discriminate].
  destruct (mem_strb op INC_DEC).
  - intros H. injection H as <-. unfold inc_dec_stmt.
    destruct (mem_strb op PREFIX); destruct (mem_strb op ["p++"%string; "++"%string]);
      split; try reflexivity; cbn; lia.
  - destruct (String.eqb op "-"); [intros H; injection H as <-; split; [reflexivity | cbn; lia]|].
    destruct (String.eqb op "+"); [intros H; injection H as <-; split; [reflexivity | cbn; lia] | discriminate].
Qed.

Theorem compute_good strict : forall fuel index s d,
  pre strict fuel s -> dg_inv d -> good strict (compute fuel index s d).
Proof.
  induction fuel as [|f IH]; intros index s d (Ho & Hn & Hdp) Hd.
  - cbn [compute good]. destruct strict; [specialize (Hdp eq_refl); lia | right; split; reflexivity].
  - cbn [compute].
    destruct s as [m|x op y z|x|x y|x op e|op e|t e|cv body|iters srcs conds nxt body|l].
    + (* skip *) apply skip_good. exact Hd.
    + (* x = y op z *) cbn [ops_ok] in Ho. apply an_binary_good; [exact Ho | exact Hn | exact Hd].
    + (* x = c *) apply an_constant_good; [apply Hn; left; reflexivity | exact Hd].
    + (* x = y *) apply an_id_good; [apply Hn; left; reflexivity | apply Hn; right; left; reflexivity | exact Hd].
    + (* x = op e *)
      destruct (unary_asgn_rewrite x op e) as [s'|] eqn:E; [|apply skip_good; exact Hd].
      apply IH; [|exact Hd]. destruct (rewrite_ops_depth x op e s' E) as [Ho' Hd'].
      split; [exact Ho'|]. split.
      * intros v Hv. apply Hn. exact (An_main_aux.unary_asgn_rewrite_vars x op e s' E v Hv).
      * intros Es. specialize (Hdp Es). cbn [depth] in Hdp. lia.
    + (* op e; *)
      destruct e as [|y|]; try (apply skip_good; exact Hd).
      destruct (mem_strb op INC_DEC) eqn:Ei; [|apply skip_good; exact Hd].
      rewrite An_main_aux.inc_dec_stmt_eq. cbv beta iota.
      apply an_binary_good; [destruct (mem_strb op ["p++"%string; "++"%string]); reflexivity | | exact Hd].
      intros v Hv. apply Hn. cbn [stmt_vars]. rewrite (An_main_aux.inc_dec_u_ops op Ei). cbn [uarg_vars].
      cbn in Hv. cbn [In]. tauto.
    + (* if *)
      cbn [ops_ok] in Ho. apply andb_true_iff in Ho. destruct Ho as [Hot Hoe].
      cbn [stmt_vars] in Hn. cbn [depth] in Hdp.
      assert (Pt : Forall (pre strict f) t).
      { apply pre_list; [exact Hot | intros v Hv; apply Hn, in_or_app; left; exact Hv |].
        intros Es. specialize (Hdp Es). unfold depth_list. lia. }
      assert (Pe : Forall (pre strict f) e).
      { apply pre_list; [exact Hoe | intros v Hv; apply Hn, in_or_app; right; exact Hv |].
        intros Es. specialize (Hdp Es). unfold depth_list. lia. }
      apply good_bind.
      { apply (seq_branch_good strict (compute f) (pre strict f)); [intros; apply IH; assumption | exact Pt | exact rel3_empty | exact Hd]. }
      intros rt _ [Hdt Hrt]. destruct (cr_exit rt); [split; assumption|].
      apply good_bind.
      { apply (seq_branch_good strict (compute f) (pre strict f)); [intros; apply IH; assumption | exact Pe | exact rel3_empty | exact Hdt]. }
      intros re _ [Hde Hre]. destruct (cr_exit re); [split; assumption|].
      split; [exact Hde | exact (rel3_sum _ _ Hre Hrt)].
    + (* while *)
      cbn [ops_ok] in Ho. cbn [stmt_vars] in Hn. cbn [depth] in Hdp.
      apply good_bind.
      { apply IH; [|exact Hd]. split; [exact Ho|]. split.
        - intros v Hv. apply Hn, in_or_app. right. exact Hv.
        - intros Es. specialize (Hdp Es). lia. }
      intros rb _ Hrb. destruct (cr_exit rb); [exact Hrb | apply close_while_good; exact Hrb].
    + (* for *)
      destruct (loop_compat iters srcs conds nxt body) as [x|] eqn:El; [|apply skip_good; exact Hd].
      destruct (An_main_aux.loop_compat_some _ _ _ _ _ _ El) as [Esv _].
      unfold names_ne in Hn. rewrite Esv in Hn. cbn [ops_ok] in Ho. cbn [depth] in Hdp.
      apply good_bind.
      { apply IH; [|exact Hd]. split; [exact Ho|]. split.
        - intros v Hv. apply Hn. right. exact Hv.
        - intros Es. specialize (Hdp Es). lia. }
      intros rb _ Hrb. destruct (cr_exit rb); [exact Hrb|].
      apply close_for_good; [apply Hn; left; reflexivity | exact Hrb].
    + (* block *)
      cbn [ops_ok] in Ho. cbn [stmt_vars] in Hn. cbn [depth] in Hdp.
      apply (seq_compound_good strict (compute f) (pre strict f));
        [intros; apply IH; assumption | | exact rel3_empty | exact Hd].
      apply pre_list; [exact Ho | exact Hn |]. intros Es. specialize (Hdp Es). unfold depth_list. lia.
Qed.

(* ------------------------------------------------------------------ *)
(* the theorems of props/C06.v                                         *)
(* ------------------------------------------------------------------ *)

Theorem compute_no_spurious_error : forall fuel index s d,
  ops_ok s = true -> names_ne s -> dg_inv d ->
  (exists r, compute fuel index s d = ROk r) \/
  compute fuel index s d = RErr "fuel" \/
  compute fuel index s d = RErr "fuel:fixpoint".
Proof.
  intros fuel index s d Ho Hn Hd.
  pose proof (compute_good false fuel index s d (conj Ho (conj Hn (fun E => False_ind _ (diff_false_true E)))) Hd) as H.
  destruct (compute fuel index s d) as [r|e]; [left; eexists; reflexivity|].
  destruct H as [->|[_ ->]]; auto.
Qed.

Theorem fuel_sufficient_nesting : forall fuel index s d,
  ops_ok s = true -> names_ne s -> dg_inv d -> depth s < fuel ->
  (exists r, compute fuel index s d = ROk r) \/
  compute fuel index s d = RErr "fuel:fixpoint".
Proof.
  intros fuel index s d Ho Hn Hd Hdp.
  pose proof (compute_good true fuel index s d (conj Ho (conj Hn (fun _ => Hdp))) Hd) as H.
  destruct (compute fuel index s d) as [r|e]; [left; eexists; reflexivity|].
  destruct H as [->|[E _]]; [right; reflexivity | discriminate E].
Qed.

(* results of an analysed statement keep the invariant (used at function level) *)
Theorem compute_result_ok : forall fuel index s d r,
  ops_ok s = true -> names_ne s -> dg_inv d -> compute fuel index s d = ROk r -> cr_ok r.
Proof.
  intros fuel index s d r Ho Hn Hd E.
  pose proof (compute_good false fuel index s d (conj Ho (conj Hn (fun E => False_ind _ (diff_false_true E)))) Hd) as H.
  rewrite E in H. exact H.
Qed.

(* ---------------- function level ---------------- *)

Lemma dg_inv_new : dg_inv (DG.dg_new 3).
Proof.
  split; [reflexivity|]. exists []. split; [reflexivity|]. split; [reflexivity|].
  split; intros n [].
Qed.

Lemma cmds_cons s t stop index acc di d :
  cmds (s :: t) stop index acc di d =
  rbind (compute depth_fuel index s d) (fun r =>
    let di' := di || cr_exit r in
    if stop && di' then ROk (di', cr_index r, acc, cr_dg r)
    else cmds t stop (cr_index r) (rel_comp acc (cr_rel r)) di' (cr_dg r)).
Proof. reflexivity. Qed.

Lemma cmds_good strict l : forall stop index acc di d,
  Forall (pre strict depth_fuel) l -> dg_inv d ->
  match cmds l stop index acc di d with
  | ROk (_, _, _, d') => dg_inv d'
  | RErr e => benign strict e
  end.
Proof.
  induction l as [|s t IH]; intros stop index acc di d Hl Hd.
  - cbn [cmds]. exact Hd.
  - rewrite cmds_cons.
    inversion Hl as [|? ? Hs Ht]; subst.
    pose proof (compute_good strict depth_fuel index s d Hs Hd) as H.
    destruct (compute depth_fuel index s d) as [r|e]; cbn [rbind]; [|exact H].
    destruct H as [Hd' _]. cbv zeta.
    destruct (stop && (di || cr_exit r)); [exact Hd'|].
    apply IH; assumption.
Qed.

Definition body_ok (f : func_src) : Prop :=
  forallb ops_ok (f_body f) = true /\
  (forall v, In v (flat_map stmt_vars (f_body f)) -> v <> EmptyString).

Lemma analyse_good strict f stop :
  body_ok f -> (strict = true -> depth_list (f_body f) < depth_fuel) ->
  match analyse f stop with ROk _ => True | RErr e => benign strict e end.
Proof.
  intros [Ho Hn] Hdp. unfold analyse. cbv zeta.
  pose proof (cmds_good strict (f_body f) stop 0 (rel_identity (func_vars f)) false (DG.dg_new 3)
                (pre_list strict depth_fuel (f_body f) Ho Hn Hdp) dg_inv_new) as H.
  destruct (cmds (f_body f) stop 0 (rel_identity (func_vars f)) false (DG.dg_new 3)) as [[[[di index] r] d]|e];
    cbn [rbind]; [exact Logic.I | exact H].
Qed.

Theorem analyse_no_spurious_error : forall f stop, body_ok f ->
  (exists r, analyse f stop = ROk r) \/
  analyse f stop = RErr "fuel" \/
  analyse f stop = RErr "fuel:fixpoint".
Proof.
  intros f stop Hb.
  pose proof (analyse_good false f stop Hb (fun E => False_ind _ (diff_false_true E))) as H.
  destruct (analyse f stop) as [r|e]; [left; eexists; reflexivity|].
  destruct H as [->|[_ ->]]; auto.
Qed.

Theorem analyse_fuel_sufficient : forall f stop, body_ok f -> depth_list (f_body f) < depth_fuel ->
  (exists r, analyse f stop = ROk r) \/ analyse f stop = RErr "fuel:fixpoint".
Proof.
  intros f stop Hb Hdp.
  pose proof (analyse_good true f stop Hb (fun _ => Hdp)) as H.
  destruct (analyse f stop) as [r|e]; [left; eexists; reflexivity|].
  destruct H as [->|[E _]]; [right; reflexivity | discriminate E].
Qed.

(* ---------------- the hypotheses are satisfiable, non-trivially ---------------- *)

Definition ex_stmt : stmt :=
  SBlock [SConst "n";
          SFor ["i"] [] ["i"; "n"] ["i"] (SBlock [SBin "x" "+" (AVar "x") (AVar "y"); SUnAsg "y" "p++" (UVar "x")]);
          SWhile ["x"] (SIf [SBin "y" "*" (AVar "y") (AVar "y")] [SCopy "x" "y"])]%string.

Example ex_hyps : ops_ok ex_stmt = true /\ names_ne ex_stmt /\ dg_inv (DG.dg_new 3) /\ depth ex_stmt < 10.
Proof.
  split; [reflexivity|]. split; [|split; [exact dg_inv_new | cbn; lia]].
  intros v Hv. cbn in Hv. intuition (subst; discriminate).
Qed.

Example ex_runs : exists r, compute 10 0 ex_stmt (DG.dg_new 3) = ROk r.
Proof. vm_compute. eexists. reflexivity. Qed.

(* the fuel error is real when the fuel is too small: the depth bound cannot be dropped *)
Example ex_fuel : compute 2 0 ex_stmt (DG.dg_new 3) = RErr "fuel".
Proof. vm_compute. reflexivity. Qed.

(* an operator outside BIN_OPS does raise in the model (as the assertion in create_vector does) *)
Example ex_op : compute 3 0 (SBin "x" "/" (AVar "y") (AVar "z")) (DG.dg_new 3) = RErr "AssertionError:create_vector".
Proof. vm_compute. reflexivity. Qed.

Print Assumptions compute_no_spurious_error.
Print Assumptions fuel_sufficient_nesting.
Print Assumptions analyse_no_spurious_error.
Print Assumptions analyse_fuel_sufficient.
