(* Section P3 of Sem_stmts.v: the W and L corrections of a relation, against the side conditions
   w_ok / l_ok and the matrix l_extend of the calculus.
   Proofs: Rel_corr_base.v (value lemmas, matrices through mget), Rel_corr_while.v, Rel_corr_loop.v. *)
From Coq Require Import String List Bool Arith Lia.
From PM Require Import Semiring Poly Poly_sem Poly_add Poly_times Poly_wf Rel Analysis Calculus Rel_sem Rel_hom
  Sem_stmts.
From PM Require Export Rel_corr_base Rel_corr_while Rel_corr_loop.
Import ListNotations.
Open Scope list_scope.

Theorem while_correction_sem : while_correction_sem_stmt.
Proof. exact while_correction_sem_main. Qed.

Theorem loop_correction_sem : loop_correction_sem_stmt.
Proof. exact loop_correction_sem_main. Qed.

(* non-vacuity of loop_correction_sem: a relation, a variable and a choice meeting every hypothesis,
   where the L rule adds a p (cell (a, c)) *)
Definition lc_example : rel :=
  Rel ["a"; "b"; "c"]%string
    [[ [Mono M []] ; zero_poly ; [Mono W [(1, 0)]] ];
     [ zero_poly ; [Mono M []] ; [Mono P [(0, 0)]; Mono M [(1, 0)]] ];
     [ zero_poly ; [Mono M [(2, 0)]] ; [Mono M []] ]].

Ltac lc_vars :=
  repeat match goal with
         | H : In _ (_ :: _) |- _ => destruct H as [<-|H]
         | H : In _ [] |- _ => destruct H
         end.

Example loop_correction_sem_example :
  let r := lc_example in let x := "a"%string in let c : choice := fun _ => 0 in
  wf_rel r /\ rel_pwf r /\ rel_nfz r /\ In x (rvars r) /\ clean r c /\
  (forall v, In v (rvars r) -> sc_le M (rval r c v v)) /\
  (forall i, In i (rvars r) -> i <> x -> rval r c i x = O) /\
  l_ok (rvars r) (rval r c) = true /\
  option_map snd (loop_correction r x) = Some [] /\
  smat_table (rvars r) (rval r c) = [[M; O; O]; [O; M; P]; [O; O; M]] /\
  option_map (fun rr => smat_table (rvars r) (rval (fst rr) c)) (loop_correction r x)
    = Some [[M; O; P]; [O; M; P]; [O; O; M]].
Proof.
  cbv zeta. unfold lc_example.
  split; [|split; [|split; [|split; [|split; [|split; [|split; [|split; [|split; [|split]]]]]]]]];
    try (vm_compute; reflexivity).
  - unfold wf_rel. cbn [rvars rmat]. split.
    + constructor; [cbn [In]; intros [H|[H|[]]]; discriminate|].
      constructor; [cbn [In]; intros [H|[]]; discriminate|].
      constructor; [intros [] | constructor].
    + split; [repeat constructor; discriminate|]. split; [reflexivity | repeat constructor].
  - unfold rel_pwf, pwf, mwf. cbn [rmat]. repeat constructor; try discriminate; cbn; auto.
  - unfold rel_nfz. cbn [rmat].
    repeat (apply Forall_cons || apply Forall_nil);
      try (left; reflexivity); right; (split; [discriminate | repeat constructor; discriminate]).
  - cbn [rvars In]. tauto.
  - unfold clean. cbn [rvars]. intros x y Hx Hy. lc_vars; vm_compute; discriminate.
  - cbn [rvars]. intros v Hv. lc_vars; vm_compute; lia.
  - cbn [rvars]. intros i Hi Hne. lc_vars; try (exfalso; apply Hne; reflexivity); vm_compute; reflexivity.
Qed.

Print Assumptions while_correction_sem.
Print Assumptions loop_correction_sem.
