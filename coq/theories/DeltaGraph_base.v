(* Basic facts for the DeltaGraph model: association lists as dictionaries,
   equality tests, the four primitive graph updates as "one entry changed". *)
From Coq Require Import String List Arith Bool Lia.
From PM Require Import DeltaGraph.
Import ListNotations.
Open Scope list_scope.

(* ------------------------------------------------------------------ *)
(* equality tests                                                      *)
(* ------------------------------------------------------------------ *)
Lemma delta_eqb_eq a b : delta_eqb a b = true <-> a = b.
Proof.
  destruct a as [v i], b as [w j]. unfold delta_eqb. simpl.
  rewrite andb_true_iff, !Nat.eqb_eq. split; [intros [-> ->]; reflexivity | intros H; inversion H; auto].
Qed.

Lemma node_eqb_eq a : forall b, node_eqb a b = true <-> a = b.
Proof.
  induction a as [|x a IH]; destruct b as [|y b]; simpl; try (split; [discriminate | congruence ]).
  - split; auto.
  - rewrite andb_true_iff, delta_eqb_eq, IH. split; [intros [-> ->]; reflexivity | intros H; inversion H; auto].
Qed.

Lemma node_eqb_refl a : node_eqb a a = true.
Proof. apply node_eqb_eq. reflexivity. Qed.

Lemma node_eqb_neq a b : a <> b -> node_eqb a b = false.
Proof. intros H. destruct (node_eqb a b) eqn:E; auto. apply node_eqb_eq in E. contradiction. Qed.

Lemma node_eq_dec (a b : node) : {a = b} + {a <> b}.
Proof. destruct (node_eqb a b) eqn:E; [left; apply node_eqb_eq; auto | right; intros ->; rewrite node_eqb_refl in E; discriminate]. Qed.

Lemma dmem_In d n : dmem d n = true <-> In d n.
Proof.
  induction n as [|x t IH]; simpl; [split; [discriminate | tauto]|].
  rewrite orb_true_iff, delta_eqb_eq, IH. split; intros [H|H]; auto.
Qed.

(* ------------------------------------------------------------------ *)
(* dictionaries                                                        *)
(* ------------------------------------------------------------------ *)
Section AssocFacts.
  Context {K V : Type} (eqb : K -> K -> bool).
  Hypothesis eqb_eq : forall a b, eqb a b = true <-> a = b.

  Lemma eqb_refl' a : eqb a a = true.
  Proof. apply eqb_eq. reflexivity. Qed.

  Lemma eqb_neq' a b : a <> b -> eqb a b = false.
  Proof. intros H. destruct (eqb a b) eqn:E; auto. apply eqb_eq in E. contradiction. Qed.

  Lemma lookup_aset_eq k (v : V) l : lookup eqb k (aset eqb k v l) = Some v.
  Proof.
    induction l as [|[k' v'] t IH]; simpl.
    - rewrite eqb_refl'. reflexivity.
    - destruct (eqb k k') eqn:E; simpl.
      + rewrite E. reflexivity.
      + rewrite E. exact IH.
  Qed.

  Lemma lookup_aset_neq k k' (v : V) l : k <> k' -> lookup eqb k' (aset eqb k v l) = lookup eqb k' l.
  Proof.
    intros N. induction l as [|[k2 v2] t IH]; simpl.
    - rewrite eqb_neq'; auto.
    - destruct (eqb k k2) eqn:E; simpl.
      + apply eqb_eq in E. subst k2. rewrite eqb_neq'; auto.
      + destruct (eqb k' k2); auto.
  Qed.

  Lemma lookup_aremove_eq k (l : list (K * V)) : lookup eqb k (aremove eqb k l) = None.
  Proof.
    induction l as [|[k2 v2] t IH]; simpl; auto.
    destruct (eqb k k2) eqn:E; simpl; auto. rewrite E. exact IH.
  Qed.

  Lemma lookup_aremove_neq k k' (l : list (K * V)) : k <> k' -> lookup eqb k' (aremove eqb k l) = lookup eqb k' l.
  Proof.
    intros N. induction l as [|[k2 v2] t IH]; simpl; auto.
    destruct (eqb k k2) eqn:E; simpl.
    - apply eqb_eq in E. subst k2. rewrite eqb_neq'; auto.
    - destruct (eqb k' k2); auto.
  Qed.

  Lemma lookup_In k (v : V) l : lookup eqb k l = Some v -> In (k, v) l.
  Proof.
    induction l as [|[k2 v2] t IH]; simpl; [discriminate|].
    destruct (eqb k k2) eqn:E.
    - intros H. inversion H. subst. apply eqb_eq in E. subst. auto.
    - auto.
  Qed.

  Lemma lookup_keys k (l : list (K * V)) : In k (keys l) <-> lookup eqb k l <> None.
  Proof.
    unfold keys. induction l as [|[k2 v2] t IH]; simpl.
    - split; [tauto | congruence].
    - destruct (eqb k k2) eqn:E.
      + apply eqb_eq in E. subst. split; [discriminate | auto].
      + rewrite <- IH. split; [intros [H|H]; auto; subst; rewrite eqb_refl' in E; discriminate | auto].
  Qed.

  Lemma lookup_keys_some k (v : V) l : lookup eqb k l = Some v -> In k (keys l).
  Proof. intros H. apply lookup_keys. congruence. Qed.

  Lemma In_lookup k (v : V) l : NoDup (keys l) -> In (k, v) l -> lookup eqb k l = Some v.
  Proof.
    unfold keys. induction l as [|[k2 v2] t IH]; simpl; [tauto|].
    intros ND [H|H].
    - inversion H. subst. rewrite eqb_refl'. reflexivity.
    - inversion ND as [|? ? Hn ND']. subst. destruct (eqb k k2) eqn:E.
      + apply eqb_eq in E. subst. exfalso. apply Hn. change k2 with (fst (k2, v)). apply in_map. exact H.
      + auto.
  Qed.

  Lemma keys_aset_in k k' (v : V) l : In k' (keys (aset eqb k v l)) -> k' = k \/ In k' (keys l).
  Proof.
    intros H. apply lookup_keys in H. destruct (eqb k k') eqn:E.
    - apply eqb_eq in E. auto.
    - right. apply lookup_keys. rewrite lookup_aset_neq in H; auto. intros ->. rewrite eqb_refl' in E. discriminate.
  Qed.

  Lemma NoDup_aset k (v : V) l : NoDup (keys l) -> NoDup (keys (aset eqb k v l)).
  Proof.
    unfold keys. induction l as [|[k2 v2] t IH]; simpl; intros ND.
    - constructor; [simpl; tauto | constructor].
    - inversion ND as [|? ? Hn ND']. subst. destruct (eqb k k2) eqn:E; simpl.
      + constructor; auto.
      + constructor; auto. intros H. apply keys_aset_in in H. destruct H as [H|H]; auto.
        subst. rewrite eqb_refl' in E. discriminate.
  Qed.

  Lemma keys_aremove_in k k' (l : list (K * V)) : In k' (keys (aremove eqb k l)) -> In k' (keys l).
  Proof.
    unfold keys. induction l as [|[k2 v2] t IH]; simpl; auto.
    destruct (eqb k k2); simpl; intros H; auto. destruct H; auto.
  Qed.

  Lemma NoDup_aremove k (l : list (K * V)) : NoDup (keys l) -> NoDup (keys (aremove eqb k l)).
  Proof.
    unfold keys. induction l as [|[k2 v2] t IH]; simpl; intros ND; auto.
    inversion ND as [|? ? Hn ND']. subst. destruct (eqb k k2); simpl; auto.
    constructor; auto. intros H. apply Hn. apply (keys_aremove_in k). exact H.
  Qed.

  Lemma length_aremove_le k (l : list (K * V)) : length (aremove eqb k l) <= length l.
  Proof. induction l as [|[k2 v2] t IH]; simpl; auto. destruct (eqb k k2); simpl; lia. Qed.

  Lemma length_aremove_lt k (l : list (K * V)) : lookup eqb k l <> None -> length (aremove eqb k l) < length l.
  Proof.
    induction l as [|[k2 v2] t IH]; simpl; [congruence|].
    destruct (eqb k k2); simpl; intros H.
    - pose proof (length_aremove_le k t). lia.
    - apply IH in H. lia.
  Qed.

  Lemma length_aset_present k (v : V) l : lookup eqb k l <> None -> length (aset eqb k v l) = length l.
  Proof.
    induction l as [|[k2 v2] t IH]; simpl; [congruence|].
    destruct (eqb k k2); simpl; auto.
  Qed.

  Lemma lookup_app_none k (l1 l2 : list (K * V)) : lookup eqb k l1 = None -> lookup eqb k (l1 ++ l2) = lookup eqb k l2.
  Proof.
    induction l1 as [|[k2 v2] t IH]; simpl; auto. destruct (eqb k k2); [discriminate | auto].
  Qed.

  Lemma lookup_app_some k (v : V) (l1 l2 : list (K * V)) : lookup eqb k l1 = Some v -> lookup eqb k (l1 ++ l2) = Some v.
  Proof.
    induction l1 as [|[k2 v2] t IH]; simpl; [discriminate|]. destruct (eqb k k2); auto.
  Qed.

  Lemma amem_true k (l : list (K * V)) : amem eqb k l = true <-> lookup eqb k l <> None.
  Proof. unfold amem. destruct (lookup eqb k l); split; congruence. Qed.

  Lemma amem_false k (l : list (K * V)) : amem eqb k l = false <-> lookup eqb k l = None.
  Proof. unfold amem. destruct (lookup eqb k l); split; congruence. Qed.
End AssocFacts.

Definition nlookup {V} := @lookup nat V Nat.eqb.

(* ------------------------------------------------------------------ *)
(* fold_res                                                            *)
(* ------------------------------------------------------------------ *)
Lemma fold_res_inv {A S} (f : S -> A -> result S) (P : S -> Prop) xs :
  forall s, P s ->
  (forall s x, In x xs -> P s -> exists s', f s x = Ok s' /\ P s') ->
  exists s', fold_res f xs s = Ok s' /\ P s'.
Proof.
  induction xs as [|x t IH]; simpl; intros s Hs Hf.
  - eauto.
  - destruct (Hf s x (or_introl eq_refl) Hs) as [s1 [E1 P1]]. rewrite E1.
    apply IH; auto.
Qed.

(* conditional version: if the fold succeeds the invariant holds *)
Lemma fold_res_inv_ok {A S} (f : S -> A -> result S) (P : S -> Prop) xs :
  forall s s', P s ->
  (forall s x s', In x xs -> P s -> f s x = Ok s' -> P s') ->
  fold_res f xs s = Ok s' -> P s'.
Proof.
  induction xs as [|x t IH]; simpl; intros s s' Hs Hf E.
  - inversion E. subst. auto.
  - destruct (f s x) as [s1|e] eqn:E1; [|discriminate].
    apply (IH s1); eauto.
Qed.

(* ------------------------------------------------------------------ *)
(* graph level: one entry (size, node) changed                         *)
(* ------------------------------------------------------------------ *)
Definition has_bucket (g : graph) (s : nat) : Prop := lookup Nat.eqb s g <> None.

Definition bk_eq (g g' : graph) : Prop := forall s, has_bucket g' s <-> has_bucket g s.
Definition bk_le (g g' : graph) : Prop := forall s, has_bucket g s -> has_bucket g' s.

Lemma bk_eq_le g g' : bk_eq g g' -> bk_le g g'.
Proof. intros H s. apply H. Qed.
Lemma bk_le_refl g : bk_le g g.
Proof. intros s; auto. Qed.
Lemma bk_le_trans g1 g2 g3 : bk_le g1 g2 -> bk_le g2 g3 -> bk_le g1 g3.
Proof. intros A B s H. auto. Qed.
Lemma bk_eq_refl g : bk_eq g g.
Proof. intros s; tauto. Qed.
Lemma bk_eq_trans g1 g2 g3 : bk_eq g1 g2 -> bk_eq g2 g3 -> bk_eq g1 g3.
Proof. intros A B s. split; intro H; [apply A, B, H | apply B, A, H]. Qed.

Definition gupd (g g' : graph) (s : nat) (n : node) (o : option nbrs) : Prop :=
  glookup g' s n = o /\
  (forall s' m, s' <> s \/ m <> n -> glookup g' s' m = glookup g s' m) /\
  bk_eq g g'.

Lemma glookup_aset (g : graph) s (bk bk' : bucket) s' m :
  lookup Nat.eqb s g = Some bk ->
  glookup (aset Nat.eqb s bk' g) s' m = if Nat.eqb s' s then lookup node_eqb m bk' else glookup g s' m.
Proof.
  intros H. unfold glookup. destruct (Nat.eqb s' s) eqn:E.
  - apply Nat.eqb_eq in E. subst. rewrite (lookup_aset_eq Nat.eqb Nat.eqb_eq). reflexivity.
  - rewrite (lookup_aset_neq Nat.eqb Nat.eqb_eq); auto. intros ->. rewrite Nat.eqb_refl in E. discriminate.
Qed.

Lemma has_bucket_aset (g : graph) s (bk bk' : bucket) :
  lookup Nat.eqb s g = Some bk -> bk_eq g (aset Nat.eqb s bk' g).
Proof.
  intros H s'. unfold has_bucket. destruct (Nat.eq_dec s s') as [->|N].
  - rewrite (lookup_aset_eq Nat.eqb Nat.eqb_eq). rewrite H. split; congruence.
  - rewrite (lookup_aset_neq Nat.eqb Nat.eqb_eq); auto. tauto.
Qed.

Lemma gupd_bucket (g : graph) s (bk bk' : bucket) n o :
  lookup Nat.eqb s g = Some bk ->
  lookup node_eqb n bk' = o ->
  (forall m, m <> n -> lookup node_eqb m bk' = lookup node_eqb m bk) ->
  gupd g (aset Nat.eqb s bk' g) s n o.
Proof.
  intros H Ho Hm. split; [|split].
  - rewrite (glookup_aset _ _ _ _ _ _ H), Nat.eqb_refl. exact Ho.
  - intros s' m Hd. rewrite (glookup_aset _ _ _ _ _ _ H). destruct (Nat.eqb s' s) eqn:E; auto.
    apply Nat.eqb_eq in E. subst. destruct Hd as [Hd|Hd]; [congruence|].
    rewrite Hm; auto. unfold glookup. rewrite H. reflexivity.
  - eapply has_bucket_aset; eauto.
Qed.

Lemma add_node_spec (g : graph) s n (bk : bucket) :
  lookup Nat.eqb s g = Some bk ->
  exists g', add_node g s n = Ok g' /\ gupd g g' s n (Some []).
Proof.
  intros H. unfold add_node, get_bucket. rewrite H. simpl. eexists. split; [reflexivity|].
  eapply gupd_bucket; eauto; [apply (lookup_aset_eq node_eqb node_eqb_eq)|]. intros m Hm. apply (lookup_aset_neq node_eqb node_eqb_eq); auto.
Qed.

Lemma set_edge_spec (g : graph) s a b l (na : nbrs) :
  glookup g s a = Some na ->
  exists g', set_edge g s a b l = Ok g' /\ gupd g g' s a (Some (aset node_eqb b l na)).
Proof.
  unfold glookup. destruct (lookup Nat.eqb s g) as [bk|] eqn:H; [|discriminate]. intros Ha.
  unfold set_edge, get_bucket. rewrite H. simpl. rewrite Ha. simpl. eexists. split; [reflexivity|].
  eapply gupd_bucket; eauto; [apply (lookup_aset_eq node_eqb node_eqb_eq)|]. intros m Hm. apply (lookup_aset_neq node_eqb node_eqb_eq); auto.
Qed.

Lemma count_aset (g : graph) s (bk bk' : bucket) :
  lookup Nat.eqb s g = Some bk ->
  count_nodes (aset Nat.eqb s bk' g) + length bk = count_nodes g + length bk'.
Proof.
  induction g as [|[s2 b2] t IH]; simpl; [discriminate|].
  destruct (Nat.eqb s s2) eqn:E; simpl.
  - intros H. inversion H. subst. lia.
  - intros H. apply IH in H. lia.
Qed.

Lemma del_node_spec (g : graph) s n (nn : nbrs) :
  glookup g s n = Some nn ->
  exists g', del_node g s n = Ok g' /\ gupd g g' s n None /\ count_nodes g' < count_nodes g.
Proof.
  unfold glookup. destruct (lookup Nat.eqb s g) as [bk|] eqn:H; [|discriminate]. intros Ha.
  unfold del_node, get_bucket. rewrite H. simpl.
  assert (Hm : amem node_eqb n bk = true) by (apply amem_true; congruence).
  rewrite Hm. eexists. split; [reflexivity|]. split.
  - eapply gupd_bucket; eauto; [apply (lookup_aremove_eq node_eqb)|]. intros m Hne. apply (lookup_aremove_neq node_eqb node_eqb_eq); auto.
  - pose proof (count_aset g s bk (aremove node_eqb n bk) H).
    assert (length (aremove node_eqb n bk) < length bk) by (apply length_aremove_lt; congruence). unfold bucket in *. lia.
Qed.

Lemma del_edge_spec (g : graph) s a b (na : nbrs) l :
  glookup g s a = Some na -> lookup node_eqb b na = Some l ->
  exists g', del_edge g s a b = Ok g' /\ gupd g g' s a (Some (aremove node_eqb b na)) /\ count_nodes g' = count_nodes g.
Proof.
  unfold glookup. destruct (lookup Nat.eqb s g) as [bk|] eqn:H; [|discriminate]. intros Ha Hb.
  unfold del_edge, get_bucket. rewrite H. simpl. rewrite Ha. simpl.
  assert (Hm : amem node_eqb b na = true) by (apply amem_true; congruence).
  rewrite Hm. eexists. split; [reflexivity|]. split.
  - eapply gupd_bucket; eauto; [apply (lookup_aset_eq node_eqb node_eqb_eq)|]. intros m Hne. apply (lookup_aset_neq node_eqb node_eqb_eq); auto.
  - pose proof (count_aset g s bk (aset node_eqb a (aremove node_eqb b na) bk) H).
    rewrite (length_aset_present node_eqb) in H0; [unfold bucket, nbrs in *; lia | congruence].
Qed.

Lemma glookup_has_bucket (g : graph) s n (nb : nbrs) : glookup g s n = Some nb -> has_bucket g s.
Proof. unfold glookup, has_bucket. destruct (lookup Nat.eqb s g); congruence. Qed.

Lemma has_bucket_get (g : graph) s : has_bucket g s -> exists bk : bucket, lookup Nat.eqb s g = Some bk.
Proof. unfold has_bucket. destruct (lookup Nat.eqb s g); [eauto | congruence]. Qed.

Lemma count_pos (g : graph) s n (nb : nbrs) : glookup g s n = Some nb -> 0 < count_nodes g.
Proof.
  unfold glookup. induction g as [|[s2 b2] t IH]; simpl; [discriminate|].
  destruct (Nat.eqb s s2).
  - destruct b2; simpl; [discriminate | lia].
  - intros H. apply IH in H. lia.
Qed.
