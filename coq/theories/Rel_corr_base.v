(* Helper lemmas for Rel_corr.v (semantics of the W and L corrections):
   - the value of a polynomial at a choice is the maximum of the scalars of the matching monomials;
   - the effect of corr_cell / of filtering the p-monomials on values;
   - matrices seen through mget (shape, set_cell, Forall <-> pointwise);
   - lists of the form map g (combine (seq s (length l)) l). *)
From Coq Require Import String List Bool Arith Lia.
From PM Require Import Semiring Poly Poly_sem Poly_add Poly_times Poly_wf Rel Analysis Calculus Rel_sem Rel_hom.
Import ListNotations.
Open Scope list_scope.

(* ------------------------------------------------------------------ *)
(* scalars                                                             *)
(* ------------------------------------------------------------------ *)

Lemma ssum_cases a b : ssum a b = a \/ ssum a b = b.
Proof. destruct a, b; cbv; auto. Qed.

Lemma ssum_not_I a b : ssum a b <> I -> a <> I /\ b <> I.
Proof. destruct a, b; cbv; intros H; split; congruence. Qed.

Lemma ssum_not_I_intro a b : a <> I -> b <> I -> ssum a b <> I.
Proof. destruct a, b; cbv; intros; congruence. Qed.

(* ------------------------------------------------------------------ *)
(* val = maximum over the matching monomials                           *)
(* ------------------------------------------------------------------ *)

Lemma val_witness p c s :
  val p c = s -> s <> O -> exists m, In m p /\ mmatch c (ds m) = true /\ sc m = s.
Proof.
  induction p as [|m t IH]; intros H Hs.
  - rewrite val_nil in H. congruence.
  - rewrite val_cons in H. destruct (ssum_cases (mval m c) (val t c)) as [E|E]; rewrite E in H.
    + unfold mval in H. destruct (mmatch c (ds m)) eqn:Em; [|congruence].
      exists m. split; [left; reflexivity|]. split; assumption.
    + destruct (IH H Hs) as [m' [A B]]. exists m'. split; [right; exact A | exact B].
Qed.

Lemma mval_le_val p c m : In m p -> sc_le (mval m c) (val p c).
Proof.
  induction p as [|h t IH]; intros Hin; [destruct Hin|]. rewrite val_cons.
  destruct Hin as [->|Hin].
  - apply sc_le_ssum_l.
  - eapply sc_le_trans; [apply IH; exact Hin | apply sc_le_ssum_r].
Qed.

Lemma val_ge p c m : In m p -> mmatch c (ds m) = true -> sc_le (sc m) (val p c).
Proof.
  intros Hin E. pose proof (mval_le_val p c m Hin) as H. unfold mval in H. rewrite E in H. exact H.
Qed.

(* adding (a copy of) one of its own monomials does not change the value *)
Lemma ssum_val_own p c m : In m p -> ssum (val p c) (mval m c) = val p c.
Proof. intros H. apply ssum_absorb_r. apply mval_le_val. exact H. Qed.

(* a matching monomial of a polynomial whose value is O has scalar O *)
Lemma val_O_mval p c m : val p c = O -> In m p -> mval m c = O.
Proof.
  intros H Hin. pose proof (mval_le_val p c m Hin) as Hle. rewrite H in Hle.
  apply sc_le_antisym; [exact Hle | apply sc_le_O].
Qed.

(* ------------------------------------------------------------------ *)
(* corr_cell                                                           *)
(* ------------------------------------------------------------------ *)

Definition corr_map (bad : Sc -> bool) (p : poly) : poly :=
  map (fun m => if bad (sc m) then set_sc m I else m) p.

Lemma corr_cell_fst bad p : fst (corr_cell bad p) = corr_map bad p.
Proof. reflexivity. Qed.

Lemma corr_cell_snd_In bad p s :
  In s (snd (corr_cell bad p)) <-> exists m, In m p /\ bad (sc m) = true /\ ds m = s.
Proof.
  unfold corr_cell. cbn [snd]. rewrite in_map_iff. split.
  - intros [m [E Hm]]. apply filter_In in Hm. exists m. tauto.
  - intros [m [H1 [H2 H3]]]. exists m. split; [exact H3|]. apply filter_In. tauto.
Qed.

(* value of the rewritten cell at c when no rewritten monomial matches c *)
Lemma val_corr_map bad p c :
  (forall m, In m p -> mmatch c (ds m) = true -> bad (sc m) = false) ->
  val (corr_map bad p) c = val p c.
Proof.
  unfold corr_map. induction p as [|m t IH]; intros H; [reflexivity|].
  cbn [map]. rewrite !val_cons. rewrite IH by (intros m' Hm'; apply H; right; exact Hm').
  f_equal. destruct (bad (sc m)) eqn:E; [|reflexivity].
  unfold mval. cbn [set_sc ds sc]. destruct (mmatch c (ds m)) eqn:Em; [|reflexivity].
  rewrite (H m (or_introl eq_refl) Em) in E. discriminate.
Qed.

Lemma corr_map_pwf bad p : pwf p -> pwf (corr_map bad p).
Proof.
  intros [Hne Hf]. unfold corr_map. split.
  - destruct p; [congruence | discriminate].
  - apply Forall_forall. intros x Hx. apply in_map_iff in Hx. destruct Hx as [m [<- Hm]].
    rewrite Forall_forall in Hf. specialize (Hf m Hm).
    destruct (bad (sc m)); [apply set_sc_mwf|]; exact Hf.
Qed.

Lemma corr_map_false bad p : (forall s, bad s = false) -> corr_map bad p = p.
Proof.
  intros H. unfold corr_map. induction p as [|m t IH]; [reflexivity|].
  cbn [map]. rewrite H, IH. reflexivity.
Qed.

Lemma filter_false {A} (f : A -> bool) l : (forall a, In a l -> f a = false) -> filter f l = [].
Proof.
  induction l as [|h t IH]; intros H; [reflexivity|]. cbn [filter].
  rewrite (H h (or_introl eq_refl)). apply IH. intros a Ha. apply H. right. exact Ha.
Qed.

(* the p-monomials of a polynomial whose value at c is finite *)
Lemma val_filter_P (isP : Sc -> bool) p c :
  (forall s, isP s = sc_eqb s P) -> val p c <> I ->
  val (filter (fun mo => isP (sc mo)) p) c = if sc_eqb (val p c) P then P else O.
Proof.
  intros HP. induction p as [|m t IH]; intros H; [reflexivity|].
  rewrite val_cons in H. apply ssum_not_I in H. destruct H as [H1 H2].
  cbn [filter]. rewrite HP, val_cons. specialize (IH H2).
  destruct (sc_eqb (sc m) P) eqn:E.
  - rewrite val_cons, IH. apply sc_eqb_eq in E. unfold mval in *. rewrite E in *.
    destruct (mmatch c (ds m)); destruct (val t c); try reflexivity; congruence.
  - rewrite IH. unfold mval in *.
    destruct (mmatch c (ds m)); destruct (sc m); destruct (val t c);
      simpl in *; try reflexivity; try congruence.
Qed.

(* on the diagonal of the L correction: every scalar but m is recorded *)
Lemma diag_rec_iff bad p c :
  (forall s, bad s = negb (sc_eqb s M)) -> NFz p -> sc_le M (val p c) ->
  ((exists s, In s (snd (corr_cell bad p)) /\ mmatch c s = true) <-> val p c <> M).
Proof.
  intros Hb Hnf Hge. split.
  - intros [s [Hs Hm]]. apply corr_cell_snd_In in Hs. destruct Hs as [m [Hin [Hbad <-]]].
    pose proof (val_ge p c m Hin Hm) as Hle. rewrite Hb in Hbad.
    assert (Hnz : sc m <> O).
    { destruct Hnf as [->|[_ Hf]].
      - rewrite val_zero_poly in Hge. unfold sc_le in Hge. simpl in Hge. lia.
      - rewrite Forall_forall in Hf. apply Hf. exact Hin. }
    intros E. rewrite E in Hle. destruct (sc m); unfold sc_le in Hle; simpl in *; try lia; congruence.
  - intros Hne.
    assert (Hnz : val p c <> O).
    { intros E. rewrite E in Hge. unfold sc_le in Hge. simpl in Hge. lia. }
    destruct (val_witness p c _ eq_refl Hnz) as [m [Hin [Hm Hs]]].
    exists (ds m). split; [|exact Hm]. apply corr_cell_snd_In. exists m.
    split; [exact Hin|]. split; [|reflexivity]. rewrite Hb, Hs.
    destruct (val p c); simpl; try reflexivity. congruence.
Qed.

(* after the diagonal rewriting no scalar is p *)
Lemma corr_map_diag_no_P bad (isP : Sc -> bool) p :
  (forall s, bad s = negb (sc_eqb s M)) -> (forall s, isP s = sc_eqb s P) ->
  filter (fun mo => isP (sc mo)) (corr_map bad p) = [].
Proof.
  intros Hb HP. apply filter_false. intros a Ha. unfold corr_map in Ha.
  apply in_map_iff in Ha. destruct Ha as [m [<- _]]. rewrite HP.
  destruct (bad (sc m)) eqn:E; [reflexivity|].
  rewrite Hb in E. destruct (sc m); simpl in *; try discriminate; reflexivity.
Qed.

(* ------------------------------------------------------------------ *)
(* matrices through mget                                               *)
(* ------------------------------------------------------------------ *)

Definition shape (n : nat) (m : matrix) : Prop :=
  length m = n /\ Forall (fun row => length row = n) m.

Lemma shape_row n m i : shape n m -> i < n -> length (nth i m []) = n.
Proof.
  intros [Hl Hr] Hi. rewrite Forall_forall in Hr. apply Hr. apply nth_In. lia.
Qed.

Lemma wf_rel_shape r : wf_rel r -> shape (length (rvars r)) (rmat r).
Proof. intros [_ [_ [H1 H2]]]. split; assumption. Qed.

Lemma nth_list_update {A} (l : list A) f d : forall i k,
  nth k (list_update l i f) d =
  if Nat.eqb k i && Nat.ltb i (length l) then f (nth i l d) else nth k l d.
Proof.
  induction l as [|h t IH]; intros i k.
  - cbn [list_update length]. destruct i; rewrite andb_false_r; reflexivity.
  - destruct i as [|i]; destruct k as [|k]; cbn [list_update nth length]; try reflexivity.
    rewrite IH. reflexivity.
Qed.

Lemma mget_set_cell n m i j q i' j' : shape n m -> i < n -> j < n ->
  mget (set_cell m i j q) i' j' = if Nat.eqb i' i && Nat.eqb j' j then q else mget m i' j'.
Proof.
  intros Hs Hi Hj. unfold mget, set_cell. rewrite nth_list_update.
  assert (Hli : Nat.ltb i (length m) = true) by (apply Nat.ltb_lt; destruct Hs; lia).
  rewrite Hli, andb_true_r. destruct (Nat.eqb_spec i' i) as [->|Hne]; cbn [andb]; [|reflexivity].
  rewrite nth_list_update.
  assert (Hlj : Nat.ltb j (length (nth i m [])) = true)
    by (apply Nat.ltb_lt; rewrite (shape_row n m i Hs Hi); exact Hj).
  rewrite Hlj, andb_true_r. destruct (Nat.eqb j' j); reflexivity.
Qed.

Lemma shape_set_cell n m i j q : shape n m -> shape n (set_cell m i j q).
Proof.
  intros [Hl Hr]. unfold set_cell. split.
  - rewrite list_update_length. exact Hl.
  - apply list_update_forall; [|exact Hr]. intros a Ha. rewrite list_update_length. exact Ha.
Qed.

Lemma mforall_of_mget (Q : poly -> Prop) n m :
  shape n m -> (forall i j, i < n -> j < n -> Q (mget m i j)) -> Forall (fun row => Forall Q row) m.
Proof.
  intros Hs H. apply Forall_forall. intros row Hrow.
  destruct (In_nth _ _ [] Hrow) as [i [Hi Hn]]. destruct Hs as [Hl Hr].
  assert (Hlen : length row = n) by (rewrite Forall_forall in Hr; apply Hr; exact Hrow).
  apply Forall_forall. intros p Hp. destruct (In_nth _ _ zero_poly Hp) as [j [Hj Hn']].
  specialize (H i j). unfold mget in H. rewrite Hn, Hn' in H. apply H; lia.
Qed.

Lemma mget_of_mforall (Q : poly -> Prop) n m i j :
  shape n m -> Forall (fun row => Forall Q row) m -> i < n -> j < n -> Q (mget m i j).
Proof.
  intros Hs H Hi Hj. pose proof (shape_row n m i Hs Hi) as Hrow. destruct Hs as [Hl Hr].
  destruct (mget_In m i j) as [A B]; [lia | lia |].
  rewrite Forall_forall in H. specialize (H _ A). rewrite Forall_forall in H. apply H. exact B.
Qed.

(* ------------------------------------------------------------------ *)
(* enumerate-style lists                                               *)
(* ------------------------------------------------------------------ *)

Lemma length_map_combine_seq {A B} (g : nat * A -> B) (l : list A) s :
  length (map g (combine (seq s (length l)) l)) = length l.
Proof. rewrite map_length, combine_length, seq_length. lia. Qed.

Lemma nth_map_combine_seq {A B} (g : nat * A -> B) (l : list A) (dA : A) (dB : B) : forall s i,
  i < length l -> nth i (map g (combine (seq s (length l)) l)) dB = g (s + i, nth i l dA).
Proof.
  induction l as [|h t IH]; intros s i Hi; cbn [length] in *; [lia|].
  cbn [seq combine map]. destruct i as [|i]; cbn [nth].
  - rewrite Nat.add_0_r. reflexivity.
  - rewrite IH by lia. f_equal. f_equal. lia.
Qed.

Lemma in_combine_seq {A} (l : list A) (d : A) : forall s k a,
  In (k, a) (combine (seq s (length l)) l) <-> exists i, i < length l /\ k = s + i /\ a = nth i l d.
Proof.
  induction l as [|h t IH]; intros s k a; cbn [length seq combine In].
  - split; [intros [] | intros [i [Hi _]]; lia].
  - rewrite IH. split.
    + intros [E|[i [Hi [Hk Ha]]]].
      * injection E as <- <-. exists 0. split; [lia|]. split; [lia | reflexivity].
      * exists (S i). split; [lia|]. split; [lia | exact Ha].
    + intros [i [Hi [Hk Ha]]]. destruct i as [|i].
      * left. cbn [nth] in Ha. subst. f_equal. lia.
      * right. exists i. split; [lia|]. split; [lia | exact Ha].
Qed.

(* ------------------------------------------------------------------ *)
(* cells                                                               *)
(* ------------------------------------------------------------------ *)

Lemma cell_idx r x y i j :
  index_of_str x (rvars r) = Some i -> index_of_str y (rvars r) = Some j ->
  cell r x y = mget (rmat r) i j.
Proof. intros Hx Hy. unfold cell. rewrite Hx, Hy. reflexivity. Qed.

Lemma forallb_false_intro {A} (f : A -> bool) l x : In x l -> f x = false -> forallb f l = false.
Proof.
  intros Hin Hf. destruct (forallb f l) eqn:E; [|reflexivity].
  rewrite forallb_forall in E. rewrite (E x Hin) in Hf. discriminate.
Qed.

Lemma forallb_false_elim {A} (f : A -> bool) l : forallb f l = false -> exists x, In x l /\ f x = false.
Proof.
  induction l as [|h t IH]; cbn [forallb]; [discriminate|].
  destruct (f h) eqn:E; cbn [andb].
  - intros H. destruct (IH H) as [x [Hx Hfx]]. exists x. split; [right; exact Hx | exact Hfx].
  - intros _. exists h. split; [left; reflexivity | exact E].
Qed.
