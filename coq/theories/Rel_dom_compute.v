(* Whole-analysis consequence of Rel_dom.v: every relation returned by Analysis.compute / cmds has all
   its delta values below 3, and so has every delta list recorded in the delta graph on the way
   (provided the ones recorded before had). *)
From Coq Require Import String List Bool Arith Lia.
From PM Require Import Semiring Poly Rel Analysis Calculus Rel_sem Poly_dom An_stmts Rel_dom.
From PM Require DeltaGraph.
Import ListNotations.
Open Scope list_scope.

Definition rec_dom (d : dgraph) : Prop :=
  Forall (Forall (fun e : delta => fst e < 3)) (DeltaGraph.dg_recorded d).

(* what we carry through the walk *)
Definition cr_dom (r : cr) : Prop := rel_dom (cr_rel r) /\ rec_dom (cr_dg r).

Lemma record_node_dom n l :
  Forall (fun e : delta => fst e < 3) n -> Forall (Forall (fun e : delta => fst e < 3)) l ->
  Forall (Forall (fun e : delta => fst e < 3)) (DeltaGraph.record_node n l).
Proof.
  intros Hn Hl. unfold DeltaGraph.record_node. destruct (existsb (DeltaGraph.node_eqb n) l); [exact Hl|].
  apply Forall_app. split; [exact Hl | constructor; [exact Hn | constructor]].
Qed.

Lemma dg_insert_all_dom l : forall d d',
  dg_insert_all d l = ROk d' -> (forall s, In s l -> Forall (fun e => fst e < 3) s) ->
  rec_dom d -> rec_dom d'.
Proof.
  induction l as [|n t IH]; intros d d' H Hl Hd; cbn [dg_insert_all] in H.
  - injection H as <-. exact Hd.
  - unfold rbind, of_dg in H.
    destruct (DeltaGraph.from_monomial d n) as [d1|e] eqn:E; [|discriminate].
    eapply IH; [exact H | intros s Hs; apply Hl; right; exact Hs |].
    unfold DeltaGraph.from_monomial, DeltaGraph.bind in E.
    destruct (DeltaGraph.insert_node _ n); [|discriminate]. injection E as <-.
    unfold rec_dom. cbn [DeltaGraph.dg_recorded].
    apply record_node_dom; [apply Hl; left; reflexivity | exact Hd].
Qed.

Lemma dg_fusion_dom d d' : dg_fusion d = ROk d' -> rec_dom d -> rec_dom d'.
Proof.
  unfold dg_fusion, rbind, of_dg. intros H Hd.
  destruct (DeltaGraph.fusion _ _); [|discriminate]. injection H as <-. exact Hd.
Qed.

Lemma close_while_dom rb r : close_while rb = ROk r -> cr_dom rb -> cr_dom r.
Proof.
  unfold close_while. cbv zeta. intros H [Hr Hd].
  destruct (rel_fixpoint fix_fuel _) as [fx|] eqn:F; [|discriminate].
  assert (Hfx : rel_dom fx).
  { eapply rel_dom_fixpoint; [exact F|]. apply rel_dom_comp; [apply rel_dom_empty | exact Hr]. }
  destruct (rel_dom_while_correction fx Hfx) as [A B].
  destruct (while_correction fx) as [rw rec]. cbn [fst snd] in A, B.
  unfold rbind in H.
  destruct (dg_insert_all (cr_dg rb) rec) as [d1|] eqn:E1; [|discriminate].
  destruct (dg_fusion d1) as [d2|] eqn:E2; [|discriminate].
  injection H as <-. split; cbn [cr_rel cr_dg]; [exact A|].
  eapply dg_fusion_dom; [exact E2|]. eapply dg_insert_all_dom; [exact E1 | exact B | exact Hd].
Qed.

Lemma close_for_dom x rb r : close_for x rb = ROk r -> cr_dom rb -> cr_dom r.
Proof.
  unfold close_for. cbv zeta. intros H [Hr Hd].
  destruct (rel_fixpoint fix_fuel _) as [fx|] eqn:F; [|discriminate].
  assert (Hfx : rel_dom fx).
  { eapply rel_dom_fixpoint; [exact F|]. apply rel_dom_comp; [apply rel_dom_zero | exact Hr]. }
  destruct (loop_correction fx x) as [[rl rec]|] eqn:L; [|discriminate].
  destruct (rel_dom_loop_correction _ _ _ _ L Hfx) as [A B].
  unfold rbind in H.
  destruct (dg_insert_all (cr_dg rb) rec) as [d1|] eqn:E1; [|discriminate].
  destruct (dg_fusion d1) as [d2|] eqn:E2; [|discriminate].
  injection H as <-. split; cbn [cr_rel cr_dg]; [exact A|].
  eapply dg_fusion_dom; [exact E2|]. eapply dg_insert_all_dom; [exact E1 | exact B | exact Hd].
Qed.

Section Walk.
Variable rec : nat -> stmt -> dgraph -> res cr.
Hypothesis rec_ok : forall i s d r, rec i s d = ROk r -> rec_dom d -> cr_dom r.

Lemma seq_compound_dom l : forall index acc d r,
  seq_compound rec l index acc d = ROk r -> rel_dom acc -> rec_dom d -> cr_dom r.
Proof.
  induction l as [|s t IH]; intros index acc d r H Ha Hd; cbn [seq_compound] in H.
  - injection H as <-. split; assumption.
  - unfold rbind in H. destruct (rec index s d) as [r1|] eqn:E; [|discriminate].
    destruct (rec_ok _ _ _ _ E Hd) as [A B].
    assert (C : rel_dom (rel_comp acc (cr_rel r1))) by (apply rel_dom_comp; assumption).
    cbv zeta in H. destruct (cr_exit r1).
    + injection H as <-. split; assumption.
    + eapply IH; eassumption.
Qed.

Lemma seq_branch_dom l : forall index acc d r,
  seq_branch rec l index acc d = ROk r -> rel_dom acc -> rec_dom d -> cr_dom r.
Proof.
  induction l as [|s t IH]; intros index acc d r H Ha Hd; cbn [seq_branch] in H.
  - injection H as <-. split; assumption.
  - unfold rbind in H. destruct (rec index s d) as [r1|] eqn:E; [|discriminate].
    destruct (rec_ok _ _ _ _ E Hd) as [A B].
    destruct (cr_exit r1).
    + injection H as <-. split; assumption.
    + eapply IH; [exact H | apply rel_dom_comp; assumption | exact B].
Qed.
End Walk.

Lemma skip_dom index d r : skip index d = ROk r -> rec_dom d -> cr_dom r.
Proof. unfold skip. intros H Hd. injection H as <-. split; [apply rel_dom_empty | exact Hd]. Qed.

Lemma an_binary_dg index x op y z d r : an_binary index x op y z d = ROk r -> cr_dg r = d.
Proof.
  unfold an_binary, an_constant. intros H.
  destruct y as [y|], z as [z|]; cbv beta iota in H;
    try (injection H as <-; reflexivity);
    (destruct (create_vector _ _ _ _ _) as [[i' vec]|]; [|discriminate]);
    unfold rbind in H; (destruct (leaf_rel _ _ _) as [r0|]; [|discriminate]);
    injection H as <-; reflexivity.
Qed.

Lemma an_binary_cr_dom index x op y z d r : an_binary index x op y z d = ROk r -> rec_dom d -> cr_dom r.
Proof.
  intros H Hd. split; [eapply rel_dom_an_binary; exact H|].
  rewrite (an_binary_dg _ _ _ _ _ _ _ H). exact Hd.
Qed.

Lemma an_constant_cr_dom index x d r : an_constant index x d = ROk r -> rec_dom d -> cr_dom r.
Proof.
  intros H Hd. split; [eapply rel_dom_an_constant; exact H|].
  unfold an_constant in H. injection H as <-. exact Hd.
Qed.

Lemma an_id_cr_dom index x y d r : an_id index x y d = ROk r -> rec_dom d -> cr_dom r.
Proof.
  intros H Hd. split; [eapply rel_dom_an_id; exact H|].
  unfold an_id, skip, rbind in H. destruct (String.eqb x y).
  - injection H as <-. exact Hd.
  - destruct (leaf_rel _ _ _); [|discriminate]. injection H as <-. exact Hd.
Qed.

Theorem compute_dom fuel : forall index s d r,
  compute fuel index s d = ROk r -> rec_dom d -> cr_dom r.
Proof.
  induction fuel as [|f IH]; intros index s d r H Hd; cbn [compute] in H; [discriminate|].
  destruct s.
  - eapply skip_dom; eassumption.
  - eapply an_binary_cr_dom; eassumption.
  - eapply an_constant_cr_dom; eassumption.
  - eapply an_id_cr_dom; eassumption.
  - destruct (unary_asgn_rewrite x op e); [eapply IH | eapply skip_dom]; eassumption.
  - destruct e; try (eapply skip_dom; eassumption).
    destruct (mem_strb op INC_DEC); [|eapply skip_dom; eassumption].
    unfold inc_dec_stmt in H. eapply an_binary_cr_dom; eassumption.
  - unfold rbind in H.
    destruct (seq_branch (compute f) t index rel_empty d) as [rt|] eqn:Et; [|discriminate].
    pose proof (seq_branch_dom _ IH _ _ _ _ _ Et rel_dom_empty Hd) as [At Bt].
    destruct (cr_exit rt); [injection H as <-; split; assumption|].
    destruct (seq_branch (compute f) e (cr_index rt) rel_empty (cr_dg rt)) as [re|] eqn:Ee; [|discriminate].
    pose proof (seq_branch_dom _ IH _ _ _ _ _ Ee rel_dom_empty Bt) as [Ae Be].
    destruct (cr_exit re); injection H as <-; split; try assumption.
    cbn [cr_rel]. apply rel_dom_sum; assumption.
  - unfold rbind in H. destruct (compute f index s d) as [rb|] eqn:Eb; [|discriminate].
    pose proof (IH _ _ _ _ Eb Hd) as Hb.
    destruct (cr_exit rb); [injection H as <-; exact Hb | eapply close_while_dom; eassumption].
  - destruct (loop_compat iters srcs conds nxt s); [|eapply skip_dom; eassumption].
    unfold rbind in H. destruct (compute f index s d) as [rb|] eqn:Eb; [|discriminate].
    pose proof (IH _ _ _ _ Eb Hd) as Hb.
    destruct (cr_exit rb); [injection H as <-; exact Hb | eapply close_for_dom; eassumption].
  - eapply (seq_compound_dom _ IH); [exact H | apply rel_dom_empty | exact Hd].
Qed.

Lemma cmds_cons s t stop index acc di d :
  cmds (s :: t) stop index acc di d =
  rbind (compute depth_fuel index s d) (fun r =>
    let di' := di || cr_exit r in
    if stop && di' then ROk (di', cr_index r, acc, cr_dg r)
    else cmds t stop (cr_index r) (rel_comp acc (cr_rel r)) di' (cr_dg r)).
Proof. reflexivity. Qed.

Theorem cmds_dom l : forall stop index acc di d di' index' r' d',
  cmds l stop index acc di d = ROk (di', index', r', d') ->
  rel_dom acc -> rec_dom d -> rel_dom r' /\ rec_dom d'.
Proof.
  induction l as [|s t IH]; intros stop index acc di d di' index' r' d' H Ha Hd.
  - cbn [cmds] in H. injection H as _ _ <- <-. split; assumption.
  - rewrite cmds_cons in H.
    remember (compute depth_fuel index s d) as c eqn:E. symmetry in E.
    destruct c as [r|]; [|discriminate]. cbn [rbind] in H.
    destruct (compute_dom _ _ _ _ _ E Hd) as [A B].
    remember (di || cr_exit r) as di0 eqn:Edi. clear Edi. cbv zeta in H.
    destruct (stop && di0).
    + injection H as _ _ <- <-. split; assumption.
    + eapply IH; [exact H | apply rel_dom_comp; assumption | exact B].
Qed.

(* the relation of a function result, and everything handed to Choices.generate *)
Theorem analyse_dom f stop res : analyse f stop = ROk res ->
  (forall r, fr_rel res = Some r -> rel_dom r) /\
  (forall s, In s (fr_inf_deltas res) -> Forall (fun e => fst e < 3) s).
Proof.
  unfold analyse. cbv zeta. unfold rbind. intros H.
  destruct (cmds _ stop 0 _ false _) as [[[[di index] r] d]|] eqn:E; [|discriminate].
  destruct (cmds_dom _ _ _ _ _ _ _ _ _ _ E (rel_dom_identity _) (Forall_nil _)) as [A B].
  injection H as <-. cbn [fr_rel fr_inf_deltas]. split.
  - intros r0 Hr0. destruct (_ && stop); [discriminate|]. injection Hr0 as <-. exact A.
  - intros s Hs. destruct di; [destruct Hs|].
    revert s Hs. apply rel_dom_infinity_deltas; [exact A|].
    unfold rec_dom in B. rewrite Forall_forall in B. exact B.
Qed.

Print Assumptions compute_dom.
Print Assumptions cmds_dom.
Print Assumptions analyse_dom.
