(* Executable model of pymwp/result.py (Serializable and its six subclasses), of the pieces of
   matrix.py / monomial.py / polynomial.py / relation.py / choice.py / bound.py that saving and loading a
   result go through, and of file_io.save_result / load_result.

   Layout.  Objects are typed records (one per class); [anyobj] is their sum and [pyval] the values an
   attribute can hold.  Attribute access is BY NAME ([getattr] / [setattr]), because the Python code is
   driven by lists of attribute names: [ser_to_dict] (Serializable.to_dict) and [ser_load]
   (Serializable._load) iterate over the lists GENERATED from result.py (PMGen.ResultGen), and the
   constructors interpret the generated __init__ tables.  A name the records do not have gives
   [Err (AttributeError _)], a JSON value of an unexpected type [Err (TypeError _)] (the Python would
   store it; such files are not produced by save_result and are outside the model's domain).
   The dynamic dispatch `child.to_dict()` / `objT.from_dict(..)` is recursion through [anyobj];
   it is unrolled with a depth counter ([Err Depth] if exhausted; the class nesting is 4 deep).
   [tst] is the test `_try_set` and `FuncResult.from_dict` apply to a looked-up value: [not_none]
   in the current code, [truthy] before the repair (kept to state the regression lemmas).
   JSON text written by json.dump and read back by json.load is the identity on [json] (tuples
   become lists: both are [jarr]).  No proofs in this file. *)
From Coq Require Import String Ascii List Bool ZArith Arith.
From PMGen Require Import ResultGen.
From PM Require Import Semiring Poly Rel Json.
From PM Require Bound Choice.
Import ListNotations.
Open Scope string_scope.
Open Scope list_scope.

(* ------------------------------------------------------------------ errors *)

Inductive err :=
| AttributeError (a : string)
| TypeError (what : string)
| KeyError (k : string)
| ValueError (what : string)
| Depth
| Unmodelled (what : string).

Inductive res (A : Type) := Ok (a : A) | Err (e : err).
Arguments Ok {A} a.
Arguments Err {A} e.

Definition bind {A B} (r : res A) (f : A -> res B) : res B :=
  match r with Ok a => f a | Err e => Err e end.
Notation "x <- e ;; f" := (bind e (fun x => f)) (at level 61, e at next level, right associativity).

Fixpoint map_res {A B} (f : A -> res B) (l : list A) : res (list B) :=
  match l with
  | [] => Ok []
  | x :: t => y <- f x ;; r <- map_res f t ;; Ok (y :: r)
  end.

Fixpoint fold_res {A B} (f : A -> B -> res A) (l : list B) (a : A) : res A :=
  match l with
  | [] => Ok a
  | x :: t => a' <- f a x ;; fold_res f t a'
  end.

(* ------------------------------------------------------------------ the objects *)

Record Program := mkProgram {
  pg_path : option string; pg_n_lines : Z; pg_n_func : Z; pg_n_loops : Z;
  pg_n_func_vars : Z; pg_n_loop_vars : Z }.

Record VResult := mkVR {
  vr_name : option string;
  vr_m : bool; vr_w : bool; vr_p : bool;             (* _is_m, _is_w, _is_p *)
  vr_bound : option Bound.MwpBound;
  vr_choices : option Choice.choices }.

Record LoopResult := mkLR {
  lr_code : option string; lr_start : Z; lr_end : Z;
  lr_variables : list (string * VResult) }.           (* dict name -> VResult *)

Record FuncLoops := mkFL {
  fl_name : option string; fl_start : Z; fl_end : Z;
  fl_loops : list LoopResult }.

Record FuncResult := mkFR {
  fr_name : option string; fr_infinite : bool; fr_start : Z; fr_end : Z;
  fr_variables : list string; fr_inf_flows : option string; fr_index : Z;
  fr_func_code : option string;
  fr_relation : option rel; fr_choices : option Choice.choices; fr_bound : option Bound.bdict }.

Record Result := mkRS {
  rs_start : Z; rs_end : Z;
  rs_program : option Program;
  rs_relations : list (string * FuncResult);
  rs_loops : list (string * FuncLoops) }.

Inductive anyobj :=
| AProgram (p : Program)
| AVResult (v : VResult)
| ALoopResult (l : LoopResult)
| AFuncLoops (f : FuncLoops)
| AFuncResult (f : FuncResult)
| AResult (r : Result).

Inductive pyval :=
| VJ (j : json)                              (* None, bool, int, str, list of str, ... *)
| VObj (o : anyobj)
| VList (l : list anyobj)
| VDict (d : list (string * anyobj))
| VRel (r : rel)
| VCh (c : Choice.choices)
| VBd (b : Bound.bdict)
| VMb (b : Bound.MwpBound).

Definition class_name (o : anyobj) : string :=
  match o with
  | AProgram _ => "Program" | AVResult _ => "VResult" | ALoopResult _ => "LoopResult"
  | AFuncLoops _ => "FuncLoops" | AFuncResult _ => "FuncResult" | AResult _ => "Result"
  end.

Fixpoint find_tab (l : list ktab) (cls : string) : option ktab :=
  match l with
  | [] => None
  | t :: r => if String.eqb (k_name t) cls then Some t else find_tab r cls
  end.

Definition tab_of (cls : string) : res ktab :=
  match find_tab CLASS_TABLES cls with Some t => Ok t | None => Err (Unmodelled ("class " ++ cls)) end.

(* bool(x) for attribute values: Relation, Bound, MwpBound and the result classes define neither
   __bool__ nor __len__ (always true); Choices.__bool__ is `not self.infinite` *)
Definition pytruthy (v : pyval) : bool :=
  match v with
  | VJ j => truthy j
  | VObj _ => true
  | VList l => match l with [] => false | _ => true end
  | VDict d => match d with [] => false | _ => true end
  | VRel _ => true
  | VCh c => negb (Choice.infinite c)
  | VBd _ => true
  | VMb _ => true
  end.

(* ------------------------------------------------------------------ getattr *)

Definition oval {A} (f : A -> pyval) (o : option A) : pyval :=
  match o with None => VJ jnull | Some a => f a end.

(* the attributes of an object, by name (instance attributes and the VResult properties) *)
Definition fields (o : anyobj) : list (string * pyval) :=
  match o with
  | AProgram p =>
      [("program_path", VJ (ostr (pg_path p))); ("n_lines", VJ (jnum (pg_n_lines p)));
       ("n_func", VJ (jnum (pg_n_func p))); ("n_loops", VJ (jnum (pg_n_loops p)));
       ("n_func_vars", VJ (jnum (pg_n_func_vars p))); ("n_loop_vars", VJ (jnum (pg_n_loop_vars p)))]
  | AVResult v =>
      [("name", VJ (ostr (vr_name v)));
       ("is_m", VJ (jbool (vr_m v))); ("is_w", VJ (jbool (vr_w v))); ("is_p", VJ (jbool (vr_p v)));
       ("_is_m", VJ (jbool (vr_m v))); ("_is_w", VJ (jbool (vr_w v))); ("_is_p", VJ (jbool (vr_p v)));
       ("bound", oval VMb (vr_bound v)); ("choices", oval VCh (vr_choices v))]
  | ALoopResult l =>
      [("loop_code", VJ (ostr (lr_code l))); ("start_time", VJ (jnum (lr_start l)));
       ("end_time", VJ (jnum (lr_end l)));
       ("variables", VDict (map (fun kv => (fst kv, AVResult (snd kv))) (lr_variables l)))]
  | AFuncLoops f =>
      [("name", VJ (ostr (fl_name f))); ("start_time", VJ (jnum (fl_start f)));
       ("end_time", VJ (jnum (fl_end f))); ("loops", VList (map ALoopResult (fl_loops f)))]
  | AFuncResult f =>
      [("name", VJ (ostr (fr_name f))); ("infinite", VJ (jbool (fr_infinite f)));
       ("start_time", VJ (jnum (fr_start f))); ("end_time", VJ (jnum (fr_end f)));
       ("variables", VJ (jstrs (fr_variables f))); ("inf_flows", VJ (ostr (fr_inf_flows f)));
       ("index", VJ (jnum (fr_index f))); ("func_code", VJ (ostr (fr_func_code f)));
       ("relation", oval VRel (fr_relation f)); ("choices", oval VCh (fr_choices f));
       ("bound", oval VBd (fr_bound f))]
  | AResult r =>
      [("start_time", VJ (jnum (rs_start r))); ("end_time", VJ (jnum (rs_end r)));
       ("program", oval (fun p => VObj (AProgram p)) (rs_program r));
       ("relations", VDict (map (fun kv => (fst kv, AFuncResult (snd kv))) (rs_relations r)));
       ("loops", VDict (map (fun kv => (fst kv, AFuncLoops (snd kv))) (rs_loops r)))]
  end.

Definition getattr (o : anyobj) (a : string) : res pyval :=
  match dget (fields o) a with Some v => Ok v | None => Err (AttributeError a) end.

(* ------------------------------------------------------------------ typed views of values *)

Definition as_json (v : pyval) : res json :=
  match v with VJ j => Ok j | _ => Err (TypeError "not JSON serializable") end.

Definition as_ostr (v : pyval) : res (option string) :=
  match v with
  | VJ jnull => Ok None
  | VJ (jstr s) => Ok (Some s)
  | _ => Err (TypeError "str or None expected")
  end.

Definition as_z (v : pyval) : res Z :=
  match v with VJ (jnum z) => Ok z | _ => Err (TypeError "int expected") end.

Definition as_bool (v : pyval) : res bool :=
  match v with VJ (jbool b) => Ok b | _ => Err (TypeError "bool expected") end.

Definition j_str (j : json) : res string :=
  match j with jstr s => Ok s | _ => Err (TypeError "str expected") end.

Definition j_nat (j : json) : res nat :=
  match j with
  | jnum z => if (0 <=? z)%Z then Ok (Z.to_nat z) else Err (TypeError "natural expected")
  | _ => Err (TypeError "int expected")
  end.

Definition j_list {A} (f : json -> res A) (j : json) : res (list A) :=
  match j with jarr l => map_res f l | _ => Err (TypeError "list expected") end.

Definition as_strs (v : pyval) : res (list string) :=
  match v with VJ j => j_list j_str j | _ => Err (TypeError "list of str expected") end.

Fixpoint all_of {A} (f : anyobj -> option A) (l : list anyobj) : res (list A) :=
  match l with
  | [] => Ok []
  | o :: t => match f o with
              | Some a => r <- all_of f t ;; Ok (a :: r)
              | None => Err (TypeError "object of another class")
              end
  end.

Fixpoint all_of_d {A} (f : anyobj -> option A) (d : list (string * anyobj)) : res (list (string * A)) :=
  match d with
  | [] => Ok []
  | (k, o) :: t => match f o with
                   | Some a => r <- all_of_d f t ;; Ok ((k, a) :: r)
                   | None => Err (TypeError "object of another class")
                   end
  end.

Definition is_program o := match o with AProgram p => Some p | _ => None end.
Definition is_vresult o := match o with AVResult p => Some p | _ => None end.
Definition is_loopresult o := match o with ALoopResult p => Some p | _ => None end.
Definition is_funcloops o := match o with AFuncLoops p => Some p | _ => None end.
Definition is_funcresult o := match o with AFuncResult p => Some p | _ => None end.
Definition is_result o := match o with AResult p => Some p | _ => None end.

(* a list / dict attribute holding objects of one class; the literals [] and {} of __init__ too *)
Definition as_objs {A} (f : anyobj -> option A) (v : pyval) : res (list A) :=
  match v with
  | VList l => all_of f l
  | VJ (jarr []) => Ok []
  | _ => Err (TypeError "list of objects expected")
  end.

Definition as_objd {A} (f : anyobj -> option A) (v : pyval) : res (list (string * A)) :=
  match v with
  | VDict d => all_of_d f d
  | VJ (jobj []) => Ok []
  | _ => Err (TypeError "dict of objects expected")
  end.

(* ------------------------------------------------------------------ setattr *)

(* VResult property setters (result.py:476-505) *)
Definition vr_set_m (v : VResult) (b : bool) : VResult :=
  if b then mkVR (vr_name v) true true true (vr_bound v) (vr_choices v)
  else mkVR (vr_name v) false (vr_w v) (vr_p v) (vr_bound v) (vr_choices v).
Definition vr_set_w (v : VResult) (b : bool) : VResult :=
  if b then mkVR (vr_name v) (vr_m v) true true (vr_bound v) (vr_choices v)
  else mkVR (vr_name v) false false (vr_p v) (vr_bound v) (vr_choices v).
Definition vr_set_p (v : VResult) (b : bool) : VResult :=
  if b then mkVR (vr_name v) (vr_m v) (vr_w v) true (vr_bound v) (vr_choices v)
  else mkVR (vr_name v) false false false (vr_bound v) (vr_choices v).

Definition is (a b : string) : bool := String.eqb a b.

Definition set_program (p : Program) (a : string) (v : pyval) : res Program :=
  let '(mkProgram pa nl nf nlo nfv nlv) := p in
  if is a "program_path" then x <- as_ostr v ;; Ok (mkProgram x nl nf nlo nfv nlv)
  else if is a "n_lines" then x <- as_z v ;; Ok (mkProgram pa x nf nlo nfv nlv)
  else if is a "n_func" then x <- as_z v ;; Ok (mkProgram pa nl x nlo nfv nlv)
  else if is a "n_loops" then x <- as_z v ;; Ok (mkProgram pa nl nf x nfv nlv)
  else if is a "n_func_vars" then x <- as_z v ;; Ok (mkProgram pa nl nf nlo x nlv)
  else if is a "n_loop_vars" then x <- as_z v ;; Ok (mkProgram pa nl nf nlo nfv x)
  else Err (Unmodelled ("Program." ++ a)).

Definition set_vresult (r : VResult) (a : string) (v : pyval) : res VResult :=
  let '(mkVR na m w p bd ch) := r in
  if is a "name" then x <- as_ostr v ;; Ok (mkVR x m w p bd ch)
  else if is a "is_m" then x <- as_bool v ;; Ok (vr_set_m r x)
  else if is a "is_w" then x <- as_bool v ;; Ok (vr_set_w r x)
  else if is a "is_p" then x <- as_bool v ;; Ok (vr_set_p r x)
  else if is a "_is_m" then x <- as_bool v ;; Ok (mkVR na x w p bd ch)
  else if is a "_is_w" then x <- as_bool v ;; Ok (mkVR na m x p bd ch)
  else if is a "_is_p" then x <- as_bool v ;; Ok (mkVR na m w x bd ch)
  else if is a "bound" then
    match v with
    | VJ jnull => Ok (mkVR na m w p None ch)
    | VMb b => Ok (mkVR na m w p (Some b) ch)
    | _ => Err (TypeError "MwpBound or None expected")
    end
  else if is a "choices" then
    match v with
    | VJ jnull => Ok (mkVR na m w p bd None)
    | VCh c => Ok (mkVR na m w p bd (Some c))
    | _ => Err (TypeError "Choices or None expected")
    end
  else Err (Unmodelled ("VResult." ++ a)).

Definition set_loopresult (r : LoopResult) (a : string) (v : pyval) : res LoopResult :=
  let '(mkLR co st en vs) := r in
  if is a "loop_code" then x <- as_ostr v ;; Ok (mkLR x st en vs)
  else if is a "start_time" then x <- as_z v ;; Ok (mkLR co x en vs)
  else if is a "end_time" then x <- as_z v ;; Ok (mkLR co st x vs)
  else if is a "variables" then x <- as_objd is_vresult v ;; Ok (mkLR co st en x)
  else Err (Unmodelled ("LoopResult." ++ a)).

Definition set_funcloops (r : FuncLoops) (a : string) (v : pyval) : res FuncLoops :=
  let '(mkFL na st en lo) := r in
  if is a "name" then x <- as_ostr v ;; Ok (mkFL x st en lo)
  else if is a "start_time" then x <- as_z v ;; Ok (mkFL na x en lo)
  else if is a "end_time" then x <- as_z v ;; Ok (mkFL na st x lo)
  else if is a "loops" then x <- as_objs is_loopresult v ;; Ok (mkFL na st en x)
  else Err (Unmodelled ("FuncLoops." ++ a)).

Definition set_funcresult (r : FuncResult) (a : string) (v : pyval) : res FuncResult :=
  let '(mkFR na inf st en vs fl ix co re ch bd) := r in
  if is a "name" then x <- as_ostr v ;; Ok (mkFR x inf st en vs fl ix co re ch bd)
  else if is a "infinite" then x <- as_bool v ;; Ok (mkFR na x st en vs fl ix co re ch bd)
  else if is a "start_time" then x <- as_z v ;; Ok (mkFR na inf x en vs fl ix co re ch bd)
  else if is a "end_time" then x <- as_z v ;; Ok (mkFR na inf st x vs fl ix co re ch bd)
  else if is a "variables" then x <- as_strs v ;; Ok (mkFR na inf st en x fl ix co re ch bd)
  else if is a "inf_flows" then x <- as_ostr v ;; Ok (mkFR na inf st en vs x ix co re ch bd)
  else if is a "index" then x <- as_z v ;; Ok (mkFR na inf st en vs fl x co re ch bd)
  else if is a "func_code" then x <- as_ostr v ;; Ok (mkFR na inf st en vs fl ix x re ch bd)
  else if is a "relation" then
    match v with
    | VJ jnull => Ok (mkFR na inf st en vs fl ix co None ch bd)
    | VRel x => Ok (mkFR na inf st en vs fl ix co (Some x) ch bd)
    | _ => Err (TypeError "Relation or None expected")
    end
  else if is a "choices" then
    match v with
    | VJ jnull => Ok (mkFR na inf st en vs fl ix co re None bd)
    | VCh x => Ok (mkFR na inf st en vs fl ix co re (Some x) bd)
    | _ => Err (TypeError "Choices or None expected")
    end
  else if is a "bound" then
    match v with
    | VJ jnull => Ok (mkFR na inf st en vs fl ix co re ch None)
    | VBd x => Ok (mkFR na inf st en vs fl ix co re ch (Some x))
    | _ => Err (TypeError "Bound or None expected")
    end
  else Err (Unmodelled ("FuncResult." ++ a)).

(* Result.color and Result._on_emit are display state; they are neither saved nor loaded *)
Definition set_result (r : Result) (a : string) (v : pyval) : res Result :=
  let '(mkRS st en pg rl lo) := r in
  if is a "start_time" then x <- as_z v ;; Ok (mkRS x en pg rl lo)
  else if is a "end_time" then x <- as_z v ;; Ok (mkRS st x pg rl lo)
  else if is a "program" then
    match v with
    | VJ jnull => Ok (mkRS st en None rl lo)
    | VObj (AProgram p) => Ok (mkRS st en (Some p) rl lo)
    | _ => Err (TypeError "Program or None expected")
    end
  else if is a "relations" then x <- as_objd is_funcresult v ;; Ok (mkRS st en pg x lo)
  else if is a "loops" then x <- as_objd is_funcloops v ;; Ok (mkRS st en pg rl x)
  else if is a "color" || is a "_on_emit" then Ok r
  else Err (Unmodelled ("Result." ++ a)).

Definition setattr (o : anyobj) (a : string) (v : pyval) : res anyobj :=
  match o with
  | AProgram p => x <- set_program p a v ;; Ok (AProgram x)
  | AVResult p => x <- set_vresult p a v ;; Ok (AVResult x)
  | ALoopResult p => x <- set_loopresult p a v ;; Ok (ALoopResult x)
  | AFuncLoops p => x <- set_funcloops p a v ;; Ok (AFuncLoops x)
  | AFuncResult p => x <- set_funcresult p a v ;; Ok (AFuncResult x)
  | AResult p => x <- set_result p a v ;; Ok (AResult x)
  end.

(* ------------------------------------------------------------------ constructors *)

(* an object before __init__ ran: every field is overwritten by the generated __init__ table
   (lemma [init_tables_cover] in Result_proofs.v) *)
Definition blank (cls : string) : res anyobj :=
  if is cls "Program" then Ok (AProgram (mkProgram None 0 0 0 0 0))
  else if is cls "VResult" then Ok (AVResult (mkVR None false false false None None))
  else if is cls "LoopResult" then Ok (ALoopResult (mkLR None 0 0 []))
  else if is cls "FuncLoops" then Ok (AFuncLoops (mkFL None 0 0 []))
  else if is cls "FuncResult" then Ok (AFuncResult (mkFR None false 0 0 [] None 0 None None None None))
  else if is cls "Result" then Ok (AResult (mkRS 0 0 None [] []))
  else Err (Unmodelled ("class " ++ cls)).

Definition lit_val (l : lit) : res pyval :=
  match l with
  | LNone => Ok (VJ jnull)
  | LBool b => Ok (VJ (jbool b))
  | LInt z => Ok (VJ (jnum z))
  | LStr s => Ok (VJ (jstr s))
  | LRequired => Err (TypeError "missing required argument")
  end.

Definition param_val (t : ktab) (args : list (string * pyval)) (p : string) : res pyval :=
  match dget args p with
  | Some v => Ok v
  | None => match dget (k_params t) p with
            | Some l => lit_val l
            | None => Err (Unmodelled ("parameter " ++ p))
            end
  end.

(* Cls( **args): runs the generated __init__ table *)
Fixpoint new_obj (depth : nat) (cls : string) (args : list (string * pyval)) : res anyobj :=
  match depth with
  | 0 => Err Depth
  | S d =>
      t <- tab_of cls ;;
      o0 <- blank cls ;;
      fold_res (fun o (ae : string * iexp) =>
                  v <- match snd ae with
                       | IParam p => param_val t args p
                       | IParamOrList p =>
                           x <- param_val t args p ;; Ok (if pytruthy x then x else VJ (jarr []))
                       | ILit l => lit_val l
                       | IEmptyList => Ok (VJ (jarr []))
                       | IEmptyDict => Ok (VJ (jobj []))
                       | INew c => x <- new_obj d c [] ;; Ok (VObj x)
                       end ;;
                  setattr o (fst ae) v)
               (k_init t) o0
  end.

Definition NEW_DEPTH : nat := 3.

(* ------------------------------------------------------------------ matrix / relation / choices / bound <-> JSON *)

(* Monomial.to_dict *)
Definition mono_json (m : mono) : json :=
  jobj [("scalar", jstr (sc_str (sc m)));
        ("deltas", jarr (map (fun d : delta => jarr [jnat (fst d); jnat (snd d)]) (ds m)))].

(* matrix.encode *)
Definition encode (m : matrix) : json :=
  jarr (map (fun row => jarr (map (fun p : poly => jarr (map mono_json p)) row)) m).

(* Relation.to_dict *)
Definition rel_json (r : rel) : json := jobj [("matrix", encode (rmat r))].

Definition item (kv : list (string * json)) (k : string) : res json :=
  match dget kv k with Some v => Ok v | None => Err (KeyError k) end.

(* tuple(d) for d in monomial["deltas"]: a delta is a pair (value, index) *)
Definition j_delta (j : json) : res delta :=
  match j with
  | jarr [a; b] => x <- j_nat a ;; y <- j_nat b ;; Ok (x, y)
  | _ => Err (TypeError "delta is not a pair")
  end.

(* Monomial(scalar=monomial["scalar"], deltas=[tuple(d) for d in monomial["deltas"]]) *)
Definition j_mono (j : json) : res mono :=
  match j with
  | jobj kv =>
      s <- item kv "scalar" ;; s <- j_str s ;;
      d <- item kv "deltas" ;; d <- j_list j_delta d ;;
      match sc_of_str s with
      | Some c => Ok (mk_mono c d)
      | None => Err (Unmodelled ("scalar " ++ s))
      end
  | _ => Err (TypeError "monomial is not a dict")
  end.

(* matrix.decode *)
Definition decode (j : json) : res matrix :=
  j_list (j_list (fun p => l <- j_list j_mono p ;; Ok (mk_poly l))) j.

(* Choices.valid as JSON *)
Definition valid_json (v : list Choice.box) : json :=
  jarr (map (fun b : Choice.box => jarr (map (fun e : Choice.entry => jarr (map jnat e)) b)) v).

Definition j_valid (j : json) : res (list Choice.box) := j_list (j_list (j_list j_nat)) j.

(* Choices(valid): index defaults to -1 and is recomputed from valid[0] *)
Definition choices_init (v : list Choice.box) : Choice.choices := Choice.mk_choices v (-1)%Z.

Definition S2L (s : string) : Bound.str := Bound.L s.
Definition L2S (s : Bound.str) : string := Bound.to_string s.

(* Bound.to_dict as JSON *)
Definition bound_json (b : Bound.bdict) : json :=
  jobj (dict_of (map (fun kv => (L2S (fst kv), jstr (L2S (snd kv)))) (Bound.to_dict b))).

(* Bound(bounds) *)
Definition j_bound (j : json) : res Bound.bdict :=
  if truthy j then
    match j with
    | jobj kv =>
        l <- map_res (fun kv => v <- j_str (snd kv) ;; Ok (S2L (fst kv), S2L v)) kv ;;
        match Bound.bound_init l with
        | Some b => Ok b
        | None => Err (ValueError "bound string is not a triple")
        end
    | _ => Err (TypeError "bounds is not a dict")
    end
  else Ok [].

(* MwpBound(triple) *)
Definition j_mwp (j : json) : res Bound.MwpBound :=
  s <- j_str j ;;
  match Bound.mb_init (Some (S2L s)) with
  | Some b => Ok b
  | None => Err (ValueError "bound string is not a triple")
  end.

(* ------------------------------------------------------------------ Serializable.to_dict *)

(* dict(zip(keys, values)) followed by {**a, **b, ...} *)
Definition ser_to_dict (rec : anyobj -> res json) (o : anyobj) : res json :=
  t <- tab_of (class_name o) ;;
  simple <- map_res (fun a => v <- getattr o a ;; j <- as_json v ;; Ok (a, j)) (k_attrs t) ;;
  objs <- map_res (fun ac : string * string =>
                     v <- getattr o (fst ac) ;;
                     match v with
                     | VObj c => j <- rec c ;; Ok (fst ac, j)
                     | _ => Err (AttributeError "to_dict")
                     end) (k_ser_attrs t) ;;
  lists <- map_res (fun ac : string * string =>
                      v <- getattr o (fst ac) ;;
                      if pytruthy v then
                        match v with
                        | VList l => js <- map_res rec l ;; Ok [(fst ac, jarr js)]
                        | _ => Err (TypeError "not a list of Serializable")
                        end
                      else Ok []) (k_ser_list t) ;;
  dicts <- map_res (fun akc : string * string * string =>
                      let a := fst (fst akc) in
                      v <- getattr o a ;;
                      if pytruthy v then
                        match v with
                        | VDict d =>
                            js <- map_res (fun kv => j <- rec (snd kv) ;; Ok (fst kv, j)) d ;;
                            Ok [(a, jobj (dict_of js))]
                        | _ => Err (TypeError "not a dict of Serializable")
                        end
                      else Ok []) (k_ser_dict t) ;;
  Ok (jobj (dmerge (dmerge (dmerge (dict_of simple) (dict_of objs)) (dict_of (concat lists)))
                   (dict_of (concat dicts)))).

Definition jset (j : json) (k : string) (v : json) : res json :=
  match j with jobj kv => Ok (jobj (dset kv k v)) | _ => Err (TypeError "not a dict") end.

(* the to_dict of each class: FuncResult and VResult extend the inherited one *)
Definition to_dict_step (rec : anyobj -> res json) (o : anyobj) : res json :=
  match o with
  | AFuncResult f =>
      r <- ser_to_dict rec o ;;
      r <- match fr_relation f with
           | Some x => if pytruthy (VRel x) then jset r "relation" (rel_json x) else Ok r
           | None => Ok r
           end ;;
      r <- match fr_choices f with
           | Some c => if pytruthy (VCh c) then jset r "choices" (valid_json (Choice.valid c)) else Ok r
           | None => Ok r
           end ;;
      match fr_bound f with
      | Some b => if pytruthy (VBd b) then jset r "bound" (bound_json b) else Ok r
      | None => Ok r
      end
  | AVResult v =>
      r <- ser_to_dict rec o ;;
      r <- match vr_choices v with
           | Some c => if pytruthy (VCh c) then jset r "choices" (valid_json (Choice.valid c)) else Ok r
           | None => Ok r
           end ;;
      match vr_bound v with
      | Some b => if pytruthy (VMb b) then jset r "bound" (jstr (L2S (Bound.bound_str b))) else Ok r
      | None => Ok r
      end
  | _ => ser_to_dict rec o
  end.

Fixpoint to_dict_n (depth : nat) (o : anyobj) : res json :=
  match depth with
  | 0 => Err Depth
  | S d => to_dict_step (to_dict_n d) o
  end.

Definition DEPTH : nat := 6.
Definition to_dict (o : anyobj) : res json := to_dict_n DEPTH o.

(* ------------------------------------------------------------------ Serializable._load and from_dict *)

(* _try_get( *keys, **kwargs) *)
Fixpoint try_get (keys : list string) (ob : json) : res json :=
  match keys with
  | [] => Ok ob
  | k :: t =>
      nxt <- (if truthy ob then
                match ob with
                | jobj kv => Ok (match dget kv k with Some v => v | None => jnull end)
                | _ => Err (Unmodelled "`key in ob` on a non-dict")
                end
              else Ok jnull) ;;
      try_get t nxt
  end.

(* _try_set(target, attr, **kwargs) *)
Definition try_set (tst : json -> bool) (o : anyobj) (attr : string) (kw : json) : res anyobj :=
  ob <- try_get [attr] kw ;;
  if tst ob then setattr o attr (VJ ob) else Ok o.

Definition is_dict (j : json) : res (list (string * json)) :=
  match j with jobj kv => Ok kv | _ => Err (TypeError "argument after ** must be a mapping") end.

(* _load(obj, **kwargs); [from cls j] is objT.from_dict( **j) *)
Definition ser_load (from : string -> json -> res anyobj) (tst : json -> bool)
           (o : anyobj) (kw : json) : res anyobj :=
  t <- tab_of (class_name o) ;;
  o <- fold_res (fun o key => try_set tst o key kw) (k_attrs t) o ;;
  o <- fold_res (fun o (ac : string * string) =>
                   values <- try_get [fst ac] kw ;;
                   v <- (if truthy values then x <- from (snd ac) values ;; Ok (VObj x)
                         else Ok (VJ jnull)) ;;
                   setattr o (fst ac) v) (k_ser_attrs t) o ;;
  o <- fold_res (fun o (ac : string * string) =>
                   values <- try_get [fst ac] kw ;;
                   let values := if truthy values then values else jarr [] in
                   match values with
                   | jarr l => xs <- map_res (from (snd ac)) l ;; setattr o (fst ac) (VList xs)
                   | _ => Err (TypeError "not iterable as a list")
                   end) (k_ser_list t) o ;;
  fold_res (fun o (akc : string * string * string) =>
              let '(a, key, c) := akc in
              items <- try_get [a] kw ;;
              let items := if truthy items then items else jobj [] in
              match items with
              | jobj kv =>
                  values <- map_res (fun x => from c (snd x)) kv ;;
                  keys <- map_res (fun ob => k <- getattr ob key ;; k <- as_json k ;; j_str k) values ;;
                  setattr o a (VDict (dict_of (combine keys values)))
              | _ => Err (TypeError "no .values()")
              end) (k_ser_dict t) o.

Definition mem_str (s : string) (l : list string) : bool := existsb (String.eqb s) l.

(* Cls.from_dict( **kw) *)
Definition from_dict_step (from : string -> json -> res anyobj) (tst : json -> bool)
           (cls : string) (kw : json) : res anyobj :=
  kv <- is_dict kw ;;
  if negb (mem_str cls CUSTOM_FROM_DICT) then
    o <- new_obj NEW_DEPTH cls [] ;; ser_load from tst o kw
  else if is cls "FuncResult" then
    (* def from_dict(name=None, **kwargs): `name` is NOT part of kwargs *)
    let name := match dget kv "name" with Some v => v | None => jnull end in
    let kw := jobj (ddel kv "name") in
    o <- new_obj NEW_DEPTH cls [("name", VJ name)] ;;
    o <- ser_load from tst o kw ;;
    matrix <- try_get ["relation"; "matrix"] kw ;;
    o <- (if tst matrix then
            vs <- getattr o "variables" ;; vs <- as_strs vs ;;
            m <- decode matrix ;;
            setattr o "relation" (VRel (mk_rel vs m))
          else Ok o) ;;
    choices <- try_get ["choices"] kw ;;
    o <- (if tst choices then
            v <- j_valid choices ;; setattr o "choices" (VCh (choices_init v))
          else Ok o) ;;
    bound <- try_get ["bound"] kw ;;
    (if tst bound then b <- j_bound bound ;; setattr o "bound" (VBd b) else Ok o)
  else if is cls "VResult" then
    o <- new_obj NEW_DEPTH cls [] ;;
    o <- ser_load from tst o kw ;;
    choices <- try_get ["choices"] kw ;;
    c <- (if truthy choices then v <- j_valid choices ;; Ok (VCh (choices_init v)) else Ok (VJ jnull)) ;;
    o <- setattr o "choices" c ;;
    bound <- try_get ["bound"] kw ;;
    b <- (if truthy bound then x <- j_mwp bound ;; Ok (VMb x) else Ok (VJ jnull)) ;;
    setattr o "bound" b
  else Err (Unmodelled ("from_dict of " ++ cls)).

Fixpoint from_dict_n (tst : json -> bool) (depth : nat) (cls : string) (kw : json) : res anyobj :=
  match depth with
  | 0 => Err Depth
  | S d => from_dict_step (from_dict_n tst d) tst cls kw
  end.

(* the current code tests `is not None` *)
Definition from_dict (cls : string) (kw : json) : res anyobj := from_dict_n not_none DEPTH cls kw.
(* the code before the repair tested truthiness *)
Definition from_dict_truthy (cls : string) (kw : json) : res anyobj := from_dict_n truthy DEPTH cls kw.

(* ------------------------------------------------------------------ file_io *)

(* save_result writes json.dump(result.to_dict()); load_result is Result.from_dict( **json.load(..)) *)
Definition save_result (r : Result) : res json := to_dict (AResult r).

Definition load_result (j : json) : res Result :=
  o <- from_dict "Result" j ;;
  match o with AResult r => Ok r | _ => Err (TypeError "not a Result") end.

Definition save_load (r : Result) : res Result := j <- save_result r ;; load_result j.

(* typed wrappers used by the statements *)
Definition reload (o : anyobj) : res anyobj := j <- to_dict o ;; from_dict (class_name o) j.
Definition reload_truthy (o : anyobj) : res anyobj := j <- to_dict o ;; from_dict_truthy (class_name o) j.

(* Bound.__eq__ *)
Definition bd_eqb (a b : Bound.bdict) : bool :=
  list_eqb Bound.str_eqb (Bound.bound_variables a) (Bound.bound_variables b)
  && forallb (fun k => match Bound.dict_get a k, Bound.dict_get b k with
                       | Some x, Some y => Bound.mb_eqb x y
                       | _, _ => false
                       end) (Bound.bound_variables a).
