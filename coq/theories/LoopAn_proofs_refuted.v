(* Witnesses: the dependency clause of C08 is false of the faithful model (DESIGN D10), and a nested
   early exit makes the outer loop report variables from the inner loop's relation only.
   Plus examples showing that the hypotheses of the C08 theorems are met by a non-trivial loop. *)
From Coq Require Import String List Bool Arith Lia.
From PM Require Import Semiring Poly Rel Analysis Calculus LoopAn LoopAn_proofs LoopAn_proofs_bound LoopAn_proofs_maybe.
From PM Require DeltaGraph Bound.
From PMGen Require Import RulesGen SemiringGen.
Import ListNotations.
Open Scope string_scope.
Open Scope list_scope.

(* for (i = 0; i < X; i++) { k = k + a; v = k; } *)
Definition d10_loop : stmt :=
  SFor ["i"] [] ["i"; "X"] ["i"] (SBlock [SBin "k" "+" (AVar "k") (AVar "a"); SCopy "v" "k"]).

Definition rel_of (x : res (bool * nat * rel)) : rel :=
  match x with ROk (_, _, r) => r | RErr _ => rel_empty end.

Definition d10_rel : rel := Eval vm_compute in rel_of (loop_relation d10_loop).

Lemma d10_relation : loop_relation d10_loop = ROk (false, 1, d10_rel).
Proof. vm_compute. reflexivity. Qed.

Lemma d10_not_failing : loop_infty false 1 d10_rel = false.
Proof. vm_compute. reflexivity. Qed.

Lemma d10_v_col : index_of_str "v" (rvars d10_rel) = Some 3.
Proof. vm_compute. reflexivity. Qed.

Lemma d10_some_result : exists vr, get_result d10_rel 1 "v" [2] = ROk vr.
Proof. eexists. vm_compute. reflexivity. Qed.

(* whatever vector the Choices object hands out as `first`, v is reported weak and the vector fails for k,
   on which v depends at that vector *)
Lemma d10_every_choice c vr :
  get_result d10_rel 1 "v" c = ROk vr ->
  vr_flags vr = flags_of_level 1 /\ valid_for_dependencies d10_rel c 3 = false /\
  depends_at d10_rel c 2 3 = true /\ failure_free d10_rel c 2 = false.
Proof.
  intros H. pose proof H as H0. apply get_result_ok in H0.
  destruct H0 as [col [k [mb [_ [_ [_ [_ [Hf _]]]]]]]].
  unfold first_ok in Hf. apply andb_true_iff in Hf. destruct Hf as [Hd _].
  apply in_domain_vectors in Hd. vm_compute in Hd.
  destruct Hd as [<-|[<-|[<-|[]]]]; vm_compute in H; try discriminate.
  injection H as <-. vm_compute. repeat split; reflexivity.
Qed.

Lemma valid_for_dependencies_refuted :
  exists loop di index r v col,
    is_loop_stmt loop = true /\
    loop_relation loop = ROk (di, index, r) /\ loop_infty di index r = false /\
    index_of_str v (rvars r) = Some col /\
    (exists c vr, get_result r index v c = ROk vr) /\
    forall c vr, get_result r index v c = ROk vr ->
      f_p (vr_flags vr) = true /\ valid_for_dependencies r c col = false.
Proof.
  exists d10_loop, false, 1, d10_rel, "v", 3.
  split; [reflexivity|]. split; [exact d10_relation|]. split; [exact d10_not_failing|]. split; [exact d10_v_col|].
  split; [exists [2]; exact d10_some_result|].
  intros c vr H. destruct (d10_every_choice c vr H) as [Hfl [Hv _]]. split; [rewrite Hfl; reflexivity|exact Hv].
Qed.

(* ------------------------------------------------------------------ nested early exit *)

(* while (c > 0) { while (d > 0) { x = x + x; } y = y * y; } *)
Definition ee_loop : stmt :=
  SWhile ["c"] (SBlock [SWhile ["d"] (SBlock [SBin "x" "+" (AVar "x") (AVar "x")]);
                        SBin "y" "*" (AVar "y") (AVar "y")]).

Definition ee_rel : rel := Eval vm_compute in rel_of (loop_relation ee_loop).

Lemma ee_relation : loop_relation ee_loop = ROk (true, 1, ee_rel).
Proof. vm_compute. reflexivity. Qed.

Lemma ee_sites : sites {| f_params := []; f_body := [ee_loop] |} = 2.
Proof. vm_compute. reflexivity. Qed.

(* the only statement that assigns y, alone in the loop, has no derivation at any choice vector *)
Lemma ee_y_no_derivation cs :
  fst (derive depth_fuel ["c"; "y"] (SWhile ["c"] (SBin "y" "*" (AVar "y") (AVar "y"))) cs 0) = None.
Proof.
  unfold depth_fuel. cbn [derive d_bin]. generalize (nth 0 cs 0). intros n.
  destruct n as [|[|n]]; vm_compute; reflexivity.
Qed.

Lemma early_exit_partial_refuted :
  exists loop di index r,
    is_loop_stmt loop = true /\
    loop_relation loop = ROk (di, index, r) /\
    index < sites {| f_params := []; f_body := [loop] |} /\
    exists rf firsts res vr,
      inspect loop rf firsts = ROk res /\ In ("y", vr) res /\
      vr_flags vr = flags_of_level 0 /\
      option_map Bound.bound_triple (vr_bound vr) = Some ([Bound.L "y"], [], []) /\
      forall cs, fst (derive depth_fuel ["c"; "y"] (SWhile ["c"] (SBin "y" "*" (AVar "y") (AVar "y"))) cs 0) = None.
Proof.
  exists ee_loop, true, 1, ee_rel.
  split; [reflexivity|]. split; [exact ee_relation|]. split; [rewrite ee_sites; lia|].
  exists [0], (fun _ => [0]).
  eexists. eexists. split; [vm_compute; reflexivity|].
  split; [right; right; right; left; reflexivity|].
  split; [reflexivity|]. split; [vm_compute; reflexivity|]. exact ee_y_no_derivation.
Qed.

(* ------------------------------------------------------------------ the hypotheses are satisfiable *)

Example shape_d10 : length (rmat d10_rel) = length (rvars d10_rel) /\ NoDup (rvars d10_rel).
Proof.
  split; [reflexivity|]. vm_compute.
  repeat (constructor; [cbn; intros H; repeat (destruct H as [H|H]; [discriminate|]); exact H|]). constructor.
Qed.

Example result_d10_k : exists vr, get_result d10_rel 1 "k" [0] = ROk vr /\ vr_flags vr = flags_of_level 2.
Proof. eexists. split; [vm_compute; reflexivity|reflexivity]. Qed.

Example nonfailing_d10 : exists res, all_results d10_rel 1 (fun v => if String.eqb v "v" then [2] else [0]) = ROk res.
Proof. eexists. vm_compute. reflexivity. Qed.

Example failing_ee : exists res, maybe_result ee_rel 1 [0] (fun _ => [0]) = ROk res /\ length res = 4.
Proof. eexists. split; [vm_compute; reflexivity|reflexivity]. Qed.
