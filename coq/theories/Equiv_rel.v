(* C12 (2/4): the calculus (Calculus.derive) is equivariant.

   One relational theorem covers both "the order of the variable list is irrelevant" and "a consistent
   renaming changes nothing": for rho injective on a set P of names, V a list of names in P and V' a list
   with exactly the elements rho(V) and the same length (any order -- e.g. the SORTED renamed names),

       derive fuel V' (rename_stmt rho s) cs idx   and   derive fuel V s cs idx

   consume the same sites, fail together, and their matrices correspond:  A' (rho x) (rho y) = A x y.
   Sums over the variable list are handled through their order characterisation (Calc_alg.sumS_le_iff),
   so no property of the order of V' is ever used. *)
From Coq Require Import String List Bool Arith Lia Permutation.
From PM Require Import Semiring Poly Rel Analysis Calculus Sem_stmts Equiv_base.
From PM Require Calc_alg An_leaf An_main_aux An_seq.
From PMGen Require Import RulesGen.
Import ListNotations.
Open Scope list_scope.

Section Rel.
  Variable P : string -> Prop.
  Variable rho : string -> string.
  Hypothesis inj : forall a b, P a -> P b -> rho a = rho b -> a = b.
  Variables V V' : list string.
  Hypothesis HP : forall v, In v V -> P v.
  Hypothesis HV1 : forall v, In v V -> In (rho v) V'.
  Hypothesis HV2 : forall z, In z V' -> exists v, In v V /\ z = rho v.
  Hypothesis Hlen : length V' = length V.

  (* A' is A read through the renaming (on the names of P) *)
  Definition mrel (A A' : smat) : Prop := forall x y, P x -> P y -> A' (rho x) (rho y) = A x y.

  Definition orel (a a' : option smat) : Prop :=
    match a, a' with
    | Some A, Some A' => mrel A A'
    | None, None => True
    | _, _ => False
    end.

  Definition drel (d d' : dres) : Prop := snd d' = snd d /\ orel (fst d) (fst d').

  Lemma sid_rel : mrel sid sid.
  Proof. intros x y Px Py. unfold sid. rewrite (eqb_rho P rho inj x y Px Py). reflexivity. Qed.

  Lemma sadd_rel A A' B B' : mrel A A' -> mrel B B' -> mrel (sadd A B) (sadd A' B').
  Proof. intros HA HB x y Px Py. unfold sadd. rewrite HA, HB by assumption. reflexivity. Qed.

  Lemma smul_rel A A' B B' : mrel A A' -> mrel B B' -> mrel (smul V A B) (smul V' A' B').
  Proof.
    intros HA HB x y Px Py. rewrite !Calc_alg.smul_sumS. apply Calc_alg.sc_eq_by_le. intros c.
    rewrite !Calc_alg.sumS_le_iff. split.
    - intros H k Hk. specialize (H (rho k) (HV1 k Hk)). cbv beta in H.
      rewrite HA, HB in H by auto. exact H.
    - intros H k Hk. destruct (HV2 k Hk) as [v [Hv ->]]. cbv beta.
      rewrite HA, HB by auto. apply H. exact Hv.
  Qed.

  Lemma memo_rel A A' : mrel A A' -> mrel (memo V A) (memo V' A').
  Proof. intros H x y Px Py. rewrite !Calc_alg.memo_eq. apply H; assumption. Qed.

  Lemma eqV_rel A A' B B' : mrel A A' -> mrel B B' -> (eqV V' A' B' <-> eqV V A B).
  Proof.
    intros HA HB. split; intros H x y Hx Hy.
    - rewrite <- HA, <- HB by auto. apply H; auto.
    - destruct (HV2 x Hx) as [u [Hu ->]]. destruct (HV2 y Hy) as [w [Hw ->]].
      rewrite HA, HB by auto. apply H; auto.
  Qed.

  Lemma smat_eqb_rel A A' B B' : mrel A A' -> mrel B B' -> smat_eqb V' A' B' = smat_eqb V A B.
  Proof. intros HA HB. apply eq_true_iff_eq. rewrite !Calc_alg.smat_eqb_iff. apply eqV_rel; assumption. Qed.

  Lemma sstar_loop_rel A A' : mrel A A' -> forall fuel X X', mrel X X' ->
    orel (sstar_loop fuel V A X) (sstar_loop fuel V' A' X').
  Proof.
    intros HA. induction fuel as [|f IH]; intros X X' HX; [exact Logic.I|].
    rewrite !Calc_alg.sstar_loop_S.
    assert (HZ : mrel (Calc_alg.sstep V A X) (Calc_alg.sstep V' A' X')).
    { unfold Calc_alg.sstep. apply memo_rel, sadd_rel; [apply sid_rel|apply smul_rel; assumption]. }
    rewrite (smat_eqb_rel _ _ _ _ HZ HX).
    destruct (smat_eqb V (Calc_alg.sstep V A X) X); [exact HX|apply IH; exact HZ].
  Qed.

  Lemma sstar_rel A A' : mrel A A' -> orel (sstar V A) (sstar V' A').
  Proof. intros HA. unfold sstar. rewrite Hlen. apply sstar_loop_rel; [exact HA|apply sid_rel]. Qed.

  Lemma forallb_rel (g g' : string -> bool) :
    (forall v, In v V -> g' (rho v) = g v) -> forallb g' V' = forallb g V.
  Proof.
    intros H. apply eq_true_iff_eq. rewrite !forallb_forall. split; intros K x Hx.
    - rewrite <- H by exact Hx. apply K. apply HV1. exact Hx.
    - destruct (HV2 x Hx) as [v [Hv ->]]. rewrite H by exact Hv. apply K. exact Hv.
  Qed.

  Lemma existsb_rel (g g' : string -> bool) :
    (forall v, In v V -> g' (rho v) = g v) -> existsb g' V' = existsb g V.
  Proof.
    intros H. apply eq_true_iff_eq. rewrite !existsb_exists. split; intros [x [Hx K]].
    - destruct (HV2 x Hx) as [v [Hv ->]]. exists v. split; [exact Hv|]. rewrite <- H by exact Hv. exact K.
    - exists (rho x). split; [apply HV1; exact Hx|]. rewrite H by exact Hx. exact K.
  Qed.

  Lemma w_ok_rel A A' : mrel A A' -> w_ok V' A' = w_ok V A.
  Proof.
    intros HA. unfold w_ok. apply forallb_rel. intros x Hx. apply forallb_rel. intros y Hy.
    rewrite HA, (eqb_rho P rho inj) by auto. reflexivity.
  Qed.

  Lemma l_ok_rel A A' : mrel A A' -> l_ok V' A' = l_ok V A.
  Proof. intros HA. unfold l_ok. apply forallb_rel. intros x Hx. rewrite HA by auto. reflexivity. Qed.

  Lemma l_extend_rel X A A' : P X -> mrel A A' -> mrel (l_extend V X A) (l_extend V' (rho X) A').
  Proof.
    intros PX HA u v Pu Pv. unfold l_extend.
    rewrite (eqb_rho P rho inj u X Pu PX).
    rewrite (existsb_rel (fun i => L_PROPAGATE (A i v) (String.eqb i v))
                         (fun i => L_PROPAGATE (A' i (rho v)) (String.eqb i (rho v)))).
    - rewrite HA by assumption. reflexivity.
    - intros i Hi. rewrite HA, (eqb_rho P rho inj) by auto. reflexivity.
  Qed.

  (* ---- leaves ---- *)

  Lemma scol_rel x f f' : P x -> (forall u, P u -> f' (rho u) = f u) -> mrel (scol x f) (scol (rho x) f').
  Proof.
    intros Px Hf u v Pu Pv. unfold scol.
    rewrite (eqb_rho P rho inj v x Pv Px), (Hf u Pu), (sid_rel u v Pu Pv). reflexivity.
  Qed.

  Lemma leaf_const_rel x : P x -> mrel (leaf_const x) (leaf_const (rho x)).
  Proof. intros Px. unfold leaf_const. apply scol_rel; [exact Px|reflexivity]. Qed.

  Lemma leaf_copy_rel x y : P x -> P y -> mrel (leaf_copy x y) (leaf_copy (rho x) (rho y)).
  Proof.
    intros Px Py. unfold leaf_copy. rewrite (eqb_rho P rho inj x y Px Py).
    destruct (String.eqb x y); [apply sid_rel|].
    apply scol_rel; [exact Px|]. intros u Pu. rewrite (eqb_rho P rho inj u y Pu Py). reflexivity.
  Qed.

  Lemma leaf_bin_rel x op y z c : P x -> oP P y -> oP P z ->
    orel (leaf_bin x op y z c) (leaf_bin (rho x) op (option_map rho y) (option_map rho z) c).
  Proof.
    intros Px Py Pz. unfold leaf_bin.
    destruct (negb (mem_strb op BIN_OPS)); [exact Logic.I|].
    rewrite (cv_lookup_rho P rho inj) by assumption.
    destruct (cv_lookup CV_TABLE op y z) as [tr|]; [|exact Logic.I].
    cbv zeta. cbn [orel].
    apply scol_rel; [exact Px|]. intros u Pu.
    assert (HL : forall o, In o [Some x; y; z] -> oP P o).
    { intros o [<-|[<-|[<-|[]]]]; assumption. }
    change (Some (rho x)) with (option_map rho (Some x)).
    rewrite !(opt_str_eqb_rho P rho inj) by (try assumption; exact Px).
    change [option_map rho (Some x); option_map rho y; option_map rho z]
      with (map (option_map rho) [Some x; y; z]).
    rewrite (dedup_first_rho P rho inj _ HL), (opt_names_rho rho).
    apply (assoc_sc_rho P rho inj); [exact Pu|].
    intros v Hv. apply opt_names_In in Hv. apply An_leaf.dedup_first_In in Hv. exact (HL _ Hv).
  Qed.

  Lemma d_bin_rel x op y z cs idx : P x -> oP P (atom_name y) -> oP P (atom_name z) ->
    drel (d_bin x op y z cs idx) (d_bin (rho x) op (rename_atom rho y) (rename_atom rho z) cs idx).
  Proof.
    intros Px Py Pz. unfold d_bin.
    destruct y as [a|], z as [b|]; cbn [rename_atom]; split; cbn [fst snd]; try reflexivity.
    - exact (leaf_bin_rel x op (Some a) (Some b) _ Px Py Pz).
    - exact (leaf_bin_rel x op (Some a) None _ Px Py Pz).
    - exact (leaf_bin_rel x op None (Some b) _ Px Py Pz).
    - apply leaf_const_rel. exact Px.
  Qed.

  (* ---- combinators ---- *)

  Lemma dseq_rel a a' b b' : orel a a' -> orel b b' -> orel (dseq V a b) (dseq V' a' b').
  Proof.
    destruct a, a', b, b'; cbn [orel dseq]; try tauto.
    intros HA HB. apply memo_rel, smul_rel; assumption.
  Qed.

  Lemma d_if_rel a a' b b' : orel a a' -> orel b b' -> orel (d_if V a b) (d_if V' a' b').
  Proof.
    destruct a, a', b, b'; cbn [orel d_if]; try tauto.
    intros HA HB. apply memo_rel, sadd_rel; assumption.
  Qed.

  Lemma d_while_rel a a' : orel a a' -> orel (d_while V a) (d_while V' a').
  Proof.
    destruct a as [B|], a' as [B'|]; cbn [orel d_while]; try tauto.
    intros HB. pose proof (sstar_rel B B' HB) as HS.
    destruct (sstar V B) as [St|], (sstar V' B') as [St'|]; cbn [orel] in HS; try tauto.
    rewrite (w_ok_rel St St' HS). destruct (w_ok V St); [exact HS|exact Logic.I].
  Qed.

  Lemma d_for_rel X a a' : P X -> orel a a' -> orel (d_for V X a) (d_for V' (rho X) a').
  Proof.
    intros PX. destruct a as [B|], a' as [B'|]; cbn [orel d_for]; try tauto.
    intros HB. pose proof (sstar_rel B B' HB) as HS.
    destruct (sstar V B) as [St|], (sstar V' B') as [St'|]; cbn [orel] in HS; try tauto.
    rewrite (l_ok_rel St St' HS). destruct (l_ok V St); [|exact Logic.I].
    cbn [orel]. apply memo_rel, l_extend_rel; assumption.
  Qed.

  Lemma dlist_rel rec rec' l :
    (forall s i, In s l -> drel (rec s i) (rec' (rename_stmt rho s) i)) ->
    forall acc acc' idx, orel acc acc' ->
      drel (dlist rec V l acc idx) (dlist rec' V' (map (rename_stmt rho) l) acc' idx).
  Proof.
    induction l as [|a t IH]; intros Hrec acc acc' idx Ha.
    - split; [reflexivity|exact Ha].
    - cbn [map]. rewrite !An_seq.dlist_cons.
      destruct (Hrec a idx (or_introl eq_refl)) as [E1 E2]. rewrite E1.
      apply IH.
      + intros s i Hs. apply Hrec. right. exact Hs.
      + apply dseq_rel; assumption.
  Qed.

  Theorem derive_rel : forall fuel s cs idx, allP P (stmt_names s) ->
    drel (derive fuel V s cs idx) (derive fuel V' (rename_stmt rho s) cs idx).
  Proof.
    induction fuel as [|f IH]; intros s cs idx HN; [split; [reflexivity|exact Logic.I]|].
    assert (SID : forall i, drel (Some sid, i) (Some sid, i)).
    { intros i. split; [reflexivity|exact sid_rel]. }
    assert (LIST : forall l acc acc' i, allP P (flat_map stmt_names l) -> orel acc acc' ->
              drel (dlist (fun s1 i => derive f V s1 cs i) V l acc i)
                   (dlist (fun s1 i => derive f V' s1 cs i) V' (map (rename_stmt rho) l) acc' i)).
    { intros l acc acc' i Hl Ha. apply dlist_rel; [|exact Ha].
      intros s1 i1 Hin. apply IH. intros v Hv. apply Hl. exact (flat_map_in_sub _ _ _ _ Hin Hv). }
    destruct s as [m|x op y z|x|x y|x op e|op e|t e|cv body|iters srcs conds nxt body|l];
      cbn [rename_stmt derive stmt_names] in *.
    - apply SID.
    - apply d_bin_rel.
      + apply HN. left. reflexivity.
      + destruct y; cbn; [|exact Logic.I]. apply HN. right. apply in_or_app. left. left. reflexivity.
      + destruct z; cbn; [|exact Logic.I]. apply HN. right. apply in_or_app. right. left. reflexivity.
    - split; [reflexivity|]. apply leaf_const_rel. apply HN. left. reflexivity.
    - split; [reflexivity|]. apply leaf_copy_rel; apply HN; [left|right; left]; reflexivity.
    - rewrite unary_asgn_rewrite_rename.
      destruct (unary_asgn_rewrite x op e) as [s'|] eqn:E; cbn [option_map]; [|apply SID].
      apply IH. intros v Hv. apply HN. exact (unary_asgn_rewrite_names _ _ _ _ E v Hv).
    - destruct e as [|y|]; cbn [rename_uarg]; try apply SID.
      destruct (mem_strb op INC_DEC); [|apply SID].
      unfold inc_dec_stmt.
      apply (d_bin_rel y _ (AVar y) ACst cs idx); [|cbn|exact Logic.I]; apply HN; left; reflexivity.
    - apply (allP_app P) in HN. destruct HN as [H1 H2].
      pose proof (LIST t (Some sid) (Some sid) idx H1 sid_rel) as K1.
      destruct (dlist (fun s1 i => derive f V s1 cs i) V t (Some sid) idx) as [mt i1].
      destruct (dlist (fun s1 i => derive f V' s1 cs i) V' (map (rename_stmt rho) t) (Some sid) idx) as [mt' i1'].
      destruct K1 as [E1 R1]. cbn [fst snd] in E1, R1. subst i1'.
      pose proof (LIST e (Some sid) (Some sid) i1 H2 sid_rel) as K2.
      destruct (dlist (fun s1 i => derive f V s1 cs i) V e (Some sid) i1) as [me i2].
      destruct (dlist (fun s1 i => derive f V' s1 cs i) V' (map (rename_stmt rho) e) (Some sid) i1) as [me' i2'].
      destruct K2 as [E2 R2]. cbn [fst snd] in E2, R2. subst i2'.
      split; [reflexivity|]. cbn [fst]. apply d_if_rel; assumption.
    - apply (allP_app P) in HN. destruct HN as [H1 H2].
      pose proof (IH body cs idx H2) as K.
      destruct (derive f V body cs idx) as [mb i1].
      destruct (derive f V' (rename_stmt rho body) cs idx) as [mb' i1'].
      destruct K as [E R]. cbn [fst snd] in E, R. subst i1'.
      split; [reflexivity|]. cbn [fst]. apply d_while_rel. exact R.
    - apply (allP_app P) in HN. destruct HN as [Hi HN]. apply (allP_app P) in HN. destruct HN as [Hs HN].
      apply (allP_app P) in HN. destruct HN as [Hc HN]. apply (allP_app P) in HN. destruct HN as [Hn Hb].
      rewrite (loop_compat_rename P rho inj iters srcs conds nxt body Hi Hs Hc Hn Hb).
      destruct (loop_compat iters srcs conds nxt body) as [X|] eqn:EL; cbn [option_map]; [|apply SID].
      pose proof (loop_compat_P P _ _ _ _ _ _ Hs Hc EL) as PX.
      pose proof (IH body cs idx Hb) as K.
      destruct (derive f V body cs idx) as [mb i1].
      destruct (derive f V' (rename_stmt rho body) cs idx) as [mb' i1'].
      destruct K as [E R]. cbn [fst snd] in E, R. subst i1'.
      split; [reflexivity|]. cbn [fst]. apply d_for_rel; assumption.
    - apply LIST; [exact HN|exact sid_rel].
  Qed.
End Rel.

Arguments mrel P rho A A' /.
Arguments orel P rho a a' /.

(* ------------------------------------------------------------------ *)
(* 1. the order of the variable list is irrelevant                     *)
(* ------------------------------------------------------------------ *)

(* same elements, same length: permutations, or duplicate-free lists with the same elements *)
Definition same_elems (V V' : list string) : Prop :=
  (forall v, In v V <-> In v V') /\ length V' = length V.

Lemma perm_same_elems V V' : Permutation V V' -> same_elems V V'.
Proof.
  intros H. split.
  - intros v. split; [apply Permutation_in; exact H|apply Permutation_in; apply Permutation_sym; exact H].
  - symmetry. apply Permutation_length. exact H.
Qed.

Lemma nodup_same_elems V V' : NoDup V -> NoDup V' -> (forall v, In v V <-> In v V') -> same_elems V V'.
Proof. intros N N' H. apply perm_same_elems. apply NoDup_Permutation; assumption. Qed.

(* pointwise equality (everywhere, not only on V) of the results *)
Definition oeq_all (a a' : option smat) : Prop :=
  match a, a' with
  | Some A, Some A' => forall x y, A' x y = A x y
  | None, None => True
  | _, _ => False
  end.

Section Perm.
  Variables V V' : list string.
  Hypothesis HS : same_elems V V'.

  Let PT : string -> Prop := fun _ => True.
  Let rid : string -> string := fun x => x.

  Lemma rid_inj : forall a b, PT a -> PT b -> rid a = rid b -> a = b.
  Proof. intros a b _ _ H. exact H. Qed.
  Lemma perm_HV1 : forall v, In v V -> In (rid v) V'.
  Proof. intros v Hv. apply (proj1 HS). exact Hv. Qed.
  Lemma perm_HV2 : forall z, In z V' -> exists v, In v V /\ z = rid v.
  Proof. intros z Hz. exists z. split; [apply (proj1 HS); exact Hz|reflexivity]. Qed.

  Lemma mrel_all A A' : (forall x y, A' x y = A x y) <-> mrel PT rid A A'.
  Proof. split; intros H x y; [intros _ _|]; apply H; exact Logic.I. Qed.

  Lemma mrel_refl A : mrel PT rid A A.
  Proof. intros x y _ _. reflexivity. Qed.

  Lemma perm_HP : forall v, In v V -> PT v.
  Proof. intros v _. exact Logic.I. Qed.

  Theorem smul_perm A B x y : smul V A B x y = smul V' A B x y.
  Proof.
    symmetry. apply (smul_rel PT rid V V' perm_HP perm_HV1 perm_HV2 A A B B (mrel_refl A) (mrel_refl B));
      exact Logic.I.
  Qed.

  Theorem smat_eqb_perm A B : smat_eqb V A B = smat_eqb V' A B.
  Proof. symmetry. apply (smat_eqb_rel PT rid V V' perm_HP perm_HV1 perm_HV2); apply mrel_refl. Qed.

  Theorem sstar_perm A : oeq_all (sstar V A) (sstar V' A).
  Proof.
    pose proof (sstar_rel PT rid rid_inj V V' perm_HP perm_HV1 perm_HV2 (proj2 HS) A A (mrel_refl A)) as H.
    destruct (sstar V A), (sstar V' A); cbn in *; try tauto. intros x y. apply H; exact Logic.I.
  Qed.

  Theorem w_ok_perm A : w_ok V A = w_ok V' A.
  Proof. symmetry. apply (w_ok_rel PT rid rid_inj V V' perm_HP perm_HV1 perm_HV2). apply mrel_refl. Qed.

  Theorem l_ok_perm A : l_ok V A = l_ok V' A.
  Proof. symmetry. apply (l_ok_rel PT rid V V' perm_HP perm_HV1 perm_HV2). apply mrel_refl. Qed.

  Theorem l_extend_perm X A u v : l_extend V X A u v = l_extend V' X A u v.
  Proof.
    symmetry.
    apply (l_extend_rel PT rid rid_inj V V' perm_HP perm_HV1 perm_HV2 X A A Logic.I (mrel_refl A));
      exact Logic.I.
  Qed.

  Theorem derive_perm fuel s cs idx :
    snd (derive fuel V' s cs idx) = snd (derive fuel V s cs idx) /\
    oeq_all (fst (derive fuel V s cs idx)) (fst (derive fuel V' s cs idx)).
  Proof.
    pose proof (derive_rel PT rid rid_inj V V' perm_HP perm_HV1 perm_HV2 (proj2 HS)
                  fuel s cs idx (fun _ _ => Logic.I)) as [E R].
    unfold rid in E, R. rewrite rename_stmt_id in E, R. split; [exact E|].
    destruct (fst (derive fuel V s cs idx)), (fst (derive fuel V' s cs idx)); cbn in *; try tauto.
    intros x y. apply R; exact Logic.I.
  Qed.
End Perm.

(* ------------------------------------------------------------------ *)
(* 2. consistent renaming                                              *)
(* ------------------------------------------------------------------ *)

Definition inj_on (l : list string) (rho : string -> string) : Prop :=
  forall a b, In a l -> In b l -> rho a = rho b -> a = b.

(* the matrices of the renamed statement are the matrices of the original read through rho *)
Definition oeq_ren (V : list string) (rho : string -> string) (a a' : option smat) : Prop :=
  match a, a' with
  | Some A, Some A' => forall x y, In x V -> In y V -> A' (rho x) (rho y) = A x y
  | None, None => True
  | _, _ => False
  end.

Lemma oeq_ren_orel V rho a a' : oeq_ren V rho a a' <-> orel (fun x => In x V) rho a a'.
Proof. destruct a, a'; cbn; tauto. Qed.

(* V' = the renamed variables in ANY order (for instance sorted); N = the names rho is injective on:
   the variables of V and every name occurring in s (the header names of for loops included) *)
Theorem derive_rename_gen rho N V V' s :
  inj_on N rho -> incl V N -> incl (stmt_names s) N ->
  (forall z, In z V' <-> In z (map rho V)) -> length V' = length V ->
  forall fuel cs idx,
    snd (derive fuel V' (rename_stmt rho s) cs idx) = snd (derive fuel V s cs idx) /\
    oeq_ren N rho (fst (derive fuel V s cs idx)) (fst (derive fuel V' (rename_stmt rho s) cs idx)).
Proof.
  intros Hinj HVN Hincl HV' Hlen fuel cs idx.
  assert (HV1 : forall v, In v V -> In (rho v) V').
  { intros v Hv. apply HV'. apply in_map. exact Hv. }
  assert (HV2 : forall z, In z V' -> exists v, In v V /\ z = rho v).
  { intros z Hz. apply HV' in Hz. apply in_map_iff in Hz. destruct Hz as [v [E Hv]]. exists v. auto. }
  destruct (derive_rel (fun x => In x N) rho Hinj V V' HVN HV1 HV2 Hlen fuel s cs idx Hincl)
    as [E R].
  split; [exact E|]. apply oeq_ren_orel. exact R.
Qed.

Theorem derive_rename rho V s :
  inj_on V rho -> incl (stmt_names s) V ->
  forall fuel cs idx,
    snd (derive fuel (map rho V) (rename_stmt rho s) cs idx) = snd (derive fuel V s cs idx) /\
    oeq_ren V rho (fst (derive fuel V s cs idx)) (fst (derive fuel (map rho V) (rename_stmt rho s) cs idx)).
Proof.
  intros Hinj Hincl. apply derive_rename_gen; [exact Hinj|apply incl_refl|exact Hincl|tauto|apply map_length].
Qed.

(* injectivity on the names of the statement is necessary: the loop variable of a counted loop is found
   by a list difference on the header names, some of which are not variables of the statement *)
Example rename_needs_header_names :
  let s := SFor ["i"] [] ["i"; "n"] ["i"] (SConst "x") in
  let rho := fun v : string => if String.eqb v "i" then "n"%string else v in
  inj_on (stmt_vars s) rho /\ ~ inj_on (stmt_names s) rho /\
  loop_compat ["i"] [] ["i"; "n"] ["i"] (SConst "x") = Some "n"%string /\
  loop_compat (map rho ["i"]) [] (map rho ["i"; "n"]) (map rho ["i"]) (rename_stmt rho (SConst "x")) = None.
Proof.
  cbv zeta. split; [|split; [|split; reflexivity]].
  - intros a b Ha Hb. cbn in Ha, Hb.
    destruct Ha as [<-|[<-|[]]]; destruct Hb as [<-|[<-|[]]]; cbn; congruence.
  - intros H. specialize (H "i" "n")%string. cbn in H.
    assert (E : "i"%string = "n"%string) by (apply H; auto). discriminate E.
Qed.

(* ------------------------------------------------------------------ *)
(* 3. "-" spelled "+": the derivations are EQUAL                       *)
(* ------------------------------------------------------------------ *)

Lemma dlist_ext_in rec rec' V : forall l acc idx,
  (forall s i, In s l -> rec s i = rec' s i) -> dlist rec V l acc idx = dlist rec' V l acc idx.
Proof.
  induction l as [|a t IH]; intros acc idx H; [reflexivity|].
  rewrite !An_seq.dlist_cons, (H a idx (or_introl eq_refl)). apply IH.
  intros s i Hs. apply H. right. exact Hs.
Qed.

Lemma dlist_map rec V (h : stmt -> stmt) : forall l acc idx,
  dlist rec V (map h l) acc idx = dlist (fun s i => rec (h s) i) V l acc idx.
Proof.
  induction l as [|a t IH]; intros acc idx; [reflexivity|].
  cbn [map]. rewrite !An_seq.dlist_cons. apply IH.
Qed.

Theorem derive_pfm : forall fuel V s cs idx,
  derive fuel V (plus_for_minus s) cs idx = derive fuel V s cs idx.
Proof.
  induction fuel as [|f IH]; intros V s cs idx; [reflexivity|].
  assert (LIST : forall l acc i,
            dlist (fun s1 i => derive f V s1 cs i) V (map plus_for_minus l) acc i =
            dlist (fun s1 i => derive f V s1 cs i) V l acc i).
  { intros l acc i. rewrite dlist_map. apply dlist_ext_in. intros s1 i1 _. apply IH. }
  destruct s as [m|x op y z|x|x y|x op e|op e|t e|cv body|iters srcs conds nxt body|l];
    cbn [plus_for_minus derive]; try reflexivity.
  - apply d_bin_pfm.
  - rewrite LIST. destruct (dlist _ V t (Some sid) idx) as [mt i1]. rewrite LIST. reflexivity.
  - rewrite IH. reflexivity.
  - rewrite loop_compat_pfm, IH. reflexivity.
  - apply LIST.
Qed.

(* ------------------------------------------------------------------ *)
(* the hypotheses are satisfiable: a renaming that reverses the sort order *)

Definition is_some {T} (o : option T) : bool := match o with Some _ => true | None => false end.

Definition swap_xy (v : string) : string :=
  if String.eqb v "x" then "b"%string else if String.eqb v "y" then "a"%string else v.

Example rename_instance :
  let V := ["x"; "y"]%string in
  let s := SBlock [SBin "x" "+" (AVar "x") (AVar "y");
                   SWhile ["x"%string] (SBin "y" "-" (AVar "x") (AVar "x"))] in
  inj_on V swap_xy /\ incl (stmt_names s) V /\
  map swap_xy V = ["b"; "a"]%string /\ sort_str (map swap_xy V) = ["a"; "b"]%string /\
  (* choices 0 and 2 at the two sites: the derivation exists on both sides *)
  is_some (fst (derive 10 V s [0; 2] 0)) = true /\
  is_some (fst (derive 10 (sort_str (map swap_xy V)) (rename_stmt swap_xy s) [0; 2] 0)) = true.
Proof.
  cbv zeta. split; [|split; [|split; [|split; [|split]]]].
  - intros a b Ha Hb. cbn in Ha, Hb.
    destruct Ha as [<-|[<-|[]]]; destruct Hb as [<-|[<-|[]]]; cbn; congruence.
  - intros v Hv. cbn in Hv. cbn. tauto.
  - reflexivity.
  - reflexivity.
  - vm_compute. reflexivity.
  - vm_compute. reflexivity.
Qed.
