(* SPLIT (property C10, calculus level): the derivation of a statement list l1 ++ l2 is the derivation
   of l2 continued from where l1 stopped, and -- started from the identity -- its matrix is on V x V the
   product of the two halves' matrices; it fails iff one half fails. *)
From Coq Require Import String List Bool Arith Lia.
From PM Require Import Semiring Poly Rel Analysis Calculus Rel_sem Sem_stmts An_stmts.
From PM Require Calc_alg An_seq An_func An_main_aux Equiv_layout.
Import ListNotations.
Open Scope list_scope.

Lemma dlist_app rec V : forall l1 l2 acc idx,
  dlist rec V (l1 ++ l2) acc idx =
  dlist rec V l2 (fst (dlist rec V l1 acc idx)) (snd (dlist rec V l1 acc idx)).
Proof.
  induction l1 as [|a t IH]; intros l2 acc idx; [reflexivity|].
  cbn [app]. rewrite !An_seq.dlist_cons. apply IH.
Qed.

Lemma derive_list_app V l1 l2 cs acc idx :
  derive_list V (l1 ++ l2) cs acc idx =
  derive_list V l2 cs (fst (derive_list V l1 cs acc idx)) (snd (derive_list V l1 cs acc idx)).
Proof. unfold derive_list. apply dlist_app. Qed.

(* matrices derived for a list are finite on V whenever the start is *)
Lemma derive_list_finite V l cs acc idx :
  Equiv_layout.ofin V acc -> Equiv_layout.ofin V (fst (derive_list V l cs acc idx)).
Proof.
  intros Ha A HA. unfold derive_list in HA.
  eapply An_main_aux.dlist_finite; [|exact Ha|exact HA].
  intros s i B _ HB. exact (An_main_aux.derive_finite_thm _ _ _ _ _ _ HB).
Qed.

(* the general form: any (finite) accumulator in front of l1 *)
Lemma derive_list_split_acc V l1 l2 cs acc idx :
  Equiv_layout.ofin V acc ->
  let d1 := derive_list V l1 cs acc idx in
  let d2 := derive_list V l2 cs (Some sid) (snd d1) in
  Equiv_layout.deqV V (derive_list V (l1 ++ l2) cs acc idx) (dseq V (fst d1) (fst d2), snd d2).
Proof.
  intros Ha d1 d2.
  pose proof (derive_list_finite V l1 cs acc idx Ha) as F1. fold d1 in F1.
  rewrite derive_list_app. fold d1. unfold d2, derive_list.
  eapply Equiv_layout.deqV_trans; [|apply Equiv_layout.dlist_shift].
  apply Equiv_layout.dlist_acc_ext. apply Equiv_layout.oeqV_sym, Equiv_layout.dseq_id_r. exact F1.
Qed.

Theorem derive_list_split V l1 l2 cs idx :
  let d1 := derive_list V l1 cs (Some sid) idx in
  let d2 := derive_list V l2 cs (Some sid) (snd d1) in
  let d := derive_list V (l1 ++ l2) cs (Some sid) idx in
  snd d = snd d2 /\
  (fst d = None <-> fst d1 = None \/ fst d2 = None) /\
  (forall A1 A2, fst d1 = Some A1 -> fst d2 = Some A2 ->
     exists A, fst d = Some A /\ eqV V A (smul V A1 A2)).
Proof.
  intros d1 d2 d.
  destruct (derive_list_split_acc V l1 l2 cs (Some sid) idx (Equiv_layout.ofin_sid V)) as [K1 K2].
  fold d1 d2 d in K1, K2. cbn [fst snd] in K1, K2.
  split; [exact K1|].
  destruct (fst d1) as [A1|], (fst d2) as [A2|], (fst d) as [A|];
    cbn [dseq Equiv_layout.oeqV] in K2; try contradiction.
  - split; [split; [discriminate|intros [H|H]; discriminate H]|].
    intros B1 B2 H1 H2. injection H1 as <-. injection H2 as <-.
    exists A. split; [reflexivity|]. intros x y Hx Hy. rewrite (K2 x y Hx Hy). apply Calc_alg.memo_eq.
  - split; [split; [intros _; right; reflexivity|reflexivity]|]. intros B1 B2 _ H2. discriminate H2.
  - split; [split; [intros _; left; reflexivity|reflexivity]|]. intros B1 B2 H1. discriminate H1.
  - split; [split; [intros _; left; reflexivity|reflexivity]|]. intros B1 B2 H1. discriminate H1.
Qed.

(* tabulating only looks at V x V *)
Lemma smat_table_ext V A B : eqV V A B -> smat_table V A = smat_table V B.
Proof.
  intros H. unfold smat_table. apply map_ext_in. intros x Hx. apply map_ext_in. intros y Hy.
  apply H; assumption.
Qed.

Print Assumptions derive_list_split.

(* the premises are satisfiable and the product is not trivial: x = y + y ; z = x * x at choice (0, 1) *)
Example derive_list_split_instance :
  let V := ["x"; "y"; "z"]%string in
  let l1 := [SBin "x" "+" (AVar "y") (AVar "y")] in
  let l2 := [SBin "z" "*" (AVar "x") (AVar "x")] in
  exists A1 A2 A,
    fst (derive_list V l1 [0; 1] (Some sid) 0) = Some A1 /\
    fst (derive_list V l2 [0; 1] (Some sid) 1) = Some A2 /\
    fst (derive_list V (l1 ++ l2) [0; 1] (Some sid) 0) = Some A /\
    smat_table V A = smat_table V (smul V A1 A2) /\ A "y"%string "z"%string = P.
Proof.
  cbv zeta. do 3 eexists. repeat split; vm_compute; reflexivity.
Qed.
