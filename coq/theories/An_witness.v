(* Concrete witnesses on the analysis model (evaluated by vm_compute): the function
     x=5; y=5; while(z>0){x=y+y;} while(z>0){z=x+x;}
   -- after the repair dca3766 its choice object rejects (2,0) and (2,1) (the second loop fails there),
   while the reported RELATION shows no infinity at those vectors: the C15 clause "the choice object
   accepts exactly the vectors at which its own relation has no infinity" is refuted (open finding),
   the C01/C02 clauses (valid vectors = derivable vectors) hold. *)
From Coq Require Import String List Bool Arith.
From PM Require Import Semiring Poly Rel Analysis Calculus.
Import ListNotations.
Open Scope string_scope.

Definition f_lost : func_src :=
  {| f_params := ["x"; "y"; "z"];
     f_body := [SConst "x"; SConst "y";
                SWhile ["z"] (SBlock [SBin "x" "+" (AVar "y") (AVar "y")]);
                SWhile ["z"] (SBlock [SBin "z" "+" (AVar "x") (AVar "x")])] |}.

Definition has_infinity (m : list (list Sc)) : bool := existsb (existsb (sc_eqb I)) m.

Lemma choices_stricter_than_relation :
  exists res r, analyse f_lost false = ROk res /\ fr_infinite res = false /\ fr_rel res = Some r /\
    accepted (fr_inf_deltas res) [2; 0] = false /\
    has_infinity (apply_choice r (choice_of_list [2; 0])) = false /\
    fst (derive_func f_lost [2; 0]) = None.
Proof.
  destruct (analyse f_lost false) as [res|e] eqn:E; [|vm_compute in E; discriminate].
  destruct (fr_rel res) as [r|] eqn:Er; [|vm_compute in E; injection E as <-; vm_compute in Er; discriminate].
  exists res, r. split; [reflexivity|].
  vm_compute in E. injection E as <-. vm_compute in Er. injection Er as <-.
  repeat split; vm_compute; reflexivity.
Qed.

(* the same function analysed to the end has exactly the valid vectors (2,2): both loops need choice 2 *)
Lemma f_lost_valid_vectors :
  exists res, analyse f_lost false = ROk res /\
    map (accepted (fr_inf_deltas res)) (vectors [0; 1; 2] 2)
    = [false; false; false; false; false; false; false; false; true].
Proof.
  destruct (analyse f_lost false) as [res|e] eqn:E; [|vm_compute in E; discriminate].
  exists res. split; [reflexivity|]. vm_compute in E. injection E as <-. vm_compute. reflexivity.
Qed.
